import OtelVerif.Model.KvTokIdx
import OtelVerif.Lemmas.Idx
/-! The index-explicit `StringUtil::Trim` and `KeyValueStringTokenizer::next` of `Model/KvTokIdx.lean` never fault
    (no read outside the string, no `size_t` wrap-around) and compute the list-level `trim` / `members` / `splitKv`. -/
namespace Otel
namespace KvIdx

theorem usub_ok (a b : Nat) (h : b ≤ a) : usub a b = .ok (a - b) := by unfold usub; rw [if_pos h]

/-! ### Trim -/

theorem trimLeft_decomp : ∀ s : Bytes, ∃ sp, s = sp ++ trimLeft s ∧ (∀ c ∈ sp, isSpace c = true) ∧
    (∀ c, (trimLeft s).head? = some c → isSpace c = false)
  | [] => ⟨[], rfl, by simp, by simp [trimLeft]⟩
  | c :: t => by
    by_cases hc : isSpace c = true
    · obtain ⟨sp, h1, h2, h3⟩ := trimLeft_decomp t
      refine ⟨c :: sp, ?_, ?_, ?_⟩
      · simp only [trimLeft, hc, if_true]; rw [List.cons_append, ← h1]
      · intro x hx
        simp only [List.mem_cons] at hx
        rcases hx with hx | hx
        · rw [hx]; exact hc
        · exact h2 x hx
      · simp only [trimLeft, hc, if_true]; exact h3
    · have hc' : isSpace c = false := by simpa using hc
      refine ⟨[], ?_, by simp, ?_⟩
      · simp [trimLeft, hc']
      · intro x hx
        simp [trimLeft, hc'] at hx
        rw [← hx]; exact hc'

/-- the left loop stops behind the leading white space `sp` of the range -/
theorem trimL_spec (s : Bytes) : ∀ (sp pre core post : Bytes) (fuel right : Nat), s = pre ++ sp ++ core ++ post →
    right + 1 = pre.length + sp.length + core.length → (∀ c ∈ sp, isSpace c = true) →
    (∀ c, core.head? = some c → isSpace c = false) → sp.length + 1 ≤ fuel →
    trimL s fuel pre.length right = .ok (pre.length + sp.length)
  | [], pre, core, post, fuel, right, hs, hr, _, hcore, hf => by
    cases fuel with
    | zero => simp at hf
    | succ f =>
      simp only [trimL]
      by_cases hle : pre.length ≤ right
      · rw [if_pos hle]
        cases core with
        | nil => simp at hr; omega
        | cons c t =>
          have hrd : Idx.rd s pre.length = .ok c := by
            rw [hs]; simp only [List.append_nil, List.append_assoc, List.cons_append]
            exact Idx.rd_at pre c (t ++ post)
          rw [hrd, IxRes.bind_ok, hcore c rfl]
          simp
      · rw [if_neg hle]; simp
  | x :: sp', pre, core, post, fuel, right, hs, hr, hsp, hcore, hf => by
    cases fuel with
    | zero => simp at hf
    | succ f =>
      simp only [trimL]
      have hle : pre.length ≤ right := by simp at hr; omega
      have hrd : Idx.rd s pre.length = .ok x := by
        rw [hs]; simp only [List.append_assoc, List.cons_append]
        exact Idx.rd_at pre x _
      rw [if_pos hle, hrd, IxRes.bind_ok, hsp x (by simp)]
      simp only [if_true]
      have := trimL_spec s sp' (pre ++ [x]) core post f right (by rw [hs]; simp) (by simp at hr ⊢; omega)
        (fun c hc => hsp c (by simp [hc])) hcore (by simp at hf; omega)
      simp only [List.length_append, List.length_cons, List.length_nil] at this
      rw [this]
      simp only [List.length_cons]
      congr 1; omega

/-- the right loop stops at the last byte of `core`, never decrementing below zero -/
theorem trimR_spec (s : Bytes) : ∀ (n : Nat) (sp2 pre core post : Bytes) (fuel right : Nat), sp2.length = n →
    s = pre ++ core ++ sp2 ++ post → right + 1 = pre.length + core.length + sp2.length → (∀ c ∈ sp2, isSpace c = true) →
    (core = [] → sp2 = []) → (∀ c, core.getLast? = some c → isSpace c = false) → sp2.length + 1 ≤ fuel →
    ∃ r', trimR s fuel pre.length right = .ok r' ∧ r' + 1 = pre.length + core.length := by
  intro n
  induction n with
  | zero =>
    intro sp2 pre core post fuel right hn hs hr _ _ hlast hf
    have hsp2 : sp2 = [] := List.length_eq_zero_iff.1 hn
    subst hsp2
    cases fuel with
    | zero => simp at hf
    | succ f =>
      simp only [trimR]
      by_cases hle : pre.length ≤ right
      · rw [if_pos hle]
        rcases List.eq_nil_or_concat core with hc | ⟨init, y, hc⟩
        · subst hc; simp at hr; omega
        · rw [List.concat_eq_append] at hc
          subst hc
          have hpos : right = (pre ++ init).length := by simp at hr ⊢; omega
          have hrd : Idx.rd s right = .ok y := by
            rw [hs, hpos]
            have : pre ++ (init ++ [y]) ++ [] ++ post = (pre ++ init) ++ y :: post := by simp
            rw [this]; exact Idx.rd_at _ y post
          rw [hrd, IxRes.bind_ok, hlast y (by simp)]
          exact ⟨right, by simp, by simp at hr ⊢; omega⟩
      · rw [if_neg hle]
        exact ⟨right, rfl, by simp at hr ⊢; omega⟩
  | succ m ih =>
    intro sp2 pre core post fuel right hn hs hr hsp hcore hlast hf
    rcases List.eq_nil_or_concat sp2 with h0 | ⟨L, x, hL⟩
    · subst h0; simp at hn
    · rw [List.concat_eq_append] at hL
      subst hL
      have hcne : core ≠ [] := fun h => by have := hcore h; simp at this
      cases fuel with
      | zero => simp at hf
      | succ f =>
        simp only [trimR]
        have hclen : 1 ≤ core.length := by
          cases core with
          | nil => exact absurd rfl hcne
          | cons _ _ => simp
        have hle : pre.length ≤ right := by simp at hr; omega
        have hpos : right = (pre ++ core ++ L).length := by simp at hr ⊢; omega
        have hrd : Idx.rd s right = .ok x := by
          rw [hs, hpos]
          have : pre ++ core ++ (L ++ [x]) ++ post = (pre ++ core ++ L) ++ x :: post := by simp
          rw [this]; exact Idx.rd_at _ x post
        rw [if_pos hle, hrd, IxRes.bind_ok, hsp x (by simp)]
        simp only [if_true]
        rw [usub_ok right 1 (by simp at hr; omega), IxRes.bind_ok]
        exact ih L pre core (x :: post) f (right - 1) (by simp at hn; omega) (by rw [hs]; simp)
          (by simp at hr ⊢; omega) (fun c hc => hsp c (by simp [hc])) (fun h => absurd h hcne) hlast (by simp at hf; omega)

/-- **`Trim(str, left, right)` never leaves the range** (no read outside `str`, `right--` never wraps, `1 + right - left`
    never wraps) and returns the range `mid` with its leading and trailing white space removed -/
theorem trim3_spec (pre mid post : Bytes) (right : Nat) (hr : right + 1 = pre.length + mid.length) :
    trim3 (pre ++ mid ++ post) pre.length right = .ok (trim mid) := by
  obtain ⟨sp1, h1, hsp1, hhead⟩ := trimLeft_decomp mid
  obtain ⟨sp2r, h2, hsp2, hlastr⟩ := trimLeft_decomp (trimLeft mid).reverse
  -- mid = sp1 ++ core ++ sp2 with core = trim mid
  have hcore_def : trim mid = (trimLeft (trimLeft mid).reverse).reverse := rfl
  generalize hc : trim mid = core at *
  have hmid' : trimLeft mid = core ++ sp2r.reverse := by
    have := congrArg List.reverse h2
    rw [List.reverse_reverse, List.reverse_append, ← hcore_def] at this
    exact this
  have hmid : mid = sp1 ++ core ++ sp2r.reverse := by rw [List.append_assoc, ← hmid']; exact h1
  have hsp2' : ∀ c ∈ sp2r.reverse, isSpace c = true := fun c hc => hsp2 c (List.mem_reverse.1 hc)
  have hlast : ∀ c, core.getLast? = some c → isSpace c = false := by
    intro c hcl
    rw [hcore_def, List.getLast?_reverse] at hcl
    exact hlastr c hcl
  have hhead' : ∀ c, core.head? = some c → isSpace c = false := by
    intro c hch
    apply hhead c
    rw [hmid']
    cases core with
    | nil => simp at hch
    | cons x t => simpa using hch
  have hcore_nil : core = [] → sp2r.reverse = [] := by
    intro hcn
    cases hsr : sp2r.reverse with
    | nil => rfl
    | cons x t =>
      exfalso
      have hx : isSpace x = true := hsp2' x (by rw [hsr]; simp)
      have : isSpace x = false := hhead x (by rw [hmid', hcn, hsr]; rfl)
      rw [hx] at this; cases this
  generalize hsp2n : sp2r.reverse = sp2 at *
  have hs : pre ++ mid ++ post = pre ++ sp1 ++ (core ++ sp2) ++ post := by rw [hmid]; simp
  have hlen : (pre ++ mid ++ post).length + 1 ≥ sp1.length + 1 := by rw [hmid]; simp; omega
  have hlen2 : (pre ++ mid ++ post).length + 1 ≥ sp2.length + 1 := by rw [hmid]; simp; omega
  unfold trim3
  have hheadcs : ∀ c, (core ++ sp2).head? = some c → isSpace c = false := by
    intro c hch
    cases core with
    | nil => rw [hcore_nil rfl] at hch; simp at hch
    | cons x t => exact hhead' c (by simpa using hch)
  rw [trimL_spec _ sp1 pre (core ++ sp2) post _ right hs (by rw [hmid] at hr; simp at hr ⊢; omega) hsp1 hheadcs hlen,
    IxRes.bind_ok]
  have hs2 : pre ++ mid ++ post = (pre ++ sp1) ++ core ++ sp2 ++ post := by rw [hmid]; simp
  have hl2 : pre.length + sp1.length = (pre ++ sp1).length := by simp
  rw [hl2]
  obtain ⟨r', hr1, hr2⟩ := trimR_spec _ sp2.length sp2 (pre ++ sp1) core post ((pre ++ mid ++ post).length + 1) right rfl hs2
    (by rw [hmid] at hr; simp at hr ⊢; omega) hsp2' hcore_nil hlast hlen2
  rw [hr1, IxRes.bind_ok, usub_ok _ _ (by omega), IxRes.bind_ok]
  have hn : 1 + r' - (pre ++ sp1).length = core.length := by omega
  have e : (pre ++ sp1) ++ core ++ sp2 ++ post = (pre ++ sp1) ++ core ++ (sp2 ++ post) := by simp
  rw [hn, hs2, e]
  exact Idx.substr_mid (pre ++ sp1) core (sp2 ++ post)

/-- **`Trim(str)`** -/
theorem trim1_spec (s : Bytes) : trim1 s = .ok (trim s) := by
  unfold trim1
  cases s with
  | nil => rfl
  | cons c t =>
    simp only [List.isEmpty_cons, Bool.false_eq_true, if_false]
    rw [usub_ok _ _ (by simp), IxRes.bind_ok]
    have := trim3_spec [] (c :: t) [] ((c :: t).length - 1) (by simp)
    simpa using this

/-! ### find -/

theorem findIn_takeTok (ch : UInt8) : ∀ r : Bytes, findIn ch r = (takeTok ch r).2.map fun _ => (takeTok ch r).1.length
  | [] => rfl
  | c :: t => by
    simp only [findIn, takeTok]
    by_cases hc : c = ch
    · simp [hc]
    · simp only [hc, if_false]
      rw [findIn_takeTok ch t]
      cases (takeTok ch t).2 <;> simp

theorem find_at (pre rest : Bytes) (ch : UInt8) (h : rest ≠ []) :
    find (pre ++ rest) ch pre.length = (takeTok ch rest).2.map fun _ => pre.length + (takeTok ch rest).1.length := by
  unfold find
  have hlt : pre.length < (pre ++ rest).length := by
    cases rest with
    | nil => exact absurd rfl h
    | cons _ _ => simp
  rw [if_pos hlt, List.drop_left, findIn_takeTok]
  cases (takeTok ch rest).2 <;> simp [Nat.add_comm]

/-- `find('=')` / two `substr`s split a member exactly like `splitKv`, without leaving it -/
theorem splitMember_spec (m : Bytes) (kvsep : UInt8) : splitMember m kvsep = .ok (splitKv kvsep m) := by
  unfold splitMember splitKv
  cases m with
  | nil => simp [find, takeTok]
  | cons c t =>
    have hf := find_at [] (c :: t) kvsep (by simp)
    simp only [List.nil_append, List.length_nil, Nat.zero_add] at hf
    rw [hf]
    cases htk : takeTok kvsep (c :: t) with
    | mk k o =>
      cases o with
      | none => rfl
      | some v =>
        have e := (takeTok_some htk).1
        simp only [Option.map_some]
        have h1 : Idx.substr (c :: t) 0 k.length = .ok k := by
          rw [e]
          have := Idx.substr_mid [] k (kvsep :: v)
          simpa using this
        have h2 : Idx.substrFrom (c :: t) (k.length + 1) = .ok v := by
          rw [e]
          have := Idx.substrFrom_end (k ++ [kvsep]) v
          simpa using this
        rw [h1, IxRes.bind_ok, h2, IxRes.bind_ok]

/-! ### the tokenizer loop -/

theorem tokLoop_past (s : Bytes) (msep kvsep : UInt8) (fuel index : Nat) (h : ¬ index < s.length) :
    tokLoop s msep kvsep fuel index = .ok [] := by
  cases fuel <;> simp only [tokLoop] <;> rw [if_neg h]

/-- **the tokenizer never reads outside the header** and reports, member by member, exactly the trimmed non-empty
    list members split at their first key/value separator -/
theorem tokLoop_spec (s : Bytes) (msep kvsep : UInt8) : ∀ (fuel : Nat) (rest pre : Bytes) (index : Nat), s = pre ++ rest →
    index = pre.length → rest.length ≤ fuel →
    tokLoop s msep kvsep fuel index = .ok ((kvMembers msep fuel rest).map (splitKv kvsep)) := by
  intro fuel
  induction fuel with
  | zero =>
    intro rest pre index hs hi hf
    have : rest = [] := List.length_eq_zero_iff.1 (by omega)
    subst this
    simp only [tokLoop, kvMembers]
    rw [if_neg (by rw [hs, hi]; simp)]
    rfl
  | succ f ih =>
    intro rest pre index hs hi hf
    cases rest with
    | nil =>
      rw [tokLoop_past _ _ _ _ _ (by rw [hs, hi]; simp)]
      simp [kvMembers]
    | cons c t =>
      have hlt : index < s.length := by rw [hs, hi]; simp
      have hfind := find_at pre (c :: t) msep (by simp)
      simp only [tokLoop, kvMembers]
      rw [if_pos hlt]
      unfold endOf
      rw [hs, hi, hfind]
      cases htk : takeTok msep (c :: t) with
      | mk tok o =>
        cases o with
        | none =>
          -- the last member: no further separator
          have e := (takeTok_none htk).1
          simp only [Option.map_none]
          rw [usub_ok _ _ (by simp only [List.length_append, List.length_cons]; omega), IxRes.map_ok, IxRes.bind_ok]
          simp only []
          have ht3 := trim3_spec pre (c :: t) [] ((pre ++ c :: t).length - 1) (by simp; omega)
          rw [List.append_nil] at ht3
          rw [ht3, IxRes.bind_ok, ← e]
          have hpast : ¬ (pre ++ c :: t).length - 1 + 2 < (pre ++ c :: t).length := by omega
          by_cases hm : (trim (c :: t)).isEmpty = true
          · have hl : (trim (c :: t)).length = 0 := by simpa [List.isEmpty_iff] using hm
            simp only [hl, decide_true, Bool.true_or, if_true, Bool.false_eq_true, if_false, Nat.sub_zero, hm]
            rw [tokLoop_past _ _ _ _ _ hpast]
            rfl
          · have hl : ¬ (trim (c :: t)).length = 0 := by
              intro h0; apply hm; simpa [List.isEmpty_iff] using h0
            simp only [hl, decide_false, Bool.or_self, Bool.false_eq_true, if_false, hm]
            rw [splitMember_spec, IxRes.bind_ok, tokLoop_past _ _ _ _ _ hpast]
            rfl
        | some r =>
          have e := (takeTok_some htk).1
          simp only [Option.map_some]
          by_cases htok : tok = []
          · -- an empty pair: the separator right at `index`
            subst htok
            simp only [List.length_nil, Nat.add_zero, if_true, IxRes.bind_ok]
            have hs' : pre ++ c :: t = pre ++ [msep] ++ r := by rw [e]; simp
            have ht3 := trim3_spec pre [msep] r pre.length (by simp)
            rw [hs', ht3, IxRes.bind_ok]
            simp only [Bool.or_true, if_true]
            have hidx : pre.length + 2 - 1 = (pre ++ [msep]).length := by simp
            rw [hidx, ← hs', ← hs]
            rw [ih r (pre ++ [msep]) _ (by rw [hs, hs']) rfl (by rw [e] at hf; simp at hf; omega)]
            have : (trim ([] : Bytes)).isEmpty = true := rfl
            simp only [this, if_true]
          · have hlen : 1 ≤ tok.length := by
              cases tok with
              | nil => exact absurd rfl htok
              | cons _ _ => simp
            have hne : ¬ pre.length + tok.length = pre.length := by omega
            rw [if_neg hne, usub_ok _ _ (by omega), IxRes.map_ok, IxRes.bind_ok]
            simp only []
            have hs' : pre ++ c :: t = pre ++ tok ++ (msep :: r) := by rw [e]; simp
            have ht3 := trim3_spec pre tok (msep :: r) (pre.length + tok.length - 1) (by omega)
            rw [hs', ht3, IxRes.bind_ok]
            have hidx : pre.length + tok.length - 1 + 2 = (pre ++ tok ++ [msep]).length := by simp; omega
            have hs'' : pre ++ tok ++ msep :: r = (pre ++ tok ++ [msep]) ++ r := by simp
            have hrec := ih r (pre ++ tok ++ [msep]) (pre ++ tok ++ [msep]).length (by rw [hs, hs', hs'']) rfl
              (by rw [e] at hf; simp at hf; omega)
            by_cases hm : (trim tok).isEmpty = true
            · have hl : (trim tok).length = 0 := by simpa [List.isEmpty_iff] using hm
              simp only [hl, decide_true, Bool.true_or, if_true, Bool.false_eq_true, if_false, Nat.sub_zero, hm]
              rw [hidx, ← hs', ← hs, hrec]
            · have hl : ¬ (trim tok).length = 0 := by
                intro h0; apply hm; simpa [List.isEmpty_iff] using h0
              simp only [hl, decide_false, Bool.or_self, Bool.false_eq_true, if_false, hm]
              rw [splitMember_spec, IxRes.bind_ok, hidx, ← hs', ← hs, hrec]
              rfl

/-- all results of the tokenizer on a header = the list members of `Model/KvList.lean`, each split at its first `=` -/
theorem tokens_eq (s : Bytes) (msep kvsep : UInt8) :
    tokens s msep kvsep = .ok ((members msep s).map (splitKv kvsep)) := by
  unfold tokens members
  exact tokLoop_spec s msep kvsep s.length s [] 0 rfl rfl (Nat.le_refl _)

end KvIdx
end Otel
