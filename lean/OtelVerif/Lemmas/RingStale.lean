import OtelVerif.Lemmas.Ring.Ghost
import OtelVerif.Model.RingStale
/-! The SC invariants `Ring.Inv` and `Ring.Inv2` survive stale loads of `head_` / `tail_` in `Add`. -/
namespace Otel.RingStale
open Otel.Ring

/-- `inv2_pcOnly` with the ghost `c0` allowed to decrease -/
theorem inv2_pcC0 (s s' : St) (p : Nat) (v : Prod) (h2 : Inv2 s)
    (hlog : s'.log = s.log) (hfails : s'.fails = s.fails) (hnext : s'.nextId = s.nextId) (hown : s'.own = s.own)
    (hclr : s.clr ≤ s'.clr) (hprods : s'.prods = upd s.prods p v)
    (hvel : v.elem = elOf s p) (hvc0 : v.c0 ≤ c0Of s p) (hvpc : v.pc ≠ .idle) (hold : pcOf s p ≠ .idle)
    (hld : ∀ t, v.pc = .ldHead t → v.c0 ≤ t) : Inv2 s' := by
  obtain ⟨logLt, logNodup, failsOk, flight, distinct, ldHeadC0, ownSorted, ownLe, cover⟩ := h2
  have hpc_same : pcOf s' p = v.pc := pcOf_upd_same s p v s' hprods
  have hpc_other : ∀ q, q ≠ p → pcOf s' q = pcOf s q := fun q hq => pcOf_upd_other s p q v s' hprods hq
  have hel : ∀ q, elOf s' q = elOf s q := by
    intro q
    by_cases hq : q = p
    · subst hq; simp [elOf, hprods, hvel]
    · exact elOf_upd_other s p q v s' hprods hq
  have hc0_same : c0Of s' p = v.c0 := by simp [c0Of, hprods]
  have hc0_other : ∀ q, q ≠ p → c0Of s' q = c0Of s q := fun q hq => by simp [c0Of, hprods, upd_other _ _ _ _ hq]
  have hc0_le : ∀ q, c0Of s' q ≤ c0Of s q := by
    intro q
    by_cases hq : q = p
    · subst hq; rw [hc0_same]; exact hvc0
    · rw [hc0_other q hq]; exact Nat.le_refl _
  have hidle : ∀ q, pcOf s' q ≠ .idle ↔ pcOf s q ≠ .idle := by
    intro q
    by_cases hq : q = p
    · subst hq; rw [hpc_same]; exact ⟨fun _ => hold, fun _ => hvpc⟩
    · rw [hpc_other q hq]
  refine ⟨by rw [hlog, hnext]; exact logLt, by rw [hlog]; exact logNodup, by rw [hfails, hnext, hlog]; exact failsOk,
    ?_, ?_, ?_, by rw [hlog, hown]; exact ownSorted, ?_, ?_⟩
  · intro q hq
    obtain ⟨a, b, c, d, e⟩ := flight q ((hidle q).1 hq)
    rw [hel, hnext, hlog, hfails, hown]
    exact ⟨a, b, c, d, Nat.le_trans (hc0_le q) (Nat.le_trans e hclr)⟩
  · intro q r hqr hq hr
    rw [hel, hel]
    exact distinct q r hqr ((hidle q).1 hq) ((hidle r).1 hr)
  · intro q t hq
    by_cases hqp : q = p
    · subst hqp; rw [hpc_same] at hq; rw [hc0_same]; exact hld t hq
    · rw [hpc_other q hqp] at hq; rw [hc0_other q hqp]; exact ldHeadC0 q t hq
  · intro e he
    rw [hlog] at he
    rw [hown, hel]; exact ownLe e he
  · intro e he
    rw [hnext] at he
    rcases cover e he with h | h | ⟨q, hq, hqe⟩
    · left; rw [hlog]; exact h
    · right; left; rw [hfails]; exact h
    · right; right; exact ⟨q, (hidle q).2 hq, by rw [hel]; exact hqe⟩

theorem inv_step (s s' : St) (a : Act) (hI : Inv s) (h2 : Inv2 s) (h : step s a = some s') : Inv s' ∧ Inv2 s' := by
  cases a with
  | sc a => exact ⟨Ring.inv_step s s' a hI h, Ring.inv2_step s s' a hI h2 h⟩
  | ldTailStale p t =>
    simp only [step] at h
    split at h
    · rename_i hc
      obtain ⟨hpc, ht⟩ := hc
      cases h
      have hne : pcOf s p ≠ .idle := by unfold pcOf; rw [hpc]; simp
      constructor
      · refine inv_local s _ p { (s.prods p) with pc := .ldHead t, c0 := min (s.prods p).c0 t } hI rfl rfl rfl rfl rfl rfl rfl rfl ?_ ?_ ?_ ?_
        · intro h; simp [pcOf, hpc]
        · intro h; simp
        · intro t' ht'; simp at ht'; omega
        · intro t' h' ht'; simp at ht'
      · refine inv2_pcC0 s _ p { (s.prods p) with pc := .ldHead t, c0 := min (s.prods p).c0 t } h2 rfl rfl rfl rfl (Nat.le_refl _) rfl rfl ?_ (by simp) hne ?_
        · exact Nat.min_le_left _ _
        · intro t' ht'; simp at ht'; subst ht'; exact Nat.min_le_right _ _
    · cases h
  | ldHeadStale p hh =>
    simp only [step] at h
    split at h
    · rename_i t hpc
      have hpc' : pcOf s p = .ldHead t := hpc
      have htl : t ≤ s.tail := hI.ldHeadLe p t hpc
      have hne : pcOf s p ≠ .idle := by rw [hpc']; simp
      split at h
      · rename_i hle
        split at h
        · cases h
          constructor
          · refine inv_local s _ p { (s.prods p) with pc := .idle } hI rfl rfl rfl rfl rfl rfl rfl rfl ?_ ?_ ?_ ?_
            · intro h; simp [pcOf] at hpc ⊢; simp [hpc]
            · intro h; simp
            · intro t ht; simp at ht
            · intro t h ht; simp at ht
          · exact inv2_fail s p t h2 hpc'
        · rename_i hfull
          cases h
          constructor
          · refine inv_local s _ p { (s.prods p) with pc := .swap t hh } hI rfl rfl rfl rfl rfl rfl rfl rfl ?_ ?_ ?_ ?_
            · intro h; simp [pcOf] at hpc ⊢; simp [hpc]
            · intro h; simp
            · intro t ht; simp at ht
            · intro t' h' ht; simp at ht; obtain ⟨rfl, rfl⟩ := ht
              exact ⟨htl, hle, by omega⟩
          · exact inv2_pcOnly s _ p { (s.prods p) with pc := .swap t hh } h2 rfl rfl rfl rfl (Nat.le_refl _) rfl rfl rfl
              (by simp) hne (by intro t' ht'; simp at ht')
      · cases h
    · cases h

theorem inv_run (s s' : St) (as : List Act) (hI : Inv s) (h2 : Inv2 s) (h : run s as = some s') : Inv s' ∧ Inv2 s' := by
  induction as generalizing s with
  | nil => simp [run] at h; subst h; exact ⟨hI, h2⟩
  | cons a as ih =>
    simp only [run] at h
    split at h
    · rename_i s1 hs1
      obtain ⟨a1, a2⟩ := inv_step s s1 a hI h2 hs1
      exact ih s1 a1 a2 h
    · cases h

theorem reachable_inv (cap : Nat) (hc : 2 ≤ cap) (as : List Act) (s : St) (h : run (init cap) as = some s) :
    Inv s ∧ Inv2 s := inv_run _ _ as (inv_init cap hc) (inv2_init cap) h

theorem cap_step (s s' : St) (a : Act) (h : step s a = some s') : s'.cap = s.cap := by
  cases a with
  | sc a => exact Ring.cap_step s s' a h
  | ldTailStale p t =>
    simp only [step] at h
    split at h
    · cases h; rfl
    · cases h
  | ldHeadStale p hh =>
    simp only [step] at h
    (repeat' split at h) <;> first | (cases h; rfl) | cases h

theorem cap_run (s s' : St) (as : List Act) (h : run s as = some s') : s'.cap = s.cap := by
  induction as generalizing s with
  | nil => simp [run] at h; subst h; rfl
  | cons a as ih =>
    simp only [run] at h
    split at h
    · rename_i s1 hs1; rw [ih s1 h]; exact cap_step s s1 a hs1
    · cases h

end Otel.RingStale
