import OtelVerif.Model.ObsRegLock
/-! The inductive invariant of the observable-registry lock protocol (`Model/ObsRegLock.lean`) and its preservation by
    every step of every thread. -/
namespace Otel.ObsRegLock
open Otel.Ring (upd upd_same upd_other)

/-- what the program counter of thread `t` says about the shared state -/
def TInv (s : St) (t : Nat) : Prop :=
  match s.pc t with
  | .idle => True
  | .aLock _ => True
  | .aPush _ => s.lock = some t
  | .aUnlock r => s.lock = some t ∧ r ∈ s.cbs
  | .rLock _ => True
  | .rErase _ => s.lock = some t
  | .rUnlock r => s.lock = some t ∧ r ∉ s.cbs
  | .cLock _ => True
  | .cErase _ => s.lock = some t
  | .cUnlock i => s.lock = some t ∧ ∀ r, r ∈ s.cbs → r.inst ≠ i
  | .oLock => True
  | .oLoop k snap inv => s.lock = some t ∧ s.cbs = snap ∧ inv = snap.take k
  | .oCb k snap inv r => s.lock = some t ∧ s.cbs = snap ∧ snap[k]? = some r ∧ inv = snap.take (k + 1)
  | .oUnlock snap inv => s.lock = some t ∧ s.cbs = snap ∧ inv = snap

def Inv (s : St) : Prop := ∀ t, TInv s t

theorem inv_init (regs : List Reg) : Inv (init regs) := by
  intro t; simp [TInv, init]

theorem holder_unique {s : St} {t t' : Nat} (h1 : s.lock = some t) (h2 : s.lock = some t') : t = t' := by
  rw [h1] at h2; exact Option.some.inj h2

/-- the invariant of a thread other than the stepping one: it only looks at the lock and the vector, and if it holds the
    lock the stepping thread changes neither -/
theorem TInv_frame (s : St) {s' : St} {t' : Nat} (hpc : s'.pc t' = s.pc t')
    (hlock : s.lock = some t' → s'.lock = some t') (hcbs : s.lock = some t' → s'.cbs = s.cbs) (h : TInv s t') : TInv s' t' := by
  unfold TInv at *
  rw [hpc]
  cases hp : s.pc t' with
  | idle => trivial
  | aLock r => trivial
  | aPush r => rw [hp] at h; exact hlock h
  | aUnlock r => rw [hp] at h; exact ⟨hlock h.1, by rw [hcbs h.1]; exact h.2⟩
  | rLock r => trivial
  | rErase r => rw [hp] at h; exact hlock h
  | rUnlock r => rw [hp] at h; exact ⟨hlock h.1, by rw [hcbs h.1]; exact h.2⟩
  | cLock i => trivial
  | cErase i => rw [hp] at h; exact hlock h
  | cUnlock i => rw [hp] at h; exact ⟨hlock h.1, by rw [hcbs h.1]; exact h.2⟩
  | oLock => trivial
  | oLoop k snap inv => rw [hp] at h; exact ⟨hlock h.1, by rw [hcbs h.1]; exact h.2.1, h.2.2⟩
  | oCb k snap inv r => rw [hp] at h; exact ⟨hlock h.1, by rw [hcbs h.1]; exact h.2.1, h.2.2⟩
  | oUnlock snap inv => rw [hp] at h; exact ⟨hlock h.1, by rw [hcbs h.1]; exact h.2.1, h.2.2⟩

theorem inv_call {s s' : St} {t : Nat} {op : Op} (hI : Inv s) (h : call s t op = some s') : Inv s' := by
  unfold call at h
  cases hp : s.pc t with
  | idle =>
    rw [hp] at h; simp only at h
    cases op <;> simp only at h <;> cases h <;> intro t' <;>
      (by_cases ht : t' = t
       · subst ht; simp only [TInv, upd_same]
       · exact TInv_frame s (upd_other _ _ _ _ ht) id (fun _ => rfl) (hI t'))
  | _ => rw [hp] at h; cases h

theorem take_succ_of_get {l : List Reg} {k : Nat} {r : Reg} (h : l[k]? = some r) : l.take k ++ [r] = l.take (k + 1) := by
  rw [List.take_add_one, h]; rfl

theorem take_of_get_none {l : List Reg} {k : Nat} (h : l[k]? = none) : l.take k = l :=
  List.take_of_length_le (List.getElem?_eq_none_iff.mp h)

theorem inv_step {s s' : St} {t : Nat} (hI : Inv s) (h : step s t = some s') : Inv s' := by
  unfold step at h
  have hth := hI t
  unfold TInv at hth
  -- a step of the holder that keeps the lock: other threads do not hold it
  have keep : ∀ (s1 : St), s.lock = some t → s1.lock = s.lock → (∀ t', t' ≠ t → s1.pc t' = s.pc t') → ∀ t', t' ≠ t → TInv s1 t' :=
    fun s1 hl hl1 hpc t' ht => TInv_frame s (hpc t' ht) (fun h' => by rw [hl1]; exact h')
      (fun h' => absurd (holder_unique h' hl) ht) (hI t')
  -- acquiring: nobody holds it
  have acquire : ∀ (s1 : St), s.lock = none → s1.cbs = s.cbs → (∀ t', t' ≠ t → s1.pc t' = s.pc t') → ∀ t', t' ≠ t → TInv s1 t' :=
    fun s1 hl hc hpc t' ht => TInv_frame s (hpc t' ht) (fun h' => by rw [hl] at h'; cases h') (fun _ => hc) (hI t')
  -- releasing
  have release : ∀ (s1 : St), s.lock = some t → s1.cbs = s.cbs → (∀ t', t' ≠ t → s1.pc t' = s.pc t') → ∀ t', t' ≠ t → TInv s1 t' :=
    fun s1 hl hc hpc t' ht => TInv_frame s (hpc t' ht) (fun h' => absurd (holder_unique h' hl) ht) (fun _ => hc) (hI t')
  cases hp : s.pc t with
  | idle => rw [hp] at h; cases h
  | aLock r =>
    rw [hp] at h; simp only at h
    by_cases hl : s.lock = none
    · rw [if_pos hl] at h; cases h
      intro t'
      by_cases ht : t' = t
      · subst ht; simp only [TInv, upd_same]
      · exact acquire _ hl (by rfl) (by intro t'' h''; exact upd_other _ _ _ _ h'') t' ht
    · rw [if_neg hl] at h; cases h
  | aPush r =>
    rw [hp] at h hth; simp only at h; cases h
    intro t'
    by_cases ht : t' = t
    · subst ht; simp only [TInv, upd_same]; exact ⟨hth, by simp⟩
    · exact keep _ hth (by rfl) (by intro t'' h''; exact upd_other _ _ _ _ h'') t' ht
  | aUnlock r =>
    rw [hp] at h hth; simp only at h; cases h
    intro t'
    by_cases ht : t' = t
    · subst ht; simp only [TInv, upd_same]
    · exact release _ hth.1 (by rfl) (by intro t'' h''; exact upd_other _ _ _ _ h'') t' ht
  | rLock r =>
    rw [hp] at h; simp only at h
    by_cases hl : s.lock = none
    · rw [if_pos hl] at h; cases h
      intro t'
      by_cases ht : t' = t
      · subst ht; simp only [TInv, upd_same]
      · exact acquire _ hl (by rfl) (by intro t'' h''; exact upd_other _ _ _ _ h'') t' ht
    · rw [if_neg hl] at h; cases h
  | rErase r =>
    rw [hp] at h hth; simp only at h; cases h
    intro t'
    by_cases ht : t' = t
    · subst ht; simp only [TInv, upd_same]; exact ⟨hth, by simp [List.mem_filter]⟩
    · exact keep _ hth (by rfl) (by intro t'' h''; exact upd_other _ _ _ _ h'') t' ht
  | rUnlock r =>
    rw [hp] at h hth; simp only at h; cases h
    intro t'
    by_cases ht : t' = t
    · subst ht; simp only [TInv, upd_same]
    · exact release _ hth.1 (by rfl) (by intro t'' h''; exact upd_other _ _ _ _ h'') t' ht
  | cLock i =>
    rw [hp] at h; simp only at h
    by_cases hl : s.lock = none
    · rw [if_pos hl] at h; cases h
      intro t'
      by_cases ht : t' = t
      · subst ht; simp only [TInv, upd_same]
      · exact acquire _ hl (by rfl) (by intro t'' h''; exact upd_other _ _ _ _ h'') t' ht
    · rw [if_neg hl] at h; cases h
  | cErase i =>
    rw [hp] at h hth; simp only at h; cases h
    intro t'
    by_cases ht : t' = t
    · subst ht; simp only [TInv, upd_same]
      refine ⟨hth, fun r hr => ?_⟩
      have := (List.mem_filter.mp hr).2
      simpa using this
    · exact keep _ hth (by rfl) (by intro t'' h''; exact upd_other _ _ _ _ h'') t' ht
  | cUnlock i =>
    rw [hp] at h hth; simp only at h; cases h
    intro t'
    by_cases ht : t' = t
    · subst ht; simp only [TInv, upd_same]
    · exact release _ hth.1 (by rfl) (by intro t'' h''; exact upd_other _ _ _ _ h'') t' ht
  | oLock =>
    rw [hp] at h; simp only at h
    by_cases hl : s.lock = none
    · rw [if_pos hl] at h; cases h
      intro t'
      by_cases ht : t' = t
      · subst ht; simp only [TInv, upd_same]; exact ⟨trivial, trivial, by simp⟩
      · exact acquire _ hl (by rfl) (by intro t'' h''; exact upd_other _ _ _ _ h'') t' ht
    · rw [if_neg hl] at h; cases h
  | oLoop k snap inv =>
    rw [hp] at h hth; simp only at h
    obtain ⟨hl, hc, hi⟩ := hth
    cases hg : s.cbs[k]? with
    | some r =>
      rw [hg] at h; simp only at h; cases h
      intro t'
      by_cases ht : t' = t
      · subst ht; simp only [TInv, upd_same]
        rw [hc] at hg
        exact ⟨hl, hc, hg, by rw [hi]; exact take_succ_of_get hg⟩
      · exact keep _ hl (by rfl) (by intro t'' h''; exact upd_other _ _ _ _ h'') t' ht
    | none =>
      rw [hg] at h; simp only at h; cases h
      intro t'
      by_cases ht : t' = t
      · subst ht; simp only [TInv, upd_same]
        rw [hc] at hg
        exact ⟨hl, hc, by rw [hi]; exact take_of_get_none hg⟩
      · exact keep _ hl (by rfl) (by intro t'' h''; exact upd_other _ _ _ _ h'') t' ht
  | oCb k snap inv r =>
    rw [hp] at h hth; simp only at h; cases h
    intro t'
    by_cases ht : t' = t
    · subst ht; simp only [TInv, upd_same]; exact ⟨hth.1, hth.2.1, hth.2.2.2⟩
    · exact keep _ hth.1 (by rfl) (by intro t'' h''; exact upd_other _ _ _ _ h'') t' ht
  | oUnlock snap inv =>
    rw [hp] at h hth; simp only at h; cases h
    intro t'
    by_cases ht : t' = t
    · subst ht; simp only [TInv, upd_same]
    · exact release _ hth.1 (by rfl) (by intro t'' h''; exact upd_other _ _ _ _ h'') t' ht

theorem inv_act {s s' : St} {a : Act} (hI : Inv s) (h : act s a = some s') : Inv s' := by
  cases a with
  | call t op => exact inv_call hI h
  | step t => exact inv_step hI h

theorem inv_run : ∀ (as : List Act) (s s' : St), Inv s → run s as = some s' → Inv s'
  | [], s, s', hI, h => by simp only [run] at h; cases h; exact hI
  | a :: as, s, s', hI, h => by
    simp only [run] at h
    cases ha : act s a with
    | none => rw [ha] at h; cases h
    | some s1 => rw [ha] at h; exact inv_run as s1 s' (inv_act hI ha) h

theorem reachable_inv (regs : List Reg) (as : List Act) (s : St) (h : run (init regs) as = some s) : Inv s :=
  inv_run as (init regs) s (inv_init regs) h

theorem run_append : ∀ (as bs : List Act) (s s1 s2 : St), run s as = some s1 → run s1 bs = some s2 → run s (as ++ bs) = some s2
  | [], bs, s, s1, s2, h1, h2 => by simp only [run] at h1; cases h1; exact h2
  | a :: as, bs, s, s1, s2, h1, h2 => by
    simp only [run, List.cons_append] at h1 ⊢
    cases ha : act s a with
    | none => rw [ha] at h1; cases h1
    | some s' => rw [ha] at h1; exact run_append as bs s' s1 s2 h1 h2

theorem guardPc_some {p : Pc → Bool} {t : Nat} {o : Option St} {s' : St} (h : guardPc p t o = some s') : o = some s' := by
  unfold guardPc at h
  cases o with
  | none => cases h
  | some s1 =>
    simp only at h
    split at h
    · exact h
    · cases h

/-- an accepted event of the replay is zero, one or two steps of the model -/
theorem astep_run (s s' : St) (e : Ev) (h : astep s e = some s') : ∃ as, run s as = some s' := by
  have one : ∀ t s1, step s t = some s1 → run s [.step t] = some s1 := fun t s1 h1 => by simp [run, act, h1]
  have two : ∀ t s2, ((step s t).bind fun s1 => step s1 t) = some s2 → run s [.step t, .step t] = some s2 := fun t s2 h2 => by
    cases h1 : step s t with
    | none => rw [h1] at h2; cases h2
    | some s1 => rw [h1] at h2; simp only [Option.bind_some] at h2; simp [run, act, h1, h2]
  unfold astep at h
  simp only at h
  split at h
  · rename_i op _ _; exact ⟨[.call e.t op], by simp [run, act, h]⟩
  · cases h; exact ⟨[], rfl⟩
  · exact ⟨_, two _ _ h⟩
  · exact ⟨_, one _ _ h⟩
  · exact ⟨_, two _ _ h⟩
  · exact ⟨_, one _ _ h⟩
  · exact ⟨_, two _ _ h⟩
  · exact ⟨_, one _ _ h⟩
  · exact ⟨_, one _ _ h⟩
  · exact ⟨_, one _ _ (guardPc_some h)⟩
  · split at h
    · exact ⟨_, one _ _ h⟩
    · cases h
  · cases h1 : step s e.t with
    | none => rw [h1] at h; simp [guardPc] at h
    | some s1 =>
      rw [h1] at h
      simp only [guardPc] at h
      by_cases hq : isOUnlock (s1.pc e.t) = true
      · rw [if_pos hq] at h; simp only [Option.bind_some] at h; exact ⟨[.step e.t, .step e.t], by simp [run, act, h1, h]⟩
      · rw [if_neg hq] at h; cases h
  · cases h

theorem arun_run : ∀ (es : List Ev) (s s' : St), arun s es = some s' → ∃ as, run s as = some s'
  | [], s, s', h => by simp only [arun] at h; cases h; exact ⟨[], rfl⟩
  | e :: es, s, s', h => by
    simp only [arun] at h
    cases he : astep s e with
    | none => rw [he] at h; cases h
    | some s1 =>
      rw [he] at h
      obtain ⟨as1, h1⟩ := astep_run s s1 e he
      obtain ⟨as2, h2⟩ := arun_run es s1 s' h
      exact ⟨as1 ++ as2, run_append as1 as2 s s1 s' h1 h2⟩

/-- an accepted replay of a real execution only ever takes steps of the model -/
theorem inv_arun (regs : List Reg) (es : List Ev) (s : St) (h : arun (init regs) es = some s) : Inv s := by
  obtain ⟨as, h1⟩ := arun_run es (init regs) s h
  exact reachable_inv regs as s h1

end Otel.ObsRegLock
