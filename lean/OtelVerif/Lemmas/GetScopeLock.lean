import OtelVerif.Model.GetScopeLock
/-! The inductive invariant of the get-or-create protocol (`Model/GetScopeLock.lean`) and its preservation by every step of
    every thread (any number of threads, any number of requests). -/
namespace Otel.GetScopeLock
open Otel.Ring (upd upd_same upd_other)

/-- what the program counter of thread `t` says about the shared state -/
def TInv (s : St) (t : Nat) : Prop :=
  match s.pc t with
  | .idle => True
  | .gLock _ => True
  | .gScan _ => s.lock = some t
  | .gCreate k => s.lock = some t ∧ ∀ e, e ∈ s.list → e.key ≠ k
  | .gPush k e => s.lock = some t ∧ (∀ e', e' ∈ s.list → e'.key ≠ k) ∧ e.key = k ∧ e.id < s.next ∧ ∀ e', e' ∈ s.list → e'.id ≠ e.id
  | .gHave k e => s.lock = some t ∧ e ∈ s.list ∧ e.key = k
  | .gOut k e => e ∈ s.list ∧ e.key = k

/-- the part of the invariant that is about the shared state alone -/
structure GInv (s : St) : Prop where
  keys : (s.list.map (·.key)).Nodup
  ids : (s.list.map (·.id)).Nodup
  fresh : ∀ e, e ∈ s.list → e.id < s.next
  rets : ∀ r, r ∈ s.rets → r.ent ∈ s.list ∧ r.ent.key = r.key

def Inv (s : St) : Prop := GInv s ∧ ∀ t, TInv s t

theorem inv_init : Inv init := by
  refine ⟨⟨by simp [init], by simp [init], by simp [init], by simp [init]⟩, fun t => by simp [TInv, init]⟩

theorem holder_unique {s : St} {t t' : Nat} (h1 : s.lock = some t) (h2 : s.lock = some t') : t = t' := by
  rw [h1] at h2; exact Option.some.inj h2

/-- the invariant of a thread other than the stepping one: it only looks at the lock, the list and the allocation counter;
    if it holds the lock the stepping thread changes neither the lock nor the list, and in any case the list only grows and
    the counter only increases -/
theorem TInv_frame (s : St) {s' : St} {t' : Nat} (hpc : s'.pc t' = s.pc t')
    (hlock : s.lock = some t' → s'.lock = some t') (hlist : s.lock = some t' → s'.list = s.list)
    (hnext : s.next ≤ s'.next) (hmono : ∀ e, e ∈ s.list → e ∈ s'.list) (h : TInv s t') : TInv s' t' := by
  unfold TInv at *
  rw [hpc]
  cases hp : s.pc t' with
  | idle => trivial
  | gLock k => trivial
  | gScan k => rw [hp] at h; exact hlock h
  | gCreate k => rw [hp] at h; exact ⟨hlock h.1, by rw [hlist h.1]; exact h.2⟩
  | gPush k e =>
    rw [hp] at h
    exact ⟨hlock h.1, by rw [hlist h.1]; exact h.2.1, h.2.2.1, Nat.lt_of_lt_of_le h.2.2.2.1 hnext, by rw [hlist h.1]; exact h.2.2.2.2⟩
  | gHave k e => rw [hp] at h; exact ⟨hlock h.1, hmono e h.2.1, h.2.2⟩
  | gOut k e => rw [hp] at h; exact ⟨hmono e h.1, h.2⟩

theorem inv_call {s s' : St} {t : Nat} {k : Nat} (hI : Inv s) (h : call s t k = some s') : Inv s' := by
  unfold call at h
  cases hp : s.pc t with
  | idle =>
    rw [hp] at h; simp only at h; cases h
    refine ⟨⟨hI.1.keys, hI.1.ids, hI.1.fresh, hI.1.rets⟩, fun t' => ?_⟩
    by_cases ht : t' = t
    · subst ht; simp only [TInv, upd_same]
    · exact TInv_frame s (upd_other _ _ _ _ ht) id (fun _ => rfl) (Nat.le_refl _) (fun _ h => h) (hI.2 t')
  | _ => rw [hp] at h; cases h

theorem lookup_some {l : List Ent} {k : Nat} {e : Ent} (h : lookup l k = some e) : e ∈ l ∧ e.key = k := by
  unfold lookup at h
  exact ⟨List.mem_of_find?_eq_some h, by simpa using List.find?_some h⟩

theorem lookup_none {l : List Ent} {k : Nat} (h : lookup l k = none) : ∀ e, e ∈ l → e.key ≠ k := by
  unfold lookup at h
  intro e he
  have := List.find?_eq_none.mp h e he
  simpa using this

/-- the walk finds an entry exactly when the list holds the key -/
theorem lookup_isSome_iff (l : List Ent) (k : Nat) : (lookup l k).isSome = true ↔ ∃ e, e ∈ l ∧ e.key = k := by
  constructor
  · intro h
    cases hl : lookup l k with
    | none => rw [hl] at h; cases h
    | some e => exact ⟨e, lookup_some hl⟩
  · rintro ⟨e, he, hk⟩
    cases hl : lookup l k with
    | none => exact absurd hk (lookup_none hl e he)
    | some e' => rfl

theorem nodup_map_append_single {α : Type} (f : Ent → α) (l : List Ent) (e : Ent) (hn : (l.map f).Nodup)
    (hne : ∀ e', e' ∈ l → f e' ≠ f e) : ((l ++ [e]).map f).Nodup := by
  rw [List.map_append, List.nodup_append]
  refine ⟨hn, by simp, ?_⟩
  intro a ha b hb
  obtain ⟨e', he', rfl⟩ := List.mem_map.mp ha
  simp only [List.map_cons, List.map_nil, List.mem_singleton] at hb
  subst hb
  exact hne e' he'

theorem inv_step {s s' : St} {t : Nat} (hI : Inv s) (h : step s t = some s') : Inv s' := by
  unfold step at h
  obtain ⟨hG, hT⟩ := hI
  have hth := hT t
  unfold TInv at hth
  -- a step of the holder that keeps the lock: other threads do not hold it
  have keep : ∀ (s1 : St), s.lock = some t → s1.lock = s.lock → s.next ≤ s1.next → (∀ e, e ∈ s.list → e ∈ s1.list) →
      (∀ t', t' ≠ t → s1.pc t' = s.pc t') → ∀ t', t' ≠ t → TInv s1 t' :=
    fun s1 hl hl1 hn hm hpc t' ht => TInv_frame s (hpc t' ht) (fun h' => by rw [hl1]; exact h')
      (fun h' => absurd (holder_unique h' hl) ht) hn hm (hT t')
  cases hp : s.pc t with
  | idle => rw [hp] at h; cases h
  | gLock k =>
    rw [hp] at h; simp only at h
    by_cases hl : s.lock = none
    · rw [if_pos hl] at h; cases h
      refine ⟨⟨hG.keys, hG.ids, hG.fresh, hG.rets⟩, fun t' => ?_⟩
      by_cases ht : t' = t
      · subst ht; simp only [TInv, upd_same]
      · exact TInv_frame s (upd_other _ _ _ _ ht) (fun h' => by rw [hl] at h'; cases h') (fun _ => rfl) (Nat.le_refl _)
          (fun _ h => h) (hT t')
    · rw [if_neg hl] at h; cases h
  | gScan k =>
    rw [hp] at h hth; simp only at h
    cases hl : lookup s.list k with
    | some e =>
      rw [hl] at h; simp only at h; cases h
      refine ⟨⟨hG.keys, hG.ids, hG.fresh, hG.rets⟩, fun t' => ?_⟩
      by_cases ht : t' = t
      · subst ht; simp only [TInv, upd_same]; exact ⟨hth, lookup_some hl⟩
      · exact keep _ hth (by rfl) (by exact Nat.le_refl _) (by exact fun _ h => h) (by intro t'' h''; exact upd_other _ _ _ _ h'') t' ht
    | none =>
      rw [hl] at h; simp only at h; cases h
      refine ⟨⟨hG.keys, hG.ids, hG.fresh, hG.rets⟩, fun t' => ?_⟩
      by_cases ht : t' = t
      · subst ht; simp only [TInv, upd_same]; exact ⟨hth, lookup_none hl⟩
      · exact keep _ hth (by rfl) (by exact Nat.le_refl _) (by exact fun _ h => h) (by intro t'' h''; exact upd_other _ _ _ _ h'') t' ht
  | gCreate k =>
    rw [hp] at h hth; simp only at h; cases h
    refine ⟨⟨hG.keys, hG.ids, fun e he => Nat.lt_succ_of_lt (hG.fresh e he), hG.rets⟩, fun t' => ?_⟩
    by_cases ht : t' = t
    · subst ht; simp only [TInv, upd_same]
      exact ⟨hth.1, hth.2, trivial, Nat.lt_succ_self _, fun e' he' => Nat.ne_of_lt (hG.fresh e' he')⟩
    · exact keep _ hth.1 (by rfl) (by exact Nat.le_succ _) (by exact fun _ h => h) (by intro t'' h''; exact upd_other _ _ _ _ h'') t' ht
  | gPush k e =>
    rw [hp] at h hth; simp only at h; cases h
    obtain ⟨hl, hnk, hek, hlt, hid⟩ := hth
    refine ⟨⟨nodup_map_append_single (·.key) s.list e hG.keys (fun e' he' => by rw [hek]; exact hnk e' he'),
      nodup_map_append_single (·.id) s.list e hG.ids hid, ?_, ?_⟩, fun t' => ?_⟩
    · intro e' he'
      rcases List.mem_append.mp he' with h1 | h1
      · exact hG.fresh e' h1
      · rw [List.mem_singleton.mp h1]; exact hlt
    · intro r hr
      exact ⟨List.mem_append_left _ (hG.rets r hr).1, (hG.rets r hr).2⟩
    · by_cases ht : t' = t
      · subst ht; simp only [TInv, upd_same]; exact ⟨hl, by simp, hek⟩
      · exact keep _ hl (by rfl) (by exact Nat.le_refl _) (by exact fun _ h => List.mem_append_left _ h) (by intro t'' h''; exact upd_other _ _ _ _ h'') t' ht
  | gHave k e =>
    rw [hp] at h hth; simp only at h; cases h
    refine ⟨⟨hG.keys, hG.ids, hG.fresh, hG.rets⟩, fun t' => ?_⟩
    by_cases ht : t' = t
    · subst ht; simp only [TInv, upd_same]; exact hth.2
    · exact TInv_frame s (upd_other _ _ _ _ ht) (fun h' => absurd (holder_unique h' hth.1) ht) (fun _ => rfl) (Nat.le_refl _)
        (fun _ h => h) (hT t')
  | gOut k e =>
    rw [hp] at h hth; simp only at h; cases h
    refine ⟨⟨hG.keys, hG.ids, hG.fresh, ?_⟩, fun t' => ?_⟩
    · intro r hr
      rcases List.mem_append.mp hr with h1 | h1
      · exact hG.rets r h1
      · rw [List.mem_singleton.mp h1]; exact hth
    · by_cases ht : t' = t
      · subst ht; simp only [TInv, upd_same]
      · exact TInv_frame s (upd_other _ _ _ _ ht) id (fun _ => rfl) (Nat.le_refl _) (fun _ h => h) (hT t')

theorem inv_act {s s' : St} {a : Act} (hI : Inv s) (h : act s a = some s') : Inv s' := by
  cases a with
  | call t k => exact inv_call hI h
  | step t => exact inv_step hI h

theorem inv_run : ∀ (as : List Act) (s s' : St), Inv s → run s as = some s' → Inv s'
  | [], s, s', hI, h => by simp only [run] at h; cases h; exact hI
  | a :: as, s, s', hI, h => by
    simp only [run] at h
    cases ha : act s a with
    | none => rw [ha] at h; cases h
    | some s1 => rw [ha] at h; exact inv_run as s1 s' (inv_act hI ha) h

theorem reachable_inv (as : List Act) (s : St) (h : run init as = some s) : Inv s :=
  inv_run as init s inv_init h

theorem run_append : ∀ (as bs : List Act) (s s1 s2 : St), run s as = some s1 → run s1 bs = some s2 → run s (as ++ bs) = some s2
  | [], bs, s, s1, s2, h1, h2 => by simp only [run] at h1; cases h1; exact h2
  | a :: as, bs, s, s1, s2, h1, h2 => by
    simp only [run, List.cons_append] at h1 ⊢
    cases ha : act s a with
    | none => rw [ha] at h1; cases h1
    | some s' => rw [ha] at h1; exact run_append as bs s' s1 s2 h1 h2

/-! ## Nothing ever leaves the list or the log of returns -/

/-- one action appends at most one entry to the list and at most one record to the log of returns, and removes nothing -/
theorem act_grows {s s' : St} {a : Act} (h : act s a = some s') :
    (∃ l, s'.list = s.list ++ l) ∧ (∃ l, s'.rets = s.rets ++ l) := by
  cases a with
  | call t k =>
    simp only [act, call] at h
    cases hp : s.pc t <;> rw [hp] at h <;> simp only at h <;> cases h
    exact ⟨⟨[], by simp⟩, ⟨[], by simp⟩⟩
  | step t =>
    simp only [act, step] at h
    cases hp : s.pc t <;> rw [hp] at h <;> simp only at h
    case idle => cases h
    case gLock => split at h <;> cases h; exact ⟨⟨[], by simp⟩, ⟨[], by simp⟩⟩
    case gScan k =>
      cases hl : lookup s.list k <;> rw [hl] at h <;> simp only at h <;> cases h <;> exact ⟨⟨[], by simp⟩, ⟨[], by simp⟩⟩
    case gCreate => cases h; exact ⟨⟨[], by simp⟩, ⟨[], by simp⟩⟩
    case gPush k e => cases h; exact ⟨⟨[e], rfl⟩, ⟨[], by simp⟩⟩
    case gHave => cases h; exact ⟨⟨[], by simp⟩, ⟨[], by simp⟩⟩
    case gOut k e => cases h; exact ⟨⟨[], by simp⟩, ⟨[⟨t, k, e⟩], rfl⟩⟩

theorem run_grows : ∀ (as : List Act) (s s' : St), run s as = some s' →
    (∃ l, s'.list = s.list ++ l) ∧ (∃ l, s'.rets = s.rets ++ l)
  | [], s, s', h => by simp only [run] at h; cases h; exact ⟨⟨[], by simp⟩, ⟨[], by simp⟩⟩
  | a :: as, s, s', h => by
    simp only [run] at h
    cases ha : act s a with
    | none => rw [ha] at h; cases h
    | some s1 =>
      rw [ha] at h
      obtain ⟨⟨l1, h1⟩, ⟨r1, h1'⟩⟩ := act_grows ha
      obtain ⟨⟨l2, h2⟩, ⟨r2, h2'⟩⟩ := run_grows as s1 s' h
      exact ⟨⟨l1 ++ l2, by rw [h2, h1, List.append_assoc]⟩, ⟨r1 ++ r2, by rw [h2', h1', List.append_assoc]⟩⟩

/-- in a list without two entries of one key (one identity), the key (the identity) determines the entry -/
theorem eq_of_nodup_map {α : Type} (f : Ent → α) : ∀ (l : List Ent), (l.map f).Nodup → ∀ a b, a ∈ l → b ∈ l → f a = f b → a = b
  | [], _, a, _, ha, _, _ => by cases ha
  | x :: l, hn, a, b, ha, hb, hab => by
    rw [List.map_cons, List.nodup_cons] at hn
    rcases List.mem_cons.mp ha with rfl | ha' <;> rcases List.mem_cons.mp hb with rfl | hb'
    · rfl
    · exact absurd (List.mem_map.mpr ⟨b, hb', hab.symm⟩) hn.1
    · exact absurd (List.mem_map.mpr ⟨a, ha', hab⟩) hn.1
    · exact eq_of_nodup_map f l hn.2 a b ha' hb' hab

/-! ## The replay of a real execution takes only steps of the model -/

theorem guardPc_some {p : Pc → Bool} {t : Nat} {o : Option St} {s' : St} (h : guardPc p t o = some s') : o = some s' := by
  unfold guardPc at h
  cases o with
  | none => cases h
  | some s1 =>
    simp only at h
    split at h
    · exact h
    · cases h

/-- an accepted event of the replay is one or two steps of the model -/
theorem astep_run (s s' : St) (e : Ev) (h : astep s e = some s') : ∃ as, run s as = some s' := by
  have one : ∀ t s1, step s t = some s1 → run s [.step t] = some s1 := fun t s1 h1 => by simp [run, act, h1]
  have two : ∀ t s2, ((step s t).bind fun s1 => step s1 t) = some s2 → run s [.step t, .step t] = some s2 := fun t s2 h2 => by
    cases h1 : step s t with
    | none => rw [h1] at h2; cases h2
    | some s1 => rw [h1] at h2; simp only [Option.bind_some] at h2; simp [run, act, h1, h2]
  unfold astep at h
  simp only at h
  split at h
  · rename_i k _ _; exact ⟨[.call e.t k], by simp [run, act, h]⟩
  · exact ⟨_, two _ _ h⟩
  · exact ⟨_, one _ _ (guardPc_some h)⟩
  · exact ⟨_, two _ _ h⟩
  · exact ⟨_, one _ _ h⟩
  · split at h
    · exact ⟨_, one _ _ h⟩
    · cases h
  · cases h

theorem arun_run : ∀ (es : List Ev) (s s' : St), arun s es = some s' → ∃ as, run s as = some s'
  | [], s, s', h => by simp only [arun] at h; cases h; exact ⟨[], rfl⟩
  | e :: es, s, s', h => by
    simp only [arun] at h
    cases he : astep s e with
    | none => rw [he] at h; cases h
    | some s1 =>
      rw [he] at h
      obtain ⟨as1, h1⟩ := astep_run s s1 e he
      obtain ⟨as2, h2⟩ := arun_run es s1 s' h
      exact ⟨as1 ++ as2, run_append as1 as2 s s1 s' h1 h2⟩

/-- an accepted replay of a real execution only ever takes steps of the model -/
theorem inv_arun (es : List Ev) (s : St) (h : arun init es = some s) : Inv s := by
  obtain ⟨as, h1⟩ := arun_run es init s h
  exact reachable_inv as s h1

end Otel.GetScopeLock
