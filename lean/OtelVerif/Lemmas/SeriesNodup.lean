import OtelVerif.Lemmas.SeriesStore
/-! One series per attribute set: the keys of every table — hence of every collect output — are pairwise distinct. -/
namespace Otel.Series

variable {K A V : Type} [DecidableEq K]

/-- the keys of a table are pairwise distinct -/
def KeysNodup (es : List (K × A)) : Prop := (es.map (·.1)).Nodup

theorem keys_updKey (k : K) (f : A → A) (es : List (K × A)) : (updKey k f es).map (·.1) = es.map (·.1) := by
  induction es with
  | nil => rfl
  | cons e es ih =>
    unfold updKey
    split
    · simp
    · simp [ih]

theorem lookupKey_none_iff (k : K) (es : List (K × A)) : lookupKey k es = none ↔ k ∉ es.map (·.1) := by
  induction es with
  | nil => simp [lookupKey]
  | cons e es ih =>
    by_cases h : e.1 = k
    · simp [lookupKey, h]
    · have h' : ¬ k = e.1 := fun x => h x.symm
      simp [lookupKey, h, h', ih]

theorem KeysNodup.append {es : List (K × A)} (h : KeysNodup es) {k : K} (hk : lookupKey k es = none) (a : A) :
    KeysNodup (es ++ [(k, a)]) := by
  unfold KeysNodup at *
  rw [List.map_append, List.nodup_append]
  refine ⟨h, by simp, ?_⟩
  intro x hx y hy
  simp only [List.map_cons, List.map_nil, List.mem_singleton] at hy
  subst hy
  intro hxy
  subst hxy
  exact (lookupKey_none_iff _ es).mp hk hx

theorem Table.nodup_upd {t : Table K A} (h : KeysNodup t.entries) (k : K) (f : A → A) :
    KeysNodup (updKey k f t.entries) := by
  unfold KeysNodup at *; rw [keys_updKey]; exact h

theorem has_false_iff (t : Table K A) (k : K) : ¬ t.has k = true ↔ lookupKey k t.entries = none := by
  simp [Table.has, Table.get?]

theorem Table.nodup_resolve (ovf : K) {t : Table K A} (h : KeysNodup t.entries) (k : K) (d : A) :
    KeysNodup (t.resolve ovf k d).1.entries := by
  unfold Table.resolve
  by_cases h1 : t.has k = true
  · rw [if_pos h1]; exact h
  · rw [if_neg h1]
    by_cases h2 : t.isOverflow = true
    · rw [if_pos h2]
      by_cases h3 : t.has ovf = true
      · rw [if_pos h3]; exact h
      · rw [if_neg h3]; exact h.append ((has_false_iff t ovf).mp h3) d
    · rw [if_neg h2]; exact h.append ((has_false_iff t k).mp h1) d

theorem Table.nodup_record (ag : Agg V A) (ovf : K) {t : Table K A} (h : KeysNodup t.entries) (k : K) (v : V) :
    KeysNodup (t.record ag ovf k v).entries := by
  unfold Table.record
  exact Table.nodup_upd (Table.nodup_resolve ovf h k ag.new) _ _

theorem Table.nodup_set (ovf : K) {t : Table K A} (h : KeysNodup t.entries) (k : K) (a : A) :
    KeysNodup (t.set ovf k a).entries := by
  unfold Table.set
  by_cases h1 : t.has k = true
  · rw [if_pos h1]; exact Table.nodup_upd h _ _
  · rw [if_neg h1]
    by_cases h2 : t.isOverflow = true
    · rw [if_pos h2]
      unfold assign
      by_cases h3 : (lookupKey ovf t.entries).isSome = true
      · rw [if_pos h3]; exact Table.nodup_upd h _ _
      · rw [if_neg h3]
        exact h.append (by simpa using h3) a
    · rw [if_neg h2]; exact h.append ((has_false_iff t k).mp h1) a

theorem Table.nodup_mergeEntry (ag : Agg V A) (ovf : K) {t : Table K A} (h : KeysNodup t.entries) (e : K × A) :
    KeysNodup (t.mergeEntry ag ovf e).entries := by
  unfold Table.mergeEntry
  split
  · exact Table.nodup_set ovf h _ _
  · dsimp only
    split
    · exact Table.nodup_set ovf (Table.nodup_resolve ovf h _ _) _ _
    · exact Table.nodup_resolve ovf h _ _

theorem mergeTables_nodup (c : Cfg K A V) (ts : List (Table K A)) : ∀ m : Table K A, KeysNodup m.entries →
    KeysNodup (mergeTables c m ts).entries := by
  unfold mergeTables
  induction ts with
  | nil => intro m h; exact h
  | cons t ts ih =>
    intro m h
    rw [List.foldl_cons]
    apply ih
    generalize c.iter t.entries = l
    induction l generalizing m with
    | nil => exact h
    | cons e l ihl => rw [List.foldl_cons]; exact ihl _ (Table.nodup_mergeEntry c.ag c.ovf h e)

theorem collect_nodup (c : Cfg K A V) (s : Store K A) (r : Nat) (h : KeysNodup s.cur.entries) :
    KeysNodup (s.collect c r).1.cur.entries ∧ ∀ o, (s.collect c r).2 = some o → KeysNodup o := by
  have hempty : KeysNodup (Table.empty c.limit : Table K A).entries := by simp [KeysNodup, Table.empty]
  unfold Store.collect
  simp only
  split
  · split
    · exact ⟨hempty, fun o ho => by simp at ho⟩
    · refine ⟨hempty, fun o ho => ?_⟩
      simp only [Option.some.injEq] at ho
      rw [← ho]; exact h
  · split
    · exact ⟨hempty, fun o ho => by simp at ho⟩
    · refine ⟨hempty, fun o ho => ?_⟩
      simp only [Option.some.injEq] at ho
      rw [← ho]
      have hm0 := mergeTables_nodup c ‹List (Table K A)› (Table.empty c.limit) hempty
      split
      · split
        · exact mergeTables_nodup c _ _ hm0
        · exact hm0
      · exact hm0

/-- in every collect output of every history each attribute set occurs at most once -/
theorem run_nodup (c : Cfg K A V) (ops : List (Op K V)) : ∀ s : Store K A, KeysNodup s.cur.entries →
    ∀ r o, (r, some o) ∈ (Store.run c s ops).2 → KeysNodup o := by
  induction ops with
  | nil => intro s _ r o h; simp [Store.run] at h
  | cons op ops ih =>
    intro s hs r o h
    cases op with
    | record k v =>
      simp only [Store.run] at h
      exact ih (s.record c k v) (Table.nodup_record c.ag c.ovf hs k v) r o h
    | collect r' =>
      simp only [Store.run, List.mem_cons, Prod.mk.injEq] at h
      obtain ⟨hc, ho⟩ := collect_nodup c s r' hs
      rcases h with ⟨_, h⟩ | h
      · exact ho o h.symm
      · exact ih (s.collect c r').1 hc r o h

end Otel.Series
