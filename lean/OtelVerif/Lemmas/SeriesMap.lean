import OtelVerif.Lemmas.SeriesStore
/-! The series storage is natural in the aggregation: a homomorphism of aggregations maps a run of the store to a run
    of the store (same keys, same table shapes — the control flow never looks at aggregation values).  With the free
    aggregation (lists of values) this says: every reported aggregation is the image of the list of the values that
    were merged into it. -/
namespace Otel.Series

variable {K V A B : Type} [DecidableEq K]

/-- a homomorphism of aggregations -/
structure AggHom (ag₁ : Agg V A) (ag₂ : Agg V B) (h : A → B) : Prop where
  new : h ag₁.new = ag₂.new
  add : ∀ a v, h (ag₁.add a v) = ag₂.add (h a) v
  merge : ∀ a b, h (ag₁.merge a b) = ag₂.merge (h a) (h b)

def mapE (h : A → B) (es : List (K × A)) : List (K × B) := es.map fun e => (e.1, h e.2)

def Table.map (h : A → B) (t : Table K A) : Table K B := { limit := t.limit, entries := mapE h t.entries }

theorem lookupKey_mapE (h : A → B) (k : K) (es : List (K × A)) : lookupKey k (mapE h es) = (lookupKey k es).map h := by
  induction es with
  | nil => rfl
  | cons e es ih =>
    simp only [mapE, List.map_cons, lookupKey]
    by_cases hk : e.1 = k
    · simp [hk]
    · simp only [hk, if_false]; exact ih

theorem updKey_mapE (h : A → B) (k : K) (f₁ : A → A) (f₂ : B → B) (hf : ∀ a, f₂ (h a) = h (f₁ a)) (es : List (K × A)) :
    updKey k f₂ (mapE h es) = mapE h (updKey k f₁ es) := by
  induction es with
  | nil => rfl
  | cons e es ih =>
    simp only [mapE, List.map_cons, updKey]
    by_cases hk : e.1 = k
    · simp [hk, hf]
    · simp only [hk, if_false, List.map_cons]
      congr 1

theorem mapE_append (h : A → B) (es es' : List (K × A)) : mapE h (es ++ es') = mapE h es ++ mapE h es' := by
  simp [mapE]

theorem Table.map_has (h : A → B) (t : Table K A) (k : K) : (t.map h).has k = t.has k := by
  simp [Table.has, Table.get?, Table.map, lookupKey_mapE]

theorem Table.map_get (h : A → B) (t : Table K A) (k : K) : (t.map h).get? k = (t.get? k).map h := by
  simp [Table.get?, Table.map, lookupKey_mapE]

theorem Table.map_isOverflow (h : A → B) (t : Table K A) : (t.map h).isOverflow = t.isOverflow := by
  simp [Table.isOverflow, Table.map, mapE]

theorem Table.map_resolve (h : A → B) (ovf : K) (t : Table K A) (k : K) (d : A) :
    (t.map h).resolve ovf k (h d) = ((t.resolve ovf k d).1.map h, (t.resolve ovf k d).2) := by
  unfold Table.resolve
  rw [Table.map_has, Table.map_isOverflow, Table.map_has]
  split
  · rfl
  · split
    · split
      · rfl
      · simp [Table.map, mapE]
    · simp [Table.map, mapE]

variable {ag₁ : Agg V A} {ag₂ : Agg V B} {h : A → B}

theorem Table.map_record (hh : AggHom ag₁ ag₂ h) (ovf : K) (t : Table K A) (k : K) (v : V) :
    (t.map h).record ag₂ ovf k v = (t.record ag₁ ovf k v).map h := by
  unfold Table.record
  rw [← hh.new, Table.map_resolve]
  simp only [Table.map]
  rw [updKey_mapE h _ (fun a => ag₁.add a v) (fun b => ag₂.add b v) (fun a => (hh.add a v).symm)]

theorem Table.map_set (ovf : K) (t : Table K A) (k : K) (a : A) :
    (t.map h).set ovf k (h a) = (t.set ovf k a).map h := by
  unfold Table.set
  rw [Table.map_has, Table.map_isOverflow]
  split
  · simp only [Table.map]
    rw [updKey_mapE h _ (fun _ => a) (fun _ => h a) (fun _ => rfl)]
  · split
    · simp only [Table.map, assign, lookupKey_mapE, Option.isSome_map]
      split
      · rw [updKey_mapE h _ (fun _ => a) (fun _ => h a) (fun _ => rfl)]
      · simp [mapE]
    · simp [Table.map, mapE]

theorem Table.map_mergeEntry (hh : AggHom ag₁ ag₂ h) (ovf : K) (t : Table K A) (e : K × A) :
    (t.map h).mergeEntry ag₂ ovf (e.1, h e.2) = (t.mergeEntry ag₁ ovf e).map h := by
  unfold Table.mergeEntry
  simp only [Table.map_get]
  cases hg : t.get? e.1 with
  | some cur =>
    simp only [Option.map_some]
    rw [← hh.merge, Table.map_set]
  | none =>
    simp only [Option.map_none]
    rw [← hh.new, Table.map_resolve]
    simp only [Table.map_get]
    cases hs : (t.resolve ovf e.1 ag₁.new).1.get? (t.resolve ovf e.1 ag₁.new).2 with
    | some slot =>
      simp only [Option.map_some]
      rw [← hh.merge, Table.map_set]
    | none => simp only [Option.map_none]

/-- two configurations that differ only in the aggregation, related by a homomorphism `h`; the enumeration orders
    must be compatible (they may depend on the keys and positions, not on the aggregation values) -/
structure CfgHom (c₁ : Cfg K A V) (c₂ : Cfg K B V) (h : A → B) : Prop where
  ag : AggHom c₁.ag c₂.ag h
  ovf : c₂.ovf = c₁.ovf
  limit : c₂.limit = c₁.limit
  temps : c₂.temps = c₁.temps
  iter : ∀ es, c₂.iter (mapE h es) = mapE h (c₁.iter es)

variable {c₁ : Cfg K A V} {c₂ : Cfg K B V}

theorem map_mergeTables (hc : CfgHom c₁ c₂ h) (ts : List (Table K A)) : ∀ m : Table K A,
    mergeTables c₂ (m.map h) (ts.map (Table.map h)) = (mergeTables c₁ m ts).map h := by
  unfold mergeTables
  induction ts with
  | nil => intro m; rfl
  | cons t ts ih =>
    intro m
    rw [List.map_cons, List.foldl_cons, List.foldl_cons, ← ih]
    congr 1
    show (c₂.iter (mapE h t.entries)).foldl _ _ = _
    rw [hc.iter, hc.ovf]
    generalize c₁.iter t.entries = l
    induction l generalizing m with
    | nil => rfl
    | cons e l ihl =>
      simp only [mapE, List.map_cons, List.foldl_cons]
      rw [Table.map_mergeEntry hc.ag]
      exact ihl _

/-- the image of a store -/
def Store.map (h : A → B) (s : Store K A) : Store K B :=
  { cur := s.cur.map h
    unreported := s.unreported.map fun e => (e.1, e.2.map (Table.map h))
    last := s.last.map fun e => (e.1, e.2.map h) }

theorem lookupNat_map {β γ : Type} (g : β → γ) (r : Nat) (u : List (Nat × β)) :
    lookupNat r (u.map fun e => (e.1, g e.2)) = (lookupNat r u).map g := by
  induction u with
  | nil => rfl
  | cons e u ih =>
    simp only [List.map_cons, lookupNat]
    by_cases hk : e.1 = r
    · simp [hk]
    · simp only [hk, if_false]; exact ih

theorem assignNat_map {β γ : Type} (g : β → γ) (r : Nat) (b : β) (u : List (Nat × β)) :
    assignNat r (g b) (u.map fun e => (e.1, g e.2)) = (assignNat r b u).map fun e => (e.1, g e.2) := by
  induction u with
  | nil => rfl
  | cons e u ih =>
    simp only [List.map_cons, assignNat]
    by_cases hk : e.1 = r
    · simp [hk]
    · simp only [hk, if_false, List.map_cons]
      congr 1

theorem pushUnreported_map (r : Nat) (t : Table K A) (u : List (Nat × List (Table K A))) :
    pushUnreported r (t.map h) (u.map fun e => (e.1, e.2.map (Table.map h))) =
      (pushUnreported r t u).map fun e => (e.1, e.2.map (Table.map h)) := by
  unfold pushUnreported
  rw [lookupNat_map (List.map (Table.map h)), ← assignNat_map (List.map (Table.map h))]
  congr 1
  cases lookupNat r u <;> simp

theorem pushAll_map (t : Table K A) (n : Nat) : ∀ u : List (Nat × List (Table K A)),
    (List.range n).foldl (fun u col => pushUnreported col (t.map h) u) (u.map fun e => (e.1, e.2.map (Table.map h))) =
      ((List.range n).foldl (fun u col => pushUnreported col t u) u).map fun e => (e.1, e.2.map (Table.map h)) := by
  induction n with
  | zero => intro u; rfl
  | succ n ih =>
    intro u
    rw [List.range_succ, List.foldl_append, List.foldl_append, ih]
    simp only [List.foldl_cons, List.foldl_nil]
    exact pushUnreported_map n t _

theorem Store.map_record (hc : CfgHom c₁ c₂ h) (s : Store K A) (k : K) (v : V) :
    (s.map h).record c₂ k v = (s.record c₁ k v).map h := by
  simp only [Store.record, Store.map, hc.ovf, Table.map_record hc.ag]

theorem Store.map_collect (hc : CfgHom c₁ c₂ h) (s : Store K A) (r : Nat) :
    (s.map h).collect c₂ r = (((s.collect c₁ r).1).map h, ((s.collect c₁ r).2).map (mapE h)) := by
  have hempty : (Table.empty c₂.limit : Table K B) = (Table.empty c₁.limit : Table K A).map h := by
    simp [Table.empty, Table.map, mapE, hc.limit]
  have hsize : (s.cur.map h).size = s.cur.size := by simp [Table.size, Table.map, mapE]
  unfold Store.collect
  simp only [hc.temps, Store.map, hsize]
  by_cases hfast : c₁.temps.length = 1 ∧ c₁.temps[r]? = some Temporality.delta
  · rw [if_pos hfast, if_pos hfast]
    by_cases hz : s.cur.size = 0
    · simp [hz, hempty, Store.map]
    · simp [hz, hempty, Store.map, Table.map]
  · rw [if_neg hfast, if_neg hfast]
    have hU : (if s.cur.size = 0 then (s.unreported.map fun e => (e.1, e.2.map (Table.map h)))
        else (List.range c₁.temps.length).foldl (fun u col => pushUnreported col (s.cur.map h) u)
          (s.unreported.map fun e => (e.1, e.2.map (Table.map h)))) =
        (if s.cur.size = 0 then s.unreported
          else (List.range c₁.temps.length).foldl (fun u col => pushUnreported col s.cur u) s.unreported).map
            fun e => (e.1, e.2.map (Table.map h)) := by
      by_cases hz : s.cur.size = 0
      · simp [hz]
      · simp only [hz, if_false]; exact pushAll_map s.cur _ _
    rw [hU]
    generalize (if s.cur.size = 0 then s.unreported
          else (List.range c₁.temps.length).foldl (fun u col => pushUnreported col s.cur u) s.unreported) = U
    rw [lookupNat_map (List.map (Table.map h))]
    cases hL : lookupNat r U with
    | none => simp [hempty, Store.map]
    | some ts =>
      simp only [Option.map_some]
      rw [lookupNat_map (Table.map h)]
      rw [hempty, map_mergeTables hc]
      have hnil : ([] : List (Table K B)) = ([] : List (Table K A)).map (Table.map h) := rfl
      rw [hnil, assignNat_map (List.map (Table.map h))]
      cases hlast : lookupNat r s.last with
      | none =>
        simp only [Option.map_none]
        rw [assignNat_map (Table.map h)]
        simp [Store.map, Table.map]
      | some lt =>
        simp only [Option.map_some]
        by_cases hcum : c₁.temps[r]? = some Temporality.cumulative
        · simp only [hcum, if_true]
          have : (Table.map h lt :: List.map (Table.map h) ([] : List (Table K A))) = [lt].map (Table.map h) := rfl
          rw [this, map_mergeTables hc, assignNat_map (Table.map h)]
          simp [Store.map, Table.map]
        · simp only [hcum, if_false]
          rw [assignNat_map (Table.map h)]
          simp [Store.map, Table.map]

/-- **naturality of the storage**: running a history with the aggregation `c₂.ag` gives the image, under the
    homomorphism, of running it with `c₁.ag` -/
theorem run_map (hc : CfgHom c₁ c₂ h) (ops : List (Op K V)) : ∀ s : Store K A,
    (Store.run c₂ (s.map h) ops).2 = (Store.run c₁ s ops).2.map fun o => (o.1, o.2.map (mapE h)) := by
  induction ops with
  | nil => intro s; rfl
  | cons op ops ih =>
    intro s
    cases op with
    | record k v =>
      simp only [Store.run]
      rw [Store.map_record hc, ih]
    | collect r =>
      simp only [Store.run]
      rw [Store.map_collect hc]
      simp only [List.map_cons]
      rw [ih]

theorem init_map (hc : CfgHom c₁ c₂ h) : Store.init c₂ = (Store.init c₁).map h := by
  simp [Store.init, Store.map, Table.empty, Table.map, mapE, hc.limit]

end Otel.Series
