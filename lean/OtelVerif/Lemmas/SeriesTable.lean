import OtelVerif.Model.SeriesStore
import Mathlib.Algebra.BigOperators.Group.List.Basic
/-! Lemmas about the `AttributesHashMap` model (`Otel.Series.Table`): the size invariant behind the cardinality limit
    and conservation of an additive measure through `record`, `set` and `mergeEntry`. -/
namespace Otel.Series

variable {K A V : Type} [DecidableEq K]

/-! ## association-list basics -/

theorem length_updKey (k : K) (f : A → A) (es : List (K × A)) : (updKey k f es).length = es.length := by
  induction es with
  | nil => rfl
  | cons e es ih => unfold updKey; split <;> simp [ih]

theorem lookupKey_updKey_isSome (k k' : K) (f : A → A) (es : List (K × A)) :
    (lookupKey k' (updKey k f es)).isSome = (lookupKey k' es).isSome := by
  induction es with
  | nil => rfl
  | cons e es ih =>
    unfold updKey
    by_cases h : e.1 = k
    · rw [if_pos h]
      by_cases h' : e.1 = k' <;> simp [lookupKey, h']
    · rw [if_neg h]
      by_cases h' : e.1 = k' <;> simp [lookupKey, h', ih]

theorem lookupKey_append (k k' : K) (a : A) (es : List (K × A)) :
    lookupKey k (es ++ [(k', a)]) = match lookupKey k es with
      | some x => some x
      | none => if k' = k then some a else none := by
  induction es with
  | nil => simp [lookupKey]
  | cons e es ih =>
    by_cases h : e.1 = k
    · simp [lookupKey, h]
    · simp [lookupKey, h, ih]

/-! ## the size invariant -/

/-- either there is still room below the limit, or the table is empty, or the overflow entry exists and the size is
    within the limit -/
def Table.Inv (ovf : K) (t : Table K A) : Prop :=
  t.size < t.limit ∨ t.size = 0 ∨ (t.has ovf = true ∧ t.size ≤ max t.limit 1)

theorem Table.Inv.size_le {ovf : K} {t : Table K A} (h : t.Inv ovf) : t.size ≤ max t.limit 1 := by
  rcases h with h | h | h
  · omega
  · omega
  · exact h.2

theorem Table.inv_empty (ovf : K) (l : Nat) : (Table.empty l : Table K A).Inv ovf := Or.inr (Or.inl rfl)

theorem Table.inv_upd {ovf : K} {t : Table K A} (h : t.Inv ovf) (k : K) (f : A → A) :
    ({ t with entries := updKey k f t.entries } : Table K A).Inv ovf := by
  unfold Table.Inv Table.size Table.has Table.get? at *
  simp only [length_updKey, lookupKey_updKey_isSome]
  exact h

theorem Table.inv_append_reg {ovf : K} {t : Table K A} (h : t.isOverflow = false) (k : K) (a : A) :
    ({ t with entries := t.entries ++ [(k, a)] } : Table K A).Inv ovf := by
  left
  unfold Table.isOverflow at h
  simp only [decide_eq_false_iff_not, not_le] at h
  simp only [Table.size, List.length_append, List.length_cons, List.length_nil]
  omega

theorem Table.inv_append_ovf {ovf : K} {t : Table K A} (hi : t.Inv ovf) (h : t.isOverflow = true) (hn : t.has ovf = false) (a : A) :
    ({ t with entries := t.entries ++ [(ovf, a)] } : Table K A).Inv ovf := by
  right; right
  unfold Table.isOverflow at h
  simp only [decide_eq_true_eq] at h
  constructor
  · simp only [Table.has, Table.get?, lookupKey_append]
    cases lookupKey ovf t.entries <;> simp
  · simp only [Table.size, List.length_append, List.length_cons, List.length_nil]
    rcases hi with h1 | h1 | h1
    · simp only [Table.size] at h1
      omega
    · simp only [Table.size] at h1
      omega
    · rw [hn] at h1; exact absurd h1.1 (by simp)

theorem Table.resolve_limit (ovf : K) (t : Table K A) (k : K) (d : A) : (t.resolve ovf k d).1.limit = t.limit := by
  unfold Table.resolve; split
  · rfl
  · split
    · split <;> rfl
    · rfl

theorem Table.inv_resolve {ovf : K} {t : Table K A} (hi : t.Inv ovf) (k : K) (d : A) : (t.resolve ovf k d).1.Inv ovf := by
  unfold Table.resolve
  by_cases h1 : t.has k = true
  · rw [if_pos h1]; exact hi
  · rw [if_neg h1]
    by_cases h2 : t.isOverflow = true
    · rw [if_pos h2]
      by_cases h3 : t.has ovf = true
      · rw [if_pos h3]; exact hi
      · rw [if_neg h3]; exact Table.inv_append_ovf hi h2 (by simpa using h3) d
    · rw [if_neg h2]; exact Table.inv_append_reg (by simpa using h2) k d

/-- the key `GetOrSetDefault` resolves to is present afterwards -/
theorem Table.resolve_has (ovf : K) (t : Table K A) (k : K) (d : A) :
    ∃ slot, (t.resolve ovf k d).1.get? (t.resolve ovf k d).2 = some slot := by
  unfold Table.resolve
  by_cases h1 : t.has k = true
  · rw [if_pos h1]
    exact Option.isSome_iff_exists.mp h1
  · rw [if_neg h1]
    by_cases h2 : t.isOverflow = true
    · rw [if_pos h2]
      by_cases h3 : t.has ovf = true
      · rw [if_pos h3]; exact Option.isSome_iff_exists.mp h3
      · rw [if_neg h3]
        have : lookupKey ovf t.entries = none := by
          simpa [Table.has, Table.get?] using h3
        exact ⟨d, by simp [Table.get?, lookupKey_append, this]⟩
    · rw [if_neg h2]
      have : lookupKey k t.entries = none := by
        simpa [Table.has, Table.get?] using h1
      exact ⟨d, by simp [Table.get?, lookupKey_append, this]⟩

theorem Table.record_limit (ag : Agg V A) (ovf : K) (t : Table K A) (k : K) (v : V) : (t.record ag ovf k v).limit = t.limit := by
  simp [Table.record, Table.resolve_limit]

theorem Table.inv_record (ag : Agg V A) {ovf : K} {t : Table K A} (hi : t.Inv ovf) (k : K) (v : V) : (t.record ag ovf k v).Inv ovf := by
  unfold Table.record
  exact Table.inv_upd (Table.inv_resolve hi k ag.new) _ _

theorem Table.set_limit (ovf : K) (t : Table K A) (k : K) (a : A) : (t.set ovf k a).limit = t.limit := by
  unfold Table.set; split
  · rfl
  · split <;> rfl

theorem Table.inv_set {ovf : K} {t : Table K A} (hi : t.Inv ovf) (k : K) (a : A) : (t.set ovf k a).Inv ovf := by
  unfold Table.set
  by_cases h1 : t.has k = true
  · rw [if_pos h1]; exact Table.inv_upd hi _ _
  · rw [if_neg h1]
    by_cases h2 : t.isOverflow = true
    · rw [if_pos h2]
      unfold assign
      by_cases h3 : (lookupKey ovf t.entries).isSome = true
      · rw [if_pos h3]; exact Table.inv_upd hi _ _
      · rw [if_neg h3]; exact Table.inv_append_ovf hi h2 (by simpa [Table.has, Table.get?] using h3) a
    · rw [if_neg h2]; exact Table.inv_append_reg (by simpa using h2) k a

theorem Table.mergeEntry_limit (ag : Agg V A) (ovf : K) (t : Table K A) (e : K × A) : (t.mergeEntry ag ovf e).limit = t.limit := by
  unfold Table.mergeEntry
  split
  · exact Table.set_limit ..
  · dsimp only
    split
    · rw [Table.set_limit, Table.resolve_limit]
    · exact Table.resolve_limit ..

theorem Table.inv_mergeEntry (ag : Agg V A) {ovf : K} {t : Table K A} (hi : t.Inv ovf) (e : K × A) : (t.mergeEntry ag ovf e).Inv ovf := by
  unfold Table.mergeEntry
  split
  · exact Table.inv_set hi _ _
  · dsimp only
    split
    · exact Table.inv_set (Table.inv_resolve hi _ _) _ _
    · exact Table.inv_resolve hi _ _

/-! ## conservation of an additive measure -/

section total
variable {M : Type} [AddCommMonoid M]

/-- the sum of a measure over all series of a table -/
def tot (μ : A → M) (es : List (K × A)) : M := (es.map fun e => μ e.2).sum

theorem tot_nil (μ : A → M) : tot μ ([] : List (K × A)) = 0 := rfl

theorem tot_append (μ : A → M) (es es' : List (K × A)) : tot μ (es ++ es') = tot μ es + tot μ es' := by
  simp [tot]

theorem tot_perm (μ : A → M) {es es' : List (K × A)} (h : es.Perm es') : tot μ es = tot μ es' :=
  (h.map _).sum_eq

theorem tot_updKey (μ : A → M) (k : K) (f : A → A) (d : M) :
    ∀ (es : List (K × A)) (a : A), lookupKey k es = some a → μ (f a) = μ a + d → tot μ (updKey k f es) = tot μ es + d := by
  intro es
  induction es with
  | nil => intro a h; simp [lookupKey] at h
  | cons e es ih =>
    intro a h hf
    unfold updKey
    by_cases hk : e.1 = k
    · rw [if_pos hk]
      simp only [lookupKey, if_pos hk, Option.some.injEq] at h
      subst h
      simp only [tot, List.map_cons, List.sum_cons, hf]
      rw [add_right_comm]
    · rw [if_neg hk]
      simp only [lookupKey, if_neg hk] at h
      have := ih a h hf
      simp only [tot, List.map_cons, List.sum_cons] at this ⊢
      rw [this, add_assoc]

/-- how an aggregation is measured: additive in `Aggregate` and `Merge`, zero on a fresh aggregation -/
structure Measure (ag : Agg V A) (M : Type) [AddCommMonoid M] where
  μ : A → M
  w : V → M
  new : μ ag.new = 0
  add : ∀ a v, μ (ag.add a v) = μ a + w v
  merge : ∀ a b, μ (ag.merge a b) = μ a + μ b

variable {ag : Agg V A}

theorem Table.tot_resolve (ms : Measure ag M) (ovf : K) (t : Table K A) (k : K) :
    tot ms.μ (t.resolve ovf k ag.new).1.entries = tot ms.μ t.entries := by
  unfold Table.resolve
  split
  · rfl
  · split
    · split
      · rfl
      · simp [tot_append, tot, ms.new]
    · simp [tot_append, tot, ms.new]

/-- recording a measurement adds exactly its weight to the table total — whether it gets its own series, joins an
    existing one, or is folded into the overflow series -/
theorem Table.tot_record (ms : Measure ag M) (ovf : K) (t : Table K A) (k : K) (v : V) :
    tot ms.μ (t.record ag ovf k v).entries = tot ms.μ t.entries + ms.w v := by
  unfold Table.record
  obtain ⟨slot, hs⟩ := Table.resolve_has ovf t k ag.new
  simp only
  rw [tot_updKey ms.μ _ _ (ms.w v) _ slot hs (ms.add slot v), Table.tot_resolve]

theorem Table.set_of_has (ovf : K) {t : Table K A} {k : K} (h : t.has k = true) (a : A) :
    (t.set ovf k a).entries = updKey k (fun _ => a) t.entries := by
  unfold Table.set; rw [if_pos h]

theorem Table.set_of_overflow (ovf : K) {t : Table K A} {k : K} (h1 : t.has k = false) (h2 : t.isOverflow = true)
    (h3 : t.has ovf = true) (a : A) : (t.set ovf k a).entries = updKey ovf (fun _ => a) t.entries := by
  unfold Table.set
  rw [if_neg (by simp [h1]), if_pos h2]
  unfold assign
  rw [if_pos (by simpa [Table.has, Table.get?] using h3)]

/-- one step of the interval merge adds exactly the merged series' measure — also when the series is folded into
    the overflow series (fix D10c) -/
theorem Table.tot_mergeEntry (ms : Measure ag M) (ovf : K) (t : Table K A) (e : K × A) :
    tot ms.μ (t.mergeEntry ag ovf e).entries = tot ms.μ t.entries + ms.μ e.2 := by
  unfold Table.mergeEntry
  cases hg : t.get? e.1 with
  | some cur =>
    simp only
    have hh : t.has e.1 = true := by simp [Table.has, hg]
    rw [Table.set_of_has ovf hh]
    exact tot_updKey ms.μ _ _ _ _ cur hg (ms.merge cur e.2)
  | none =>
    simp only
    have hno : t.has e.1 = false := by simp [Table.has, hg]
    obtain ⟨slot, hs⟩ := Table.resolve_has ovf t e.1 ag.new
    rw [hs]
    simp only
    have htot := Table.tot_resolve ms ovf t e.1
    -- which key did `GetOrSetDefault` resolve to?
    unfold Table.resolve at hs htot ⊢
    rw [if_neg (by simp [hno])] at hs htot ⊢
    by_cases h2 : t.isOverflow = true
    · rw [if_pos h2] at hs htot ⊢
      by_cases h3 : t.has ovf = true
      · rw [if_pos h3] at hs htot ⊢
        simp only at hs htot ⊢
        rw [Table.set_of_overflow ovf hno h2 h3]
        exact tot_updKey ms.μ _ _ _ _ slot hs (ms.merge slot e.2)
      · rw [if_neg h3] at hs htot ⊢
        simp only at hs htot ⊢
        have h3' : lookupKey ovf t.entries = none := by simpa [Table.has, Table.get?] using h3
        by_cases hk : e.1 = ovf
        · -- the merged series is the overflow series itself
          have hh : ({ t with entries := t.entries ++ [(ovf, ag.new)] } : Table K A).has e.1 = true := by
            simp [Table.has, Table.get?, lookupKey_append, hk, h3']
          rw [Table.set_of_has ovf hh]
          rw [hk]
          rw [tot_updKey ms.μ _ _ _ _ slot hs (ms.merge slot e.2), htot]
        · have hg' : lookupKey e.1 t.entries = none := hg
          have hh : ({ t with entries := t.entries ++ [(ovf, ag.new)] } : Table K A).has e.1 = false := by
            simp [Table.has, Table.get?, lookupKey_append, hg', Ne.symm hk]
          have ho : ({ t with entries := t.entries ++ [(ovf, ag.new)] } : Table K A).isOverflow = true := by
            unfold Table.isOverflow at h2 ⊢
            simp only [decide_eq_true_eq, List.length_append, List.length_cons, List.length_nil] at h2 ⊢
            omega
          have hov : ({ t with entries := t.entries ++ [(ovf, ag.new)] } : Table K A).has ovf = true := by
            simp [Table.has, Table.get?, lookupKey_append, h3']
          rw [Table.set_of_overflow ovf hh ho hov]
          rw [tot_updKey ms.μ _ _ _ _ slot hs (ms.merge slot e.2), htot]
    · rw [if_neg h2] at hs htot ⊢
      simp only at hs htot ⊢
      have hh : ({ t with entries := t.entries ++ [(e.1, ag.new)] } : Table K A).has e.1 = true := by
        simp [Table.has, Table.get?, lookupKey_append, (show lookupKey e.1 t.entries = none from hg)]
      rw [Table.set_of_has ovf hh]
      rw [tot_updKey ms.μ _ _ _ _ slot hs (ms.merge slot e.2), htot]

end total
end Otel.Series
