import OtelVerif.Lemmas.Reader
namespace Otel.Reader
open Otel.Ring (upd upd_same upd_other)

/-- the collect thread is alive only while the worker waits for / joins it -/
theorem cpc_none_of (s : St) (hw : WInv s) (h : ∀ n, s.wpc ≠ .waitF n ∧ s.wpc ≠ .joinC n) : s.cpc = .none := by
  unfold WInv at hw
  cases hpc : s.wpc <;> rw [hpc] at hw <;> simp only at hw
  all_goals first
    | exact hw.1
    | exact absurd hpc (h _).1
    | exact absurd hpc (h _).2

theorem inv_record (s : St) (hI : Inv s) : Inv { s with recorded := s.recorded + 1 } := by
  refine ⟨hI.notLe, Nat.le_succ_of_le hI.covLe, Nat.le_succ_of_le hI.cycLe, fun t a b => Nat.le_succ_of_le (hI.tickLe t a b),
    hI.tickMono, hI.ticks, ?_, ?_, ?_, hI.joinedD, hI.retd, hI.late⟩
  · exact WInv_frame (s := s) rfl rfl rfl rfl rfl rfl (Nat.le_refl _) (Nat.le_succ _) id (fun _ _ _ => rfl) hI.w
  · intro f; exact FInv_frame (s := s) f rfl (Nat.le_succ _) (Nat.le_refl _) (fun _ _ _ => rfl) (Nat.le_refl _) (Nat.le_refl _) id (hI.f f)
  · intro i; exact SInv_frame (s := s) i rfl id id (hI.sd i)

/-- a worker step: flushers, shutdown callers and `recorded` untouched -/
theorem inv_wlocal (s s' : St) (hI : Inv s) (hnd : s.wpc ≠ .done)
    (hp : s'.pending = s.pending) (hrec : s'.recorded = s.recorded) (hfl : s'.fl = s.fl) (hsd : s'.sd = s.sd)
    (hsh : s'.shutdown = s.shutdown) (hj : s'.joined = s.joined) (hret : s'.sdReturned = s.sdReturned)
    (htick : s'.tickRec = s.tickRec) (hcov : s'.covered = s.covered) (hsk : s'.skipped = s.skipped)
    (hlate : s'.lateExports = s.lateExports)
    (hnot : s.notified ≤ s'.notified ∧ s'.notified ≤ s.pending) (hcy : s'.cycFloor ≤ s.recorded)
    (hticks : ∀ t, 1 ≤ t → t ≤ s'.notified → (s.tickRec t ≤ s.covered ∨ s.skipped = true))
    (hw : WInv s') : Inv s' := by
  refine ⟨by rw [hp]; exact hnot.2, by rw [hcov, hrec]; exact hI.covLe, by rw [hrec]; exact hcy,
    by rw [htick, hp, hrec]; exact hI.tickLe, by rw [htick, hp]; exact hI.tickMono, by rw [htick, hcov, hsk]; exact hticks, hw,
    ?_, ?_, ?_, by rw [hret, hj]; exact hI.retd, by rw [hlate]; exact hI.late⟩
  · intro f
    exact FInv_frame (s := s) f (by rw [hfl]) (by rw [hrec]; exact Nat.le_refl _) (by rw [hp]; exact Nat.le_refl _)
      (fun _ _ _ => by rw [htick]) (by rw [hcov]; exact Nat.le_refl _) hnot.1 (by rw [hsk]; exact id) (hI.f f)
  · intro i; exact SInv_frame (s := s) i (by rw [hsd]) (by rw [hsh]; exact id) (by rw [hj]; exact id) (hI.sd i)
  · intro h1; rw [hj] at h1; exact absurd (hI.joinedD h1) hnd

theorem inv_wStep (s s' : St) (t : Bool) (hI : Inv s) (h : step s (.wStep t) = some s') : Inv s' := by
  simp only [step, wStep] at h
  have hw := hI.w
  unfold WInv at hw
  cases hpc : s.wpc with
  | start =>
    rw [hpc] at hw h; simp only at hw h; cases h
    refine inv_wlocal s _ hI (by rw [hpc]; simp) rfl rfl rfl rfl rfl rfl rfl rfl rfl rfl rfl ⟨Nat.le_refl _, hI.notLe⟩
      (Nat.le_refl _) hI.ticks ?_
    unfold WInv; simp only
    exact ⟨hw.1, hw.2, Nat.le_refl _, fun hn => hI.tickLe _ hn (Nat.le_refl _)⟩
  | spawn n =>
    rw [hpc] at hw h; simp only at hw h
    split at h
    · cases h
      refine inv_wlocal s _ hI (by rw [hpc]; simp) rfl rfl rfl rfl rfl rfl rfl rfl rfl rfl rfl ⟨Nat.le_refl _, hI.notLe⟩
        hI.cycLe hI.ticks ?_
      unfold WInv; simp only
      exact ⟨hw.2.2.1, hw.2.2.2, by unfold CInv; simp only; exact hw.2.1⟩
    · cases h
  | waitF n =>
    rw [hpc] at hw h; simp only at hw h
    split at h
    · cases h
      refine inv_wlocal s _ hI (by rw [hpc]; simp) rfl rfl rfl rfl rfl rfl rfl rfl rfl rfl rfl ⟨Nat.le_refl _, hI.notLe⟩
        hI.cycLe hI.ticks ?_
      unfold WInv; simp only
      exact ⟨hw.1, hw.2.1, by have := hw.2.2; unfold CInv at this ⊢; exact this⟩
    · split at h
      · cases h
        refine inv_wlocal s _ hI (by rw [hpc]; simp) rfl rfl rfl rfl rfl rfl rfl rfl rfl rfl rfl ⟨Nat.le_refl _, hI.notLe⟩
          hI.cycLe hI.ticks ?_
        unfold WInv; simp only
        exact ⟨hw.1, hw.2.1, by have := hw.2.2; unfold CInv at this ⊢; exact this⟩
      · cases h
  | joinC n =>
    rw [hpc] at hw h; simp only at hw h
    split at h
    · rename_i hfin; cases h
      obtain ⟨w1, w2, w3⟩ := hw
      unfold CInv at w3; rw [hfin] at w3; simp only at w3
      refine inv_wlocal s _ hI (by rw [hpc]; simp) rfl rfl rfl rfl rfl rfl rfl rfl rfl rfl rfl ⟨Nat.le_refl _, hI.notLe⟩
        hI.cycLe hI.ticks ?_
      unfold WInv; simp only
      refine ⟨trivial, w3.1, w1, fun hn => ?_⟩
      have := w2 hn
      rcases w3.2 with hd | hd
      · left; omega
      · right; exact hd
    · cases h
  | pubLd n =>
    rw [hpc] at hw h; simp only at hw h
    obtain ⟨w1, w2, w3, w4⟩ := hw
    split at h
    · rename_i hgt; cases h
      refine inv_wlocal s _ hI (by rw [hpc]; simp) rfl rfl rfl rfl rfl rfl rfl rfl rfl rfl rfl ⟨Nat.le_refl _, hI.notLe⟩
        hI.cycLe hI.ticks ?_
      unfold WInv; simp only; exact ⟨w1, w2, w3, w4, hgt⟩
    · cases h
      refine inv_wlocal s _ hI (by rw [hpc]; simp) rfl rfl rfl rfl rfl rfl rfl rfl rfl rfl rfl ⟨Nat.le_refl _, hI.notLe⟩
        hI.cycLe hI.ticks ?_
      unfold WInv; simp only; exact ⟨w1, w2⟩
  | pubCas n v =>
    rw [hpc] at hw h; simp only at hw h
    obtain ⟨w1, w2, w3, w4, w5⟩ := hw
    have hnl := hI.notLe
    split at h
    · rename_i hv; cases h
      refine inv_wlocal s _ hI (by rw [hpc]; simp) rfl rfl rfl rfl rfl rfl rfl rfl rfl rfl rfl
        ⟨by show s.notified ≤ n; omega, w3⟩ hI.cycLe ?_ ?_
      · intro t h1 h2
        have h2' : t ≤ n := h2
        have hm := hI.tickMono t n h1 h2' w3
        rcases w4 (by omega) with hc | hc
        · left; omega
        · right; exact hc
      · unfold WInv; simp only
        exact ⟨w1, w2, w3, w4, w5⟩
    · split at h
      · rename_i hgt; cases h
        refine inv_wlocal s _ hI (by rw [hpc]; simp) rfl rfl rfl rfl rfl rfl rfl rfl rfl rfl rfl ⟨Nat.le_refl _, hI.notLe⟩
          hI.cycLe hI.ticks ?_
        unfold WInv; simp only; exact ⟨w1, w2, w3, w4, hgt⟩
      · cases h
        refine inv_wlocal s _ hI (by rw [hpc]; simp) rfl rfl rfl rfl rfl rfl rfl rfl rfl rfl rfl ⟨Nat.le_refl _, hI.notLe⟩
          hI.cycLe hI.ticks ?_
        unfold WInv; simp only; exact ⟨w1, w2⟩
  | cvwait => rw [hpc] at h; cases h
  | loopChk =>
    rw [hpc] at hw h; simp only at hw h; cases h
    refine inv_wlocal s _ hI (by rw [hpc]; simp) rfl rfl rfl rfl rfl rfl rfl rfl rfl rfl rfl ⟨Nat.le_refl _, hI.notLe⟩
      hI.cycLe hI.ticks ?_
    unfold WInv; simp only
    by_cases hsd : s.shutdown = true
    · simp only [hsd, if_true]; exact ⟨hw.1, hw.2, trivial⟩
    · simp only [hsd]; exact ⟨hw.1, hw.2⟩
  | done => rw [hpc] at h; cases h

theorem inv_wWake (s s' : St) (hI : Inv s) (h : step s .wWake = some s') : Inv s' := by
  simp only [step] at h
  split at h
  · rename_i hpc; cases h
    have hw := hI.w
    unfold WInv at hw; rw [hpc] at hw; simp only at hw
    refine inv_wlocal s _ hI (by rw [hpc]; simp) rfl rfl rfl rfl rfl rfl rfl rfl rfl rfl rfl ⟨Nat.le_refl _, hI.notLe⟩
      hI.cycLe hI.ticks ?_
    unfold WInv; simp only; exact hw
  · cases h

/-- the collect thread's steps -/
theorem inv_cStep (s s' : St) (hI : Inv s) (h : step s .cStep = some s') : Inv s' := by
  simp only [step, cStep] at h
  have hw := hI.w
  -- the worker is waiting for / joining the collect thread
  have hwait : ∃ n, (s.wpc = .waitF n ∨ s.wpc = .joinC n) ∧ n ≤ s.pending ∧ (1 ≤ n → s.tickRec n ≤ s.cycFloor) ∧ CInv s := by
    unfold WInv at hw
    cases hpc : s.wpc <;> rw [hpc] at hw <;> simp only at hw
    all_goals first
      | exact ⟨_, Or.inl rfl, hw.1, hw.2.1, hw.2.2⟩
      | exact ⟨_, Or.inr rfl, hw.1, hw.2.1, hw.2.2⟩
      | (exfalso; have hc := hw.1; rw [hc] at h; cases h)
  obtain ⟨n, hwpc, hn1, hn2, hc⟩ := hwait
  have hnd : s.wpc ≠ .done := by rcases hwpc with e | e <;> (rw [e]; simp)
  have hnr : s.sdReturned = false := by
    cases hh : s.sdReturned with
    | false => rfl
    | true => exact absurd (hI.joinedD (hI.retd hh)) hnd
  -- rebuild the invariant given the new collect-thread facts
  have build : ∀ s1 : St, s1.wpc = s.wpc → s1.pending = s.pending → s1.notified = s.notified → s1.recorded = s.recorded →
      s1.fl = s.fl → s1.sd = s.sd → s1.shutdown = s.shutdown → s1.joined = s.joined → s1.sdReturned = s.sdReturned →
      s1.tickRec = s.tickRec → s1.cycFloor = s.cycFloor → s.covered ≤ s1.covered → s1.covered ≤ s.recorded →
      (s.skipped = true → s1.skipped = true) → s1.lateExports = 0 → CInv s1 → Inv s1 := by
    intro s1 e1 e2 e3 e4 e5 e6 e7 e8 e9 e10 e11 e12 e13 e14 e15 hc1
    refine ⟨by rw [e3, e2]; exact hI.notLe, by rw [e4]; exact e13, by rw [e11, e4]; exact hI.cycLe,
      by rw [e10, e2, e4]; exact hI.tickLe, by rw [e10, e2]; exact hI.tickMono, ?_, ?_, ?_, ?_,
      by rw [e8, e1]; exact hI.joinedD, by rw [e9, e8]; exact hI.retd, e15⟩
    · intro t h1 h2
      rw [e3] at h2; rw [e10]
      rcases hI.ticks t h1 h2 with hh | hh
      · left; omega
      · right; exact e14 hh
    · unfold WInv; rw [e1]
      rcases hwpc with e | e <;> (rw [e]; simp only; rw [e2, e10, e11]; exact ⟨hn1, hn2, hc1⟩)
    · intro f
      exact FInv_frame (s := s) f (by rw [e5]) (by rw [e4]; exact Nat.le_refl _) (by rw [e2]; exact Nat.le_refl _)
        (fun _ _ _ => by rw [e10]) e12 (by rw [e3]; exact Nat.le_refl _) e14 (hI.f f)
    · intro i; exact SInv_frame (s := s) i (by rw [e6]) (by rw [e7]; exact id) (by rw [e8]; exact id) (hI.sd i)
  unfold CInv at hc
  cases hpc : s.cpc with
  | none => rw [hpc] at h; cases h
  | produce =>
    rw [hpc] at hc h; simp only at hc h; cases h
    exact build _ rfl rfl rfl rfl rfl rfl rfl rfl rfl rfl rfl (Nat.le_refl _) hI.covLe id hI.late
      (by unfold CInv; simp only; exact ⟨hc, hI.cycLe, Nat.le_refl _⟩)
  | cancelChk p =>
    rw [hpc] at hc h; simp only at hc h
    split at h
    · cases h
      exact build _ rfl rfl rfl rfl rfl rfl rfl rfl rfl rfl rfl (Nat.le_refl _) hI.covLe (fun _ => rfl) hI.late
        (by unfold CInv; simp only; exact ⟨hc.1, Or.inr rfl⟩)
    · cases h
      exact build _ rfl rfl rfl rfl rfl rfl rfl rfl rfl rfl rfl (Nat.le_refl _) hI.covLe id hI.late
        (by unfold CInv; simp only; exact hc)
  | exportB p =>
    rw [hpc] at hc h; simp only at hc h; cases h
    refine build _ rfl rfl rfl rfl rfl rfl rfl rfl rfl rfl rfl (Nat.le_refl _) hI.covLe id ?_
      (by unfold CInv; simp only; exact ⟨by rw [hc.1], hc.2.1, hc.2.2⟩)
    show (if s.sdReturned = true then s.lateExports + 1 else s.lateExports) = 0
    simp [hnr, hI.late]
  | exportE p =>
    rw [hpc] at hc h; simp only at hc h; cases h
    have hcl := hI.covLe
    refine build _ rfl rfl rfl rfl rfl rfl rfl rfl rfl rfl rfl ?_ ?_ id hI.late ?_
    · show s.covered ≤ (if p > s.covered then p else s.covered); split <;> omega
    · show (if p > s.covered then p else s.covered) ≤ s.recorded; split <;> omega
    · unfold CInv; simp only
      refine ⟨by rw [hc.1], Or.inl ?_⟩
      show s.cycFloor ≤ (if p > s.covered then p else s.covered)
      split <;> omega
  | fin => rw [hpc] at h; cases h

end Otel.Reader
