import OtelVerif.Model.SpanLock
/-! The inductive invariant of the span lock protocol (`Model/SpanLock.lean`) and its preservation by every step of
    every thread. -/
namespace Otel.SpanLock
open Otel.Ring (upd upd_same upd_other)

/-- what the program counter of thread `t` says about the shared state -/
def TInv (s : St) (t : Nat) : Prop :=
  match s.pc t with
  | .idle => True
  | .mLock _ l => l = true → s.rcd = none
  | .mChk _ l => s.lock = some t ∧ (l = true → s.rcd = none)
  | .mWrite _ l => s.lock = some t ∧ l = false ∧ s.rcd ≠ none
  | .mUnlock m l a => s.lock = some t ∧ (l = true → a = false) ∧ (a = false → s.endBegun = true) ∧ (a = true → m ∈ s.log)
  | .eLock => s.endBegun = true
  | .eChk => s.lock = some t ∧ s.endBegun = true
  | .eDur => s.lock = some t ∧ s.ender = some t
  | .eHand => s.lock = some t ∧ s.ender = some t
  | .eUnlock => s.lock = some t ∧ s.hasEnded = true
  | .rLock l => l = true → s.rcd = none
  | .rRead l => s.lock = some t ∧ (l = true → s.rcd = none)
  | .rUnlock l b => s.lock = some t ∧ (l = true → b = false) ∧ (b = false → s.endBegun = true)
  | .rDone l b => (l = true → b = false) ∧ (b = false → s.endBegun = true)

/-- the call that holds `mu_` and has not yet written (it acquired the lock while the span was recording) -/
def pendPc (p : Pc) (r e : Bool) : List Mut :=
  match p with
  | .mChk m _ => if r then [m] else []
  | .mWrite m _ => if r then [m] else []
  | .eChk => if r && !e then [.dur] else []
  | .eDur => if r then [.dur] else []
  | _ => []

def pend (s : St) : List Mut :=
  match s.lock with
  | none => []
  | some t => pendPc (s.pc t) s.rcd.isSome s.hasEnded

def InEnd (p : Pc) : Prop := p = .eDur ∨ p = .eHand

/-- before the `End` that flips `has_ended_`: the recordable is live and holds the log -/
def Pre (s : St) : Prop := s.ender = none → s.hasEnded = false ∧ s.rcd = some s.log ∧ s.onEnds = [] ∧ s.endReturned = false

/-- from then on: either that `End` is between its test and the hand-off (it holds the lock, the recordable is live), or
    the recordable has been handed to `OnEnd` — once, holding exactly the log — and `recordable_` is null for good -/
def Post (s : St) : Prop := ∀ e, s.ender = some e → s.hasEnded = true ∧ s.endBegun = true ∧
      ((InEnd (s.pc e) ∧ s.rcd = some s.log ∧ s.onEnds = [] ∧ s.endReturned = false) ∨
       (¬ InEnd (s.pc e) ∧ s.rcd = none ∧ s.onEnds = [some s.log]))

structure Inv (s : St) : Prop where
  nd : s.nullDerefs = 0
  rl : ∀ w, s.rcd = some w → w = s.log
  pre : Pre s
  post : Post s
  th : ∀ t, TInv s t
  aq : s.acq = s.log ++ pend s

theorem inv_init : Inv init := by
  refine ⟨rfl, ?_, ?_, ?_, ?_, rfl⟩
  · intro w h; simp [init] at h; simp [init, h]
  · intro _; simp [init]
  · intro e h; simp [init] at h
  · intro t; simp [TInv, init]

/-- a thread that holds the lock excludes every other holder -/
theorem holder_unique {s : St} {t t' : Nat} (h1 : s.lock = some t) (h2 : s.lock = some t') : t = t' := by
  rw [h1] at h2; exact Option.some.inj h2

/-- the invariant of a thread other than the stepping one is kept when the shared state moves monotonically -/
theorem TInv_frame (s : St) {s' : St} {t' : Nat} (hpc : s'.pc t' = s.pc t')
    (hlock : s.lock = some t' → s'.lock = some t')
    (hrN : s.rcd = none → s'.rcd = none)
    (hrS : s.lock = some t' → s.rcd ≠ none → s'.rcd ≠ none)
    (hen : s.lock = some t' → s'.ender = s.ender)
    (hhe : s.hasEnded = true → s'.hasEnded = true)
    (hbeg : s.endBegun = true → s'.endBegun = true)
    (hlog : ∀ m, m ∈ s.log → m ∈ s'.log) (h : TInv s t') : TInv s' t' := by
  unfold TInv at *
  rw [hpc]
  cases hp : s.pc t' with
  | idle => trivial
  | mLock m l => rw [hp] at h; exact fun hl => hrN (h hl)
  | mChk m l => rw [hp] at h; exact ⟨hlock h.1, fun hl => hrN (h.2 hl)⟩
  | mWrite m l => rw [hp] at h; exact ⟨hlock h.1, h.2.1, hrS h.1 h.2.2⟩
  | mUnlock m l a => rw [hp] at h; exact ⟨hlock h.1, h.2.1, fun ha => hbeg (h.2.2.1 ha), fun ha => hlog _ (h.2.2.2 ha)⟩
  | eLock => rw [hp] at h; exact hbeg h
  | eChk => rw [hp] at h; exact ⟨hlock h.1, hbeg h.2⟩
  | eDur => rw [hp] at h; exact ⟨hlock h.1, by rw [hen h.1]; exact h.2⟩
  | eHand => rw [hp] at h; exact ⟨hlock h.1, by rw [hen h.1]; exact h.2⟩
  | eUnlock => rw [hp] at h; exact ⟨hlock h.1, hhe h.2⟩
  | rLock l => rw [hp] at h; exact fun hl => hrN (h hl)
  | rRead l => rw [hp] at h; exact ⟨hlock h.1, fun hl => hrN (h.2 hl)⟩
  | rUnlock l b => rw [hp] at h; exact ⟨hlock h.1, h.2.1, fun hb => hbeg (h.2.2 hb)⟩
  | rDone l b => rw [hp] at h; exact ⟨h.1, fun hb => hbeg (h.2 hb)⟩

/-- `pend` looks only at the lock, the holder's program counter, `recordable_` and `has_ended_` -/
theorem pend_congr (s : St) {s' : St} (hl : s'.lock = s.lock)
    (hp : ∀ h, s.lock = some h → pendPc (s'.pc h) s'.rcd.isSome s'.hasEnded = pendPc (s.pc h) s.rcd.isSome s.hasEnded) : pend s' = pend s := by
  unfold pend
  rw [hl]
  cases hlk : s.lock with
  | none => rfl
  | some h => exact hp h hlk

theorem pend_locked {s : St} {t : Nat} (h : s.lock = some t) : pend s = pendPc (s.pc t) s.rcd.isSome s.hasEnded := by
  unfold pend; rw [h]

theorem pend_unlocked {s : St} (h : s.lock = none) : pend s = [] := by
  unfold pend; rw [h]

/-- once `recordable_` is null the span has been ended by somebody: an `End` call has begun -/
theorem begun_of_null {s : St} (hI : Inv s) (h : s.rcd = none) : s.endBegun = true ∧ s.hasEnded = true := by
  cases he : s.ender with
  | none => have := (hI.pre he).2.1; rw [h] at this; cases this
  | some e => exact ⟨(hI.post e he).2.1, (hI.post e he).1⟩

theorem returned_null {s : St} (hI : Inv s) (h : s.endReturned = true) : s.rcd = none := by
  cases he : s.ender with
  | none => have := (hI.pre he).2.2.2; rw [h] at this; cases this
  | some e =>
    rcases (hI.post e he).2.2 with h1 | h1
    · have := h1.2.2.2; rw [h] at this; cases this
    · exact h1.2.1

theorem not_inEnd_of {p : Pc} (h1 : p ≠ .eDur) (h2 : p ≠ .eHand) : ¬ InEnd p := fun h => h.elim h1 h2

theorem inEnd_upd {s : St} {t : Nat} {p' : Pc} (h1 : ¬ InEnd (s.pc t)) (h2 : ¬ InEnd p') (e : Nat) :
    InEnd (upd s.pc t p' e) ↔ InEnd (s.pc e) := by
  by_cases he : e = t
  · subst he; rw [upd_same]; exact ⟨fun h => absurd h h2, fun h => absurd h h1⟩
  · rw [upd_other _ _ _ _ he]

theorem Post_keep (s : St) {s' : St} (hender : s'.ender = s.ender) (hhe : s'.hasEnded = s.hasEnded) (hbeg : s.endBegun = true → s'.endBegun = true)
    (hr : s'.rcd = s.rcd) (hlog : s'.log = s.log) (hon : s'.onEnds = s.onEnds) (hret : s'.endReturned = s.endReturned)
    (hpc : ∀ e, InEnd (s'.pc e) ↔ InEnd (s.pc e)) (h : Post s) : Post s' := by
  intro e he
  rw [hender] at he
  obtain ⟨a, b, c⟩ := h e he
  rw [hhe, hr, hlog, hon, hret, hpc e]
  exact ⟨a, hbeg b, c⟩

theorem Pre_keep (s : St) {s' : St} (hender : s'.ender = s.ender) (hhe : s'.hasEnded = s.hasEnded)
    (hr : s'.rcd = s.rcd) (hlog : s'.log = s.log) (hon : s'.onEnds = s.onEnds) (hret : s'.endReturned = s.endReturned)
    (h : Pre s) : Pre s' := by
  intro he
  rw [hender] at he
  rw [hhe, hr, hlog, hon, hret]
  exact h he

theorem aq_keep (s : St) {s' : St} (hacq : s'.acq = s.acq) (hlog : s'.log = s.log) (hp : pend s' = pend s)
    (h : s.acq = s.log ++ pend s) : s'.acq = s'.log ++ pend s' := by
  rw [hacq, hlog, hp]; exact h

theorem inv_call {s s' : St} {t : Nat} {op : Op} (hI : Inv s) (h : call s t op = some s') : Inv s' := by
  unfold call at h
  cases hp : s.pc t with
  | idle =>
    rw [hp] at h; simp only at h
    have hnE : ¬ InEnd (s.pc t) := by rw [hp]; exact not_inEnd_of (by simp) (by simp)
    have hpd : ∀ p', pendPc p' s.rcd.isSome s.hasEnded = [] → ∀ h, s.lock = some h →
        pendPc (upd s.pc t p' h) s.rcd.isSome s.hasEnded = pendPc (s.pc h) s.rcd.isSome s.hasEnded := by
      intro p' hp' h _
      by_cases hh : h = t
      · subst hh; rw [upd_same, hp, hp']; rfl
      · rw [upd_other _ _ _ _ hh]
    cases op with
    | mutate m =>
      simp only at h; cases h
      refine ⟨hI.nd, hI.rl, hI.pre, ?_, ?_, ?_⟩
      · exact Post_keep s rfl rfl id rfl rfl rfl rfl (inEnd_upd hnE (not_inEnd_of (by simp) (by simp))) hI.post
      · intro t'
        by_cases ht : t' = t
        · subst ht; simp only [TInv, upd_same]; exact fun hr => returned_null hI hr
        · exact TInv_frame s (upd_other _ _ _ _ ht) id id (fun _ => id) (fun _ => rfl) id id (fun _ => id) (hI.th t')
      · exact aq_keep s rfl rfl (pend_congr s rfl (hpd _ rfl)) hI.aq
    | endSpan =>
      simp only at h; cases h
      refine ⟨hI.nd, hI.rl, hI.pre, ?_, ?_, ?_⟩
      · exact Post_keep s rfl rfl (fun _ => rfl) rfl rfl rfl rfl (inEnd_upd hnE (not_inEnd_of (by simp) (by simp))) hI.post
      · intro t'
        by_cases ht : t' = t
        · subst ht; simp only [TInv, upd_same]
        · exact TInv_frame s (upd_other _ _ _ _ ht) id id (fun _ => id) (fun _ => rfl) id (fun _ => rfl) (fun _ => id) (hI.th t')
      · exact aq_keep s rfl rfl (pend_congr s rfl (hpd _ rfl)) hI.aq
    | isRec =>
      simp only at h; cases h
      refine ⟨hI.nd, hI.rl, hI.pre, ?_, ?_, ?_⟩
      · exact Post_keep s rfl rfl id rfl rfl rfl rfl (inEnd_upd hnE (not_inEnd_of (by simp) (by simp))) hI.post
      · intro t'
        by_cases ht : t' = t
        · subst ht; simp only [TInv, upd_same]; exact fun hr => returned_null hI hr
        · exact TInv_frame s (upd_other _ _ _ _ ht) id id (fun _ => id) (fun _ => rfl) id id (fun _ => id) (hI.th t')
      · exact aq_keep s rfl rfl (pend_congr s rfl (hpd _ rfl)) hI.aq
  | _ => rw [hp] at h; cases h

/-- `pend` after a step of the lock holder `t` that keeps the lock -/
theorem pend_holder (s : St) {s' : St} {t : Nat} {p' : Pc} (hl : s.lock = some t) (hl' : s'.lock = s.lock) (hpc : s'.pc = upd s.pc t p') :
    pend s' = pendPc p' s'.rcd.isSome s'.hasEnded := by
  unfold pend; rw [hl', hl]; simp only; rw [hpc, upd_same]

/-- the thread that flipped `has_ended_` is not between its test and the hand-off while somebody else holds the lock -/
theorem ender_done {s : St} {t e : Nat} (hI : Inv s) (hl : s.lock = some t) (hnE : ¬ InEnd (s.pc t)) (he : s.ender = some e) :
    ¬ InEnd (s.pc e) ∧ s.rcd = none ∧ s.onEnds = [some s.log] := by
  rcases (hI.post e he).2.2 with h1 | h1
  · exfalso
    have hth := hI.th e
    have : s.lock = some e := by
      unfold TInv at hth
      rcases h1.1 with h | h <;> rw [h] at hth <;> exact hth.1
    have := holder_unique hl this
    subst this
    exact hnE h1.1
  · exact h1

theorem inv_step {s s' : St} {t : Nat} (hI : Inv s) (h : step s t = some s') : Inv s' := by
  unfold step at h
  have hth := hI.th t
  unfold TInv at hth
  have hOthers : ∀ p', ∀ t', t' ≠ t → TInv { s with pc := upd s.pc t p' } t' := fun p' t' ht =>
    TInv_frame s (upd_other _ _ _ _ ht) id id (fun _ => id) (fun _ => rfl) id id (fun _ => id) (hI.th t')
  cases hp : s.pc t with
  | idle => rw [hp] at h; cases h
  | mLock m l =>
    rw [hp] at h hth; simp only at h
    by_cases hl : s.lock = none
    · rw [if_pos hl] at h; cases h
      have hnE : ¬ InEnd (s.pc t) := by rw [hp]; exact not_inEnd_of (by simp) (by simp)
      refine ⟨hI.nd, hI.rl, Pre_keep s rfl rfl rfl rfl rfl rfl hI.pre, ?_, ?_, ?_⟩
      · exact Post_keep s rfl rfl id rfl rfl rfl rfl (inEnd_upd hnE (not_inEnd_of (by simp) (by simp))) hI.post
      · intro t'
        by_cases ht : t' = t
        · subst ht; simp only [TInv, upd_same]; exact ⟨trivial, hth⟩
        · exact TInv_frame s (upd_other _ _ _ _ ht) (fun h => by rw [hl] at h; cases h) id (fun _ => id) (fun _ => rfl) id id (fun _ => id) (hI.th t')
      · have hpe : pend s = [] := by unfold pend; rw [hl]
        have haq := hI.aq; rw [hpe, List.append_nil] at haq
        simp only [pend, pendPc, upd_same, willApply, haq]
        cases s.rcd.isSome <;> simp
    · rw [if_neg hl] at h; cases h
  | mChk m l =>
    rw [hp] at h hth; simp only at h
    have hnE : ¬ InEnd (s.pc t) := by rw [hp]; exact not_inEnd_of (by simp) (by simp)
    have hpe : pend s = pendPc (.mChk m l) s.rcd.isSome s.hasEnded := by rw [pend_locked hth.1, hp]
    cases hr : s.rcd with
    | none =>
      rw [hr] at h; simp only at h; cases h
      refine ⟨hI.nd, fun w' hw' => (by cases hw'), Pre_keep s rfl rfl hr.symm rfl rfl rfl hI.pre, ?_, ?_, ?_⟩
      · exact Post_keep s rfl rfl id hr.symm rfl rfl rfl (inEnd_upd hnE (not_inEnd_of (by simp) (by simp))) hI.post
      · intro t'
        by_cases ht : t' = t
        · subst ht; simp only [TInv, upd_same]
          simp [hth.1, (begun_of_null hI hr).1]
        · exact TInv_frame s (upd_other _ _ _ _ ht) id (fun _ => rfl) (fun _ h => absurd hr h) (fun _ => rfl) id id (fun _ => id) (hI.th t')
      · have haq := hI.aq
        rw [hpe] at haq
        simp only [pend, hth.1, upd_same]
        simpa [pendPc, hr] using haq
    | some w =>
      rw [hr] at h; simp only at h; cases h
      refine ⟨hI.nd, fun w' hw' => hI.rl w' (hr.trans hw'), Pre_keep s rfl rfl hr.symm rfl rfl rfl hI.pre, ?_, ?_, ?_⟩
      · exact Post_keep s rfl rfl id hr.symm rfl rfl rfl (inEnd_upd hnE (not_inEnd_of (by simp) (by simp))) hI.post
      · intro t'
        by_cases ht : t' = t
        · subst ht; simp only [TInv, upd_same]
          refine ⟨hth.1, ?_, by simp⟩
          cases l with
          | false => rfl
          | true => have := hth.2 rfl; rw [hr] at this; cases this
        · exact TInv_frame s (upd_other _ _ _ _ ht) id (fun h => by rw [hr] at h; cases h) (fun _ _ => by simp) (fun _ => rfl) id id (fun _ => id) (hI.th t')
      · have haq := hI.aq
        rw [hpe] at haq
        simp only [pend, hth.1, upd_same]
        simpa [pendPc, hr] using haq
  | mWrite m l =>
    rw [hp] at h hth; simp only at h
    have hnE : ¬ InEnd (s.pc t) := by rw [hp]; exact not_inEnd_of (by simp) (by simp)
    cases hr : s.rcd with
    | none => exact absurd hr hth.2.2
    | some w =>
      rw [hr] at h; simp only at h; cases h
      have hw : w = s.log := hI.rl w hr
      have hen : s.ender = none := by
        cases he : s.ender with
        | none => rfl
        | some e => have := (ender_done hI hth.1 hnE he).2.1; rw [hr] at this; cases this
      refine ⟨hI.nd, ?_, ?_, ?_, ?_, ?_⟩
      · intro w' hw'; simp only [Option.some.injEq] at hw'; rw [← hw', hw]
      · intro _; exact ⟨(hI.pre hen).1, by simp only [hw], (hI.pre hen).2.2.1, (hI.pre hen).2.2.2⟩
      · intro e he; simp only at he; rw [hen] at he; cases he
      · intro t'
        by_cases ht : t' = t
        · subst ht; simp only [TInv, upd_same]
          refine ⟨hth.1, ?_, ?_, ?_⟩
          · intro hl; rw [hth.2.1] at hl; cases hl
          · intro h; cases h
          · intro _; simp
        · exact TInv_frame s (upd_other _ _ _ _ ht) id (fun h => by rw [hr] at h; cases h) (fun _ _ => by simp) (fun _ => rfl) id id
            (fun m' hm' => List.mem_append_left _ hm') (hI.th t')
      · have haq := hI.aq
        rw [pend_locked hth.1, hp] at haq
        simp only [pendPc, hr, Option.isSome_some, if_true] at haq
        simp only [pend, hth.1, upd_same, pendPc, List.append_nil]; exact haq
  | mUnlock m l a =>
    rw [hp] at h hth; simp only at h; cases h
    have hnE : ¬ InEnd (s.pc t) := by rw [hp]; exact not_inEnd_of (by simp) (by simp)
    refine ⟨hI.nd, hI.rl, Pre_keep s rfl rfl rfl rfl rfl rfl hI.pre, ?_, ?_, ?_⟩
    · exact Post_keep s rfl rfl id rfl rfl rfl rfl (inEnd_upd hnE (not_inEnd_of (by simp) (by simp))) hI.post
    · intro t'
      by_cases ht : t' = t
      · subst ht; simp only [TInv, upd_same]
      · exact TInv_frame s (upd_other _ _ _ _ ht) (fun h => absurd (holder_unique h hth.1) ht) id (fun _ => id) (fun _ => rfl) id id (fun _ => id) (hI.th t')
    · have haq := hI.aq
      rw [pend_locked hth.1, hp] at haq
      simp only [pendPc, List.append_nil] at haq
      simp only [pend, List.append_nil]; exact haq
  | eLock =>
    rw [hp] at h hth; simp only at h
    by_cases hl : s.lock = none
    · rw [if_pos hl] at h; cases h
      have hnE : ¬ InEnd (s.pc t) := by rw [hp]; exact not_inEnd_of (by simp) (by simp)
      refine ⟨hI.nd, hI.rl, Pre_keep s rfl rfl rfl rfl rfl rfl hI.pre, ?_, ?_, ?_⟩
      · exact Post_keep s rfl rfl id rfl rfl rfl rfl (inEnd_upd hnE (not_inEnd_of (by simp) (by simp))) hI.post
      · intro t'
        by_cases ht : t' = t
        · subst ht; simp only [TInv, upd_same]; exact ⟨trivial, hth⟩
        · exact TInv_frame s (upd_other _ _ _ _ ht) (fun h => by rw [hl] at h; cases h) id (fun _ => id) (fun _ => rfl) id id (fun _ => id) (hI.th t')
      · have hpe : pend s = [] := by unfold pend; rw [hl]
        have haq := hI.aq; rw [hpe, List.append_nil] at haq
        simp only [pend, pendPc, upd_same, willApply, haq]
        cases s.rcd.isSome <;> cases s.hasEnded <;> simp
    · rw [if_neg hl] at h; cases h
  | eChk =>
    rw [hp] at h hth; simp only at h
    have hnE : ¬ InEnd (s.pc t) := by rw [hp]; exact not_inEnd_of (by simp) (by simp)
    have hpe : pend s = pendPc .eChk s.rcd.isSome s.hasEnded := by rw [pend_locked hth.1, hp]
    by_cases hE : s.hasEnded = true
    · rw [if_pos hE] at h; cases h
      refine ⟨hI.nd, hI.rl, Pre_keep s rfl rfl rfl rfl rfl rfl hI.pre, ?_, ?_, ?_⟩
      · exact Post_keep s rfl rfl id rfl rfl rfl rfl (inEnd_upd hnE (not_inEnd_of (by simp) (by simp))) hI.post
      · intro t'
        by_cases ht : t' = t
        · subst ht; simp only [TInv, upd_same]; exact ⟨hth.1, hE⟩
        · exact hOthers _ t' ht
      · have haq := hI.aq
        rw [hpe] at haq
        simp only [pend, hth.1, upd_same]
        simpa [pendPc, hE] using haq
    · rw [if_neg hE] at h
      have hE' : s.hasEnded = false := by cases hh : s.hasEnded <;> simp_all
      have hen : s.ender = none := by
        cases he : s.ender with
        | none => rfl
        | some e => have := (hI.post e he).1; rw [hE'] at this; cases this
      obtain ⟨_, hrl, hon, hret⟩ := hI.pre hen
      rw [hrl] at h; simp only at h; cases h
      refine ⟨hI.nd, ?_, ?_, ?_, ?_, ?_⟩
      · intro w' hw'; exact hI.rl w' (hrl.trans hw')
      · intro he; cases he
      · intro e he
        simp only [Option.some.injEq] at he; subst he
        refine ⟨rfl, hth.2, Or.inl ⟨?_, rfl, hon, hret⟩⟩
        simp only [upd_same]; exact Or.inl rfl
      · intro t'
        by_cases ht : t' = t
        · subst ht; simp only [TInv, upd_same]; exact ⟨hth.1, trivial⟩
        · exact TInv_frame s (upd_other _ _ _ _ ht) id (fun h => by rw [hrl] at h; cases h) (fun _ _ => by simp)
            (fun h => absurd (holder_unique h hth.1) ht) (fun _ => rfl) id (fun _ => id) (hI.th t')
      · have haq := hI.aq
        rw [hpe] at haq
        simp only [pend, hth.1, upd_same]
        simpa [pendPc, hE', hrl] using haq
  | eDur =>
    rw [hp] at h hth; simp only at h
    have hin : InEnd (s.pc t) := by rw [hp]; exact Or.inl rfl
    obtain ⟨hE, hB, hd⟩ := hI.post t hth.2
    rcases hd with ⟨_, hrl, hon, hret⟩ | ⟨hn, _⟩
    · rw [hrl] at h; simp only at h; cases h
      refine ⟨hI.nd, ?_, ?_, ?_, ?_, ?_⟩
      · intro w' hw'; simp only [Option.some.injEq] at hw'; exact hw'.symm
      · intro he; rw [hth.2] at he; cases he
      · intro e he
        have : e = t := by rw [hth.2] at he; exact (Option.some.inj he).symm
        subst this
        refine ⟨hE, hB, Or.inl ⟨?_, rfl, hon, hret⟩⟩
        simp only [upd_same]; exact Or.inr rfl
      · intro t'
        by_cases ht : t' = t
        · subst ht; simp only [TInv, upd_same]; exact ⟨hth.1, hth.2⟩
        · exact TInv_frame s (upd_other _ _ _ _ ht) id (fun h => by rw [hrl] at h; cases h) (fun _ _ => by simp) (fun _ => rfl) id id
            (fun m' hm' => List.mem_append_left _ hm') (hI.th t')
      · have haq := hI.aq
        rw [pend_locked hth.1, hp] at haq
        simp only [pendPc, hrl, Option.isSome_some, if_true] at haq
        simp only [pend, hth.1, upd_same, pendPc, List.append_nil]; exact haq
    · exact absurd hin hn
  | eHand =>
    rw [hp] at h hth; simp only at h; cases h
    have hin : InEnd (s.pc t) := by rw [hp]; exact Or.inr rfl
    obtain ⟨hE, hB, hd⟩ := hI.post t hth.2
    rcases hd with ⟨_, hrl, hon, hret⟩ | ⟨hn, _⟩
    · refine ⟨hI.nd, ?_, ?_, ?_, ?_, ?_⟩
      · intro w' hw'; cases hw'
      · intro he; rw [hth.2] at he; cases he
      · intro e he
        have : e = t := by rw [hth.2] at he; exact (Option.some.inj he).symm
        subst this
        refine ⟨hE, hB, Or.inr ⟨?_, rfl, ?_⟩⟩
        · simp only [upd_same]; exact not_inEnd_of (by simp) (by simp)
        · simp only [hrl, hon]
      · intro t'
        by_cases ht : t' = t
        · subst ht; simp only [TInv, upd_same]; exact ⟨hth.1, hE⟩
        · exact TInv_frame s (upd_other _ _ _ _ ht) id (fun _ => rfl) (fun h => absurd (holder_unique h hth.1) ht) (fun _ => rfl) id id
            (fun _ => id) (hI.th t')
      · have haq := hI.aq
        rw [pend_locked hth.1, hp] at haq
        simp only [pendPc, List.append_nil] at haq
        simp only [pend, hth.1, upd_same, pendPc, List.append_nil]; exact haq
    · exact absurd hin hn
  | eUnlock =>
    rw [hp] at h hth; simp only at h; cases h
    have hnE : ¬ InEnd (s.pc t) := by rw [hp]; exact not_inEnd_of (by simp) (by simp)
    have hex : ∃ e, s.ender = some e := by
      cases he : s.ender with
      | none => have := (hI.pre he).1; rw [hth.2] at this; cases this
      | some e => exact ⟨e, rfl⟩
    obtain ⟨e, he⟩ := hex
    obtain ⟨hne, hrn, hon⟩ := ender_done hI hth.1 hnE he
    obtain ⟨hE, hB, _⟩ := hI.post e he
    refine ⟨hI.nd, hI.rl, ?_, ?_, ?_, ?_⟩
    · intro he'; rw [he] at he'; cases he'
    · intro e' he'
      have : e' = e := by rw [he] at he'; exact (Option.some.inj he').symm
      subst this
      exact ⟨hE, hB, Or.inr ⟨fun hh => hne ((inEnd_upd (p' := .idle) hnE (not_inEnd_of (by simp) (by simp)) e').mp hh), hrn, hon⟩⟩
    · intro t'
      by_cases ht : t' = t
      · subst ht; simp only [TInv, upd_same]
      · exact TInv_frame s (upd_other _ _ _ _ ht) (fun h => absurd (holder_unique h hth.1) ht) id (fun _ => id) (fun _ => rfl) id id (fun _ => id) (hI.th t')
    · have haq := hI.aq
      rw [pend_locked hth.1, hp] at haq
      simp only [pendPc, List.append_nil] at haq
      simp only [pend, List.append_nil]; exact haq
  | rLock l =>
    rw [hp] at h hth; simp only at h
    by_cases hl : s.lock = none
    · rw [if_pos hl] at h; cases h
      have hnE : ¬ InEnd (s.pc t) := by rw [hp]; exact not_inEnd_of (by simp) (by simp)
      refine ⟨hI.nd, hI.rl, Pre_keep s rfl rfl rfl rfl rfl rfl hI.pre, ?_, ?_, ?_⟩
      · exact Post_keep s rfl rfl id rfl rfl rfl rfl (inEnd_upd hnE (not_inEnd_of (by simp) (by simp))) hI.post
      · intro t'
        by_cases ht : t' = t
        · subst ht; simp only [TInv, upd_same]; exact ⟨trivial, hth⟩
        · exact TInv_frame s (upd_other _ _ _ _ ht) (fun h => by rw [hl] at h; cases h) id (fun _ => id) (fun _ => rfl) id id (fun _ => id) (hI.th t')
      · have hpe : pend s = [] := by unfold pend; rw [hl]
        have haq := hI.aq; rw [hpe, List.append_nil] at haq
        simp only [pend, pendPc, upd_same, haq, List.append_nil]
    · rw [if_neg hl] at h; cases h
  | rRead l =>
    rw [hp] at h hth; simp only at h; cases h
    have hnE : ¬ InEnd (s.pc t) := by rw [hp]; exact not_inEnd_of (by simp) (by simp)
    refine ⟨hI.nd, hI.rl, Pre_keep s rfl rfl rfl rfl rfl rfl hI.pre, ?_, ?_, ?_⟩
    · exact Post_keep s rfl rfl id rfl rfl rfl rfl (inEnd_upd hnE (not_inEnd_of (by simp) (by simp))) hI.post
    · intro t'
      by_cases ht : t' = t
      · subst ht; simp only [TInv, upd_same]
        refine ⟨hth.1, fun hl => by rw [hth.2 hl]; rfl, fun hb => ?_⟩
        cases hr : s.rcd with
        | none => exact (begun_of_null hI hr).1
        | some w => rw [hr] at hb; cases hb
      · exact hOthers _ t' ht
    · have haq := hI.aq
      rw [pend_locked hth.1, hp] at haq
      simp only [pendPc, List.append_nil] at haq
      simp only [pend, hth.1, upd_same, pendPc, List.append_nil]; exact haq
  | rUnlock l b =>
    rw [hp] at h hth; simp only at h; cases h
    have hnE : ¬ InEnd (s.pc t) := by rw [hp]; exact not_inEnd_of (by simp) (by simp)
    refine ⟨hI.nd, hI.rl, Pre_keep s rfl rfl rfl rfl rfl rfl hI.pre, ?_, ?_, ?_⟩
    · exact Post_keep s rfl rfl id rfl rfl rfl rfl (inEnd_upd hnE (not_inEnd_of (by simp) (by simp))) hI.post
    · intro t'
      by_cases ht : t' = t
      · subst ht; simp only [TInv, upd_same]; exact ⟨hth.2.1, hth.2.2⟩
      · exact TInv_frame s (upd_other _ _ _ _ ht) (fun h => absurd (holder_unique h hth.1) ht) id (fun _ => id) (fun _ => rfl) id id (fun _ => id) (hI.th t')
    · have haq := hI.aq
      rw [pend_locked hth.1, hp] at haq
      simp only [pendPc, List.append_nil] at haq
      simp only [pend, List.append_nil]; exact haq
  | rDone l b =>
    rw [hp] at h hth; simp only at h; cases h
    have hnE : ¬ InEnd (s.pc t) := by rw [hp]; exact not_inEnd_of (by simp) (by simp)
    refine ⟨hI.nd, hI.rl, Pre_keep s rfl rfl rfl rfl rfl rfl hI.pre, ?_, ?_, ?_⟩
    · exact Post_keep s rfl rfl id rfl rfl rfl rfl (inEnd_upd hnE (not_inEnd_of (by simp) (by simp))) hI.post
    · intro t'
      by_cases ht : t' = t
      · subst ht; simp only [TInv, upd_same]
      · exact hOthers _ t' ht
    · refine aq_keep s rfl rfl (pend_congr s rfl ?_) hI.aq
      intro h _
      by_cases hh : h = t
      · subst hh; simp only [upd_same]; rw [hp]; rfl
      · simp only [upd_other _ _ _ _ hh]

theorem inv_act {s s' : St} {a : Act} (hI : Inv s) (h : act s a = some s') : Inv s' := by
  cases a with
  | call t op => exact inv_call hI h
  | step t => exact inv_step hI h

theorem inv_run : ∀ (as : List Act) (s s' : St), Inv s → run s as = some s' → Inv s'
  | [], s, s', hI, h => by simp only [run] at h; cases h; exact hI
  | a :: as, s, s', hI, h => by
    simp only [run] at h
    cases ha : act s a with
    | none => rw [ha] at h; cases h
    | some s1 => rw [ha] at h; exact inv_run as s1 s' (inv_act hI ha) h

theorem reachable_inv (as : List Act) (s : St) (h : run init as = some s) : Inv s := inv_run as init s inv_init h

theorem run_append : ∀ (as bs : List Act) (s s1 s2 : St), run s as = some s1 → run s1 bs = some s2 → run s (as ++ bs) = some s2
  | [], bs, s, s1, s2, h1, h2 => by simp only [run] at h1; cases h1; exact h2
  | a :: as, bs, s, s1, s2, h1, h2 => by
    simp only [run, List.cons_append] at h1 ⊢
    cases ha : act s a with
    | none => rw [ha] at h1; cases h1
    | some s' => rw [ha] at h1; exact run_append as bs s' s1 s2 h1 h2

/-- an accepted event of the replay is zero, one or two steps of the model -/
theorem astep_run (s s' : St) (e : Ev) (h : astep s e = some s') : ∃ as, run s as = some s' := by
  have one : ∀ t s1, step s t = some s1 → run s [.step t] = some s1 := fun t s1 h1 => by simp [run, act, h1]
  have two : ∀ t s2, ((step s t).bind fun s1 => step s1 t) = some s2 → run s [.step t, .step t] = some s2 := fun t s2 h2 => by
    cases h1 : step s t with
    | none => rw [h1] at h2; cases h2
    | some s1 => rw [h1] at h2; simp only [Option.bind_some] at h2; simp [run, act, h1, h2]
  have grd : ∀ (c : Bool) t, guardEq c (step s t) = some s' → run s [.step t] = some s' := fun c t hg => by
    unfold guardEq at hg
    cases c with
    | false => cases hg
    | true => exact one t s' hg
  unfold astep at h
  simp only at h
  split at h
  · rename_i op _ _; exact ⟨[.call e.t op], by simp [run, act, h]⟩
  · cases h; exact ⟨[], rfl⟩
  · exact ⟨_, two _ _ h⟩
  · exact ⟨_, grd _ _ h⟩
  · exact ⟨_, one _ _ h⟩
  · exact ⟨_, two _ _ h⟩
  · exact ⟨_, grd _ _ h⟩
  · exact ⟨_, grd _ _ h⟩
  · exact ⟨_, one _ _ h⟩
  · exact ⟨_, two _ _ h⟩
  · exact ⟨_, one _ _ h⟩
  · exact ⟨_, grd _ _ h⟩
  · cases h

theorem arun_run : ∀ (es : List Ev) (s s' : St), arun s es = some s' → ∃ as, run s as = some s'
  | [], s, s', h => by simp only [arun] at h; cases h; exact ⟨[], rfl⟩
  | e :: es, s, s', h => by
    simp only [arun] at h
    cases he : astep s e with
    | none => rw [he] at h; cases h
    | some s1 =>
      rw [he] at h
      obtain ⟨as1, h1⟩ := astep_run s s1 e he
      obtain ⟨as2, h2⟩ := arun_run es s1 s' h
      exact ⟨as1 ++ as2, run_append as1 as2 s s1 s' h1 h2⟩

/-- an accepted replay of a real execution only ever takes steps of the model: every state it passes satisfies the invariant -/
theorem inv_arun (es : List Ev) (s : St) (h : arun init es = some s) : Inv s := by
  obtain ⟨as, h1⟩ := arun_run es init s h
  exact reachable_inv as s h1

end Otel.SpanLock
