import OtelVerif.Model.RelAcqSpin
import OtelVerif.Lemmas.RelAcq
/-! The inductive invariant of the spin-lock client on release/acquire memory (`Model/RelAcqSpin.lean`), preserved by
    every step whenever the two exchanges are acquire and the unlocking store is release (`Orders.ok`). -/
namespace Otel.RelAcq.Spin
open Otel.Ring (upd upd_same upd_other)

def HoldsPc (pc : Pc) : Prop := pc = .csRead ∨ (∃ r, pc = .csWrite r) ∨ pc = .unlock

theorem holds_iff (s : St) (p : Nat) : Holds s p ↔ HoldsPc (s.pcs p) := Iff.rfl

structure Inv (s : St) : Prop where
  unique   : ∀ p q, Holds s p → Holds s q → p = q
  held     : ∀ p, Holds s p → s.m.latestVal flagL = 1
  released : s.m.latestVal flagL = 0 → lmv s.m flagL cellL = (s.m.na cellL).clk
  holderV  : ∀ p, Holds s p → cv s.m p cellL = (s.m.na cellL).clk
  viewsLe  : ∀ t, cv s.m t cellL ≤ (s.m.na cellL).clk
  msgsLe   : MsgsLe s.m flagL cellL (s.m.na cellL).clk
  lastWLe  : (s.m.na cellL).lastW ≤ (s.m.na cellL).clk
  noRace   : s.m.race = false
  cellVal  : (s.m.na cellL).val = lastWritten s.hist
  chained  : Chained s.hist
  counts   : lastWritten s.hist = s.hist.length
  readVal  : ∀ p r, s.pcs p = .csWrite r → r = (s.m.na cellL).val

theorem inv_init : Inv init := by
  refine ⟨?_, ?_, ?_, ?_, ?_, ?_, ?_, ?_, ?_, ?_, ?_, ?_⟩
  · intro p q hp; simp [Holds, init] at hp
  · intro p hp; simp [Holds, init] at hp
  · intro _; show lmv Mem.init flagL cellL = (Mem.init.na cellL).clk; rw [init_lmv]; rfl
  · intro p hp; simp [Holds, init] at hp
  · intro t; simp [init, init_cv]
  · exact init_msgsLe _ _ _
  · simp [init, Mem.init]
  · rfl
  · rfl
  · trivial
  · rfl
  · intro p r h; simp [init] at h

theorem cell_ne_flag : cellL ≠ flagL := by decide

/-- `Holds` after a change of `p`'s program counter -/
theorem holds_upd (s : St) (p : Nat) (pc : Pc) (m' : Mem) (h' : List (Nat × Nat)) (q : Nat) :
    Holds { m := m', pcs := upd s.pcs p pc, hist := h' } q ↔ (if q = p then HoldsPc pc else Holds s q) := by
  by_cases hq : q = p
  · subst hq; simp [Holds, HoldsPc]
  · simp [Holds, hq, upd_other _ _ _ _ hq]

theorem not_holds_of_pc {s : St} {p : Nat} {pc : Pc} (h : s.pcs p = pc) (hn : ¬ HoldsPc pc) : ¬ Holds s p := by
  rw [holds_iff, h]; exact hn

/-- a step that changes only `p`'s program counter between two non-holding values and `p`'s view within bounds -/
theorem inv_frame (s : St) (p : Nat) (pc : Pc) (m' : Mem) (hI : Inv s)
    (hold : ¬ Holds s p) (hnew : ¬ HoldsPc pc)
    (hatom : m'.atom = s.m.atom) (hna : m'.na = s.m.na) (hrace : m'.race = s.m.race)
    (hcvo : ∀ t, t ≠ p → cv m' t cellL = cv s.m t cellL) (hcvp : cv m' p cellL ≤ (s.m.na cellL).clk) :
    Inv { m := m', pcs := upd s.pcs p pc, hist := s.hist } := by
  have hH : ∀ q, Holds { m := m', pcs := upd s.pcs p pc, hist := s.hist } q → Holds s q ∧ q ≠ p := by
    intro q hq
    rw [holds_upd] at hq
    by_cases hqp : q = p
    · rw [if_pos hqp] at hq; exact absurd hq hnew
    · rw [if_neg hqp] at hq; exact ⟨hq, hqp⟩
  have hlv : ∀ l, m'.latestVal l = s.m.latestVal l := fun l => by simp [Mem.latestVal, hatom]
  have hlm : ∀ l x, lmv m' l x = lmv s.m l x := fun l x => by simp [lmv, hatom]
  refine ⟨?_, ?_, ?_, ?_, ?_, ?_, ?_, ?_, ?_, hI.chained, hI.counts, ?_⟩
  · intro a b ha hb; exact hI.unique a b (hH a ha).1 (hH b hb).1
  · intro a ha; show m'.latestVal flagL = 1; rw [hlv]; exact hI.held a (hH a ha).1
  · intro h0
    show lmv m' flagL cellL = (m'.na cellL).clk
    rw [hlm, hna]; apply hI.released; rw [← hlv]; exact h0
  · intro a ha
    obtain ⟨h1, h2⟩ := hH a ha
    show cv m' a cellL = (m'.na cellL).clk
    rw [hcvo a h2, hna]; exact hI.holderV a h1
  · intro t
    show cv m' t cellL ≤ (m'.na cellL).clk
    rw [hna]
    by_cases ht : t = p
    · subst ht; exact hcvp
    · rw [hcvo t ht]; exact hI.viewsLe t
  · show MsgsLe m' flagL cellL (m'.na cellL).clk
    rw [hna]; intro msg hm; rw [hatom] at hm; exact hI.msgsLe msg hm
  · show (m'.na cellL).lastW ≤ (m'.na cellL).clk; rw [hna]; exact hI.lastWLe
  · show m'.race = false; rw [hrace]; exact hI.noRace
  · show (m'.na cellL).val = _; rw [hna]; exact hI.cellVal
  · intro a r ha
    show r = (m'.na cellL).val
    rw [hna]
    by_cases hap : a = p
    · subst hap
      simp only [setPc, upd_same] at ha
      exact absurd (ha ▸ Or.inr (Or.inl ⟨r, rfl⟩) : HoldsPc pc) hnew
    · simp only [setPc, upd_other _ _ _ _ hap] at ha; exact hI.readVal a r ha

theorem inv_begin (o : Orders) (s s' : St) (p : Nat) (b : Bool) (hI : Inv s) (h : step o s (.begin p b) = some s') : Inv s' := by
  simp only [step] at h
  split at h
  · rename_i hpc
    cases h
    refine inv_frame s p _ s.m hI (not_holds_of_pc hpc (by simp [HoldsPc])) ?_ rfl rfl rfl (fun _ _ => rfl) (hI.viewsLe p)
    cases b <;> simp [HoldsPc]
  · cases h

theorem inv_load (o : Orders) (s s' : St) (p k : Nat) (hI : Inv s) (h : step o s (.load p k) = some s') : Inv s' := by
  simp only [step] at h
  split at h
  · rename_i hpc
    split at h
    · rename_i v m' hl
      cases h
      obtain ⟨msg, _, _, hatom, hna, hrace, _⟩ := load_some hl
      refine inv_frame s p _ m' hI (not_holds_of_pc hpc (by simp [HoldsPc])) ?_ hatom hna hrace
        (fun t ht => load_cv_other hl t cellL ht) (load_cv_le hl cellL _ cell_ne_flag hI.msgsLe (hI.viewsLe p))
      split <;> simp [HoldsPc]
    · cases h
  · cases h

/-- the exchange of an acquisition attempt, for either exchange site -/
theorem inv_xchg_core (s : St) (p : Nat) (ox : MO) (hacq : ox.isAcq = true) (hI : Inv s) :
    Inv { m := (rmw s.m p flagL ox 1).2, pcs := upd s.pcs p (afterXchg (rmw s.m p flagL ox 1).1), hist := s.hist } := by
  have hne := cell_ne_flag
  have hna : (rmw s.m p flagL ox 1).2.na = s.m.na := rfl
  have hold : (rmw s.m p flagL ox 1).1 = s.m.latestVal flagL := rfl
  have hcvp : cv (rmw s.m p flagL ox 1).2 p cellL = max (cv s.m p cellL) (lmv s.m flagL cellL) := by
    rw [rmw_cv_self _ _ _ _ _ _ hne, hacq]; rfl
  have hlm_le : lmv s.m flagL cellL ≤ (s.m.na cellL).clk := lmv_le hI.msgsLe
  have hcvp_le : cv (rmw s.m p flagL ox 1).2 p cellL ≤ (s.m.na cellL).clk := by
    rw [hcvp]; exact Nat.max_le.2 ⟨hI.viewsLe p, hlm_le⟩
  have hnew_le : lmv (rmw s.m p flagL ox 1).2 flagL cellL ≤ (s.m.na cellL).clk := by
    rw [rmw_lmv_same]
    refine Nat.max_le.2 ⟨?_, hlm_le⟩
    split
    · exact hcvp_le
    · exact Nat.zero_le _
  have hH : ∀ q, q ≠ p → (Holds { m := (rmw s.m p flagL ox 1).2, pcs := upd s.pcs p (afterXchg (rmw s.m p flagL ox 1).1), hist := s.hist } q ↔ Holds s q) := by
    intro q hq; rw [holds_upd, if_neg hq]
  refine ⟨?_, ?_, ?_, ?_, ?_, ?_, hI.lastWLe, hI.noRace, hI.cellVal, hI.chained, hI.counts, ?_⟩
  · intro a b ha hb
    by_cases hap : a = p
    · by_cases hbp : b = p
      · rw [hap, hbp]
      · -- p acquired, so the flag was free; b cannot have been holding
        exfalso
        rw [hap, holds_upd, if_pos rfl] at ha
        have h0 : s.m.latestVal flagL = 0 := by
          rw [← hold]; unfold afterXchg at ha
          by_cases hz : (rmw s.m p flagL ox 1).1 = 0
          · exact hz
          · rw [if_neg hz] at ha; simp [HoldsPc] at ha
        have := hI.held b ((hH b hbp).1 hb)
        omega
    · by_cases hbp : b = p
      · exfalso
        rw [hbp, holds_upd, if_pos rfl] at hb
        have h0 : s.m.latestVal flagL = 0 := by
          rw [← hold]; unfold afterXchg at hb
          by_cases hz : (rmw s.m p flagL ox 1).1 = 0
          · exact hz
          · rw [if_neg hz] at hb; simp [HoldsPc] at hb
        have := hI.held a ((hH a hap).1 ha)
        omega
      · exact hI.unique a b ((hH a hap).1 ha) ((hH b hbp).1 hb)
  · intro a _; exact rmw_latestVal_same _ _ _ _ _
  · intro h0
    have : (rmw s.m p flagL ox 1).2.latestVal flagL = 1 := rmw_latestVal_same _ _ _ _ _
    change (rmw s.m p flagL ox 1).2.latestVal flagL = 0 at h0
    omega
  · intro a ha
    show cv (rmw s.m p flagL ox 1).2 a cellL = _
    by_cases hap : a = p
    · rw [hap] at ha ⊢
      rw [holds_upd, if_pos rfl] at ha
      have h0 : s.m.latestVal flagL = 0 := by
        rw [← hold]; unfold afterXchg at ha
        by_cases hz : (rmw s.m p flagL ox 1).1 = 0
        · exact hz
        · rw [if_neg hz] at ha; simp [HoldsPc] at ha
      have hrel := hI.released h0
      have hv := hI.viewsLe p
      rw [hcvp, hrel, hna]
      exact Nat.max_eq_right hv
    · rw [rmw_cv_other _ _ _ _ _ _ _ hap, hna]; exact hI.holderV a ((hH a hap).1 ha)
  · intro t
    show cv (rmw s.m p flagL ox 1).2 t cellL ≤ _
    by_cases ht : t = p
    · rw [ht]; exact hcvp_le
    · rw [rmw_cv_other _ _ _ _ _ _ _ ht]; exact hI.viewsLe t
  · exact rmw_msgsLe_same hI.msgsLe hnew_le
  · intro a r ha
    by_cases hap : a = p
    · rw [hap] at ha
      simp only [setPc, upd_same] at ha
      unfold afterXchg at ha
      split at ha <;> cases ha
    · simp only [setPc, upd_other _ _ _ _ hap] at ha; exact hI.readVal a r ha

theorem inv_xchg (o : Orders) (hok : o.ok = true) (s s' : St) (p : Nat) (hI : Inv s) (h : step o s (.xchg p) = some s') : Inv s' := by
  have hok' : o.tryXchg.isAcq = true ∧ o.lockXchg.isAcq = true ∧ o.unlockSt.isRel = true := by
    simpa [Orders.ok, Bool.and_eq_true, and_assoc] using hok
  simp only [step] at h
  split at h
  · rename_i hpc
    cases h
    exact inv_xchg_core s p _ hok'.1 hI
  · rename_i hpc
    cases h
    exact inv_xchg_core s p _ hok'.2.1 hI
  · cases h

/-- only the holder is in the critical section: every other thread's `Holds` is unchanged and false -/
theorem others_not_hold {s : St} (hI : Inv s) {p : Nat} (hp : Holds s p) {q : Nat} (hq : q ≠ p) : ¬ Holds s q :=
  fun h => hq (hI.unique q p h hp)

theorem inv_csRead (o : Orders) (s s' : St) (p : Nat) (hI : Inv s) (h : step o s (.csRead p) = some s') : Inv s' := by
  simp only [step] at h
  split at h
  · rename_i hpc
    cases h
    have hp : Holds s p := Or.inl hpc
    have hv := hI.holderV p hp
    have hH : ∀ q, Holds { m := (naRead s.m p cellL).2, pcs := upd s.pcs p (.csWrite (naRead s.m p cellL).1), hist := s.hist } q → q = p := by
      intro q hq
      by_cases hqp : q = p
      · exact hqp
      · rw [holds_upd, if_neg hqp] at hq; exact absurd hq (others_not_hold hI hp hqp)
    have hclk : ((naRead s.m p cellL).2.na cellL).clk = (s.m.na cellL).clk + 1 := by rw [naRead_na_same]
    refine ⟨?_, ?_, ?_, ?_, ?_, ?_, ?_, ?_, ?_, hI.chained, hI.counts, ?_⟩
    · intro a b ha hb; rw [hH a ha, hH b hb]
    · intro a _; show (naRead s.m p cellL).2.latestVal flagL = 1; exact hI.held p hp
    · intro h0
      have : s.m.latestVal flagL = 1 := hI.held p hp
      change s.m.latestVal flagL = 0 at h0
      omega
    · intro a ha
      rw [hH a ha]
      show cv (naRead s.m p cellL).2 p cellL = _
      rw [naRead_cv_self _ _ _ hv, hclk]
    · intro t
      show cv (naRead s.m p cellL).2 t cellL ≤ _
      rw [hclk]
      by_cases ht : t = p
      · rw [ht, naRead_cv_self _ _ _ hv]; exact Nat.le_refl _
      · rw [naRead_cv_other _ _ _ _ _ ht]; exact Nat.le_succ_of_le (hI.viewsLe t)
    · show MsgsLe (naRead s.m p cellL).2 flagL cellL _
      rw [hclk]; exact fun msg hm => Nat.le_succ_of_le (hI.msgsLe msg hm)
    · show ((naRead s.m p cellL).2.na cellL).lastW ≤ _
      rw [naRead_na_same]; exact Nat.le_succ_of_le hI.lastWLe
    · show (naRead s.m p cellL).2.race = false
      rw [naRead_race, hI.noRace, hv]
      have := hI.lastWLe
      simp only [Bool.false_or, decide_eq_false_iff_not]; omega
    · show ((naRead s.m p cellL).2.na cellL).val = _
      rw [naRead_na_same]; exact hI.cellVal
    · intro a r ha
      show r = ((naRead s.m p cellL).2.na cellL).val
      rw [naRead_na_same]
      by_cases hap : a = p
      · rw [hap] at ha; simp only [setPc, upd_same] at ha; cases ha; rfl
      · simp only [setPc, upd_other _ _ _ _ hap] at ha; exact hI.readVal a r ha
  · cases h

theorem inv_csWrite (o : Orders) (s s' : St) (p : Nat) (hI : Inv s) (h : step o s (.csWrite p) = some s') : Inv s' := by
  simp only [step] at h
  split at h
  · rename_i r hpc
    cases h
    have hp : Holds s p := Or.inr (Or.inl ⟨r, hpc⟩)
    have hv := hI.holderV p hp
    have hr := hI.readVal p r hpc
    have hH : ∀ q, Holds { m := naWrite s.m p cellL (r + 1), pcs := upd s.pcs p .unlock, hist := (r, r + 1) :: s.hist } q → q = p := by
      intro q hq
      by_cases hqp : q = p
      · exact hqp
      · rw [holds_upd, if_neg hqp] at hq; exact absurd hq (others_not_hold hI hp hqp)
    have hclk : ((naWrite s.m p cellL (r + 1)).na cellL).clk = (s.m.na cellL).clk + 1 := by rw [naWrite_na_same]
    refine ⟨?_, ?_, ?_, ?_, ?_, ?_, ?_, ?_, ?_, ?_, ?_, ?_⟩
    · intro a b ha hb; rw [hH a ha, hH b hb]
    · intro a _; show (naWrite s.m p cellL (r + 1)).latestVal flagL = 1; exact hI.held p hp
    · intro h0
      have : s.m.latestVal flagL = 1 := hI.held p hp
      change s.m.latestVal flagL = 0 at h0
      omega
    · intro a ha
      rw [hH a ha]
      show cv (naWrite s.m p cellL (r + 1)) p cellL = _
      rw [naWrite_cv_self, hclk]
    · intro t
      show cv (naWrite s.m p cellL (r + 1)) t cellL ≤ _
      rw [hclk]
      by_cases ht : t = p
      · rw [ht, naWrite_cv_self]; exact Nat.le_refl _
      · rw [naWrite_cv_other _ _ _ _ _ _ ht]; exact Nat.le_succ_of_le (hI.viewsLe t)
    · show MsgsLe (naWrite s.m p cellL (r + 1)) flagL cellL _
      rw [hclk]; exact fun msg hm => Nat.le_succ_of_le (hI.msgsLe msg hm)
    · show ((naWrite s.m p cellL (r + 1)).na cellL).lastW ≤ _
      rw [naWrite_na_same]; exact Nat.le_refl _
    · show (naWrite s.m p cellL (r + 1)).race = false
      rw [naWrite_race, hI.noRace, hv]
      simp
    · show ((naWrite s.m p cellL (r + 1)).na cellL).val = _
      rw [naWrite_na_same]; rfl
    · exact ⟨by rw [hr]; exact hI.cellVal, hI.chained⟩
    · show r + 1 = s.hist.length + 1
      rw [hr, hI.cellVal, hI.counts]
    · intro a r' ha
      by_cases hap : a = p
      · rw [hap] at ha; simp only [setPc, upd_same] at ha; cases ha
      · simp only [setPc, upd_other _ _ _ _ hap] at ha
        exact absurd (Or.inr (Or.inl ⟨r', ha⟩)) (others_not_hold hI hp hap)
  · cases h

theorem inv_unlock (o : Orders) (hok : o.ok = true) (s s' : St) (p : Nat) (hI : Inv s) (h : step o s (.unlock p) = some s') : Inv s' := by
  have hrel : o.unlockSt.isRel = true := by
    have : o.tryXchg.isAcq = true ∧ o.lockXchg.isAcq = true ∧ o.unlockSt.isRel = true := by
      simpa [Orders.ok, Bool.and_eq_true, and_assoc] using hok
    exact this.2.2
  simp only [step] at h
  split at h
  · rename_i hpc
    cases h
    have hp : Holds s p := Or.inr (Or.inr hpc)
    have hv := hI.holderV p hp
    have hne := cell_ne_flag
    have hH : ∀ q, ¬ Holds { m := store s.m p flagL o.unlockSt 0, pcs := upd s.pcs p .idle, hist := s.hist } q := by
      intro q hq
      by_cases hqp : q = p
      · rw [hqp, holds_upd, if_pos rfl] at hq; simp [HoldsPc] at hq
      · rw [holds_upd, if_neg hqp] at hq; exact others_not_hold hI hp hqp hq
    have hnew : lmv (store s.m p flagL o.unlockSt 0) flagL cellL = (s.m.na cellL).clk := by
      rw [store_lmv_same _ _ _ _ _ _ hne, hrel, if_pos rfl, hv]
    refine ⟨?_, ?_, ?_, ?_, ?_, ?_, hI.lastWLe, hI.noRace, hI.cellVal, hI.chained, hI.counts, ?_⟩
    · intro a b ha _; exact absurd ha (hH a)
    · intro a ha; exact absurd ha (hH a)
    · intro _; exact hnew
    · intro a ha; exact absurd ha (hH a)
    · intro t
      show cv (store s.m p flagL o.unlockSt 0) t cellL ≤ _
      by_cases ht : t = p
      · rw [ht, store_cv_self _ _ _ _ _ _ hne]; exact hI.viewsLe p
      · rw [store_cv_other _ _ _ _ _ _ _ ht]; exact hI.viewsLe t
    · exact store_msgsLe_same hI.msgsLe (Nat.le_of_eq hnew)
    · intro a r ha
      by_cases hap : a = p
      · rw [hap] at ha; simp only [setPc, upd_same] at ha; cases ha
      · simp only [setPc, upd_other _ _ _ _ hap] at ha; exact hI.readVal a r ha
  · cases h

theorem inv_step (o : Orders) (hok : o.ok = true) (s s' : St) (a : Act) (hI : Inv s) (h : step o s a = some s') : Inv s' := by
  cases a with
  | begin p b => exact inv_begin o s s' p b hI h
  | load p k => exact inv_load o s s' p k hI h
  | xchg p => exact inv_xchg o hok s s' p hI h
  | csRead p => exact inv_csRead o s s' p hI h
  | csWrite p => exact inv_csWrite o s s' p hI h
  | unlock p => exact inv_unlock o hok s s' p hI h

theorem inv_run (o : Orders) (hok : o.ok = true) (s s' : St) (as : List Act) (hI : Inv s) (h : run o s as = some s') : Inv s' := by
  induction as generalizing s with
  | nil => simp [run] at h; subst h; exact hI
  | cons a as ih =>
    simp only [run] at h
    split at h
    · rename_i s1 hs1; exact ih s1 (inv_step o hok s s1 a hI hs1) h
    · cases h

end Otel.RelAcq.Spin
