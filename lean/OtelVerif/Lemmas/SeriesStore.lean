import OtelVerif.Lemmas.SeriesTable
/-! Store-level invariants of `SyncMetricStorage` + `TemporalMetricStorage` (model `Otel.Series.Store`):
    the cardinality bound of every output and the conservation equation of DESIGN.md Appendix D. -/
namespace Otel.Series

variable {K A V : Type} [DecidableEq K]

/-! ## reader-indexed association lists -/

theorem lookupNat_assignNat {β : Type} (r r' : Nat) (b : β) (u : List (Nat × β)) :
    lookupNat r (assignNat r' b u) = if r = r' then some b else lookupNat r u := by
  induction u with
  | nil =>
    by_cases h : r = r'
    · simp [assignNat, lookupNat, h]
    · have : ¬ r' = r := fun h' => h h'.symm
      simp [assignNat, lookupNat, h, this]
  | cons e u ih =>
    unfold assignNat
    by_cases he : e.1 = r'
    · rw [if_pos he]
      by_cases h : r = r'
      · simp [lookupNat, h]
      · have h1 : ¬ r' = r := fun h' => h h'.symm
        have h2 : ¬ e.1 = r := fun h' => h (by rw [← h', he])
        simp [lookupNat, h, h1, h2]
    · rw [if_neg he]
      by_cases h : r = r'
      · subst h
        rw [if_pos rfl] at ih
        simp [lookupNat, ih, he]
      · by_cases h2 : e.1 = r <;> simp [lookupNat, h, h2, ih]

/-- after stashing the interval table for the collectors `0 … n-1` -/
theorem lookup_pushAll (d : Table K A) (n : Nat) : ∀ (u : List (Nat × List (Table K A))) (r : Nat),
    lookupNat r ((List.range n).foldl (fun u col => pushUnreported col d u) u) =
      if r < n then some ((lookupNat r u).getD [] ++ [d]) else lookupNat r u := by
  induction n with
  | zero => intro u r; simp
  | succ n ih =>
    intro u r
    rw [List.range_succ, List.foldl_append]
    simp only [List.foldl_cons, List.foldl_nil]
    rw [show ∀ u', pushUnreported n d u' = assignNat n ((lookupNat n u').getD [] ++ [d]) u' from fun _ => rfl]
    rw [lookupNat_assignNat, ih, ih]
    by_cases h1 : r = n
    · subst h1; simp
    · by_cases h2 : r < n
      · have : r < n + 1 := by omega
        simp [h1, h2, this]
      · have : ¬ r < n + 1 := by omega
        simp [h1, h2, this]

/-! ## the cardinality bound -/

theorem mergeTables_limit (c : Cfg K A V) (ts : List (Table K A)) : ∀ m : Table K A, (mergeTables c m ts).limit = m.limit := by
  unfold mergeTables
  induction ts with
  | nil => intro m; rfl
  | cons t ts ih =>
    intro m
    rw [List.foldl_cons, ih]
    generalize c.iter t.entries = l
    induction l generalizing m with
    | nil => rfl
    | cons e l ihl => rw [List.foldl_cons, ihl, Table.mergeEntry_limit]

theorem mergeTables_inv (c : Cfg K A V) (ts : List (Table K A)) : ∀ m : Table K A, m.Inv c.ovf → (mergeTables c m ts).Inv c.ovf := by
  unfold mergeTables
  induction ts with
  | nil => intro m h; exact h
  | cons t ts ih =>
    intro m h
    rw [List.foldl_cons]
    apply ih
    generalize c.iter t.entries = l
    induction l generalizing m with
    | nil => exact h
    | cons e l ihl => rw [List.foldl_cons]; exact ihl _ (Table.inv_mergeEntry c.ag h e)

/-- what `collect` hands to the callback is within the limit, and the new interval table is empty with the
    configured limit (fix D10a) -/
theorem collect_spec (c : Cfg K A V) (s : Store K A) (r : Nat) (hl : s.cur.limit = c.limit) (hi : s.cur.Inv c.ovf) :
    (s.collect c r).1.cur = Table.empty c.limit ∧ ∀ o, (s.collect c r).2 = some o → o.length ≤ max c.limit 1 := by
  unfold Store.collect
  simp only
  split
  · split
    · exact ⟨rfl, fun o h => by simp at h⟩
    · refine ⟨rfl, fun o h => ?_⟩
      simp only [Option.some.injEq] at h
      rw [← h, ← hl]; exact hi.size_le
  · split
    · exact ⟨rfl, fun o h => by simp at h⟩
    · refine ⟨rfl, fun o h => ?_⟩
      simp only [Option.some.injEq] at h
      rw [← h]
      have hm0 : (mergeTables c (Table.empty c.limit) ‹_›).Inv c.ovf := mergeTables_inv c _ _ (Table.inv_empty _ _)
      have hl0 : (mergeTables c (Table.empty c.limit) ‹_›).limit = c.limit := mergeTables_limit c _ _
      split
      · split
        · have := (mergeTables_inv c [‹Table K A›] _ hm0).size_le
          rw [mergeTables_limit, hl0] at this
          exact this
        · have := hm0.size_le; rw [hl0] at this; exact this
      · have := hm0.size_le; rw [hl0] at this; exact this

theorem run_series_le_limit (c : Cfg K A V) (ops : List (Op K V)) : ∀ s : Store K A, s.cur.limit = c.limit → s.cur.Inv c.ovf →
    ∀ r o, (r, some o) ∈ (Store.run c s ops).2 → o.length ≤ max c.limit 1 := by
  induction ops with
  | nil => intro s _ _ r o h; simp [Store.run] at h
  | cons op ops ih =>
    intro s hl hi r o h
    cases op with
    | record k v =>
      simp only [Store.run] at h
      exact ih (s.record c k v) (by simp [Store.record, Table.record_limit, hl]) (Table.inv_record c.ag hi k v) r o h
    | collect r' =>
      simp only [Store.run, List.mem_cons, Prod.mk.injEq] at h
      obtain ⟨hc, ho⟩ := collect_spec c s r' hl hi
      rcases h with ⟨_, h⟩ | h
      · exact ho o h.symm
      · exact ih (s.collect c r').1 (by rw [hc]; rfl) (by rw [hc]; exact Table.inv_empty _ _) r o h

/-! ## conservation (Appendix D) -/

section total
variable {M : Type} [AddCommMonoid M]

/-- total of a collect's output (`none`: nothing handed over) -/
def outTotal (μ : A → M) : Option (List (K × A)) → M
  | none => 0
  | some es => tot μ es

/-- sum of the totals of a list of stashed interval tables -/
def tablesTotal (μ : A → M) (ts : List (Table K A)) : M := (ts.map fun t => tot μ t.entries).sum

/-- **the specification of the totals**, written from the property text: walk the history keeping, per reader, the sum
    of the weights `w key value` of everything recorded since that reader's previous collect (`pend`) and the sum of everything recorded so far
    (`all`); a delta reader's collect must report `pend r` (and starts a new interval), a cumulative reader's `all`. -/
def specTotals (c : Cfg K A V) (w : K → V → M) : (Nat → M) → M → List (Op K V) → List (Nat × M)
  | _, _, [] => []
  | pend, all, Op.record k v :: ops => specTotals c w (fun r => pend r + w k v) (all + w k v) ops
  | pend, all, Op.collect r :: ops =>
    (r, if c.temps[r]? = some Temporality.delta then pend r else all) ::
      specTotals c w (fun r' => if r' = r then 0 else pend r') all ops

variable (c : Cfg K A V) (ms : Measure c.ag M)

theorem tot_mergeTables (hiter : ∀ l, (c.iter l).Perm l) (ts : List (Table K A)) : ∀ m : Table K A,
    tot ms.μ (mergeTables c m ts).entries = tot ms.μ m.entries + tablesTotal ms.μ ts := by
  unfold mergeTables tablesTotal
  induction ts with
  | nil => intro m; simp
  | cons t ts ih =>
    intro m
    rw [List.foldl_cons, ih, List.map_cons, List.sum_cons, ← add_assoc]
    congr 1
    rw [← tot_perm ms.μ (hiter t.entries)]
    generalize c.iter t.entries = l
    induction l generalizing m with
    | nil => simp [tot_nil]
    | cons e l ihl =>
      rw [List.foldl_cons, ihl, Table.tot_mergeEntry]
      simp only [tot, List.map_cons, List.sum_cons]
      rw [add_assoc]

/-- stash total of reader `r` -/
def pendU (μ : A → M) (s : Store K A) (r : Nat) : M := tablesTotal μ ((lookupNat r s.unreported).getD [])

/-- total of reader `r`'s last report -/
def lastTot (μ : A → M) (s : Store K A) (r : Nat) : M :=
  match lookupNat r s.last with
  | some t => tot μ t.entries
  | none => 0

/-- a single delta reader: `buildMetrics` takes the fast path -/
def Fast : Prop := c.temps.length = 1 ∧ c.temps[0]? = some Temporality.delta

/-- the invariant tying the store to the ghost totals -/
def SInv (s : Store K A) (pend : Nat → M) (all : M) : Prop :=
  (Fast c → tot ms.μ s.cur.entries = pend 0) ∧
  (¬ Fast c → ∀ r, r < c.temps.length →
    ((lookupNat r s.last).isSome = true → (lookupNat r s.unreported).isSome = true) ∧
    (c.temps[r]? = some Temporality.delta → pendU ms.μ s r + tot ms.μ s.cur.entries = pend r) ∧
    (c.temps[r]? ≠ some Temporality.delta → lastTot ms.μ s r + pendU ms.μ s r + tot ms.μ s.cur.entries = all))

theorem sinv_init : SInv c ms (Store.init c) (fun _ => 0) 0 := by
  refine ⟨fun _ => rfl, fun _ r _ => ⟨by simp [Store.init, lookupNat], fun _ => ?_, fun _ => ?_⟩⟩
  · simp [pendU, Store.init, lookupNat, tablesTotal, Table.empty, tot]
  · simp [pendU, lastTot, Store.init, lookupNat, tablesTotal, Table.empty, tot]

theorem sinv_record {s : Store K A} {pend : Nat → M} {all : M} (h : SInv c ms s pend all) (k : K) (v : V) :
    SInv c ms (s.record c k v) (fun r => pend r + ms.w v) (all + ms.w v) := by
  obtain ⟨h1, h2⟩ := h
  refine ⟨fun hf => ?_, fun hf r hr => ?_⟩
  · simp only [Store.record, Table.tot_record, h1 hf]
  · obtain ⟨ha, hb, hc⟩ := h2 hf r hr
    refine ⟨ha, fun hd => ?_, fun hd => ?_⟩
    · have := hb hd
      simp only [Store.record, pendU, Table.tot_record] at this ⊢
      rw [← add_assoc, this]
    · have := hc hd
      simp only [Store.record, pendU, lastTot, Table.tot_record] at this ⊢
      rw [← add_assoc, this]

theorem fast_iff {r : Nat} (hr : r < c.temps.length) :
    (c.temps.length = 1 ∧ c.temps[r]? = some Temporality.delta) ↔ Fast c := by
  unfold Fast
  constructor
  · rintro ⟨h1, h2⟩
    have : r = 0 := by omega
    subst this; exact ⟨h1, h2⟩
  · rintro ⟨h1, h2⟩
    have : r = 0 := by omega
    subst this; exact ⟨h1, h2⟩

/-- one collect: the total handed over is what the specification demands, and the invariant is re-established -/
theorem sinv_collect (hiter : ∀ l, (c.iter l).Perm l) {s : Store K A} {pend : Nat → M} {all : M}
    (h : SInv c ms s pend all) (r : Nat) (hr : r < c.temps.length) :
    outTotal ms.μ (s.collect c r).2 = (if c.temps[r]? = some Temporality.delta then pend r else all) ∧
    SInv c ms (s.collect c r).1 (fun r' => if r' = r then 0 else pend r') all := by
  obtain ⟨h1, h2⟩ := h
  unfold Store.collect
  simp only
  by_cases hf : Fast c
  · -- single delta reader
    have hcond := (fast_iff c hr).mpr hf
    rw [if_pos hcond]
    have hr0 : r = 0 := by have := hf.1; omega
    subst hr0
    have hd : c.temps[0]? = some Temporality.delta := hf.2
    rw [if_pos hd]
    have hcur := h1 hf
    by_cases hz : s.cur.size = 0
    · rw [if_pos hz]
      have : s.cur.entries = [] := List.eq_nil_of_length_eq_zero hz
      refine ⟨?_, fun _ => by simp [Table.empty, tot], fun hnf => absurd hf hnf⟩
      rw [← hcur, this]; rfl
    · rw [if_neg hz]
      exact ⟨hcur, fun _ => by simp [Table.empty, tot], fun hnf => absurd hf hnf⟩
  · have hcond : ¬ (c.temps.length = 1 ∧ c.temps[r]? = some Temporality.delta) := fun hh => hf ((fast_iff c hr).mp hh)
    rw [if_neg hcond]
    -- the stash after the interval table has been handed to every collector
    have hlook : ∀ r', r' < c.temps.length →
        tablesTotal ms.μ ((lookupNat r' (if s.cur.size = 0 then s.unreported
          else (List.range c.temps.length).foldl (fun u col => pushUnreported col s.cur u) s.unreported)).getD []) =
        pendU ms.μ s r' + tot ms.μ s.cur.entries := by
      intro r' hr'
      by_cases hz : s.cur.size = 0
      · rw [if_pos hz]
        have : s.cur.entries = [] := List.eq_nil_of_length_eq_zero hz
        simp [pendU, this, tot]
      · rw [if_neg hz, lookup_pushAll, if_pos hr']
        simp [pendU, tablesTotal]
    have hsome : ∀ r', (lookupNat r' s.unreported).isSome = true →
        (lookupNat r' (if s.cur.size = 0 then s.unreported
          else (List.range c.temps.length).foldl (fun u col => pushUnreported col s.cur u) s.unreported)).isSome = true := by
      intro r' hs
      by_cases hz : s.cur.size = 0
      · rw [if_pos hz]; exact hs
      · rw [if_neg hz, lookup_pushAll]; split <;> simp [hs]
    generalize hU : (if s.cur.size = 0 then s.unreported
          else (List.range c.temps.length).foldl (fun u col => pushUnreported col s.cur u) s.unreported) = U at hlook hsome
    obtain ⟨ha, hb, hc⟩ := h2 hf r hr
    cases hL : lookupNat r U with
    | none =>
      simp only
      -- nothing was ever stashed for this reader: nothing recorded so far
      have hUr := hlook r hr
      rw [hL] at hUr
      simp only [Option.getD_none, tablesTotal, List.map_nil, List.sum_nil] at hUr
      have hlast : (lookupNat r s.last).isSome = false := by
        by_contra hx
        have hx' : (lookupNat r s.last).isSome = true := by
          revert hx; cases (lookupNat r s.last).isSome <;> simp
        have := hsome r (ha hx')
        rw [hL] at this; exact absurd this (by simp)
      constructor
      · simp only [outTotal]
        by_cases hd : c.temps[r]? = some Temporality.delta
        · rw [if_pos hd, ← hb hd, ← hUr]
        · rw [if_neg hd, ← hc hd]
          have : lastTot ms.μ s r = 0 := by
            unfold lastTot
            cases hx : lookupNat r s.last with
            | none => rfl
            | some t => rw [hx] at hlast; exact absurd hlast (by simp)
          rw [this, zero_add, ← hUr]
      · refine ⟨fun hff => absurd hff hf, fun _ r' hr' => ?_⟩
        obtain ⟨ha', hb', hc'⟩ := h2 hf r' hr'
        have hU' := hlook r' hr'
        refine ⟨fun hs => hsome r' (ha' hs), fun hd => ?_, fun hd => ?_⟩
        · simp only [pendU, Table.empty, tot_nil, add_zero]
          rw [hU']
          by_cases hrr : r' = r
          · subst hrr; rw [if_pos rfl]; exact hUr.symm
          · rw [if_neg hrr]; exact hb' hd
        · simp only [pendU, lastTot, Table.empty, tot_nil, add_zero]
          rw [hU']
          have := hc' hd
          simp only [lastTot, add_assoc] at this ⊢
          exact this
    | some ts =>
      simp only
      have hUr := hlook r hr
      rw [hL] at hUr
      simp only [Option.getD_some] at hUr
      have hm0 : tot ms.μ (mergeTables c (Table.empty c.limit) ts).entries = tablesTotal ms.μ ts := by
        rw [tot_mergeTables c ms hiter]; simp [Table.empty, tot_nil]
      -- total of what is handed over
      have hout : tot ms.μ (match lookupNat r s.last with
            | some lt => if c.temps[r]? = some Temporality.cumulative then mergeTables c (mergeTables c (Table.empty c.limit) ts) [lt]
                          else mergeTables c (Table.empty c.limit) ts
            | none => mergeTables c (Table.empty c.limit) ts).entries =
          (if c.temps[r]? = some Temporality.delta then pend r else all) := by
        by_cases hd : c.temps[r]? = some Temporality.delta
        · have hnc : ¬ c.temps[r]? = some Temporality.cumulative := by rw [hd]; simp
          rw [if_pos hd]
          have : tot ms.μ (mergeTables c (Table.empty c.limit) ts).entries = pend r := by rw [hm0, hUr]; exact hb hd
          cases lookupNat r s.last with
          | none => exact this
          | some lt => simp only [if_neg hnc]; exact this
        · rw [if_neg hd]
          have hcum : c.temps[r]? = some Temporality.cumulative := by
            have : r < c.temps.length := hr
            rw [List.getElem?_eq_getElem this] at hd ⊢
            cases hx : c.temps[r] with
            | delta => rw [hx] at hd; exact absurd rfl hd
            | cumulative => rfl
          have hcc := hc hd
          unfold lastTot at hcc
          cases hx : lookupNat r s.last with
          | none =>
            rw [hx] at hcc
            simp only
            rw [hm0, hUr, ← hcc, zero_add]
          | some lt =>
            rw [hx] at hcc
            simp only [if_pos hcum]
            rw [tot_mergeTables c ms hiter, hm0, hUr, ← hcc]
            simp only [tablesTotal, List.map_cons, List.map_nil, List.sum_cons, List.sum_nil, add_zero]
            rw [add_comm (pendU ms.μ s r + tot ms.μ s.cur.entries), add_assoc]
      refine ⟨hout, fun hff => absurd hff hf, fun _ r' hr' => ?_⟩
      obtain ⟨ha', hb', hc'⟩ := h2 hf r' hr'
      have hU' := hlook r' hr'
      simp only [pendU, lastTot, lookupNat_assignNat, Table.empty, tot_nil, add_zero]
      by_cases hrr : r' = r
      · subst hrr
        simp only [if_true, Option.isSome_some, Option.getD_some, tablesTotal, List.map_nil, List.sum_nil, implies_true, true_and]
        intro hd
        rw [add_zero]
        have := hout
        rw [if_neg hd] at this
        exact this
      · simp only [if_neg hrr]
        refine ⟨fun hs => hsome r' (ha' hs), fun hd => ?_, fun hd => ?_⟩
        · rw [hU']; exact hb' hd
        · rw [hU']
          have := hc' hd
          simp only [lastTot, add_assoc] at this ⊢
          exact this

/-- **conservation**: for every history the totals handed to the readers are exactly those of the specification -/
theorem run_totals (hiter : ∀ l, (c.iter l).Perm l) (ops : List (Op K V)) :
    ∀ (s : Store K A) (pend : Nat → M) (all : M), SInv c ms s pend all →
      (∀ r, Op.collect r ∈ ops → r < c.temps.length) →
      ((Store.run c s ops).2.map fun o => (o.1, outTotal ms.μ o.2)) = specTotals c (fun _ => ms.w) pend all ops := by
  induction ops with
  | nil => intro s pend all _ _; simp [Store.run, specTotals]
  | cons op ops ih =>
    intro s pend all h hops
    cases op with
    | record k v =>
      simp only [Store.run, specTotals]
      exact ih _ _ _ (sinv_record c ms h k v) fun r hr => hops r (List.mem_cons_of_mem _ hr)
    | collect r =>
      have hr := hops r (List.mem_cons_self ..)
      obtain ⟨ho, hi⟩ := sinv_collect c ms hiter h r hr
      simp only [Store.run, specTotals, List.map_cons]
      rw [ho, ih _ _ _ hi fun r' hr' => hops r' (List.mem_cons_of_mem _ hr')]

end total
end Otel.Series
