import OtelVerif.Lemmas.Bytes
import OtelVerif.Model.Regex
/-! Lifting lemmas for the table theorems of `Props/Tab*.lean`, and a structurally recursive (kernel-evaluable) copy of the
    regex matcher `rxGo` (which is defined by well-founded recursion and therefore does not reduce under `decide`). -/
namespace Otel

theorem forall_byte2 (P : UInt8 → UInt8 → Prop) (h : ∀ a, a < 256 → ∀ b, b < 256 → P (UInt8.ofNat a) (UInt8.ofNat b)) :
    ∀ a b : UInt8, P a b := by
  intro a b
  have := h a.toNat a.toNat_lt b.toNat b.toNat_lt
  simpa using this

/-- a function on bytes equals a 256-entry list table as soon as the list of its values is that list -/
theorem eq_table {α : Type} (f : UInt8 → α) (tab : List α) (d : α)
    (h : (List.range 256).map (fun n => f (UInt8.ofNat n)) = tab) : ∀ b : UInt8, f b = tab.getD b.toNat d := by
  intro b
  subst h
  have hb := b.toNat_lt
  simp [List.getD, hb]

/-- every entry of a `pairs` table is a point of the function's graph -/
theorem graph_of_all {α β : Type} [BEq β] [LawfulBEq β] (f : α → β) (tab : List (α × β))
    (h : tab.all (fun p => f p.1 == p.2) = true) : ∀ p ∈ tab, f p.1 = p.2 := by
  intro p hp
  have := List.all_eq_true.1 h p hp
  simpa using this

/-! ### fuel version of `rxGo` -/

def rxGoF : Nat → List RxItem → Nat → Bytes → Bool
  | 0, _, _, _ => false
  | _ + 1, [], _, s => s.isEmpty
  | f + 1, it :: rest, k, [] => decide (it.lo ≤ k) && rxGoF f rest 0 []
  | f + 1, it :: rest, k, c :: t =>
      (decide (it.lo ≤ k) && rxGoF f rest 0 (c :: t)) ||
      (it.has c && it.allows (k + 1) && rxGoF f (it :: rest) (k + 1) t)

theorem rxGoF_eq : ∀ (f : Nat) (items : List RxItem) (k : Nat) (s : Bytes), s.length + items.length < f →
    rxGoF f items k s = rxGo items k s := by
  intro f
  induction f with
  | zero => intro items k s h; omega
  | succ f ih =>
    intro items k s h
    cases items with
    | nil => rw [rxGo]; simp [rxGoF]
    | cons it rest =>
      cases s with
      | nil =>
        rw [rxGo]
        simp only [rxGoF]
        rw [ih rest 0 [] (by simp at h ⊢; omega)]
      | cons c t =>
        rw [rxGo]
        simp only [rxGoF]
        rw [ih rest 0 (c :: t) (by simp at h ⊢; omega), ih (it :: rest) (k + 1) t (by simp at h ⊢; omega)]

/-- `rxMatch` in kernel-evaluable form -/
def rxMatchF (items : List RxItem) (s : Bytes) : Bool := rxGoF (s.length + items.length + 1) items 0 s

theorem rxMatch_eq_F (items : List RxItem) (s : Bytes) : rxMatch items s = rxMatchF items s := by
  unfold rxMatch rxMatchF
  rw [rxGoF_eq _ _ _ _ (by omega)]

end Otel
