import OtelVerif.Model.AttrSet
import Mathlib.Data.List.Perm.Basic
import Mathlib.Data.List.Nodup
/-! Lemmas about the attribute-set model (`Otel.Attr`): `bytesLt` is a strict total order, `insertKV` / `canon`
    refine the abstract "last write wins" map, sorted association lists are canonical. -/
namespace Otel.Attr

/-! ## `std::string::operator<` -/

theorem u8_trichotomy (a b : UInt8) : a < b ∨ a = b ∨ b < a := by
  rcases Nat.lt_trichotomy a.toNat b.toNat with h | h | h
  · left; exact UInt8.lt_iff_toNat_lt.mpr h
  · right; left; exact UInt8.toNat_inj.mp h
  · right; right; exact UInt8.lt_iff_toNat_lt.mpr h

theorem u8_asymm {a b : UInt8} (h : a < b) : ¬ b < a := fun h' => UInt8.lt_irrefl a (UInt8.lt_trans h h')

theorem bytesLt_irrefl (a : Bytes) : bytesLt a a = false := by
  induction a with
  | nil => rfl
  | cons x xs ih => simp [bytesLt, UInt8.lt_irrefl, ih]

theorem bytesLt_trans : ∀ {a b c : Bytes}, bytesLt a b = true → bytesLt b c = true → bytesLt a c = true
  | [], [], _, h, _ => by simp [bytesLt] at h
  | [], _ :: _, [], _, h => by simp [bytesLt] at h
  | [], _ :: _, _ :: _, _, _ => by simp [bytesLt]
  | _ :: _, [], _, h, _ => by simp [bytesLt] at h
  | _ :: _, _ :: _, [], _, h => by simp [bytesLt] at h
  | x :: xs, y :: ys, z :: zs, h1, h2 => by
    unfold bytesLt at h1 h2 ⊢
    by_cases hxy : x < y
    · by_cases hyz : y < z
      · simp [UInt8.lt_trans hxy hyz]
      · rw [if_neg hyz] at h2
        by_cases hzy : z < y
        · simp [hzy] at h2
        · have : y = z := by rcases u8_trichotomy y z with h | h | h <;> simp_all
          subst this; simp [hxy]
    · rw [if_neg hxy] at h1
      by_cases hyx : y < x
      · simp [hyx] at h1
      · have hxy' : x = y := by rcases u8_trichotomy x y with h | h | h <;> simp_all
        subst hxy'
        rw [if_neg hyx] at h1
        by_cases hxz : x < z
        · simp [hxz]
        · rw [if_neg hxz] at h2 ⊢
          by_cases hzx : z < x
          · simp [hzx] at h2
          · rw [if_neg hzx] at h2 ⊢
            exact bytesLt_trans h1 h2

theorem bytesLt_trichotomy : ∀ (a b : Bytes), bytesLt a b = true ∨ a = b ∨ bytesLt b a = true
  | [], [] => by simp
  | [], _ :: _ => by simp [bytesLt]
  | _ :: _, [] => by simp [bytesLt]
  | x :: xs, y :: ys => by
    unfold bytesLt
    rcases u8_trichotomy x y with h | h | h
    · simp [h]
    · subst h
      simp only [UInt8.lt_irrefl, if_false, List.cons.injEq, true_and]
      exact bytesLt_trichotomy xs ys
    · simp [h, u8_asymm h]

theorem bytesLt_ne {a b : Bytes} (h : bytesLt a b = true) : a ≠ b := by
  rintro rfl; rw [bytesLt_irrefl] at h; exact absurd h (by simp)

theorem bytesLt_asymm {a b : Bytes} (h : bytesLt a b = true) : bytesLt b a = false := by
  by_contra h'
  have h'' : bytesLt b a = true := by simpa using h'
  have := bytesLt_trans h h''
  rw [bytesLt_irrefl] at this; exact absurd this (by simp)

/-! ## the abstract map: last write wins -/

/-- the value the caller wrote last for key `k` (look in the later pairs first) -/
def lastWrite : List KV → Bytes → Option Value
  | [], _ => none
  | e :: rest, k =>
    match lastWrite rest k with
    | some v => some v
    | none => if e.1 = k then some e.2 else none

/-- first match in an association list (`std::map::find`) -/
def lookupKV (k : Bytes) : List KV → Option Value
  | [] => none
  | e :: t => if e.1 = k then some e.2 else lookupKV k t

/-- keys strictly increasing (`std::map` iteration order) -/
abbrev SortedKV (m : List KV) : Prop := m.Pairwise fun x y => bytesLt x.1 y.1 = true

theorem mem_insertKV {k : Bytes} {v : Value} {m : List KV} {e : KV} (h : e ∈ insertKV k v m) : e = (k, v) ∨ e ∈ m := by
  induction m with
  | nil => simpa [insertKV] using h
  | cons x t ih =>
    unfold insertKV at h
    split at h
    · simp only [List.mem_cons] at h ⊢; tauto
    · split at h
      · simp only [List.mem_cons] at h ⊢; tauto
      · simp only [List.mem_cons] at h ⊢
        rcases h with h | h
        · tauto
        · rcases ih h with h | h <;> tauto

theorem insertKV_sorted {k : Bytes} {v : Value} {m : List KV} (hs : SortedKV m) : SortedKV (insertKV k v m) := by
  induction m with
  | nil => simp [insertKV, SortedKV]
  | cons x t ih =>
    have hx := (List.pairwise_cons.mp hs).1
    have ht := (List.pairwise_cons.mp hs).2
    unfold insertKV
    by_cases h1 : bytesLt k x.1 = true
    · rw [if_pos h1]
      refine List.pairwise_cons.mpr ⟨?_, hs⟩
      intro e he
      rcases List.mem_cons.mp he with rfl | he
      · exact h1
      · exact bytesLt_trans h1 (hx e he)
    · rw [if_neg h1]
      by_cases h2 : k = x.1
      · rw [if_pos h2]
        refine List.pairwise_cons.mpr ⟨?_, ht⟩
        intro e he; simpa [h2] using hx e he
      · rw [if_neg h2]
        refine List.pairwise_cons.mpr ⟨?_, ih ht⟩
        intro e he
        rcases mem_insertKV he with rfl | he
        · rcases bytesLt_trichotomy k x.1 with h | h | h
          · exact absurd h h1
          · exact absurd h h2
          · exact h
        · exact hx e he

theorem lookup_insertKV (k k' : Bytes) (v : Value) (m : List KV) :
    lookupKV k' (insertKV k v m) = if k = k' then some v else lookupKV k' m := by
  induction m with
  | nil => simp [insertKV, lookupKV]
  | cons x t ih =>
    unfold insertKV
    by_cases h1 : bytesLt k x.1 = true
    · rw [if_pos h1]; simp [lookupKV]
    · rw [if_neg h1]
      by_cases h2 : k = x.1
      · rw [if_pos h2]
        by_cases h3 : k = k'
        · simp [lookupKV, h3]
        · have : ¬ x.1 = k' := by rw [← h2]; exact h3
          simp [lookupKV, h3, this]
      · rw [if_neg h2]
        simp only [lookupKV, ih]
        by_cases h3 : x.1 = k'
        · have : ¬ k = k' := by rw [← h3]; exact h2
          simp [h3, this]
        · simp [h3]

theorem canon_sorted_aux (kvs : List KV) : ∀ m, SortedKV m → SortedKV (kvs.foldl (fun m e => insertKV e.1 e.2 m) m) := by
  induction kvs with
  | nil => intro m h; exact h
  | cons e rest ih => intro m h; exact ih _ (insertKV_sorted h)

theorem canon_lookup_aux (kvs : List KV) (k : Bytes) : ∀ m,
    lookupKV k (kvs.foldl (fun m e => insertKV e.1 e.2 m) m) =
      match lastWrite kvs k with
      | some v => some v
      | none => lookupKV k m := by
  induction kvs with
  | nil => intro m; simp [lastWrite]
  | cons e rest ih =>
    intro m
    simp only [List.foldl_cons, ih, lastWrite, lookup_insertKV]
    cases lastWrite rest k with
    | some v => rfl
    | none => by_cases h : e.1 = k <;> simp [h]

theorem lookup_none_of_lt {k : Bytes} {t : List KV} (h : ∀ e ∈ t, bytesLt k e.1 = true) : lookupKV k t = none := by
  induction t with
  | nil => rfl
  | cons x t ih =>
    have hx : x.1 ≠ k := fun h' => bytesLt_ne (h x (List.mem_cons_self ..)) h'.symm
    simp only [lookupKV, if_neg hx]
    exact ih fun e he => h e (List.mem_cons_of_mem _ he)

/-- sorted association lists are a canonical form: equal as maps ⇒ equal as lists -/
theorem sorted_ext : ∀ {a b : List KV}, SortedKV a → SortedKV b → (∀ k, lookupKV k a = lookupKV k b) → a = b
  | [], [], _, _, _ => rfl
  | [], y :: _, _, _, h => by have := h y.1; simp [lookupKV] at this
  | x :: _, [], _, _, h => by have := h x.1; simp [lookupKV] at this
  | x :: a, y :: b, ha, hb, h => by
    have hxa := (List.pairwise_cons.mp ha).1
    have hyb := (List.pairwise_cons.mp hb).1
    have hkey : x.1 = y.1 := by
      rcases bytesLt_trichotomy x.1 y.1 with hlt | heq | hgt
      · exfalso
        have h1 := h x.1
        have hne : ¬ y.1 = x.1 := fun h' => bytesLt_ne hlt h'.symm
        rw [show lookupKV x.1 (x :: a) = some x.2 by simp [lookupKV]] at h1
        simp only [lookupKV, if_neg hne] at h1
        rw [lookup_none_of_lt fun e he => bytesLt_trans hlt (hyb e he)] at h1
        exact absurd h1 (by simp)
      · exact heq
      · exfalso
        have h1 := h y.1
        have hne : ¬ x.1 = y.1 := fun h' => bytesLt_ne hgt h'.symm
        rw [show lookupKV y.1 (y :: b) = some y.2 by simp [lookupKV]] at h1
        simp only [lookupKV, if_neg hne] at h1
        rw [lookup_none_of_lt fun e he => bytesLt_trans hgt (hxa e he)] at h1
        exact absurd h1 (by simp)
    have hval : x.2 = y.2 := by
      have h1 := h x.1
      simp only [lookupKV, if_true, hkey] at h1
      simpa using h1
    have hxy : x = y := Prod.ext hkey hval
    subst hxy
    congr 1
    apply sorted_ext (List.pairwise_cons.mp ha).2 (List.pairwise_cons.mp hb).2
    intro k
    by_cases hk : x.1 = k
    · subst hk
      rw [lookup_none_of_lt hxa, lookup_none_of_lt hyb]
    · have := h k
      simpa [lookupKV, hk] using this

theorem lastWrite_isSome_of_mem_key {kvs : List KV} {k : Bytes} (h : ∃ e ∈ kvs, e.1 = k) : (lastWrite kvs k).isSome = true := by
  induction kvs with
  | nil => obtain ⟨e, he, _⟩ := h; simp at he
  | cons x rest ih =>
    obtain ⟨e, he, hk⟩ := h
    simp only [lastWrite]
    cases hr : lastWrite rest k with
    | some v => rfl
    | none =>
      rcases List.mem_cons.mp he with rfl | he
      · simp [hk]
      · have := ih ⟨e, he, hk⟩
        rw [hr] at this; exact absurd this (by simp)

theorem lastWrite_none_of_no_key {kvs : List KV} {k : Bytes} (h : ∀ e ∈ kvs, e.1 ≠ k) : lastWrite kvs k = none := by
  induction kvs with
  | nil => rfl
  | cons x rest ih =>
    simp only [lastWrite, ih fun e he => h e (List.mem_cons_of_mem _ he)]
    simp [h x (List.mem_cons_self ..)]

theorem lastWrite_mem {kvs : List KV} {k : Bytes} {v : Value} (h : lastWrite kvs k = some v) : (k, v) ∈ kvs := by
  induction kvs with
  | nil => simp [lastWrite] at h
  | cons x rest ih =>
    simp only [lastWrite] at h
    cases hr : lastWrite rest k with
    | some w => rw [hr] at h; simp only [Option.some.injEq] at h; subst h; exact List.mem_cons_of_mem _ (ih hr)
    | none =>
      rw [hr] at h
      by_cases hk : x.1 = k
      · simp only [hk, if_true, Option.some.injEq] at h
        have : x = (k, v) := Prod.ext hk h
        rw [this]; exact List.mem_cons_self ..
      · simp [hk] at h

/-- with pairwise distinct keys the map is just membership -/
theorem lastWrite_eq_some_iff_mem {kvs : List KV} (hn : (kvs.map (·.1)).Nodup) (k : Bytes) (v : Value) :
    lastWrite kvs k = some v ↔ (k, v) ∈ kvs := by
  constructor
  · exact lastWrite_mem
  · intro hm
    induction kvs with
    | nil => simp at hm
    | cons x rest ih =>
      have hn' : x.1 ∉ rest.map (·.1) ∧ (rest.map (·.1)).Nodup := List.nodup_cons.mp (by rw [List.map_cons] at hn; exact hn)
      simp only [lastWrite]
      rcases List.mem_cons.mp hm with rfl | hm
      · have : lastWrite rest k = none := by
          apply lastWrite_none_of_no_key
          intro e he hk
          exact hn'.1 (List.mem_map.mpr ⟨e, he, hk⟩)
        simp [this]
      · rw [ih hn'.2 hm]

end Otel.Attr
