import OtelVerif.Model.RelAcqSlot
import OtelVerif.Lemmas.RelAcq
/-! The inductive invariant of the slot hand-off on release/acquire memory (`Model/RelAcqSlot.lean`): an ownership
    discipline.  Every element is owned by at most one thread (`holdsEl`) or one slot (the slot's latest value is its
    pointer); the owner's view - the thread's, or the one attached to the slot's latest message - of the element's
    payload is up to date with **every** access to the payload so far; nobody else's view is ahead of that.  Preserved by
    every step when the publishing CAS is release and the exchanges are acquire (`Orders.ok`). -/
namespace Otel.RelAcq.Slot
open Otel.Ring (upd upd_same upd_other)

/-- the element a thread has in hand -/
def holdsEl : Pc → Option Nat
  | .pInit e | .pPub e | .pChk e | .tRead e | .tDel e => some e
  | _ => none

/-- … whose payload has been written (and not destroyed) -/
def inited : Pc → Option Nat
  | .pPub e | .pChk e | .tRead e | .tDel e => some e
  | _ => none

theorem inited_holds {pc : Pc} {e : Nat} (h : inited pc = some e) : holdsEl pc = some e := by
  cases pc <;> simp [inited] at h <;> simp [holdsEl, h]

theorem payL_ne_slotL (e i : Nat) : payL e ≠ slotL i := by unfold payL slotL; omega
theorem slotL_ne_payL (e i : Nat) : slotL i ≠ payL e := by unfold payL slotL; omega
theorem payL_inj {e e' : Nat} (h : payL e = payL e') : e = e' := by unfold payL at h; omega
theorem slotL_inj {i j : Nat} (h : slotL i = slotL j) : i = j := by unfold slotL at h; omega
theorem payL_ne {e e' : Nat} (h : e ≠ e') : payL e ≠ payL e' := fun h' => h (payL_inj h')
theorem slotL_ne {i j : Nat} (h : i ≠ j) : slotL i ≠ slotL j := fun h' => h (slotL_inj h')
theorem ptr_inj {e e' : Nat} (h : ptr e = ptr e') : e = e' := by unfold ptr at h; omega
theorem ptr_ne_zero (e : Nat) : ptr e ≠ 0 := by unfold ptr; omega

structure Inv (s : St) : Prop where
  holdLt     : ∀ t e, holdsEl (s.pcs t) = some e → e < s.nextId
  holdV      : ∀ t e, holdsEl (s.pcs t) = some e → cv s.m t (payL e) = (s.m.na (payL e)).clk
  holdNoSlot : ∀ t e i, holdsEl (s.pcs t) = some e → s.m.latestVal (slotL i) ≠ ptr e
  holdUniq   : ∀ t t' e, holdsEl (s.pcs t) = some e → holdsEl (s.pcs t') = some e → t = t'
  slotLt     : ∀ i e, s.m.latestVal (slotL i) = ptr e → e < s.nextId
  slotV      : ∀ i e, s.m.latestVal (slotL i) = ptr e → lmv s.m (slotL i) (payL e) = (s.m.na (payL e)).clk
  slotUniq   : ∀ i j e, s.m.latestVal (slotL i) = ptr e → s.m.latestVal (slotL j) = ptr e → i = j
  viewsLe    : ∀ t e, cv s.m t (payL e) ≤ (s.m.na (payL e)).clk
  msgsLe     : ∀ i e, MsgsLe s.m (slotL i) (payL e) (s.m.na (payL e)).clk
  lastWLe    : ∀ e, (s.m.na (payL e)).lastW ≤ (s.m.na (payL e)).clk
  noRace     : s.m.race = false
  holdVal    : ∀ t e, inited (s.pcs t) = some e → (s.m.na (payL e)).val = content e
  slotVal    : ∀ i e, s.m.latestVal (slotL i) = ptr e → (s.m.na (payL e)).val = content e
  seenOk     : ∀ x ∈ s.seen, x.2.2 = content x.2.1
  fresh      : ∀ e, s.nextId ≤ e → (s.m.na (payL e)).clk = 0

theorem inv_init : Inv init := by
  refine ⟨?_, ?_, ?_, ?_, ?_, ?_, ?_, ?_, ?_, ?_, rfl, ?_, ?_, ?_, ?_⟩
  · intro t e h; simp [init, holdsEl] at h
  · intro t e h; simp [init, holdsEl] at h
  · intro t e i h; simp [init, holdsEl] at h
  · intro t t' e h; simp [init, holdsEl] at h
  · intro i e h; simp [init, init_latestVal] at h; exact absurd h.symm (ptr_ne_zero e)
  · intro i e h; simp [init, init_latestVal] at h; exact absurd h.symm (ptr_ne_zero e)
  · intro i j e h; simp [init, init_latestVal] at h; exact absurd h.symm (ptr_ne_zero e)
  · intro t e; simp [init, init_cv]
  · intro i e; exact init_msgsLe _ _ _
  · intro e; simp [init, Mem.init]
  · intro t e h; simp [init, inited] at h
  · intro i e h; simp [init, init_latestVal] at h; exact absurd h.symm (ptr_ne_zero e)
  · intro x hx; simp [init] at hx
  · intro e _; simp [init, Mem.init]

/-! ### steps that leave the memory alone -/

theorem inv_pcOnly (s : St) (p : Nat) (pc : Pc) (n' : Nat) (hI : Inv s) (hn : s.nextId ≤ n')
    (hnew : ∀ e, holdsEl pc = some e → e < n' ∧ cv s.m p (payL e) = (s.m.na (payL e)).clk ∧
      (∀ i, s.m.latestVal (slotL i) ≠ ptr e) ∧ (∀ t, t ≠ p → holdsEl (s.pcs t) ≠ some e))
    (hinit : ∀ e, inited pc = some e → (s.m.na (payL e)).val = content e)
    (hfresh : ∀ e, n' ≤ e → (s.m.na (payL e)).clk = 0) :
    Inv { m := s.m, pcs := upd s.pcs p pc, nextId := n', seen := s.seen } := by
  refine ⟨?_, ?_, ?_, ?_, ?_, hI.slotV, hI.slotUniq, hI.viewsLe, hI.msgsLe, hI.lastWLe, hI.noRace, ?_, hI.slotVal, hI.seenOk, hfresh⟩
  · intro t e h
    by_cases ht : t = p
    · subst ht; simp only [upd_same] at h; exact (hnew e h).1
    · simp only [upd_other _ _ _ _ ht] at h; exact Nat.lt_of_lt_of_le (hI.holdLt t e h) hn
  · intro t e h
    by_cases ht : t = p
    · subst ht; simp only [upd_same] at h; exact (hnew e h).2.1
    · simp only [upd_other _ _ _ _ ht] at h; exact hI.holdV t e h
  · intro t e i h
    by_cases ht : t = p
    · subst ht; simp only [upd_same] at h; exact (hnew e h).2.2.1 i
    · simp only [upd_other _ _ _ _ ht] at h; exact hI.holdNoSlot t e i h
  · intro t t' e h h'
    by_cases ht : t = p
    · by_cases ht' : t' = p
      · rw [ht, ht']
      · subst ht; simp only [upd_same] at h; simp only [upd_other _ _ _ _ ht'] at h'
        exact absurd h' ((hnew e h).2.2.2 t' ht')
    · by_cases ht' : t' = p
      · subst ht'; simp only [upd_same] at h'; simp only [upd_other _ _ _ _ ht] at h
        exact absurd h ((hnew e h').2.2.2 t ht)
      · simp only [upd_other _ _ _ _ ht] at h; simp only [upd_other _ _ _ _ ht'] at h'
        exact hI.holdUniq t t' e h h'
  · intro i e h; exact Nat.lt_of_lt_of_le (hI.slotLt i e h) hn
  · intro t e h
    by_cases ht : t = p
    · subst ht; simp only [upd_same] at h; exact hinit e h
    · simp only [upd_other _ _ _ _ ht] at h; exact hI.holdVal t e h

/-- a failed compare_exchange: a load of a slot; only the loading thread's view moves, within bounds -/
theorem inv_loadOnly (s : St) (p i k v : Nat) (ox : MO) (m' : Mem) (hI : Inv s)
    (hl : load s.m p (slotL i) ox k = some (v, m')) :
    Inv { m := m', pcs := s.pcs, nextId := s.nextId, seen := s.seen } := by
  obtain ⟨msg, _, _, hatom, hna, hrace, _⟩ := load_some hl
  have hlv : ∀ l, m'.latestVal l = s.m.latestVal l := fun l => by simp [Mem.latestVal, hatom]
  have hlm : ∀ l x, lmv m' l x = lmv s.m l x := fun l x => by simp [lmv, hatom]
  have hle : ∀ t e, cv m' t (payL e) ≤ (s.m.na (payL e)).clk := by
    intro t e
    by_cases ht : t = p
    · rw [ht]; exact load_cv_le hl _ _ (payL_ne_slotL e i) (hI.msgsLe i e) (hI.viewsLe p e)
    · rw [load_cv_other hl t _ ht]; exact hI.viewsLe t e
  refine ⟨hI.holdLt, ?_, ?_, hI.holdUniq, ?_, ?_, ?_, ?_, ?_, ?_, ?_, ?_, ?_, hI.seenOk, ?_⟩
  · intro t e h
    show cv m' t (payL e) = (m'.na (payL e)).clk
    rw [hna]
    by_cases ht : t = p
    · rw [ht] at h ⊢
      have h1 := load_cv_ge hl (payL e) (payL_ne_slotL e i)
      have h2 := hle p e
      have h3 := hI.holdV p e h
      omega
    · rw [load_cv_other hl t _ ht]; exact hI.holdV t e h
  · intro t e j h; show m'.latestVal (slotL j) ≠ ptr e; rw [hlv]; exact hI.holdNoSlot t e j h
  · intro j e h; exact hI.slotLt j e (by rw [← hlv]; exact h)
  · intro j e h
    show lmv m' (slotL j) (payL e) = (m'.na (payL e)).clk
    rw [hlm, hna]; exact hI.slotV j e (by rw [← hlv]; exact h)
  · intro j j' e h h'; exact hI.slotUniq j j' e (by rw [← hlv]; exact h) (by rw [← hlv]; exact h')
  · intro t e; show cv m' t (payL e) ≤ (m'.na (payL e)).clk; rw [hna]; exact hle t e
  · intro j e msg hm
    show msg.view.get (payL e) ≤ (m'.na (payL e)).clk
    rw [hna]; rw [hatom] at hm; exact hI.msgsLe j e msg hm
  · intro e; show (m'.na (payL e)).lastW ≤ (m'.na (payL e)).clk; rw [hna]; exact hI.lastWLe e
  · show m'.race = false; rw [hrace]; exact hI.noRace
  · intro t e h; show (m'.na (payL e)).val = content e; rw [hna]; exact hI.holdVal t e h
  · intro j e h; show (m'.na (payL e)).val = content e; rw [hna]; exact hI.slotVal j e (by rw [← hlv]; exact h)
  · intro e he; show (m'.na (payL e)).clk = 0; rw [hna]; exact hI.fresh e he

/-! ### the publishing compare_exchange -/

theorem inv_casOk (s : St) (p i e : Nat) (ox : MO) (hrel : ox.isRel = true) (hI : Inv s)
    (hpc : s.pcs p = .pPub e) :
    Inv { m := (rmw s.m p (slotL i) ox (ptr e)).2, pcs := upd s.pcs p (.pPubd i), nextId := s.nextId, seen := s.seen } := by
  have hhold : holdsEl (s.pcs p) = some e := by rw [hpc]; rfl
  have hinit : inited (s.pcs p) = some e := by rw [hpc]; rfl
  have hlv_i : (rmw s.m p (slotL i) ox (ptr e)).2.latestVal (slotL i) = ptr e := rmw_latestVal_same _ _ _ _ _
  have hlv_o : ∀ j, j ≠ i → (rmw s.m p (slotL i) ox (ptr e)).2.latestVal (slotL j) = s.m.latestVal (slotL j) :=
    fun j hj => rmw_latestVal_other _ _ _ _ _ _ (slotL_ne hj)
  have hna : (rmw s.m p (slotL i) ox (ptr e)).2.na = s.m.na := rfl
  have hcvp_le : ∀ e', cv (rmw s.m p (slotL i) ox (ptr e)).2 p (payL e') ≤ (s.m.na (payL e')).clk := by
    intro e'
    rw [rmw_cv_self _ _ _ _ _ _ (payL_ne_slotL e' i)]
    split
    · exact Nat.max_le.2 ⟨hI.viewsLe p e', lmv_le (hI.msgsLe i e')⟩
    · exact hI.viewsLe p e'
  have hcvp_ge : ∀ e', cv s.m p (payL e') ≤ cv (rmw s.m p (slotL i) ox (ptr e)).2 p (payL e') := by
    intro e'
    rw [rmw_cv_self _ _ _ _ _ _ (payL_ne_slotL e' i)]
    split
    · exact Nat.le_max_left _ _
    · exact Nat.le_refl _
  have hnew_le : ∀ e', lmv (rmw s.m p (slotL i) ox (ptr e)).2 (slotL i) (payL e') ≤ (s.m.na (payL e')).clk := by
    intro e'
    rw [rmw_lmv_same, hrel, if_pos rfl]
    exact Nat.max_le.2 ⟨hcvp_le e', lmv_le (hI.msgsLe i e')⟩
  have hother : ∀ t, t ≠ p → ∀ e', holdsEl (s.pcs t) = some e' → e' ≠ e := by
    intro t ht e' h hee; rw [hee] at h; exact ht (hI.holdUniq t p e h hhold)
  refine ⟨?_, ?_, ?_, ?_, ?_, ?_, ?_, ?_, ?_, hI.lastWLe, hI.noRace, ?_, ?_, hI.seenOk, hI.fresh⟩
  · intro t e' h
    by_cases ht : t = p
    · subst ht; simp [holdsEl] at h
    · simp only [upd_other _ _ _ _ ht] at h; exact hI.holdLt t e' h
  · intro t e' h
    by_cases ht : t = p
    · subst ht; simp [holdsEl] at h
    · simp only [upd_other _ _ _ _ ht] at h
      show cv (rmw s.m p (slotL i) ox (ptr e)).2 t (payL e') = _
      rw [rmw_cv_other _ _ _ _ _ _ _ ht]; exact hI.holdV t e' h
  · intro t e' j h
    by_cases ht : t = p
    · subst ht; simp [holdsEl] at h
    · simp only [upd_other _ _ _ _ ht] at h
      show (rmw s.m p (slotL i) ox (ptr e)).2.latestVal (slotL j) ≠ ptr e'
      by_cases hj : j = i
      · rw [hj, hlv_i]; exact fun hp => hother t ht e' h (ptr_inj hp).symm
      · rw [hlv_o j hj]; exact hI.holdNoSlot t e' j h
  · intro t t' e' h h'
    by_cases ht : t = p
    · subst ht; simp [holdsEl] at h
    · by_cases ht' : t' = p
      · subst ht'; simp [holdsEl] at h'
      · simp only [upd_other _ _ _ _ ht] at h; simp only [upd_other _ _ _ _ ht'] at h'
        exact hI.holdUniq t t' e' h h'
  · intro j e' h
    change (rmw s.m p (slotL i) ox (ptr e)).2.latestVal (slotL j) = ptr e' at h
    by_cases hj : j = i
    · rw [hj, hlv_i] at h; rw [← ptr_inj h]; exact hI.holdLt p e hhold
    · rw [hlv_o j hj] at h; exact hI.slotLt j e' h
  · intro j e' h
    change (rmw s.m p (slotL i) ox (ptr e)).2.latestVal (slotL j) = ptr e' at h
    show lmv (rmw s.m p (slotL i) ox (ptr e)).2 (slotL j) (payL e') = _
    by_cases hj : j = i
    · rw [hj, hlv_i] at h
      have hee : e' = e := (ptr_inj h).symm
      rw [hj, hee]
      have h1 := hnew_le e
      have h2 : cv (rmw s.m p (slotL i) ox (ptr e)).2 p (payL e) ≤ lmv (rmw s.m p (slotL i) ox (ptr e)).2 (slotL i) (payL e) := by
        rw [rmw_lmv_same, hrel, if_pos rfl]; exact Nat.le_max_left _ _
      have h3 := hcvp_ge e
      have h4 := hI.holdV p e hhold
      show _ = (s.m.na (payL e)).clk
      omega
    · rw [hlv_o j hj] at h
      rw [rmw_lmv_other _ _ _ _ _ _ _ (slotL_ne hj)]; exact hI.slotV j e' h
  · intro j j' e' h h'
    change (rmw s.m p (slotL i) ox (ptr e)).2.latestVal (slotL j) = ptr e' at h
    change (rmw s.m p (slotL i) ox (ptr e)).2.latestVal (slotL j') = ptr e' at h'
    by_cases hj : j = i
    · by_cases hj' : j' = i
      · rw [hj, hj']
      · exfalso
        rw [hj, hlv_i] at h; rw [hlv_o j' hj'] at h'
        rw [← ptr_inj h] at h'
        exact hI.holdNoSlot p e j' hhold h'
    · by_cases hj' : j' = i
      · exfalso
        rw [hj', hlv_i] at h'; rw [hlv_o j hj] at h
        rw [← ptr_inj h'] at h
        exact hI.holdNoSlot p e j hhold h
      · rw [hlv_o j hj] at h; rw [hlv_o j' hj'] at h'; exact hI.slotUniq j j' e' h h'
  · intro t e'
    show cv (rmw s.m p (slotL i) ox (ptr e)).2 t (payL e') ≤ _
    by_cases ht : t = p
    · rw [ht]; exact hcvp_le e'
    · rw [rmw_cv_other _ _ _ _ _ _ _ ht]; exact hI.viewsLe t e'
  · intro j e'
    by_cases hj : j = i
    · rw [hj]; exact rmw_msgsLe_same (hI.msgsLe i e') (hnew_le e')
    · exact rmw_msgsLe_other (slotL_ne hj) (hI.msgsLe j e')
  · intro t e' h
    by_cases ht : t = p
    · subst ht; simp [inited] at h
    · simp only [upd_other _ _ _ _ ht] at h; exact hI.holdVal t e' h
  · intro j e' h
    change (rmw s.m p (slotL i) ox (ptr e)).2.latestVal (slotL j) = ptr e' at h
    by_cases hj : j = i
    · rw [hj, hlv_i] at h; rw [← ptr_inj h]; exact hI.holdVal p e hinit
    · rw [hlv_o j hj] at h; exact hI.slotVal j e' h

/-! ### an exchange with null (the producer's undo `Swap`, a taker's `Swap` / `Reset`) -/

theorem afterTake_holds {k : Nat → Pc} (hk : ∀ e, holdsEl (k e) = some e) {old e : Nat}
    (h : holdsEl (afterTake k old) = some e) : old = ptr e := by
  unfold afterTake at h
  split at h
  · simp [holdsEl] at h
  · rename_i hz; rw [hk] at h; cases h; unfold ptr; omega

theorem inv_takeCore (s : St) (p i : Nat) (ox : MO) (k : Nat → Pc) (hacq : ox.isAcq = true) (hI : Inv s)
    (hk : ∀ e, holdsEl (k e) = some e) :
    Inv { m := (rmw s.m p (slotL i) ox 0).2, pcs := upd s.pcs p (afterTake k (rmw s.m p (slotL i) ox 0).1), nextId := s.nextId, seen := s.seen } := by
  have hold_eq : (rmw s.m p (slotL i) ox 0).1 = s.m.latestVal (slotL i) := rfl
  have hlv_i : (rmw s.m p (slotL i) ox 0).2.latestVal (slotL i) = 0 := rmw_latestVal_same _ _ _ _ _
  have hlv_o : ∀ j, j ≠ i → (rmw s.m p (slotL i) ox 0).2.latestVal (slotL j) = s.m.latestVal (slotL j) :=
    fun j hj => rmw_latestVal_other _ _ _ _ _ _ (slotL_ne hj)
  have hcvp : ∀ e', cv (rmw s.m p (slotL i) ox 0).2 p (payL e') = max (cv s.m p (payL e')) (lmv s.m (slotL i) (payL e')) := by
    intro e'; rw [rmw_cv_self _ _ _ _ _ _ (payL_ne_slotL e' i), hacq]; rfl
  have hcvp_le : ∀ e', cv (rmw s.m p (slotL i) ox 0).2 p (payL e') ≤ (s.m.na (payL e')).clk := by
    intro e'; rw [hcvp]; exact Nat.max_le.2 ⟨hI.viewsLe p e', lmv_le (hI.msgsLe i e')⟩
  have hnew_le : ∀ e', lmv (rmw s.m p (slotL i) ox 0).2 (slotL i) (payL e') ≤ (s.m.na (payL e')).clk := by
    intro e'
    rw [rmw_lmv_same]
    refine Nat.max_le.2 ⟨?_, lmv_le (hI.msgsLe i e')⟩
    split
    · exact hcvp_le e'
    · exact Nat.zero_le _
  -- what p holds afterwards was in slot i
  have hgot : ∀ e', holdsEl (afterTake k (rmw s.m p (slotL i) ox 0).1) = some e' → s.m.latestVal (slotL i) = ptr e' :=
    fun e' h => by rw [← hold_eq]; exact afterTake_holds hk h
  have hgoti : ∀ e', inited (afterTake k (rmw s.m p (slotL i) ox 0).1) = some e' → s.m.latestVal (slotL i) = ptr e' :=
    fun e' h => hgot e' (inited_holds h)
  have hslot_ne : ∀ j e', (rmw s.m p (slotL i) ox 0).2.latestVal (slotL j) = ptr e' → j ≠ i ∧ s.m.latestVal (slotL j) = ptr e' := by
    intro j e' h
    by_cases hj : j = i
    · rw [hj, hlv_i] at h; exact absurd h.symm (ptr_ne_zero e')
    · rw [hlv_o j hj] at h; exact ⟨hj, h⟩
  refine ⟨?_, ?_, ?_, ?_, ?_, ?_, ?_, ?_, ?_, hI.lastWLe, hI.noRace, ?_, ?_, hI.seenOk, hI.fresh⟩
  · intro t e' h
    by_cases ht : t = p
    · subst ht; simp only [upd_same] at h; exact hI.slotLt i e' (hgot e' h)
    · simp only [upd_other _ _ _ _ ht] at h; exact hI.holdLt t e' h
  · intro t e' h
    show cv (rmw s.m p (slotL i) ox 0).2 t (payL e') = (s.m.na (payL e')).clk
    by_cases ht : t = p
    · subst ht; simp only [upd_same] at h
      rw [hcvp, hI.slotV i e' (hgot e' h)]
      exact Nat.max_eq_right (hI.viewsLe t e')
    · simp only [upd_other _ _ _ _ ht] at h
      rw [rmw_cv_other _ _ _ _ _ _ _ ht]; exact hI.holdV t e' h
  · intro t e' j h
    show (rmw s.m p (slotL i) ox 0).2.latestVal (slotL j) ≠ ptr e'
    by_cases ht : t = p
    · subst ht; simp only [upd_same] at h
      intro hj
      obtain ⟨hji, hj'⟩ := hslot_ne j e' hj
      exact hji (hI.slotUniq j i e' hj' (hgot e' h))
    · simp only [upd_other _ _ _ _ ht] at h
      intro hj
      exact hI.holdNoSlot t e' j h (hslot_ne j e' hj).2
  · intro t t' e' h h'
    by_cases ht : t = p
    · by_cases ht' : t' = p
      · rw [ht, ht']
      · exfalso
        subst ht; simp only [upd_same] at h; simp only [upd_other _ _ _ _ ht'] at h'
        exact hI.holdNoSlot t' e' i h' (hgot e' h)
    · by_cases ht' : t' = p
      · exfalso
        subst ht'; simp only [upd_same] at h'; simp only [upd_other _ _ _ _ ht] at h
        exact hI.holdNoSlot t e' i h (hgot e' h')
      · simp only [upd_other _ _ _ _ ht] at h; simp only [upd_other _ _ _ _ ht'] at h'
        exact hI.holdUniq t t' e' h h'
  · intro j e' h; exact hI.slotLt j e' (hslot_ne j e' h).2
  · intro j e' h
    obtain ⟨hj, h'⟩ := hslot_ne j e' h
    show lmv (rmw s.m p (slotL i) ox 0).2 (slotL j) (payL e') = _
    rw [rmw_lmv_other _ _ _ _ _ _ _ (slotL_ne hj)]; exact hI.slotV j e' h'
  · intro j j' e' h h'; exact hI.slotUniq j j' e' (hslot_ne j e' h).2 (hslot_ne j' e' h').2
  · intro t e'
    show cv (rmw s.m p (slotL i) ox 0).2 t (payL e') ≤ _
    by_cases ht : t = p
    · rw [ht]; exact hcvp_le e'
    · rw [rmw_cv_other _ _ _ _ _ _ _ ht]; exact hI.viewsLe t e'
  · intro j e'
    by_cases hj : j = i
    · rw [hj]; exact rmw_msgsLe_same (hI.msgsLe i e') (hnew_le e')
    · exact rmw_msgsLe_other (slotL_ne hj) (hI.msgsLe j e')
  · intro t e' h
    by_cases ht : t = p
    · subst ht; simp only [upd_same] at h; exact hI.slotVal i e' (hgoti e' h)
    · simp only [upd_other _ _ _ _ ht] at h; exact hI.holdVal t e' h
  · intro j e' h; exact hI.slotVal j e' (hslot_ne j e' h).2

/-! ### plain accesses to a payload by the thread that holds the element -/

/-- facts shared by the plain read and the plain writes: nobody else refers to `e` -/
theorem others_ne {s : St} (hI : Inv s) {p e : Nat} (hp : holdsEl (s.pcs p) = some e) {t e' : Nat} (ht : t ≠ p)
    (h : holdsEl (s.pcs t) = some e') : e' ≠ e := by
  intro hee; rw [hee] at h; exact ht (hI.holdUniq t p e h hp)

theorem slot_ne {s : St} (hI : Inv s) {p e : Nat} (hp : holdsEl (s.pcs p) = some e) {j e' : Nat}
    (h : s.m.latestVal (slotL j) = ptr e') : e' ≠ e := by
  intro hee; rw [hee] at h; exact hI.holdNoSlot p e j hp h

theorem inv_naRead (s : St) (p e : Nat) (pc : Pc) (hI : Inv s) (hp : holdsEl (s.pcs p) = some e)
    (hpi : inited (s.pcs p) = some e) (hpc : holdsEl pc = some e) :
    Inv { m := (naRead s.m p (payL e)).2, pcs := upd s.pcs p pc, nextId := s.nextId, seen := (p, e, (naRead s.m p (payL e)).1) :: s.seen } := by
  have hv := hI.holdV p e hp
  have hlv : ∀ l, (naRead s.m p (payL e)).2.latestVal l = s.m.latestVal l := fun _ => rfl
  have hlm : ∀ l x, lmv (naRead s.m p (payL e)).2 l x = lmv s.m l x := fun _ _ => rfl
  have hna_o : ∀ e', e' ≠ e → (naRead s.m p (payL e)).2.na (payL e') = s.m.na (payL e') :=
    fun e' h => naRead_na_other _ _ _ _ (payL_ne h)
  have hpci : ∀ e', inited pc = some e' → e' = e := by
    intro e' h; have := inited_holds h; rw [hpc] at this; cases this; rfl
  refine ⟨?_, ?_, ?_, ?_, hI.slotLt, ?_, hI.slotUniq, ?_, ?_, ?_, ?_, ?_, ?_, ?_, ?_⟩
  · intro t e' h
    by_cases ht : t = p
    · subst ht; simp only [upd_same] at h; rw [hpc] at h; cases h; exact hI.holdLt t e hp
    · simp only [upd_other _ _ _ _ ht] at h; exact hI.holdLt t e' h
  · intro t e' h
    show cv (naRead s.m p (payL e)).2 t (payL e') = ((naRead s.m p (payL e)).2.na (payL e')).clk
    by_cases ht : t = p
    · subst ht; simp only [upd_same] at h; rw [hpc] at h; cases h
      rw [naRead_cv_self _ _ _ hv, naRead_na_same]
    · simp only [upd_other _ _ _ _ ht] at h
      rw [naRead_cv_other _ _ _ _ _ ht, hna_o e' (others_ne hI hp ht h)]; exact hI.holdV t e' h
  · intro t e' j h
    show s.m.latestVal (slotL j) ≠ ptr e'
    by_cases ht : t = p
    · subst ht; simp only [upd_same] at h; rw [hpc] at h; cases h; exact hI.holdNoSlot t e j hp
    · simp only [upd_other _ _ _ _ ht] at h; exact hI.holdNoSlot t e' j h
  · intro t t' e' h h'
    by_cases ht : t = p
    · by_cases ht' : t' = p
      · rw [ht, ht']
      · exfalso
        subst ht; simp only [upd_same] at h; simp only [upd_other _ _ _ _ ht'] at h'
        rw [hpc] at h; cases h; exact others_ne hI hp ht' h' rfl
    · by_cases ht' : t' = p
      · exfalso
        subst ht'; simp only [upd_same] at h'; simp only [upd_other _ _ _ _ ht] at h
        rw [hpc] at h'; cases h'; exact others_ne hI hp ht h rfl
      · simp only [upd_other _ _ _ _ ht] at h; simp only [upd_other _ _ _ _ ht'] at h'
        exact hI.holdUniq t t' e' h h'
  · intro j e' h
    show lmv s.m (slotL j) (payL e') = ((naRead s.m p (payL e)).2.na (payL e')).clk
    rw [hna_o e' (slot_ne hI hp h)]; exact hI.slotV j e' h
  · intro t e'
    show cv (naRead s.m p (payL e)).2 t (payL e') ≤ ((naRead s.m p (payL e)).2.na (payL e')).clk
    by_cases he : e' = e
    · rw [he, naRead_na_same]
      by_cases ht : t = p
      · rw [ht, naRead_cv_self _ _ _ hv]; exact Nat.le_refl _
      · rw [naRead_cv_other _ _ _ _ _ ht]; exact Nat.le_succ_of_le (hI.viewsLe t e)
    · rw [hna_o e' he]
      by_cases ht : t = p
      · rw [ht, naRead_cv_self_other _ _ _ _ (payL_ne he)]; exact hI.viewsLe p e'
      · rw [naRead_cv_other _ _ _ _ _ ht]; exact hI.viewsLe t e'
  · intro j e' msg hm
    show msg.view.get (payL e') ≤ ((naRead s.m p (payL e)).2.na (payL e')).clk
    by_cases he : e' = e
    · rw [he, naRead_na_same]; exact Nat.le_succ_of_le (hI.msgsLe j e msg hm)
    · rw [hna_o e' he]; exact hI.msgsLe j e' msg hm
  · intro e'
    show ((naRead s.m p (payL e)).2.na (payL e')).lastW ≤ ((naRead s.m p (payL e)).2.na (payL e')).clk
    by_cases he : e' = e
    · rw [he, naRead_na_same]; exact Nat.le_succ_of_le (hI.lastWLe e)
    · rw [hna_o e' he]; exact hI.lastWLe e'
  · show (naRead s.m p (payL e)).2.race = false
    rw [naRead_race, hI.noRace, hv]
    have := hI.lastWLe e
    simp only [Bool.false_or, decide_eq_false_iff_not]; omega
  · intro t e' h
    show ((naRead s.m p (payL e)).2.na (payL e')).val = content e'
    by_cases ht : t = p
    · subst ht; simp only [upd_same] at h; rw [hpci e' h, naRead_na_same]; exact hI.holdVal t e hpi
    · simp only [upd_other _ _ _ _ ht] at h
      rw [hna_o e' (others_ne hI hp ht (inited_holds h))]; exact hI.holdVal t e' h
  · intro j e' h
    show ((naRead s.m p (payL e)).2.na (payL e')).val = content e'
    rw [hna_o e' (slot_ne hI hp h)]; exact hI.slotVal j e' h
  · intro x hx
    rcases List.mem_cons.1 hx with hx | hx
    · rw [hx]; show (naRead s.m p (payL e)).1 = content e; rw [naRead_val]; exact hI.holdVal p e hpi
    · exact hI.seenOk x hx
  · intro e' he'
    show ((naRead s.m p (payL e)).2.na (payL e')).clk = 0
    have he'' : s.nextId ≤ e' := he'
    have : e' ≠ e := by have := hI.holdLt p e hp; omega
    rw [hna_o e' this]; exact hI.fresh e' he'

/-- a plain write of the payload by its holder: the initialisation (`keep = true`, value `content e`) or the
    destruction (`keep = false`: the thread lets go of the element) -/
theorem inv_naWrite (s : St) (p e v : Nat) (pc : Pc) (hI : Inv s) (hp : holdsEl (s.pcs p) = some e)
    (hpc : holdsEl pc = some e ∧ v = content e ∨ holdsEl pc = none ∧ inited pc = none) :
    Inv { m := naWrite s.m p (payL e) v, pcs := upd s.pcs p pc, nextId := s.nextId, seen := s.seen } := by
  have hv := hI.holdV p e hp
  have hna_o : ∀ e', e' ≠ e → (naWrite s.m p (payL e) v).na (payL e') = s.m.na (payL e') :=
    fun e' h => naWrite_na_other _ _ _ _ _ (payL_ne h)
  have hpch : ∀ e', holdsEl pc = some e' → e' = e ∧ v = content e := by
    intro e' h
    rcases hpc with ⟨h1, h2⟩ | ⟨h1, _⟩
    · rw [h1] at h; cases h; exact ⟨rfl, h2⟩
    · rw [h1] at h; cases h
  refine ⟨?_, ?_, ?_, ?_, hI.slotLt, ?_, hI.slotUniq, ?_, ?_, ?_, ?_, ?_, ?_, hI.seenOk, ?_⟩
  · intro t e' h
    by_cases ht : t = p
    · subst ht; simp only [upd_same] at h; rw [(hpch e' h).1]; exact hI.holdLt t e hp
    · simp only [upd_other _ _ _ _ ht] at h; exact hI.holdLt t e' h
  · intro t e' h
    show cv (naWrite s.m p (payL e) v) t (payL e') = ((naWrite s.m p (payL e) v).na (payL e')).clk
    by_cases ht : t = p
    · subst ht; simp only [upd_same] at h; rw [(hpch e' h).1, naWrite_cv_self, naWrite_na_same]
    · simp only [upd_other _ _ _ _ ht] at h
      rw [naWrite_cv_other _ _ _ _ _ _ ht, hna_o e' (others_ne hI hp ht h)]; exact hI.holdV t e' h
  · intro t e' j h
    show s.m.latestVal (slotL j) ≠ ptr e'
    by_cases ht : t = p
    · subst ht; simp only [upd_same] at h; rw [(hpch e' h).1]; exact hI.holdNoSlot t e j hp
    · simp only [upd_other _ _ _ _ ht] at h; exact hI.holdNoSlot t e' j h
  · intro t t' e' h h'
    by_cases ht : t = p
    · by_cases ht' : t' = p
      · rw [ht, ht']
      · exfalso
        subst ht; simp only [upd_same] at h; simp only [upd_other _ _ _ _ ht'] at h'
        exact others_ne hI hp ht' h' (hpch e' h).1
    · by_cases ht' : t' = p
      · exfalso
        subst ht'; simp only [upd_same] at h'; simp only [upd_other _ _ _ _ ht] at h
        exact others_ne hI hp ht h (hpch e' h').1
      · simp only [upd_other _ _ _ _ ht] at h; simp only [upd_other _ _ _ _ ht'] at h'
        exact hI.holdUniq t t' e' h h'
  · intro j e' h
    show lmv s.m (slotL j) (payL e') = ((naWrite s.m p (payL e) v).na (payL e')).clk
    rw [hna_o e' (slot_ne hI hp h)]; exact hI.slotV j e' h
  · intro t e'
    show cv (naWrite s.m p (payL e) v) t (payL e') ≤ ((naWrite s.m p (payL e) v).na (payL e')).clk
    by_cases he : e' = e
    · rw [he, naWrite_na_same]
      by_cases ht : t = p
      · rw [ht, naWrite_cv_self]; exact Nat.le_refl _
      · rw [naWrite_cv_other _ _ _ _ _ _ ht]; exact Nat.le_succ_of_le (hI.viewsLe t e)
    · rw [hna_o e' he]
      by_cases ht : t = p
      · rw [ht, naWrite_cv_self_other _ _ _ _ _ (payL_ne he)]; exact hI.viewsLe p e'
      · rw [naWrite_cv_other _ _ _ _ _ _ ht]; exact hI.viewsLe t e'
  · intro j e' msg hm
    show msg.view.get (payL e') ≤ ((naWrite s.m p (payL e) v).na (payL e')).clk
    by_cases he : e' = e
    · rw [he, naWrite_na_same]; exact Nat.le_succ_of_le (hI.msgsLe j e msg hm)
    · rw [hna_o e' he]; exact hI.msgsLe j e' msg hm
  · intro e'
    show ((naWrite s.m p (payL e) v).na (payL e')).lastW ≤ ((naWrite s.m p (payL e) v).na (payL e')).clk
    by_cases he : e' = e
    · rw [he, naWrite_na_same]; exact Nat.le_refl _
    · rw [hna_o e' he]; exact hI.lastWLe e'
  · show (naWrite s.m p (payL e) v).race = false
    rw [naWrite_race, hI.noRace, hv]; simp
  · intro t e' h
    show ((naWrite s.m p (payL e) v).na (payL e')).val = content e'
    by_cases ht : t = p
    · subst ht; simp only [upd_same] at h
      obtain ⟨h1, h2⟩ := hpch e' (inited_holds h)
      rw [h1, naWrite_na_same, h2]
    · simp only [upd_other _ _ _ _ ht] at h
      rw [hna_o e' (others_ne hI hp ht (inited_holds h))]; exact hI.holdVal t e' h
  · intro j e' h
    show ((naWrite s.m p (payL e) v).na (payL e')).val = content e'
    rw [hna_o e' (slot_ne hI hp h)]; exact hI.slotVal j e' h
  · intro e' he'
    show ((naWrite s.m p (payL e) v).na (payL e')).clk = 0
    have he'' : s.nextId ≤ e' := he'
    have : e' ≠ e := by have := hI.holdLt p e hp; omega
    rw [hna_o e' this]; exact hI.fresh e' he'

/-! ### every step -/

theorem ok_parts {o : Orders} (hok : o.ok = true) : o.casOk.isRel = true ∧ o.swapX.isAcq = true ∧ o.resetX.isAcq = true := by
  simpa [Orders.ok, Bool.and_eq_true, and_assoc] using hok

theorem inv_step (o : Orders) (hok : o.ok = true) (s s' : St) (a : Act) (hI : Inv s) (h : step o s a = some s') : Inv s' := by
  obtain ⟨hrel, hswap, hreset⟩ := ok_parts hok
  cases a with
  | start p =>
    simp only [step] at h
    split at h
    · rename_i hpc
      cases h
      refine inv_pcOnly s p _ (s.nextId + 1) hI (Nat.le_succ _) ?_ ?_ ?_
      · intro e he
        simp only [holdsEl, Option.some.injEq] at he
        subst he
        refine ⟨Nat.lt_succ_self _, ?_, ?_, ?_⟩
        · have h1 := hI.viewsLe p s.nextId
          have h2 := hI.fresh s.nextId (Nat.le_refl _)
          omega
        · intro i hi; exact Nat.lt_irrefl _ (hI.slotLt i _ hi)
        · intro t _ ht; exact Nat.lt_irrefl _ (hI.holdLt t _ ht)
      · intro e he; simp [inited] at he
      · intro e he; exact hI.fresh e (by omega)
    · cases h
  | init p =>
    simp only [step] at h
    split at h
    · rename_i e hpc
      cases h
      exact inv_naWrite s p e (content e) _ hI (by rw [hpc]; rfl) (Or.inl ⟨rfl, rfl⟩)
    · cases h
  | casOk p i =>
    simp only [step] at h
    split at h
    · rename_i e hpc
      split at h
      · cases h; exact inv_casOk s p i e _ hrel hI hpc
      · cases h
    · cases h
  | casFail p i k spur =>
    simp only [step] at h
    split at h
    · split at h
      · rename_i v m' hl
        split at h
        · cases h; exact inv_loadOnly s p i k v _ m' hI hl
        · cases h
      · cases h
    · cases h
  | giveUp p =>
    simp only [step] at h
    split at h
    · rename_i e hpc
      cases h
      have hp : holdsEl (s.pcs p) = some e := by rw [hpc]; rfl
      have hpi : inited (s.pcs p) = some e := by rw [hpc]; rfl
      refine inv_pcOnly s p _ s.nextId hI (Nat.le_refl _) ?_ ?_ hI.fresh
      · intro e' he'
        simp only [holdsEl, Option.some.injEq] at he'
        subst he'
        exact ⟨hI.holdLt p _ hp, hI.holdV p _ hp, fun i => hI.holdNoSlot p _ i hp,
          fun t ht h' => ht (hI.holdUniq t p _ h' hp)⟩
      · intro e' he'
        simp only [inited, Option.some.injEq] at he'
        subst he'
        exact hI.holdVal p _ hpi
    · cases h
  | commit p =>
    simp only [step] at h
    split at h
    · cases h
      refine inv_pcOnly s p _ s.nextId hI (Nat.le_refl _) ?_ ?_ hI.fresh
      · intro e he; simp [holdsEl] at he
      · intro e he; simp [inited] at he
    · cases h
  | undo p =>
    simp only [step] at h
    split at h
    · cases h; exact inv_takeCore s p _ _ .pChk hswap hI (fun _ => rfl)
    · cases h
  | chk p =>
    simp only [step] at h
    split at h
    · rename_i e hpc
      cases h
      exact inv_naRead s p e _ hI (by rw [hpc]; rfl) (by rw [hpc]; rfl) rfl
    · cases h
  | take c i viaReset =>
    simp only [step] at h
    split at h
    · cases h
      refine inv_takeCore s c _ _ .tRead ?_ hI (fun _ => rfl)
      cases viaReset
      · exact hswap
      · exact hreset
    · cases h
  | tread c =>
    simp only [step] at h
    split at h
    · rename_i e hpc
      cases h
      exact inv_naRead s c e _ hI (by rw [hpc]; rfl) (by rw [hpc]; rfl) rfl
    · cases h
  | tdel c =>
    simp only [step] at h
    split at h
    · rename_i e hpc
      cases h
      exact inv_naWrite s c e 0 _ hI (by rw [hpc]; rfl) (Or.inr ⟨rfl, rfl⟩)
    · cases h

theorem inv_run (o : Orders) (hok : o.ok = true) (s s' : St) (as : List Act) (hI : Inv s) (h : run o s as = some s') : Inv s' := by
  induction as generalizing s with
  | nil => simp [run] at h; subst h; exact hI
  | cons a as ih =>
    simp only [run] at h
    split at h
    · rename_i s1 hs1; exact ih s1 (inv_step o hok s s1 a hI hs1) h
    · cases h

end Otel.RelAcq.Slot
