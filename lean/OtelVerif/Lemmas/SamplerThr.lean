import Mathlib.Data.Rat.Floor
import Mathlib.Tactic.Linarith
import Mathlib.Tactic.Positivity
import OtelVerif.Model.Sampler
/-! # `CalculateThreshold` is monotone, for every monotone rounding that fixes the integers below 2^53

The argument of DESIGN.md, Appendix E.  `thr R p` is the part of `CalculateThreshold` after the product
`p = fl(UINT32_MAX * ratio)` has been formed, over the integers (no wrap-around); `thr_bounds` shows that no
wrap-around can occur, `thr_mono` that it is monotone in `p`. -/
namespace Otel.C12
open Otel Otel.Sampler

/-- an abstract rounding `ℚ → ℚ`: monotone, and the identity on integers of magnitude below 2^53 -/
structure Rnd where
  fl : ℚ → ℚ
  mono : ∀ x y : ℚ, x ≤ y → fl x ≤ fl y
  fixInt : ∀ n : ℤ, |n| < 2 ^ 53 → fl n = n

variable (R : Rnd)

theorem Rnd.fix_nat (n : ℕ) (h : n < 2 ^ 53) : R.fl (n : ℚ) = n := by
  have := R.fixInt (n : ℤ) (by rw [abs_lt]; constructor <;> omega)
  simpa using this

theorem Rnd.nonneg {x : ℚ} (h : 0 ≤ x) : 0 ≤ R.fl x := by
  have := R.mono 0 x h
  have h0 := R.fixInt 0 (by norm_num)
  simp at h0
  rwa [h0] at this

/-- `(hi << 32) + lo` over ℤ, with `hi = ⌊p⌋` and `lo = ⌊fl(2^32·frac(p) + p)⌋` -/
def thr (p : ℚ) : ℤ := 2 ^ 32 * ⌊p⌋ + ⌊R.fl (2 ^ 32 * (p - ⌊p⌋) + p)⌋

theorem thr_mono (p₁ p₂ : ℚ) (h0 : 0 ≤ p₁) (hle : p₁ ≤ p₂) (hU : p₂ ≤ 2 ^ 32 - 1) :
    thr R p₁ ≤ thr R p₂ := by
  unfold thr
  have hf1 : ⌊p₁⌋ ≤ ⌊p₂⌋ := Int.floor_mono hle
  rcases hf1.eq_or_lt with heq | hlt
  · -- same integer part
    rw [heq]
    have : (2:ℚ)^32 * (p₁ - ⌊p₂⌋) + p₁ ≤ 2^32 * (p₂ - ⌊p₂⌋) + p₂ := by
      have : (0:ℚ) ≤ 2^32 := by positivity
      nlinarith
    have := Int.floor_mono (R.mono _ _ this)
    linarith
  · -- integer part grows by at least one
    have hh : ⌊p₁⌋ + 1 ≤ ⌊p₂⌋ := hlt
    have hfl1 : p₁ < ⌊p₁⌋ + 1 := Int.lt_floor_add_one p₁
    have hfl1' : (⌊p₁⌋ : ℚ) ≤ p₁ := Int.floor_le p₁
    have hfl2' : (⌊p₂⌋ : ℚ) ≤ p₂ := Int.floor_le p₂
    have hp1nn : (0:ℤ) ≤ ⌊p₁⌋ := Int.floor_nonneg.mpr h0
    have hp2lt : ⌊p₂⌋ ≤ 2^32 - 1 := by
      have : ⌊p₂⌋ ≤ ⌊((2^32 - 1 : ℤ) : ℚ)⌋ := Int.floor_mono (by push_cast; linarith)
      simpa using this
    -- upper bound for l₁
    have hs1 : (2:ℚ)^32 * (p₁ - ⌊p₁⌋) + p₁ ≤ ((2^32 + ⌊p₁⌋ + 1 : ℤ) : ℚ) := by
      push_cast
      have : (0:ℚ) ≤ 2^32 := by positivity
      nlinarith
    have hb1 : R.fl (2^32 * (p₁ - ⌊p₁⌋) + p₁) ≤ ((2^32 + ⌊p₁⌋ + 1 : ℤ) : ℚ) := by
      have := R.mono _ _ hs1
      rwa [R.fixInt _ (by rw [abs_lt]; constructor <;> omega)] at this
    have hl1 : ⌊R.fl (2^32 * (p₁ - ⌊p₁⌋) + p₁)⌋ ≤ 2^32 + ⌊p₁⌋ + 1 := by
      have := Int.floor_mono hb1
      simpa using this
    -- lower bound for l₂
    have hs2 : ((⌊p₂⌋ : ℤ) : ℚ) ≤ 2^32 * (p₂ - ⌊p₂⌋) + p₂ := by
      have : (0:ℚ) ≤ 2^32 := by positivity
      nlinarith
    have hb2 : ((⌊p₂⌋ : ℤ) : ℚ) ≤ R.fl (2^32 * (p₂ - ⌊p₂⌋) + p₂) := by
      have := R.mono _ _ hs2
      rwa [R.fixInt _ (by rw [abs_lt]; constructor <;> omega)] at this
    have hl2 : ⌊p₂⌋ ≤ ⌊R.fl (2^32 * (p₂ - ⌊p₂⌋) + p₂)⌋ := Int.le_floor.mpr hb2
    nlinarith

/-- the ranges of the two conversions to `uint64_t` and of the sum: nothing wraps -/
theorem thr_bounds (p : ℚ) (h0 : 0 ≤ p) (hU : p ≤ 2 ^ 32 - 1) :
    0 ≤ ⌊p⌋ ∧ ⌊p⌋ ≤ 2 ^ 32 - 1 ∧ 0 ≤ ⌊R.fl (2 ^ 32 * (p - ⌊p⌋) + p)⌋ ∧ thr R p ≤ 2 ^ 64 - 1 := by
  have hfl : p < ⌊p⌋ + 1 := Int.lt_floor_add_one p
  have hfl' : (⌊p⌋ : ℚ) ≤ p := Int.floor_le p
  have hnn : (0:ℤ) ≤ ⌊p⌋ := Int.floor_nonneg.mpr h0
  have hlt : ⌊p⌋ ≤ 2^32 - 1 := by
    have : ⌊p⌋ ≤ ⌊((2^32 - 1 : ℤ) : ℚ)⌋ := Int.floor_mono (by push_cast; linarith)
    simpa using this
  have hargnn : (0:ℚ) ≤ 2 ^ 32 * (p - ⌊p⌋) + p := by
    have : (0:ℚ) ≤ 2^32 := by positivity
    nlinarith
  have hlnn : 0 ≤ ⌊R.fl (2 ^ 32 * (p - ⌊p⌋) + p)⌋ := Int.floor_nonneg.mpr (R.nonneg hargnn)
  refine ⟨hnn, hlt, hlnn, ?_⟩
  unfold thr
  rcases hlt.eq_or_lt with heq | hlt'
  · -- ⌊p⌋ = 2^32 - 1, so p = 2^32 - 1 exactly
    have hp : p = ((2 ^ 32 - 1 : ℤ) : ℚ) := by
      apply le_antisymm
      · push_cast; linarith
      · rw [← heq]; exact hfl'
    have harg : (2:ℚ) ^ 32 * (p - ⌊p⌋) + p = ((2 ^ 32 - 1 : ℤ) : ℚ) := by
      rw [heq, hp]; push_cast; ring
    rw [harg, R.fixInt _ (by norm_num), Int.floor_intCast, heq]
    norm_num
  · have hs1 : (2:ℚ)^32 * (p - ⌊p⌋) + p ≤ ((2^32 + ⌊p⌋ + 1 : ℤ) : ℚ) := by
      push_cast
      have : (0:ℚ) ≤ 2^32 := by positivity
      nlinarith
    have hb1 : R.fl (2^32 * (p - ⌊p⌋) + p) ≤ ((2^32 + ⌊p⌋ + 1 : ℤ) : ℚ) := by
      have := R.mono _ _ hs1
      rwa [R.fixInt _ (by rw [abs_lt]; constructor <;> omega)] at this
    have hl1 : ⌊R.fl (2^32 * (p - ⌊p⌋) + p)⌋ ≤ 2^32 + ⌊p⌋ + 1 := by
      have := Int.floor_mono hb1
      simpa using this
    omega

theorem gen_constants :
    Gen.samplerThresholdMax = 2 ^ 64 - 1 ∧ Gen.samplerMultiplier = 2 ^ 32 - 1 ∧ Gen.samplerLdexp = 32 ∧
    Gen.samplerShift = 32 ∧ Gen.samplerIdBytes = 8 ∧ Gen.samplerIdDivisor = 2 ^ 64 - 1 := by decide

/-- the rounded product `fl(UINT32_MAX · r)` stays in `[0, 2^32 - 1]` for `0 ≤ r ≤ 1` -/
theorem product_bounds (r : ℚ) (h0 : 0 ≤ r) (h1 : r ≤ 1) :
    0 ≤ R.fl ((2 ^ 32 - 1) * r) ∧ R.fl ((2 ^ 32 - 1) * r) ≤ 2 ^ 32 - 1 := by
  constructor
  · exact R.nonneg (by nlinarith)
  · have h : (2 ^ 32 - 1 : ℚ) * r ≤ ((2 ^ 32 - 1 : ℤ) : ℚ) := by push_cast; nlinarith
    have := R.mono _ _ h
    rw [R.fixInt _ (by norm_num)] at this
    push_cast at this
    linarith

/-- inside `(0,1)` the model's `thresholdWith` is `thr` of the rounded product: the `% 2^64` are vacuous -/
theorem thresholdWith_eq (r : ℚ) (h0 : 0 < r) (h1 : r < 1) :
    (thresholdWith R.fl r : ℤ) = thr R (R.fl ((2 ^ 32 - 1) * r)) := by
  obtain ⟨hp0, hpU⟩ := product_bounds R r h0.le h1.le
  obtain ⟨hnn, hlt, hlnn, hmax⟩ := thr_bounds R _ hp0 hpU
  unfold thr at hmax ⊢
  unfold thresholdWith toU64
  rw [if_neg (not_le.mpr h0), if_neg (not_le.mpr h1)]
  have hm : ((Gen.samplerMultiplier : ℕ) : ℚ) = 2 ^ 32 - 1 := by
    rw [gen_constants.2.1]; norm_num
  simp only [hm, gen_constants.2.2.1, gen_constants.2.2.2.1]
  generalize R.fl ((2 ^ 32 - 1) * r) = p at *
  have e1 : (Rat.floor p) = ⌊p⌋ := rfl
  have e2 : ∀ q : ℚ, Rat.floor q = ⌊q⌋ := fun _ => rfl
  simp only [e2, Int.floor_intCast]
  generalize ⌊R.fl (2 ^ 32 * (p - ⌊p⌋) + p)⌋ = l at *
  generalize ⌊p⌋ = h at *
  have hh : (h.toNat : ℤ) = h := Int.toNat_of_nonneg hnn
  have hl : (l.toNat : ℤ) = l := Int.toNat_of_nonneg hlnn
  omega

end Otel.C12
