import OtelVerif.Model.RelAcq
/-! Facts about the memory operations of `Model/RelAcq.lean`, in the form the client invariants use them: what a step
    does to a thread's view of a location (`cv`), to the latest message of a location and to the set of messages. -/
namespace Otel.RelAcq
open Otel.Ring (upd upd_same upd_other)

@[simp] theorem View.get_bot (l : Nat) : View.bot.get l = 0 := by simp [View.bot, View.get]

theorem View.get_nil (l : Nat) : View.get [] l = 0 := by simp [View.get]

theorem View.get_join (a b : View) (l : Nat) : (a.join b).get l = max (a.get l) (b.get l) := by
  induction a generalizing b l with
  | nil => simp [View.join, View.get]
  | cons x a ih =>
    cases b with
    | nil => simp [View.join, View.get]
    | cons y b =>
      cases l with
      | zero => simp [View.join, View.get]
      | succ l => simpa [View.join, View.get] using ih b l

theorem View.get_set (a : View) (l n x : Nat) : (a.set l n).get x = if x = l then n else a.get x := by
  induction l generalizing a x with
  | zero =>
    cases a with
    | nil => cases x <;> simp [View.set, View.get]
    | cons y a => cases x <;> simp [View.set, View.get]
  | succ l ih =>
    cases a with
    | nil =>
      cases x with
      | zero => simp [View.set, View.get]
      | succ x => simpa [View.set, View.get] using ih [] x
    | cons y a =>
      cases x with
      | zero => simp [View.set, View.get]
      | succ x => simpa [View.set, View.get] using ih a x

theorem latest_append (msgs : List Msg) (m : Msg) : latest (msgs ++ [m]) = m := by
  unfold latest
  rw [List.getLastD_eq_getLast?]
  simp

/-- thread `t`'s view of location `x` -/
def cv (m : Mem) (t x : Nat) : Nat := (m.views t).get x
/-- what the latest message of `l` carries for location `x` -/
def lmv (m : Mem) (l x : Nat) : Nat := (latest (m.atom l)).view.get x
/-- every message of `l` carries at most `n` for location `x` -/
def MsgsLe (m : Mem) (l x n : Nat) : Prop := ∀ msg ∈ m.atom l, msg.view.get x ≤ n

theorem MsgsLe.mono {m : Mem} {l x n n' : Nat} (h : MsgsLe m l x n) (hn : n ≤ n') : MsgsLe m l x n' :=
  fun msg hm => Nat.le_trans (h msg hm) hn

theorem lmv_le {m : Mem} {l x n : Nat} (h : MsgsLe m l x n) : lmv m l x ≤ n := by
  unfold lmv latest
  rw [List.getLastD_eq_getLast?]
  cases hl : (m.atom l).getLast? with
  | none => simp [Msg.init]
  | some msg => exact h msg (List.mem_of_getLast? hl)

theorem init_cv (t x : Nat) : cv Mem.init t x = 0 := by simp [cv, Mem.init]
theorem init_lmv (l x : Nat) : lmv Mem.init l x = 0 := by simp [lmv, Mem.init, latest, Msg.init]
theorem init_latestVal (l : Nat) : Mem.init.latestVal l = 0 := by simp [Mem.latestVal, Mem.init, latest, Msg.init]
theorem init_msgsLe (l x n : Nat) : MsgsLe Mem.init l x n := by
  intro msg hm; simp [Mem.init, Msg.init] at hm; subst hm; simp

/-! ### load -/

theorem load_some {m m' : Mem} {t l k v : Nat} {o : MO} (h : load m t l o k = some (v, m')) :
    ∃ msg, msg ∈ m.atom l ∧ v = msg.val ∧ m'.atom = m.atom ∧ m'.na = m.na ∧ m'.race = m.race ∧
      m'.views = upd m.views t (if o.isAcq then ((m.views t).set l k).join msg.view else (m.views t).set l k) := by
  unfold load at h
  split at h
  · split at h
    · rename_i msg hk
      cases h
      exact ⟨msg, List.mem_of_getElem? hk, rfl, rfl, rfl, rfl, rfl⟩
    · cases h
  · cases h

theorem load_cv_other {m m' : Mem} {t l k v : Nat} {o : MO} (h : load m t l o k = some (v, m'))
    (t' x : Nat) (ht : t' ≠ t) : cv m' t' x = cv m t' x := by
  obtain ⟨msg, _, _, _, _, _, hv⟩ := load_some h
  simp [cv, hv, upd_other _ _ _ _ ht]

theorem load_cv_ge {m m' : Mem} {t l k v : Nat} {o : MO} (h : load m t l o k = some (v, m'))
    (x : Nat) (hx : x ≠ l) : cv m t x ≤ cv m' t x := by
  obtain ⟨msg, _, _, _, _, _, hv⟩ := load_some h
  simp only [cv, hv, upd_same]
  split
  · rw [View.get_join, View.get_set, if_neg hx]; exact Nat.le_max_left _ _
  · rw [View.get_set, if_neg hx]; exact Nat.le_refl _

theorem load_cv_le {m m' : Mem} {t l k v : Nat} {o : MO} (h : load m t l o k = some (v, m'))
    (x n : Nat) (hx : x ≠ l) (hm : MsgsLe m l x n) (hc : cv m t x ≤ n) : cv m' t x ≤ n := by
  obtain ⟨msg, hmem, _, _, _, _, hv⟩ := load_some h
  simp only [cv, hv, upd_same]
  split
  · rw [View.get_join, View.get_set, if_neg hx]; exact Nat.max_le.2 ⟨hc, hm msg hmem⟩
  · rw [View.get_set, if_neg hx]; exact hc

/-! ### read-modify-write -/

theorem rmw_old (m : Mem) (t l : Nat) (o : MO) (val : Nat) : (rmw m t l o val).1 = m.latestVal l := rfl
theorem rmw_na (m : Mem) (t l : Nat) (o : MO) (val : Nat) : (rmw m t l o val).2.na = m.na := rfl
theorem rmw_race (m : Mem) (t l : Nat) (o : MO) (val : Nat) : (rmw m t l o val).2.race = m.race := rfl

theorem rmw_atom_other (m : Mem) (t l : Nat) (o : MO) (val l' : Nat) (h : l' ≠ l) :
    (rmw m t l o val).2.atom l' = m.atom l' := by simp [rmw, upd_other _ _ _ _ h]

theorem rmw_latestVal_same (m : Mem) (t l : Nat) (o : MO) (val : Nat) : (rmw m t l o val).2.latestVal l = val := by
  simp [rmw, Mem.latestVal, latest_append]

theorem rmw_latestVal_other (m : Mem) (t l : Nat) (o : MO) (val l' : Nat) (h : l' ≠ l) :
    (rmw m t l o val).2.latestVal l' = m.latestVal l' := by
  simp [Mem.latestVal, rmw_atom_other m t l o val l' h]

theorem rmw_lmv_other (m : Mem) (t l : Nat) (o : MO) (val l' x : Nat) (h : l' ≠ l) :
    lmv (rmw m t l o val).2 l' x = lmv m l' x := by
  simp [lmv, rmw_atom_other m t l o val l' h]

theorem rmw_cv_other (m : Mem) (t l : Nat) (o : MO) (val t' x : Nat) (ht : t' ≠ t) :
    cv (rmw m t l o val).2 t' x = cv m t' x := by simp [cv, rmw, upd_other _ _ _ _ ht]

theorem rmw_cv_self (m : Mem) (t l : Nat) (o : MO) (val x : Nat) (hx : x ≠ l) :
    cv (rmw m t l o val).2 t x = if o.isAcq then max (cv m t x) (lmv m l x) else cv m t x := by
  simp only [cv, lmv, rmw, upd_same]
  rw [View.get_set, if_neg hx]
  split
  · rw [View.get_join]
  · rfl

theorem rmw_lmv_same (m : Mem) (t l : Nat) (o : MO) (val x : Nat) :
    lmv (rmw m t l o val).2 l x = max (if o.isRel then cv (rmw m t l o val).2 t x else 0) (lmv m l x) := by
  simp only [lmv, cv, rmw, upd_same, latest_append]
  rw [View.get_join]
  split <;> simp

theorem rmw_msgsLe_same {m : Mem} {t l : Nat} {o : MO} {val x n : Nat} (h : MsgsLe m l x n)
    (hnew : lmv (rmw m t l o val).2 l x ≤ n) : MsgsLe (rmw m t l o val).2 l x n := by
  intro msg hm
  have hat : (rmw m t l o val).2.atom l = m.atom l ++ [latest ((rmw m t l o val).2.atom l)] := by
    simp [rmw, latest_append]
  rw [hat] at hm
  rcases List.mem_append.1 hm with hm | hm
  · exact h msg hm
  · simp at hm; subst hm; exact hnew

theorem rmw_msgsLe_other {m : Mem} {t l : Nat} {o : MO} {val l' x n : Nat} (hl : l' ≠ l) (h : MsgsLe m l' x n) :
    MsgsLe (rmw m t l o val).2 l' x n := by
  intro msg hm; rw [rmw_atom_other m t l o val l' hl] at hm; exact h msg hm

/-! ### store -/

theorem store_na (m : Mem) (t l : Nat) (o : MO) (val : Nat) : (store m t l o val).na = m.na := rfl
theorem store_race (m : Mem) (t l : Nat) (o : MO) (val : Nat) : (store m t l o val).race = m.race := rfl

theorem store_atom_other (m : Mem) (t l : Nat) (o : MO) (val l' : Nat) (h : l' ≠ l) :
    (store m t l o val).atom l' = m.atom l' := by simp [store, upd_other _ _ _ _ h]

theorem store_latestVal_same (m : Mem) (t l : Nat) (o : MO) (val : Nat) : (store m t l o val).latestVal l = val := by
  simp [store, Mem.latestVal, latest_append]

theorem store_cv_other (m : Mem) (t l : Nat) (o : MO) (val t' x : Nat) (ht : t' ≠ t) :
    cv (store m t l o val) t' x = cv m t' x := by simp [cv, store, upd_other _ _ _ _ ht]

theorem store_cv_self (m : Mem) (t l : Nat) (o : MO) (val x : Nat) (hx : x ≠ l) :
    cv (store m t l o val) t x = cv m t x := by
  simp only [cv, store, upd_same]
  rw [View.get_set, if_neg hx]

theorem store_lmv_same (m : Mem) (t l : Nat) (o : MO) (val x : Nat) (hx : x ≠ l) :
    lmv (store m t l o val) l x = if o.isRel then cv m t x else 0 := by
  simp only [lmv, cv, store, upd_same, latest_append]
  split
  · rw [View.get_set, if_neg hx]
  · simp

theorem store_msgsLe_same {m : Mem} {t l : Nat} {o : MO} {val x n : Nat} (h : MsgsLe m l x n)
    (hnew : lmv (store m t l o val) l x ≤ n) : MsgsLe (store m t l o val) l x n := by
  intro msg hm
  have hat : (store m t l o val).atom l = m.atom l ++ [latest ((store m t l o val).atom l)] := by
    simp [store, latest_append]
  rw [hat] at hm
  rcases List.mem_append.1 hm with hm | hm
  · exact h msg hm
  · simp at hm; subst hm; exact hnew

/-! ### plain accesses -/

theorem naRead_val (m : Mem) (t x : Nat) : (naRead m t x).1 = (m.na x).val := rfl
theorem naRead_atom (m : Mem) (t x : Nat) : (naRead m t x).2.atom = m.atom := rfl
theorem naRead_race (m : Mem) (t x : Nat) :
    (naRead m t x).2.race = (m.race || decide (cv m t x < (m.na x).lastW)) := rfl
theorem naRead_na_same (m : Mem) (t x : Nat) :
    (naRead m t x).2.na x = { val := (m.na x).val, clk := (m.na x).clk + 1, lastW := (m.na x).lastW } := by
  simp [naRead]
theorem naRead_na_other (m : Mem) (t x y : Nat) (h : y ≠ x) : (naRead m t x).2.na y = m.na y := by
  simp [naRead, upd_other _ _ _ _ h]
theorem naRead_cv_other (m : Mem) (t x t' y : Nat) (ht : t' ≠ t) : cv (naRead m t x).2 t' y = cv m t' y := by
  simp [cv, naRead, upd_other _ _ _ _ ht]
theorem naRead_cv_self_other (m : Mem) (t x y : Nat) (hy : y ≠ x) : cv (naRead m t x).2 t y = cv m t y := by
  simp only [cv, naRead, upd_same]
  split
  · rw [View.get_set, if_neg hy]
  · rfl
theorem naRead_cv_self (m : Mem) (t x : Nat) (h : cv m t x = (m.na x).clk) :
    cv (naRead m t x).2 t x = (m.na x).clk + 1 := by
  have h' : (m.views t).get x = (m.na x).clk := h
  simp only [cv, naRead, upd_same, h', if_true]
  rw [View.get_set, if_pos rfl]

theorem naWrite_atom (m : Mem) (t x v : Nat) : (naWrite m t x v).atom = m.atom := rfl
theorem naWrite_race (m : Mem) (t x v : Nat) :
    (naWrite m t x v).race = (m.race || decide (cv m t x < (m.na x).clk)) := rfl
theorem naWrite_na_same (m : Mem) (t x v : Nat) :
    (naWrite m t x v).na x = { val := v, clk := (m.na x).clk + 1, lastW := (m.na x).clk + 1 } := by
  simp [naWrite]
theorem naWrite_na_other (m : Mem) (t x v y : Nat) (h : y ≠ x) : (naWrite m t x v).na y = m.na y := by
  simp [naWrite, upd_other _ _ _ _ h]
theorem naWrite_cv_other (m : Mem) (t x v t' y : Nat) (ht : t' ≠ t) : cv (naWrite m t x v) t' y = cv m t' y := by
  simp [cv, naWrite, upd_other _ _ _ _ ht]
theorem naWrite_cv_self_other (m : Mem) (t x v y : Nat) (hy : y ≠ x) : cv (naWrite m t x v) t y = cv m t y := by
  simp only [cv, naWrite, upd_same]
  rw [View.get_set, if_neg hy]
theorem naWrite_cv_self (m : Mem) (t x v : Nat) : cv (naWrite m t x v) t x = (m.na x).clk + 1 := by
  simp only [cv, naWrite, upd_same]
  rw [View.get_set, if_pos rfl]

/-! ### counters that only grow (`head_`, `tail_`): a stale load returns an earlier, smaller value -/

theorem le_getLastD (l : List Msg) (d : Msg) (h : l.Pairwise (fun a b => a.val ≤ b.val)) (x : Msg) (hx : x ∈ l) :
    x.val ≤ (l.getLastD d).val := by
  induction l generalizing d with
  | nil => cases hx
  | cons a l ih =>
    rw [List.pairwise_cons] at h
    have hl : (a :: l).getLastD d = l.getLastD a := by
      cases l <;> simp [List.getLastD]
    rw [hl]
    rcases List.mem_cons.1 hx with rfl | hx
    · have hm : l.getLastD x ∈ x :: l := List.getLastD_mem_cons
      rcases List.mem_cons.1 hm with hm | hm
      · rw [hm]; exact Nat.le_refl _
      · exact h.1 _ hm
    · exact ih a h.2 hx

/-- on a location whose successive values never decrease, a load - however stale - returns at most the latest value -/
theorem load_le_latest {m m' : Mem} {t l k v : Nat} {o : MO} (hmono : (m.atom l).Pairwise (fun a b => a.val ≤ b.val))
    (h : load m t l o k = some (v, m')) : v ≤ m.latestVal l := by
  obtain ⟨msg, hmem, hv, _⟩ := load_some h
  rw [hv]; exact le_getLastD _ _ hmono msg hmem

/-- a read-modify-write that does not decrease the value (a successful `compare_exchange` to `head + 1`, `+= n`) keeps
    the values of the location monotone -/
theorem rmw_mono {m : Mem} {t l val : Nat} {o : MO} (hmono : (m.atom l).Pairwise (fun a b => a.val ≤ b.val))
    (hv : m.latestVal l ≤ val) : ((rmw m t l o val).2.atom l).Pairwise (fun a b => a.val ≤ b.val) := by
  have hat : (rmw m t l o val).2.atom l = m.atom l ++ [latest ((rmw m t l o val).2.atom l)] := by
    simp [rmw, latest_append]
  have hval : (latest ((rmw m t l o val).2.atom l)).val = val := rmw_latestVal_same m t l o val
  rw [hat, List.pairwise_append]
  refine ⟨hmono, by simp, ?_⟩
  intro a ha b hb
  simp at hb; subst hb
  rw [hval]
  exact Nat.le_trans (le_getLastD _ _ hmono a ha) hv
end Otel.RelAcq
