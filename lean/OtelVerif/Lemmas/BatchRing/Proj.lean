import OtelVerif.Model.BatchRing
import OtelVerif.Lemmas.Batch.Main
import OtelVerif.Lemmas.Ring.Ghost
/-! Every step of the composed model is a step of each component (or leaves it alone): both invariants carry over. -/
namespace Otel.BatchRing
open Otel

theorem onlyB_some {s s' : St} {ob : Option Batch.St} (h : onlyB s ob = some s') : s'.r = s.r ∧ ob = some s'.b := by
  unfold onlyB at h
  cases ob with
  | none => cases h
  | some b' => cases h; exact ⟨rfl, rfl⟩

theorem onlyR_some {s s' : St} {or : Option Ring.St} (h : onlyR s or = some s') : s'.b = s.b ∧ or = some s'.r := by
  unfold onlyR at h
  cases or with
  | none => cases h
  | some r' => cases h; exact ⟨rfl, rfl⟩

theorem pair_some {or : Option Ring.St} {ob : Option Batch.St} {s' : St} (h : pair or ob = some s') :
    or = some s'.r ∧ ob = some s'.b := by
  unfold pair at h
  cases or with
  | none => cases h
  | some r' =>
    cases ob with
    | none => cases h
    | some b' => cases h; exact ⟨rfl, rfl⟩

def RStep (r r' : Ring.St) : Prop := r' = r ∨ ∃ a, Ring.step r a = some r'
def BStep (b b' : Batch.St) : Prop := b' = b ∨ ∃ a, Batch.step b a = some b'

/-- **projection**: a step of the composition is a step (or a stutter) of the ring and of the protocol model -/
theorem proj (s s' : St) (a : Act) (h : step s a = some s') : RStep s.r s'.r ∧ BStep s.b s'.b := by
  cases a <;> simp only [step] at h <;> (repeat' split at h) <;> first
    | cases h
    | (obtain ⟨h1, h2⟩ := onlyB_some h; exact ⟨Or.inl h1, Or.inr ⟨_, h2⟩⟩)
    | (obtain ⟨h1, h2⟩ := onlyR_some h; exact ⟨Or.inr ⟨_, h2⟩, Or.inl h1⟩)
    | (obtain ⟨h1, h2⟩ := pair_some h; exact ⟨Or.inr ⟨_, h1⟩, Or.inr ⟨_, h2⟩⟩)

structure Invs (s : St) : Prop where
  ri  : Ring.Inv s.r
  ri2 : Ring.Inv2 s.r
  bi  : Batch.Inv s.b

theorem invs_init (maxQ maxB : Nat) (hq : 1 ≤ maxQ) (hb : 1 ≤ maxB) : Invs (init maxQ maxB) :=
  ⟨Ring.inv_init (maxQ + 1) (by omega), Ring.inv2_init (maxQ + 1), Batch.inv_init maxQ maxB hb⟩

theorem invs_step (s s' : St) (a : Act) (hI : Invs s) (h : step s a = some s') : Invs s' := by
  obtain ⟨hr, hb⟩ := proj s s' a h
  refine ⟨?_, ?_, ?_⟩
  · rcases hr with hr | ⟨ra, hr⟩
    · rw [hr]; exact hI.ri
    · exact Ring.inv_step _ _ ra hI.ri hr
  · rcases hr with hr | ⟨ra, hr⟩
    · rw [hr]; exact hI.ri2
    · exact Ring.inv2_step _ _ ra hI.ri hI.ri2 hr
  · rcases hb with hb | ⟨ba, hb⟩
    · rw [hb]; exact hI.bi
    · exact Batch.inv_step _ _ ba hI.bi hb

end Otel.BatchRing
