import OtelVerif.Lemmas.BatchRing.Steps
import OtelVerif.Lemmas.Pigeon
/-! The pairing never blocks for a reason the components do not have: the guards the protocol model puts on a commit, a
    drop and a consume follow from the ring's state and the coupling. -/
namespace Otel.BatchRing
open Otel
open Otel.Ring (upd upd_same upd_other)

/-- C11's failure justification, on the invariants (`Otel.C11.add_fails_only_when_full` states it for reachable states) -/
theorem ring_full (r : Ring.St) (hI : Ring.Inv r) (h2 : Ring.Inv2 r) (p t : Nat) (hpc : Ring.pcOf r p = .ldHead t)
    (hfull : r.head - t ≥ r.cap - 1) : (r.nextId - 1) - Ring.c0Of r p ≥ r.cap - 1 := by
  have hne : Ring.pcOf r p ≠ .idle := by rw [hpc]; simp
  obtain ⟨f1, f2, _, _, _⟩ := h2.flight p hne
  have hc0 := h2.ldHeadC0 p t hpc
  have hlen : r.log.length < r.nextId := nodup_length_lt r.log r.nextId (Ring.elOf r p) h2.logNodup h2.logLt f1 f2
  have := hI.logLen
  omega

theorem inAdd_of {s : St} {p e0 : Nat} (h : s.b.pr p = .add e0) : inAdd s p = true := by simp [inAdd, h]

/-- a successful head CAS in the ring is a commit the protocol model accepts (its guard `head - tail < max_queue_size`
    follows from `Ring.Inv.casBound`) -/
theorem commit_enabled (s : St) (hJ : J s) (hI : Invs s) (p h : Nat) (hpc : Ring.pcOf s.r p = .cas h) (hh : s.r.head = h) :
    (step s (.add (.pCas p false))).isSome = true := by
  obtain ⟨e0, he0⟩ := (hJ.pr p).1 (by rw [hpc]; simp)
  have hb := hI.ri.casBound p h hpc
  have h1 := hJ.hd; have h2 := hJ.tl; have h3 := hJ.cap
  have hg : s.b.head - s.b.tail < s.b.maxQ := by omega
  have hpc' : (s.r.prods p).pc = .cas h := hpc
  simp [step, inAdd_of he0, pcOf, hpc', hh, pair, Ring.step, Batch.step, Batch.pStep, he0, hg]

/-- a failing `Add` in the ring (full test on the values it read) is a drop the protocol model accepts (its guard is
    C11's failure justification, through `begun = nextId` and `e0 ≤ c0`) -/
theorem drop_enabled (s : St) (hJ : J s) (hI : Invs s) (p t : Nat) (hpc : Ring.pcOf s.r p = .ldHead t)
    (hfull : s.r.head - t ≥ s.r.cap - 1) : (step s (.add (.pLdHead p))).isSome = true := by
  obtain ⟨e0, he0⟩ := (hJ.pr p).1 (by rw [hpc]; simp)
  have hf := ring_full s.r hI.ri hI.ri2 p t hpc hfull
  have h0 := hJ.e0 p e0 he0
  have h1 := hJ.nid; have h3 := hJ.cap
  have hg : Batch.dropGuard s.b e0 := by unfold Batch.dropGuard; omega
  have hpc' : (s.r.prods p).pc = .ldHead t := hpc
  simp [step, inAdd_of he0, pcOf, hpc', hfull, pair, Ring.step, Batch.step, Batch.pStep, he0, hg]

/-- the worker's `tail_ += num` is a `Consume` the ring accepts (`num ≤ head - tail`, and the previous batch has been
    cleared) -/
theorem consume_enabled (s : St) (hJ : J s) (hI : Invs s) (r : Batch.Ret) (n T R num : Nat)
    (hpc : s.b.wpc = .consume r n T R num) : (step s .wStep).isSome = true := by
  have hw := hI.bi.w
  unfold Batch.WInv at hw; rw [hpc] at hw; simp only at hw
  have hc := hJ.clr (by intro r n T R num; rw [hpc]; simp)
  have h1 := hJ.hd; have h2 := hJ.tl
  have hn : num ≤ s.r.head - s.r.tail := by omega
  simp [step, hpc, pair, Ring.step, hc, hn, Batch.step, Batch.wStep]

/-- `Add` can begin whenever the `is_shutdown` test passed -/
theorem add_begins (s : St) (hJ : J s) (p : Nat) (hp : s.b.pr p = .chk) (hsd : s.b.isShutdown = false) :
    (step s (.chk p)).isSome = true := by
  have hidle : Ring.pcOf s.r p = .idle := by
    by_cases h : Ring.pcOf s.r p = .idle
    · exact h
    · obtain ⟨e0, he0⟩ := (hJ.pr p).1 h; rw [hp] at he0; cases he0
  have hidle' : (s.r.prods p).pc = .idle := hidle
  simp [step, hp, hsd, pair, Ring.step, hidle', Batch.step, Batch.pStep]

/-- between `tail_ += num` and `Export` the worker is never stuck: it clears a slot or, once all are cleared, calls `Export` -/
theorem clearing_progress (s : St) (hI : Invs s) (r : Batch.Ret) (n T R num : Nat) (hpc : s.b.wpc = .exportB r n T R num) :
    (step s .clear).isSome = true ∨ (step s .wStep).isSome = true := by
  have hle := hI.ri.clrLe
  by_cases hc : s.r.clr = s.r.tail
  · right; simp [step, hpc, hc, onlyB, Batch.step, Batch.wStep]
  · left
    have hlt : s.r.clr < s.r.tail := by omega
    simp only [step, hpc, onlyR, Ring.step, hlt, ↓reduceIte]
    cases s.r.slots (s.r.clr % s.r.cap) <;> simp

theorem maxQ_run (as : List Act) : ∀ (s0 s1 : St), run s0 as = some s1 → s1.b.maxQ = s0.b.maxQ := by
  induction as with
  | nil => intro s0 s1 h0; simp [run] at h0; subst h0; rfl
  | cons a as ih =>
    intro s0 s1 h0
    simp only [run] at h0
    split at h0
    · rename_i s2 hs2
      rcases (proj s0 s2 a hs2).2 with e | ⟨ba, e⟩
      · rw [ih s2 s1 h0, e]
      · rw [ih s2 s1 h0, (Batch.cfg_step _ _ ba e).2]
    · cases h0

end Otel.BatchRing
