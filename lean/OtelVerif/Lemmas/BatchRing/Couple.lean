import OtelVerif.Lemmas.BatchRing.Proj
/-! The coupling invariant between the ring and the protocol model, and its preservation. -/
namespace Otel.BatchRing
open Otel
open Otel.Ring (upd upd_same upd_other)

structure J (s : St) : Prop where
  hd  : s.r.head = s.b.head
  tl  : s.r.tail = s.b.tail
  cap : s.r.cap = s.b.maxQ + 1
  nid : s.r.nextId = s.b.begun
  pr  : ∀ p, Ring.pcOf s.r p ≠ .idle ↔ ∃ e0, s.b.pr p = .add e0
  e0  : ∀ p e0, s.b.pr p = .add e0 → e0 ≤ Ring.c0Of s.r p
  clr : (∀ r n T R num, s.b.wpc ≠ .exportB r n T R num) → s.r.clr = s.r.tail
  exp : s.b.exported ≤ s.r.clr

theorem j_init (maxQ maxB : Nat) : J (init maxQ maxB) := by
  refine ⟨rfl, rfl, rfl, rfl, ?_, ?_, ?_, ?_⟩ <;> simp [init, Ring.init, Batch.init, Ring.pcOf]

theorem pcOf_eq (r : Ring.St) (p : Nat) : pcOf r p = Ring.pcOf r p := rfl

/-- the protocol side changes only producer `p`'s pc, between two values that are not "inside `Add`" -/
theorem j_pr_nonadd {s : St} (hJ : J s) (p : Nat) (v : Batch.PPc) (b' : Batch.St)
    (hold : ¬ ∃ e0, s.b.pr p = .add e0) (hnew : ¬ ∃ e0, v = .add e0)
    (hpr : b'.pr = upd s.b.pr p v) (hh : b'.head = s.b.head) (ht : b'.tail = s.b.tail) (hq : b'.maxQ = s.b.maxQ)
    (hb : b'.begun = s.b.begun) (hw : b'.wpc = s.b.wpc) (he : b'.exported = s.b.exported) : J { r := s.r, b := b' } := by
  refine ⟨by simp only [hh]; exact hJ.hd, by simp only [ht]; exact hJ.tl, by simp only [hq]; exact hJ.cap,
    by simp only [hb]; exact hJ.nid, ?_, ?_, ?_, by simp only [he]; exact hJ.exp⟩
  · intro q
    simp only [hpr]
    by_cases hqp : q = p
    · subst hqp
      rw [upd_same]
      constructor
      · intro h; exact absurd ((hJ.pr q).1 h) hold
      · intro h; exact absurd h hnew
    · rw [upd_other _ _ _ _ hqp]; exact hJ.pr q
  · intro q e0 hq0
    simp only [hpr] at hq0
    by_cases hqp : q = p
    · subst hqp; rw [upd_same] at hq0; exact absurd ⟨e0, hq0⟩ hnew
    · rw [upd_other _ _ _ _ hqp] at hq0; exact hJ.e0 q e0 hq0
  · intro hne
    simp only [hw] at hne
    exact hJ.clr hne

theorem j_prod (s s' : St) (p : Nat) (hJ : J s) (h : step s (.prod p) = some s') : J s' := by
  obtain ⟨r', b'⟩ := s'
  simp only [step] at h
  split at h
  · rename_i hp
    obtain ⟨h1, h2⟩ := onlyB_some h
    simp only at h1 h2
    subst h1
    simp only [Batch.step, Batch.pStep, hp] at h2
    cases h2
    exact j_pr_nonadd hJ p .chk _ (by simp [hp]) (by simp) rfl rfl rfl rfl rfl rfl rfl
  · rename_i hp
    obtain ⟨h1, h2⟩ := onlyB_some h
    simp only at h1 h2
    subst h1
    simp only [Batch.step, Batch.pStep, hp] at h2
    cases h2
    exact j_pr_nonadd hJ p .idle _ (by simp [hp]) (by simp) rfl rfl rfl rfl rfl rfl rfl
  · rename_i hp
    obtain ⟨h1, h2⟩ := onlyB_some h
    simp only at h1 h2
    subst h1
    simp only [Batch.step, Batch.pStep, hp] at h2
    cases h2
    exact j_pr_nonadd hJ p .idle _ (by simp [hp]) (by simp) rfl rfl rfl rfl rfl rfl rfl
  · cases h

/-- only the protocol side moves, and not in what the coupling looks at (except the worker's pc and `exported`) -/
theorem j_b {s : St} (hJ : J s) (b' : Batch.St) (hh : b'.head = s.b.head) (ht : b'.tail = s.b.tail)
    (hq : b'.maxQ = s.b.maxQ) (hb : b'.begun = s.b.begun) (hpr : b'.pr = s.b.pr)
    (hclr : (∀ r n T R num, b'.wpc ≠ .exportB r n T R num) → s.r.clr = s.r.tail)
    (he : b'.exported ≤ s.r.clr) : J { r := s.r, b := b' } := by
  refine ⟨by simp only [hh]; exact hJ.hd, by simp only [ht]; exact hJ.tl, by simp only [hq]; exact hJ.cap,
    by simp only [hb]; exact hJ.nid, ?_, ?_, hclr, he⟩
  · intro q; simp only [hpr]; exact hJ.pr q
  · intro q e0 hq0; simp only [hpr] at hq0; exact hJ.e0 q e0 hq0

/-- only the ring moves, inside one producer's `Add` or in the consumer's clearing -/
theorem j_r {s : St} (hJ : J s) (r' : Ring.St) (hh : r'.head = s.r.head) (ht : r'.tail = s.r.tail)
    (hc : r'.cap = s.r.cap) (hn : r'.nextId = s.r.nextId)
    (hpc : ∀ q, Ring.pcOf r' q ≠ .idle ↔ Ring.pcOf s.r q ≠ .idle) (hc0 : ∀ q, Ring.c0Of r' q = Ring.c0Of s.r q)
    (hclr : (∀ r n T R num, s.b.wpc ≠ .exportB r n T R num) → r'.clr = r'.tail)
    (he : s.r.clr ≤ r'.clr) : J { r := r', b := s.b } := by
  refine ⟨by simp only [hh]; exact hJ.hd, by simp only [ht]; exact hJ.tl, by simp only [hc]; exact hJ.cap,
    by simp only [hn]; exact hJ.nid, ?_, ?_, hclr, Nat.le_trans hJ.exp he⟩
  · intro q; simp only; rw [hpc q]; exact hJ.pr q
  · intro q e0 hq0; simp only; rw [hc0 q]; exact hJ.e0 q e0 hq0

/-! ### what a ring step inside `Add` does to the fields the coupling looks at -/

theorem setPc_pc (r : Ring.St) (p q : Nat) (pc : Ring.PPc) :
    ((Ring.setPc r p pc) q).pc = if q = p then pc else (r.prods q).pc := by
  unfold Ring.setPc
  by_cases h : q = p
  · subst h; simp
  · simp [upd_other _ _ _ _ h, h]

theorem setPc_c0 (r : Ring.St) (p q : Nat) (pc : Ring.PPc) : ((Ring.setPc r p pc) q).c0 = (r.prods q).c0 := by
  unfold Ring.setPc
  by_cases h : q = p
  · subst h; simp
  · simp [upd_other _ _ _ _ h]

/-- moving producer `p` between two non-idle pcs keeps "who is inside `Add`" -/
theorem pc_iff_setPc (r : Ring.St) (p : Nat) (pc : Ring.PPc) (hold : (r.prods p).pc ≠ .idle) (hnew : pc ≠ .idle) (q : Nat) :
    ((Ring.setPc r p pc) q).pc ≠ .idle ↔ (r.prods q).pc ≠ .idle := by
  rw [setPc_pc]
  by_cases h : q = p
  · subst h; simp [hold, hnew]
  · simp [h]

end Otel.BatchRing
