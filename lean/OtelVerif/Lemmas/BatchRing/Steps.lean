import OtelVerif.Lemmas.BatchRing.Couple
/-! Preservation of the coupling invariant, one kind of step at a time. -/
namespace Otel.BatchRing
open Otel
open Otel.Ring (upd upd_same upd_other)

theorem j_chk (s s' : St) (p : Nat) (hJ : J s) (h : step s (.chk p) = some s') : J s' := by
  obtain ⟨r', b'⟩ := s'
  simp only [step] at h
  split at h
  · rename_i hp
    split at h
    · rename_i hsd
      obtain ⟨h1, h2⟩ := onlyB_some h
      simp only at h1 h2
      subst h1
      simp only [Batch.step, Batch.pStep, hp, hsd, ↓reduceIte] at h2
      cases h2
      exact j_pr_nonadd hJ p .noop _ (by simp [hp]) (by simp) rfl rfl rfl rfl rfl rfl rfl
    · rename_i hsd
      obtain ⟨h1, h2⟩ := pair_some h
      simp only at h1 h2
      simp only [Batch.step, Batch.pStep, hp, hsd, ↓reduceIte] at h2
      simp only [Ring.step] at h1
      split at h1
      · rename_i hidle
        cases h1; cases h2
        refine ⟨hJ.hd, hJ.tl, hJ.cap, by simp only; rw [hJ.nid], ?_, ?_, hJ.clr, hJ.exp⟩
        · intro q
          simp only [Ring.pcOf]
          by_cases hqp : q = p
          · subst hqp; simp
          · rw [upd_other _ _ _ _ hqp, upd_other _ _ _ _ hqp]; exact hJ.pr q
        · intro q e0 hq0
          simp only [Ring.c0Of]
          simp only at hq0
          by_cases hqp : q = p
          · subst hqp
            rw [upd_same] at hq0 ⊢
            cases hq0
            exact hJ.exp
          · rw [upd_other _ _ _ _ hqp] at hq0 ⊢; exact hJ.e0 q e0 hq0
      · cases h1
  · cases h

theorem inAdd_some {s : St} {p : Nat} (h : inAdd s p = true) : ∃ e0, s.b.pr p = .add e0 := by
  unfold inAdd at h
  split at h
  · rename_i e0 he; exact ⟨e0, he⟩
  · cases h

theorem j_add (s s' : St) (a : Ring.Act) (hJ : J s) (h : step s (.add a) = some s') : J s' := by
  obtain ⟨r', b'⟩ := s'
  simp only [step] at h
  cases a with
  | pStart p => simp only at h; cases h
  | cTake n => simp only at h; cases h
  | cClear => simp only at h; cases h
  | pLdTail p =>
    simp only at h
    split at h
    · obtain ⟨h1, h2⟩ := onlyR_some h
      simp only at h1 h2
      subst h1
      simp only [Ring.step] at h2
      split at h2
      · rename_i hpc
        cases h2
        exact j_r hJ _ rfl rfl rfl rfl (fun q => pc_iff_setPc s.r p _ (by rw [hpc]; simp) (by simp) q)
          (fun q => setPc_c0 s.r p q _) (fun hne => hJ.clr hne) (Nat.le_refl _)
      · cases h2
    · cases h
  | pUndo p =>
    simp only at h
    split at h
    · obtain ⟨h1, h2⟩ := onlyR_some h
      simp only at h1 h2
      subst h1
      simp only [Ring.step] at h2
      split at h2
      · rename_i hh hpc
        cases h2
        exact j_r hJ _ rfl rfl rfl rfl (fun q => pc_iff_setPc s.r p _ (by rw [hpc]; simp) (by simp) q)
          (fun q => setPc_c0 s.r p q _) (fun hne => hJ.clr hne) (Nat.le_refl _)
      · cases h2
    · cases h
  | pSwap p spur =>
    simp only at h
    split at h
    · obtain ⟨h1, h2⟩ := onlyR_some h
      simp only at h1 h2
      subst h1
      simp only [Ring.step] at h2
      split at h2
      · rename_i t hh hpc
        split at h2 <;> cases h2 <;>
          exact j_r hJ _ rfl rfl rfl rfl (fun q => pc_iff_setPc s.r p _ (by rw [hpc]; simp) (by simp) q)
            (fun q => setPc_c0 s.r p q _) (fun hne => hJ.clr hne) (Nat.le_refl _)
      · cases h2
    · cases h
  | pLdHead p =>
    simp only at h
    split at h
    · rename_i hin
      split at h
      · rename_i t hpc
        simp only [pcOf] at hpc
        split at h
        · -- the queue is full: `Add` returns false, the protocol model drops
          rename_i hfull
          obtain ⟨h1, h2⟩ := pair_some h
          simp only at h1 h2
          obtain ⟨e0, he0⟩ := inAdd_some hin
          simp only [Ring.step, hpc, hfull, ↓reduceIte] at h1
          simp only [Batch.step, Batch.pStep, he0, ↓reduceIte] at h2
          split at h2
          · cases h1; cases h2
            refine ⟨hJ.hd, hJ.tl, hJ.cap, hJ.nid, ?_, ?_, hJ.clr, hJ.exp⟩
            · intro q
              simp only [Ring.pcOf]
              rw [setPc_pc]
              by_cases hqp : q = p
              · subst hqp; simp
              · simp only [hqp, ↓reduceIte]; rw [upd_other _ _ _ _ hqp]; exact hJ.pr q
            · intro q e1 hq1
              simp only at hq1
              simp only [Ring.c0Of]; rw [setPc_c0]
              by_cases hqp : q = p
              · subst hqp; rw [upd_same] at hq1; cases hq1
              · rw [upd_other _ _ _ _ hqp] at hq1; exact hJ.e0 q e1 hq1
          · cases h2
        · rename_i hnf
          obtain ⟨h1, h2⟩ := onlyR_some h
          simp only at h1 h2
          subst h1
          simp only [Ring.step, hpc, hnf, ↓reduceIte] at h2
          cases h2
          exact j_r hJ _ rfl rfl rfl rfl (fun q => pc_iff_setPc s.r p _ (by rw [hpc]; simp) (by simp) q)
            (fun q => setPc_c0 s.r p q _) (fun hne => hJ.clr hne) (Nat.le_refl _)
      · cases h
    · cases h
  | pCas p spur =>
    simp only at h
    split at h
    · rename_i hin
      split at h
      · rename_i hh hpc
        simp only [pcOf] at hpc
        split at h
        · -- the head CAS succeeds: `Add` returns true, the protocol model commits
          rename_i hok
          obtain ⟨h1, h2⟩ := pair_some h
          simp only at h1 h2
          obtain ⟨e0, he0⟩ := inAdd_some hin
          simp only [Ring.step, hpc, hok, and_self, ↓reduceIte] at h1
          simp only [Batch.step, Batch.pStep, he0, Bool.false_eq_true, ↓reduceIte] at h2
          split at h2
          · cases h1; cases h2
            refine ⟨by simp only; rw [← hok.1, hJ.hd], hJ.tl, hJ.cap, hJ.nid, ?_, ?_, hJ.clr, hJ.exp⟩
            · intro q
              simp only [Ring.pcOf]
              rw [setPc_pc]
              by_cases hqp : q = p
              · subst hqp; simp
              · simp only [hqp, ↓reduceIte]; rw [upd_other _ _ _ _ hqp]; exact hJ.pr q
            · intro q e1 hq1
              simp only at hq1
              simp only [Ring.c0Of]; rw [setPc_c0]
              by_cases hqp : q = p
              · subst hqp; rw [upd_same] at hq1; cases hq1
              · rw [upd_other _ _ _ _ hqp] at hq1; exact hJ.e0 q e1 hq1
          · cases h2
        · rename_i hno
          obtain ⟨h1, h2⟩ := onlyR_some h
          simp only at h1 h2
          subst h1
          simp only [Ring.step, hpc, hno, ↓reduceIte] at h2
          cases h2
          exact j_r hJ _ rfl rfl rfl rfl (fun q => pc_iff_setPc s.r p _ (by rw [hpc]; simp) (by simp) q)
            (fun q => setPc_c0 s.r p q _) (fun hne => hJ.clr hne) (Nat.le_refl _)
      · cases h
    · cases h

theorem j_wWake (s s' : St) (hJ : J s) (h : step s .wWake = some s') : J s' := by
  obtain ⟨r', b'⟩ := s'
  simp only [step] at h
  obtain ⟨h1, h2⟩ := onlyB_some h
  simp only at h1 h2
  subst h1
  simp only [Batch.step] at h2
  split at h2
  · rename_i hidle
    cases h2
    exact j_b hJ _ rfl rfl rfl rfl rfl (fun _ => hJ.clr (by intro r n T R num; rw [hidle]; simp)) hJ.exp
  · cases h2

theorem j_fStep (s s' : St) (f : Nat) (ret : Bool) (hJ : J s) (h : step s (.fStep f ret) = some s') : J s' := by
  obtain ⟨r', b'⟩ := s'
  simp only [step] at h
  obtain ⟨h1, h2⟩ := onlyB_some h
  simp only at h1 h2
  subst h1
  simp only [Batch.step, Batch.fStep] at h2
  (repeat' split at h2) <;> cases h2 <;> exact j_b hJ _ rfl rfl rfl rfl rfl hJ.clr hJ.exp

theorem j_sStep (s s' : St) (i : Nat) (hJ : J s) (h : step s (.sStep i) = some s') : J s' := by
  obtain ⟨r', b'⟩ := s'
  simp only [step] at h
  obtain ⟨h1, h2⟩ := onlyB_some h
  simp only at h1 h2
  subst h1
  simp only [Batch.step, Batch.sStep] at h2
  (repeat' split at h2) <;> cases h2 <;> exact j_b hJ _ rfl rfl rfl rfl rfl hJ.clr hJ.exp

theorem j_clear (s s' : St) (hJ : J s) (h : step s .clear = some s') : J s' := by
  obtain ⟨r', b'⟩ := s'
  simp only [step] at h
  split at h
  · rename_i hpc
    obtain ⟨h1, h2⟩ := onlyR_some h
    simp only at h1 h2
    subst h1
    simp only [Ring.step] at h2
    (repeat' split at h2) <;> cases h2 <;>
      exact j_r hJ _ rfl rfl rfl rfl (fun _ => Iff.rfl) (fun _ => rfl) (fun hne => absurd hpc (hne _ _ _ _ _)) (Nat.le_succ _)
  · cases h

theorem j_wStep (s s' : St) (hJ : J s) (hI : Invs s) (h : step s .wStep = some s') : J s' := by
  obtain ⟨r', b'⟩ := s'
  have hw := hI.bi.w
  unfold Batch.WInv at hw
  simp only [step] at h
  split at h
  · -- `tail_ += num`
    rename_i r n T R num hpc
    obtain ⟨h1, h2⟩ := pair_some h
    simp only at h1 h2
    simp only [Ring.step] at h1
    simp only [Batch.step, Batch.wStep, hpc] at h2
    split at h1
    · cases h1; cases h2
      refine ⟨hJ.hd, by simp only; rw [hJ.tl], hJ.cap, hJ.nid, hJ.pr, hJ.e0, fun hne => absurd rfl (hne _ _ _ _ _), hJ.exp⟩
    · cases h1
  · -- `Export` is called once every slot has been moved out
    rename_i r n T R num hpc
    split at h
    · rename_i hc
      obtain ⟨h1, h2⟩ := onlyB_some h
      simp only at h1 h2
      subst h1
      simp only [Batch.step, Batch.wStep, hpc] at h2
      cases h2
      exact j_b hJ _ rfl rfl rfl rfl rfl (fun _ => hc) hJ.exp
    · cases h
  · rename_i hnc hnb
    obtain ⟨h1, h2⟩ := onlyB_some h
    simp only at h1 h2
    subst h1
    have hc : s.r.clr = s.r.tail := hJ.clr (fun r n T R num hh => hnb r n T R num hh)
    simp only [Batch.step, Batch.wStep] at h2
    cases hpc : s.b.wpc with
    | consume r n T R num => exact absurd hpc (hnc r n T R num)
    | exportB r n T R num => exact absurd hpc (hnb r n T R num)
    | exportE r n T R num =>
      rw [hpc] at h2 hw; simp only at h2 hw
      cases h2
      have h1 := hw.1
      have := hJ.tl
      exact j_b hJ _ rfl rfl rfl rfl rfl (fun _ => hc) (by simp only; omega)
    | _ =>
      rw [hpc] at h2; simp only at h2
      (repeat' split at h2) <;> cases h2 <;> exact j_b hJ _ rfl rfl rfl rfl rfl (fun _ => hc) hJ.exp

/-- the coupling invariant is inductive -/
theorem j_step (s s' : St) (a : Act) (hJ : J s) (hI : Invs s) (h : step s a = some s') : J s' := by
  cases a with
  | prod p => exact j_prod s s' p hJ h
  | chk p => exact j_chk s s' p hJ h
  | add a => exact j_add s s' a hJ h
  | wWake => exact j_wWake s s' hJ h
  | wStep => exact j_wStep s s' hJ hI h
  | clear => exact j_clear s s' hJ h
  | fStep f r => exact j_fStep s s' f r hJ h
  | sStep i => exact j_sStep s s' i hJ h

theorem all_run (s s' : St) (as : List Act) (hJ : J s) (hI : Invs s) (h : run s as = some s') : J s' ∧ Invs s' := by
  induction as generalizing s with
  | nil => simp [run] at h; subst h; exact ⟨hJ, hI⟩
  | cons a as ih =>
    simp only [run] at h
    split at h
    · rename_i s1 hs1; exact ih s1 (j_step s s1 a hJ hI hs1) (invs_step s s1 a hI hs1) h
    · cases h

theorem reachable (maxQ maxB : Nat) (hq : 1 ≤ maxQ) (hb : 1 ≤ maxB) (as : List Act) (s : St)
    (h : run (init maxQ maxB) as = some s) : J s ∧ Invs s :=
  all_run _ _ as (j_init maxQ maxB) (invs_init maxQ maxB hq hb) h

end Otel.BatchRing
