import OtelVerif.Lemmas.ReaderSteps
namespace Otel.Reader
open Otel.Ring (upd upd_same upd_other)

theorem inv_flocal (s : St) (f : Nat) (v : FPc) (hI : Inv s) (hv : FInv { s with fl := upd s.fl f v } f) :
    Inv { s with fl := upd s.fl f v } := by
  refine ⟨hI.notLe, hI.covLe, hI.cycLe, hI.tickLe, hI.tickMono, hI.ticks, ?_, ?_, ?_, hI.joinedD, hI.retd, hI.late⟩
  · exact WInv_frame (s := s) rfl rfl rfl rfl rfl rfl (Nat.le_refl _) (Nat.le_refl _) id (fun _ _ _ => rfl) hI.w
  · intro g
    by_cases hg : g = f
    · subst hg; exact hv
    · exact FInv_frame (s := s) g (by simp [upd_other _ _ _ _ hg]) (Nat.le_refl _) (Nat.le_refl _) (fun _ _ _ => rfl)
        (Nat.le_refl _) (Nat.le_refl _) id (hI.f g)
  · intro i; exact SInv_frame (s := s) i rfl id id (hI.sd i)

theorem inv_fStep (s s' : St) (f c : Nat) (x : Bool) (hI : Inv s) (h : step s (.fStep f c x) = some s') : Inv s' := by
  simp only [step, fStep] at h
  have hf := hI.f f
  unfold FInv at hf
  cases hpc : s.fl f with
  | idle =>
    rw [hpc] at h; simp only at h; cases h
    exact inv_flocal s f _ hI (by unfold FInv; simp)
  | ticket bh =>
    rw [hpc] at hf h; simp only at hf h; cases h
    have hk : ∀ t, 1 ≤ t → t ≤ s.pending → upd s.tickRec (s.pending + 1) s.recorded t = s.tickRec t := by
      intro t _ ht; exact upd_other _ _ _ _ (by omega)
    refine ⟨by show s.notified ≤ s.pending + 1; have := hI.notLe; omega, hI.covLe, hI.cycLe, ?_, ?_, ?_, ?_, ?_, ?_,
      hI.joinedD, hI.retd, hI.late⟩
    · intro t h1 h2
      have h2' : t ≤ s.pending + 1 := h2
      show upd s.tickRec (s.pending + 1) s.recorded t ≤ s.recorded
      by_cases ht : t = s.pending + 1
      · subst ht; simp
      · rw [hk t h1 (by omega)]; exact hI.tickLe t h1 (by omega)
    · intro t u h1 h2 h3
      have h3' : u ≤ s.pending + 1 := h3
      show upd s.tickRec (s.pending + 1) s.recorded t ≤ upd s.tickRec (s.pending + 1) s.recorded u
      by_cases hu : u = s.pending + 1
      · subst hu
        by_cases ht : t = s.pending + 1
        · subst ht; exact Nat.le_refl _
        · rw [hk t h1 (by omega)]; simp; exact hI.tickLe t h1 (by omega)
      · rw [hk t h1 (by omega), hk u (by omega) (by omega)]; exact hI.tickMono t u h1 h2 (by omega)
    · intro t h1 h2
      have h2' : t ≤ s.notified := h2
      show upd s.tickRec (s.pending + 1) s.recorded t ≤ s.covered ∨ s.skipped = true
      rw [hk t h1 (Nat.le_trans h2' hI.notLe)]; exact hI.ticks t h1 h2'
    · exact WInv_frame (s := s) rfl rfl rfl rfl rfl rfl (Nat.le_succ _) (Nat.le_refl _) id hk hI.w
    · intro g
      by_cases hg : g = f
      · subst hg
        unfold FInv; simp only [upd_same]
        exact ⟨by omega, Nat.le_refl _, hf, fun v hv => by cases hv⟩
      · exact FInv_frame (s := s) g (by simp [upd_other _ _ _ _ hg]) (Nat.le_refl _) (Nat.le_succ _) hk
          (Nat.le_refl _) (Nat.le_refl _) id (hI.f g)
    · intro i; exact SInv_frame (s := s) i rfl id id (hI.sd i)
  | wait bh cur seen =>
    rw [hpc] at hf h; simp only at hf h
    obtain ⟨f1, f2, f3, f4⟩ := hf
    split at h
    · cases h
      exact inv_flocal s f _ hI (by unfold FInv; simp only [upd_same]; exact ⟨f1, f2, f3, fun v hv => by cases hv; exact Nat.le_refl _⟩)
    · split at h
      · cases h; exact inv_flocal s f _ hI (by unfold FInv; simp)
      · cases h; exact inv_flocal s f _ hI (by unfold FInv; simp only [upd_same]; exact ⟨f1, f2, f3⟩)
  | xfE bh cur =>
    rw [hpc] at hf h; simp only at hf h; cases h
    exact inv_flocal s f _ hI (by unfold FInv; simp only [upd_same]; exact ⟨hf.1, hf.2.1, hf.2.2, fun v hv => by cases hv⟩)
  | after bh cur ok seen =>
    rw [hpc] at hf h; simp only at hf h
    obtain ⟨f1, f2, f3, f4⟩ := hf
    split at h
    · cases h
      exact inv_flocal s f _ hI (by unfold FInv; simp only [upd_same]; exact ⟨f1, f2, f3, fun v hv => by cases hv; exact Nat.le_refl _⟩)
    · split at h
      · cases h; exact inv_flocal s f _ hI (by unfold FInv; simp)
      · split at h
        · rename_i v
          cases h
          refine inv_flocal s f _ hI ?_
          unfold FInv; simp only [upd_same, decide_eq_true_eq]
          intro hge
          have hv := f4 v rfl
          rcases hI.ticks cur f1 (by omega) with hc | hc
          · left; omega
          · right; exact hc
        · cases h
  | ret bh ok => rw [hpc] at h; cases h

theorem inv_sStep (s s' : St) (i : Nat) (hI : Inv s) (h : step s (.sStep i) = some s') : Inv s' := by
  simp only [step, sStep] at h
  have hs := hI.sd i
  unfold SInv at hs
  have frames : ∀ s1 : St, s1.wpc = s.wpc → s1.cpc = s.cpc → s1.inExport = s.inExport → s1.covered = s.covered →
      s1.skipped = s.skipped → s1.cycFloor = s.cycFloor → s1.pending = s.pending → s1.recorded = s.recorded →
      s1.tickRec = s.tickRec → s1.notified = s.notified → s1.fl = s.fl → (s.shutdown = true → s1.shutdown = true) →
      WInv s1 ∧ ∀ f, FInv s1 f := by
    intro s1 e1 e2 e3 e4 e5 e6 e7 e8 e9 e10 e11 e12
    refine ⟨WInv_frame (s := s) e1 e2 e3 e4 e5 e6 (by rw [e7]; exact Nat.le_refl _) (by rw [e8]; exact Nat.le_refl _) e12
      (fun _ _ _ => by rw [e9]) hI.w, fun f => ?_⟩
    exact FInv_frame (s := s) f (by rw [e11]) (by rw [e8]; exact Nat.le_refl _) (by rw [e7]; exact Nat.le_refl _)
      (fun _ _ _ => by rw [e9]) (by rw [e4]; exact Nat.le_refl _) (by rw [e10]; exact Nat.le_refl _) (by rw [e5]; exact id) (hI.f f)
  cases hpc : s.sd i with
  | idle =>
    rw [hpc] at h; simp only at h; cases h
    obtain ⟨a, b⟩ := frames _ rfl rfl rfl rfl rfl rfl rfl rfl rfl rfl rfl id
    refine ⟨hI.notLe, hI.covLe, hI.cycLe, hI.tickLe, hI.tickMono, hI.ticks, a, b, ?_, hI.joinedD, hI.retd, hI.late⟩
    intro j
    by_cases hj : j = i
    · subst hj; unfold SInv; simp
    · exact SInv_frame (s := s) j (by simp [upd_other _ _ _ _ hj]) id id (hI.sd j)
  | begin =>
    rw [hpc] at h; simp only at h; cases h
    obtain ⟨a, b⟩ := frames { s with shutdown := true, sd := upd s.sd i .set } rfl rfl rfl rfl rfl rfl rfl rfl rfl rfl rfl (fun _ => rfl)
    refine ⟨hI.notLe, hI.covLe, hI.cycLe, hI.tickLe, hI.tickMono, hI.ticks, a, b, ?_, hI.joinedD, hI.retd, hI.late⟩
    intro j
    by_cases hj : j = i
    · subst hj; unfold SInv; simp
    · exact SInv_frame (s := s) j (by simp [upd_other _ _ _ _ hj]) (fun _ => rfl) id (hI.sd j)
  | set =>
    rw [hpc] at hs h; simp only at hs h
    split at h
    · rename_i hjo; cases h
      obtain ⟨a, b⟩ := frames _ rfl rfl rfl rfl rfl rfl rfl rfl rfl rfl rfl id
      refine ⟨hI.notLe, hI.covLe, hI.cycLe, hI.tickLe, hI.tickMono, hI.ticks, a, b, ?_, hI.joinedD, hI.retd, hI.late⟩
      intro j
      by_cases hj : j = i
      · subst hj; unfold SInv; simp only [upd_same]; exact hjo
      · exact SInv_frame (s := s) j (by simp [upd_other _ _ _ _ hj]) id id (hI.sd j)
    · split at h
      · rename_i hd; cases h
        obtain ⟨a, b⟩ := frames { s with joined := true, sd := upd s.sd i .xsB } rfl rfl rfl rfl rfl rfl rfl rfl rfl rfl rfl id
        refine ⟨hI.notLe, hI.covLe, hI.cycLe, hI.tickLe, hI.tickMono, hI.ticks, a, b, ?_, fun _ => hd, fun hr => rfl, hI.late⟩
        intro j
        by_cases hj : j = i
        · subst hj; unfold SInv; simp
        · exact SInv_frame (s := s) j (by simp [upd_other _ _ _ _ hj]) id (fun _ => rfl) (hI.sd j)
      · cases h
  | xsB =>
    rw [hpc] at hs h; simp only at hs h; cases h
    obtain ⟨a, b⟩ := frames { s with xshutdowns := s.xshutdowns + 1, sd := upd s.sd i .xsE } rfl rfl rfl rfl rfl rfl rfl rfl rfl rfl rfl id
    refine ⟨hI.notLe, hI.covLe, hI.cycLe, hI.tickLe, hI.tickMono, hI.ticks, a, b, ?_, hI.joinedD, hI.retd, hI.late⟩
    intro j
    by_cases hj : j = i
    · subst hj; unfold SInv; simp only [upd_same]; exact hs
    · exact SInv_frame (s := s) j (by simp [upd_other _ _ _ _ hj]) id id (hI.sd j)
  | xsE =>
    rw [hpc] at hs h; simp only at hs h; cases h
    obtain ⟨a, b⟩ := frames { s with sdReturned := true, sd := upd s.sd i .ret } rfl rfl rfl rfl rfl rfl rfl rfl rfl rfl rfl id
    refine ⟨hI.notLe, hI.covLe, hI.cycLe, hI.tickLe, hI.tickMono, hI.ticks, a, b, ?_, hI.joinedD, fun _ => hs, hI.late⟩
    intro j
    by_cases hj : j = i
    · subst hj; unfold SInv; simp only [upd_same]; exact hs
    · exact SInv_frame (s := s) j (by simp [upd_other _ _ _ _ hj]) id id (hI.sd j)
  | ret => rw [hpc] at h; cases h

theorem inv_step (s s' : St) (a : Act) (hI : Inv s) (h : step s a = some s') : Inv s' := by
  cases a with
  | record => simp only [step] at h; cases h; exact inv_record s hI
  | wStep t => exact inv_wStep s s' t hI h
  | wWake => exact inv_wWake s s' hI h
  | cStep => exact inv_cStep s s' hI h
  | fStep f c x => exact inv_fStep s s' f c x hI h
  | sStep i => exact inv_sStep s s' i hI h

theorem inv_run (s s' : St) (as : List Act) (hI : Inv s) (h : run s as = some s') : Inv s' := by
  induction as generalizing s with
  | nil => simp [run] at h; subst h; exact hI
  | cons a as ih =>
    simp only [run] at h
    split at h
    · rename_i s1 hs1; exact ih s1 (inv_step s s1 a hI hs1) h
    · cases h

theorem reachable_inv (as : List Act) (s : St) (h : run init as = some s) : Inv s := inv_run _ _ as inv_init h

/-! ### the refinement map only takes protocol steps -/

def Steps (s s' : St) : Prop := s' = s ∨ (∃ a, step s a = some s') ∨ (∃ a b s1, step s a = some s1 ∧ step s1 b = some s')

theorem steps_inv {s s' : St} (hI : Inv s) (h : Steps s s') : Inv s' := by
  rcases h with rfl | ⟨a, ha⟩ | ⟨a, b, s1, ha, hb⟩
  · exact hI
  · exact inv_step _ _ a hI ha
  · exact inv_step _ _ b (inv_step _ _ a hI ha) hb

theorem guardEq_some {c : Bool} {o : Option St} {s' : St} (h : guardEq c o = some s') : o = some s' := by
  unfold guardEq at h; split at h
  · exact h
  · cases h

theorem bind2 {s s' : St} {a b : Act} (h : (step s a).bind (fun s1 => step s1 b) = some s') : Steps s s' := by
  cases h1 : step s a with
  | none => rw [h1] at h; cases h
  | some s1 => rw [h1] at h; exact Or.inr (Or.inr ⟨a, b, s1, h1, h⟩)

theorem astep_steps (s s' : St) (e : Ev) (h : astep s e = some s') : Steps s s' := by
  unfold astep at h
  split at h
  · unfold aWorker at h
    split at h <;> first
      | (cases h; exact Or.inl rfl)
      | exact bind2 (guardEq_some h)
      | exact bind2 h
      | exact Or.inr (Or.inl ⟨_, guardEq_some h⟩)
      | exact Or.inr (Or.inl ⟨_, h⟩)
      | cases h
  · unfold aCollect at h
    split at h <;> first
      | (cases h; exact Or.inl rfl)
      | exact Or.inr (Or.inl ⟨_, guardEq_some h⟩)
      | exact Or.inr (Or.inl ⟨_, h⟩)
      | cases h
  · split at h
    · exact Or.inr (Or.inl ⟨_, guardEq_some h⟩)
    · cases h
  · rename_i fi _
    unfold aFlush at h
    split at h
    all_goals first
      | exact Or.inr (Or.inl ⟨_, guardEq_some h⟩)
      | exact Or.inr (Or.inl ⟨_, h⟩)
      | cases h
      | skip
    cases h1 : step s (.fStep fi 1 false) with
    | none => rw [h1] at h; cases h
    | some s1 =>
      rw [h1] at h
      simp only [Option.bind] at h
      split at h
      · have := guardEq_some h; cases this; exact Or.inr (Or.inl ⟨_, h1⟩)
      · cases h
  · unfold aShut at h
    split at h <;> first
      | (cases h; exact Or.inl rfl)
      | exact bind2 (guardEq_some h)
      | exact Or.inr (Or.inl ⟨_, guardEq_some h⟩)
      | exact Or.inr (Or.inl ⟨_, h⟩)
      | cases h

theorem inv_astep (s s' : St) (e : Ev) (hI : Inv s) (h : astep s e = some s') : Inv s' := steps_inv hI (astep_steps s s' e h)

end Otel.Reader
