import OtelVerif.Model.ReaderRefine
/-! The inductive invariant of the periodic reader's protocol model. -/
namespace Otel.Reader
open Otel.Ring (upd upd_same upd_other)

/-- the cycle's collection has reached the exporter (or was skipped after a timeout) -/
def Done (s : St) : Prop := s.cycFloor ≤ s.covered ∨ s.skipped = true

def CInv (s : St) : Prop :=
  match s.cpc with
  | .none => False
  | .produce => s.inExport = 0
  | .cancelChk p | .exportB p => s.inExport = 0 ∧ s.cycFloor ≤ p ∧ p ≤ s.recorded
  | .exportE p => s.inExport = 1 ∧ s.cycFloor ≤ p ∧ p ≤ s.recorded
  | .fin => s.inExport = 0 ∧ Done s

def WInv (s : St) : Prop :=
  match s.wpc with
  | .start | .cvwait | .loopChk => s.cpc = .none ∧ s.inExport = 0
  | .done => s.cpc = .none ∧ s.inExport = 0 ∧ s.shutdown = true
  | .spawn n => s.cpc = .none ∧ s.inExport = 0 ∧ n ≤ s.pending ∧ (1 ≤ n → s.tickRec n ≤ s.cycFloor)
  | .waitF n | .joinC n => n ≤ s.pending ∧ (1 ≤ n → s.tickRec n ≤ s.cycFloor) ∧ CInv s
  | .pubLd n => s.cpc = .none ∧ s.inExport = 0 ∧ n ≤ s.pending ∧ (1 ≤ n → s.tickRec n ≤ s.covered ∨ s.skipped = true)
  | .pubCas n v =>
      s.cpc = .none ∧ s.inExport = 0 ∧ n ≤ s.pending ∧ (1 ≤ n → s.tickRec n ≤ s.covered ∨ s.skipped = true) ∧ v < n

def FInv (s : St) (f : Nat) : Prop :=
  match s.fl f with
  | .idle => True
  | .ticket bh => bh ≤ s.recorded
  | .wait bh cur seen => 1 ≤ cur ∧ cur ≤ s.pending ∧ bh ≤ s.tickRec cur ∧ (∀ v, seen = some v → v ≤ s.notified)
  | .xfE bh cur => 1 ≤ cur ∧ cur ≤ s.pending ∧ bh ≤ s.tickRec cur
  | .after bh cur _ seen => 1 ≤ cur ∧ cur ≤ s.pending ∧ bh ≤ s.tickRec cur ∧ (∀ v, seen = some v → v ≤ s.notified)
  | .ret bh ok => ok = true → (bh ≤ s.covered ∨ s.skipped = true)

def SInv (s : St) (i : Nat) : Prop :=
  match s.sd i with
  | .idle | .begin => True
  | .set => s.shutdown = true
  | .xsB | .xsE | .ret => s.joined = true

structure Inv (s : St) : Prop where
  notLe    : s.notified ≤ s.pending
  covLe    : s.covered ≤ s.recorded
  cycLe    : s.cycFloor ≤ s.recorded
  tickLe   : ∀ t, 1 ≤ t → t ≤ s.pending → s.tickRec t ≤ s.recorded
  tickMono : ∀ t u, 1 ≤ t → t ≤ u → u ≤ s.pending → s.tickRec t ≤ s.tickRec u
  ticks    : ∀ t, 1 ≤ t → t ≤ s.notified → (s.tickRec t ≤ s.covered ∨ s.skipped = true)
  w        : WInv s
  f        : ∀ f, FInv s f
  sd       : ∀ i, SInv s i
  joinedD  : s.joined = true → s.wpc = .done
  retd     : s.sdReturned = true → s.joined = true
  late     : s.lateExports = 0

theorem inv_init : Inv init := by
  refine ⟨?_, ?_, ?_, ?_, ?_, ?_, ?_, ?_, ?_, ?_, ?_, ?_⟩ <;> simp [init, WInv, FInv, SInv]

/-! ### frames -/

theorem FInv_frame {s s' : St} (f : Nat) (h1 : s'.fl f = s.fl f) (h2 : s.recorded ≤ s'.recorded) (h3 : s.pending ≤ s'.pending)
    (h4 : ∀ t, 1 ≤ t → t ≤ s.pending → s'.tickRec t = s.tickRec t) (h5 : s.covered ≤ s'.covered)
    (h6 : s.notified ≤ s'.notified) (h7 : s.skipped = true → s'.skipped = true) (h : FInv s f) : FInv s' f := by
  unfold FInv at *
  rw [h1]
  cases hpc : s.fl f with
  | idle => trivial
  | ticket bh => rw [hpc] at h; simp only at h ⊢; omega
  | wait bh cur seen =>
    rw [hpc] at h; simp only at h ⊢
    obtain ⟨a, b, c, d⟩ := h
    exact ⟨a, by omega, by rw [h4 _ a b]; exact c, fun v hv => Nat.le_trans (d v hv) h6⟩
  | xfE bh cur =>
    rw [hpc] at h; simp only at h ⊢
    obtain ⟨a, b, c⟩ := h
    exact ⟨a, by omega, by rw [h4 _ a b]; exact c⟩
  | after bh cur ok seen =>
    rw [hpc] at h; simp only at h ⊢
    obtain ⟨a, b, c, d⟩ := h
    exact ⟨a, by omega, by rw [h4 _ a b]; exact c, fun v hv => Nat.le_trans (d v hv) h6⟩
  | ret bh ok =>
    rw [hpc] at h; simp only at h ⊢
    intro hok
    rcases h hok with h | h
    · left; omega
    · right; exact h7 h

theorem SInv_frame {s s' : St} (i : Nat) (h1 : s'.sd i = s.sd i) (h2 : s.shutdown = true → s'.shutdown = true)
    (h3 : s.joined = true → s'.joined = true) (h : SInv s i) : SInv s' i := by
  unfold SInv at *
  rw [h1]
  cases hpc : s.sd i <;> rw [hpc] at h <;> simp only at h ⊢ <;> first | trivial | exact h2 h | exact h3 h

theorem Done_mono {s s' : St} (h1 : s'.cycFloor = s.cycFloor) (h2 : s.covered ≤ s'.covered) (h3 : s.skipped = true → s'.skipped = true)
    (h : Done s) : Done s' := by
  unfold Done at *
  rcases h with h | h
  · left; omega
  · right; exact h3 h

/-- a step of a thread other than the worker and the collect thread -/
theorem WInv_frame {s s' : St} (hw : s'.wpc = s.wpc) (hc : s'.cpc = s.cpc) (hi : s'.inExport = s.inExport)
    (hcov : s'.covered = s.covered) (hsk : s'.skipped = s.skipped) (hcy : s'.cycFloor = s.cycFloor)
    (hp : s.pending ≤ s'.pending) (hr : s.recorded ≤ s'.recorded) (hsd : s.shutdown = true → s'.shutdown = true)
    (hk : ∀ t, 1 ≤ t → t ≤ s.pending → s'.tickRec t = s.tickRec t) (h : WInv s) : WInv s' := by
  have hC : CInv s → CInv s' := by
    intro hc0
    unfold CInv at *
    rw [hc]
    cases hpc : s.cpc with
    | none => rw [hpc] at hc0; exact hc0
    | produce => rw [hpc] at hc0; simp only at hc0 ⊢; rw [hi]; exact hc0
    | cancelChk p => rw [hpc] at hc0; simp only at hc0 ⊢; rw [hi, hcy]; exact ⟨hc0.1, hc0.2.1, by omega⟩
    | exportB p => rw [hpc] at hc0; simp only at hc0 ⊢; rw [hi, hcy]; exact ⟨hc0.1, hc0.2.1, by omega⟩
    | exportE p => rw [hpc] at hc0; simp only at hc0 ⊢; rw [hi, hcy]; exact ⟨hc0.1, hc0.2.1, by omega⟩
    | fin =>
      rw [hpc] at hc0; simp only at hc0 ⊢; rw [hi]
      exact ⟨hc0.1, Done_mono hcy (by rw [hcov]; exact Nat.le_refl _) (by rw [hsk]; exact id) hc0.2⟩
  unfold WInv at *
  rw [hw]
  cases hpc : s.wpc with
  | start => rw [hpc] at h; simp only at h ⊢; rw [hc, hi]; exact h
  | cvwait => rw [hpc] at h; simp only at h ⊢; rw [hc, hi]; exact h
  | loopChk => rw [hpc] at h; simp only at h ⊢; rw [hc, hi]; exact h
  | done => rw [hpc] at h; simp only at h ⊢; rw [hc, hi]; exact ⟨h.1, h.2.1, hsd h.2.2⟩
  | spawn n =>
    rw [hpc] at h; simp only at h ⊢; rw [hc, hi, hcy]
    obtain ⟨a, b, c, d⟩ := h
    exact ⟨a, b, by omega, fun hn => by rw [hk _ hn c]; exact d hn⟩
  | waitF n =>
    rw [hpc] at h; simp only at h ⊢; rw [hcy]
    obtain ⟨c, d, e⟩ := h
    exact ⟨by omega, fun hn => by rw [hk _ hn c]; exact d hn, hC e⟩
  | joinC n =>
    rw [hpc] at h; simp only at h ⊢; rw [hcy]
    obtain ⟨c, d, e⟩ := h
    exact ⟨by omega, fun hn => by rw [hk _ hn c]; exact d hn, hC e⟩
  | pubLd n =>
    rw [hpc] at h; simp only at h ⊢; rw [hc, hi, hcov, hsk]
    obtain ⟨a, b, c, d⟩ := h
    exact ⟨a, b, by omega, fun hn => by rw [hk _ hn c]; exact d hn⟩
  | pubCas n v =>
    rw [hpc] at h; simp only at h ⊢; rw [hc, hi, hcov, hsk]
    obtain ⟨a, b, c, d, e⟩ := h
    exact ⟨a, b, by omega, fun hn => by rw [hk _ hn c]; exact d hn, e⟩

end Otel.Reader
