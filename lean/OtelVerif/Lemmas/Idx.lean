import OtelVerif.Model.Idx
import OtelVerif.Lemmas.Bytes
/-! The index-explicit `SplitString` / `HexToBinary` of `Model/Idx.lean` never leave their buffers and compute
    exactly the list functions `Otel.splitString` / `Otel.hexToBinary`. -/
namespace Otel
namespace Idx

/-! ### reads, sub-strings and writes at known positions -/

theorem rd_at (pre : Bytes) (c : UInt8) (rest : Bytes) : rd (pre ++ c :: rest) pre.length = .ok c := by
  simp [rd]

theorem rd_at' (pre : Bytes) (c : UInt8) (rest : Bytes) (i : Nat) (h : i = pre.length) : rd (pre ++ c :: rest) i = .ok c := by
  subst h; exact rd_at pre c rest

theorem substr_mid (pre cur rest : Bytes) : substr (pre ++ cur ++ rest) pre.length cur.length = .ok cur := by
  have h1 : ¬ pre.length > (pre ++ cur ++ rest).length := by
    rw [List.length_append, List.length_append]; omega
  have h2 : min cur.length ((pre ++ cur ++ rest).length - pre.length) = cur.length := by
    rw [List.length_append, List.length_append]; omega
  unfold substr
  rw [if_neg h1, h2, List.append_assoc, List.drop_left, List.take_left]

theorem substrFrom_end (pre cur : Bytes) : substrFrom (pre ++ cur) pre.length = .ok cur := by
  have h1 : ¬ pre.length > (pre ++ cur).length := by simp
  unfold substrFrom
  rw [if_neg h1, List.drop_left]

theorem set_at (A : Bytes) (x v : UInt8) (B : Bytes) : (A ++ x :: B).set A.length v = A ++ v :: B := by
  induction A with
  | nil => rfl
  | cons a t ih => simp [List.set, ih]

theorem wr_at (A : Bytes) (x v : UInt8) (B : Bytes) : wr (A ++ x :: B) (A.length : Int) v = .ok (A ++ v :: B) := by
  have h : (0 : Int) ≤ (A.length : Int) ∧ (A.length : Int) < ((A ++ x :: B).length : Int) := by
    constructor
    · omega
    · simp; omega
  simp only [wr, h, and_self, if_true, Int.toNat_natCast, set_at]

/-! ### SplitString -/

theorem takeTok_append_of_not_mem {sep : UInt8} : ∀ (cur rest : Bytes), sep ∉ cur →
    takeTok sep (cur ++ rest) = (cur ++ (takeTok sep rest).1, (takeTok sep rest).2)
  | [], rest, _ => by simp
  | c :: t, rest, h => by
    simp only [List.mem_cons, not_or] at h
    have hc : ¬ c = sep := fun e => h.1 e.symm
    simp [takeTok, hc, takeTok_append_of_not_mem t rest h.2]

theorem splitString_succ_no_sep {sep : UInt8} (k : Nat) (cur : Bytes) (h : sep ∉ cur) :
    Otel.splitString sep (k + 1) cur = [cur] := by
  simp [Otel.splitString, takeTok_no_sep cur h]

theorem splitString_succ_sep {sep : UInt8} (k : Nat) (cur r : Bytes) (h : sep ∉ cur) :
    Otel.splitString sep (k + 1) (cur ++ sep :: r) = cur :: Otel.splitString sep k r := by
  simp [Otel.splitString, takeTok_append_sep cur r h]

/-- loop invariant of `SplitString`: at index `i = |pre| + |cur|` with `token_start = |pre|`, no separator in `cur` -/
theorem splitLoop_spec (sep : UInt8) (count : Nat) : ∀ (rest pre cur : Bytes) (acc : List Bytes) (s : Bytes) (i ts : Nat),
    s = pre ++ cur ++ rest → i = pre.length + cur.length → ts = pre.length → sep ∉ cur → acc.length < count →
    splitLoop s sep count rest.length i ts acc = .ok (acc ++ Otel.splitString sep (count - acc.length) (cur ++ rest))
  | [], pre, cur, acc, s, i, ts, hs, hi, hts, hcur, hacc => by
    obtain ⟨k, hk⟩ : ∃ k, count - acc.length = k + 1 := ⟨count - acc.length - 1, by omega⟩
    have hlen : ¬ i < s.length := by rw [hs, hi]; simp
    have hs' : s = pre ++ cur := by rw [hs, List.append_nil]
    rw [hk, List.append_nil, splitString_succ_no_sep k cur hcur]
    simp only [List.length_nil, splitLoop]
    rw [if_neg hlen, splitExit, if_pos hacc, hs', hts, substrFrom_end, IxRes.map_ok]
  | c :: r, pre, cur, acc, s, i, ts, hs, hi, hts, hcur, hacc => by
    have hlen : i < s.length := by rw [hs, hi]; simp
    have hrd : rd s i = .ok c := by rw [hs]; exact rd_at' (pre ++ cur) c r _ (by rw [hi]; simp)
    simp only [List.length_cons, splitLoop]
    rw [if_pos hlen, hrd, IxRes.bind_ok]
    by_cases hc : c = sep
    · have hsub : substr s ts (i - ts) = .ok cur := by
        have : i - ts = cur.length := by omega
        rw [this, hs, hts]; exact substr_mid pre cur (c :: r)
      have hne : ¬ (c ≠ sep) := fun h => h hc
      rw [if_neg hne, hsub, IxRes.bind_ok]
      obtain ⟨k, hk⟩ : ∃ k, count - acc.length = k + 1 := ⟨count - acc.length - 1, by omega⟩
      rw [hk, hc, splitString_succ_sep k cur r hcur]
      by_cases hfull : (acc ++ [cur]).length = count
      · have hk0 : k = 0 := by simp at hfull; omega
        subst hk0
        simp [hfull, Otel.splitString]
      · have hlen2 : (acc ++ [cur]).length < count := by simp at hfull ⊢; omega
        have := splitLoop_spec sep count r (pre ++ cur ++ [c]) [] (acc ++ [cur]) s (i + 1) (i + 1)
          (by rw [hs]; simp) (by rw [hi]; simp; omega) (by rw [hi]; simp; omega) (by simp) hlen2
        rw [if_neg hfull, this]
        have hk' : count - (acc ++ [cur]).length = k := by simp; omega
        rw [hk']
        simp
    · have hcur' : sep ∉ cur ++ [c] := by
        simp only [List.mem_append, List.mem_singleton, not_or]
        exact ⟨hcur, fun e => hc e.symm⟩
      have := splitLoop_spec sep count r pre (cur ++ [c]) acc s (i + 1) ts
        (by rw [hs]; simp) (by rw [hi]; simp; omega) hts hcur' hacc
      rw [if_pos hc, this]
      simp

/-- **`SplitString` never reads outside `s`** and yields exactly the list-level split -/
theorem splitString_eq (s : Bytes) (sep : UInt8) (count : Nat) :
    splitString s sep count = .ok (Otel.splitString sep count s) := by
  unfold splitString
  by_cases h0 : count = 0
  · subst h0; simp [Otel.splitString]
  · have := splitLoop_spec sep count s [] [] [] s 0 0 (by simp) (by simp) (by simp) (by simp) (by simp; omega)
    rw [if_neg h0, this]
    simp

/-! ### HexToBinary -/

theorem pairVal_hex (a b : UInt8) (ha : isHexDigit a = true) : pairVal a b = .ok ((hexToInt a <<< 4) ||| hexToInt b) := by
  have : ¬ hexToInt a = 255 := by simpa [isHexDigit] using ha
  simp [pairVal, this]

/-- loop invariant of the pair loop of `HexToBinary`: `pre` consumed, `A` written, the rest of the buffer still zero -/
theorem hexLoop_spec (hex : Bytes) : ∀ (rest pre A : Bytes) (fuel i : Nat) (bp : Int),
    hex = pre ++ rest → i = pre.length → bp = (A.length : Int) → rest.length % 2 = 0 →
    (∀ c ∈ rest, isHexDigit c = true) → rest.length / 2 ≤ fuel →
    hexLoop hex ((hex.length : Int) - 1) fuel i bp (A ++ List.replicate (rest.length / 2) 0) = .ok (A ++ hexPairs rest)
  | [], pre, A, fuel, i, bp, hs, hi, _, _, _, _ => by
    have hnl : ¬ ((i : Int) < (hex.length : Int) - 1) := by rw [hs, hi]; simp; omega
    cases fuel with
    | zero => simp only [hexLoop]; rw [if_neg hnl]; simp [hexPairs]
    | succ f => simp only [hexLoop]; rw [if_neg hnl]; simp [hexPairs]
  | [_], _, _, _, _, _, _, _, _, hev, _, _ => by simp at hev
  | a :: b :: t, pre, A, fuel, i, bp, hs, hi, hbp, hev, hhex, hfuel => by
    have hlen : hex.length = pre.length + (t.length + 2) := by rw [hs]; simp
    have hl : (i : Int) < (hex.length : Int) - 1 := by rw [hlen, hi]; omega
    have hk : (a :: b :: t).length / 2 = t.length / 2 + 1 := by simp; omega
    cases fuel with
    | zero => rw [hk] at hfuel; omega
    | succ f =>
      have hrd1 : rd hex i = .ok a := by rw [hs]; exact rd_at' pre a (b :: t) _ hi
      have hrd2 : rd hex (i + 1) = .ok b := by
        have : hex = (pre ++ [a]) ++ b :: t := by rw [hs]; simp
        rw [this]; exact rd_at' (pre ++ [a]) b t _ (by rw [hi]; simp)
      have hwr : wr (A ++ List.replicate ((a :: b :: t).length / 2) 0) bp ((hexToInt a <<< 4) ||| hexToInt b) =
          .ok ((A ++ [(hexToInt a <<< 4) ||| hexToInt b]) ++ List.replicate (t.length / 2) 0) := by
        rw [hk, List.replicate_succ, hbp, wr_at]; simp
      simp only [hexLoop]
      rw [if_pos hl, hrd1, IxRes.bind_ok, hrd2, IxRes.bind_ok, pairVal_hex a b (hhex a (by simp)), IxRes.bind_ok, hwr, IxRes.bind_ok]
      have hev' : t.length % 2 = 0 := by simp at hev; omega
      have := hexLoop_spec hex t (pre ++ [a, b]) (A ++ [(hexToInt a <<< 4) ||| hexToInt b]) f (i + 2) (bp + 1)
        (by rw [hs]; simp) (by rw [hi]; simp) (by rw [hbp]; simp) hev'
        (fun c hc => hhex c (by simp [hc])) (by rw [hk] at hfuel; omega)
      rw [this]
      simp [hexPairs]

/-- **`HexToBinary` on a string of hex digits never reads outside `hex`, never writes outside `buffer`, never shifts a
    negative value**, and computes exactly the list-level `Otel.hexToBinary` (left padded with zeroes; refused and
    zeroed when too long) -/
theorem hexToBinary_eq (hex : Bytes) (n : Nat) (h : isValidHex hex = true) :
    hexToBinary hex n = .ok (Otel.hexToBinary hex n) := by
  have hall : ∀ c ∈ hex, isHexDigit c = true := by simpa [isValidHex] using h
  unfold hexToBinary Otel.hexToBinary
  by_cases hlong : hex.length > n * 2
  · have hlong' : hex.length > 2 * n := by omega
    simp only []
    rw [if_pos hlong, if_pos hlong']
  · have hlong' : ¬ hex.length > 2 * n := by omega
    simp only []
    rw [if_neg hlong, if_neg hlong']
    by_cases hodd : hex.length % 2 = 1
    · have hoddI : ((hex.length : Int)) % 2 = 1 := by omega
      rw [if_pos hoddI, if_pos hodd]
      match hex, hall, hlong, hodd with
      | c :: t, hall, hlong, hodd =>
        have hev : t.length % 2 = 0 := by simp at hodd; omega
        have hpad : n = (n - ((c :: t).length + 1) / 2) + (1 + t.length / 2) := by simp at hlong ⊢; omega
        have hbuf : List.replicate n (0 : UInt8) =
            List.replicate (n - ((c :: t).length + 1) / 2) 0 ++ 0 :: List.replicate (t.length / 2) 0 := by
          conv => lhs; rw [hpad]
          rw [← List.replicate_append_replicate, Nat.add_comm 1, List.replicate_succ]
        have hbp : ((n : Int) - (((c :: t).length : Int) + 1) / 2) =
            ((List.replicate (n - ((c :: t).length + 1) / 2) (0 : UInt8)).length : Int) := by
          simp at hlong ⊢; omega
        have hrd : rd (c :: t) 0 = .ok c := rd_at' [] c t 0 rfl
        rw [hrd, IxRes.bind_ok, hbuf, hbp, wr_at, IxRes.bind_ok]
        have := hexLoop_spec (c :: t) t [c] (List.replicate (n - ((c :: t).length + 1) / 2) 0 ++ [hexToInt c])
          (c :: t).length 1 (((List.replicate (n - ((c :: t).length + 1) / 2) (0 : UInt8)).length : Int) + 1)
          rfl rfl (by simp) hev (fun x hx => hall x (by simp [hx])) (by simp; omega)
        simp only [List.append_assoc, List.cons_append, List.nil_append] at this
        rw [this]
        simp
    · have hoddI : ¬ ((hex.length : Int)) % 2 = 1 := by omega
      rw [if_neg hoddI, if_neg hodd]
      have hev : hex.length % 2 = 0 := by omega
      have hpad : n = (n - (hex.length + 1) / 2) + hex.length / 2 := by omega
      have hbuf : List.replicate n (0 : UInt8) =
          List.replicate (n - (hex.length + 1) / 2) 0 ++ List.replicate (hex.length / 2) 0 := by
        conv => lhs; rw [hpad]
        rw [← List.replicate_append_replicate]
      have hbp : ((n : Int) - ((hex.length : Int) + 1) / 2) =
          ((List.replicate (n - (hex.length + 1) / 2) (0 : UInt8)).length : Int) := by
        simp; omega
      rw [hbuf, hbp]
      have := hexLoop_spec hex hex [] (List.replicate (n - (hex.length + 1) / 2) 0) hex.length 0
        ((List.replicate (n - (hex.length + 1) / 2) (0 : UInt8)).length : Int)
        rfl rfl rfl hev hall (by omega)
      rw [this]
      simp

end Idx
end Otel
