import OtelVerif.Model.RelAcqHeadTail
import OtelVerif.Lemmas.RelAcq
/-! Invariant of `Model/RelAcqHeadTail.lean`: message `k` of `head_` has value `k`; every `tail_` message carries a view of
    `head_` at least as large as its value (the consumer had seen that many commits when it wrote it); hence a producer that
    read `tail = t` with acquire can only read `head ≥ t` afterwards. -/
namespace Otel.RelAcq.HT
open Otel.Ring (upd upd_same upd_other)

theorem latest_getElem (msgs : List Msg) (h : msgs ≠ []) : msgs[msgs.length - 1]? = some (latest msgs) := by
  unfold latest
  rw [List.getLastD_eq_getLast?, ← List.getLast?_eq_getElem?]
  cases hl : msgs.getLast? with
  | none => exact absurd (List.getLast?_eq_none_iff.1 hl) h
  | some x => rfl

structure Inv (s : St) : Prop where
  headNe   : s.m.atom headL ≠ []
  headIdx  : ∀ (k : Nat) (msg : Msg), (s.m.atom headL)[k]? = some msg → msg.val = k
  tailView : ∀ msg ∈ s.m.atom tailL, msg.val ≤ msg.view.get headL
  consView : s.m.latestVal tailL ≤ cv s.m 0 headL
  ldHeadV  : ∀ p t, s.pcs p = .ldHead t → t ≤ cv s.m p headL
  cFaddV   : ∀ hc, s.pcs 0 = .cFadd hc → hc ≤ cv s.m 0 headL
  prodNe   : ∀ p, (∃ t, s.pcs p = .ldHead t) ∨ (∃ t h, s.pcs p = .cas t h) → p ≠ 0
  pairsOk  : ∀ x ∈ s.pairs, x.1 ≤ x.2

theorem head_ne_tail : headL ≠ tailL := by decide
theorem tail_ne_head : tailL ≠ headL := by decide

theorem inv_init : Inv init := by
  refine ⟨?_, ?_, ?_, ?_, ?_, ?_, ?_, ?_⟩
  · simp [init, Mem.init]
  · intro k msg h
    simp only [init, Mem.init] at h
    cases k with
    | zero => simp at h; subst h; rfl
    | succ k => simp at h
  · intro msg hm; simp [init, Mem.init, Msg.init] at hm; subst hm; simp
  · simp [init, init_latestVal]
  · intro p t h; simp [init] at h
  · intro hc h; simp [init] at h
  · intro p h; simp [init] at h
  · intro x hx; simp [init] at hx

/-- a load of `l` by `t` leaves `t`'s view of `l` at the timestamp read, or above -/
theorem load_cv_same_ge {m m' : Mem} {t l k v : Nat} {o : MO} (h : load m t l o k = some (v, m')) : k ≤ cv m' t l := by
  obtain ⟨msg, _, _, _, _, _, hv⟩ := load_some h
  simp only [cv, hv, upd_same]
  split
  · rw [View.get_join, View.get_set, if_pos rfl]; exact Nat.le_max_left _ _
  · rw [View.get_set, if_pos rfl]; exact Nat.le_refl _

theorem load_guard {m m' : Mem} {t l k v : Nat} {o : MO} (h : load m t l o k = some (v, m')) :
    cv m t l ≤ k ∧ ∃ msg, (m.atom l)[k]? = some msg ∧ v = msg.val := by
  unfold load at h
  split at h
  · rename_i hg
    split at h
    · rename_i msg hk; cases h; exact ⟨hg, msg, hk, rfl⟩
    · cases h
  · cases h

/-- an acquire load joins the view of the message it reads -/
theorem load_acq_ge {m m' : Mem} {t l k v : Nat} {o : MO} (hacq : o.isAcq = true) (h : load m t l o k = some (v, m')) (x : Nat) :
    ∃ msg, msg ∈ m.atom l ∧ v = msg.val ∧ msg.view.get x ≤ cv m' t x := by
  obtain ⟨msg, hmem, hval, _, _, _, hv⟩ := load_some h
  refine ⟨msg, hmem, hval, ?_⟩
  simp only [cv, hv, upd_same, hacq, if_true]
  rw [View.get_join]; exact Nat.le_max_right _ _

theorem inv_step (o : Orders) (hok : o.ok = true) (s s' : St) (a : Act) (hI : Inv s) (h : step o s a = some s') : Inv s' := by
  have hok' : o.faddTail.isRel = true ∧ o.addLoadTail.isAcq = true := by
    simpa [Orders.ok, Bool.and_eq_true] using hok
  cases a with
  | pLdTail p k =>
    simp only [step] at h
    split at h
    · rename_i hc
      obtain ⟨hp0, hpc⟩ := hc
      split at h
      · rename_i t m' hl
        cases h
        obtain ⟨msg, hmem, hval, hatom, _, _, _⟩ := load_some hl
        obtain ⟨msg2, hmem2, hval2, hge⟩ := load_acq_ge hok'.2 hl headL
        have hlv : ∀ l, m'.latestVal l = s.m.latestVal l := fun l => by simp [Mem.latestVal, hatom]
        refine ⟨by rw [hatom]; exact hI.headNe, by rw [hatom]; exact hI.headIdx, by rw [hatom]; exact hI.tailView, ?_, ?_, ?_, ?_, hI.pairsOk⟩
        · show m'.latestVal tailL ≤ cv m' 0 headL
          rw [hlv, load_cv_other hl 0 headL (Ne.symm hp0)]; exact hI.consView
        · intro q t' hq
          by_cases hqp : q = p
          · subst hqp; simp only [setPc, upd_same, Pc.ldHead.injEq] at hq; subst hq
            show t ≤ cv m' q headL
            have := hI.tailView msg2 hmem2
            omega
          · simp only [setPc, upd_other _ _ _ _ hqp] at hq
            show t' ≤ cv m' q headL
            rw [load_cv_other hl q headL hqp]; exact hI.ldHeadV q t' hq
        · intro hc' hq
          simp only [setPc, upd_other _ _ _ _ (Ne.symm hp0)] at hq
          show hc' ≤ cv m' 0 headL
          rw [load_cv_other hl 0 headL (Ne.symm hp0)]; exact hI.cFaddV hc' hq
        · intro q hq
          by_cases hqp : q = p
          · rw [hqp]; exact hp0
          · simp only [setPc, upd_other _ _ _ _ hqp] at hq; exact hI.prodNe q hq
      · cases h
    · cases h
  | pLdHead p k =>
    simp only [step] at h
    split at h
    · rename_i t hpc
      have hp0 : p ≠ 0 := hI.prodNe p (Or.inl ⟨t, hpc⟩)
      split at h
      · rename_i hh m' hl
        cases h
        obtain ⟨msg, hmem, hval, hatom, _, _, _⟩ := load_some hl
        obtain ⟨hg, msg2, hk2, hv2⟩ := load_guard hl
        have hlv : ∀ l, m'.latestVal l = s.m.latestVal l := fun l => by simp [Mem.latestVal, hatom]
        have hhk : hh = k := by rw [hv2]; exact hI.headIdx k msg2 hk2
        refine ⟨by rw [hatom]; exact hI.headNe, by rw [hatom]; exact hI.headIdx, by rw [hatom]; exact hI.tailView, ?_, ?_, ?_, ?_, ?_⟩
        · show m'.latestVal tailL ≤ cv m' 0 headL
          rw [hlv, load_cv_other hl 0 headL (Ne.symm hp0)]; exact hI.consView
        · intro q t' hq
          by_cases hqp : q = p
          · subst hqp; simp [setPc] at hq
          · simp only [setPc, upd_other _ _ _ _ hqp] at hq
            show t' ≤ cv m' q headL
            rw [load_cv_other hl q headL hqp]; exact hI.ldHeadV q t' hq
        · intro hc' hq
          simp only [setPc, upd_other _ _ _ _ (Ne.symm hp0)] at hq
          show hc' ≤ cv m' 0 headL
          rw [load_cv_other hl 0 headL (Ne.symm hp0)]; exact hI.cFaddV hc' hq
        · intro q hq
          by_cases hqp : q = p
          · rw [hqp]; exact hp0
          · simp only [setPc, upd_other _ _ _ _ hqp] at hq; exact hI.prodNe q hq
        · intro x hx
          rcases List.mem_cons.1 hx with hx | hx
          · rw [hx]
            show t ≤ hh
            have := hI.ldHeadV p t hpc
            omega
          · exact hI.pairsOk x hx
      · cases h
    · cases h
  | pCas p =>
    simp only [step] at h
    split at h
    · rename_i t hh hpc
      have hp0 : p ≠ 0 := hI.prodNe p (Or.inr ⟨t, hh, hpc⟩)
      have hpcs : ∀ q, q ≠ p → setPc s p .idle q = s.pcs q := fun q hq => by simp [setPc, upd_other _ _ _ _ hq]
      split at h
      · rename_i hlat
        cases h
        have hat : (rmw s.m p headL o.headCas (hh + 1)).2.atom headL = s.m.atom headL ++ [latest ((rmw s.m p headL o.headCas (hh + 1)).2.atom headL)] := by
          simp [rmw, latest_append]
        have hnewval : (latest ((rmw s.m p headL o.headCas (hh + 1)).2.atom headL)).val = hh + 1 := rmw_latestVal_same _ _ _ _ _
        have hlen : hh = (s.m.atom headL).length - 1 := by
          have h1 := latest_getElem _ hI.headNe
          have h2 := hI.headIdx _ _ h1
          rw [← hlat]; exact h2
        have hpos : 0 < (s.m.atom headL).length := List.length_pos_iff.2 hI.headNe
        refine ⟨?_, ?_, ?_, ?_, ?_, ?_, ?_, hI.pairsOk⟩
        · show (rmw s.m p headL o.headCas (hh + 1)).2.atom headL ≠ []
          rw [hat]; simp
        · intro k msg hk
          change ((rmw s.m p headL o.headCas (hh + 1)).2.atom headL)[k]? = some msg at hk
          rw [hat] at hk
          by_cases hkl : k < (s.m.atom headL).length
          · rw [List.getElem?_append_left hkl] at hk; exact hI.headIdx k msg hk
          · rw [List.getElem?_append_right (Nat.le_of_not_lt hkl)] at hk
            have hk0 : k - (s.m.atom headL).length = 0 := by
              cases hd : k - (s.m.atom headL).length with
              | zero => rfl
              | succ d => rw [hd] at hk; simp at hk
            rw [hk0] at hk
            simp at hk
            rw [← hk, hnewval]; omega
        · intro msg hm
          change msg ∈ (rmw s.m p headL o.headCas (hh + 1)).2.atom tailL at hm
          rw [rmw_atom_other _ _ _ _ _ _ tail_ne_head] at hm; exact hI.tailView msg hm
        · show (rmw s.m p headL o.headCas (hh + 1)).2.latestVal tailL ≤ cv (rmw s.m p headL o.headCas (hh + 1)).2 0 headL
          rw [rmw_latestVal_other _ _ _ _ _ _ tail_ne_head, rmw_cv_other _ _ _ _ _ _ _ (Ne.symm hp0)]; exact hI.consView
        · intro q t' hq
          by_cases hqp : q = p
          · subst hqp; simp [setPc] at hq
          · simp only [hpcs q hqp] at hq
            show t' ≤ cv (rmw s.m p headL o.headCas (hh + 1)).2 q headL
            rw [rmw_cv_other _ _ _ _ _ _ _ hqp]; exact hI.ldHeadV q t' hq
        · intro hc' hq
          simp only [hpcs 0 (Ne.symm hp0)] at hq
          show hc' ≤ cv (rmw s.m p headL o.headCas (hh + 1)).2 0 headL
          rw [rmw_cv_other _ _ _ _ _ _ _ (Ne.symm hp0)]; exact hI.cFaddV hc' hq
        · intro q hq
          by_cases hqp : q = p
          · rw [hqp]; exact hp0
          · simp only [hpcs q hqp] at hq; exact hI.prodNe q hq
      · cases h
        refine ⟨hI.headNe, hI.headIdx, hI.tailView, hI.consView, ?_, ?_, ?_, hI.pairsOk⟩
        · intro q t' hq
          by_cases hqp : q = p
          · subst hqp; simp [setPc] at hq
          · simp only [hpcs q hqp] at hq; exact hI.ldHeadV q t' hq
        · intro hc' hq; simp only [hpcs 0 (Ne.symm hp0)] at hq; exact hI.cFaddV hc' hq
        · intro q hq
          by_cases hqp : q = p
          · rw [hqp]; exact hp0
          · simp only [hpcs q hqp] at hq; exact hI.prodNe q hq
    · cases h
  | pQuit p =>
    simp only [step] at h
    split at h
    · rename_i t hh hpc
      have hp0 : p ≠ 0 := hI.prodNe p (Or.inr ⟨t, hh, hpc⟩)
      have hpcs : ∀ q, q ≠ p → setPc s p .idle q = s.pcs q := fun q hq => by simp [setPc, upd_other _ _ _ _ hq]
      cases h
      refine ⟨hI.headNe, hI.headIdx, hI.tailView, hI.consView, ?_, ?_, ?_, hI.pairsOk⟩
      · intro q t' hq
        by_cases hqp : q = p
        · subst hqp; simp [setPc] at hq
        · simp only [hpcs q hqp] at hq; exact hI.ldHeadV q t' hq
      · intro hc' hq; simp only [hpcs 0 (Ne.symm hp0)] at hq; exact hI.cFaddV hc' hq
      · intro q hq
        by_cases hqp : q = p
        · rw [hqp]; exact hp0
        · simp only [hpcs q hqp] at hq; exact hI.prodNe q hq
    · cases h
  | cLdHead k =>
    simp only [step] at h
    split at h
    · rename_i hpc
      split at h
      · rename_i hc m' hl
        cases h
        obtain ⟨msg, hmem, hval, hatom, _, _, _⟩ := load_some hl
        obtain ⟨hg, msg2, hk2, hv2⟩ := load_guard hl
        have hlv : ∀ l, m'.latestVal l = s.m.latestVal l := fun l => by simp [Mem.latestVal, hatom]
        have hck : hc = k := by rw [hv2]; exact hI.headIdx k msg2 hk2
        have hge := load_cv_same_ge hl
        refine ⟨by rw [hatom]; exact hI.headNe, by rw [hatom]; exact hI.headIdx, by rw [hatom]; exact hI.tailView, ?_, ?_, ?_, ?_, hI.pairsOk⟩
        · show m'.latestVal tailL ≤ cv m' 0 headL
          rw [hlv]
          have := hI.consView
          omega
        · intro q t' hq
          by_cases hq0 : q = 0
          · subst hq0; simp [setPc] at hq
          · simp only [setPc, upd_other _ _ _ _ hq0] at hq
            show t' ≤ cv m' q headL
            rw [load_cv_other hl q headL hq0]; exact hI.ldHeadV q t' hq
        · intro hc' hq
          simp only [setPc, upd_same, Pc.cFadd.injEq] at hq
          show hc' ≤ cv m' 0 headL
          omega
        · intro q hq
          by_cases hq0 : q = 0
          · subst hq0; simp [setPc] at hq
          · exact hq0
      · cases h
    · cases h
  | cFadd n =>
    simp only [step] at h
    split at h
    · rename_i hc hpc
      split at h
      · rename_i hn
        cases h
        have hcv := hI.cFaddV hc hpc
        have hcons := hI.consView
        have hcv0 : cv (rmw s.m 0 tailL o.faddTail (s.m.latestVal tailL + n)).2 0 headL ≥ cv s.m 0 headL := by
          rw [rmw_cv_self _ _ _ _ _ _ head_ne_tail]
          split
          · exact Nat.le_max_left _ _
          · exact Nat.le_refl _
        have hnewview : s.m.latestVal tailL + n ≤ lmv (rmw s.m 0 tailL o.faddTail (s.m.latestVal tailL + n)).2 tailL headL := by
          rw [rmw_lmv_same, hok'.1, if_pos rfl]
          have : s.m.latestVal tailL + n ≤ cv (rmw s.m 0 tailL o.faddTail (s.m.latestVal tailL + n)).2 0 headL := by omega
          exact Nat.le_trans this (Nat.le_max_left _ _)
        have hat : (rmw s.m 0 tailL o.faddTail (s.m.latestVal tailL + n)).2.atom tailL = s.m.atom tailL ++ [latest ((rmw s.m 0 tailL o.faddTail (s.m.latestVal tailL + n)).2.atom tailL)] := by
          simp [rmw, latest_append]
        refine ⟨?_, ?_, ?_, ?_, ?_, ?_, ?_, hI.pairsOk⟩
        · show (rmw s.m 0 tailL o.faddTail (s.m.latestVal tailL + n)).2.atom headL ≠ []
          rw [rmw_atom_other _ _ _ _ _ _ head_ne_tail]; exact hI.headNe
        · intro k msg hk
          change ((rmw s.m 0 tailL o.faddTail (s.m.latestVal tailL + n)).2.atom headL)[k]? = some msg at hk
          rw [rmw_atom_other _ _ _ _ _ _ head_ne_tail] at hk; exact hI.headIdx k msg hk
        · intro msg hm
          change msg ∈ (rmw s.m 0 tailL o.faddTail (s.m.latestVal tailL + n)).2.atom tailL at hm
          rw [hat] at hm
          rcases List.mem_append.1 hm with hm | hm
          · exact hI.tailView msg hm
          · simp at hm; subst hm
            have hv : (latest ((rmw s.m 0 tailL o.faddTail (s.m.latestVal tailL + n)).2.atom tailL)).val = s.m.latestVal tailL + n :=
              rmw_latestVal_same _ _ _ _ _
            rw [hv]; exact hnewview
        · show (rmw s.m 0 tailL o.faddTail (s.m.latestVal tailL + n)).2.latestVal tailL ≤ cv (rmw s.m 0 tailL o.faddTail (s.m.latestVal tailL + n)).2 0 headL
          rw [rmw_latestVal_same]; omega
        · intro q t' hq
          by_cases hq0 : q = 0
          · subst hq0; simp [setPc] at hq
          · simp only [setPc, upd_other _ _ _ _ hq0] at hq
            show t' ≤ cv (rmw s.m 0 tailL o.faddTail (s.m.latestVal tailL + n)).2 q headL
            rw [rmw_cv_other _ _ _ _ _ _ _ hq0]; exact hI.ldHeadV q t' hq
        · intro hc' hq; simp [setPc] at hq
        · intro q hq
          by_cases hq0 : q = 0
          · subst hq0; simp [setPc] at hq
          · exact hq0
      · cases h
    · cases h

theorem inv_run (o : Orders) (hok : o.ok = true) (s s' : St) (as : List Act) (hI : Inv s) (h : run o s as = some s') : Inv s' := by
  induction as generalizing s with
  | nil => simp [run] at h; subst h; exact hI
  | cons a as ih =>
    simp only [run] at h
    split at h
    · rename_i s1 hs1; exact ih s1 (inv_step o hok s s1 a hI hs1) h
    · cases h

end Otel.RelAcq.HT
