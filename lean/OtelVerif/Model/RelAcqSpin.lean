import OtelVerif.Model.RelAcq
/-! The spin-lock client on the release/acquire memory of `Model/RelAcq.lean`.

Any number of threads, each forever: acquire `SpinLockMutex` (`api/common/spin_lock_mutex.h`), read the shared **plain**
cell, write it back incremented, `unlock()`.  One action per memory access:

* `begin p viaTry` - `p` starts an acquisition attempt, either with `lock()`'s first `flag_.exchange(true, o.lockXchg)` or
  with `try_lock()`'s test `flag_.load(o.tryLoad)`; a failed attempt returns to `idle`, from where the next attempt
  starts (the fast loop, `yield` and `sleep_for` of `lock()` are not memory accesses; a `try_lock()` that returned false
  to its caller is the same transition);
* `load p k` - the test load reads message `k` of `flag_` (any message not older than `p`'s view: it may be stale);
* `xchg p` - the exchange: an RMW, reads the latest message; `0` read = acquired;
* `csRead p`, `csWrite p` - the critical section: plain read of the cell, plain write of the value read + 1;
* `unlock p` - `flag_.store(false, o.unlockSt)`.

`hist` (ghost) lists the critical sections completed so far, newest first, as (value read, value written). -/
namespace Otel.RelAcq.Spin
open Otel.Ring (upd upd_same upd_other)

/-- the atomic location of `flag_` and the plain location of the shared cell -/
def flagL : Nat := 0
def cellL : Nat := 1

/-- the memory orders at the four atomic operations of `SpinLockMutex` -/
structure Orders where
  tryLoad  : MO
  tryXchg  : MO
  lockXchg : MO
  unlockSt : MO
  deriving DecidableEq, Repr

/-- the orders written in the source (`Gen/MemOrder.lean`) -/
def genOrders : Orders :=
  { tryLoad := MO.ofCode Gen.moSpinTryLoad
    tryXchg := MO.ofCode Gen.moSpinTryXchg
    lockXchg := MO.ofCode Gen.moSpinLockXchg
    unlockSt := MO.ofCode Gen.moSpinUnlockStore }

/-- what the proofs need of the orders: both exchanges acquire (or stronger), the unlocking store release (or stronger);
    nothing is needed of the test load -/
def Orders.ok (o : Orders) : Bool := o.tryXchg.isAcq && o.lockXchg.isAcq && o.unlockSt.isRel

inductive Pc where
  | idle
  | test                     -- try_lock: about to load flag_
  | txchg                    -- try_lock: about to exchange (the load read false)
  | lxchg                    -- lock(): about to exchange
  | csRead                   -- holds the lock: about to read the cell
  | csWrite (r : Nat)        -- … about to write r + 1
  | unlock                   -- … about to store false
  deriving DecidableEq, Repr

structure St where
  m    : Mem
  pcs  : Nat → Pc
  hist : List (Nat × Nat)

inductive Act where
  | begin (p : Nat) (viaTry : Bool)
  | load (p k : Nat)
  | xchg (p : Nat)
  | csRead (p : Nat)
  | csWrite (p : Nat)
  | unlock (p : Nat)
  deriving Repr

def init : St := { m := Mem.init, pcs := fun _ => .idle, hist := [] }

@[inline] def setPc (s : St) (p : Nat) (pc : Pc) : Nat → Pc := upd s.pcs p pc

def afterXchg (old : Nat) : Pc := if old = 0 then .csRead else .idle

def step (o : Orders) (s : St) : Act → Option St
  | .begin p viaTry =>
    if s.pcs p = .idle then some { s with pcs := setPc s p (if viaTry then .test else .lxchg) } else none
  | .load p k =>
    if s.pcs p = .test then
      match load s.m p flagL o.tryLoad k with
      | some (v, m') => some { s with m := m', pcs := setPc s p (if v = 0 then .txchg else .idle) }
      | none => none
    else none
  | .xchg p =>
    match s.pcs p with
    | .txchg => some { s with m := (rmw s.m p flagL o.tryXchg 1).2, pcs := setPc s p (afterXchg (rmw s.m p flagL o.tryXchg 1).1) }
    | .lxchg => some { s with m := (rmw s.m p flagL o.lockXchg 1).2, pcs := setPc s p (afterXchg (rmw s.m p flagL o.lockXchg 1).1) }
    | _ => none
  | .csRead p =>
    if s.pcs p = .csRead then some { s with m := (naRead s.m p cellL).2, pcs := setPc s p (.csWrite (naRead s.m p cellL).1) } else none
  | .csWrite p =>
    match s.pcs p with
    | .csWrite r => some { s with m := naWrite s.m p cellL (r + 1), pcs := setPc s p .unlock, hist := (r, r + 1) :: s.hist }
    | _ => none
  | .unlock p =>
    if s.pcs p = .unlock then some { s with m := store s.m p flagL o.unlockSt 0, pcs := setPc s p .idle } else none

def run (o : Orders) (s : St) : List Act → Option St
  | [] => some s
  | a :: as => match step o s a with
    | some s' => run o s' as
    | none => none

/-- `p` is inside the critical section -/
def Holds (s : St) (p : Nat) : Prop := s.pcs p = .csRead ∨ (∃ r, s.pcs p = .csWrite r) ∨ s.pcs p = .unlock

/-- the value the newest completed critical section wrote (0 = the cell's initial value) -/
def lastWritten : List (Nat × Nat) → Nat
  | [] => 0
  | (_, w) :: _ => w

/-- every critical section read what the one before it wrote -/
def Chained : List (Nat × Nat) → Prop
  | [] => True
  | (r, _) :: rest => r = lastWritten rest ∧ Chained rest

end Otel.RelAcq.Spin
