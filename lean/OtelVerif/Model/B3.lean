import OtelVerif.Model.Idx
import OtelVerif.Model.TraceContext
import OtelVerif.Gen.B3
/-! `trace/propagation/b3_propagator.h`: `B3PropagatorExtractor::ExtractImpl` / `Extract`, `TraceFlagsFromHex`,
    `B3Propagator::Inject` (single header) and `B3PropagatorMultiHeader::Inject`.

    The carrier is represented by the four header values the code asks for (`Get` of an absent header = empty). -/
namespace Otel
namespace B3
open TraceContext

/-- `TraceFlags::IsSampled()` -/
def isSampled (f : UInt8) : Bool := f &&& UInt8.ofNat Gen.kIsSampled != 0

/-- `TraceFlagsFromHex`: `length() != 1 || (s[0] != '1' && s[0] != 'd')` → 0, else `kIsSampled` -/
def traceFlagsFromHex (f : Bytes) : IxRes UInt8 :=
  if f.length ≠ 1 then .ok 0
  else (Idx.rd f 0).bind fun c =>
    if c ≠ Gen.b3SampledChar && c ≠ Gen.b3DebugChar then .ok 0 else .ok (UInt8.ofNat Gen.kIsSampled)

/-- the three fields `ExtractImpl` works on; `none` = `SplitString(...) < 2` → `GetInvalid()`.
    `fields` is a value-initialised `std::array<string_view, 3>`: entries not filled by `SplitString` are empty. -/
def fields (b3 tid sid smp : Bytes) : IxRes (Option (Bytes × Bytes × Bytes)) :=
  if !b3.isEmpty then
    (Idx.splitString b3 Gen.b3Sep Gen.b3FieldCount).bind fun fs =>
      if fs.length < Gen.b3MinFields then .ok none else .ok (some (fs.getD 0 [], fs.getD 1 [], fs.getD 2 []))
  else .ok (some (tid, sid, smp))

/-- `ExtractImpl`: `none` = `SpanContext::GetInvalid()`.  `TraceIdFromHex` / `SpanIdFromHex` ignore the return value of
    `HexToBinary` (an over-long string leaves the zeroed buffer, i.e. the invalid id). -/
def extractImpl (b3 tid sid smp : Bytes) : IxRes (Option SpanCtx) :=
  (fields b3 tid sid smp).bind fun
    | none => .ok none
    | some (th, sh, fh) =>
      if !isValidHex th || !isValidHex sh then .ok none
      else
        (Idx.hexToBinary th (Gen.b3TraceIdHexLen / 2)).bind fun rt =>
        (Idx.hexToBinary sh (Gen.b3SpanIdHexLen / 2)).bind fun rs =>
          if allZero rt.2 || allZero rs.2 then .ok none
          else (traceFlagsFromHex fh).bind fun fl =>
            .ok (some { traceId := rt.2, spanId := rs.2, flags := fl, remote := true, traceState := [] })

/-- `Extract`: `ok none` = the caller's context is returned unchanged; `ok (some sc)` = `SetSpan(context, DefaultSpan(sc))` -/
def extract (b3 tid sid smp : Bytes) : IxRes (Option SpanCtx) :=
  (extractImpl b3 tid sid smp).map fun o => o.filter SpanCtx.isValid

/-- `B3Propagator::Inject`: the value of the `b3` header; `none` = nothing is set (invalid span context) -/
def injectSingle (sc : SpanCtx) : Option Bytes :=
  if !sc.isValid then none
  else some (traceIdToHex sc.traceId ++ [Gen.b3InjectSeps.getD 0 0] ++ spanIdToHex sc.spanId ++ [Gen.b3InjectSeps.getD 1 0] ++
             [if isSampled sc.flags then Gen.b3InjectSampled else Gen.b3InjectNotSampled])

/-- what `B3PropagatorMultiHeader::Inject` writes into `X-B3-Sampled`.
    `fromDecision = true`: `IsSampled() ? "1" : "0"`; `false` (D05, the code before the fix): `trace_flags + 1, 1`,
    the low hex digit of the flags byte. -/
def multiSampled (fromDecision : Bool) (f : UInt8) : Bytes :=
  if fromDecision then [if isSampled f then 49 else 48] else (flagsToHex f).drop 1

/-- `B3PropagatorMultiHeader::Inject`: (X-B3-TraceId, X-B3-SpanId, X-B3-Sampled) -/
def injectMultiWith (fromDecision : Bool) (sc : SpanCtx) : Option (Bytes × Bytes × Bytes) :=
  if !sc.isValid then none
  else some (traceIdToHex sc.traceId, spanIdToHex sc.spanId, multiSampled fromDecision sc.flags)

/-- the injector as the source currently has it (`Gen.b3MultiSampledFromDecision` is re-extracted every run) -/
def injectMulti (sc : SpanCtx) : Option (Bytes × Bytes × Bytes) := injectMultiWith Gen.b3MultiSampledFromDecision sc

end B3

namespace Jaeger
open TraceContext

/-- `JaegerPropagator::Inject`: `trace-id(32):span-id(16):0:0S` -/
def inject (sc : SpanCtx) : Option Bytes :=
  if !sc.isValid then none
  else some (traceIdToHex sc.traceId ++ [Gen.jaegerInjectLits.getD 0 0] ++ spanIdToHex sc.spanId ++ (Gen.jaegerInjectLits.drop 1) ++
             [if B3.isSampled sc.flags then Gen.jaegerInjectSampled else Gen.jaegerInjectNotSampled])

/-- `GetTraceFlags` -/
def getTraceFlags (jaegerFlags : UInt8) : UInt8 := jaegerFlags &&& UInt8.ofNat Gen.jaegerIsSampled

/-- `ExtractImpl`: unlike B3 the ids are *not* checked here; `Extract` checks `IsValid()` -/
def extractImpl (h : Bytes) : IxRes (Option SpanCtx) :=
  (Idx.splitString h Gen.jaegerSep Gen.jaegerFieldCount).bind fun fs =>
    if fs.length ≠ Gen.jaegerFieldCount then .ok none
    else
      let th := fs.getD 0 []
      let sh := fs.getD 1 []
      let fh := fs.getD 3 []
      if !isValidHex th || !isValidHex sh || !isValidHex fh then .ok none
      else
        (Idx.hexToBinary th 16).bind fun rt => if !rt.1 then .ok none else
        (Idx.hexToBinary sh 8).bind fun rs => if !rs.1 then .ok none else
        (Idx.hexToBinary fh 1).bind fun rf => if !rf.1 then .ok none else
          match rf.2 with          -- `uint8_t flags;` used as a one-byte buffer
          | [fl] => .ok (some { traceId := rt.2, spanId := rs.2, flags := getTraceFlags fl, remote := true, traceState := [] })
          | _ => .fault .oob

def extract (h : Bytes) : IxRes (Option SpanCtx) :=
  (extractImpl h).map fun o => o.filter SpanCtx.isValid

end Jaeger
end Otel
