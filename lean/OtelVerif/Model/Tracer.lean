import OtelVerif.Model.Sampler
import OtelVerif.Gen.Tracer
/-! `sdk/src/trace/tracer.cc` (`Tracer::StartSpan`), `sdk/src/trace/span.cc` (constructor: `SetIdentity`),
`api/include/opentelemetry/trace/{tracer.h,context.h,scope.h,noop.h}`: identity, parentage, flags and trace state of
a new span; the per-thread stack of active spans.  Mirrors the code *after* `fix: clear the sampled trace flag …`
(D03); `flagsOf false` is the code before that fix.  Core Lean only. -/
namespace Otel
namespace Tracer
open Otel.Sampler

/-- the two keys of a `context::Context` that tracing reads -/
structure Ctx where
  span : Option SpanContext      -- `kSpanKey`: the `GetContext()` of the stored span; `none` = key absent
  isRoot : Bool                  -- `IsRootSpan(context)`: `kIsRootSpanKey` holds `true` (absent = false)
  deriving Repr, DecidableEq

def Ctx.empty : Ctx := ⟨none, false⟩

/-- `GetSpan(context)->GetContext()`: without a stored span, a `DefaultSpan(SpanContext::GetInvalid())` -/
def Ctx.spanContext (c : Ctx) : SpanContext := c.span.getD SpanContext.invalid

/-- `StartSpanOptions::parent` is a variant of a `SpanContext` (default: the invalid one) and a `Context` -/
inductive ParentOpt where
  | spanContext (sc : SpanContext)
  | context (c : Ctx)
  deriving Repr, DecidableEq

/-- tracer.cc:61-86: the parent context handed to the sampler.  `active` = `GetCurrentSpan()->GetContext()`. -/
def resolveParent (active : SpanContext) : ParentOpt → SpanContext
  | .spanContext sc => if sc.isValid then sc else active
  | .context c =>
    if c.spanContext.isValid then c.spanContext
    else if c.isRoot then SpanContext.invalid      -- `SpanContext{false, false}`
    else active

/-- provider configuration: sampler and id generator (the generator is any pair of streams of ids) -/
structure Config where
  sampler : Sampler.Sampler
  genRandom : Bool               -- `IdGenerator::IsRandom()`
  spanIdOf : Nat → Bytes         -- the n-th answer of `GenerateSpanId()`
  traceIdOf : Nat → Bytes        -- the n-th answer of `GenerateTraceId()`

/-- how many ids have been drawn so far -/
structure GenState where
  spanCalls : Nat
  traceCalls : Nat
  deriving Repr, DecidableEq

structure StartArgs where
  name : Bytes
  kind : Nat
  attributes : List (Bytes × Bytes)
  links : List SpanContext

def zeroSpanId : Bytes := List.replicate 8 0

/-- tracer.cc:92-119.  `fixed = true`: with the `else` branch that clears `kIsSampled` (D03 repaired) -/
def flagsOf (fixed : Bool) (parentValid : Bool) (parentFlags : UInt8) (genRandom : Bool) (sampled : Bool) : UInt8 :=
  let f0 : UInt8 := if parentValid then parentFlags else if genRandom then UInt8.ofNat Gen.tracerIsRandom else 0
  let f1 : UInt8 :=
    if sampled then f0 ||| UInt8.ofNat Gen.tracerIsSampled
    else if fixed then f0 &&& ~~~ (UInt8.ofNat Gen.tracerIsSampled) else f0
  f1 &&& UInt8.ofNat Gen.tracerFlagMask

/-- what `StartSpan` produced -/
structure Started where
  ctx : SpanContext          -- `span->GetContext()` (of the `Span` or of the `NoopSpan`)
  parentSpanId : Bytes       -- `SetIdentity(…, parent span id or SpanId())`: what the exporter sees
  recording : Bool           -- a `Span` (true) or a `NoopSpan` (false)
  parent : SpanContext       -- ghost: the resolved parent context given to the sampler
  result : Result            -- ghost: the sampler's answer
  deriving Repr, DecidableEq

/-- `Tracer::StartSpan` (enabled tracer) -/
def startSpanV (fixed : Bool) (cfg : Config) (g : GenState) (active : SpanContext) (p : ParentOpt) (sa : StartArgs) :
    Started × GenState :=
  let parent := resolveParent active p
  let spanId := cfg.spanIdOf g.spanCalls                       -- drawn first
  let pv := parent.isValid
  let traceId := if pv then parent.traceId else cfg.traceIdOf g.traceCalls
  let g' : GenState := ⟨g.spanCalls + 1, if pv then g.traceCalls else g.traceCalls + 1⟩
  let res := shouldSample cfg.sampler ⟨parent, traceId, sa.name, sa.kind, sa.attributes, sa.links⟩
  let flags := flagsOf fixed pv parent.flags cfg.genRandom res.isSampled
  let ts := match res.traceState with
    | some t => t
    | none => if pv then parent.traceState else []
  (⟨⟨traceId, spanId, flags, false, ts⟩, if pv then parent.spanId else zeroSpanId, res.isRecording, parent, res⟩, g')

def startSpan := startSpanV true

/-! ## programs: spans, scopes and threads -/

structure World where
  gen : GenState
  stacks : Nat → List Ctx        -- per thread: the `RuntimeContext` stack (top first)
  spans : List Started           -- every span started so far, in order
  ended : List Nat               -- indices of spans whose `End()` ran
  exported : List Nat            -- indices handed to the exporter, in order

def World.init : World := ⟨⟨0, 0⟩, fun _ => [], [], [], []⟩

/-- `RuntimeContext::GetCurrent()` on thread `t` -/
def World.current (w : World) (t : Nat) : Ctx := (w.stacks t).head?.getD Ctx.empty

/-- `Tracer::GetCurrentSpan()->GetContext()` on thread `t` -/
def World.active (w : World) (t : Nat) : SpanContext := (w.current t).spanContext

inductive SpanRef where
  | keep                         -- leave the span key of the base context alone
  | ofSpan (k : Nat)             -- `SetSpan(ctx, span k)`
  | lit (sc : SpanContext)       -- `SetSpan(ctx, DefaultSpan(sc))`, e.g. what a propagator extracted
  deriving Repr, DecidableEq

inductive ParentSpec where
  | default                                              -- options.parent untouched
  | lit (sc : SpanContext)                               -- options.parent = sc
  | ofSpan (k : Nat)                                     -- options.parent = span k ->GetContext()
  | ctx (fromCurrent : Bool) (root : Option Bool) (span : SpanRef)   -- options.parent = a Context
  deriving Repr, DecidableEq

def resolveSpec (w : World) (t : Nat) : ParentSpec → Option ParentOpt
  | .default => some (.spanContext SpanContext.invalid)
  | .lit sc => some (.spanContext sc)
  | .ofSpan k => w.spans[k]?.map fun s => .spanContext s.ctx
  | .ctx fc root sp =>
    let base := if fc then w.current t else Ctx.empty
    let base1 : Ctx := match root with
      | none => base
      | some b => ⟨base.span, b⟩
    match sp with
    | .keep => some (.context base1)
    | .ofSpan k => w.spans[k]?.map fun s => .context ⟨some s.ctx, base1.isRoot⟩
    | .lit sc => some (.context ⟨some sc, base1.isRoot⟩)

inductive Op where
  | start (t : Nat) (p : ParentSpec) (sa : StartArgs)
  | withActive (t : Nat) (k : Nat)       -- `Scope(span k)` on thread t
  | endScope (t : Nat)                   -- destroy thread t's innermost scope
  | endSpan (k : Nat)                    -- `span k ->End()`

inductive Obs where
  | started (s : Started)
  | active (sc : SpanContext)
  | exported (k : Nat)
  | notExported
  deriving Repr, DecidableEq

def setStack (st : Nat → List Ctx) (t : Nat) (s : List Ctx) : Nat → List Ctx := fun u => if u = t then s else st u

/-- one operation; `none` = malformed (unknown span index, no scope to end) -/
def stepV (fixed : Bool) (cfg : Config) (w : World) : Op → Option (World × Obs)
  | .start t p sa =>
    (resolveSpec w t p).map fun po =>
      let r := startSpanV fixed cfg w.gen (w.active t) po sa
      ({ w with gen := r.2, spans := w.spans ++ [r.1] }, .started r.1)
  | .withActive t k =>
    w.spans[k]?.map fun s =>
      let c : Ctx := ⟨some s.ctx, (w.current t).isRoot⟩    -- `GetCurrent().SetValue(kSpanKey, span)`
      let w' := { w with stacks := setStack w.stacks t (c :: w.stacks t) }
      (w', .active (w'.active t))
  | .endScope t =>
    match w.stacks t with
    | [] => none
    | _ :: rest =>
      let w' := { w with stacks := setStack w.stacks t rest }
      some (w', .active (w'.active t))
  | .endSpan k =>
    w.spans[k]?.map fun s =>
      if w.ended.contains k then (w, .notExported)
      else if s.recording then ({ w with ended := k :: w.ended, exported := w.exported ++ [k] }, .exported k)
      else ({ w with ended := k :: w.ended }, .notExported)

def step := stepV true

def runV (fixed : Bool) (cfg : Config) : World → List Op → Option (World × List Obs)
  | w, [] => some (w, [])
  | w, op :: ops =>
    match stepV fixed cfg w op with
    | none => none
    | some (w', o) => (runV fixed cfg w' ops).map fun r => (r.1, o :: r.2)

def run := runV true

/-! ## a tracer disabled by the provider's `ScopeConfigurator` (tracer.cc:57-59)

`Tracer::StartSpan` of a tracer whose `TracerConfig` is not enabled hands the call to the API's `NoopTracer`
(noop.h): the answer is a `NoopSpan` over `SpanContext(false, false)`, whatever the options say; neither the id
generator nor the sampler is consulted and the runtime context is not touched.  Kept outside `Op` / `step`: the
theorems over programs are about enabled tracers. -/

/-- the span a disabled tracer answers -/
def noopStarted : Started := ⟨SpanContext.invalid, zeroSpanId, false, SpanContext.invalid, ⟨.drop, none⟩⟩

/-- `StartSpan` on a disabled tracer, thread `t`, parent given as `p`: `none` = malformed parent reference -/
def startDisabled (w : World) (t : Nat) (p : ParentSpec) : Option (World × Obs) :=
  (resolveSpec w t p).map fun _ => ({ w with spans := w.spans ++ [noopStarted] }, .started noopStarted)

end Tracer
end Otel
