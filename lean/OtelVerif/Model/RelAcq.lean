import OtelVerif.Model.Ring
import OtelVerif.Gen.MemOrder
/-! # The C++ release/acquire fragment as an executable, view-based operational semantics

The SC models of C11 (`Model/Ring.lean`, `Model/SpinLock.lean`) treat every atomic access as sequentially consistent.
The sources use `memory_order_relaxed / acquire / release` (`Gen/MemOrder.lean` lists what is written at every atomic
operation).  This file is the memory the weak-memory sub-check `Props/C11Mem.lean` runs its client programs on.

**State.**  Per atomic location the list of *messages* written so far (`Msg` = value + attached view), in modification
order: the position in the list is the message's *timestamp*, position 0 is the initial value.  Per thread a *view*
(location → timestamp): the newest message of each location that happens-before the thread's next action.  Per plain
(non-atomic) location its value and two access clocks.  One `race` flag.

**Steps** (one per memory access, thread `t`):
* `load t l o k` reads message number `k` of `l` for **any** `k` not older than `t`'s view of `l` - stale values are
  possible - and sets the view of `l` to `k`; when `o` is acquire or stronger it also joins the message's view.
* `store t l o v` appends a message; its attached view is `t`'s view (the new timestamp included) when `o` is release or
  stronger, and empty otherwise.
* `rmw t l o v` (exchange, fetch_add, a successful compare_exchange) reads the **latest** message (atomicity: a
  read-modify-write reads the immediate predecessor of what it writes), joins its view when `o` is acquire or stronger,
  appends `v`; the attached view is the view of the message it read (an RMW continues the release sequence of what it
  read, C++20 [intro.races]) joined with `t`'s view when `o` is release or stronger.
* a failed compare_exchange is a `load` with the failure order (it may read a stale value, or fail spuriously).
* `naRead t x` / `naWrite t x v`: a plain access.  It is a **data race** - `race := true` - when some earlier conflicting
  access does not happen-before it: for a read, when `t`'s view of `x` is older than the last write of `x`
  (`view < lastW`); for a write, when `t`'s view of `x` is older than the last access, read or write (`view < clk`).
  Every plain access advances the access clock `clk` (reads too, so that a write racing with an earlier read is seen);
  the accessing thread's view follows when it was up to date.

**Simplifications, and why they are exact (or sound) for the programs of `Props/C11Mem.lean`.**
1. *Modification order = execution order* (every write appends).  In the general view-based semantics a store may take
   any timestamp above the writer's view.  That is the same thing (a) for a location written only by RMWs - each RMW is
   adjacent to the message it read, so the messages form one chain and a new RMW reads its end: the ring's slots,
   `head_`, `tail_`; and (b) for a location on which every plain store is by a thread whose view of the location is a
   message all later messages of which are RMW-chained to it: `flag_` - the unlocking holder's view is its own acquiring
   `exchange`, everything after it is an `exchange` of a waiter that read `true` (mutual exclusion, which holds for
   relaxed orders too because it only needs RMW atomicity, is part of the invariant proved).
2. *`seq_cst` is treated as `acq_rel`.*  This drops the total order S of seq_cst operations, i.e. admits **more**
   executions; every theorem here is a safety statement over all executions of the model, so it holds of the fewer
   executions C++ allows.  (C++ executions with an SC access are also consistent when that access is weakened to
   acq_rel: RC11 monotonicity.)
3. *No load buffering*: a thread's step only sees messages that exist (po ∪ rf is acyclic, as in RC11 and the promise-free
   fragment of the promising semantics).  C++11's formal model nominally allows such cycles for relaxed accesses
   (out-of-thin-air); no compiler/hardware mapping of these programs exhibits them: every relaxed load here is followed
   only by dependent accesses.  This is an assumption of the model, listed as such.
4. *No fences, no consume*: `tools/gen_c11mo.py` fails when the headers contain a fence; `consume` is mapped to an order
   that is neither acquire nor release (weaker than what compilers do).
5. The race flag is exact at the *first* race of an execution when reads of one plain location are never concurrent
   (true of the client programs: the cell is read inside the critical section, a payload by its one owner); with
   concurrent reads it may flag a later write that is in fact ordered - an over-approximation, irrelevant to theorems
   that say "never flagged" and not used by the witnesses (they flag a read that misses the last write).

Core Lean only; executable (the driver steps it).  Views are `List Nat` (missing entries = 0), threads and locations are
natural numbers, so "any number of threads" is literal. -/
namespace Otel.RelAcq
open Otel.Ring (upd upd_same upd_other)

/-- C++ memory orders -/
inductive MO where
  | rlx | con | acq | rel | acqRel | sc
  deriving DecidableEq, Repr

/-- the codes of `Gen/MemOrder.lean`; an unknown code is the weakest order -/
def MO.ofCode : Nat → MO
  | 1 => .con | 2 => .acq | 3 => .rel | 4 => .acqRel | 5 => .sc | _ => .rlx

def MO.isAcq : MO → Bool
  | .acq | .acqRel | .sc => true
  | _ => false

def MO.isRel : MO → Bool
  | .rel | .acqRel | .sc => true
  | _ => false

/-- location → timestamp; entries beyond the end are 0 -/
abbrev View := List Nat

def View.bot : View := []

def View.get (v : View) (l : Nat) : Nat := v.getD l 0

def View.join : View → View → View
  | [], b => b
  | a, [] => a
  | x :: a, y :: b => max x y :: View.join a b

def View.set : View → Nat → Nat → View
  | [], 0, n => [n]
  | [], l + 1, n => 0 :: View.set [] l n
  | _ :: a, 0, n => n :: a
  | x :: a, l + 1, n => x :: View.set a l n

structure Msg where
  val  : Nat
  view : View
  deriving Repr

/-- the initial message of every atomic location: value 0 (false / nullptr / 0), nothing attached -/
def Msg.init : Msg := { val := 0, view := View.bot }

structure NaCell where
  val   : Nat := 0
  clk   : Nat := 0        -- number of accesses so far
  lastW : Nat := 0        -- `clk` right after the last write
  deriving Repr

structure Mem where
  atom  : Nat → List Msg
  na    : Nat → NaCell
  views : Nat → View
  race  : Bool

def Mem.init : Mem := { atom := fun _ => [Msg.init], na := fun _ => {}, views := fun _ => View.bot, race := false }

/-- the latest message in modification order -/
def latest (msgs : List Msg) : Msg := msgs.getLastD Msg.init

def Mem.latestVal (m : Mem) (l : Nat) : Nat := (latest (m.atom l)).val

/-- atomic load by `t` of `l` with order `o`, reading message number `k` -/
def load (m : Mem) (t l : Nat) (o : MO) (k : Nat) : Option (Nat × Mem) :=
  if (m.views t).get l ≤ k then
    match (m.atom l)[k]? with
    | some msg =>
      let v0 := (m.views t).set l k
      let v1 := if o.isAcq then v0.join msg.view else v0
      some (msg.val, { m with views := upd m.views t v1 })
    | none => none
  else none

/-- atomic store -/
def store (m : Mem) (t l : Nat) (o : MO) (val : Nat) : Mem :=
  let v0 := (m.views t).set l (m.atom l).length
  let mv := if o.isRel then v0 else View.bot
  { m with atom := upd m.atom l (m.atom l ++ [{ val := val, view := mv }]), views := upd m.views t v0 }

/-- atomic read-modify-write writing `val`; returns the value read (that of the latest message) -/
def rmw (m : Mem) (t l : Nat) (o : MO) (val : Nat) : Nat × Mem :=
  let old := latest (m.atom l)
  let va := if o.isAcq then (m.views t).join old.view else m.views t
  let v0 := va.set l (m.atom l).length
  let mv := (if o.isRel then v0 else View.bot).join old.view
  (old.val, { m with atom := upd m.atom l (m.atom l ++ [{ val := val, view := mv }]), views := upd m.views t v0 })

/-- plain read -/
def naRead (m : Mem) (t x : Nat) : Nat × Mem :=
  let c := m.na x
  let v := (m.views t).get x
  let v' := if v = c.clk then (m.views t).set x (c.clk + 1) else m.views t
  (c.val, { m with na := upd m.na x { c with clk := c.clk + 1 }, views := upd m.views t v', race := m.race || decide (v < c.lastW) })

/-- plain write -/
def naWrite (m : Mem) (t x : Nat) (val : Nat) : Mem :=
  let c := m.na x
  let v := (m.views t).get x
  { m with na := upd m.na x { val := val, clk := c.clk + 1, lastW := c.clk + 1 }, views := upd m.views t ((m.views t).set x (c.clk + 1)), race := m.race || decide (v < c.clk) }

end Otel.RelAcq
