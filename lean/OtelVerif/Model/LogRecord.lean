import OtelVerif.Model.Attr
/-! Model of the logs pipeline from `Logger::CreateLogRecord` / `EmitLogRecord(args…)` to the exporters (C13).

Mirrors `sdk/src/logs/logger.cc` (`CreateLogRecord` copies the identity of the span that is active on the calling thread,
`EmitLogRecord` adds resource + scope and forwards; null record and disabled logger), `read_write_log_record.{h,cc}`
(`body_` / `attributes_map_` hold the caller's **non-owning** `AttributeValue`s, lazily allocated trace identity),
`api/.../logger.h` + `logger_type_traits.h` (the argument pack as a left-to-right fold of typed setters),
`multi_recordable.cc` / `multi_log_record_processor.cc` (one child per processor, every setter fanned out, one child
released to each processor), `simple_log_record_processor.cc` (export inside `OnEmit`) and the externally visible
behaviour of the batch processor (queued at `OnEmit`, exported by the next `ForceFlush`).

Because the stored values are views, "what the exporter reads" depends on the caller's memory **at export time**; the model
therefore carries a caller heap: every body / attribute-list argument lives in a caller cell `BufId`, which the program
may later overwrite (`scribble`) or `free`. -/
namespace Otel.LogRecord
open Otel.SAttr

abbrev BufId := Nat
abbrev RecId := Nat
abbrev ThreadId := Nat

/-- the caller's memory: a cell holds the values of one argument (one for a body, one per pair for an attribute list);
    `none` = freed / never allocated -/
abbrev Heap := List (BufId × Option (List Value))

def Heap.get (h : Heap) (b : BufId) : Option (List Value) :=
  match h with
  | [] => none
  | (b', c) :: t => if b' = b then c else Heap.get t b

def Heap.put (h : Heap) (b : BufId) (c : Option (List Value)) : Heap := (b, c) :: h

/-- does reading the value through a view dereference caller memory?  (scalars are inside the variant; an empty
    `string_view` / span is never dereferenced; a C string is read up to its terminator, so at least one byte) -/
def pointsToMemory : Value → Bool
  | .cstr _ => true
  | .str s => !s.isEmpty
  | .bools l => !l.isEmpty
  | .i32s l => !l.isEmpty
  | .i64s l => !l.isEmpty
  | .u32s l => !l.isEmpty
  | .f64s l => !l.isEmpty
  | .strs l => !l.isEmpty
  | .u64s l => !l.isEmpty
  | .bytes l => !l.isEmpty
  | _ => false

/-- a stored `AttributeValue`: the variant as it was copied at `SetBody` / `SetAttribute` time; for strings and arrays it
    is a view of cell `buf`, element `idx` -/
structure Stored where
  buf : BufId
  idx : Nat
  atSet : Value
  deriving DecidableEq, Repr

/-- what a reader of a stored value gets -/
inductive Read where
  | ok (v : Value)
  /-- the view points into freed caller memory (heap-use-after-free) -/
  | uaf
  deriving DecidableEq, Repr

/-- dereference a stored value against the caller's memory as it is *now* -/
def Stored.read (h : Heap) (s : Stored) : Read :=
  if pointsToMemory s.atSet then
    match h.get s.buf with
    | none => .uaf
    | some cell =>
      match cell[s.idx]? with
      | some v => .ok v
      | none => .uaf
  else .ok s.atSet

/-- overwrite the caller's bytes in place (same sizes): every string byte becomes 'X' (a C string only up to its
    terminator), every number the pattern 0x58…58, every bool is flipped -/
def scribbleValue : Value → Value
  | .cstr buf => .cstr ((cString buf).map (fun _ => 0x58) ++ buf.drop (cString buf).length)
  | .str s => .str (s.map fun _ => 0x58)
  | .bools l => .bools (l.map (!·))
  | .i32s l => .i32s (l.map fun _ => 0x58585858)
  | .i64s l => .i64s (l.map fun _ => 0x5858585858585858)
  | .u32s l => .u32s (l.map fun _ => 0x58585858)
  | .f64s l => .f64s (l.map fun _ => 0x5858585858585858)
  | .strs l => .strs (l.map fun s => s.map fun _ => 0x58)
  | .u64s l => .u64s (l.map fun _ => 0x5858585858585858)
  | .bytes l => .bytes (l.map fun _ => 0x58)
  | v => v

structure Scope where
  name : Bytes
  version : Bytes
  schema : Bytes
  deriving DecidableEq, Repr

/-- trace identity: trace id, span id, flags -/
structure Identity where
  traceId : Bytes
  spanId : Bytes
  flags : UInt8
  deriving DecidableEq, Repr

def zeroIdentity : Identity := ⟨List.replicate 16 0, List.replicate 8 0, 0⟩

/-- `ReadWriteLogRecord` with its constructor's defaults -/
structure Record where
  severity : Nat := 0
  /-- `body_`, initially an empty `string_view` -/
  body : Stored := ⟨0, 0, .str []⟩
  /-- `attributes_map_`: owned `std::string` keys, non-owning values; pairwise distinct keys -/
  attrs : List (Bytes × Stored) := []
  timestamp : Int := 0
  eventId : Int := 0
  eventName : Bytes := []
  /-- `trace_state_`: allocated by the first identity setter (`none` = nullptr, getters then return zeros) -/
  trace : Option Identity := none
  resource : Option Bytes := none
  scope : Option Scope := none
  deriving DecidableEq, Repr

/-- the arguments `EmitLogRecord(args…)` understands, by the `LogRecordSetterTrait` each type selects -/
inductive Arg where
  | severity (n : Nat)
  /-- `EventId(id)` / `EventId(id, name)` (the name is kept as a C string inside `EventId`) -/
  | eventId (id : Int) (name : Option Bytes)
  | spanContext (tid sid : Bytes) (fl : UInt8)
  | spanId (sid : Bytes)
  | traceId (tid : Bytes)
  | traceFlags (fl : UInt8)
  /-- `common::SystemTimestamp` or `std::chrono::system_clock::time_point` -/
  | timestamp (t : Int)
  /-- a `KeyValueIterable` (or key-value container) whose values live in caller cell `buf` -/
  | attributes (buf : BufId) (kvs : List (Bytes × Value))
  /-- anything convertible to `nostd::string_view` / `AttributeValue`, living in caller cell `buf` -/
  | body (buf : BufId) (v : Value)
  deriving DecidableEq, Repr

def setAttr (k : Bytes) (s : Stored) : List (Bytes × Stored) → List (Bytes × Stored)
  | [] => [(k, s)]
  | (k', s') :: t => if k' = k then (k, s) :: t else (k', s') :: setAttr k s t

def lookupAttr (k : Bytes) : List (Bytes × Stored) → Option Stored
  | [] => none
  | (k', s) :: t => if k' = k then some s else lookupAttr k t

def Record.identity (r : Record) : Identity := r.trace.getD zeroIdentity

/-- `SetAttribute` for every pair of the iterable, in iteration order; pair `i` is a view of element `i` of the cell -/
def setAttrsFrom (buf : BufId) : Nat → List (Bytes × Value) → List (Bytes × Stored) → List (Bytes × Stored)
  | _, [], m => m
  | i, (k, v) :: t, m => setAttrsFrom buf (i + 1) t (setAttr k ⟨buf, i, v⟩ m)

/-- the typed setter of one argument (`LogRecordSetterTrait<T>::Set` → the `ReadWriteLogRecord` setter) -/
def Record.set (r : Record) : Arg → Record
  | .severity n => { r with severity := n }
  | .eventId id name => { r with eventId := id, eventName := cString (name.getD []) }
  | .spanContext tid sid fl => { r with trace := some ⟨tid, sid, fl⟩ }
  | .spanId sid => { r with trace := some { r.identity with spanId := sid } }
  | .traceId tid => { r with trace := some { r.identity with traceId := tid } }
  | .traceFlags fl => { r with trace := some { r.identity with flags := fl } }
  | .timestamp t => { r with timestamp := t }
  | .attributes buf kvs => { r with attrs := setAttrsFrom buf 0 kvs r.attrs }
  | .body buf v => { r with body := ⟨buf, 0, v⟩ }

/-- the caller memory an argument lives in -/
def Arg.alloc (h : Heap) : Arg → Heap
  | .attributes buf kvs => h.put buf (some (kvs.map (·.2)))
  | .body buf v => h.put buf (some [v])
  | _ => h

/-- the argument pack: a left-to-right fold of the typed setters -/
def Record.setAll (r : Record) (args : List Arg) : Record := args.foldl Record.set r

/-- what an exporter sees when it reads a record (at `Export` time) -/
structure Seen where
  severity : Nat
  body : Read
  attrs : List (Bytes × Read)
  timestamp : Int
  eventId : Int
  eventName : Bytes
  identity : Identity
  resource : Option Bytes
  scope : Option Scope
  deriving DecidableEq, Repr

def Record.see (h : Heap) (r : Record) : Seen :=
  { severity := r.severity, body := r.body.read h, attrs := r.attrs.map fun kv => (kv.1, kv.2.read h),
    timestamp := r.timestamp, eventId := r.eventId, eventName := r.eventName, identity := r.identity,
    resource := r.resource, scope := r.scope }

inductive ProcKind where
  | simple
  | batch
  deriving DecidableEq, Repr

structure Proc where
  kind : ProcKind
  /-- number of `OnEmit` calls -/
  onEmit : Nat := 0
  /-- batch processor: records handed over, not yet exported -/
  queue : List Record := []
  /-- exporter log: one entry per `Export` call: what it read from each record of the batch -/
  exports : List (List Seen) := []
  deriving DecidableEq, Repr

/-- `SimpleLogRecordProcessor::OnEmit` exports `[record]` at once (reading the caller memory as it is now);
    `BatchLogRecordProcessor::OnEmit` queues it -/
def Proc.emit (h : Heap) (p : Proc) (r : Record) : Proc :=
  match p.kind with
  | .simple => { p with onEmit := p.onEmit + 1, exports := p.exports ++ [[r.see h]] }
  | .batch => { p with onEmit := p.onEmit + 1, queue := p.queue ++ [r] }

/-- `ForceFlush`: a batch processor exports everything queued in one `Export` call, reading caller memory as it is now -/
def Proc.flush (h : Heap) (p : Proc) : Proc :=
  match p.kind, p.queue with
  | .batch, q@(_ :: _) => { p with queue := [], exports := p.exports ++ [q.map (·.see h)] }
  | _, _ => p

/-- a log record object in the program's hands -/
inductive Slot where
  /-- `MultiRecordable` made by the enabled logger: one child per processor -/
  | live (children : List Record)
  /-- `NoopLogRecord` made by a disabled logger: every setter is a no-op -/
  | noop
  deriving DecidableEq, Repr

structure Cfg where
  procs : List ProcKind
  resource : Bytes
  scope : Scope

structure State where
  cfg : Cfg
  /-- per thread, the stack of attached contexts' spans (top first); no entry / empty = no active span -/
  stacks : List (ThreadId × List Identity)
  /-- records created and not yet emitted -/
  records : List (RecId × Slot)
  heap : Heap
  procs : List Proc

def init (c : Cfg) : State :=
  { cfg := c, stacks := [], records := [], heap := [], procs := c.procs.map fun k => { kind := k } }

def stackOf (st : List (ThreadId × List Identity)) (t : ThreadId) : List Identity :=
  match st with
  | [] => []
  | (t', s) :: rest => if t' = t then s else stackOf rest t

def setStack (st : List (ThreadId × List Identity)) (t : ThreadId) (s : List Identity) : List (ThreadId × List Identity) :=
  (t, s) :: st.filter (·.1 ≠ t)

/-- the span that is active on thread `t` -/
def activeSpan (s : State) (t : ThreadId) : Option Identity := (stackOf s.stacks t).head?

def findRec (rs : List (RecId × Slot)) (r : RecId) : Option Slot :=
  match rs with
  | [] => none
  | (r', s) :: t => if r' = r then some s else findRec t r

def eraseRec (rs : List (RecId × Slot)) (r : RecId) : List (RecId × Slot) := rs.filter (·.1 ≠ r)

/-- `Logger::CreateLogRecord` of the enabled logger on thread `t`: `MakeRecordable`, then — if the current context has a
    span — `SetTraceId`, `SetTraceFlags`, `SetSpanId` from it, on every child -/
def createLive (s : State) (t : ThreadId) : List Record :=
  let r0 : Record := {}
  let r := match activeSpan s t with
    | none => r0
    | some sp => ((r0.set (.traceId sp.traceId)).set (.traceFlags sp.flags)).set (.spanId sp.spanId)
  s.cfg.procs.map fun _ => r

/-- `MultiLogRecordProcessor::OnEmit`: release one child per processor, in processor order -/
def deliver (h : Heap) : List Proc → List Record → List Proc
  | [], _ => []
  | p :: ps, [] => p :: ps
  | p :: ps, r :: rs => p.emit h r :: deliver h ps rs

/-- `Logger::EmitLogRecord(unique_ptr&&)` of the enabled logger: resource and scope, then the processor -/
def emitLive (s : State) (children : List Record) : State :=
  let cs := children.map fun r => { r with resource := some s.cfg.resource, scope := some s.cfg.scope }
  { s with procs := deliver s.heap s.procs cs }

/-- which record an `EmitLogRecord` call is given -/
inductive Target where
  /-- `EmitLogRecord(args…)`: the logger creates the record itself (on the calling thread) -/
  | fresh
  /-- `EmitLogRecord(std::move(rec), args…)` with a record created earlier -/
  | existing (r : RecId)
  /-- `EmitLogRecord(nullptr, args…)` -/
  | null
  deriving DecidableEq, Repr

inductive Op where
  /-- attach a context whose active span is this one, on thread `t` -/
  | push (t : ThreadId) (sp : Identity)
  /-- detach the most recently attached context of thread `t` -/
  | pop (t : ThreadId)
  /-- `r := logger.CreateLogRecord()` on thread `t`; `enabled = false`: through the disabled logger -/
  | create (t : ThreadId) (enabled : Bool) (r : RecId)
  /-- one typed setter on a record in hand -/
  | set (r : RecId) (a : Arg)
  /-- `logger.EmitLogRecord([record,] args…)` on thread `t` -/
  | emit (t : ThreadId) (enabled : Bool) (target : Target) (args : List Arg)
  /-- the caller overwrites / frees the memory of one of its earlier arguments -/
  | scribble (b : BufId)
  | free (b : BufId)
  /-- `LoggerProvider::ForceFlush` -/
  | flush
  deriving DecidableEq, Repr

/-- apply the argument pack to a record in hand and emit it; the arguments' caller cells exist from now on -/
def emitSlot (s : State) (slot : Slot) (args : List Arg) : State :=
  let s := { s with heap := args.foldl Arg.alloc s.heap }
  match slot with
  | .noop => s
  | .live children => emitLive s (children.map (·.setAll args))

def step (s : State) : Op → State
  | .push t sp => { s with stacks := setStack s.stacks t (sp :: stackOf s.stacks t) }
  | .pop t => { s with stacks := setStack s.stacks t (stackOf s.stacks t).tail }
  | .create t enabled r =>
    { s with records := (r, if enabled then Slot.live (createLive s t) else Slot.noop) :: eraseRec s.records r }
  | .set r a =>
    let s := { s with heap := a.alloc s.heap }
    match findRec s.records r with
    | some (.live children) => { s with records := (r, Slot.live (children.map (·.set a))) :: eraseRec s.records r }
    | _ => s
  | .emit t enabled target args =>
    match target with
    | .null => s
    | .fresh => emitSlot s (if enabled then Slot.live (createLive s t) else Slot.noop) args
    | .existing r =>
      match findRec s.records r with
      | none => s
      | some slot => emitSlot { s with records := eraseRec s.records r } slot args
  | .scribble b =>
    match s.heap.get b with
    | none => s
    | some cell => { s with heap := s.heap.put b (some (cell.map scribbleValue)) }
  | .free b => { s with heap := s.heap.put b none }
  | .flush => { s with procs := s.procs.map (Proc.flush s.heap) }

def exec (s : State) (ops : List Op) : State := ops.foldl step s

/-- a whole case: the program, then a final `ForceFlush` (caller memory is released only afterwards) -/
def run (c : Cfg) (ops : List Op) : State := exec (init c) (ops ++ [.flush])

end Otel.LogRecord
