import OtelVerif.Model.Basic
import OtelVerif.Gen.C18
/-! `sdk/src/resource/resource.cc`, `resource_detector.cc`: `Resource::Merge`, `Resource::Create`,
    `OTELResourceDetector::Detect`.

`ResourceAttributes` is an `unordered_map<string, OwnedAttributeValue>`: modelled as an association list read through
`lookup` (first entry of a key); every operation below keeps "first entry = the map's entry".  Attribute values are
opaque except that `Resource::Create` needs to know whether `process.executable.name` holds a string. -/
namespace Otel.Resource

/-- an `OwnedAttributeValue`: a string, or anything else (kept as the token that denotes it) -/
inductive Val where
  | str (b : Bytes)
  | other (tok : String)
  deriving Repr, DecidableEq

abbrev Attrs := List (Bytes × Val)

def lookup (m : Attrs) (k : Bytes) : Option Val :=
  match m with
  | [] => none
  | (k', v) :: rest => if k' = k then some v else lookup rest k

/-- `m[k] = v` (insert or assign) -/
def set (m : Attrs) (k : Bytes) (v : Val) : Attrs :=
  match m with
  | [] => [(k, v)]
  | (k', v') :: rest => if k' = k then (k, v) :: rest else (k', v') :: set rest k v

/-- `unordered_map::insert(value)`: keeps an existing entry -/
def insertNew (m : Attrs) (kv : Bytes × Val) : Attrs :=
  match lookup m kv.1 with
  | some _ => m
  | none => m ++ [kv]

structure Res where
  attrs : Attrs
  schema : Bytes
  deriving Repr, DecidableEq

/-- `a.Merge(b)`: copy `b`'s attributes, `insert` all of `a`'s (existing keys win), `b`'s schema URL unless empty -/
def merge (a b : Res) : Res :=
  ⟨a.attrs.foldl insertNew b.attrs, if b.schema.isEmpty then a.schema else b.schema⟩

def defaultRes : Res := ⟨Gen.resDefaultAttrs.map fun kv => (kv.1, Val.str kv.2), []⟩

/-! ### OTELResourceDetector -/

/-- successive `std::getline(iss, token, sep)` results: the pieces between separators; no piece after a final separator -/
def getlines (sep : UInt8) : Nat → Bytes → List Bytes
  | 0, _ => []
  | _, [] => []
  | fuel + 1, s =>
    match takeTok sep s with
    | (tok, none) => [tok]
    | (tok, some rest) => tok :: getlines sep fuel rest

def tokens (s : Bytes) : List Bytes := getlines Gen.resListSep s.length s

/-- `pos = token.find('=')`; `key = substr(0,pos)`, `value = substr(pos+1)`; tokens without `=` are skipped -/
def parseAttrs (s : Bytes) : Attrs :=
  (tokens s).foldl (fun m tok =>
    match takeTok Gen.resKvSep tok with
    | (_, none) => m
    | (k, some v) => set m k (Val.str v)) []

/-- `GetStringEnvironmentVariable`: set and non-empty -/
def envString : Option Bytes → Option Bytes
  | none => none
  | some s => if s.isEmpty then none else some s

/-- `OTELResourceDetector::Detect()` for the two environment values -/
def detect (envAttrs envService : Option Bytes) : Res :=
  let m := match envString envAttrs with
    | some s => parseAttrs s
    | none => []
  let m := match envString envService with
    | some n => set m Gen.resServiceNameKey (Val.str n)
    | none => m
  ⟨m, []⟩

/-- the `service.name` `Resource::Create` falls back to -/
def fallbackServiceName (m : Attrs) : Bytes :=
  match lookup m Gen.resProcessExeKey with
  | some (Val.str exe) => Gen.resUnknownService ++ Gen.resUnknownServiceSep ++ exe
  | _ => Gen.resUnknownService       -- absent, or not a string (D61 fix: no `get<std::string>` on another alternative)

/-- `Resource::Create(user attrs, schema)` given what the detector found in the environment -/
def create (env user : Res) : Res :=
  let r := merge (merge defaultRes env) user
  match lookup r.attrs Gen.resServiceNameKey with
  | some _ => r
  | none => { r with attrs := set r.attrs Gen.resServiceNameKey (Val.str (fallbackServiceName r.attrs)) }

/-- build a map the way the harness does: `m[k] = v` for each pair in order -/
def ofList (kvs : List (Bytes × Val)) : Attrs := kvs.foldl (fun m kv => set m kv.1 kv.2) []

/-! ### a store of resources, to state "Merge leaves its operands unchanged" over histories -/

inductive Op where
  | mk (attrs : List (Bytes × Val)) (schema : Bytes)
  | merge (i j : Nat)
  deriving Repr

/-- every operation only appends a new resource (or does nothing when an index is out of range) -/
def step (st : List Res) : Op → List Res
  | .mk a s => st ++ [⟨ofList a, s⟩]
  | .merge i j =>
    match st[i]?, st[j]? with
    | some a, some b => st ++ [merge a b]
    | _, _ => st

def run (st : List Res) (ops : List Op) : List Res := ops.foldl step st

end Otel.Resource
