import OtelVerif.Model.Ring
/-! # The lock protocol of `sdk/src/metrics/state/observable_registry.cc`

Any number of threads call `AddCallback`, `RemoveCallback`, `CleanupCallback` (from `~ObservableInstrument`) and `Observe`
of ONE registry.  One step = one of the accesses the code performs: acquire `callbacks_m_` (`std::lock_guard`), append to /
erase from `callbacks_`, test the loop condition of `Observe` on the LIVE vector and invoke the callback of the current
record, return from a callback, release the mutex.  A registration is the pair (instrument, callback); `Observe` walks the
vector by position.  `Props/C17Race.lean` proves, for every interleaving, that the vector does not change while an
`Observe` runs, that an `Observe` invokes exactly the registered callbacks (each as often as it is registered), and that a
callback whose `RemoveCallback` / `CleanupCallback` has returned is never begun again unless it is re-added.  The step
structure (every function holds `callbacks_m_` from before its first use of `callbacks_` to its return; `Observe` invokes
inside its loop over the live vector) is tied to the source text by `Gen/ObsRegLock.lean` (`tools/gen_c04race.py`). -/
namespace Otel.ObsRegLock
open Otel.Ring (upd upd_same upd_other)

/-- a registration: (instrument, callback + state) -/
structure Reg where
  inst : Nat
  cb : Nat
  deriving DecidableEq, Repr

inductive Op where
  | add (r : Reg)
  | remove (r : Reg)
  | cleanup (i : Nat)
  | observe
  deriving DecidableEq, Repr

/-- program counter of one thread.  Ghosts of an `Observe` in progress: `snap` = `callbacks_` when it took the lock,
    `inv` = the callbacks it has begun so far -/
inductive Pc where
  | idle
  | aLock (r : Reg)
  | aPush (r : Reg)                         -- holds the mutex: about to `callbacks_.push_back`
  | aUnlock (r : Reg)
  | rLock (r : Reg)
  | rErase (r : Reg)                        -- holds the mutex: about to `remove_if` + `erase`
  | rUnlock (r : Reg)
  | cLock (i : Nat)
  | cErase (i : Nat)
  | cUnlock (i : Nat)
  | oLock
  | oLoop (k : Nat) (snap inv : List Reg)   -- holds the mutex: about to test the loop condition at position `k`
  | oCb (k : Nat) (snap inv : List Reg) (r : Reg)   -- inside the callback of the record at position `k`
  | oUnlock (snap inv : List Reg)
  deriving DecidableEq, Repr

structure St where
  lock : Option Nat                         -- holder of `callbacks_m_`
  cbs : List Reg                            -- `callbacks_`
  pc : Nat → Pc
  begun : List Reg                          -- ghost: every callback invocation begun so far, in order

inductive Act where
  | call (t : Nat) (op : Op)
  | step (t : Nat)
  deriving Repr

def call (s : St) (t : Nat) (op : Op) : Option St :=
  match s.pc t with
  | .idle =>
    match op with
    | .add r => some { s with pc := upd s.pc t (.aLock r) }
    | .remove r => some { s with pc := upd s.pc t (.rLock r) }
    | .cleanup i => some { s with pc := upd s.pc t (.cLock i) }
    | .observe => some { s with pc := upd s.pc t .oLock }
  | _ => none

def step (s : St) (t : Nat) : Option St :=
  match s.pc t with
  | .idle => none
  | .aLock r => if s.lock = none then some { s with lock := some t, pc := upd s.pc t (.aPush r) } else none
  | .aPush r => some { s with cbs := s.cbs ++ [r], pc := upd s.pc t (.aUnlock r) }
  | .aUnlock _ => some { s with lock := none, pc := upd s.pc t .idle }
  | .rLock r => if s.lock = none then some { s with lock := some t, pc := upd s.pc t (.rErase r) } else none
  | .rErase r => some { s with cbs := s.cbs.filter (fun x => x ≠ r), pc := upd s.pc t (.rUnlock r) }
  | .rUnlock _ => some { s with lock := none, pc := upd s.pc t .idle }
  | .cLock i => if s.lock = none then some { s with lock := some t, pc := upd s.pc t (.cErase i) } else none
  | .cErase i => some { s with cbs := s.cbs.filter (fun x => x.inst ≠ i), pc := upd s.pc t (.cUnlock i) }
  | .cUnlock _ => some { s with lock := none, pc := upd s.pc t .idle }
  | .oLock => if s.lock = none then some { s with lock := some t, pc := upd s.pc t (.oLoop 0 s.cbs []) } else none
  | .oLoop k snap inv =>
    match s.cbs[k]? with
    | some r => some { s with begun := s.begun ++ [r], pc := upd s.pc t (.oCb k snap (inv ++ [r]) r) }
    | none => some { s with pc := upd s.pc t (.oUnlock snap inv) }
  | .oCb k snap inv _ => some { s with pc := upd s.pc t (.oLoop (k + 1) snap inv) }
  | .oUnlock _ _ => some { s with lock := none, pc := upd s.pc t .idle }

def act (s : St) : Act → Option St
  | .call t op => call s t op
  | .step t => step s t

def init (regs : List Reg) : St := { lock := none, cbs := regs, pc := fun _ => .idle, begun := [] }

def run (s : St) : List Act → Option St
  | [] => some s
  | a :: as => match act s a with
    | some s' => run s' as
    | none => none

/-- is this action the `push_back` of registration `r`? -/
def isPush (s : St) (r : Reg) : Act → Bool
  | .step t => s.pc t == .aPush r
  | .call _ _ => false

/-- `run`, refusing every `push_back` of `r`: executions in which `r` is not re-added -/
def runAvoid (r : Reg) (s : St) : List Act → Option St
  | [] => some s
  | a :: as => if isPush s r a then none else match act s a with
    | some s' => runAvoid r s' as
    | none => none

/-! ## Refinement map: the events of a real execution under the deterministic scheduler -/

inductive EvKind where
  | call (op : Op)
  | lock
  | cbBegin (r : Reg)
  | cbEnd (r : Reg)
  | unlock
  | ret
  deriving DecidableEq, Repr

structure Ev where
  t : Nat
  k : EvKind
  deriving Repr

def isOUnlock : Pc → Bool
  | .oUnlock _ _ => true
  | _ => false

def isOCbOf (r : Reg) : Pc → Bool
  | .oCb _ _ _ r' => r == r'
  | _ => false

def guardPc (p : Pc → Bool) (t : Nat) (s : Option St) : Option St :=
  match s with
  | some s' => if p (s'.pc t) then some s' else none
  | none => none

def astep (s : St) (e : Ev) : Option St :=
  let t := e.t
  match s.pc t, e.k with
  | .idle, .call op => call s t op
  | .idle, .ret => some s                                                              -- every function returns at its unlock
  | .aLock _, .lock => (step s t).bind fun s1 => step s1 t                             -- lock, then push_back
  | .aUnlock _, .unlock => step s t
  | .rLock _, .lock => (step s t).bind fun s1 => step s1 t                             -- lock, then remove_if + erase
  | .rUnlock _, .unlock => step s t
  | .cLock _, .lock => (step s t).bind fun s1 => step s1 t
  | .cUnlock _, .unlock => step s t
  | .oLock, .lock => step s t
  | .oLoop _ _ _, .cbBegin r => guardPc (isOCbOf r) t (step s t)
  | .oCb _ _ _ r', .cbEnd r => if r == r' then step s t else none
  | .oLoop _ _ _, .unlock =>                                                            -- the loop ends, then the unlock
    (guardPc isOUnlock t (step s t)).bind fun s1 => step s1 t
  | _, _ => none

def arun (s : St) : List Ev → Option St
  | [] => some s
  | e :: es => match astep s e with
    | some s' => arun s' es
    | none => none

end Otel.ObsRegLock
