import OtelVerif.Model.Ring
/-! The ring buffer driven exactly as the C11 harness drives the real `CircularBuffer`: producer threads doing a
    fixed number of `Add`s, one consumer thread doing rounds of `n = min(size(), creq); Consume(n, cb)`, every
    atomic access one step.  Producer steps *are* `Ring.step` actions; the consumer's loads are extra steps that
    leave the `Ring.St` untouched, its `tail_ += n` is `Ring.cTake`, its slot exchanges are `Ring.cClear`. -/
namespace Otel.RingFine
open Otel.Ring

inductive CPc where
  | idle | szTail | szHead (t : Nat) | pkTail (n : Nat) | pkHead (n t : Nat) | adv (n : Nat) | clearing
  deriving DecidableEq, Repr

structure St where
  r       : Ring.St
  cpc     : CPc
  creq    : Nat              -- elements requested per consumer round
  rounds  : Nat              -- consumer rounds not yet begun
  cstart  : Bool             -- consumer thread has executed its start step
  nprod   : Nat
  pstart  : Nat → Bool       -- producer thread has executed its start step
  adds    : Nat → Nat        -- `Add` calls not yet begun, per producer
  rets    : List (Nat × Bool) -- (element id, result) in return order

def init (maxSize nprod adds creq rounds : Nat) : St :=
  { r := Ring.init (maxSize + 1), cpc := .idle, creq := creq, rounds := rounds, cstart := false, nprod := nprod,
    pstart := fun _ => false, adds := fun _ => adds, rets := [] }

def showSlot : Option Nat → String
  | none => "null"
  | some e => s!"e{e}"

def prodFinished (s : St) (p : Nat) : Bool := s.pstart p && (s.r.prods p).pc == .idle && s.adds p == 0
def consFinished (s : St) : Bool := s.cstart && s.cpc == .idle && s.rounds == 0

/-- suffix of the trace of a producer step that returns from `Add` -/
def retNote (s : St) (p : Nat) (ok : Bool) : String :=
  (if ok then ",ret 1" else ",ret 0") ++ (if s.adds p == 0 then ",end" else "")

/-- one producer step.  `none` = the action is not enabled (thread finished / not a producer). -/
def stepProd (s : St) (p : Nat) (spur : Bool) : Option (St × String) :=
  if p ≥ s.nprod then none
  else if !s.pstart p then
    some ({ s with pstart := upd s.pstart p true }, if s.adds p == 0 then "end" else "-")
  else
    let pr := s.r.prods p
    match pr.pc with
    | .idle =>
      if s.adds p == 0 then none
      else match Ring.step s.r (.pStart p) with
        | some r' => some ({ s with r := r', adds := upd s.adds p (s.adds p - 1) }, s!"begin e{s.r.nextId}")
        | none => none
    | .ldTail => match Ring.step s.r (.pLdTail p) with
        | some r' => some ({ s with r := r' }, s!"ld tail {s.r.tail}")
        | none => none
    | .ldHead t => match Ring.step s.r (.pLdHead p) with
        | some r' =>
          if s.r.head - t ≥ s.r.cap - 1 then
            some ({ s with r := r', rets := s.rets ++ [(pr.elem, false)] }, s!"ld head {s.r.head}" ++ retNote s p false)
          else some ({ s with r := r' }, s!"ld head {s.r.head}")
        | none => none
    | .swap _ h => match Ring.step s.r (.pSwap p spur) with
        | some r' =>
          let k := h % s.r.cap
          let res := if s.r.slots k = none then (if spur then "spur" else "ok") else "no"
          some ({ s with r := r' }, s!"casw s{k} null e{pr.elem} {res}")
        | none => none
    | .cas h => match Ring.step s.r (.pCas p spur) with
        | some r' =>
          if s.r.head = h ∧ spur = false then
            some ({ s with r := r', rets := s.rets ++ [(pr.elem, true)] }, s!"casw head {h} {h + 1} ok" ++ retNote s p true)
          else
            some ({ s with r := r' }, s!"casw head {h} {h + 1} " ++ (if s.r.head = h then "spur" else "no"))
        | none => none
    | .undo h => match Ring.step s.r (.pUndo p) with
        | some r' => some ({ s with r := r' }, s!"xchg s{h % s.r.cap} null {showSlot (s.r.slots (h % s.r.cap))}")
        | none => none

def roundEnd (s : St) : String := if s.rounds == 0 then ",end" else ""

/-- one consumer step -/
def stepCons (s : St) : Option (St × String) :=
  if !s.cstart then some ({ s with cstart := true }, if s.rounds == 0 then "end" else "-")
  else match s.cpc with
    | .idle => if s.rounds == 0 then none else some ({ s with cpc := .szTail, rounds := s.rounds - 1 }, "cround")
    | .szTail => some ({ s with cpc := .szHead s.r.tail }, s!"ld tail {s.r.tail}")
    | .szHead t =>
      let n := min (s.r.head - t) s.creq
      if n == 0 then some ({ s with cpc := .idle }, s!"ld head {s.r.head}" ++ roundEnd s)
      else some ({ s with cpc := .pkTail n }, s!"ld head {s.r.head}")
    | .pkTail n => some ({ s with cpc := .pkHead n s.r.tail }, s!"ld tail {s.r.tail}")
    | .pkHead n _ => some ({ s with cpc := .adv n }, s!"ld head {s.r.head}")
    | .adv n => match Ring.step s.r (.cTake n) with
      | some r' => some ({ s with r := r', cpc := .clearing }, s!"fadd tail {n} {s.r.tail}")
      | none => none
    | .clearing => match Ring.step s.r .cClear with
      | some r' =>
        let k := s.r.clr % s.r.cap
        let fin := r'.clr == r'.tail
        some ({ s with r := r', cpc := if fin then .idle else .clearing },
              s!"xchg s{k} null {showSlot (s.r.slots k)}" ++ (if fin then roundEnd s else ""))
      | none => none

/-- thread `i`: producers `0 … nprod-1`, the consumer is thread `nprod` -/
def stepThread (s : St) (i : Nat) (spur : Bool) : Option (St × String) :=
  if i < s.nprod then stepProd s i spur else if i = s.nprod then stepCons s else none

def threadFinished (s : St) (i : Nat) : Bool := if i < s.nprod then prodFinished s i else consFinished s

/-- the harness's end-of-case drain: round-robin, one step per unfinished thread, until all have finished -/
def drain : Nat → St × List String → St × List String
  | 0, s => s
  | fuel + 1, (s, tr) =>
    let (s', tr') := (List.range (s.nprod + 1)).foldl (fun (acc : St × List String) i =>
      if threadFinished acc.1 i then acc else match stepThread acc.1 i false with
        | some (a, t) => (a, s!"d{i}:{t}" :: acc.2)
        | none => acc) (s, tr)
    if (List.range (s.nprod + 1)).all (threadFinished s') then (s', tr') else drain fuel (s', tr')

end Otel.RingFine
