import OtelVerif.Model.B3
import OtelVerif.Model.TabHex
/-! Model side of `Gen/TabB3.lean`: the sampling-field handling of `b3_propagator.h` and `jaeger.h` on the tabulated domains, in
    the observation encoding of `harness/tab/tab_api.cc` (`tab_b3`). -/
namespace Otel.TabModel
open Otel

def ixObs : IxRes (Option TraceContext.SpanCtx) → Nat
  | .ok o => ctxObs o
  | .fault _ => 100000

def ctxWith (f : UInt8) : TraceContext.SpanCtx :=
  { traceId := seqFrom 1 16, spanId := seqFrom 17 8, flags := f, remote := false, traceState := [] }

def b3FlagsFromHex1 (b : UInt8) : UInt8 :=
  match B3.traceFlagsFromHex [b] with
  | .ok v => v
  | .fault _ => 77
def b3FlagsFromHexShort (s : Bytes) : List Nat :=
  match B3.traceFlagsFromHex s with
  | .ok v => [v.toNat]
  | .fault _ => [100000]
def b3InjectSingleChar (f : UInt8) : UInt8 := ((B3.injectSingle (ctxWith f)).getD []).getLastD 0
def b3InjectMultiSampled (f : UInt8) : Bytes :=
  match B3.injectMulti (ctxWith f) with
  | some (_, _, s) => s
  | none => []
def b3ExtractSingleFlag (b : UInt8) : Nat := ixObs (B3.extract (tidHex ++ [45] ++ sidHex ++ [45, b]) [] [] [])
def b3ExtractMultiFlag (b : UInt8) : Nat := ixObs (B3.extract [] tidHex sidHex [b])
def jaegerGetTraceFlags (b : UInt8) : UInt8 := Jaeger.getTraceFlags b
def jaegerInjectChar (f : UInt8) : UInt8 := ((Jaeger.inject (ctxWith f)).getD []).getLastD 0
def jaegerExtractFlag1 (b : UInt8) : Nat := ixObs (Jaeger.extract (tidHex ++ [58] ++ sidHex ++ [58, 48, 58, b]))
def jaegerExtractFlagByte (v : UInt8) : Nat := ixObs (Jaeger.extract (tidHex ++ [58] ++ sidHex ++ [58, 48, 58] ++ lowerHex2 v))

end Otel.TabModel
