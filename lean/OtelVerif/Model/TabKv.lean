import OtelVerif.Model.KvTokIdx
import OtelVerif.Model.KvList
/-! Model side of `Gen/TabKv.lean`: `StringUtil::Trim` and `KeyValueStringTokenizer` (default options `,` `=`) restricted to the
    tabulated domains, in the observation encoding of `harness/tab/tab_api.cc` (`tab_trim`, `tokenize`). -/
namespace Otel.TabModel
open Otel

def natsOf (s : Bytes) : List Nat := s.map (·.toNat)

/-- a fault token of the index-explicit model never equals an observation of the code -/
def faultObs : List Nat := [100000]

def trimDrops (b : UInt8) : Bool := (trim [b]).isEmpty
def trimShort (s : Bytes) : List Nat := natsOf (trim s)
def trim3Short : Bytes → List Nat
  | l :: r :: s => match KvIdx.trim3 s l.toNat r.toNat with
    | .ok t => natsOf t
    | .fault _ => faultObs
  | _ => []

def tokObs : List (Option (Bytes × Bytes)) → List Nat
  | [] => []
  | none :: t => 0 :: tokObs t
  | some (k, v) :: t => 1 :: k.length :: (natsOf k ++ v.length :: (natsOf v ++ tokObs t))

/-- `NumTokens()` followed by the results of `next` -/
def kvTok (s : Bytes) : List Nat :=
  match KvIdx.tokens s 44 61 with
  | .ok ts => numTok 44 s :: tokObs ts
  | .fault _ => faultObs

end Otel.TabModel
