/-! Executable model of one metric stream's series storage:
    `AttributesHashMap` (sdk/include/opentelemetry/sdk/metrics/state/attributes_hashmap.h),
    `SyncMetricStorage::Record*/Collect` (state/sync_metric_storage.{h,cc}) and
    `TemporalMetricStorage::buildMetrics` (sdk/src/metrics/state/temporal_metric_storage.cc),
    generic in the key type `K` (the filtered, canonical attribute set), the aggregation state `A` and the
    measurement type `V`.  Used by C07 (`A` = histogram point) and C08 (`A` = sum).

    The model mirrors the code *with the D10 repairs applied* (fixes/D10a…, D10b…, D10c…):
    the interval table and the merged table are created with the storage's configured limit, and a series that does
    not fit into the merged table is merged into (not written over) the overflow series. -/
namespace Otel.Series

/-- the operations of an `Aggregation` the storage uses -/
structure Agg (V A : Type) where
  /-- `DefaultAggregation::CreateAggregation(...)` -/
  new : A
  /-- `Aggregate(value)` -/
  add : A → V → A
  /-- `cur.Merge(delta)` -/
  merge : A → A → A

/-- `AttributesHashMap`: `attributes_limit_` and the entries (here in insertion order; keys pairwise distinct) -/
structure Table (K A : Type) where
  limit : Nat
  entries : List (K × A)

section
variable {K A V : Type} [DecidableEq K]

def Table.empty (limit : Nat) : Table K A := { limit := limit, entries := [] }

/-- `Size()` -/
def Table.size (t : Table K A) : Nat := t.entries.length

def lookupKey (k : K) : List (K × A) → Option A
  | [] => none
  | e :: es => if e.1 = k then some e.2 else lookupKey k es

/-- `Get(k)` (`nullptr` = `none`) -/
def Table.get? (t : Table K A) (k : K) : Option A := lookupKey k t.entries

/-- `hash_map_.find(k) != end()` -/
def Table.has (t : Table K A) (k : K) : Bool := (t.get? k).isSome

/-- `IsOverflowAttributes()`: `hash_map_.size() + 1 >= attributes_limit_` -/
def Table.isOverflow (t : Table K A) : Bool := decide (t.limit ≤ t.entries.length + 1)

/-- apply `f` to the value stored under `k` -/
def updKey (k : K) (f : A → A) : List (K × A) → List (K × A)
  | [] => []
  | e :: es => if e.1 = k then (e.1, f e.2) :: es else e :: updKey k f es

/-- `GetOrSetDefault(k, cb)`: the table afterwards and the key of the entry the returned pointer refers to:
    `k` itself if present; else, at the limit, the overflow entry (created from `dflt` if missing); else a new entry. -/
def Table.resolve (ovf : K) (t : Table K A) (k : K) (dflt : A) : Table K A × K :=
  if t.has k then (t, k)
  else if t.isOverflow then
    if t.has ovf then (t, ovf) else ({ t with entries := t.entries ++ [(ovf, dflt)] }, ovf)
  else ({ t with entries := t.entries ++ [(k, dflt)] }, k)

/-- `GetOrSetDefault(k, create_default_aggregation_)->Aggregate(v)` -/
def Table.record (ag : Agg V A) (ovf : K) (t : Table K A) (k : K) (v : V) : Table K A :=
  let r := t.resolve ovf k ag.new
  { r.1 with entries := updKey r.2 (fun a => ag.add a v) r.1.entries }

/-- `hash_map_[k] = a` -/
def assign (k : K) (a : A) (es : List (K × A)) : List (K × A) :=
  if (lookupKey k es).isSome then updKey k (fun _ => a) es else es ++ [(k, a)]

/-- `Set(k, a)`: overwrite if present; else, at the limit, `hash_map_[kOverflowAttributes] = a`; else insert -/
def Table.set (ovf : K) (t : Table K A) (k : K) (a : A) : Table K A :=
  if t.has k then { t with entries := updKey k (fun _ => a) t.entries }
  else if t.isOverflow then { t with entries := assign ovf a t.entries }
  else { t with entries := t.entries ++ [(k, a)] }

/-- one step of the merge loops of `buildMetrics` (with fix D10c):
    `agg = merged->Get(k); if (agg) merged->Set(k, agg->Merge(a));
     else { slot = merged->GetOrSetDefault(k, create_default); merged->Set(k, slot->Merge(a)); }` -/
def Table.mergeEntry (ag : Agg V A) (ovf : K) (t : Table K A) (e : K × A) : Table K A :=
  match t.get? e.1 with
  | some cur => t.set ovf e.1 (ag.merge cur e.2)
  | none =>
    let r := t.resolve ovf e.1 ag.new
    match r.1.get? r.2 with
    | some slot => r.1.set ovf e.1 (ag.merge slot e.2)
    | none => r.1          -- unreachable: `resolve` returns a key that is present (`resolve_has`)

/-- `LongSumAggregation` on non-negative values: `Aggregate` adds, `Merge` adds -/
def sumAgg : Agg Int Int := { new := 0, add := fun a v => a + v, merge := fun a b => a + b }

inductive Temporality
  | delta
  | cumulative
deriving DecidableEq, Repr

/-- configuration of one stream: the aggregation, the overflow key, the configured cardinality limit, the readers'
    temporalities (reader `i` = `i`-th registered collector) and the order in which `GetAllEnteries` enumerates a hash
    table (unspecified in C++; the theorems hold for every enumeration that is a permutation of the entries). -/
structure Cfg (K A V : Type) where
  ag : Agg V A
  ovf : K
  limit : Nat
  temps : List Temporality
  iter : List (K × A) → List (K × A)

/-- `SyncMetricStorage` + its `TemporalMetricStorage` -/
structure Store (K A : Type) where
  /-- `attributes_hashmap_` -/
  cur : Table K A
  /-- `unreported_metrics_` (an entry exists once something was stashed for that collector) -/
  unreported : List (Nat × List (Table K A))
  /-- `last_reported_metrics_` -/
  last : List (Nat × Table K A)

def Store.init (c : Cfg K A V) : Store K A := { cur := Table.empty c.limit, unreported := [], last := [] }

/-- `RecordLong/RecordDouble(value, attributes)` after the attributes processor produced the key `k` -/
def Store.record (c : Cfg K A V) (s : Store K A) (k : K) (v : V) : Store K A :=
  { s with cur := s.cur.record c.ag c.ovf k v }

def lookupNat {β : Type} (r : Nat) : List (Nat × β) → Option β
  | [] => none
  | e :: es => if e.1 = r then some e.2 else lookupNat r es

def assignNat {β : Type} (r : Nat) (b : β) : List (Nat × β) → List (Nat × β)
  | [] => [(r, b)]
  | e :: es => if e.1 = r then (r, b) :: es else e :: assignNat r b es

/-- `unreported_metrics_[col].push_back(delta)` -/
def pushUnreported (r : Nat) (t : Table K A) (u : List (Nat × List (Table K A))) : List (Nat × List (Table K A)) :=
  assignNat r ((lookupNat r u).getD [] ++ [t]) u

/-- fold all entries of the tables `ts` (each enumerated by `iter`) into `m` -/
def mergeTables (c : Cfg K A V) (m : Table K A) (ts : List (Table K A)) : Table K A :=
  ts.foldl (fun m t => (c.iter t.entries).foldl (Table.mergeEntry c.ag c.ovf) m) m

/-- `Collect(collector r, collectors, …)`; the result is the point list handed to the callback
    (`none`: the callback is not invoked). -/
def Store.collect (c : Cfg K A V) (s : Store K A) (r : Nat) : Store K A × Option (List (K × A)) :=
  let delta := s.cur
  let s := { s with cur := Table.empty c.limit }
  if c.temps.length = 1 ∧ c.temps[r]? = some Temporality.delta then
    if delta.size = 0 then (s, none) else (s, some delta.entries)
  else
    let unrep := if delta.size = 0 then s.unreported
                 else (List.range c.temps.length).foldl (fun u col => pushUnreported col delta u) s.unreported
    match lookupNat r unrep with
    | none => ({ s with unreported := unrep }, none)
    | some ts =>
      let unrep := assignNat r [] unrep
      let merged := mergeTables c (Table.empty c.limit) ts
      let merged :=
        match lookupNat r s.last with
        | some lt => if c.temps[r]? = some Temporality.cumulative then mergeTables c merged [lt] else merged
        | none => merged
      ({ s with unreported := unrep, last := assignNat r merged s.last }, some merged.entries)

inductive Op (K V : Type)
  | record (k : K) (v : V)
  | collect (r : Nat)

/-- run a history; the observations are the outputs of the collects, in order, tagged with the reader -/
def Store.run (c : Cfg K A V) : Store K A → List (Op K V) → Store K A × List (Nat × Option (List (K × A)))
  | s, [] => (s, [])
  | s, Op.record k v :: ops => Store.run c (s.record c k v) ops
  | s, Op.collect r :: ops =>
    let (s', o) := s.collect c r
    let (s'', os) := Store.run c s' ops
    (s'', (r, o) :: os)

end
end Otel.Series
