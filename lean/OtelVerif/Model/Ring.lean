import OtelVerif.Model.Basic
/-! `sdk/common/circular_buffer.h` + `atomic_unique_ptr.h`: the multi-producer / single-consumer ring buffer as a
    small-step transition system, one action per atomic access (sequentially consistent), any number of producers.

    Producer `Add`: `pStart` (call begins, ghost: fresh element id) → `pLdTail` (load `tail_`) → `pLdHead` (load `head_`,
    full test `head - tail ≥ capacity_ - 1` → return false) → `pSwap` (`SwapIfNull` = weak CAS of slot `head % capacity_`
    from null; failure, also spurious, → retry) → `pCas` (weak CAS of `head_`; success → return true; failure, also
    spurious → `pUndo`) → `pUndo` (`Swap` the element back out) → retry from `pLdTail`.
    Consumer `Consume(n, cb)`: `cTake n` (`tail_ += n`; guard = the caller's contract `n ≤ head_ - tail_`, discharged for
    the fine-grained consumer in `Model/RingFine.lean`) then one `cClear` per slot (the callback's exchange with null).
    `cap` is `capacity_ = max_size + 1`. -/
namespace Otel.Ring

@[noinline] def upd {α : Type} (f : Nat → α) (i : Nat) (v : α) : Nat → α := fun j => if j = i then v else f j
@[simp] theorem upd_same {α} (f : Nat → α) (i : Nat) (v : α) : upd f i v i = v := by simp [upd]
theorem upd_other {α} (f : Nat → α) (i j : Nat) (v : α) (h : j ≠ i) : upd f i v j = f j := by simp [upd, h]

inductive PPc where
  | idle | ldTail | ldHead (t : Nat) | swap (t h : Nat) | cas (h : Nat) | undo (h : Nat)
  deriving DecidableEq, Repr

structure Prod where
  pc   : PPc := .idle
  elem : Nat := 0
  c0   : Nat := 0              -- ghost: number of elements consumed (`clr`) when the current/last `Add` began
  deriving Repr

structure St where
  cap    : Nat
  slots  : Nat → Option Nat
  head   : Nat
  tail   : Nat
  clr    : Nat                 -- consumer: next index to clear (clr ≤ tail); tailC
  prods  : Nat → Prod
  out    : List Nat
  log    : List Nat            -- ghost: commit order
  fails  : List Nat            -- ghost: elements whose Add returned false
  nextId : Nat                 -- ghost: fresh element ids = number of `Add` calls begun so far
  own    : Nat → Nat           -- ghost: which producer an element id belongs to

inductive Act where
  | pStart (p : Nat) | pLdTail (p : Nat) | pLdHead (p : Nat)
  | pSwap (p : Nat) (spur : Bool) | pCas (p : Nat) (spur : Bool) | pUndo (p : Nat)
  | cTake (n : Nat) | cClear

@[inline] def setPc (s : St) (p : Nat) (pc : PPc) : Nat → Prod := upd s.prods p { (s.prods p) with pc := pc }

def step (s : St) : Act → Option St
  | .pStart p =>
      if (s.prods p).pc = .idle then
        some { s with prods := upd s.prods p { pc := .ldTail, elem := s.nextId, c0 := s.clr }, nextId := s.nextId + 1, own := upd s.own s.nextId p }
      else none
  | .pLdTail p =>
      if (s.prods p).pc = .ldTail then some { s with prods := setPc s p (.ldHead s.tail) } else none
  | .pLdHead p =>
      match (s.prods p).pc with
      | .ldHead t =>
        if s.head - t ≥ s.cap - 1 then
          some { s with prods := setPc s p .idle, fails := (s.prods p).elem :: s.fails }
        else some { s with prods := setPc s p (.swap t s.head) }
      | _ => none
  | .pSwap p spur =>
      match (s.prods p).pc with
      | .swap _ h =>
        if s.slots (h % s.cap) = none ∧ spur = false then
          some { s with slots := upd s.slots (h % s.cap) (some (s.prods p).elem), prods := setPc s p (.cas h) }
        else some { s with prods := setPc s p .ldTail }
      | _ => none
  | .pCas p spur =>
      match (s.prods p).pc with
      | .cas h =>
        if s.head = h ∧ spur = false then
          some { s with head := h + 1, log := s.log ++ [(s.prods p).elem], prods := setPc s p .idle }
        else some { s with prods := setPc s p (.undo h) }
      | _ => none
  | .pUndo p =>
      match (s.prods p).pc with
      | .undo h => some { s with slots := upd s.slots (h % s.cap) none, prods := setPc s p .ldTail }
      | _ => none
  | .cTake n =>
      if s.clr = s.tail ∧ n ≤ s.head - s.tail then some { s with tail := s.tail + n } else none
  | .cClear =>
      if s.clr < s.tail then
        match s.slots (s.clr % s.cap) with
        | some e => some { s with slots := upd s.slots (s.clr % s.cap) none, clr := s.clr + 1, out := s.out ++ [e] }
        | none   => some { s with clr := s.clr + 1 }     -- consuming an empty slot: shown unreachable
      else none

def init (cap : Nat) : St :=
  { cap := cap, slots := fun _ => none, head := 0, tail := 0, clr := 0, prods := fun _ => {},
    out := [], log := [], fails := [], nextId := 0, own := fun _ => 0 }

end Otel.Ring
