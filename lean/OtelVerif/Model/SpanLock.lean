import OtelVerif.Model.Ring
/-! # The lock protocol of `sdk/src/trace/span.cc`

Any number of threads call the mutators (`SetAttribute`, `AddEvent`, `SetStatus`, `UpdateName`), `End` and `IsRecording`
of ONE recording span.  One step = one of the accesses the code performs: acquire `mu_` (`std::lock_guard`), test
`recordable_ == nullptr` / `has_ended_` **while holding the lock**, call the recordable's setter, hand the recordable to
`SpanProcessor::OnEnd`, release `mu_`.  The recordable is abstracted to the list of setter calls it received.
`Props/C04Race.lean` proves, for every interleaving, that no setter is called through a null `recordable_`, that the
recordable handed to `OnEnd` is exactly the log of the writes in lock-acquisition order, that `OnEnd` is called at most
once and exactly once when some `End` has returned.  The step structure (lock before check in every mutator) is tied to
the source text by `Gen/SpanLock.lean` (`tools/gen_c04race.py`). -/
namespace Otel.SpanLock
open Otel.Ring (upd upd_same upd_other)

/-- one setter call on the recordable (`k`, `v`, `id`, `code` are opaque tokens) -/
inductive Mut where
  | attr (k v : Nat)
  | event (id : Nat)
  | status (code id : Nat)
  | name (id : Nat)
  | link (id : Nat)                         -- `AddLink` (ABI v2)
  | dur                                    -- `SetDuration`, called by `End`
  deriving DecidableEq, Repr

inductive Op where
  | mutate (m : Mut)
  | endSpan
  | isRec
  deriving DecidableEq, Repr

/-- program counter of one thread.  `late` (ghost) = some `End` call had returned when this call began -/
inductive Pc where
  | idle
  | mLock (m : Mut) (late : Bool)          -- mutator called: about to lock `mu_`
  | mChk (m : Mut) (late : Bool)           -- holds `mu_`: about to test `recordable_ == nullptr`
  | mWrite (m : Mut) (late : Bool)         -- holds `mu_`, the test said non-null: about to call `recordable_->Set…`
  | mUnlock (m : Mut) (late : Bool) (applied : Bool)   -- about to release `mu_` and return
  | eLock
  | eChk                                   -- holds `mu_`: about to test `has_ended_`, set it, test `recordable_`
  | eDur                                   -- about to call `recordable_->SetDuration`
  | eHand                                  -- about to call `processor.OnEnd(std::move(recordable_))`
  | eUnlock
  | rLock (late : Bool)
  | rRead (late : Bool)                    -- holds `mu_`: about to read `recordable_ != nullptr`
  | rUnlock (late : Bool) (b : Bool)
  | rDone (late : Bool) (b : Bool)         -- `IsRecording` is about to return `b`
  deriving DecidableEq, Repr

structure St where
  lock : Option Nat                        -- holder of `mu_`
  rcd : Option (List Mut)                  -- `recordable_`: `some w` (the setter calls it received) while non-null
  hasEnded : Bool
  pc : Nat → Pc
  -- ghosts
  log : List Mut                           -- setter calls that reached a live recordable, in the order they happened
  acq : List Mut                           -- calls that acquired `mu_` while the span was still recording, in acquisition order (`End` = `dur`)
  onEnds : List (Option (List Mut))        -- what each `OnEnd` call received (newest first)
  nullDerefs : Nat                         -- setter calls through a null `recordable_`
  ender : Option Nat                       -- the thread whose `End` flipped `has_ended_`
  endBegun : Bool                          -- some `End` call has begun
  endReturned : Bool                       -- some `End` call has returned

inductive Act where
  | call (t : Nat) (op : Op)
  | step (t : Nat)
  deriving Repr

def call (s : St) (t : Nat) (op : Op) : Option St :=
  match s.pc t with
  | .idle =>
    match op with
    | .mutate m => some { s with pc := upd s.pc t (.mLock m s.endReturned) }
    | .endSpan => some { s with pc := upd s.pc t .eLock, endBegun := true }
    | .isRec => some { s with pc := upd s.pc t (.rLock s.endReturned) }
  | _ => none

/-- does a call acquiring `mu_` now find the span still recording? (ghost, for `acq`) -/
def willApply (s : St) : Bool := s.rcd.isSome

def step (s : St) (t : Nat) : Option St :=
  match s.pc t with
  | .idle => none
  | .mLock m l => if s.lock = none then some { s with lock := some t, acq := if willApply s then s.acq ++ [m] else s.acq, pc := upd s.pc t (.mChk m l) } else none
  | .mChk m l =>
    match s.rcd with
    | none => some { s with pc := upd s.pc t (.mUnlock m l false) }
    | some _ => some { s with pc := upd s.pc t (.mWrite m l) }
  | .mWrite m l =>
    match s.rcd with
    | none => some { s with nullDerefs := s.nullDerefs + 1, pc := upd s.pc t (.mUnlock m l false) }
    | some w => some { s with rcd := some (w ++ [m]), log := s.log ++ [m], pc := upd s.pc t (.mUnlock m l true) }
  | .mUnlock _ _ _ => some { s with lock := none, pc := upd s.pc t .idle }
  | .eLock => if s.lock = none then some { s with lock := some t, acq := if willApply s && !s.hasEnded then s.acq ++ [.dur] else s.acq, pc := upd s.pc t .eChk } else none
  | .eChk =>
    if s.hasEnded then some { s with pc := upd s.pc t .eUnlock }
    else match s.rcd with
      | none => some { s with hasEnded := true, pc := upd s.pc t .eUnlock }
      | some _ => some { s with hasEnded := true, ender := some t, pc := upd s.pc t .eDur }
  | .eDur =>
    match s.rcd with
    | none => some { s with nullDerefs := s.nullDerefs + 1, pc := upd s.pc t .eHand }
    | some w => some { s with rcd := some (w ++ [.dur]), log := s.log ++ [.dur], pc := upd s.pc t .eHand }
  | .eHand => some { s with onEnds := s.rcd :: s.onEnds, rcd := none, pc := upd s.pc t .eUnlock }
  | .eUnlock => some { s with lock := none, endReturned := true, pc := upd s.pc t .idle }
  | .rLock l => if s.lock = none then some { s with lock := some t, pc := upd s.pc t (.rRead l) } else none
  | .rRead l => some { s with pc := upd s.pc t (.rUnlock l s.rcd.isSome) }
  | .rUnlock l b => some { s with lock := none, pc := upd s.pc t (.rDone l b) }
  | .rDone _ _ => some { s with pc := upd s.pc t .idle }

def act (s : St) : Act → Option St
  | .call t op => call s t op
  | .step t => step s t

def init : St :=
  { lock := none, rcd := some [], hasEnded := false, pc := fun _ => .idle, log := [], acq := [], onEnds := [], nullDerefs := 0,
    ender := none, endBegun := false, endReturned := false }

def run (s : St) : List Act → Option St
  | [] => some s
  | a :: as => match act s a with
    | some s' => run s' as
    | none => none

/-! ## Refinement map: the events of a real execution under the deterministic scheduler

`call` / `lock` / `rec` (a setter reached the recordable) / `onend` / `unlock` / `ret` of thread `t`, interpreted
according to the model's program counter of `t` as one or two model steps; every value the implementation showed (which
setter with which arguments, how many entries the recordable held at `OnEnd`, what `IsRecording` returned) is compared
with the model's.  `none` = the real execution is not an execution of the model. -/

inductive EvKind where
  | call (op : Op)
  | lock
  | rcd (m : Mut)
  | onend (n : Nat)
  | unlock
  | ret (b : Option Bool)
  deriving DecidableEq, Repr

structure Ev where
  t : Nat
  k : EvKind
  deriving Repr

def guardEq (c : Bool) (s : Option St) : Option St := if c then s else none

def astep (s : St) (e : Ev) : Option St :=
  let t := e.t
  match s.pc t, e.k with
  | .idle, .call op => call s t op
  | .idle, .ret none => some s                                                         -- mutators and `End` return at their unlock
  | .mLock _ _, .lock => (step s t).bind fun s1 => step s1 t                           -- lock, then the null test under the lock
  | .mWrite m _, .rcd m' => guardEq (m == m') (step s t)
  | .mUnlock _ _ _, .unlock => step s t
  | .eLock, .lock => (step s t).bind fun s1 => step s1 t                               -- lock, then the `has_ended_` / null tests
  | .eDur, .rcd m' => guardEq (m' == .dur) (step s t)
  | .eHand, .onend n => guardEq (s.rcd.map List.length == some n) (step s t)
  | .eUnlock, .unlock => step s t
  | .rLock _, .lock => (step s t).bind fun s1 => step s1 t
  | .rUnlock _ _, .unlock => step s t
  | .rDone _ b, .ret (some b') => guardEq (b == b') (step s t)
  | _, _ => none

def arun (s : St) : List Ev → Option St
  | [] => some s
  | e :: es => match astep s e with
    | some s' => arun s' es
    | none => none

end Otel.SpanLock
