import OtelVerif.Model.Basic
/-! `instrumentationscope/scope_configurator.h` (first matching condition wins, else the default), the enabled flag of
    `Tracer` / `Meter` / `Logger`, and the lookup-or-create of `TracerProvider::GetTracer`, `MeterProvider::GetMeter`,
    `LoggerProvider::GetLogger` by scope identity. -/
namespace Otel.Scope

/-- what identifies a tracer / meter (name, version, schema URL) or a logger (additionally the logger name and the scope
    attributes, compared as a key → value map: the driver hands them over sorted by key) -/
structure Ident where
  name : Bytes
  version : Bytes
  schema : Bytes
  loggerName : Bytes
  attrs : List (Bytes × Bytes)
  deriving Repr, DecidableEq

inductive Matcher where
  | nameEq (s : Bytes)      -- `AddConditionNameEquals`
  | versionEq (s : Bytes)   -- `AddCondition` with a function of the scope
  | schemaEq (s : Bytes)
  | any
  | namePrefix (s : Bytes)
  deriving Repr, DecidableEq

def isPrefix : Bytes → Bytes → Bool
  | [], _ => true
  | _ :: _, [] => false
  | a :: p, b :: s => a == b && isPrefix p s

def Matcher.holds : Matcher → Ident → Bool
  | .nameEq s, id => id.name = s
  | .versionEq s, id => id.version = s
  | .schemaEq s, id => id.schema = s
  | .any, _ => true
  | .namePrefix p, id => isPrefix p id.name

structure Rule where
  matcher : Matcher
  enabled : Bool
  deriving Repr, DecidableEq

/-- `ScopeConfigurator::ComputeConfig`: conditions in order, first match wins, else the default -/
def computeConfig (rules : List Rule) (dflt : Bool) (id : Ident) : Bool :=
  match rules with
  | [] => dflt
  | r :: rest => if r.matcher.holds id then r.enabled else computeConfig rest dflt id

/-- provider state: the instances created so far, in creation order (each with the identity it was created for) -/
abbrev Instances := List Ident

/-- position of the first instance created for identity `id` (the `for (auto &tracer : tracers_) if (…equal(…)) return` loop) -/
def indexOf? : Instances → Ident → Option Nat
  | [], _ => none
  | x :: rest, id => if x = id then some 0 else (indexOf? rest id).map (· + 1)

/-- `Get{Tracer,Meter,Logger}`: the first existing instance with this identity, else a new one appended.
    Returns the new state and the index of the instance handed out. -/
def getInstance (st : Instances) (id : Ident) : Instances × Nat :=
  match indexOf? st id with
  | some i => (st, i)
  | none => (st ++ [id], st.length)

/-- a request: get the instance, emit one item through it; observed: which instance, and how many items were exported -/
structure Obs where
  instance_ : Nat
  exported : Nat
  deriving Repr, DecidableEq

def request (rules : List Rule) (dflt : Bool) (st : Instances) (id : Ident) : Instances × Obs :=
  let (st', i) := getInstance st id
  -- the enabled flag is computed once, when the instance is created, from the identity it was created for
  let enabled := match st'[i]? with
    | some created => computeConfig rules dflt created
    | none => dflt
  (st', ⟨i, if enabled then 1 else 0⟩)

def runRequests (rules : List Rule) (dflt : Bool) : Instances → List Ident → List Obs
  | _, [] => []
  | st, id :: rest =>
    let (st', o) := request rules dflt st id
    o :: runRequests rules dflt st' rest

end Otel.Scope
