import OtelVerif.Model.Ring
import OtelVerif.Gen.SpinLock
/-! `api/common/spin_lock_mutex.h` as a small-step transition system: one action per atomic access of `flag_`
    (`exchange`, `load`, `store`) and per `yield` / `sleep_for`; any number of threads.  The harness threads run a
    script of `lock(); <critical section>; unlock()` and `if (try_lock()) { <critical section>; unlock(); }`. -/
namespace Otel.SpinLock
open Otel.Ring (upd upd_same upd_other)

inductive Pc where
  | idle
  | lockXchg                 -- lock(): `flag_.exchange(true)` at the top of the for(;;) loop
  | spinLoad (i : Nat)       -- fast loop, iteration i: try_lock's `flag_.load()`
  | spinXchg (i : Nat)       -- … its `flag_.exchange(true)` (load saw false)
  | yielding                 -- `std::this_thread::yield()`
  | yLoad | yXchg            -- try_lock after the yield
  | sleeping                 -- `sleep_for`
  | tryLoad | tryXchg        -- a user-level try_lock()
  | holding                  -- inside the critical section
  | unlocking                -- about to `flag_.store(false)`
  deriving DecidableEq, Repr

structure St where
  flag : Bool
  pcs  : Nat → Pc
  tryResults : List (Nat × Bool × Bool)   -- ghost: (thread, value its exchange read or `true` if its load already saw true, result)

inductive Act where
  | beginLock (p : Nat) | beginTry (p : Nat) | step (p : Nat) | leave (p : Nat)

def init : St := { flag := false, pcs := fun _ => .idle, tryResults := [] }

@[inline] def setPc (s : St) (p : Nat) (pc : Pc) : Nat → Pc := upd s.pcs p pc

/-- next pc of the fast loop after a failed try_lock in iteration `i` -/
def afterSpinFail (i : Nat) : Pc := if i + 1 < Gen.spinFastIterations then .spinLoad (i + 1) else .yielding

def step (s : St) : Act → Option St
  | .beginLock p => if s.pcs p = .idle then some { s with pcs := setPc s p .lockXchg } else none
  | .beginTry p => if s.pcs p = .idle then some { s with pcs := setPc s p .tryLoad } else none
  | .leave p => if s.pcs p = .holding then some { s with pcs := setPc s p .unlocking } else none
  | .step p =>
    match s.pcs p with
    | .lockXchg =>
      if s.flag then some { s with pcs := setPc s p (if 0 < Gen.spinFastIterations then .spinLoad 0 else .yielding) }
      else some { s with flag := true, pcs := setPc s p .holding }
    | .spinLoad i => if s.flag then some { s with pcs := setPc s p (afterSpinFail i) } else some { s with pcs := setPc s p (.spinXchg i) }
    | .spinXchg i =>
      if s.flag then some { s with pcs := setPc s p (afterSpinFail i) }
      else some { s with flag := true, pcs := setPc s p .holding }
    | .yielding => some { s with pcs := setPc s p .yLoad }
    | .yLoad => if s.flag then some { s with pcs := setPc s p .sleeping } else some { s with pcs := setPc s p .yXchg }
    | .yXchg =>
      if s.flag then some { s with pcs := setPc s p .sleeping }
      else some { s with flag := true, pcs := setPc s p .holding }
    | .sleeping => some { s with pcs := setPc s p .lockXchg }
    | .tryLoad =>
      if s.flag then some { s with pcs := setPc s p .idle, tryResults := (p, true, false) :: s.tryResults }
      else some { s with pcs := setPc s p .tryXchg }
    | .tryXchg =>
      if s.flag then some { s with pcs := setPc s p .idle, tryResults := (p, true, false) :: s.tryResults }
      else some { s with flag := true, pcs := setPc s p .holding, tryResults := (p, false, true) :: s.tryResults }
    | .unlocking => some { s with flag := false, pcs := setPc s p .idle }
    | .idle => none
    | .holding => none

def run (s : St) : List Act → Option St
  | [] => some s
  | a :: as => match step s a with
    | some s' => run s' as
    | none => none

/-- thread `p` is inside the critical section (between a successful acquisition and its `store(false)`) -/
def Holds (s : St) (p : Nat) : Prop := s.pcs p = .holding ∨ s.pcs p = .unlocking

end Otel.SpinLock
