import OtelVerif.Model.Metrics.Naming
/-! Model side of `Gen/TabNaming.lean`: `ValidateName` / `ValidateUnit` of `instrument_metadata_validator.cc` on the tabulated
    domains (`harness/tab/tab_sdk.cc`, `tab_naming`). -/
namespace Otel.TabModel
open Otel

def boolNat' (b : Bool) : Nat := if b then 1 else 0
def nameValid1 (b : UInt8) : Bool := Naming.validName [b]
def nameValidA (b : UInt8) : Bool := Naming.validName [97, b]
def nameValidB (b : UInt8) : Bool := Naming.validName [b, 97]
def unitValid1 (b : UInt8) : Bool := Naming.validUnit [b]
def unitValidA (b : UInt8) : Bool := Naming.validUnit [97, b]
def nameUnitLen : Bytes → List Nat
  | [hi, lo] => let s := List.replicate (hi.toNat * 256 + lo.toNat) (97 : UInt8)
    [boolNat' (Naming.validName s), boolNat' (Naming.validUnit s)]
  | _ => []

end Otel.TabModel
