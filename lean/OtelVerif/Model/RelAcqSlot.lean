import OtelVerif.Model.RelAcq
/-! The slot hand-off of the ring buffer on the release/acquire memory of `Model/RelAcq.lean`.

`CircularBuffer::Add` publishes an element by `AtomicUniquePtr::SwapIfNull` (a compare_exchange of the slot from
`nullptr`, success order `o.casOk`) and never touches the object again unless its `head_` CAS fails, in which case it
takes back whatever is in the slot with `Swap` (`ptr_.exchange`, `o.swapX`).  The consumer's callback takes elements out
with `Swap` or `Reset` (`ptr_.exchange`, `o.swapX` / `o.resetX`).  The element itself is a **plain** object: its fields
are written by the producer before `Add` and read (and finally destroyed) by whoever ends up with the pointer.

Any number of threads and of slots; a thread is a producer or a taker from call to call.  One action per memory access:

* `start p` - a new element `e` (fresh id); `init p` - the plain write of its payload (`content e`);
* `casOk p i` - `SwapIfNull` on slot `i` succeeds: an RMW, enabled when the latest value of the slot is null, writes the
  pointer (`ptr e`); `casFail p i k spur` - it fails: a load with the failure order of message `k` (stale reads
  allowed) that is not null, or spuriously;
* `giveUp p` - `Add` returns false: the caller keeps the element (and will read / destroy it: `tread`, `tdel`);
* `commit p` - the `head_` CAS succeeded: the element belongs to the buffer;
* `undo p` - the `head_` CAS failed: `Swap` on the slot: an RMW writing null; `chk p` - the producer reads the payload of
  what it got back (in the code: it re-adds it, and its caller may look at it), then tries again;
* `take c i viaReset` - anybody exchanges slot `i` with null by `Swap` or `Reset`; `tread c` - reads the payload of what
  it got; `tdel c` - destroys it (a plain write).

Which slot a producer uses and when a taker takes is arbitrary here (in the ring it follows `head_` / `tail_`): the
hand-off argument does not depend on it.  `seen` (ghost) records every payload read: (thread, element, value). -/
namespace Otel.RelAcq.Slot
open Otel.Ring (upd upd_same upd_other)

/-- atomic location of slot `i`, plain location of the payload of element `e` -/
def slotL (i : Nat) : Nat := 2 * i
def payL (e : Nat) : Nat := 2 * e + 1
/-- pointer value of element `e` (0 = nullptr) and what its producer writes into it -/
def ptr (e : Nat) : Nat := e + 1
def content (e : Nat) : Nat := e + 1

structure Orders where
  casOk   : MO
  casFail : MO
  swapX   : MO
  resetX  : MO
  deriving DecidableEq, Repr

def genOrders : Orders :=
  { casOk := MO.ofCode Gen.moSlotCasOk
    casFail := MO.ofCode Gen.moSlotCasFail
    swapX := MO.ofCode Gen.moSlotSwapXchg
    resetX := MO.ofCode Gen.moSlotResetXchg }

/-- what the proofs need: the publishing CAS release (or stronger), both exchanges acquire (or stronger) -/
def Orders.ok (o : Orders) : Bool := o.casOk.isRel && o.swapX.isAcq && o.resetX.isAcq

inductive Pc where
  | idle
  | pInit (e : Nat)      -- producer: about to write the payload of its new element
  | pPub (e : Nat)       -- … holds e, about to SwapIfNull it into a slot
  | pPubd (i : Nat)      -- … published into slot i, between the slot CAS and the outcome of the head CAS
  | pChk (e : Nat)       -- … got e back from the undo Swap, about to read it
  | tRead (e : Nat)      -- holds e (taken out of a slot, or kept after a failed Add), about to read it
  | tDel (e : Nat)       -- … about to destroy it
  deriving DecidableEq, Repr

structure St where
  m      : Mem
  pcs    : Nat → Pc
  nextId : Nat
  seen   : List (Nat × Nat × Nat)

inductive Act where
  | start (p : Nat) | init (p : Nat)
  | casOk (p i : Nat) | casFail (p i k : Nat) (spur : Bool)
  | giveUp (p : Nat) | commit (p : Nat) | undo (p : Nat) | chk (p : Nat)
  | take (c i : Nat) (viaReset : Bool) | tread (c : Nat) | tdel (c : Nat)
  deriving Repr

def init : St := { m := Mem.init, pcs := fun _ => .idle, nextId := 0, seen := [] }

@[inline] def setPc (s : St) (p : Nat) (pc : Pc) : Nat → Pc := upd s.pcs p pc

/-- after an exchange with null returned `old` -/
def afterTake (k : Nat → Pc) (old : Nat) : Pc := if old = 0 then .idle else k (old - 1)

def step (o : Orders) (s : St) : Act → Option St
  | .start p =>
    if s.pcs p = .idle then some { s with pcs := setPc s p (.pInit s.nextId), nextId := s.nextId + 1 } else none
  | .init p =>
    match s.pcs p with
    | .pInit e => some { s with m := naWrite s.m p (payL e) (content e), pcs := setPc s p (.pPub e) }
    | _ => none
  | .casOk p i =>
    match s.pcs p with
    | .pPub e =>
      if s.m.latestVal (slotL i) = 0 then some { s with m := (rmw s.m p (slotL i) o.casOk (ptr e)).2, pcs := setPc s p (.pPubd i) }
      else none
    | _ => none
  | .casFail p i k spur =>
    match s.pcs p with
    | .pPub _ =>
      match load s.m p (slotL i) o.casFail k with
      | some (v, m') => if v ≠ 0 ∨ spur = true then some { s with m := m' } else none
      | none => none
    | _ => none
  | .giveUp p =>
    match s.pcs p with
    | .pPub e => some { s with pcs := setPc s p (.tRead e) }
    | _ => none
  | .commit p =>
    match s.pcs p with
    | .pPubd _ => some { s with pcs := setPc s p .idle }
    | _ => none
  | .undo p =>
    match s.pcs p with
    | .pPubd i => some { s with m := (rmw s.m p (slotL i) o.swapX 0).2, pcs := setPc s p (afterTake .pChk (rmw s.m p (slotL i) o.swapX 0).1) }
    | _ => none
  | .chk p =>
    match s.pcs p with
    | .pChk e => some { s with m := (naRead s.m p (payL e)).2, pcs := setPc s p (.pPub e), seen := (p, e, (naRead s.m p (payL e)).1) :: s.seen }
    | _ => none
  | .take c i viaReset =>
    if s.pcs c = .idle then
      some { s with m := (rmw s.m c (slotL i) (if viaReset then o.resetX else o.swapX) 0).2, pcs := setPc s c (afterTake .tRead (rmw s.m c (slotL i) (if viaReset then o.resetX else o.swapX) 0).1) }
    else none
  | .tread c =>
    match s.pcs c with
    | .tRead e => some { s with m := (naRead s.m c (payL e)).2, pcs := setPc s c (.tDel e), seen := (c, e, (naRead s.m c (payL e)).1) :: s.seen }
    | _ => none
  | .tdel c =>
    match s.pcs c with
    | .tDel e => some { s with m := naWrite s.m c (payL e) 0, pcs := setPc s c .idle }
    | _ => none

def run (o : Orders) (s : St) : List Act → Option St
  | [] => some s
  | a :: as => match step o s a with
    | some s' => run o s' as
    | none => none

end Otel.RelAcq.Slot
