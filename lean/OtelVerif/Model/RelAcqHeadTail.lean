import OtelVerif.Model.RelAcq
/-! `head_` / `tail_` of `CircularBuffer` on the release/acquire memory of `Model/RelAcq.lean`: which pairs of values can
    `Add` read?

`Add` loads `tail_` (order `o.addLoadTail`), then `head_` (`o.addLoadHead`), and computes `head - tail` in `uint64_t`: a pair
with `head < tail` would wrap around and look "full".  Thread 0 is the consumer (`Consume` must only be called from one
thread): it loads `head_` (`PeekImpl`, `o.peekLoadHead`), then `tail_ += n` (`o.faddTail`) for some `n ≤ head read - tail`.
Every other thread is a producer: `pLdTail p k` / `pLdHead p k` read message `k` (any message not older than the thread's
view: stale values are possible), `pCas p` is the `head_` CAS (an RMW: succeeds only on the latest value; the slot
operations between the loads and the CAS do not touch `head_` / `tail_` and are left out).  `pairs` (ghost) records every
pair (tail, head) a producer has read. -/
namespace Otel.RelAcq.HT
open Otel.Ring (upd upd_same upd_other)

def headL : Nat := 0
def tailL : Nat := 1

structure Orders where
  addLoadTail  : MO
  addLoadHead  : MO
  headCas      : MO
  faddTail     : MO
  peekLoadHead : MO
  deriving DecidableEq, Repr

def genOrders : Orders :=
  { addLoadTail := MO.ofCode Gen.moRingAddLoadTail
    addLoadHead := MO.ofCode Gen.moRingAddLoadHead
    headCas := MO.ofCode Gen.moRingHeadCasOk
    faddTail := MO.ofCode Gen.moRingConsumeFaddTail
    peekLoadHead := MO.ofCode Gen.moRingPeekLoadHead }

/-- what `head ≥ tail` needs: `tail_ += n` release (or stronger), `Add`'s load of `tail_` acquire (or stronger) -/
def Orders.ok (o : Orders) : Bool := o.faddTail.isRel && o.addLoadTail.isAcq

inductive Pc where
  | idle
  | ldHead (t : Nat)         -- producer: read tail = t, about to load head_
  | cas (t h : Nat)          -- producer: read the pair, about to CAS head_ from h
  | cFadd (hc : Nat)         -- consumer: read head = hc, about to `tail_ += n`
  deriving DecidableEq, Repr

structure St where
  m     : Mem
  pcs   : Nat → Pc
  pairs : List (Nat × Nat)

inductive Act where
  | pLdTail (p k : Nat) | pLdHead (p k : Nat) | pCas (p : Nat) | pQuit (p : Nat)
  | cLdHead (k : Nat) | cFadd (n : Nat)
  deriving Repr

def init : St := { m := Mem.init, pcs := fun _ => .idle, pairs := [] }

@[inline] def setPc (s : St) (p : Nat) (pc : Pc) : Nat → Pc := upd s.pcs p pc

def step (o : Orders) (s : St) : Act → Option St
  | .pLdTail p k =>
    if p ≠ 0 ∧ s.pcs p = .idle then
      match load s.m p tailL o.addLoadTail k with
      | some (t, m') => some { s with m := m', pcs := setPc s p (.ldHead t) }
      | none => none
    else none
  | .pLdHead p k =>
    match s.pcs p with
    | .ldHead t =>
      match load s.m p headL o.addLoadHead k with
      | some (h, m') => some { s with m := m', pcs := setPc s p (.cas t h), pairs := (t, h) :: s.pairs }
      | none => none
    | _ => none
  | .pCas p =>
    match s.pcs p with
    | .cas _ h =>
      if s.m.latestVal headL = h then some { s with m := (rmw s.m p headL o.headCas (h + 1)).2, pcs := setPc s p .idle }
      else some { s with pcs := setPc s p .idle }
    | _ => none
  | .pQuit p =>          -- the full test succeeded, or the slot CAS failed: back to the start without touching head_
    match s.pcs p with
    | .cas _ _ => some { s with pcs := setPc s p .idle }
    | _ => none
  | .cLdHead k =>
    if s.pcs 0 = .idle then
      match load s.m 0 headL o.peekLoadHead k with
      | some (hc, m') => some { s with m := m', pcs := setPc s 0 (.cFadd hc) }
      | none => none
    else none
  | .cFadd n =>
    match s.pcs 0 with
    | .cFadd hc =>
      if n ≤ hc - s.m.latestVal tailL then
        some { s with m := (rmw s.m 0 tailL o.faddTail (s.m.latestVal tailL + n)).2, pcs := setPc s 0 .idle }
      else none
    | _ => none

def run (o : Orders) (s : St) : List Act → Option St
  | [] => some s
  | a :: as => match step o s a with
    | some s' => run o s' as
    | none => none

end Otel.RelAcq.HT
