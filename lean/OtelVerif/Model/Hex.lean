import OtelVerif.Model.Basic
import OtelVerif.Gen.Hex
/-! `trace/propagation/detail/hex.h`, `detail/string.h` and the `ToLowerBase16` members. -/
namespace Otel

/-- `HexToInt(c)` as the uint8_t bit pattern of the int8_t table entry (255 = -1 = not a hex digit) -/
def hexToInt (c : UInt8) : UInt8 := Gen.kHexDigits.getD c.toNat 255

def isHexDigit (c : UInt8) : Bool := hexToInt c != 255

/-- `IsValidHex` -/
def isValidHex (s : Bytes) : Bool := s.all isHexDigit

/-- the body of the `for (; i < last_hex_pos; i += 2)` loop over consecutive pairs -/
def hexPairs : Bytes → Bytes
  | a :: b :: t => ((hexToInt a <<< 4) ||| hexToInt b) :: hexPairs t
  | _ => []

/-- `HexToBinary(hex, buffer, n)`: (return value, buffer contents afterwards).
    Too long: buffer stays zeroed and the function returns false; shorter: left padded with zeroes. -/
def hexToBinary (hex : Bytes) (n : Nat) : Bool × Bytes :=
  if hex.length > 2 * n then (false, List.replicate n 0)
  else
    let body := if hex.length % 2 = 1 then
        (match hex with | [] => [] | c :: t => hexToInt c :: hexPairs t)
      else hexPairs hex
    (true, List.replicate (n - (hex.length + 1) / 2) 0 ++ body)

/-- `SplitString(s, sep, results, count)`: the filled prefix of `results` -/
def splitString (sep : UInt8) : Nat → Bytes → List Bytes
  | 0, _ => []
  | k + 1, s =>
    match takeTok sep s with
    | (tok, none) => [tok]
    | (tok, some rest) => tok :: splitString sep k rest

def traceIdToHex (id : Bytes) : Bytes := hexOfBytes Gen.traceIdHex id
def spanIdToHex (id : Bytes) : Bytes := hexOfBytes Gen.spanIdHex id
def flagsToHex (f : UInt8) : Bytes := hexOfByte Gen.traceFlagsHex f

def allZero (bs : Bytes) : Bool := bs.all (· == 0)

end Otel
