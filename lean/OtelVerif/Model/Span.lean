import OtelVerif.Model.Attr
/-! Model of a recording SDK span and the pipeline it is exported through (C04).

Mirrors `sdk/src/trace/span.cc` (`Span::Span`, the mutators, `Span::End`, `~Span`), `span_data.h` (`SpanData` as the
`Recordable`), `multi_recordable.h` (every setter fanned out to one child per processor), `multi_span_processor.h`
(`MakeRecordable`, `OnStart`, `OnEnd` release one child per processor), `simple_processor.h` (export inside `OnEnd`) and the
externally visible behaviour of the batch processor for one span (queued at `OnEnd`, exported by the next `ForceFlush`;
its concurrent protocol is C01–C03's).

Times: `StartSpanOptions`/`EndSpanOptions` carry plain timestamps where 0 means "not given" (`NowOr`); a clock reading is
`none` here (the harness prints clock-dependent values as `now` / `auto`). -/
namespace Otel.Span
open Otel.SAttr

abbrev KVs := List (Bytes × Value)

/-- `SpanDataEvent` -/
structure Event where
  name : Bytes
  /-- `none` = `system_clock::now()` at the call -/
  ts : Option Int
  attrs : Map
  deriving DecidableEq, Repr

/-- `SpanDataLink` (span context reduced to trace id, span id, flags) -/
structure Link where
  traceId : Bytes
  spanId : Bytes
  flags : UInt8
  attrs : Map
  deriving DecidableEq, Repr

/-- instrumentation scope the tracer was obtained with: name, version, schema url and (ABI v2: `GetTracer(name, version,
    schema_url, attributes)`) the scope attributes, an `AttributeMap` built from the iterable; `none` = requested without -/
structure Scope where
  name : Bytes
  version : Bytes
  schema : Bytes
  attrs : Option Map := none
  deriving DecidableEq, Repr

/-- `SpanData`, with its default member initialisers -/
structure SpanData where
  name : Bytes := []
  kind : Nat := 0
  /-- `start_time_`; `none` = a clock reading -/
  startSys : Option Int := some 0
  /-- `duration_` in ns; `none` = depends on a clock reading -/
  duration : Option Int := some 0
  attrs : Map := []
  events : List Event := []
  links : List Link := []
  statusCode : Nat := 0
  statusDesc : Bytes := []
  /-- `resource_`: pointer to the provider's resource (identified by a tag), `none` = nullptr -/
  resource : Option Bytes := none
  /-- `instrumentation_scope_`: pointer to the tracer's scope, `none` = nullptr -/
  scope : Option Scope := none
  deriving DecidableEq, Repr

/-- the `Recordable` interface calls the span makes (identity / trace flags are C05's and left out) -/
inductive RecOp where
  | setName (n : Bytes)
  | setScope (s : Scope)
  | setAttribute (k : Bytes) (v : Value)
  | addLink (tid sid : Bytes) (flags : UInt8) (attrs : KVs)
  | setKind (k : Nat)
  | setStartTime (t : Option Int)
  | setResource (r : Bytes)
  | addEvent (name : Bytes) (ts : Option Int) (attrs : KVs)
  | setStatus (code : Nat) (desc : Bytes)
  | setDuration (d : Option Int)
  deriving DecidableEq, Repr

/-- `SpanData`'s implementation of each `Recordable` setter -/
def SpanData.apply (sd : SpanData) : RecOp → SpanData
  | .setName n => { sd with name := n }
  | .setScope s => { sd with scope := some s }
  | .setAttribute k v => { sd with attrs := sd.attrs.setAttribute k v }
  | .addLink tid sid fl kvs => { sd with links := sd.links ++ [⟨tid, sid, fl, Map.ofIterable kvs⟩] }
  | .setKind k => { sd with kind := k }
  | .setStartTime t => { sd with startSys := t }
  | .setResource r => { sd with resource := some r }
  | .addEvent n ts kvs => { sd with events := sd.events ++ [⟨n, ts, Map.ofIterable kvs⟩] }
  | .setStatus c d => { sd with statusCode := c, statusDesc := d }
  | .setDuration d => { sd with duration := d }

/-- `MultiRecordable`: one child per processor (in processor order); every setter goes to every child -/
abbrev Multi := List SpanData

def Multi.apply (rs : Multi) (op : RecOp) : Multi := rs.map (·.apply op)

inductive ProcKind where
  | simple
  | batch
  deriving DecidableEq, Repr

/-- one configured processor with its exporter's log -/
structure Proc where
  kind : ProcKind
  /-- number of `OnStart` / `OnEnd` notifications received -/
  onStart : Nat := 0
  onEnd : Nat := 0
  /-- batch processor: spans handed over and not yet exported -/
  queue : List SpanData := []
  /-- the exporter's log: one entry per `Export` call, the batch it received -/
  exports : List (List SpanData) := []
  deriving DecidableEq, Repr

/-- `SimpleSpanProcessor::OnEnd` exports `[span]` at once; `BatchSpanProcessor::OnEnd` queues it -/
def Proc.end_ (p : Proc) (sd : SpanData) : Proc :=
  match p.kind with
  | .simple => { p with onEnd := p.onEnd + 1, exports := p.exports ++ [[sd]] }
  | .batch => { p with onEnd := p.onEnd + 1, queue := p.queue ++ [sd] }

/-- `ForceFlush`: the batch processor exports everything queued in one `Export` call (none when the queue is empty) -/
def Proc.flush (p : Proc) : Proc :=
  match p.kind, p.queue with
  | .batch, q@(_ :: _) => { p with queue := [], exports := p.exports ++ [q] }
  | _, _ => p

/-- `MultiSpanProcessor::OnEnd`: walk the processor list, release that processor's child, hand it over -/
def deliver : List Proc → Multi → List Proc
  | [], _ => []
  | p :: ps, [] => p :: ps
  | p :: ps, r :: rs => p.end_ r :: deliver ps rs

/-- what `Tracer::StartSpan` is called with, and the pipeline configuration -/
structure Cfg where
  procs : List ProcKind
  resource : Bytes
  scope : Scope
  name : Bytes
  kind : Nat
  /-- `options.start_system_time`, `options.start_steady_time` (0 = not given) -/
  startSys : Int
  startSteady : Int
  attrs : KVs
  links : List (Bytes × Bytes × UInt8 × KVs)

/-- the `Span` object plus the processors it reports to -/
structure State where
  /-- `recordable_`: `none` = nullptr -/
  recordable : Option Multi
  hasEnded : Bool
  /-- `start_steady_time` after `NowOr`: `none` = a clock reading -/
  startSteady : Option Int
  procs : List Proc
  deriving DecidableEq, Repr

/-- `NowOr(t)`: a default-constructed (zero) timestamp is replaced by the clock -/
def nowOr (t : Int) : Option Int := if t = 0 then none else some t

/-- `end_steady_time - start_steady_time`; clock-dependent as soon as one side is -/
def durationOf (e s : Option Int) : Option Int :=
  match e, s with
  | some e, some s => some (e - s)
  | _, _ => none

/-- the setter calls of `Span::Span`, in its order -/
def ctorOps (c : Cfg) : List RecOp :=
  [.setName c.name, .setScope c.scope]
    ++ c.attrs.map (fun kv => .setAttribute kv.1 kv.2)
    ++ c.links.map (fun l => .addLink l.1 l.2.1 l.2.2.1 l.2.2.2)
    ++ [.setKind c.kind, .setStartTime (nowOr c.startSys), .setResource c.resource]

/-- `Span::Span`: `MakeRecordable` (one default `SpanData` per processor), the constructor's setters, `OnStart` on every processor -/
def init (c : Cfg) : State :=
  { recordable := some ((ctorOps c).foldl Multi.apply (c.procs.map fun _ => ({} : SpanData)))
    hasEnded := false
    startSteady := nowOr c.startSteady
    procs := c.procs.map fun k => { kind := k, onStart := 1 } }

/-- the span API calls of a program, plus `ForceFlush` on the provider -/
inductive Op where
  | setAttribute (k : Bytes) (v : Value)
  /-- `Span::AddLink(target, attrs)` — exists under ABI v2 only (`AddLinks(list)` is one `AddLink` per element under one lock) -/
  | addLink (tid sid : Bytes) (flags : UInt8) (attrs : KVs)
  /-- the four `AddEvent` overloads: `ts = none` → no timestamp argument (clock), `attrs = none` → no attributes argument -/
  | addEvent (name : Bytes) (ts : Option Int) (attrs : Option KVs)
  | setStatus (code : Nat) (desc : Bytes)
  | updateName (n : Bytes)
  /-- `End(options)`, `options.end_steady_time` (0 = not given) -/
  | end_ (steady : Int)
  | flush
  deriving DecidableEq, Repr

/-- a mutator: `lock mu_; if (recordable_ == nullptr) return; recordable_->…` -/
def mutate (s : State) (op : RecOp) : State :=
  match s.recordable with
  | none => s
  | some rs => { s with recordable := some (rs.apply op) }

def step (s : State) : Op → State
  | .setAttribute k v => mutate s (.setAttribute k v)
  | .addLink tid sid fl kvs => mutate s (.addLink tid sid fl kvs)
  | .addEvent n ts kvs => mutate s (.addEvent n ts (kvs.getD []))
  | .setStatus c d => mutate s (.setStatus c d)
  | .updateName n => mutate s (.setName n)
  | .end_ e =>
    if s.hasEnded then s else
    match s.recordable with
    | none => { s with hasEnded := true }
    | some rs =>
      let rs' := rs.apply (.setDuration (durationOf (nowOr e) s.startSteady))
      { s with hasEnded := true, recordable := none, procs := deliver s.procs rs' }
  | .flush => { s with procs := s.procs.map Proc.flush }

def exec (s : State) (ops : List Op) : State := ops.foldl step s

/-- a whole case: the program, then the last reference to the span is dropped (`~Span` calls `End()`), then the provider
    is flushed so that batch processors have exported -/
def run (c : Cfg) (ops : List Op) : State := exec (init c) (ops ++ [.end_ 0, .flush])

end Otel.Span
