import OtelVerif.Model.KvList
import OtelVerif.Model.Regex
import OtelVerif.Gen.TraceState
/-! `trace/trace_state.h` (the `std::regex` variants of the validators are the compiled ones). -/
namespace Otel
namespace TraceState

def isValidKey (k : Bytes) : Bool := rxMatch Gen.regKey k || rxMatch Gen.regKeyMultitenant k
def isValidValue (v : Bytes) : Bool := rxMatch Gen.regValue v

abbrev Entries := List (Bytes × Bytes)

/-- the loop of `FromHeader` over the list members; `none` = "return GetDefault()" / reset to empty -/
def parseMembers (kvsep : UInt8) : List Bytes → KvProps → Option KvProps
  | [], p => some p
  | m :: ms, p =>
    match splitKv kvsep m with
    | none => none
    | some (k, v) => if isValidKey k && isValidValue v then parseMembers kvsep ms (p.add k v) else none

/-- `TraceState::FromHeader` → the ordered entries of the result -/
def fromHeader (h : Bytes) : Entries :=
  let cnt := numTok Gen.kMembersSeparator h
  if cnt > Gen.kMaxKeyValuePairs then []
  else match parseMembers Gen.kKeyValueSeparator (members Gen.kMembersSeparator h) ⟨cnt, []⟩ with
    | none => []
    | some p => p.entries

/-- `ToHeader` -/
def toHeader : Entries → Bytes
  | [] => []
  | [(k, v)] => k ++ [Gen.kKeyValueSeparator] ++ v
  | (k, v) :: t => k ++ [Gen.kKeyValueSeparator] ++ v ++ [Gen.kMembersSeparator] ++ toHeader t

/-- `Get`: `none` = returned false -/
def get (es : Entries) (k : Bytes) : Option Bytes :=
  if isValidKey k then (es.find? (·.1 == k)).map (·.2) else none

/-- `Set`: the new or updated member first, every other member kept once and in order;
    a key not yet present is refused when the list already holds `kMaxKeyValuePairs` members. -/
def set (es : Entries) (k v : Bytes) : Entries :=
  if !(isValidKey k && isValidValue v) then []
  else
    let keyExists := es.any (·.1 == k)
    let alloc := if !keyExists && es.length < Gen.kMaxKeyValuePairs then es.length + 1 else es.length
    let p0 : KvProps := ⟨alloc, []⟩
    let p1 := if keyExists || es.length < Gen.kMaxKeyValuePairs then p0.add k v else p0
    (es.foldl (fun p e => if !keyExists || !(k == e.1) then p.add e.1 e.2 else p) p1).entries

/-- `Delete` -/
def delete (es : Entries) (k : Bytes) : Entries :=
  if !isValidKey k then []
  else
    let alloc := if es.any (·.1 == k) then es.length - 1 else es.length
    (es.foldl (fun p e => if !(k == e.1) then p.add e.1 e.2 else p) (⟨alloc, []⟩ : KvProps)).entries

end TraceState
end Otel
