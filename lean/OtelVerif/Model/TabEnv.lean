import OtelVerif.Model.Env
/-! Model side of `Gen/TabEnv.lean`: the environment readers of `env_variables.cc` on the tabulated domains, in the observation
    encoding of `harness/tab/tab_sdk.cc` (`tab_env`): `[return value, out-parameter afterwards]`. -/
namespace Otel.TabModel
open Otel

def bNat (b : Bool) : Nat := if b then 1 else 0

/-- the value is preset to `true`; the model's `BoolOut.value` is what the reader leaves behind -/
def envBool (s : Bytes) : List Nat := let r := Env.getBool (some s); [bNat r.ret, bNat r.value]

/-- the value is preset to 12345 ns; `invalid` leaves it untouched, `unset` (empty value) zeroes it -/
def durObs : Env.DurOut → List Nat
  | .ok ns => [1, ns]
  | .invalid => [0, 12345]
  | .unset => [0, 0]
  | .ub => [100000]

def envDur (s : Bytes) : List Nat := durObs (Env.getDuration (some s))

/-- errno is clean on entry; the value is preset to 777 and overwritten in every case -/
def envUint (s : Bytes) : List Nat := let r := Env.getUint false (some s); [bNat r.ret, r.value]

end Otel.TabModel
