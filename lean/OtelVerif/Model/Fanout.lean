/-! # The sequential fan-out layers above the processors / readers (C02, fan-out clause)

Executable model of `ForceFlush` / `Shutdown` / destruction in

* `sdk/include/opentelemetry/sdk/trace/multi_span_processor.h` (`MultiSpanProcessor`),
  `sdk/src/trace/tracer_context.cc`, `sdk/src/trace/tracer_provider.cc`,
* `sdk/src/logs/multi_log_record_processor.cc`, `sdk/src/logs/logger_context.cc`, `sdk/src/logs/logger_provider.cc`,
* `sdk/src/metrics/meter_context.cc`, `sdk/src/metrics/meter_provider.cc`, `sdk/src/metrics/state/metric_collector.cc`,
  `sdk/src/metrics/metric_reader.cc`,

with the children they fan out to: a *raw* child (the harness's scripted processor: no latch, every call logged), the
simple processors (`simple_processor.h`, `simple_log_record_processor.cc`: exporter `Shutdown` behind a latch, `ForceFlush`
and `OnEnd`/`OnEmit` forwarded to the exporter whether shut down or not, `~SimpleSpanProcessor` calls `Shutdown`,
`~SimpleLogRecordProcessor` does not), a batch processor seen from one sequential caller (what `Otel.C02`'s batch theorems
give: `ForceFlush` exports everything queued and invokes the exporter's `ForceFlush`, returns true whatever the exporter
answers; after `Shutdown` it returns false without touching the exporter; `Shutdown` drains and shuts the exporter down
behind `is_shutdown`; the destructor shuts down if nobody did), and a `MetricReader` (base class: `shutdown_` flag set by
`Shutdown`, consulted only for warnings — `OnShutDown`, `OnForceFlush` and `Collect` run regardless).

Every layer is a fold over the ordered list of children.  As coded (after the `fix:` of D02 / D81) every fold calls every
child, in order, and returns the conjunction of the children's results; none of the span / log layers has a latch of its
own, `MeterContext::Shutdown` is the only one (`shutdown_latch_`).  The time a child is handed is kept as a class
(`TC`): `MultiSpanProcessor` and `MeterContext::Shutdown` pass the caller's timeout on unchanged,
`MultiLogRecordProcessor` and `MeterContext::ForceFlush` hand the first child the timeout (clamped to the nanosecond range)
and later children the time that remains, which is zero once the deadline has passed.  Core Lean only. -/
namespace Otel.Fanout

/-- what a child is -/
inductive Kind
  | raw          -- harness processor: scripted results, no latch
  | simpleSpan
  | simpleLog
  | batch
  | reader       -- MetricReader with scripted OnForceFlush / OnShutDown
  deriving DecidableEq, Repr

/-- the caller's timeout: zero, 20 ms (`short`), one hour (`long`), `microseconds::max()` -/
inductive TO
  | zero | short | long | max
  deriving DecidableEq, Repr

/-- the class of the timeout a child is handed: the caller's value unchanged (`zero short long max`), `nanoseconds::max()`
    in microseconds (`nsmax`), a positive remainder of a finite timeout (`rem`), the remainder of an unbounded one (`huge`) -/
inductive TC
  | zero | short | long | max | nsmax | rem | huge
  deriving DecidableEq, Repr

/-- what happens at one child (processor-level calls as the fan-out layer makes them, `x…` = calls that reach the child's
    exporter) -/
inductive CEv
  | flush (tc : TC) (res : Bool)
  | shutdown (tc : TC) (res : Bool)
  | onEnd
  | dtor
  | collect
  | xFlush (res : Bool)
  | xShutdown (res : Bool)
  | xExport (n : Nat)
  | bstate (queued : Nat) (xs : Nat)   -- batch child after a call: records still queued, exporter Shutdown calls so far
  deriving DecidableEq, Repr

def CEv.isFlush : CEv → Bool
  | .flush _ _ => true
  | _ => false
def CEv.isShutdown : CEv → Bool
  | .shutdown _ _ => true
  | _ => false
def CEv.isXShutdown : CEv → Bool
  | .xShutdown _ => true
  | _ => false
def CEv.isXFlush : CEv → Bool
  | .xFlush _ => true
  | _ => false
def CEv.isXExport : CEv → Bool
  | .xExport _ => true
  | _ => false
/-- a call that reaches the exporter -/
def CEv.isX (e : CEv) : Bool := e.isXShutdown || e.isXFlush || e.isXExport
def CEv.isCollect : CEv → Bool
  | .collect => true
  | _ => false

structure Child where
  kind : Kind
  /-- results still to come of the child's own `ForceFlush` (raw, reader) / of its exporter's (simple): (result, slow);
      exhausted = (true, not slow) -/
  fscript : List (Bool × Bool)
  /-- results still to come of the child's own `Shutdown` (raw, reader `OnShutDown`) / of its exporter's `Shutdown` -/
  sscript : List Bool
  /-- the child's own latch: `shutdown_latch_` / `is_shutdown_` / `is_shutdown`; for a reader the `shutdown_` flag -/
  latched : Bool
  /-- batch: accepted and not yet exported -/
  queued : Nat
  /-- everything that happened at this child, oldest first -/
  log : List CEv
  deriving Repr

def Child.mk' (k : Kind) (fs : List (Bool × Bool)) (ss : List Bool) : Child := ⟨k, fs, ss, false, 0, []⟩

def Child.nXShutdown (c : Child) : Nat := c.log.countP CEv.isXShutdown
def Child.nShutdown (c : Child) : Nat := c.log.countP CEv.isShutdown
def Child.nFlush (c : Child) : Nat := c.log.countP CEv.isFlush
def Child.nX (c : Child) : Nat := c.log.countP CEv.isX

/-- result of one call at a child -/
structure Out where
  child : Child
  res : Bool
  slow : Bool
  evs : List CEv
  deriving Repr

def nextF (c : Child) : Bool × Bool := c.fscript.headD (true, false)
def nextS (c : Child) : Bool := c.sscript.headD true

/-- the records a batch child still holds go to `Export` -/
def drainEvs (c : Child) : List CEv := if c.queued = 0 then [] else [.xExport c.queued]

/-- the child's `ForceFlush(tc)` -/
def Child.flush (c : Child) (tc : TC) : Out :=
  match c.kind with
  | .raw | .reader =>
    let evs := [CEv.flush tc (nextF c).1]
    ⟨{ c with fscript := c.fscript.tail, log := c.log ++ evs }, (nextF c).1, (nextF c).2, evs⟩
  | .simpleSpan | .simpleLog =>
    -- `if (exporter_ != nullptr) return exporter_->ForceFlush(timeout);` -- no look at the latch
    let evs := [CEv.xFlush (nextF c).1, CEv.flush tc (nextF c).1]
    ⟨{ c with fscript := c.fscript.tail, log := c.log ++ evs }, (nextF c).1, (nextF c).2, evs⟩
  | .batch =>
    if c.latched then
      let evs := [CEv.flush tc false, CEv.bstate c.queued c.nXShutdown]
      ⟨{ c with log := c.log ++ evs }, false, false, evs⟩
    else
      let evs := drainEvs c ++ [CEv.xFlush true, CEv.flush tc true, CEv.bstate 0 c.nXShutdown]
      ⟨{ c with queued := 0, log := c.log ++ evs }, true, false, evs⟩

/-- the child's `Shutdown(tc)` -/
def Child.shutdown (c : Child) (tc : TC) : Out :=
  match c.kind with
  | .raw =>
    let evs := [CEv.shutdown tc (nextS c)]
    ⟨{ c with sscript := c.sscript.tail, log := c.log ++ evs }, nextS c, false, evs⟩
  | .reader =>
    -- MetricReader::Shutdown: warns when already shut down, stores the flag, calls OnShutDown all the same
    let evs := [CEv.shutdown tc (nextS c)]
    ⟨{ c with sscript := c.sscript.tail, latched := true, log := c.log ++ evs }, nextS c, false, evs⟩
  | .simpleSpan | .simpleLog =>
    if c.latched then
      let evs := [CEv.shutdown tc true]
      ⟨{ c with log := c.log ++ evs }, true, false, evs⟩
    else
      let evs := [CEv.xShutdown (nextS c), CEv.shutdown tc (nextS c)]
      ⟨{ c with sscript := c.sscript.tail, latched := true, log := c.log ++ evs }, nextS c, false, evs⟩
  | .batch =>
    if c.latched then
      let evs := [CEv.shutdown tc true, CEv.bstate c.queued c.nXShutdown]
      ⟨{ c with log := c.log ++ evs }, true, false, evs⟩
    else
      let evs := drainEvs c ++ [CEv.xShutdown (nextS c), CEv.shutdown tc (nextS c), CEv.bstate 0 (c.nXShutdown + 1)]
      ⟨{ c with sscript := c.sscript.tail, latched := true, queued := 0, log := c.log ++ evs }, nextS c, false, evs⟩

/-- `OnEnd` / `OnEmit` of one record at the child -/
def Child.onEnd (c : Child) : Out :=
  match c.kind with
  | .raw =>
    let evs := [CEv.onEnd]
    ⟨{ c with log := c.log ++ evs }, true, false, evs⟩
  | .reader => ⟨c, true, false, []⟩
  | .simpleSpan | .simpleLog =>
    -- exported at once, shut down or not
    let evs := [CEv.xExport 1]
    ⟨{ c with log := c.log ++ evs }, true, false, evs⟩
  | .batch =>
    if c.latched then ⟨c, true, false, []⟩ else ⟨{ c with queued := c.queued + 1 }, true, false, []⟩

/-- the child's destructor -/
def Child.dtor (c : Child) : Out :=
  match c.kind with
  | .raw | .reader | .simpleLog =>
    let evs := [CEv.dtor]
    ⟨{ c with log := c.log ++ evs }, true, false, evs⟩
  | .simpleSpan =>
    -- `~SimpleSpanProcessor() { Shutdown(); }`
    if c.latched then
      let evs := [CEv.dtor]
      ⟨{ c with log := c.log ++ evs }, true, false, evs⟩
    else
      let evs := [CEv.dtor, CEv.xShutdown (nextS c)]
      ⟨{ c with sscript := c.sscript.tail, latched := true, log := c.log ++ evs }, true, false, evs⟩
  | .batch =>
    -- `if (is_shutdown == false) Shutdown();`
    if c.latched then
      let evs := [CEv.dtor, CEv.bstate c.queued c.nXShutdown]
      ⟨{ c with log := c.log ++ evs }, true, false, evs⟩
    else
      let evs := [CEv.dtor] ++ drainEvs c ++ [CEv.xShutdown (nextS c), CEv.bstate 0 (c.nXShutdown + 1)]
      ⟨{ c with sscript := c.sscript.tail, latched := true, queued := 0, log := c.log ++ evs }, true, false, evs⟩

/-- `MetricReader::Collect(callback)` on a reader attached to a collector: the flag is looked at for a warning only,
    `Produce` and the callback run -/
def Child.collect (c : Child) : Out :=
  let evs := [CEv.collect]
  ⟨{ c with log := c.log ++ evs }, true, false, evs⟩

/-! ## time handed to the children -/

inductive Policy
  | same        -- the caller's timeout, unchanged, to every child
  | remaining   -- the first child gets the (clamped) timeout, later children what remains of it
  deriving DecidableEq, Repr

structure Clock where
  t : TO
  first : Bool
  expired : Bool
  deriving Repr

def Clock.start (t : TO) : Clock := ⟨t, true, false⟩

def Clock.tc (p : Policy) (k : Clock) : TC :=
  match p with
  | .same => match k.t with
    | .zero => .zero
    | .short => .short
    | .long => .long
    | .max => .max
  | .remaining => match k.t with
    | .zero => .zero
    | .short => if k.first then .short else if k.expired then .zero else .rem
    | .long => if k.first then .long else .rem
    | .max => if k.first then .nsmax else .huge

/-- a slow child uses up a short timeout -/
def Clock.tick (k : Clock) (slow : Bool) : Clock := ⟨k.t, false, k.expired || (slow && k.t == .short)⟩

/-! ## the folds -/

/-- a fold over the children: child `i` is handed the clock's time class; results are and-ed, nobody is skipped -/
def foldAll (call : Child → TC → Out) (p : Policy) : Clock → Nat → List Child → List Child × Bool × List (Nat × CEv)
  | _, _, [] => ([], true, [])
  | k, i, c :: cs =>
    let o := call c (k.tc p)
    let r := foldAll call p (k.tick o.slow) (i + 1) cs
    (o.child :: r.1, o.res && r.2.1, o.evs.map (fun e => (i, e)) ++ r.2.2)

def flushAll := foldAll Child.flush
def shutdownAll := foldAll Child.shutdown
def emitAll (cs : List Child) : List Child × Bool × List (Nat × CEv) := foldAll (fun c _ => c.onEnd) .same (Clock.start .max) 0 cs
def dtorAll (cs : List Child) : List Child × Bool × List (Nat × CEv) := foldAll (fun c _ => c.dtor) .same (Clock.start .max) 0 cs

/-- the children are destroyed last to first (`MultiSpanProcessor::Cleanup` walks back from `tail_`) -/
def dtorEvsRev : Nat → List Child → List (Nat × CEv)
  | _, [] => []
  | i, c :: cs => dtorEvsRev (i + 1) cs ++ c.dtor.evs.map (fun e => (i, e))

def dtorAllRev (cs : List Child) : List Child × Bool × List (Nat × CEv) := ((dtorAll cs).1, true, dtorEvsRev 0 cs)

/-! ## the layers -/

inductive Layer
  | multiSpan | tracerProvider | multiLog | loggerProvider | meterProvider
  deriving DecidableEq, Repr

def Layer.flushPolicy : Layer → Policy
  | .multiSpan | .tracerProvider => .same
  | .multiLog | .loggerProvider => .remaining
  | .meterProvider => .remaining

def Layer.shutdownPolicy : Layer → Policy
  | .multiSpan | .tracerProvider => .same
  | .multiLog | .loggerProvider => .remaining
  | .meterProvider => .same

structure Prov where
  layer : Layer
  children : List Child
  /-- `MeterContext::shutdown_latch_` — no other layer has one -/
  latch : Bool
  alive : Bool
  deriving Repr

def Prov.init (l : Layer) (cs : List Child) : Prov := ⟨l, cs, false, true⟩

inductive Op
  | flush (t : TO)
  | shutdown (t : TO)
  | emit
  | destroy
  | collect (i : Nat)          -- meter provider: reader i's Collect, called directly
  | readerShutdown (i : Nat)   -- meter provider: reader i's Shutdown, called directly (not through the provider)
  | readerFlush (i : Nat)
  deriving DecidableEq, Repr

inductive Obs
  | ret (b : Bool)
  | done
  | gone       -- the provider has been destroyed
  | na         -- not an operation of this layer
  deriving DecidableEq, Repr

abbrev Evs := List (Nat × CEv)

/-- `ForceFlush(t)` at the layer -/
def Prov.flush (p : Prov) (t : TO) : Prov × Bool × Evs :=
  let r := flushAll p.layer.flushPolicy (Clock.start t) 0 p.children
  ({ p with children := r.1 }, r.2.1, r.2.2)

/-- `Shutdown(t)` at the layer -/
def Prov.shutdown (p : Prov) (t : TO) : Prov × Bool × Evs :=
  match p.layer with
  | .meterProvider =>
    -- `if (!shutdown_latch_.test_and_set()) { for each collector … } else warn;  return result;`
    if p.latch then (p, true, [])
    else
      let r := shutdownAll .same (Clock.start t) 0 p.children
      ({ p with children := r.1, latch := true }, r.2.1, r.2.2)
  | _ =>
    let r := shutdownAll p.layer.shutdownPolicy (Clock.start t) 0 p.children
    ({ p with children := r.1 }, r.2.1, r.2.2)

/-- destruction of the layer object (and of everything it owns) -/
def Prov.destroy (p : Prov) : Prov × Evs :=
  match p.layer with
  | .multiSpan =>
    -- `~MultiSpanProcessor() { Shutdown(); Cleanup(); }`
    let s1 := p.shutdown .max
    let r := dtorAllRev s1.1.children
    ({ s1.1 with children := r.1, alive := false }, s1.2.2 ++ r.2.2)
  | .tracerProvider =>
    -- `~TracerProvider() { context_->Shutdown(); }`, then the context goes: `~MultiSpanProcessor`
    let s1 := p.shutdown .max
    let s2 := s1.1.shutdown .max
    let r := dtorAllRev s2.1.children
    ({ s2.1 with children := r.1, alive := false }, s1.2.2 ++ s2.2.2 ++ r.2.2)
  | .multiLog =>
    -- `~MultiLogRecordProcessor() { ForceFlush(); Shutdown(); }`, then the vector
    let f1 := p.flush .max
    let s2 := f1.1.shutdown .max
    let r := dtorAll s2.1.children
    ({ s2.1 with children := r.1, alive := false }, f1.2.2 ++ s2.2.2 ++ r.2.2)
  | .loggerProvider =>
    -- `~LoggerProvider() { context_->Shutdown(); }`, then the context goes: `~MultiLogRecordProcessor`
    let s0 := p.shutdown .max
    let f1 := s0.1.flush .max
    let s2 := f1.1.shutdown .max
    let r := dtorAll s2.1.children
    ({ s2.1 with children := r.1, alive := false }, s0.2.2 ++ f1.2.2 ++ s2.2.2 ++ r.2.2)
  | .meterProvider =>
    -- `~MeterProvider() { context_->Shutdown(); }`, then the collectors and their readers
    let s1 := p.shutdown .max
    let r := dtorAll s1.1.children
    ({ s1.1 with children := r.1, alive := false }, s1.2.2 ++ r.2.2)

/-- apply `f` to child `i` -/
def onChild (f : Child → Out) : Nat → Nat → List Child → Option (List Child × Bool × Evs)
  | _, _, [] => none
  | 0, j, c :: cs => let o := f c; some (o.child :: cs, o.res, o.evs.map (fun e => (j, e)))
  | i + 1, j, c :: cs => (onChild f i (j + 1) cs).map fun r => (c :: r.1, r.2.1, r.2.2)

def Prov.step (p : Prov) (op : Op) : Prov × Obs × Evs :=
  if !p.alive then (p, .gone, []) else
  match op with
  | .flush t => let r := p.flush t; (r.1, .ret r.2.1, r.2.2)
  | .shutdown t => let r := p.shutdown t; (r.1, .ret r.2.1, r.2.2)
  | .emit =>
    if p.layer = .meterProvider then (p, .na, []) else
    let r := emitAll p.children; ({ p with children := r.1 }, .done, r.2.2)
  | .destroy => let r := p.destroy; (r.1, .done, r.2)
  | .collect i =>
    if p.layer ≠ .meterProvider then (p, .na, []) else
    match onChild Child.collect i 0 p.children with
    | none => (p, .na, [])
    | some r => ({ p with children := r.1 }, .ret r.2.1, r.2.2)
  | .readerShutdown i =>
    if p.layer ≠ .meterProvider then (p, .na, []) else
    match onChild (fun c => c.shutdown .max) i 0 p.children with
    | none => (p, .na, [])
    | some r => ({ p with children := r.1 }, .ret r.2.1, r.2.2)
  | .readerFlush i =>
    if p.layer ≠ .meterProvider then (p, .na, []) else
    match onChild (fun c => c.flush .max) i 0 p.children with
    | none => (p, .na, [])
    | some r => ({ p with children := r.1 }, .ret r.2.1, r.2.2)

/-- a sequence of calls; one observation and the events it caused per call -/
def Prov.run (p : Prov) : List Op → Prov × List (Obs × Evs)
  | [] => (p, [])
  | op :: ops =>
    let r := p.step op
    let rest := r.1.run ops
    (rest.1, (r.2.1, r.2.2) :: rest.2)

/-- the state after a sequence of calls -/
def Prov.after (p : Prov) (ops : List Op) : Prov := (p.run ops).1

/-! ## the atomic latch under concurrent callers

`SimpleSpanProcessor::Shutdown` (`shutdown_latch_.test_and_set`), `SimpleLogRecordProcessor::Shutdown`
(`is_shutdown_.exchange(true)`) and `MeterContext::Shutdown` (`shutdown_latch_.test_and_set`) have the same shape: one atomic
read-and-set, then — only for the caller that read `false` — the forwarded `Shutdown`, then return; no mutex.  Any number
of callers, any interleaving (a schedule is a list of caller numbers). -/
namespace Latch

inductive PC
  | start
  | won                      -- read `false`: about to forward
  | ret (forwarded : Bool)   -- returned (true in the code; the flag says whether this caller forwarded)
  deriving DecidableEq, Repr

structure St where
  latch : Bool
  pc : Nat → PC
  /-- how often the exporter's (the readers') Shutdown has been invoked -/
  forwarded : Nat

def upd (f : Nat → PC) (i : Nat) (v : PC) : Nat → PC := fun j => if j = i then v else f j

def step (s : St) (i : Nat) : St :=
  match s.pc i with
  | .start => if s.latch then { s with pc := upd s.pc i (.ret false) } else { s with latch := true, pc := upd s.pc i .won }
  | .won => { s with forwarded := s.forwarded + 1, pc := upd s.pc i (.ret true) }
  | .ret _ => s

def init : St := ⟨false, fun _ => .start, 0⟩
def run (sched : List Nat) : St := sched.foldl step init

end Latch

end Otel.Fanout
