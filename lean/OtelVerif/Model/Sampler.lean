import OtelVerif.Model.Basic
import OtelVerif.Gen.Sampler
import OtelVerif.Gen.Hex
/-! `sdk/src/trace/samplers/{trace_id_ratio,parent}.cc`, `samplers/always_{on,off}.h`, `sampler.h`.

IEEE-754 binary64 values are modelled **exactly** as rationals: every finite double is a dyadic rational, and the
result of a C++ floating-point operation is the exact result rounded by `fl` (53-bit significand, round to nearest,
ties to even, gradual underflow below 2^-1022; overflow to infinity is out of reach here: every intermediate value of
`CalculateThreshold` is below 2^65).  `fl` is executable, so the driver computes the same 64-bit threshold as the C++
code, bit for bit.  Core Lean only. -/
namespace Otel
namespace Sampler

/-! ## doubles -/

def pow2 (e : Int) : Rat := (2 : Rat) ^ e

/-- nearest integer, ties to even (argument ≥ 0) -/
def roundEven (q : Rat) : Int :=
  let f := q.floor
  let r := q - (f : Rat)
  if r < 1 / 2 then f else if 1 / 2 < r then f + 1 else if f % 2 = 0 then f else f + 1

/-- `⌊log₂ (n/d)⌋` for `n, d > 0` -/
def ilog2 (n d : Nat) : Int :=
  let e0 : Int := (Nat.log2 n : Int) - (Nat.log2 d : Int)
  if pow2 e0 * (d : Rat) ≤ (n : Rat) then e0 else e0 - 1

/-- exponent of the unit in the last place of the binade of `q > 0` (subnormals share the exponent -1022) -/
def ulpExp (q : Rat) : Int := max (ilog2 q.num.natAbs q.den) (-1022) - 52

/-- binary64 rounding of `q ≥ 0` -/
def flPos (q : Rat) : Rat :=
  if q = 0 then 0 else
  let ulp := pow2 (ulpExp q)
  (roundEven (q / ulp) : Rat) * ulp

/-- **binary64 rounding** (round to nearest, ties to even; sign-symmetric) -/
def fl (q : Rat) : Rat := if q < 0 then - flPos (-q) else flPos q

/-- a `double` argument as it arrives from the caller -/
inductive Dbl where
  | fin (q : Rat)
  | pinf
  | ninf
  | nan
  deriving Repr, DecidableEq

/-- decode an IEEE-754 binary64 bit pattern -/
def Dbl.ofBits (b : Nat) : Dbl :=
  let sign : Nat := (b / 2 ^ 63) % 2
  let ex : Nat := (b / 2 ^ 52) % 2048
  let man : Nat := b % 2 ^ 52
  if ex = 2047 then (if man ≠ 0 then .nan else if sign = 1 then .ninf else .pinf)
  else
    let mag : Rat :=
      if ex = 0 then (man : Rat) * pow2 (-1074)
      else (((2 ^ 52 + man : Nat) : Rat)) * pow2 ((ex : Int) - 1075)
    .fin (if sign = 1 then -mag else mag)

/-! ## `CalculateThreshold` -/

/-- `static_cast<uint64_t>(x)` of an integral-part extraction; the argument is shown to lie in `[0, 2^64)` wherever
    it is used (`Props/C12`: `threshold_no_wrap`), so the C++ cast is defined and equals the floor. -/
def toU64 (x : Rat) : Nat := x.floor.toNat % 2 ^ 64

/-- `CalculateThreshold(ratio)` for a finite ratio, over an arbitrary rounding function `rnd` (the C++ is the
    instance `rnd = fl`): `product = UINT32_MAX * ratio`, `modf` (exact), `ldexp(·, 32)` (exact), one rounded addition,
    two conversions to `uint64_t`, a shift and an addition modulo 2^64. -/
def thresholdWith (rnd : Rat → Rat) (r : Rat) : Nat :=
  if r ≤ 0 then 0
  else if 1 ≤ r then Gen.samplerThresholdMax
  else
    let product := rnd ((Gen.samplerMultiplier : Rat) * r)
    let hi : Rat := (product.floor : Rat)          -- modf integral part (product ≥ 0)
    let frac := product - hi                       -- modf fractional part, exact
    let lo := rnd ((2 : Rat) ^ Gen.samplerLdexp * frac + product)
    ((toU64 hi * 2 ^ Gen.samplerShift) % 2 ^ 64 + toU64 lo) % 2 ^ 64

def threshold (r : Rat) : Nat := thresholdWith fl r

/-- the constructor's `threshold_`; `none` = NaN (`static_cast<uint64_t>(NaN)` is undefined behaviour) -/
def thresholdD : Dbl → Option Nat
  | .fin q => some (threshold q)
  | .pinf => some Gen.samplerThresholdMax     -- `ratio >= 1.0`
  | .ninf => some 0                           -- `ratio <= 0.0`
  | .nan => none

/-- `memcpy(&res, &trace_id, 8)` on a little-endian machine -/
def leNat : Bytes → Nat
  | [] => 0
  | b :: t => b.toNat + 256 * leNat t

def idPrefix (traceId : Bytes) : Nat := leNat (traceId.take Gen.samplerIdBytes)

/-- `static_cast<double>(res) / static_cast<double>(UINT64_MAX)` -/
def idRatioWith (rnd : Rat → Rat) (x : Nat) : Rat := rnd (rnd (x : Rat) / rnd (Gen.samplerIdDivisor : Rat))

/-- `CalculateThresholdFromBuffer` -/
def idThresholdWith (rnd : Rat → Rat) (traceId : Bytes) : Nat := thresholdWith rnd (idRatioWith rnd (idPrefix traceId))

def idThreshold (traceId : Bytes) : Nat := idThresholdWith fl traceId

/-! ## samplers -/

inductive Decision where
  | drop
  | recordOnly
  | recordAndSample
  deriving Repr, DecidableEq

abbrev TraceStateEntries := List (Bytes × Bytes)

/-- `opentelemetry::trace::SpanContext` -/
structure SpanContext where
  traceId : Bytes        -- 16 bytes
  spanId : Bytes         -- 8 bytes
  flags : UInt8
  remote : Bool
  traceState : TraceStateEntries
  deriving Repr, DecidableEq

def allZero (bs : Bytes) : Bool := bs.all (· == 0)

/-- `SpanContext::IsValid()` -/
def SpanContext.isValid (c : SpanContext) : Bool := !allZero c.traceId && !allZero c.spanId

/-- `SpanContext::IsSampled()` = `trace_flags & kIsSampled` -/
def SpanContext.isSampled (c : SpanContext) : Bool := c.flags.toNat % 2 == 1

/-- `SpanContext::GetInvalid()` / `SpanContext(false, false)` -/
def SpanContext.invalid : SpanContext := ⟨List.replicate 16 0, List.replicate 8 0, 0, false, []⟩

/-- everything `Sampler::ShouldSample` is given -/
structure Args where
  parent : SpanContext
  traceId : Bytes
  name : Bytes
  kind : Nat
  attributes : List (Bytes × Bytes)
  links : List SpanContext

/-- `SamplingResult` (attributes are `nullptr` for every built-in sampler); `traceState = none` is the null pointer -/
structure Result where
  decision : Decision
  traceState : Option TraceStateEntries
  deriving Repr, DecidableEq

def Result.isRecording (r : Result) : Bool := r.decision != .drop
def Result.isSampled (r : Result) : Bool := r.decision == .recordAndSample

inductive Sampler where
  | alwaysOn
  | alwaysOff
  | ratio (threshold : Nat)              -- `TraceIdRatioBasedSampler`, holding `threshold_`
  | parentBased (root : Sampler)         -- `ParentBasedSampler(delegate)`
  | custom (f : Args → Result)           -- a user-provided sampler

/-- `TraceIdRatioBasedSampler::ShouldSample` over a rounding function -/
def ratioShouldSampleWith (rnd : Rat → Rat) (thr : Nat) (traceId : Bytes) : Decision :=
  if thr = 0 then .drop
  else if idThresholdWith rnd traceId ≤ thr then .recordAndSample
  else .drop

def shouldSampleWith (rnd : Rat → Rat) : Sampler → Args → Result
  | .alwaysOn, a => ⟨.recordAndSample, some (if a.parent.isValid then a.parent.traceState else [])⟩
  | .alwaysOff, a => ⟨.drop, some (if a.parent.isValid then a.parent.traceState else [])⟩
  | .ratio thr, a => ⟨ratioShouldSampleWith rnd thr a.traceId, none⟩
  | .parentBased root, a =>
    if !a.parent.isValid then shouldSampleWith rnd root a
    else if a.parent.isSampled then ⟨.recordAndSample, some a.parent.traceState⟩
    else ⟨.drop, some a.parent.traceState⟩
  | .custom f, a => f a

def shouldSample : Sampler → Args → Result := shouldSampleWith fl

/-- how many times a user-provided (`custom`) sampler is invoked by one `ShouldSample` call -/
def consults : Sampler → Args → Nat
  | .custom _, _ => 1
  | .parentBased root, a => if !a.parent.isValid then consults root a else 0
  | _, _ => 0

/-- `TraceIdRatioBasedSampler(ratio)` -/
def mkRatio (d : Dbl) : Option Sampler := (thresholdD d).map .ratio

/-! ## a span started through a `Tracer` (the sampling part of `sdk/src/trace/tracer.cc`, `Tracer::StartSpan`) -/

/-- how `StartSpan` is told its parent: `options.parent` a `SpanContext`, `options.parent` a `Context` carrying the span,
    the span active on the calling thread (default options), or a `Context` with the `is_root_span` flag (whatever span
    is active) -/
inductive ParentVia where
  | spanContext
  | context
  | active
  | root
  deriving Repr, DecidableEq

/-- the `parent_context` the sampler is asked about (no other span is active on the thread): an explicit parent counts
    only when it is valid, the active span's context is taken as it is, an explicit root has none -/
def effectiveParent (via : ParentVia) (p : SpanContext) : SpanContext :=
  match via with
  | .root => SpanContext.invalid
  | .active => p
  | _ => if p.isValid then p else SpanContext.invalid

/-- what `StartSpan` makes of the sampler's answer -/
structure SampledSpan where
  /-- the parent's trace id when it has a valid parent, else the generated one -/
  traceId : Bytes
  /-- the result the sampler gave (asked once, about the effective parent and that trace id) -/
  result : Result
  /-- `kIsSampled` of the new span context: set iff `IsSampled()`, cleared otherwise (whatever the parent's flags) -/
  sampled : Bool
  /-- a recording `Span` (true) or a `NoopSpan` carrying the span context (false) -/
  recording : Bool
  /-- the sampler's trace state if it gave one, else the valid parent's, else the empty default -/
  traceState : TraceStateEntries
  /-- invocations of a user-provided sampler -/
  consulted : Nat

def sampleSpanWith (rnd : Rat → Rat) (s : Sampler) (via : ParentVia) (p : SpanContext) (generated : Bytes) : SampledSpan :=
  let pe := effectiveParent via p
  let tid := if pe.isValid then pe.traceId else generated
  let a : Args := ⟨pe, tid, [], 0, [], []⟩
  let r := shouldSampleWith rnd s a
  { traceId := tid, result := r, sampled := r.isSampled, recording := r.isRecording,
    traceState := (match r.traceState with
      | some ts => ts
      | none => if pe.isValid then pe.traceState else []),
    consulted := consults s a }

def sampleSpan : Sampler → ParentVia → SpanContext → Bytes → SampledSpan := sampleSpanWith fl

end Sampler
end Otel
