import OtelVerif.Model.Histogram
import OtelVerif.Model.SeriesStore
/-! The histogram aggregation plugged into the generic series storage (what `SyncMetricStorage` does with
    `DefaultAggregation::CreateAggregation(kHistogram, …)`). -/
namespace Otel.Hist
open Otel.Series

/-- the histogram aggregation as the storage sees it: `CreateAggregation`, `Aggregate`, `Merge` -/
def histAgg (k : Kind) (cfg : Option Config) : Agg Rat Point := { new := new k cfg, add := aggregate k, merge := merge k }

end Otel.Hist
