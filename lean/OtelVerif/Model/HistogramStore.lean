import OtelVerif.Model.Histogram
import OtelVerif.Model.SeriesStore
/-! The histogram aggregation plugged into the generic series storage (what `SyncMetricStorage` does with
    `DefaultAggregation::CreateAggregation(kHistogram, …)`). -/
namespace Otel.Hist
open Otel.Series

/-- the histogram aggregation as the storage sees it: `CreateAggregation`, `Aggregate`, `Merge` -/
def histAgg (k : Kind) (cfg : Option Config) : Agg Rat Point := { new := new k cfg, add := aggregate k, merge := merge k }

/-- `DoubleHistogram::Record`: `if (value < 0) return;` (sync_instruments.cc) — negative values never reach the storage.
    (`LongHistogram::Record` takes `uint64_t`.) -/
def instrumentRecords (v : Rat) : Bool := !decide (v < 0)

end Otel.Hist
