import OtelVerif.Model.Ring
/-! # The batch processors' protocol (`batch_span_processor.cc`, `batch_log_record_processor.cc`)

A small-step transition system at the granularity of the shared-variable accesses that carry the protocol:
`is_shutdown`, `force_flush_pending_sequence` (`pending`), `force_flush_notified_sequence` (`notified`), the queue
counters (`head` = records committed, `tail` = records taken by the worker) and the exporter calls.  The lock-free
queue itself is abstracted to its two counters: a producer's successful head CAS is `pCommit`, the worker's
`tail_ += n` is `wConsume` — C11 proves that the queue behind those counters is a FIFO that hands every committed
record out exactly once; here the protocol on top is modelled: any number of producers, `ForceFlush` callers and
`Shutdown` callers, one worker.

The worker mirrors `DoBackgroundWork` / `Export` / `NotifyCompletion` / `DrainQueue` **after the D01/D23 repair**
(one size snapshot per iteration, batches always capped, a flush ticket published only when everything that was queued
when it was first seen has been exported).  Wake-ups (`cv` notifications, timer expiry, spurious) are nondeterministic:
`wWake` is always enabled when the worker is idle, and a waiting `ForceFlush` caller may observe `notified` at any time
and return whenever it likes (timeouts), which over-approximates every `schedule_delay`, timeout value and latency. -/
namespace Otel.Batch
open Otel.Ring (upd upd_same upd_other)

inductive Ret where | loop | drain deriving DecidableEq, Repr

/-- worker program counter; `T R` = `flush_ticket`, `flush_remaining` of the current `Export()` call -/
inductive WPc where
  | idle                                         -- in `cv.wait_for` / evaluating its predicate
  | chk                                          -- woke up: about to load `is_shutdown`
  | ticket (r : Ret) (T R : Nat)                 -- `Export()` loop head: about to load `pending`
  | size (r : Ret) (n T R : Nat)                 -- about to take the size snapshot
  | consume (r : Ret) (n T R num : Nat)          -- about to `tail_ += num`
  | exportB (r : Ret) (n T R num : Nat)          -- slots cleared, about to call `exporter_->Export`
  | exportE (r : Ret) (n T R num : Nat)          -- inside `exporter_->Export`
  | nChk (r : Ret) (n : Nat) (last : Bool) (T R : Nat)     -- `NotifyCompletion(n)`: about to load `notified`
  | flushB (r : Ret) (n : Nat) (last : Bool) (T R : Nat)   -- about to call `exporter->ForceFlush`
  | flushE (r : Ret) (n : Nat) (last : Bool) (T R : Nat)   -- inside it
  | pubLd (r : Ret) (n : Nat) (last : Bool) (T R : Nat)    -- about to reload `notified`
  | pubCas (r : Ret) (n : Nat) (last : Bool) (T R v : Nat) -- about to CAS `notified` from `v` to `n`
  | dEmpty                                       -- `DrainQueue`: about to test `buffer_.empty()`
  | dPend                                        -- … about to load `pending`
  | dNot (pn : Nat)                              -- … about to load `notified`
  | done                                         -- the worker thread has finished
  deriving DecidableEq, Repr

/-- `ForceFlush` caller; `bh` = ghost: `head` when the call began -/
inductive FPc where
  | idle | chk (bh : Nat) | ticket (bh : Nat) | wait (bh cur : Nat) (seen : Option Nat) | ret (bh : Nat) (ok : Bool)
  deriving DecidableEq, Repr

/-- `Shutdown` caller (also the destructor path); `a` = `already_shutdown` -/
inductive SPc where
  | idle | begin | locked | joinW (a : Bool) | expB | expE | unlockP | ret
  deriving DecidableEq, Repr

/-- producer (`OnEnd` / `OnEmit`); `e0` = ghost: `exported` when the `Add` began -/
inductive PPc where
  | idle | chk | add (e0 : Nat) | fin | noop
  deriving DecidableEq, Repr

structure St where
  maxQ : Nat
  maxB : Nat
  head : Nat
  tail : Nat
  exported : Nat              -- records handed to `exporter.Export` so far (counted when the call returns)
  isShutdown : Bool
  pending : Nat
  notified : Nat
  wpc : WPc
  joined : Bool               -- `worker_thread_` has been joined (no longer joinable)
  fl : Nat → FPc
  sd : Nat → SPc
  pr : Nat → PPc
  sdLock : Option Nat         -- holder of `shutdown_m`
  -- ghosts
  sdHead : Nat                -- `head` when `is_shutdown` was set
  tickHead : Nat → Nat        -- `head` when ticket `t ≥ 1` was issued
  flushedUpTo : Nat           -- `exported` at the last completed `exporter.ForceFlush`
  inExport : Nat              -- `exporter.Export` calls in flight
  batches : List Nat          -- sizes of the batches delivered, latest first
  expShutdowns : Nat          -- `exporter.Shutdown` calls begun
  sdReturned : Bool           -- some `Shutdown` call has returned
  lateCalls : Nat             -- exporter calls begun after some `Shutdown` had returned
  begun : Nat                 -- `Add` calls begun (producers that passed the `is_shutdown` test)
  dropped : Nat

inductive Act where
  | wWake | wStep
  | fStep (f : Nat) (ret : Bool)     -- `ret`: in `wait`, return now (with what was last observed) instead of observing again
  | sStep (i : Nat)
  | pStep (p : Nat) (drop : Bool)    -- `drop`: in `add`, the queue reported full
  deriving Repr

def next (r : Ret) (last : Bool) (T R : Nat) : WPc :=
  if last then (match r with | .loop => .idle | .drain => .dEmpty) else .ticket r T R

def late (s : St) : Nat := if s.sdReturned then s.lateCalls + 1 else s.lateCalls

def wStep (s : St) : Option St :=
  match s.wpc with
  | .idle => none
  | .chk => some { s with wpc := if s.isShutdown then .dEmpty else .ticket .loop 0 0 }
  | .ticket r T R => some { s with wpc := .size r s.pending T R }
  | .size r n T R =>
      let S := s.head - s.tail
      let T' := if n > T then n else T
      let R' := if n > T then S else R
      let num := if S ≥ s.maxB then s.maxB else S
      if num = 0 then some { s with wpc := .nChk r n true T' R' }
      else some { s with wpc := .consume r n T' R' num }
  | .consume r n T R num => some { s with tail := s.tail + num, wpc := .exportB r n T R num }
  | .exportB r n T R num => some { s with inExport := s.inExport + 1, lateCalls := late s, wpc := .exportE r n T R num }
  | .exportE r n T R num =>
      some { s with exported := s.exported + num, batches := num :: s.batches, inExport := s.inExport - 1, wpc := if R - num = 0 then .nChk r n false T 0 else .ticket r T (R - num) }
  | .nChk r n last T R =>
      if n > s.notified then some { s with wpc := .flushB r n last T R } else some { s with wpc := next r last T R }
  | .flushB r n last T R => some { s with lateCalls := late s, wpc := .flushE r n last T R }
  | .flushE r n last T R => some { s with flushedUpTo := s.exported, wpc := .pubLd r n last T R }
  | .pubLd r n last T R =>
      if n > s.notified then some { s with wpc := .pubCas r n last T R s.notified } else some { s with wpc := next r last T R }
  | .pubCas r n last T R v =>
      if s.notified = v then some { s with notified := n }       -- success; `expected` keeps `v`, the loop runs once more
      else if n > s.notified then some { s with wpc := .pubCas r n last T R s.notified }
      else some { s with wpc := next r last T R }
  | .dEmpty => if s.head = s.tail then some { s with wpc := .dPend } else some { s with wpc := .ticket .drain 0 0 }
  | .dPend => some { s with wpc := .dNot s.pending }
  | .dNot pn => if pn ≤ s.notified then some { s with wpc := .done } else some { s with wpc := .ticket .drain 0 0 }
  | .done => none

def fStep (s : St) (f : Nat) (ret : Bool) : Option St :=
  match s.fl f with
  | .idle => some { s with fl := upd s.fl f (.chk s.head) }
  | .chk bh => if s.isShutdown then some { s with fl := upd s.fl f (.ret bh false) }
               else some { s with fl := upd s.fl f (.ticket bh) }
  | .ticket bh => some { s with pending := s.pending + 1, tickHead := upd s.tickHead (s.pending + 1) s.head, fl := upd s.fl f (.wait bh (s.pending + 1) none) }
  | .wait bh cur seen =>
      if ret then (match seen with
        | some v => some { s with fl := upd s.fl f (.ret bh (decide (v ≥ cur))) }
        | none => none)
      else some { s with fl := upd s.fl f (.wait bh cur (some s.notified)) }
  | .ret _ _ => none

def sStep (s : St) (i : Nat) : Option St :=
  match s.sd i with
  | .idle => some { s with sd := upd s.sd i .begin }
  | .begin => if s.sdLock = none then some { s with sdLock := some i, sd := upd s.sd i .locked } else none
  | .locked =>
      some { s with isShutdown := true, sdHead := if s.isShutdown then s.sdHead else s.head, sd := upd s.sd i (if s.joined then (if s.isShutdown then .unlockP else .expB) else .joinW s.isShutdown) }
  | .joinW a => if s.wpc = .done then some { s with joined := true, sd := upd s.sd i (if a then .unlockP else .expB) } else none
  | .expB => some { s with expShutdowns := s.expShutdowns + 1, lateCalls := late s, sd := upd s.sd i .expE }
  | .expE => some { s with sd := upd s.sd i .unlockP }
  | .unlockP => some { s with sdLock := none, sdReturned := true, sd := upd s.sd i .ret }
  | .ret => none

/-- a failing `Add` is justified by C11's `add_fails_only_when_full`: the `Add`s begun before it returns, itself
    excluded, minus what had been exported (hence consumed and cleared) when it began, fill the queue -/
def dropGuard (s : St) (e0 : Nat) : Prop := s.begun - 1 - e0 ≥ s.maxQ
instance (s : St) (e0 : Nat) : Decidable (dropGuard s e0) := by unfold dropGuard; exact inferInstance

def pStep (s : St) (p : Nat) (drop : Bool) : Option St :=
  match s.pr p with
  | .idle => some { s with pr := upd s.pr p .chk }
  | .chk => if s.isShutdown then some { s with pr := upd s.pr p .noop }
            else some { s with begun := s.begun + 1, pr := upd s.pr p (.add s.exported) }
  | .add e0 =>
      if drop then (if dropGuard s e0 then some { s with dropped := s.dropped + 1, pr := upd s.pr p .fin } else none)
      else if s.head - s.tail < s.maxQ then some { s with head := s.head + 1, pr := upd s.pr p .fin } else none
  | .fin => some { s with pr := upd s.pr p .idle }
  | .noop => some { s with pr := upd s.pr p .idle }

def step (s : St) : Act → Option St
  | .wWake => if s.wpc = .idle then some { s with wpc := .chk } else none
  | .wStep => wStep s
  | .fStep f r => fStep s f r
  | .sStep i => sStep s i
  | .pStep p d => pStep s p d

def init (maxQ maxB : Nat) : St :=
  { maxQ := maxQ, maxB := maxB, head := 0, tail := 0, exported := 0, isShutdown := false, pending := 0, notified := 0,
    wpc := .idle, joined := false, fl := fun _ => .idle, sd := fun _ => .idle, pr := fun _ => .idle, sdLock := none,
    sdHead := 0, tickHead := fun _ => 0, flushedUpTo := 0, inExport := 0, batches := [], expShutdowns := 0,
    sdReturned := false, lateCalls := 0, begun := 0, dropped := 0 }

def run (s : St) : List Act → Option St
  | [] => some s
  | a :: as => match step s a with
    | some s' => run s' as
    | none => none

end Otel.Batch
