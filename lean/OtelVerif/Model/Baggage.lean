import OtelVerif.Model.Idx
import OtelVerif.Model.KvList
import OtelVerif.Model.KvTokIdx
import OtelVerif.Gen.Baggage
/-! `baggage/baggage.h` (`UrlEncode`, `UrlDecode`, `FromHeader`, `ToHeader`, `Set`, `Delete`, `GetValue`) on top of the
    tokenizer and the fixed-capacity entry array of `common/kv_properties.h` (`Model/KvList.lean`; Baggage uses the
    default tokenizer options: `,` / `=` / `ignore_empty_members = true`).

    `UrlDecode` is modelled with explicit indices: every `str[i]`, `str[i + 1]`, `str[i + 2]` is a checked read
    (`IxFault.oob` outside the string).  `FromHeader` runs the index-explicit tokenizer and `Trim` of
    `Model/KvTokIdx.lean`; only `NumTokens` (which has no index access of its own) is taken at list level. -/
namespace Otel
namespace Baggage

abbrev Entries := List (Bytes × Bytes)

/-- C-locale `isalnum` / `isdigit` (bytes ≥ 0x80 are not alphanumeric) -/
def isDigit (c : UInt8) : Bool := 48 ≤ c && c ≤ 57
def isAlnum (c : UInt8) : Bool := isDigit c || (65 ≤ c && c ≤ 90) || (97 ≤ c && c ≤ 122)

/-- `std::isalnum(c) || c == '-' || c == '_' || c == '.' || c == '~'` -/
def isKeptEnc (c : UInt8) : Bool := isAlnum c || Gen.baggageKeep.contains c
def isKeptDec (c : UInt8) : Bool := isAlnum c || Gen.baggageKeepDecode.contains c

/-- `to_hex(x) = hex[x & 15]` -/
def toHex (x : UInt8) : UInt8 := Gen.baggageHex.getD (x &&& 15).toNat 0

/-- one character of `UrlEncode`; for a (signed) `char` the arithmetic `c >> 4` followed by `& 15` is the high nibble -/
def urlEncodeByte (c : UInt8) : Bytes :=
  if isKeptEnc c then [c]
  else if c == Gen.baggageSpace then [Gen.baggagePlus]
  else [Gen.baggageEscape, toHex (c >>> 4), toHex (c &&& 15)]

def urlEncode (s : Bytes) : Bytes := s.flatMap urlEncodeByte

/-- `IsHex` lambda of `UrlDecode` -/
def isHexC (c : UInt8) : Bool := isDigit c || (65 ≤ c && c ≤ 70) || (97 ≤ c && c ≤ 102)

/-- `from_hex`: `isdigit(c) ? c - '0' : toupper(c) - 'A' + 10` (only ever applied to `IsHex` characters) -/
def fromHex (c : UInt8) : UInt8 :=
  if isDigit c then c - 48 else (if 97 ≤ c && c ≤ 122 then c - 32 else c) - 65 + 10

/-- the `for (i = 0; i < str.size(); i++)` loop of `UrlDecode`; `ok none` = `err = 1; return ""` -/
def urlDecodeLoop (s : Bytes) : Nat → Nat → Bytes → IxRes (Option Bytes)
  | 0, i, acc => if i < s.length then .fault .fuel else .ok (some acc)
  | fuel + 1, i, acc =>
    if i < s.length then
      (Idx.rd s i).bind fun c =>
        if c == Gen.baggageEscape then
          if i + 2 ≥ s.length then .ok none
          else (Idx.rd s (i + 1)).bind fun a =>
            if !isHexC a then .ok none
            else (Idx.rd s (i + 2)).bind fun b =>
              if !isHexC b then .ok none
              else urlDecodeLoop s fuel (i + 3) (acc ++ [(fromHex a <<< 4) ||| fromHex b])
        else if c == Gen.baggagePlus then urlDecodeLoop s fuel (i + 1) (acc ++ [Gen.baggageSpace])
        else if isKeptDec c then urlDecodeLoop s fuel (i + 1) (acc ++ [c])
        else .ok none
    else .ok (some acc)

/-- `UrlDecode(str, err)` -/
def urlDecode (s : Bytes) : IxRes (Option Bytes) := urlDecodeLoop s s.length 0 []

/-- `IsPrintableString` (signed `char`: bytes ≥ 0x80 compare below `' '`) -/
def isPrintable (s : Bytes) : Bool := s.all fun c => Gen.baggagePrintLo ≤ c && c ≤ Gen.baggagePrintHi
def isValidKey (k : Bytes) : Bool := !k.isEmpty && isPrintable k
def isValidValue (v : Bytes) : Bool := isPrintable v

/-- value part and metadata part (from the first `;` on, `;` included; empty when there is none) -/
def splitMeta (v : Bytes) : Bytes × Bytes :=
  match takeTok Gen.baggageMetaSep v with
  | (a, none) => (a, [])
  | (a, some r) => (a, Gen.baggageMetaSep :: r)

/-- `KeyValueProperties::Entry` keeps NUL-terminated copies and hands out `string_view(const char*)`: what is seen of
    a stored string ends at its first NUL byte -/
def cstr (s : Bytes) : Bytes := s.takeWhile (· != 0)

/-- the body of the `FromHeader` loop for one result of `tokenizer.next`; `kv = none` is `kv_valid = false`;
    `ok none` = the member is skipped -/
def parseKv (kv : Option (Bytes × Bytes)) : IxRes (Option (Bytes × Bytes)) :=
  match kv with
  | none => .ok none
  | some (k, v) =>
    if k.length + v.length > Gen.baggageMaxKeyValueSize then .ok none
    else
      let vm := splitMeta v
      (KvIdx.trim1 k).bind fun kt => (urlDecode kt).bind fun kd =>
      (KvIdx.trim1 vm.1).bind fun vt => (urlDecode vt).bind fun vd =>
        match kd, vd with
        | some ks, some vs =>
          if isValidKey ks && isValidValue vs then .ok (some (cstr ks, cstr (vs ++ vm.2))) else .ok none
        | _, _ => .ok none

/-- `while (tokenizer.next(...) && baggage->Size() < cnt)` over the results of `next` -/
def fromHeaderLoop (cnt : Nat) : List (Option (Bytes × Bytes)) → KvProps → IxRes KvProps
  | [], p => .ok p
  | kv :: rest, p =>
    if p.entries.length < cnt then
      (parseKv kv).bind fun r =>
        match r with
        | none => fromHeaderLoop cnt rest p
        | some (k, v) => fromHeaderLoop cnt rest (p.add k v)
    else .ok p

/-- `Baggage::FromHeader` → the ordered entries of the result -/
def fromHeader (h : Bytes) : IxRes Entries :=
  if h.length > Gen.baggageMaxSize then .ok []
  else
    let n := numTok Gen.baggageMemberSep h
    let cnt := if n > Gen.baggageMaxPairs then Gen.baggageMaxPairs else n
    (KvIdx.tokens h Gen.baggageMemberSep Gen.baggageKvSep).bind fun toks =>
      (fromHeaderLoop cnt toks ⟨cnt, []⟩).map (·.entries)

/-- the value as `ToHeader` writes it: the part before the first `;` encoded, the metadata raw -/
def encodeValue (v : Bytes) : Bytes :=
  let vm := splitMeta v
  urlEncode vm.1 ++ vm.2

def memberOf (e : Bytes × Bytes) : Bytes := urlEncode e.1 ++ [Gen.baggageKvSep] ++ encodeValue e.2

/-- members joined by `,` (the `first` flag of `ToHeader`) -/
def joinMembers : List Bytes → Bytes
  | [] => []
  | [m] => m
  | m :: t => m ++ [Gen.baggageMemberSep] ++ joinMembers t

/-- `Baggage::ToHeader` -/
def toHeader (es : Entries) : Bytes := joinMembers (es.map memberOf)

/-- `Baggage::Set`: the new entry first, then every other entry whose key differs; an invalid key or value gives a copy -/
def set (es : Entries) (k v : Bytes) : Entries :=
  let valid := isValidKey k && isValidValue v
  let p0 : KvProps := ⟨es.length + 1, []⟩
  let p1 := if valid then p0.add (cstr k) (cstr v) else p0
  (es.foldl (fun p e => if !valid || k != e.1 then p.add e.1 e.2 else p) p1).entries

/-- `Baggage::Delete` -/
def delete (es : Entries) (k : Bytes) : Entries :=
  (es.foldl (fun p e => if k != e.1 then p.add e.1 e.2 else p) (⟨es.length, []⟩ : KvProps)).entries

/-- `Baggage::GetValue` -/
def get (es : Entries) (k : Bytes) : Option Bytes := (es.find? (·.1 == k)).map (·.2)

/-- `Baggage(const T &keys_and_values)` (→ `KeyValueProperties(const T &)`): the pairs of the caller's container in
    order, each kept as a NUL-terminated copy; no validity check, capacity = the container's size -/
def ofPairs (kvs : List (Bytes × Bytes)) : Entries :=
  (kvs.foldl (fun p e => p.add (cstr e.1) (cstr e.2)) (⟨kvs.length, []⟩ : KvProps)).entries

/-- the loop of `KeyValueProperties::GetAllEntries(callback)` for a callback that answers `false` at its `stop`-th call
    (`stop = 0`: never): the entries handed to the callback so far, and the result -/
def visitLoop (stop : Nat) : Entries → Nat → Entries → Entries × Bool
  | [], _, seen => (seen, true)
  | e :: t, calls, seen =>
    if calls + 1 = stop then (seen ++ [e], false) else visitLoop stop t (calls + 1) (seen ++ [e])

/-- `Baggage::GetAllEntries` -/
def visit (es : Entries) (stop : Nat) : Entries × Bool := visitLoop stop es 0 []

end Baggage
end Otel
