import OtelVerif.Model.Ring
/-! # The get-or-create protocol of `TracerProvider::GetTracer`, `MeterProvider::GetMeter`, `LoggerProvider::GetLogger`

Any number of threads request objects of ONE provider by scope key (`sdk/src/trace/tracer_provider.cc`,
`sdk/src/metrics/meter_provider.cc`, `sdk/src/logs/logger_provider.cc`: the three functions have the same shape, a provider
is one instance of this model).  One step = what the code does between two points at which another thread can be scheduled:
acquire `lock_` (`std::lock_guard`), walk the list comparing scopes (found, or not), construct the new object (its constructor
evaluates the scope configurator), `push_back`, release the mutex, hand the pointer to the caller.  A scope key stands for
the tuple (name, version, schema url, attributes [, logger name]) the request names: the model only compares keys.  An
object's identity is its allocation number.  `Props/C19Race.lean` proves, for every interleaving, that the list never holds
two entries with equal keys, that every request returns an entry of the list with the requested key, that two requests with
equal keys return the same object and requests with different keys different objects, and that nothing ever leaves the list.
The step structure (one lock guard on `lock_` declared before the first use of the list and held to the return; one
`push_back` after the walk) is tied to the source text by `Gen/GetScopeLock.lean` (`tools/gen_c19race.py`). -/
namespace Otel.GetScopeLock
open Otel.Ring (upd upd_same upd_other)

/-- an entry of the provider's list (`tracers_` / `meters_` / `loggers_`): the scope it was created for, its identity -/
structure Ent where
  key : Nat
  id : Nat
  deriving DecidableEq, Repr

/-- program counter of one thread -/
inductive Pc where
  | idle
  | gLock (k : Nat)                         -- about to acquire `lock_`
  | gScan (k : Nat)                         -- holds the mutex: about to walk the list
  | gCreate (k : Nat)                       -- holds the mutex: the walk missed; about to construct the object
  | gPush (k : Nat) (e : Ent)               -- holds the mutex: `e` constructed; about to `push_back`
  | gHave (k : Nat) (e : Ent)               -- holds the mutex: `e` is in the list (found, or just appended); about to release
  | gOut (k : Nat) (e : Ent)                -- released: about to hand `e` to the caller
  deriving DecidableEq, Repr

/-- a completed request: who asked, for which key, what it got -/
structure Ret where
  t : Nat
  key : Nat
  ent : Ent
  deriving DecidableEq, Repr

structure St where
  lock : Option Nat                         -- holder of `lock_`
  list : List Ent                           -- `tracers_` / `context_->meters_` / `loggers_`
  next : Nat                                -- ghost: objects constructed so far = the identity of the next one
  pc : Nat → Pc
  rets : List Ret                           -- ghost: every completed request, in order of return

inductive Act where
  | call (t : Nat) (k : Nat)
  | step (t : Nat)
  deriving Repr

/-- the walk over the list: the first entry whose scope equals the requested one -/
def lookup (l : List Ent) (k : Nat) : Option Ent := l.find? (fun e => e.key == k)

def call (s : St) (t : Nat) (k : Nat) : Option St :=
  match s.pc t with
  | .idle => some { s with pc := upd s.pc t (.gLock k) }
  | _ => none

def step (s : St) (t : Nat) : Option St :=
  match s.pc t with
  | .idle => none
  | .gLock k => if s.lock = none then some { s with lock := some t, pc := upd s.pc t (.gScan k) } else none
  | .gScan k =>
    match lookup s.list k with
    | some e => some { s with pc := upd s.pc t (.gHave k e) }
    | none => some { s with pc := upd s.pc t (.gCreate k) }
  | .gCreate k => some { s with next := s.next + 1, pc := upd s.pc t (.gPush k ⟨k, s.next⟩) }
  | .gPush k e => some { s with list := s.list ++ [e], pc := upd s.pc t (.gHave k e) }
  | .gHave k e => some { s with lock := none, pc := upd s.pc t (.gOut k e) }
  | .gOut k e => some { s with rets := s.rets ++ [⟨t, k, e⟩], pc := upd s.pc t .idle }

def act (s : St) : Act → Option St
  | .call t k => call s t k
  | .step t => step s t

def init : St := { lock := none, list := [], next := 0, pc := fun _ => .idle, rets := [] }

def run (s : St) : List Act → Option St
  | [] => some s
  | a :: as => match act s a with
    | some s' => run s' as
    | none => none

/-! ## Refinement map: the events of a real execution under the deterministic scheduler -/

inductive EvKind where
  | call (k : Nat)
  | lock
  | create (id : Nat)                       -- the scope configurator ran inside the constructor of object `id`
  | unlock
  | ret (id : Nat) (key : Nat)              -- the caller received object `id`, whose scope content is `key`
  deriving DecidableEq, Repr

structure Ev where
  t : Nat
  k : EvKind
  deriving Repr

def isPushOf (id : Nat) : Pc → Bool
  | .gPush _ e => e.id == id
  | _ => false

def guardPc (p : Pc → Bool) (t : Nat) (s : Option St) : Option St :=
  match s with
  | some s' => if p (s'.pc t) then some s' else none
  | none => none

def astep (s : St) (e : Ev) : Option St :=
  let t := e.t
  match s.pc t, e.k with
  | .idle, .call k => call s t k
  | .gLock _, .lock => (step s t).bind fun s1 => step s1 t                               -- lock, then the walk
  | .gCreate _, .create id => guardPc (isPushOf id) t (step s t)                         -- the walk missed: construct
  | .gPush _ _, .unlock => (step s t).bind fun s1 => step s1 t                           -- push_back, then the release
  | .gHave _ _, .unlock => step s t                                                      -- the walk found: release
  | .gOut _ e', .ret id key => if e'.id = id ∧ e'.key = key then step s t else none
  | _, _ => none

def arun (s : St) : List Ev → Option St
  | [] => some s
  | e :: es => match astep s e with
    | some s' => arun s' es
    | none => none

/-! ## The same functions with the lookup and the creation under SEPARATE lock scopes (not the code: a contrast)

`stepSplit` releases the mutex after a walk that missed, constructs unlocked and re-acquires only for the `push_back`, without
walking again.  `Props/C19Race.lean` exhibits an interleaving of it with two entries of one key (`split_lock_witness`): the
theorems below are about the lock discipline, not about the data structure. -/

def stepSplit (s : St) (t : Nat) : Option St :=
  match s.pc t with
  | .gScan k =>
    match lookup s.list k with
    | some e => some { s with pc := upd s.pc t (.gHave k e) }
    | none => some { s with lock := none, pc := upd s.pc t (.gCreate k) }
  | .gPush k e => if s.lock = none then some { s with lock := some t, list := s.list ++ [e], pc := upd s.pc t (.gHave k e) } else none
  | _ => step s t

def runSplit (s : St) : List Act → Option St
  | [] => some s
  | .call t k :: as => match call s t k with
    | some s' => runSplit s' as
    | none => none
  | .step t :: as => match stepSplit s t with
    | some s' => runSplit s' as
    | none => none

end Otel.GetScopeLock
