import OtelVerif.Model.Basic
import OtelVerif.Gen.ContextKeys
/-! # Model of `context/context.h`, `context/runtime_context.h`, `trace/scope.h`, `Tracer::GetCurrentSpan`

`Context` is a persistent singly linked list of `DataList` nodes; a context *is* its head pointer
(`operator==` compares `head_`).  The model keeps every context ever created in an append-only store,
`CtxId` = creation index (id 0 = the default, empty context, `head_ == nullptr`), and a context's content is
the chain of nodes reachable from its head, most recent first.  A derived context's chain is
`new nodes ++ parent's chain` — exactly the sharing `next_ = head_` sets up.

Mirrors the code after `fix: D19` (a node without key, left by an empty key-value container, binds nothing). -/
namespace Otel.Context

/-- `ContextValue` = variant<monostate, bool, int64_t, uint64_t, double, shared_ptr<Span>,
    shared_ptr<SpanContext>, shared_ptr<Baggage>>; doubles by bit pattern, shared pointers by object identity -/
inductive Val where
  | none
  | bool (b : Bool)
  | i64 (n : Int)
  | u64 (n : Nat)
  | dbl (bits : Nat)
  | span (i : Nat)
  | spanCtx (i : Nat)
  | baggage (i : Nat)
  deriving DecidableEq, Repr, Inhabited

/-- one `DataList` node; `key = none` is the node `DataList()` leaves when the iterable was empty
    (`key_ == nullptr`, `key_length_ == 0`, `value_` = monostate) -/
structure Node where
  key : Option Bytes
  val : Val
  deriving DecidableEq, Repr

abbrev Chain := List Node

/-- `Context::GetValue`: first node from the head whose key has the same length and bytes -/
def lookup (k : Bytes) : Chain → Val
  | [] => .none
  | n :: r => if n.key = some k then n.val else lookup k r

/-- `Context::HasKey` = `!holds_alternative<monostate>(GetValue(key))` -/
def hasKey (k : Bytes) (c : Chain) : Bool := decide (lookup k c ≠ .none)

/-- the nodes `DataList(const T &keys_and_vals)` builds: the first pair becomes the head, every further pair is
    appended behind the previous one; an empty container leaves the default-constructed head -/
def nodesOf : List (Bytes × Val) → List Node
  | [] => [⟨none, .none⟩]
  | kv :: kvs => (kv :: kvs).map fun e => ⟨some e.1, e.2⟩

abbrev CtxId := Nat

/-- every context created so far; index = identity -/
structure Store where
  chains : List Chain

namespace Store
def init : Store := ⟨[[]]⟩
def size (s : Store) : Nat := s.chains.length
def chain? (s : Store) (id : CtxId) : Option Chain := s.chains[id]?
/-- a freshly allocated head node: new identity -/
def add (s : Store) (c : Chain) : Store × CtxId := (⟨s.chains ++ [c]⟩, s.chains.length)
end Store

/-- `Context::SetValue(key, value)`: `Context(key, value)` then `context.head_->next_ = head_` -/
def setValue (s : Store) (p : CtxId) (k : Bytes) (v : Val) : Option (Store × CtxId) :=
  (s.chain? p).map fun c => s.add (⟨some k, v⟩ :: c)

/-- `Context::SetValues(values)`: `Context(values)`, walk to its last node, `last->next_ = head_` -/
def setValues (s : Store) (p : CtxId) (kvs : List (Bytes × Val)) : Option (Store × CtxId) :=
  (s.chain? p).map fun c => s.add (nodesOf kvs ++ c)

def getValue (s : Store) (id : CtxId) (k : Bytes) : Option Val := (s.chain? id).map (lookup k)

/-! ## `ThreadLocalContextStorage::Stack`, one per thread; top first -/

abbrev Stack := List CtxId

/-- `Stack::Top()`: the default context when empty -/
def top (s : Stack) : CtxId := s.headD 0

/-- `Stack::Push` (growth through `Resize` copies the elements: not visible here, crossed by the harness) -/
def attach (s : Stack) (c : CtxId) : Stack := c :: s

/-- `while (!(token == Top())) Pop(); Pop();` -/
def popThrough (tok : CtxId) : Stack → Stack
  | [] => []
  | c :: r => if c = tok then r else popThrough tok r

/-- `ThreadLocalContextStorage::Detach`; `Pop()` of an empty stack does nothing -/
def detach (s : Stack) (tok : CtxId) : Stack × Bool :=
  if tok = top s then (s.tail, true)
  else if s.contains tok then (popThrough tok s, true)
  else (s, false)

/-- `Tracer::GetCurrentSpan` / `trace::GetSpan`: the span bound to `kSpanKey`, else the invalid default span -/
def spanOf (c : Chain) : Option Nat :=
  match lookup Gen.ctxSpanKey c with
  | .span i => some i
  | _ => none

/-! ## Programs: the operations of the harness line protocol -/

inductive Op where
  | set (t p : Nat) (k : Bytes) (v : Val)                  -- ctx[p].SetValue(k, v)
  | setm (t p : Nat) (kvs : List (Bytes × Val))            -- ctx[p].SetValues(kvs)
  | mk (t : Nat) (kvs : List (Bytes × Val))                -- Context(kvs)
  | mk1 (t : Nat) (k : Bytes) (v : Val)                    -- Context(k, v)
  | get (t p : Nat) (k : Bytes)                            -- ctx[p].GetValue(k), HasKey(k)
  | rset (t : Nat) (k : Bytes) (v : Val) (p : Option Nat)  -- RuntimeContext::SetValue(k, v, p)
  | rget (t : Nat) (k : Bytes) (p : Option Nat)            -- RuntimeContext::GetValue(k, p)
  | attach (t p : Nat)                                     -- RuntimeContext::Attach(ctx[p]) -> token
  | detach (t m : Nat)                                     -- RuntimeContext::Detach(*token[m])
  | drop (t m : Nat)                                       -- destroy token[m] (its destructor detaches)
  | cur (t : Nat)                                          -- RuntimeContext::GetCurrent()
  | span (t : Nat)                                         -- Tracer::GetCurrentSpan()
  | scope (t i : Nat)                                      -- new Scope(span[i])
  | close (t j : Nat)                                      -- destroy scope[j]
  | dump (t : Nat)                                         -- the whole stack of thread t
  | conc (t rounds : Nat)                                  -- fresh OS threads run attach/scope/detach rounds truly concurrently

def Op.thread : Op → Nat
  | .set t .. | .setm t .. | .mk t .. | .mk1 t .. | .get t .. | .rset t .. | .rget t .. | .attach t ..
  | .detach t .. | .drop t .. | .cur t | .span t | .scope t .. | .close t .. | .dump t | .conc t .. => t

inductive Obs where
  | ctx (id : CtxId)
  | value (v : Val) (has : Bool)
  | token (m : Nat)
  | flag (b : Bool)
  | ok
  | cur (id : CtxId)
  | span (o : Option Nat)
  | scope (j : Nat) (id : CtxId)
  | stack (s : Stack)
  | concOk
  deriving DecidableEq, Repr

structure State where
  nthreads : Nat
  store : Store
  stacks : Nat → Stack
  toks : List (CtxId × Bool)     -- token -> its context, still alive
  scopes : List (CtxId × Bool)   -- scope -> the context its token holds, still open

def State.init (n : Nat) : State :=
  { nthreads := n
    store := Store.init
    stacks := fun _ => []
    toks := []
    scopes := [] }

def setStack (f : Nat → Stack) (t : Nat) (s : Stack) : Nat → Stack := fun u => if u = t then s else f u

def killAt (l : List (CtxId × Bool)) (m : Nat) : List (CtxId × Bool) := l.set m ((l.getD m (0, false)).1, false)

def State.withNew (s : State) (r : Option (Store × CtxId)) : Option (State × Obs) :=
  r.map fun (st, id) => ({ s with store := st }, Obs.ctx id)

/-- number of span / span-context / baggage objects the harness keeps -/
def poolSize : Nat := 4

def valOk : Val → Bool
  | .span i | .spanCtx i | .baggage i => i < poolSize
  | .u64 n => n < 2 ^ 64
  | .dbl n => n < 2 ^ 64
  | .i64 n => decide (-(2 : Int) ^ 63 ≤ n ∧ n < 2 ^ 63)
  | _ => true

/-- one operation; `none` = the program refers to something that does not exist (the harness prints `bad-op`) -/
def step (s : State) : Op → Option (State × Obs)
  | .set t p k v => if t < s.nthreads ∧ valOk v then s.withNew (setValue s.store p k v) else none
  | .setm t p kvs => if t < s.nthreads ∧ kvs.all (valOk ·.2) then s.withNew (setValues s.store p kvs) else none
  | .mk t kvs => if t < s.nthreads ∧ kvs.all (valOk ·.2) then s.withNew (setValues s.store 0 kvs) else none
  | .mk1 t k v => if t < s.nthreads ∧ valOk v then s.withNew (setValue s.store 0 k v) else none
  | .get t p k =>
    if t < s.nthreads then (s.store.chain? p).map fun c => (s, .value (lookup k c) (hasKey k c)) else none
  | .rset t k v p =>
    if t < s.nthreads ∧ valOk v then s.withNew (setValue s.store (p.getD (top (s.stacks t))) k v) else none
  | .rget t k p =>
    if t < s.nthreads then
      (s.store.chain? (p.getD (top (s.stacks t)))).map fun c => (s, .value (lookup k c) (hasKey k c))
    else none
  | .attach t p =>
    if t < s.nthreads ∧ p < s.store.size then
      some ({ s with stacks := setStack s.stacks t (attach (s.stacks t) p), toks := s.toks ++ [(p, true)] }, .token s.toks.length)
    else none
  | .detach t m =>
    if t < s.nthreads then
      match s.toks[m]? with
      | some (c, true) =>
        let r := detach (s.stacks t) c
        some ({ s with stacks := setStack s.stacks t r.1 }, .flag r.2)
      | _ => none
    else none
  | .drop t m =>
    if t < s.nthreads then
      match s.toks[m]? with
      | some (c, true) =>
        some ({ s with stacks := setStack s.stacks t (detach (s.stacks t) c).1, toks := killAt s.toks m }, .ok)
      | _ => none
    else none
  | .cur t => if t < s.nthreads then some (s, .cur (top (s.stacks t))) else none
  | .span t =>
    if t < s.nthreads then (s.store.chain? (top (s.stacks t))).map fun c => (s, .span (spanOf c)) else none
  | .scope t i =>
    if t < s.nthreads ∧ i < poolSize then
      (setValue s.store (top (s.stacks t)) Gen.ctxSpanKey (.span i)).map fun (st, id) =>
        ({ s with store := st, stacks := setStack s.stacks t (attach (s.stacks t) id), scopes := s.scopes ++ [(id, true)] },
         .scope s.scopes.length id)
    else none
  | .close t j =>
    if t < s.nthreads then
      match s.scopes[j]? with
      | some (c, true) =>
        some ({ s with stacks := setStack s.stacks t (detach (s.stacks t) c).1, scopes := killAt s.scopes j }, .ok)
      | _ => none
    else none
  | .dump t => if t < s.nthreads then some (s, .stack (s.stacks t)) else none
  -- the concurrent rounds run on fresh threads (their own, empty stacks), are balanced, and keep no context:
  -- by `thread_isolation` / `older_unaffected` nothing of it is visible afterwards
  | .conc t rounds => if t < s.nthreads ∧ rounds ≤ 50 then some (s, .concOk) else none

/-- a whole program, with the observation of every step -/
def run (s : State) : List Op → Option (State × List Obs)
  | [] => some (s, [])
  | o :: os =>
    match step s o with
    | none => none
    | some (s', ob) =>
      match run s' os with
      | none => none
      | some (s'', obs) => some (s'', ob :: obs)

end Otel.Context
