import OtelVerif.Model.Basic
/-! The fragment of ECMAScript regular expressions the repo uses with `std::regex_match`:
    an anchored concatenation of character classes, each with a `{lo,hi}` repetition.
    `tools/extract.py` renders each `std::regex` literal found in the source as a `List RxItem`. -/
namespace Otel

structure RxItem where
  ranges : List (Nat × Nat)
  lo : Nat
  hi : Option Nat
  deriving Repr

def RxItem.has (it : RxItem) (b : UInt8) : Bool :=
  it.ranges.any fun r => r.1 ≤ b.toNat && b.toNat ≤ r.2

def RxItem.allows (it : RxItem) (k : Nat) : Bool :=
  match it.hi with
  | none => true
  | some h => k ≤ h

/-- backtracking matcher: `k` = repetitions of the head item consumed so far -/
def rxGo : List RxItem → Nat → Bytes → Bool
  | [], _, s => s.isEmpty
  | it :: rest, k, [] => decide (it.lo ≤ k) && rxGo rest 0 []
  | it :: rest, k, c :: t =>
      (decide (it.lo ≤ k) && rxGo rest 0 (c :: t)) ||
      (it.has c && it.allows (k + 1) && rxGo (it :: rest) (k + 1) t)
termination_by items _ s => (s.length, items.length)

def rxMatch (items : List RxItem) (s : Bytes) : Bool := rxGo items 0 s

end Otel
