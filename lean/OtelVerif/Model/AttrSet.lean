import OtelVerif.Model.Basic
import OtelVerif.Gen.Series
/-! Executable model of the attribute-set key of a metric series:
    `OrderedAttributeMap` (a `std::map<std::string, OwnedAttributeValue>`: keys sorted bytewise, last write wins),
    `FilteredOrderedAttributeMap(attributes, processor)` (keep a pair iff `processor->isPresent(key)`),
    `FilteringAttributesProcessor::isPresent` (allow-list, looked up by the key's bytes — fix D11),
    `GetHashForAttributeMap` (fold over the sorted pairs). -/
namespace Otel.Attr

/-- `OwnedAttributeValue` (`const char*` and `string_view` both become `std::string`) -/
inductive Value
  | bool (b : Bool)
  | i32 (i : Int)
  | u32 (n : Nat)
  | i64 (i : Int)
  | dbl (q : Rat)
  | str (s : Bytes)
  | boolArr (l : List Bool)
  | i32Arr (l : List Int)
  | u32Arr (l : List Nat)
  | i64Arr (l : List Int)
  | dblArr (l : List Rat)
  | strArr (l : List Bytes)
  | u64 (n : Nat)
  | u64Arr (l : List Nat)
  | u8Arr (l : List UInt8)
deriving DecidableEq

/-- `std::string::operator<`: bytewise (unsigned) lexicographic, a proper prefix is smaller -/
def bytesLt : Bytes → Bytes → Bool
  | [], [] => false
  | [], _ :: _ => true
  | _ :: _, [] => false
  | a :: as, b :: bs => if a < b then true else if b < a then false else bytesLt as bs

abbrev KV := Bytes × Value

/-- `(*this)[std::string(key)] = value` on a `std::map` kept as a sorted association list -/
def insertKV (k : Bytes) (v : Value) : List KV → List KV
  | [] => [(k, v)]
  | e :: t => if bytesLt k e.1 then (k, v) :: e :: t else if k = e.1 then (k, v) :: t else e :: insertKV k v t

/-- `OrderedAttributeMap(attributes)`: `SetAttribute` for every pair in the caller's order -/
def canon (kvs : List KV) : List KV := kvs.foldl (fun m e => insertKV e.1 e.2 m) []

/-- the view's attributes processor -/
inductive Filter
  | all                          -- DefaultAttributesProcessor
  | allow (keys : List Bytes)    -- FilteringAttributesProcessor

/-- `isPresent(key)` -/
def Filter.isPresent : Filter → Bytes → Bool
  | .all, _ => true
  | .allow ks, k => ks.contains k

/-- `FilteredOrderedAttributeMap(attributes, processor)`: the key of the series a measurement belongs to -/
def keyOf (f : Filter) (kvs : List KV) : List KV :=
  kvs.foldl (fun m e => if f.isPresent e.1 then insertKV e.1 e.2 m else m) []

/-- `seed ^= h + 0x9e3779b9 + (seed << 6) + (seed >> 2)` on a 64-bit `size_t` -/
def hashCombine (seed h : Nat) : Nat :=
  seed ^^^ ((h + 0x9e3779b9 + (seed <<< 6) + (seed >>> 2)) % 2 ^ 64)

/-- `GetHashForAttributeMap`: fold over the sorted pairs; `hk` = `std::hash<std::string>`, `hv` = what the value visitor
    does to the seed (one combine for a scalar, one per element for an array) — both abstract -/
def hashOf (hk : Bytes → Nat) (hv : Value → Nat → Nat) (m : List KV) : Nat :=
  m.foldl (fun seed e => hv e.2 (hashCombine seed (hk e.1))) 0

/-- `kOverflowAttributes` -/
def overflowKey : List KV := [(Gen.kAttributesLimitOverflowKey, Value.bool Gen.kAttributesLimitOverflowValue)]

end Otel.Attr
