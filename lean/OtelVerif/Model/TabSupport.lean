/-! Look-up and unpacking helpers for the generated graph tables `Gen/Tab*.lean` (`tools/tabulate.py`).

Lean's front end is slow on long list literals and on very long numerals, so the generator packs its data into natural
number literals of moderate size and the tables are *defined* by unpacking them (core `Nat` bit operations, which the kernel
evaluates with GMP):

* a table over one byte with fixed-width values is one numeral (1, 8 or 16 bits per entry, entry 0 at the little end);
* a table over (byte, byte) is a list of 256 such rows;
* a table over byte strings (`pairs`), or with byte-string values, is a list of chunks `(digit count, numeral)`; a chunk is a
  stream of `w`-bit digits `n_in, in…, n_out, out…` repeated. -/
namespace Otel.TabS

def row (rows : List Nat) (a : UInt8) : Nat := rows.getD a.toNat 0

def at8 (rows : List Nat) (a b : UInt8) : UInt8 := UInt8.ofNat ((row rows a >>> (8 * b.toNat)) &&& 255)

def at16 (rows : List Nat) (a b : UInt8) : Nat := (row rows a >>> (16 * b.toNat)) &&& 65535

def bit1 (bits : Nat) (b : UInt8) : Bool := (bits >>> b.toNat) &&& 1 == 1

def bit (rows : List Nat) (a b : UInt8) : Bool := bit1 (row rows a) b

/-- one-row versions: the value for byte `b` -/
def val8 (n : Nat) (b : UInt8) : UInt8 := UInt8.ofNat ((n >>> (8 * b.toNat)) &&& 255)
def val16 (n : Nat) (b : UInt8) : Nat := (n >>> (16 * b.toNat)) &&& 65535

/-- the `k` lowest `w`-bit digits of `v`, lowest first -/
def digits (w : Nat) : Nat → Nat → List Nat
  | 0, _ => []
  | k + 1, v => (v % 2 ^ w) :: digits w k (v >>> w)

/-- `n_in, in…, n_out, out…` repeated -/
def entries : Nat → List Nat → List (List UInt8 × List Nat)
  | 0, _ => []
  | _, [] => []
  | fuel + 1, n :: r =>
    match (r.drop n) with
    | [] => []
    | m :: r2 => ((r.take n).map UInt8.ofNat, r2.take m) :: entries fuel (r2.drop m)

def unpackChunk (w : Nat) (c : Nat × Nat) : List (List UInt8 × List Nat) :=
  let ds := digits w c.1 c.2
  entries ds.length ds

/-- a `pairs` table: input byte string ↦ list of naturals -/
def unpack (w : Nat) (chunks : List (Nat × Nat)) : List (List UInt8 × List Nat) := chunks.flatMap (unpackChunk w)

/-- a table of byte strings (stored as the inputs of a `pairs` stream with empty outputs) -/
def unpackBytes (w : Nat) (chunks : List (Nat × Nat)) : List (List UInt8) := (unpack w chunks).map (·.1)

end Otel.TabS
