/-! Shared vocabulary of the models: byte strings, ASCII classes, C `isspace` trimming. -/
namespace Otel

abbrev Bytes := List UInt8

/-- C-locale `isspace`: space, \t \n \v \f \r -/
def isSpace (c : UInt8) : Bool := c == 32 || (9 ≤ c && c ≤ 13)

/-- `StringUtil::Trim(str)` / `Trim(str,left,right)` restricted to a sub-range: drop leading, then trailing `isspace` bytes -/
def trimLeft : Bytes → Bytes
  | [] => []
  | c :: t => if isSpace c then trimLeft t else c :: t

def trimRight (s : Bytes) : Bytes := (trimLeft s.reverse).reverse

def trim (s : Bytes) : Bytes := trimRight (trimLeft s)

/-- first token up to (not including) the first `sep`; `some rest` = what follows that separator -/
def takeTok (sep : UInt8) : Bytes → Bytes × Option Bytes
  | [] => ([], none)
  | c :: t => if c = sep then ([], some t) else
      let r := takeTok sep t
      (c :: r.1, r.2)

/-- lower-case hex digit for a nibble from a 16-entry table -/
def nibble (tab : List UInt8) (n : Nat) : UInt8 := tab.getD n 0

def hexOfByte (tab : List UInt8) (b : UInt8) : Bytes :=
  [nibble tab ((b.toNat >>> 4) &&& 0xF), nibble tab (b.toNat &&& 0xF)]

def hexOfBytes (tab : List UInt8) (bs : Bytes) : Bytes := bs.flatMap (hexOfByte tab)

def toHexStr (bs : Bytes) : String :=
  String.ofList (bs.flatMap fun b =>
    let d := fun (n : Nat) => if n < 10 then Char.ofNat (48 + n) else Char.ofNat (87 + n)
    [d (b.toNat / 16), d (b.toNat % 16)])

def hexDigitVal (c : Char) : Option Nat :=
  if '0' ≤ c ∧ c ≤ '9' then some (c.toNat - 48)
  else if 'a' ≤ c ∧ c ≤ 'f' then some (c.toNat - 87)
  else if 'A' ≤ c ∧ c ≤ 'F' then some (c.toNat - 55)
  else none

/-- driver-side decoding of a hex argument ("-" = empty) -/
def ofHexStr (s : String) : Option Bytes :=
  if s = "-" then some [] else
  let rec go : List Char → Option Bytes
    | [] => some []
    | [_] => none
    | a :: b :: t => do
      let x ← hexDigitVal a
      let y ← hexDigitVal b
      let r ← go t
      pure (UInt8.ofNat (x * 16 + y) :: r)
  go s.toList

def hexArg (bs : Bytes) : String := if bs.isEmpty then "-" else toHexStr bs

end Otel
