import OtelVerif.Model.Hex
import OtelVerif.Model.TraceState
import OtelVerif.Gen.TraceHeaders
/-! `trace/propagation/http_trace_context.h` -/
namespace Otel
namespace TraceContext

structure SpanCtx where
  traceId : Bytes        -- 16 bytes
  spanId : Bytes         -- 8 bytes
  flags : UInt8
  remote : Bool
  traceState : TraceState.Entries
  deriving Repr, DecidableEq

def SpanCtx.isValid (sc : SpanCtx) : Bool := !allZero sc.traceId && !allZero sc.spanId

/-- `InjectImpl` behind the `IsValid()` guard of `Inject`: (traceparent, tracestate if set) -/
def inject (sc : SpanCtx) : Option (Bytes × Option Bytes) :=
  if !sc.isValid then none
  else
    let tp := [48, 48, 45] ++ traceIdToHex sc.traceId ++ [45] ++ spanIdToHex sc.spanId ++ [45] ++ flagsToHex sc.flags
    let ts := TraceState.toHeader sc.traceState
    some (tp, if ts.isEmpty then none else some ts)

/-- `ExtractContextFromTraceHeaders` on the already trimmed traceparent -/
def extractFromHeaders (tp ts : Bytes) : Option SpanCtx :=
  match splitString 45 4 tp with
  | [ver, tid, sid, fl] =>
    if ver.length != Gen.kVersionSize || tid.length != Gen.kTraceIdSize ||
       sid.length != Gen.kSpanIdSize || fl.length != Gen.kTraceFlagsSize then none
    else if !isValidHex ver || !isValidHex tid || !isValidHex sid || !isValidHex fl then none
    else
      let v := (hexToBinary ver 1).2.headD 0
      if v.toNat = Gen.kInvalidVersion then none
      else if (if v.toNat > Gen.kDefaultAssumedVersion then decide (tp.length < Gen.kTraceParentSize)
               else decide (tp.length ≠ Gen.kTraceParentSize)) then none
      else
        let traceId := (hexToBinary tid (Gen.kTraceIdSize / 2)).2
        let spanId := (hexToBinary sid (Gen.kSpanIdSize / 2)).2
        if allZero traceId || allZero spanId then none
        else some { traceId, spanId, flags := (hexToBinary fl 1).2.headD 0, remote := true,
                    traceState := TraceState.fromHeader ts }
  | _ => none

/-- `ExtractImpl`: `none` = the invalid span context, i.e. `Extract` returns the caller's context -/
def extract (tp ts : Bytes) : Option SpanCtx :=
  let t := trim tp
  if t.isEmpty then none else extractFromHeaders t ts

/-- `Fields(callback)`: the header names are offered in order until the callback answers false;
    `stopAt = n > 0`: the callback answers false on its n-th call (0 = never).  (names seen, return value) -/
def fields (stopAt : Nat) : List Bytes × Bool :=
  if stopAt = 0 ∨ stopAt > Gen.tcFieldNames.length then (Gen.tcFieldNames, true)
  else (Gen.tcFieldNames.take stopAt, false)

/-- `TraceIdFromHex` / `SpanIdFromHex` / `TraceFlagsFromHex`: `HexToBinary` into a zeroed buffer of `n` bytes,
    its return value ignored (too long: the buffer stays zero) -/
def idFromHex (n : Nat) (hex : Bytes) : Bytes := (hexToBinary hex n).2

/-- a span context whose trace state is built member by member with `Set`, last member first -/
def stateBySet (members : TraceState.Entries) : TraceState.Entries :=
  members.reverse.foldl (fun st e => TraceState.set st e.1 e.2) []

end TraceContext
end Otel
