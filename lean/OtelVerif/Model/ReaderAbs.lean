import OtelVerif.Model.Ring
/-! # The periodic exporting metric reader (`periodic_exporting_metric_reader.cc`, `metric_reader.cc`)

Protocol model at the granularity of the accesses that carry the flush / shutdown protocol: `shutdown_`,
`force_flush_pending_sequence_` (`pending`), `force_flush_notified_sequence_` (`notified`), the per-cycle cancel flag,
the spawn / join of the collect thread, `Produce`, the exporter calls.  Measurements are abstracted to a counter
`recorded`; `Produce` snapshots it, `Export` delivers the snapshot.  One worker, one collect thread per cycle, any number
of recorders, `ForceFlush` callers and `Shutdown` callers (`OnShutDown` is serialized by `shutdown_m_` since the D82
repair, so the test of `joinable()` and the `join()` are one step of the model).  Wake-ups and timeouts are
nondeterministic (a cycle may start at any time, the future wait may time out at any time). -/
namespace Otel.Reader
open Otel.Ring (upd upd_same upd_other)

inductive WPc where
  | start                      -- top of `CollectAndExportOnce`: about to load `pending`
  | spawn (n : Nat)            -- about to start the collect thread
  | waitF (n : Nat)            -- waiting on the future (may time out and set the cancel flag)
  | joinC (n : Nat)            -- about to join the collect thread
  | pubLd (n : Nat)            -- about to load `notified`
  | pubCas (n v : Nat)         -- about to CAS `notified` from `v` to `n`
  | cvwait                     -- between cycles, in `cv_.wait_for`
  | loopChk                    -- about to evaluate `IsShutdown()` in the loop condition
  | done
  deriving DecidableEq, Repr

inductive CPc where
  | none | produce | cancelChk (p : Nat) | exportB (p : Nat) | exportE (p : Nat) | fin
  deriving DecidableEq, Repr

/-- `ForceFlush` caller; `bh` = ghost: `recorded` when the call began -/
inductive FPc where
  | idle | ticket (bh : Nat) | wait (bh cur : Nat) (seen : Option Nat) | xfE (bh cur : Nat)
  | after (bh cur : Nat) (xok : Bool) (seen : Option Nat) | ret (bh : Nat) (ok : Bool)
  deriving DecidableEq, Repr

inductive SPc where
  | idle | begin | set | xsB | xsE | ret
  deriving DecidableEq, Repr

structure St where
  shutdown : Bool
  pending : Nat
  notified : Nat
  cancel : Bool
  wpc : WPc
  cpc : CPc
  joined : Bool                -- the worker thread has been joined
  fl : Nat → FPc
  sd : Nat → SPc
  -- ghosts
  recorded : Nat               -- measurements recorded so far
  covered : Nat                -- the largest `Produce` snapshot whose `Export` has returned
  tickRec : Nat → Nat          -- `recorded` when ticket `t ≥ 1` was issued
  skipped : Bool               -- some cycle skipped its Export because the collection was cancelled (timeout)
  cycFloor : Nat               -- `recorded` when the worker read the ticket of the current cycle
  inExport : Nat
  sdReturned : Bool
  lateExports : Nat            -- `Export` calls begun after a `Shutdown` had returned
  xshutdowns : Nat

inductive Act where
  | record                                -- a measurement is recorded
  | wStep (timeout : Bool)                -- `timeout`: in `waitF`, the export timeout fires
  | wWake                                 -- `cv_.wait_for` returns
  | cStep
  | fStep (f : Nat) (choice : Nat) (xok : Bool)   -- choice: 0 observe `notified`, 1 return / give up, 2 go on to the exporter's ForceFlush
  | sStep (i : Nat)
  deriving Repr

def wStep (s : St) (timeout : Bool) : Option St :=
  match s.wpc with
  | .start => some { s with wpc := .spawn s.pending, cycFloor := s.recorded, cancel := false }
  | .spawn n => if s.cpc = .none then some { s with wpc := .waitF n, cpc := .produce } else none
  | .waitF n =>
      if timeout then some { s with cancel := true, wpc := .joinC n }
      else if s.cpc = .fin then some { s with wpc := .joinC n } else none       -- the future became ready
  | .joinC n => if s.cpc = .fin then some { s with cpc := .none, wpc := .pubLd n } else none
  | .pubLd n => if n > s.notified then some { s with wpc := .pubCas n s.notified } else some { s with wpc := .cvwait }
  | .pubCas n v =>
      if s.notified = v then some { s with notified := n }
      else if n > s.notified then some { s with wpc := .pubCas n s.notified }
      else some { s with wpc := .cvwait }
  | .cvwait => none
  | .loopChk => some { s with wpc := if s.shutdown then .done else .start }
  | .done => none

def cStep (s : St) : Option St :=
  match s.cpc with
  | .none => none
  | .produce => some { s with cpc := .cancelChk s.recorded }
  | .cancelChk p => if s.cancel then some { s with skipped := true, cpc := .fin } else some { s with cpc := .exportB p }
  | .exportB p => some { s with inExport := s.inExport + 1, lateExports := if s.sdReturned then s.lateExports + 1 else s.lateExports, cpc := .exportE p }
  | .exportE p => some { s with inExport := s.inExport - 1, covered := if p > s.covered then p else s.covered, cpc := .fin }
  | .fin => none

def fStep (s : St) (f : Nat) (choice : Nat) (xok : Bool) : Option St :=
  match s.fl f with
  | .idle => some { s with fl := upd s.fl f (.ticket s.recorded) }
  | .ticket bh => some { s with pending := s.pending + 1, tickRec := upd s.tickRec (s.pending + 1) s.recorded, fl := upd s.fl f (.wait bh (s.pending + 1) none) }
  | .wait bh cur _ =>
      if choice = 0 then some { s with fl := upd s.fl f (.wait bh cur (some s.notified)) }      -- the wait predicate looks at `notified`
      else if choice = 1 then some { s with fl := upd s.fl f (.ret bh false) }                  -- timed out: `result` is false, returns false
      else some { s with fl := upd s.fl f (.xfE bh cur) }                                       -- `result` true: the exporter's ForceFlush is called
  | .xfE bh cur => some { s with fl := upd s.fl f (.after bh cur xok none) }
  | .after bh cur ok seen =>
      if choice = 0 then some { s with fl := upd s.fl f (.after bh cur ok (some s.notified)) }   -- the final load of `notified`
      else if ok = false then some { s with fl := upd s.fl f (.ret bh false) }                  -- `result && …` short-circuits
      else (match seen with
        | some v => some { s with fl := upd s.fl f (.ret bh (decide (v ≥ cur))) }
        | none => none)
  | .ret _ _ => none

def sStep (s : St) (i : Nat) : Option St :=
  match s.sd i with
  | .idle => some { s with sd := upd s.sd i .begin }
  | .begin => some { s with shutdown := true, sd := upd s.sd i .set }
  | .set =>
      if s.joined then some { s with sd := upd s.sd i .xsB }
      else if s.wpc = .done then some { s with joined := true, sd := upd s.sd i .xsB } else none
  | .xsB => some { s with xshutdowns := s.xshutdowns + 1, sd := upd s.sd i .xsE }
  | .xsE => some { s with sdReturned := true, sd := upd s.sd i .ret }
  | .ret => none

def step (s : St) : Act → Option St
  | .record => some { s with recorded := s.recorded + 1 }
  | .wStep t => wStep s t
  | .wWake => if s.wpc = .cvwait then some { s with wpc := .loopChk } else none
  | .cStep => cStep s
  | .fStep f c x => fStep s f c x
  | .sStep i => sStep s i

def init : St :=
  { shutdown := false, pending := 0, notified := 0, cancel := false, wpc := .start, cpc := .none, joined := false,
    fl := fun _ => .idle, sd := fun _ => .idle, recorded := 0, covered := 0, tickRec := fun _ => 0, skipped := false,
    cycFloor := 0, inExport := 0, sdReturned := false, lateExports := 0, xshutdowns := 0 }

def run (s : St) : List Act → Option St
  | [] => some s
  | a :: as => match step s a with
    | some s' => run s' as
    | none => none

end Otel.Reader
