import OtelVerif.Model.Basic
import OtelVerif.Gen.C18
/-! `sdk/src/common/env_variables.cc` and `disabled.cc`: the environment readers.

An environment value is `Option Bytes`: `none` = the variable is not set.  `getenv` hands out a C string, so real values
never contain a NUL byte; the functions below are nevertheless total over every byte string.

The C library functions the readers lean on are modelled from their specification (C17 7.22.1.4 `strtoull`,
7.4.1 `isspace`/`isdigit` in the "C" locale, POSIX `strcasecmp`); the tie to the real ones is the differential run.

Fixed-width arithmetic is explicit: where the C++ computes in `int64_t` (`system_clock::duration::rep`), the model
computes in `Nat` and returns the token `ub` as soon as a result would not fit — never a wrapped or defaulted value. -/
namespace Otel.Env

def isDigit (c : UInt8) : Bool := 48 ≤ c && c ≤ 57
def digitVal (c : UInt8) : Nat := c.toNat - 48

/-- `tolower` in the "C" locale -/
def toLower (c : UInt8) : UInt8 := if 65 ≤ c && c ≤ 90 then c + 32 else c

/-- `strcasecmp(s, lit) == 0` -/
def ciEq (s lit : Bytes) : Bool := s.map toLower == lit.map toLower

/-! ## GetBoolEnvironmentVariable -/

/-- result of a reader: the `bool` it returns and the out-parameter it leaves behind -/
structure BoolOut where
  ret : Bool
  value : Bool
  deriving Repr, DecidableEq

/-- first literal of the table that compares equal, case-insensitively -/
def boolLookup : List (Bytes × Bool) → Bytes → Option Bool
  | [], _ => none
  | (lit, v) :: rest, s => if ciEq s lit then some v else boolLookup rest s

def getBool : Option Bytes → BoolOut
  | none => ⟨false, false⟩
  | some s =>
    if s.isEmpty then ⟨false, false⟩ else
    match boolLookup Gen.envBoolLiterals s with
    | some v => ⟨true, v⟩
    | none => ⟨true, false⟩            -- warning "invalid value, defaulting to false"

/-- `GetSdkDisabled()` -/
def sdkDisabled (env : Option Bytes) : Bool :=
  let r := getBool env
  if r.ret then r.value else false

/-- `sdk::…::Provider::Set…Provider(p)`: installs `p` unless the SDK is disabled -/
def setProvider {α} (env : Option Bytes) (current new : α) : α :=
  if sdkDisabled env then current else new

/-! ## strtoull (base 10) and GetUintEnvironmentVariable -/

/-- value of a digit string, most significant first, continuing from `acc` -/
def decFrom (acc : Nat) (ds : Bytes) : Nat := ds.foldl (fun a c => a * 10 + digitVal c) acc
def decVal (ds : Bytes) : Nat := decFrom 0 ds

structure Strto where
  value : Nat        -- the `unsigned long long` returned
  endOff : Nat       -- `endptr - nptr`
  erange : Bool      -- `errno` set to `ERANGE` by the call
  deriving Repr, DecidableEq

/-- `strtoull(s, &end, 10)`: optional white space, optional sign, digits.  No digits: no conversion, `end = s`.
    A value ≥ 2^64 gives `ULLONG_MAX` and `ERANGE`; a minus sign negates the converted value modulo 2^64. -/
def strtoull (s : Bytes) : Strto :=
  let afterWs := s.dropWhile isSpace
  let nws := s.length - afterWs.length
  let neg := afterWs.head? == some 45
  let signed := neg || afterWs.head? == some 43
  let body := if signed then afterWs.drop 1 else afterWs
  let ds := body.takeWhile isDigit
  if ds.isEmpty then ⟨0, 0, false⟩ else
  let v := decVal ds
  let endOff := nws + (if signed then 1 else 0) + ds.length
  if 2 ^ 64 ≤ v then ⟨2 ^ 64 - 1, endOff, true⟩
  else ⟨if neg then (2 ^ 64 - v) % 2 ^ 64 else v, endOff, false⟩

structure UintOut where
  ret : Bool
  value : Nat
  deriving Repr, DecidableEq

/-- `GetUintEnvironmentVariable`.  `errnoIn` = `errno` is `ERANGE` on entry.
    `resetErrno` / `firstDigit` are the two repairs of D15 (`errno = 0` before the call; the first character must be a
    digit): the code as it is now has both (`getUint`), the code before the fix had neither (`getUintAsWas`). -/
def getUintWith (resetErrno firstDigit : Bool) (errnoIn : Bool) : Option Bytes → UintOut
  | none => ⟨false, 0⟩
  | some s =>
    if s.isEmpty then ⟨false, 0⟩ else
    let r := strtoull s
    let errno := (if resetErrno then false else errnoIn) || r.erange
    let endOk := r.endOff == s.length && (!firstDigit || (s.head?.map isDigit).getD false)
    if errno then ⟨false, 0⟩
    else if !endOk || 2 ^ Gen.envUintBits - 1 < r.value then ⟨false, 0⟩
    else ⟨true, r.value⟩

def getUint := getUintWith true true
def getUintAsWas := getUintWith false false

/-! ## GetTimeoutFromString / GetDurationEnvironmentVariable -/

def int64Max : Nat := 2 ^ 63 - 1

inductive Acc where
  | val (v : Nat) (rest : Bytes)   -- the loop ended at `rest` with `result = v`
  | rejected                       -- the overflow guard returned false
  | ub                             -- `result * 10 + digit` does not fit `int64_t`: signed overflow
  deriving Repr, DecidableEq

/-- the digit loop `for (; *input && isdigit(*input); ++input)`.  `guard` = the overflow guard of the D15 fix is present. -/
def accum (guard : Bool) : Nat → Bytes → Acc
  | acc, [] => .val acc []
  | acc, c :: t =>
    if isDigit c then
      let d := digitVal c
      if guard && acc > (int64Max - d) / 10 then .rejected
      else if acc * 10 + d > int64Max then .ub
      else accum guard (acc * 10 + d) t
    else .val acc (c :: t)

inductive DurOut where
  | ok (ns : Nat)     -- returns true, `value` = `ns` nanoseconds
  | invalid           -- returns false, `value` untouched
  | unset             -- returns false, `value` = 0 (variable not set or empty)
  | ub                -- undefined behaviour (signed overflow) on the way
  deriving Repr, DecidableEq

def unitLookup : List (Bytes × Nat) → Bytes → Option Nat
  | [], _ => none
  | (u, m) :: rest, s => if s == u then some m else unitLookup rest s

/-- `ToSystemClockDuration<Unit>` (with `guard`) / the bare `duration_cast` (without): `count * nsPerUnit` in `int64_t` -/
def toSystemClock (guard : Bool) (count nsPerUnit : Nat) : DurOut :=
  if guard && count > int64Max / nsPerUnit then .invalid
  else if count * nsPerUnit > int64Max then .ub
  else .ok (count * nsPerUnit)

def timeoutFromString (guard : Bool) (s : Bytes) : DurOut :=
  match accum guard 0 (s.dropWhile isSpace) with
  | .rejected => .invalid
  | .ub => .ub
  | .val result unit =>
    if result = 0 then .invalid else
    match unitLookup Gen.envDurationUnits unit with
    | some m => toSystemClock guard result m
    | none => .invalid

def getDurationWith (guard : Bool) : Option Bytes → DurOut
  | none => .unset
  | some s => if s.isEmpty then .unset else timeoutFromString guard s

def getDuration := getDurationWith true
def getDurationAsWas := getDurationWith false

/-! ## GetFloatEnvironmentVariable: acceptance only

`strtof`'s subject sequence: optional white space, optional sign, then one of
  * decimal: digits with an optional `.`, at least one digit, optional exponent `e[sign]digits`
  * hexadecimal: `0x` hex digits with an optional `.`, at least one hex digit, optional exponent `p[sign]digits`
  * `inf` / `infinity`, `nan`, `nan(` alphanumerics or `_` `)`      (any case)
Whether the *value* is in range (`ERANGE`) is not modelled: it is an input (`rangeErr`). -/

def isHexDig (c : UInt8) : Bool := isDigit c || (97 ≤ toLower c && toLower c ≤ 102)
def isAlnumU (c : UInt8) : Bool := isDigit c || (97 ≤ toLower c && toLower c ≤ 122) || c == 95

/-- length of the optional exponent part at the head of `s` (`e`/`p` already lower-cased into `mark`) -/
def expLen (mark : UInt8) (s : Bytes) : Nat :=
  match s with
  | c :: t =>
    if toLower c == mark then
      let signLen := match t with
        | x :: _ => if x == 43 || x == 45 then 1 else 0
        | [] => 0
      let ds := (t.drop signLen).takeWhile isDigit
      if ds.isEmpty then 0 else 1 + signLen + ds.length
    else 0
  | [] => 0

/-- length of `digits [. digits]` with at least one digit overall (else 0), followed by the optional exponent -/
def mantLen (dig : UInt8 → Bool) (mark : UInt8) (s : Bytes) : Nat :=
  let ip := s.takeWhile dig
  let r1 := s.drop ip.length
  let (fracLen, fp) := match r1 with
    | 46 :: t => (1 + (t.takeWhile dig).length, t.takeWhile dig)
    | _ => (0, [])
  if ip.isEmpty && fp.isEmpty then 0 else
  let n := ip.length + fracLen
  n + expLen mark (s.drop n)

def hasPrefixCi (lit s : Bytes) : Bool := (s.take lit.length).map toLower == lit

/-- number of bytes of `s` (after white space and sign) that `strtof` converts; 0 = no conversion -/
def floatBodyLen (s : Bytes) : Nat :=
  if hasPrefixCi [105, 110, 102, 105, 110, 105, 116, 121] s then 8
  else if hasPrefixCi [105, 110, 102] s then 3
  else if hasPrefixCi [110, 97, 110] s then
    match s.drop 3 with
    | 40 :: t =>
      let body := t.takeWhile isAlnumU
      match t.drop body.length with
      | 41 :: _ => 3 + 1 + body.length + 1
      | _ => 3
    | _ => 3
  else if hasPrefixCi [48, 120] s && mantLen isHexDig 112 (s.drop 2) ≠ 0 then 2 + mantLen isHexDig 112 (s.drop 2)
  else mantLen isDigit 101 s

/-- `endptr - nptr` of `strtof(s, &end)` -/
def strtofEnd (s : Bytes) : Nat :=
  let afterWs := s.dropWhile isSpace
  let nws := s.length - afterWs.length
  let signLen := match afterWs with
    | x :: _ => if x == 43 || x == 45 then 1 else 0
    | [] => 0
  let n := floatBodyLen (afterWs.drop signLen)
  if n = 0 then 0 else nws + signLen + n

/-- `GetFloatEnvironmentVariable` returns true (the value itself is not modelled).
    `rangeErr` = `strtof` reports `ERANGE` for this string; `errnoIn` = `errno` is `ERANGE` on entry;
    `resetErrno` = the `errno = 0` of the D15 fix is present. -/
def getFloatOkWith (resetErrno : Bool) (errnoIn rangeErr : Bool) : Option Bytes → Bool
  | none => false
  | some s =>
    if s.isEmpty then false else
    let errno := (if resetErrno then false else errnoIn) || rangeErr
    !errno && strtofEnd s == s.length

def getFloatOk := getFloatOkWith true

end Otel.Env
