import OtelVerif.Model.BatchAbs
/-! Refinement map from the implementation's trace to the protocol model: each relevant event of the real
    execution (a load / store / RMW of a protocol variable, an exporter call, a call boundary) is interpreted, according
    to the model's current program counter for that thread, as one `Batch.step` action or as a stutter, and the value the
    implementation observed is compared with the model's state.  `none` = the real execution is not an execution of the
    model (wrong value, wrong order, disabled action). -/
namespace Otel.Batch

inductive Role where | W | P (i : Nat) | F (i : Nat) | S (i : Nat) deriving Repr, DecidableEq

structure Ev where
  role : Role
  kind : String
  v : Nat := 0          -- observed value / argument
  b : Bool := false     -- observed boolean (CAS success, return value, is_shutdown)
  deriving Repr

def guardEq (c : Bool) (s : Option St) : Option St := if c then s else none

def aWorker (s : St) (e : Ev) : Option St :=
  if e.kind = "tail" then guardEq (e.v == s.tail) (some s)        -- tail_ is written by the worker only
  else match s.wpc, e.kind with
  | .idle, "head" => some s                                          -- `!buffer_.empty()` in the wait predicate
  | .idle, "isd" => guardEq (e.b == s.isShutdown) ((step s .wWake).bind fun s1 => step s1 .wStep)
  | .ticket _ _ _, "pend" => guardEq (e.v == s.pending) (step s .wStep)
  | .size _ _ _ _, "head" => guardEq (e.v == s.head) (step s .wStep)
  | .consume _ _ _ _ _, "head" => some s                             -- PeekImpl
  | .consume _ _ _ _ num, "fadd" => guardEq (e.v == num) (step s .wStep)
  | .exportB _ _ _ _ num, "expb" => guardEq (e.v == num) (step s .wStep)
  | .exportE _ _ _ _ _, "expe" => step s .wStep
  | .nChk _ _ _ _ _, "not" => guardEq (e.v == s.notified) (step s .wStep)
  | .flushB _ _ _ _ _, "xfb" => step s .wStep
  | .flushE _ _ _ _ _, "xfe" => step s .wStep
  | .pubLd _ _ _ _ _, "not" => guardEq (e.v == s.notified) (step s .wStep)
  | .pubCas _ _ _ _ _ v, "cas" => guardEq (e.b == (s.notified == v)) (step s .wStep)
  | .dEmpty, "head" => guardEq (e.v == s.head) (step s .wStep)
  | .dPend, "pend" => guardEq (e.v == s.pending) (step s .wStep)
  | .dNot _, "not" => guardEq (e.v == s.notified) (step s .wStep)
  | .done, "end" => some s
  | _, _ => none

def aProd (s : St) (p : Nat) (e : Ev) : Option St :=
  match s.pr p, e.kind with
  | .idle, "beg" => step s (.pStep p false)
  | .chk, "isd" => guardEq (e.b == s.isShutdown) (step s (.pStep p false))
  | .add _, "commit" => step s (.pStep p false)
  | .add _, "ret" => (step s (.pStep p true)).bind fun s1 => step s1 (.pStep p false)     -- returned without a commit: dropped
  | .fin, "ret" => step s (.pStep p false)
  | .noop, "ret" => step s (.pStep p false)
  | _, _ => none

def aFlush (s : St) (f : Nat) (e : Ev) : Option St :=
  match s.fl f, e.kind with
  | .idle, "beg" => step s (.fStep f false)
  | .chk _, "isd" => guardEq (e.b == s.isShutdown) (step s (.fStep f false))
  | .ticket _, "fadd" => guardEq (e.v == s.pending) (step s (.fStep f false))
  | .wait _ _ _, "isd" => some s
  | .wait _ _ _, "pend" => some s
  | .wait _ _ _, "not" => guardEq (e.v == s.notified) (step s (.fStep f false))
  | .wait _ _ _, "ret" => (step s (.fStep f true)).bind fun s1 =>
      match s1.fl f with
      | .ret _ ok => guardEq (ok == e.b) (some s1)
      | _ => none
  | .ret _ ok, "ret" => guardEq (ok == e.b) (some s)
  | _, _ => none

def aShut (s : St) (i : Nat) (e : Ev) : Option St :=
  match s.sd i, e.kind with
  | .idle, "beg" => step s (.sStep i)
  | .begin, "lock" => step s (.sStep i)
  | .locked, "xchg" => guardEq (e.b == s.isShutdown) (step s (.sStep i))
  | .joinW _, "join" => step s (.sStep i)
  | .expB, "xsb" => step s (.sStep i)
  | .expE, "xse" => step s (.sStep i)
  | .unlockP, "unlock" => step s (.sStep i)
  | .ret, "ret" => some s
  | _, _ => none

def astepCore (s : St) (e : Ev) : Option St :=
  match e.role with
  | .W => aWorker s e
  | .P p => aProd s p e
  | .F f => aFlush s f e
  | .S i => aShut s i e

/-- a load of `is_shutdown` / `force_flush_pending_sequence` / `force_flush_notified_sequence` that returns exactly the model's
    current value of the variable: if the model's program counter for that thread does not expect it, it is a stutter - a
    thread that reads a shared variable once more than the model says (a diagnostic, a re-check) changes nothing for any
    other thread, and what it does with the value shows in its later events -/
def redundantLoad (s : St) (e : Ev) : Bool :=
  (e.kind == "isd" && e.b == s.isShutdown) || (e.kind == "pend" && e.v == s.pending) || (e.kind == "not" && e.v == s.notified)

def astep (s : St) (e : Ev) : Option St :=
  match astepCore s e with
  | some s' => some s'
  | none => if redundantLoad s e then some s else none

end Otel.Batch
