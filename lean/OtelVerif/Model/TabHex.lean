import OtelVerif.Model.TraceContext
/-! Model side of the tabulated graphs `Gen/TabHex.lean`: the model functions restricted to the tabulated domains, with the
    observation encoding of `harness/tab/tab_api.cc` (`tab_hex`, `tab_w3c`).  Used by `Props/TabHex.lean` (equality with the
    code's graph, kernel-checked) and by the driver word `tab` (`tools/tabdiff.py`). -/
namespace Otel.TabModel
open Otel

def boolNat (b : Bool) : Nat := if b then 1 else 0

/-- observation of an extraction: the flags byte of the installed context, 256 = nothing installed -/
def ctxObs : Option TraceContext.SpanCtx → Nat
  | none => 256
  | some sc => sc.flags.toNat

/-- the bytes `b, b+1, …, b+n-1` -/
def seqFrom (b : UInt8) (n : Nat) : Bytes := (List.range n).map fun i => b + UInt8.ofNat i

/-- lower-case hex digits of the fixed ids `0102…10` / `1112…18` used in every tabulated header -/
def tidHex : Bytes := hexOfBytes [48, 49, 50, 51, 52, 53, 54, 55, 56, 57, 97, 98, 99, 100, 101, 102] (seqFrom 1 16)
def sidHex : Bytes := hexOfBytes [48, 49, 50, 51, 52, 53, 54, 55, 56, 57, 97, 98, 99, 100, 101, 102] (seqFrom 17 8)
def lowerHexDigit (n : Nat) : UInt8 := if n < 10 then UInt8.ofNat (48 + n) else UInt8.ofNat (87 + n)
def lowerHex2 (v : UInt8) : Bytes := [lowerHexDigit (v.toNat / 16), lowerHexDigit (v.toNat % 16)]

def hexToInt (b : UInt8) : UInt8 := Otel.hexToInt b
def isValidHex1 (b : UInt8) : Bool := isValidHex [b]
def hexToBinary1 (a : UInt8) : UInt8 := (hexToBinary [a] 1).2.headD 0
def hexToBinary2 (a b : UInt8) : UInt8 := (hexToBinary [a, b] 1).2.headD 0
def hexToBinaryShort : Bytes → List Nat
  | n :: s => let r := hexToBinary s n.toNat; boolNat r.1 :: r.2.map (·.toNat)
  | [] => []
def traceIdLower : Bytes → List Nat
  | [k] => (traceIdToHex (seqFrom (16 * k) 16)).map (·.toNat)
  | _ => []
def spanIdLower : Bytes → List Nat
  | [k] => (spanIdToHex (seqFrom (8 * k) 8)).map (·.toNat)
  | _ => []
def flagsLower (b : UInt8) : Bytes := flagsToHex b
def flagsIsSampled (f : UInt8) : Bool := f &&& UInt8.ofNat Gen.kIsSampled != 0
def flagsIsRandom (f : UInt8) : Bool := f &&& UInt8.ofNat Gen.kIsRandom != 0

def tpSuffix : UInt8 → Bytes
  | 1 => [45, 48, 48]
  | 2 => [48]
  | _ => []

def tpVersion : Bytes → List Nat
  | [a, b, sfx] => [ctxObs (TraceContext.extract ([a, b, 45] ++ tidHex ++ [45] ++ sidHex ++ [45, 48, 49] ++ tpSuffix sfx) [])]
  | _ => []

def tpFlagsByte (v : UInt8) : Nat :=
  ctxObs (TraceContext.extract ([48, 48, 45] ++ tidHex ++ [45] ++ sidHex ++ [45] ++ lowerHex2 v) [])

def tpInjectFlags (f : UInt8) : Bytes :=
  match TraceContext.inject { traceId := seqFrom 1 16, spanId := seqFrom 17 8, flags := f, remote := false, traceState := [] } with
  | some (tp, _) => tp.drop (tp.length - 2)
  | none => []

end Otel.TabModel
