import OtelVerif.Model.Baggage
/-! Model side of `Gen/TabBaggage.lean`: `UrlEncode`, `UrlDecode`, `IsValidKey`, `IsValidValue` of `baggage.h` on the tabulated
    domains, in the observation encoding of `harness/tab/tab_api.cc` (`tab_baggage`). -/
namespace Otel.TabModel
open Otel

/-- the decoded byte; 256 = `err`, 258 = empty result, 257 = more than one byte, 100000 = a fault token of the model -/
def decObs : IxRes (Option Bytes) → Nat
  | .ok none => 256
  | .ok (some []) => 258
  | .ok (some [v]) => v.toNat
  | .ok (some _) => 257
  | .fault _ => 100000

def bgEncode (b : UInt8) : Bytes := Baggage.urlEncode [b]
def bgDecode1 (b : UInt8) : Nat := decObs (Baggage.urlDecode [b])
def bgDecodePct1 (b : UInt8) : Nat := decObs (Baggage.urlDecode [37, b])
def bgDecodePct (a b : UInt8) : Nat := decObs (Baggage.urlDecode [37, a, b])
def bgValidKey1 (b : UInt8) : Bool := Baggage.isValidKey [b]
def bgValidValue1 (b : UInt8) : Bool := Baggage.isValidValue [b]

end Otel.TabModel
