import OtelVerif.Model.Hex
/-! Index-explicit models of `detail/string.h` (`SplitString`) and `detail/hex.h` (`HexToBinary`).

Every `s[i]`, every `substr(pos, n)` and every `buffer[pos] = …` of the C++ is an explicit, *checked* access here:
outside the buffer the result is the token `IxFault.oob` (never a totalised default); a left shift of the negative
`HexToInt` value `-1` is the token `IxFault.ub`.  `Props/C16.lean` proves that these tokens are never produced
(`Idx.splitString_eq`, `Idx.hexToBinary_eq`, `never_oob`), i.e. the index-explicit code computes exactly the
list functions of `Model/Hex.lean`. -/
namespace Otel

inductive IxFault where
  | oob    -- an index outside the buffer, or `string_view::substr(pos > size)` (throws inside `noexcept` → terminate)
  | ub     -- `HexToInt(c) << 4` with `HexToInt(c) = -1`: left shift of a negative int
  | fuel   -- model artefact: the loop bound of the model was exhausted (proved impossible)
  deriving Repr, DecidableEq

inductive IxRes (α : Type) where
  | ok (a : α)
  | fault (f : IxFault)
  deriving Repr, DecidableEq

def IxRes.bind {α β : Type} (r : IxRes α) (f : α → IxRes β) : IxRes β :=
  match r with
  | .ok a => f a
  | .fault e => .fault e

def IxRes.map {α β : Type} (f : α → β) (r : IxRes α) : IxRes β :=
  match r with
  | .ok a => .ok (f a)
  | .fault e => .fault e

@[simp] theorem IxRes.bind_ok {α β : Type} (a : α) (f : α → IxRes β) : (IxRes.ok a).bind f = f a := rfl
@[simp] theorem IxRes.map_ok {α β : Type} (a : α) (f : α → β) : (IxRes.ok a).map f = .ok (f a) := rfl

namespace Idx

/-- `s[i]` with `i : size_t` -/
def rd (s : Bytes) (i : Nat) : IxRes UInt8 :=
  match s[i]? with
  | some c => .ok c
  | none => .fault .oob

/-- `s.substr(pos, n)`: terminates when `pos > size`; `n` is clipped to what is there -/
def substr (s : Bytes) (pos n : Nat) : IxRes Bytes :=
  if pos > s.length then .fault .oob else .ok ((s.drop pos).take (min n (s.length - pos)))

/-- `s.substr(pos)` (`n = npos`) -/
def substrFrom (s : Bytes) (pos : Nat) : IxRes Bytes :=
  if pos > s.length then .fault .oob else .ok (s.drop pos)

/-- `buffer[pos] = v` with `pos : int64_t` -/
def wr (buf : Bytes) (pos : Int) (v : UInt8) : IxRes Bytes :=
  if 0 ≤ pos ∧ pos < buf.length then .ok (buf.set pos.toNat v) else .fault .oob

/-- after the `for` loop of `SplitString`: `if (filled < count) results[filled++] = s.substr(token_start);` -/
def splitExit (s : Bytes) (count ts : Nat) (acc : List Bytes) : IxRes (List Bytes) :=
  if acc.length < count then (substrFrom s ts).map (fun t => acc ++ [t]) else .ok acc

/-- the `for (i = 0; i < s.size(); i++)` loop of `SplitString`: `i` the index, `ts` = `token_start`,
    `acc` = `results[0..filled)`.  (`i - token_start` is a `size_t` subtraction; `token_start ≤ i` throughout.) -/
def splitLoop (s : Bytes) (sep : UInt8) (count : Nat) : Nat → Nat → Nat → List Bytes → IxRes (List Bytes)
  | 0, i, ts, acc => if i < s.length then .fault .fuel else splitExit s count ts acc
  | fuel + 1, i, ts, acc =>
    if i < s.length then
      (rd s i).bind fun c =>
        if c ≠ sep then splitLoop s sep count fuel (i + 1) ts acc
        else (substr s ts (i - ts)).bind fun tok =>
          let acc' := acc ++ [tok]
          if acc'.length = count then .ok acc' else splitLoop s sep count fuel (i + 1) (i + 1) acc'
    else splitExit s count ts acc

/-- `SplitString(s, sep, results, count)`: the filled prefix of `results` (its length is the return value) -/
def splitString (s : Bytes) (sep : UInt8) (count : Nat) : IxRes (List Bytes) :=
  if count = 0 then .ok [] else splitLoop s sep count s.length 0 0 []

/-- `(HexToInt(a) << 4) | HexToInt(b)` stored into a `uint8_t` -/
def pairVal (a b : UInt8) : IxRes UInt8 :=
  if hexToInt a = 255 then .fault .ub else .ok ((hexToInt a <<< 4) ||| hexToInt b)

/-- `for (; i < last_hex_pos; i += 2) buffer[buffer_pos++] = (HexToInt(hex[i]) << 4) | HexToInt(hex[i + 1]);` -/
def hexLoop (hex : Bytes) (last : Int) : Nat → Nat → Int → Bytes → IxRes Bytes
  | 0, i, _, buf => if (i : Int) < last then .fault .fuel else .ok buf
  | fuel + 1, i, bp, buf =>
    if (i : Int) < last then
      (rd hex i).bind fun a => (rd hex (i + 1)).bind fun b => (pairVal a b).bind fun v =>
        (wr buf bp v).bind fun buf' => hexLoop hex last fuel (i + 2) (bp + 1) buf'
    else .ok buf

/-- `HexToBinary(hex, buffer, n)`: (return value, buffer contents afterwards); `int64_t` arithmetic as `Int` -/
def hexToBinary (hex : Bytes) (n : Nat) : IxRes (Bool × Bytes) :=
  let buf := List.replicate n 0
  if hex.length > n * 2 then .ok (false, buf)
  else
    let size : Int := hex.length
    let bp : Int := (n : Int) - (size + 1) / 2
    let last : Int := size - 1
    if size % 2 = 1 then
      (rd hex 0).bind fun c => (wr buf bp (hexToInt c)).bind fun buf' =>
        (hexLoop hex last hex.length 1 (bp + 1) buf').map fun b => (true, b)
    else (hexLoop hex last hex.length 0 bp buf).map fun b => (true, b)

end Idx
end Otel
