import OtelVerif.Model.BatchAbs
/-! # The batch processor on top of the real queue: `Model/BatchAbs.lean` ∘ `Model/Ring.lean`

`BatchAbs` abstracts `CircularBuffer` to two counters and *assumes* of it what C11 proves (a successful `Add` is one
increment of `head_`, an `Add` fails only when the queue is full, `Consume(n)` is `tail_ += n`).  This model removes the
assumption: the state is a pair (ring state, protocol state); a producer's `Add` is run access by access on the ring
(`Ring.step`), and only its *outcome* — the successful head CAS, or the full test — is a transition of the protocol model;
the worker's `Consume(num, callback)` is the ring's `cTake num` followed by `num` slot clears (`clear`) before `Export`
is called.  Every run of this model projects to a run of `Ring` and to a run of `BatchAbs` (the steps are their steps), so
both invariants hold of the components; `Lemmas/BatchRing/*.lean` shows that the pairing never blocks for a reason the
components do not have (the guards `BatchAbs` puts on a commit / a drop / a consume follow from the ring's state), and
`Props/C01Compose.lean` reads the end-to-end statement off the two sets of theorems. -/
namespace Otel.BatchRing
open Otel

structure St where
  r : Ring.St
  b : Batch.St

inductive Act where
  | prod (p : Nat)                  -- `OnEnd` / `OnEmit` begins (idle → the `is_shutdown` test) or ends (fin / noop → idle)
  | chk (p : Nat)                   -- the `is_shutdown` test; when it passes, `buffer_.Add` begins (ring `pStart`)
  | add (a : Ring.Act)              -- one atomic access of `CircularBuffer::Add` (pLdTail, pLdHead, pSwap, pCas, pUndo)
  | wWake | wStep                   -- the worker; its `tail_ += num` is the ring's `cTake num`
  | clear                           -- the worker's `Consume` callback moves one record out of its slot (ring `cClear`)
  | fStep (f : Nat) (ret : Bool)
  | sStep (i : Nat)

def pcOf (r : Ring.St) (p : Nat) : Ring.PPc := (r.prods p).pc

/-- both components move -/
def pair (r : Option Ring.St) (b : Option Batch.St) : Option St :=
  match r, b with
  | some r', some b' => some { r := r', b := b' }
  | _, _ => none

def onlyB (s : St) (b : Option Batch.St) : Option St := b.map (fun b' => { s with b := b' })
def onlyR (s : St) (r : Option Ring.St) : Option St := r.map (fun r' => { s with r := r' })

def inAdd (s : St) (p : Nat) : Bool := match s.b.pr p with | .add _ => true | _ => false

def step (s : St) : Act → Option St
  | .prod p =>
      match s.b.pr p with
      | .idle | .fin | .noop => onlyB s (Batch.step s.b (.pStep p false))
      | _ => none
  | .chk p =>
      match s.b.pr p with
      | .chk => if s.b.isShutdown then onlyB s (Batch.step s.b (.pStep p false))
                else pair (Ring.step s.r (.pStart p)) (Batch.step s.b (.pStep p false))
      | _ => none
  | .add a =>
      match a with
      | .pLdTail p | .pUndo p | .pSwap p _ => if inAdd s p then onlyR s (Ring.step s.r a) else none
      | .pLdHead p =>
          if inAdd s p then
            (match pcOf s.r p with
             | .ldHead t =>
                 if s.r.head - t ≥ s.r.cap - 1 then pair (Ring.step s.r a) (Batch.step s.b (.pStep p true))   -- `Add` returns false
                 else onlyR s (Ring.step s.r a)
             | _ => none)
          else none
      | .pCas p spur =>
          if inAdd s p then
            (match pcOf s.r p with
             | .cas h =>
                 if s.r.head = h ∧ spur = false then pair (Ring.step s.r a) (Batch.step s.b (.pStep p false))  -- `Add` returns true
                 else onlyR s (Ring.step s.r a)
             | _ => none)
          else none
      | _ => none
  | .wWake => onlyB s (Batch.step s.b .wWake)
  | .wStep =>
      match s.b.wpc with
      | .consume _ _ _ _ num => pair (Ring.step s.r (.cTake num)) (Batch.step s.b .wStep)
      | .exportB _ _ _ _ _ => if s.r.clr = s.r.tail then onlyB s (Batch.step s.b .wStep) else none   -- every slot moved out first
      | _ => onlyB s (Batch.step s.b .wStep)
  | .clear =>
      match s.b.wpc with
      | .exportB _ _ _ _ _ => onlyR s (Ring.step s.r .cClear)
      | _ => none
  | .fStep f ret => onlyB s (Batch.step s.b (.fStep f ret))
  | .sStep i => onlyB s (Batch.step s.b (.sStep i))

def init (maxQ maxB : Nat) : St := { r := Ring.init (maxQ + 1), b := Batch.init maxQ maxB }

def run (s : St) : List Act → Option St
  | [] => some s
  | a :: as => match step s a with
    | some s' => run s' as
    | none => none

end Otel.BatchRing
