import OtelVerif.Model.Metrics.Naming
/-! `view/predicate.h`, `predicate_factory.h`, `instrument_selector.h`, `meter_selector.h`, `view.h`, `view_registry.h`,
    `aggregation/default_aggregation.h`, and `Meter::Register{Sync,Async}MetricStorage` / `Meter::Collect` of `meter.cc`.

Name patterns are `std::regex` (ECMAScript) in the C++; the model covers the fragment *literal name characters, `.`,
`x*`, `.*`* as a list of `RxItem`s run by the backtracking matcher of `Model/Regex.lean`; `parsePattern` refuses anything
else, and the generators stay inside the fragment. -/
namespace Otel.View
open Otel.Naming

inductive IType where
  | counter | histogram | upDownCounter | obsCounter | obsGauge | obsUpDownCounter | gauge
  deriving Repr, DecidableEq

/-- position in `enum class InstrumentType` -/
def IType.code : IType → Nat
  | .counter => 0 | .histogram => 1 | .upDownCounter => 2 | .obsCounter => 3 | .obsGauge => 4 | .obsUpDownCounter => 5 | .gauge => 6

def IType.observable : IType → Bool
  | .obsCounter | .obsGauge | .obsUpDownCounter => true
  | _ => false

inductive Agg where
  | drop | histogram | lastValue | sum | default
  deriving Repr, DecidableEq

/-- position in `enum class AggregationType` -/
def Agg.ofCode : Nat → Agg
  | 0 => .drop | 1 => .histogram | 2 => .lastValue | 3 => .sum | _ => .default

/-- `DefaultAggregation::GetDefaultAggregationType` -/
def defaultAgg (t : IType) : Agg :=
  match Gen.defaultAggTable.lookup t.code with
  | some a => Agg.ofCode a
  | none => Agg.ofCode Gen.defaultAggFallback

/-- the aggregation a storage really uses: `kDefault` is resolved per instrument type (`CreateAggregation`, default branch) -/
def resolveAgg (a : Agg) (t : IType) : Agg := if a = .default then defaultAgg t else a

/-! ### predicates -/

/-- a name-pattern character that stands for itself: letters, digits, `_ - /` -/
def isLiteralChar (c : UInt8) : Bool :=
  (48 ≤ c && c ≤ 57) || (65 ≤ c && c ≤ 90) || (97 ≤ c && c ≤ 122) || c == 95 || c == 45 || c == 47

/-- ECMAScript `.`: any character but a line terminator -/
def dotRanges : List (Nat × Nat) := [(0, 9), (11, 12), (14, 255)]

/-- the character set of one pattern atom: `.` or a literal name character; `none` = outside the fragment -/
def atomOf (c : UInt8) : Option (List (Nat × Nat)) :=
  if c == 46 then some dotRanges else if isLiteralChar c then some [(c.toNat, c.toNat)] else none

/-- pattern text → items, for the fragment `(literal | '.') ['*']`*; `none` = outside the fragment -/
def parsePattern : Bytes → Option (List RxItem)
  | [] => some []
  | c :: 42 :: rest =>
    match atomOf c with
    | none => none
    | some rs => (parsePattern rest).map (⟨rs, 0, none⟩ :: ·)
  | c :: rest =>
    match atomOf c with
    | none => none
    | some rs => (parsePattern rest).map (⟨rs, 1, some 1⟩ :: ·)

/-- `PredicateFactory::GetPredicate(pattern, kPattern)`: `"*"` matches everything, anything else is a regex -/
inductive NamePred where
  | all
  | pattern (items : List RxItem)
  deriving Repr

def namePredOf (pat : Bytes) : Option NamePred :=
  if pat = Gen.patternMatchAll then some .all else (parsePattern pat).map .pattern

def NamePred.matches : NamePred → Bytes → Bool
  | .all, _ => true
  | .pattern items, s => rxMatch items s

/-- `PredicateFactory::GetPredicate(s, kExact)`: `""` matches everything, anything else only itself -/
def exactMatches (pat s : Bytes) : Bool := pat = Gen.exactMatchAll || pat = s

structure InstrSel where
  type : IType
  name : NamePred
  unit : Bytes
  deriving Repr

structure MeterSel where
  name : Bytes
  version : Bytes
  schema : Bytes
  deriving Repr

structure View where
  name : Bytes
  description : Bytes
  unit : Bytes                      -- `View::unit_`: stored, never read
  agg : Agg
  filter : Option (List Bytes)      -- `none` = `DefaultAttributesProcessor`; `some keys` = `FilteringAttributesProcessor`
  bounds : Option (List Nat)        -- `HistogramAggregationConfig::boundaries_`; `none` = no aggregation config
  deriving Repr, DecidableEq

structure Registered where
  isel : InstrSel
  msel : MeterSel
  view : View
  deriving Repr

structure Scope where
  name : Bytes
  version : Bytes
  schema : Bytes
  deriving Repr, DecidableEq

structure Instr where
  type : IType
  name : Bytes
  unit : Bytes
  description : Bytes
  deriving Repr, DecidableEq

/-- `ViewRegistry::MatchInstrument` -/
def matchInstrument (sel : InstrSel) (i : Instr) : Bool :=
  sel.name.matches i.name && exactMatches sel.unit i.unit && decide (sel.type = i.type)

/-- `ViewRegistry::MatchMeter`; `skipsEmpty` = the meter's own empty version / schema short-cuts the filter (D13, as it was) -/
def matchMeterWith (skipsEmpty : Bool) (sel : MeterSel) (sc : Scope) : Bool :=
  exactMatches sel.name sc.name &&
  ((skipsEmpty && sc.version.isEmpty) || exactMatches sel.version sc.version) &&
  ((skipsEmpty && sc.schema.isEmpty) || exactMatches sel.schema sc.schema)

def matchMeter := matchMeterWith Gen.matchMeterSkipsEmpty

def applies (r : Registered) (sc : Scope) (i : Instr) : Bool := matchMeter r.msel sc && matchInstrument r.isel i

/-- the view `FindViews` falls back to: `View("")` -/
def defaultView : View := ⟨Gen.defaultViewName, [], [], .default, none, none⟩

/-- the views `FindViews` hands to its callback, in registration order -/
def findViews (reg : List Registered) (sc : Scope) (i : Instr) : List View :=
  match (reg.filter (applies · sc i)).map (·.view) with
  | [] => [defaultView]
  | vs => vs

structure Stream where
  name : Bytes
  description : Bytes
  unit : Bytes
  type : IType
  agg : Agg
  keys : List Bytes          -- attribute keys of the exported point, in the order measured
  bounds : Option (List Nat) -- bucket boundaries of a histogram stream (`none` for the other aggregations)
  deriving Repr, DecidableEq

/-- index of the bucket a value is counted in: the number of boundaries below it (boundaries strictly increasing) -/
def bucketIndex (bounds : List Nat) (v : Nat) : Nat := (bounds.takeWhile (· < v)).length

/-- attribute keys after the view's processor -/
def filterKeys (f : Option (List Bytes)) (keys : List Bytes) : List Bytes :=
  match f with
  | none => keys
  | some allowed => keys.filter (allowed.contains ·)

/-- the storage built for one (instrument, view) pair.  Observable instruments get the measurement's attributes
    unfiltered: `ObserverResultT` is built with the default processor and `AsyncMetricStorage` has none (D22). -/
def streamOf (i : Instr) (v : View) (keys : List Bytes) : Stream :=
  { name := if v.name.isEmpty then i.name else v.name,
    description := if v.description.isEmpty then i.description else v.description,
    unit := i.unit, type := i.type, agg := resolveAgg v.agg i.type,
    keys := if i.type.observable then keys else filterKeys v.filter keys,
    -- the view's aggregation config reaches the histogram aggregation of synchronous and (D63 fix) observable instruments alike
    bounds := if resolveAgg v.agg i.type = .histogram then some (v.bounds.getD Gen.defaultHistogramBounds) else none }

/-- storages `Register…MetricStorage` builds for an instrument: one per view found (all of them receive measurements) -/
def storages (reg : List Registered) (sc : Scope) (i : Instr) (keys : List Bytes) : List Stream :=
  (findViews reg sc i).map (streamOf i · keys)

/-- what a collection exports for one instrument (the only one of its name, type and value type in the meter): the
    stream of every storage built for it — `storage_registry_` has one entry per stream (instrument name, type, value
    type, position of the view among the views found), so every view that applies yields its own stream, also when two
    views rename to the same stream name.  A disabled meter and an invalid name or unit give an inert instrument. -/
def exported (enabled : Bool) (reg : List Registered) (sc : Scope) (i : Instr) (keys : List Bytes) : List Stream :=
  if !enabled || !validInstrument i.name i.unit then [] else storages reg sc i keys

/-- the registry before the D09 fix: keyed by the instrument name alone, every further storage of an instrument replaced
    the previous one, so only the storage of the view found last was ever collected -/
def exportedAsWas (enabled : Bool) (reg : List Registered) (sc : Scope) (i : Instr) (keys : List Bytes) : List Stream :=
  if !enabled || !validInstrument i.name i.unit then []
  else match (storages reg sc i keys).getLast? with
    | some s => [s]
    | none => []

/-! ### the meter's storage registry over a sequence of instrument creations -/

/-- `StorageRegistryKey`: instrument name, type, value type, position of the view among the views found -/
structure Key where
  name : Bytes
  type : IType
  isDouble : Bool
  viewIndex : Nat
  deriving Repr, DecidableEq

/-- a registered storage: its key, the stream it was created for, and the values recorded into it so far -/
structure Entry where
  key : Key
  stream : Stream
  values : List Nat
  deriving Repr, DecidableEq

/-- one step of the `FindViews` callback for a handle that then records `value`: a storage registered under the key is
    reused (the handle records into it), otherwise a new one is created for this view -/
def attachOrAdd (st : List Entry) (k : Key) (s : Stream) (value : Nat) : List Entry :=
  if st.any (fun e => decide (e.key = k)) then
    st.map fun e => if e.key = k then { e with values := e.values ++ [value] } else e
  else st ++ [⟨k, s, [value]⟩]

def attachAll (st : List Entry) (i : Instr) (isDouble : Bool) (value : Nat) : List (Stream × Nat) → List Entry
  | [] => st
  | (s, idx) :: rest => attachAll (attachOrAdd st ⟨i.name, i.type, isDouble, idx⟩ s value) i isDouble value rest

/-- `Create…` of an instrument followed by one measurement `value` through the new handle -/
def createAndRecord (enabled : Bool) (reg : List Registered) (sc : Scope) (keys : List Bytes) (st : List Entry)
    (i : Instr) (isDouble : Bool) (value : Nat) : List Entry :=
  if !enabled || !validInstrument i.name i.unit then st
  else attachAll st i isDouble value (storages reg sc i keys).zipIdx

end Otel.View
