import OtelVerif.Model.Metrics.SyncStorage
/-! Model of the observable-instrument path for C17: `ObservableRegistry` (`observable_registry.cc`),
    `ObserverResultT` (`observer_result.h`), `AsyncMetricStorage` (`async_metric_storage.h`), the `LastValue`
    aggregation (`lastvalue_aggregation.cc`) with the temporal storage instantiated for it, synchronous gauges
    (ABI v2), and the part of `Meter::Collect` that runs `Observe` before collecting the storages.

    Sum instruments (observable counter / up-down counter) reuse `Otel.Temporal.buildMetrics`; for `LastValue`
    the same `TemporalMetricStorage::buildMetrics` is written out again over maps of samples (`lbuild`). -/
namespace Otel.C17
open Otel.Temporal Otel.C06

/-! ### ObservableRegistry -/

/-- one `ObservableCallbackRecord`: `cb` stands for the pair (callback pointer, state), `instr` for the instrument -/
structure Reg where
  cb : Nat
  instr : Nat
  deriving DecidableEq, Repr

abbrev Registry := List Reg

/-- `AddCallback`: appended, no check for an existing record -/
def addCallback (g : Registry) (cb instr : Nat) : Registry := g ++ [⟨cb, instr⟩]
/-- `RemoveCallback`: every record with this callback, state and instrument is erased -/
def removeCallback (g : Registry) (cb instr : Nat) : Registry := g.filter fun x => !(x.cb == cb && x.instr == instr)
/-- `CleanupCallback` (from `~ObservableInstrument`): every record of the instrument is erased -/
def cleanupCallback (g : Registry) (instr : Nat) : Registry := g.filter fun x => !(x.instr == instr)
/-- `Observe`: the records invoked, in order: each record once -/
def invocations (g : Registry) : Registry := g

/-! ### ObserverResultT: a map, a repeated attribute set keeps the last value -/

/-- `AttributesHashMap::Set` / `data_[attrs] = value`: replace or insert -/
def setTo : DMap → Nat → Int → DMap
  | [], a, v => [(a, v)]
  | (k, x) :: t, a, v => if k = a then (k, v) :: t else (k, x) :: setTo t a v

/-- the measurements of one callback invocation that called `Observe(v, a)` for the listed pairs in order -/
def measurements (obs : List (Nat × Int)) : DMap := obs.foldl (fun m kv => setTo m kv.1 kv.2) []

/-! ### AsyncMetricStorage for sum aggregations -/

structure AsyncStorage where
  cumulative : DMap
  delta : DMap
  temporal : TState

def AsyncStorage.init : AsyncStorage := { cumulative := [], delta := [], temporal := TState.init }

/-- one iteration of the loop in `Record`: `prev = cumulative.Get(a)`; with a previous value the delta map gets
    `prev->Diff(new) = new - prev`, otherwise the value itself; **both maps are `Set`** (replace) -/
def recordOne (s : AsyncStorage) (kv : Nat × Int) : AsyncStorage :=
  match s.cumulative.lookup kv.1 with
  | some p => { s with cumulative := setTo s.cumulative kv.1 kv.2, delta := setTo s.delta kv.1 (kv.2 - p) }
  | none => { s with cumulative := setTo s.cumulative kv.1 kv.2, delta := setTo s.delta kv.1 kv.2 }

/-- `RecordLong(measurements, ts)` -/
def recordAll (s : AsyncStorage) (ms : DMap) : AsyncStorage := ms.foldl recordOne s

/-- `Collect`: swap the delta map, `buildMetrics` -/
def acollect (c : Cfg) (s : AsyncStorage) (r ts : Nat) : AsyncStorage × Option MetricData :=
  if r < c.n then
    let res := buildMetrics c.n (c.temp r) s.temporal r ts s.delta
    ({ s with delta := [], temporal := res.1 }, res.2)
  else (s, none)

/-- one `Meter::Collect` as this storage sees it: the measurement maps recorded by the callback invocations of
    the cycle, in order, then `Collect` -/
structure Cycle where
  recs : List DMap
  r : Nat
  ts : Nat

def acycle (c : Cfg) (s : AsyncStorage) (cy : Cycle) : AsyncStorage × Option MetricData :=
  acollect c (cy.recs.foldl recordAll s) cy.r cy.ts

/-- run a history of cycles given most recent first -/
def arunRev (c : Cfg) : List Cycle → AsyncStorage × List (Nat × MetricData)
  | [] => (AsyncStorage.init, [])
  | cy :: older =>
    let prev := arunRev c older
    let res := acycle c prev.1 cy
    (res.1, match res.2 with | some md => (cy.r, md) :: prev.2 | none => prev.2)

/-! ### LastValue -/

/-- a `LastValuePointData`: value and sample time (logical, strictly increasing: one tick per `Aggregate`) -/
structure Sample where
  v : Int
  ts : Nat
  deriving DecidableEq, Repr

abbrev LMap := List (Nat × Sample)

def lset : LMap → Nat → Sample → LMap
  | [], a, s => [(a, s)]
  | (k, x) :: t, a, s => if k = a then (k, s) :: t else (k, x) :: lset t a s

/-- `x.Merge(y)` and `x.Diff(y)` of the last-value aggregations: `x` when its sample is strictly later, else `y` -/
def later (x y : Sample) : Sample := if x.ts > y.ts then x else y

/-- `acc->Set(a, (acc->Get(a) or default)->Merge(s))`; the default aggregation has sample time 0 (the epoch) -/
def lmergeOne (acc : LMap) (kv : Nat × Sample) : LMap :=
  match acc.lookup kv.1 with
  | some x => lset acc kv.1 (later x kv.2)
  | none => lset acc kv.1 (later ⟨0, 0⟩ kv.2)

def lmergeInto (acc m : LMap) : LMap := m.foldl lmergeOne acc
def lmergeAll (l : List LMap) : LMap := l.foldl lmergeInto []

structure LData where
  temporality : Temporality
  startTs : Nat
  endTs : Nat
  points : LMap

structure LState where
  unreported : Nat → Option (List LMap)
  last : Nat → Option (LMap × Nat)

def LState.init : LState := { unreported := fun _ => none, last := fun _ => none }

def lstashAll (n : Nat) (u : Nat → Option (List LMap)) (δ : LMap) : Nat → Option (List LMap) :=
  fun r => if r < n then some ((u r).getD [] ++ [δ]) else u r

/-- `TemporalMetricStorage::buildMetrics` for last-value aggregations (same control flow as
    `Otel.Temporal.buildMetrics`, `Merge` = `later`) -/
def lbuild (n : Nat) (temp : Temporality) (t : LState) (r now : Nat) (δ : LMap) : LState × Option LData :=
  if fastPath n temp then
    if δ.isEmpty then (t, none)
    else
      match t.last r with
      | some (m, ts) => ({ t with last := setAt t.last r (some (m, now)) }, some ⟨.delta, ts, now, δ⟩)
      | none => ({ t with last := setAt t.last r (some ([], now)) }, some ⟨.delta, 0, now, δ⟩)
  else
    let u := if δ.isEmpty then t.unreported else lstashAll n t.unreported δ
    match u r with
    | none => ({ t with unreported := u }, none)
    | some lst =>
      let merged := lmergeAll lst
      let u' := setAt u r (some [])
      match t.last r with
      | some (lastMap, lastTs) =>
        match temp with
        | .cumulative =>
          -- `last->GetAllEnteries: merged->Set(a, merged->Get(a)->Merge(lastAgg))` (or default->Merge(lastAgg))
          let m := lmergeInto merged lastMap
          ({ unreported := u', last := setAt t.last r (some (m, now)) }, some ⟨.cumulative, 0, now, m⟩)
        | .delta =>
          ({ unreported := u', last := setAt t.last r (some (merged, now)) }, some ⟨.delta, lastTs, now, merged⟩)
      | none =>
        ({ unreported := u', last := setAt t.last r (some (merged, now)) }, some ⟨temp, 0, now, merged⟩)

/-- a storage whose aggregation is last-value, with the sample stamped by the caller: the common core of the
    synchronous gauge storage and (see `Props/C17.lean`) of the observable gauge storage -/
structure LStorage where
  cur : LMap
  temporal : LState

def LStorage.init : LStorage := { cur := [], temporal := LState.init }

inductive LOp
  | record (a : Nat) (x : Sample)
  | collect (r ts : Nat)

def lcollect (c : Cfg) (s : LStorage) (r ts : Nat) : LStorage × Option LData :=
  if r < c.n then
    let res := lbuild c.n (c.temp r) s.temporal r ts s.cur
    ({ cur := [], temporal := res.1 }, res.2)
  else (s, none)

def lstep (c : Cfg) (s : LStorage) : LOp → LStorage × Option LData
  | .record a x => ({ s with cur := lset s.cur a x }, none)
  | .collect r ts => lcollect c s r ts

/-- run a history given most recent operation first -/
def lrunRev (c : Cfg) : List LOp → LStorage
  | [] => LStorage.init
  | op :: o => (lstep c (lrunRev c o) op).1

/-- `AsyncMetricStorage` of an observable gauge -/
structure GaugeStorage where
  cumulative : LMap
  delta : LMap
  temporal : LState

def GaugeStorage.init : GaugeStorage := { cumulative := [], delta := [], temporal := LState.init }

/-- one measurement `(a, v)` aggregated at sample time `ts` -/
def grecordOne (s : GaugeStorage) (a : Nat) (x : Sample) : GaugeStorage :=
  match s.cumulative.lookup a with
  | some p => { s with cumulative := lset s.cumulative a x, delta := lset s.delta a (later p x) }
  | none => { s with cumulative := lset s.cumulative a x, delta := lset s.delta a x }

/-- `Record(measurements)`: each measurement is aggregated at its own tick of the sample clock -/
def grecordAll (s : GaugeStorage) (clock : Nat) : DMap → GaugeStorage × Nat
  | [] => (s, clock)
  | (a, v) :: t => grecordAll (grecordOne s a ⟨v, clock + 1⟩) (clock + 1) t

def gcollect (c : Cfg) (s : GaugeStorage) (r ts : Nat) : GaugeStorage × Option LData :=
  if r < c.n then
    let res := lbuild c.n (c.temp r) s.temporal r ts s.delta
    ({ s with delta := [], temporal := res.1 }, res.2)
  else (s, none)

/-- `SyncMetricStorage` of a synchronous gauge (ABI v2): `GetOrSetDefault(a)->Aggregate(v)` overwrites the sample -/
structure SGaugeStorage where
  cur : LMap
  temporal : LState

def SGaugeStorage.init : SGaugeStorage := { cur := [], temporal := LState.init }

def sgrecord (s : SGaugeStorage) (a : Nat) (x : Sample) : SGaugeStorage := { s with cur := lset s.cur a x }

/-- `MetricCollector::GetAggregationTemporality`: a delta reader gets cumulative for a synchronous gauge -/
def sgcollect (c : Cfg) (s : SGaugeStorage) (r ts : Nat) : SGaugeStorage × Option LData :=
  if r < c.n then
    let res := lbuild c.n .cumulative s.temporal r ts s.cur
    ({ cur := [], temporal := res.1 }, res.2)
  else (s, none)

/-! ### the meter -/

inductive OKind
  | counter
  | updown
  | gauge
  | syncGauge
  deriving DecidableEq, Repr

structure AMeter where
  kinds : List OKind
  sums : Nat → AsyncStorage
  gauges : Nat → GaugeStorage
  sgauges : Nat → SGaugeStorage
  registry : Registry
  collects : Nat
  clock : Nat

def AMeter.init : AMeter :=
  { kinds := [], sums := fun _ => AsyncStorage.init, gauges := fun _ => GaugeStorage.init,
    sgauges := fun _ => SGaugeStorage.init, registry := [], collects := 0, clock := 0 }

/-- what the callbacks report in one cycle: callback `cb` calls `Observe(v, a)` for `script cb` in order -/
abbrev Script := Nat → List (Nat × Int)

/-- `Record` aggregates each measurement into a fresh default aggregation first; the sum aggregation of a monotonic
    instrument ignores a negative value, so a negative observation on an observable counter counts as 0 -/
def ignoreNegative (ms : DMap) : DMap := ms.map fun kv => (kv.1, if kv.2 < 0 then 0 else kv.2)

/-- `ObservableRegistry::Observe`: invoke each record once, in order, and `Record*` its measurements into the
    storage of the record's instrument -/
def observe (m : AMeter) (script : Script) : AMeter :=
  (invocations m.registry).foldl (fun m inv =>
    let ms := measurements (script inv.cb)
    match m.kinds[inv.instr]? with
    | some .gauge =>
      let res := grecordAll (m.gauges inv.instr) m.clock ms
      { m with gauges := setAt m.gauges inv.instr res.1, clock := res.2 }
    | some .syncGauge => m
    | some .counter => { m with sums := setAt m.sums inv.instr (recordAll (m.sums inv.instr) (ignoreNegative ms)) }
    | some .updown => { m with sums := setAt m.sums inv.instr (recordAll (m.sums inv.instr) ms) }
    | none => m) m

/-- what a reader receives for one instrument -/
inductive Out
  | sum (md : MetricData)
  | lv (md : LData)

/-- `Meter::Collect(collector r, now)`: `Observe`, then every storage in the registry is collected -/
def amcollect (c : Cfg) (m : AMeter) (r : Nat) (script : Script) : AMeter × List Nat × (Nat → Option Out) :=
  let ts := m.collects + 1
  let calls := (invocations m.registry).map (·.cb)
  let m1 := observe m script
  let out : Nat → Option Out := fun i =>
    match m1.kinds[i]? with
    | some .gauge => (gcollect c (m1.gauges i) r ts).2.map Out.lv
    | some .syncGauge => (sgcollect c (m1.sgauges i) r ts).2.map Out.lv
    | some _ => (acollect c (m1.sums i) r ts).2.map Out.sum
    | none => none
  ({ m1 with sums := fun i => (acollect c (m1.sums i) r ts).1,
             gauges := fun i => (gcollect c (m1.gauges i) r ts).1,
             sgauges := fun i => (sgcollect c (m1.sgauges i) r ts).1,
             collects := ts }, calls, out)

inductive AOp
  | create (k : OKind)
  | addcb (i cb : Nat)
  | rmcb (i cb : Nat)
  | destroy (i : Nat)
  | grec (i a : Nat) (v : Int)
  | collect (r : Nat) (script : Script)

/-- one operation on the meter; the storages of a destroyed instrument stay in `storage_registry_` -/
def amstep (c : Cfg) (m : AMeter) : AOp → AMeter
  | .create k => { m with kinds := m.kinds ++ [k] }
  | .addcb i cb => { m with registry := addCallback m.registry cb i }
  | .rmcb i cb => { m with registry := removeCallback m.registry cb i }
  | .destroy i => { m with registry := cleanupCallback m.registry i }
  | .grec i a v =>
    match m.kinds[i]? with
    | some .syncGauge => { m with sgauges := setAt m.sgauges i (sgrecord (m.sgauges i) a ⟨v, m.clock + 1⟩), clock := m.clock + 1 }
    | _ => m
  | .collect r script => (amcollect c m r script).1

/-- run a history given most recent operation first -/
def amrunRev (c : Cfg) : List AOp → AMeter
  | [] => AMeter.init
  | op :: older => amstep c (amrunRev c older) op

end Otel.C17
