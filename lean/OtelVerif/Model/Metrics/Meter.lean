import OtelVerif.Model.Metrics.SyncStorage
/-! Model of the part of `Meter` (`sdk/src/metrics/meter.cc`), `SyncMultiMetricStorage` (`multi_metric_storage.h`),
    `sync_instruments.cc` and `MetricCollector::Produce` that C06 is about: creating counter / up-down-counter
    handles, fan-out of `Add` to one storage per matching view, `Meter::Collect` over `storage_registry_`.

    The registry is keyed **per stream** — instrument name, type, value type, position of the view among the
    matching views — and a `Create*` call for a stream that already exists attaches the existing storage to the new
    handle (this is the code after the D09 fix; before it the key was the instrument name alone and every `Create*`
    and every further view replaced the entry). -/
namespace Otel.C06
open Otel.Temporal

/-- instrument type and value type: Counter (`mono`) or UpDownCounter, `double` (`dbl`) or `long` -/
structure Kind where
  mono : Bool
  dbl : Bool
  deriving DecidableEq, Repr

/-- key of `storage_registry_` (`StorageRegistryKey` in meter.cc) -/
structure StreamKey where
  name : Nat
  kind : Kind
  view : Nat
  deriving DecidableEq, Repr

/-- provider configuration: the readers, and the registered views.  View `g` selects instruments of name
    `views[g].1` and type Counter (`views[g].2 = true`) or UpDownCounter; it keeps the default (sum) aggregation
    and all attributes (aggregation choice and attribute filters are C07/C08/C19). -/
structure MCfg where
  temps : List Temporality
  views : List (Nat × Bool)

def MCfg.cfg (mc : MCfg) : Cfg := ⟨mc.temps⟩

/-- `ViewRegistry::FindViews`: one callback per matching registered view, or one for the default view -/
def nStreams (mc : MCfg) (name : Nat) (k : Kind) : Nat :=
  let m := (mc.views.filter (fun v => v.1 == name && v.2 == k.mono)).length
  if m = 0 then 1 else m

def streamKeys (mc : MCfg) (name : Nat) (k : Kind) : List StreamKey :=
  (List.range (nStreams mc name k)).map fun j => ⟨name, k, j⟩

/-- `storage_registry_` (a map; `keys` lists its keys in registration order for enumeration), the handles
    created so far (instrument kind, the storages of its `SyncMultiMetricStorage`), the number of collections -/
structure Meter where
  registry : StreamKey → Option Storage
  keys : List StreamKey
  handles : List (Kind × List StreamKey)
  collects : Nat

def Meter.init : Meter := { registry := fun _ => none, keys := [], handles := [], collects := 0 }

inductive MOp
  | create (name : Nat) (k : Kind)
  | add (h : Nat) (a : Nat) (v : Int)
  | collect (r : Nat)
  deriving Repr

/-- the `FindViews` callback of `RegisterSyncMetricStorage`: reuse the registered storage or register a new one -/
def register (m : Meter) (key : StreamKey) : Meter :=
  match m.registry key with
  | some _ => m
  | none => { m with registry := fun k => if k = key then some Storage.init else m.registry k, keys := m.keys ++ [key] }

def mcreate (mc : MCfg) (m : Meter) (name : Nat) (k : Kind) : Meter :=
  let ks := streamKeys mc name k
  let m' := ks.foldl register m
  { m' with handles := m'.handles ++ [(k, ks)] }

/-- the value as it reaches the aggregations: `DoubleCounter::Add` drops a negative value before the storage is
    touched (`none`); a `LongCounter` takes `uint64_t`, a value ≥ 2^63 arrives as a negative `int64_t`, the point
    is created by `GetOrSetDefault` and `LongSumAggregation::Aggregate` ignores the value (`some 0`). -/
def effective (k : Kind) (v : Int) : Option Int :=
  if k.mono && decide (v < 0) then (if k.dbl then none else some 0) else some v

/-- `Add` through handle `h`: `SyncMultiMetricStorage::Record*` records into every storage of the handle -/
def madd (m : Meter) (h a : Nat) (v : Int) : Meter :=
  match m.handles[h]? with
  | none => m
  | some (k, ks) =>
    match effective k v with
    | none => m
    | some v' => { m with registry := fun key => if ks.contains key then (m.registry key).map (record · a v') else m.registry key }

/-- `MetricReader::Collect` → `MetricCollector::Produce` → `Meter::Collect(collector r, now)`: every registered
    storage is collected with the same stamp; the second component is what the reader receives per stream -/
def mcollect (mc : MCfg) (m : Meter) (r : Nat) : Meter × (StreamKey → Option MetricData) :=
  let ts := m.collects + 1
  ({ m with registry := fun key => (m.registry key).map fun s => (collect mc.cfg s r ts).1, collects := ts },
   fun key => (m.registry key).bind fun s => (collect mc.cfg s r ts).2)

def mstep (mc : MCfg) (m : Meter) : MOp → Meter
  | .create n k => mcreate mc m n k
  | .add h a v => madd m h a v
  | .collect r => (mcollect mc m r).1

/-- run a history given most recent operation first -/
def mrunRev (mc : MCfg) : List MOp → Meter
  | [] => Meter.init
  | op :: older => mstep mc (mrunRev mc older) op

end Otel.C06
