import OtelVerif.Model.Regex
import OtelVerif.Gen.C19
/-! `sdk/src/metrics/instrument_metadata_validator.cc` (the `std::regex` variant, the one compiled with g++ ≥ 4.9):
    `ValidateName` / `ValidateUnit` = `std::regex_match` against the two generated patterns.

What the regex sees is decided by the source (`Gen.validate…WholeView`): the whole `string_view` (`begin(), end()`, the
code after the D12 fix) or the C string at `data()`, i.e. the bytes up to the first NUL (the code before the fix — on a
`string_view` that is not NUL-terminated that read runs past its end). -/
namespace Otel.Naming

/-- the C string at `data()` of a (terminated) buffer holding `s`: the bytes before the first NUL -/
def cstr (s : Bytes) : Bytes := s.takeWhile (· != 0)

def seen (wholeView : Bool) (s : Bytes) : Bytes := if wholeView then s else cstr s

def validNameWith (wholeView : Bool) (s : Bytes) : Bool := rxMatch Gen.instrumentNameRx (seen wholeView s)
def validUnitWith (wholeView : Bool) (s : Bytes) : Bool := rxMatch Gen.instrumentUnitRx (seen wholeView s)

/-- `InstrumentMetaDataValidator::ValidateName` as the source has it now -/
def validName (s : Bytes) : Bool := validNameWith Gen.validateNameWholeView s
/-- `InstrumentMetaDataValidator::ValidateUnit` as the source has it now -/
def validUnit (s : Bytes) : Bool := validUnitWith Gen.validateUnitWholeView s

/-- `Meter::ValidateInstrument` (the description is always accepted) -/
def validInstrument (name unit : Bytes) : Bool := validName name && validUnit unit

/-! ### the hand-written variants (`#else` branches; compiled only where `std::regex` is unusable) -/

/-- `isalpha` / `isalnum` in the "C" locale -/
def isAlphaC (c : UInt8) : Bool := (65 ≤ c && c ≤ 90) || (97 ≤ c && c ≤ 122)
def isAlnumC (c : UInt8) : Bool := isAlphaC c || (48 ≤ c && c ≤ 57)

/-- hand-written `ValidateName`.  `none` = it read `name[0]` of an empty view: out of bounds, the answer depends on
    whatever byte follows (the code before D62; `checksEmpty` = the `name.empty()` guard is present). -/
def validNameHandWith (checksEmpty : Bool) (s : Bytes) : Option Bool :=
  if (checksEmpty && s.isEmpty) || s.length > Gen.handNameMaxSize then some false else
  match s with
  | [] => none
  | c :: rest => some (isAlphaC c && rest.all fun x => isAlnumC x || Gen.handNameExtraChars.contains x)

/-- hand-written `ValidateUnit`; `rejectsNul` = the `c == '\0'` test of D62 is present -/
def validUnitHandWith (rejectsNul : Bool) (u : Bytes) : Bool :=
  if u.length > Gen.handUnitMaxSize then false
  else u.all fun c => !((rejectsNul && c == 0) || decide (c.toNat > 127))

def validNameHand (s : Bytes) : Option Bool := validNameHandWith Gen.handNameChecksEmpty s
def validUnitHand (u : Bytes) : Bool := validUnitHandWith Gen.handUnitRejectsNul u

end Otel.Naming
