import OtelVerif.Model.Metrics.Temporal
/-! Model of `SyncMetricStorage` (`sync_metric_storage.h/.cc`) for sum instruments: the current delta map
    `attributes_hashmap_`, `Record*` and `Collect` (swap under `attribute_hashmap_lock_`, then
    `TemporalMetricStorage::buildMetrics`). -/
namespace Otel.C06
open Otel.Temporal

/-- the readers configured on the provider: reader `i` asks for temporality `temps[i]` -/
structure Cfg where
  temps : List Temporality

def Cfg.n (c : Cfg) : Nat := c.temps.length
def Cfg.temp (c : Cfg) (r : Nat) : Temporality := c.temps.getD r .cumulative

structure Storage where
  cur : DMap
  temporal : TState

def Storage.init : Storage := { cur := [], temporal := TState.init }

/-- operations on one storage.  `add a v`: `RecordLong/RecordDouble(v, attributes a)`;
    `collect r ts`: `Collect(collector r, collectors, sdk_start, collection_ts = ts, callback)`. -/
inductive SOp
  | add (a : Nat) (v : Int)
  | collect (r : Nat) (ts : Nat)
  deriving Repr

/-- `Record*`: under the map lock `attributes_hashmap_->GetOrSetDefault(a)->Aggregate(v)` -/
def record (s : Storage) (a : Nat) (v : Int) : Storage := { s with cur := addTo s.cur a v }

/-- first half of `Collect`: under the map lock, take the delta map and install a fresh one -/
def swap (s : Storage) : Storage × DMap := ({ s with cur := [] }, s.cur)

/-- second half of `Collect`: `temporal_metric_storage_.buildMetrics(...)` with the taken map -/
def build (c : Cfg) (s : Storage) (r ts : Nat) (δ : DMap) : Storage × Option MetricData :=
  let res := buildMetrics c.n (c.temp r) s.temporal r ts δ
  ({ s with temporal := res.1 }, res.2)

/-- `Collect` as `Meter::Collect` runs it (under `storage_lock_`, so collections of one storage do not overlap).
    A collector that is not among the configured ones does not exist; the op is then a no-op. -/
def collect (c : Cfg) (s : Storage) (r ts : Nat) : Storage × Option MetricData :=
  if r < c.n then
    let sw := swap s
    build c sw.1 r ts sw.2
  else (s, none)

def sstep (c : Cfg) (s : Storage) : SOp → Storage × Option MetricData
  | .add a v => (record s a v, none)
  | .collect r ts => collect c s r ts

/-- run a history given **most recent operation first**; the second component lists what each reader's callback
    received, most recent first -/
def srunRev (c : Cfg) : List SOp → Storage × List (Nat × MetricData)
  | [] => (Storage.init, [])
  | op :: older =>
    let prev := srunRev c older
    let res := sstep c prev.1 op
    (res.1, match op, res.2 with
            | .collect r _, some md => (r, md) :: prev.2
            | _, _ => prev.2)

/-- run a history given in chronological order -/
def srun (c : Cfg) (h : List SOp) : Storage × List (Nat × MetricData) := srunRev c h.reverse

/-! ### record / collect races: the step system

`Collect` is two steps: *swap* (under `attribute_hashmap_lock_`) and *build* (`buildMetrics`, under the temporal
storage's `lock_`).  `Record*` takes `attribute_hashmap_lock_` too, so an `Add` is atomic with respect to *swap*.
A collector thread `tid` performs *swap* and later *build*; between the two any other step may happen: recordings,
and (when `SyncMetricStorage::Collect` is called directly rather than through `Meter::Collect`, which serialises
collections with `storage_lock_`) the steps of other collector threads, in any order. -/

/-- the delta map a collector thread holds between its swap and its build -/
structure Flight where
  tid : Nat
  r : Nat
  ts : Nat
  δ : DMap

inductive Step
  | add (a : Nat) (v : Int)
  | swap (tid r ts : Nat)
  | build (tid : Nat)

structure Conc where
  st : Storage
  inflight : List Flight
  outs : List (Nat × MetricData)

def Conc.init : Conc := { st := Storage.init, inflight := [], outs := [] }

/-- remove and return thread `tid`'s flight -/
def takeFlight (tid : Nat) : List Flight → Option (Flight × List Flight)
  | [] => none
  | f :: t => if f.tid = tid then some (f, t) else (takeFlight tid t).map fun p => (p.1, f :: p.2)

def cstep (c : Cfg) (s : Conc) : Step → Conc
  | .add a v => { s with st := record s.st a v }
  | .swap tid r ts =>
    -- a thread that is already between swap and build cannot swap again; an unknown collector does not exist
    if r < c.n ∧ (takeFlight tid s.inflight).isNone then
      { s with st := (swap s.st).1, inflight := ⟨tid, r, ts, (swap s.st).2⟩ :: s.inflight }
    else s
  | .build tid =>
    match takeFlight tid s.inflight with
    | none => s
    | some (f, rest) =>
      let b := build c s.st f.r f.ts f.δ
      { st := b.1, inflight := rest, outs := match b.2 with | some md => (f.r, md) :: s.outs | none => s.outs }

/-- run a schedule given most recent step first -/
def crunRev (c : Cfg) : List Step → Conc
  | [] => Conc.init
  | st :: older => cstep c (crunRev c older) st

end Otel.C06
