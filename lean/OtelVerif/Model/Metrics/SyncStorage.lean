import OtelVerif.Model.Metrics.Temporal
/-! Model of `SyncMetricStorage` (`sync_metric_storage.h/.cc`) for sum instruments: the current delta map
    `attributes_hashmap_`, `Record*` and `Collect` (swap under `attribute_hashmap_lock_`, then
    `TemporalMetricStorage::buildMetrics`). -/
namespace Otel.C06
open Otel.Temporal

/-- the readers configured on the provider: reader `i` asks for temporality `temps[i]` -/
structure Cfg where
  temps : List Temporality

def Cfg.n (c : Cfg) : Nat := c.temps.length
def Cfg.temp (c : Cfg) (r : Nat) : Temporality := c.temps.getD r .cumulative

structure Storage where
  cur : DMap
  temporal : TState

def Storage.init : Storage := { cur := [], temporal := TState.init }

/-- operations on one storage.  `add a v`: `RecordLong/RecordDouble(v, attributes a)`;
    `collect r ts`: `Collect(collector r, collectors, sdk_start, collection_ts = ts, callback)`. -/
inductive SOp
  | add (a : Nat) (v : Int)
  | collect (r : Nat) (ts : Nat)
  deriving Repr

/-- `Record*`: under the map lock `attributes_hashmap_->GetOrSetDefault(a)->Aggregate(v)` -/
def record (s : Storage) (a : Nat) (v : Int) : Storage := { s with cur := addTo s.cur a v }

/-- first half of `Collect`: under the map lock, take the delta map and install a fresh one -/
def swap (s : Storage) : Storage × DMap := ({ s with cur := [] }, s.cur)

/-- second half of `Collect`: `temporal_metric_storage_.buildMetrics(...)` with the taken map -/
def build (c : Cfg) (s : Storage) (r ts : Nat) (δ : DMap) : Storage × Option MetricData :=
  let res := buildMetrics c.n (c.temp r) s.temporal r ts δ
  ({ s with temporal := res.1 }, res.2)

/-- `Collect` as `Meter::Collect` runs it (under `storage_lock_`, so collections of one storage do not overlap).
    A collector that is not among the configured ones does not exist; the op is then a no-op. -/
def collect (c : Cfg) (s : Storage) (r ts : Nat) : Storage × Option MetricData :=
  if r < c.n then
    let sw := swap s
    build c sw.1 r ts sw.2
  else (s, none)

def sstep (c : Cfg) (s : Storage) : SOp → Storage × Option MetricData
  | .add a v => (record s a v, none)
  | .collect r ts => collect c s r ts

/-- run a history given **most recent operation first**; the second component lists what each reader's callback
    received, most recent first -/
def srunRev (c : Cfg) : List SOp → Storage × List (Nat × MetricData)
  | [] => (Storage.init, [])
  | op :: older =>
    let prev := srunRev c older
    let res := sstep c prev.1 op
    (res.1, match op, res.2 with
            | .collect r _, some md => (r, md) :: prev.2
            | _, _ => prev.2)

/-- run a history given in chronological order -/
def srun (c : Cfg) (h : List SOp) : Storage × List (Nat × MetricData) := srunRev c h.reverse

end Otel.C06
