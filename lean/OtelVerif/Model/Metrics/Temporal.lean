import OtelVerif.Gen.MetricsTemporal
/-! Model of `sdk/src/metrics/state/temporal_metric_storage.cc` (`TemporalMetricStorage::buildMetrics`) and of the
    `Sum` aggregation (`sum_aggregation.cc`), for C06 / C17.

    * an attribute set is an abstract key (a `Nat`: the index of a canonical attribute set; canonicalisation and
      the cardinality limit are C08's subject, the histories of C06/C17 stay below any limit);
    * a value is an `Int`: a `long` measurement, or a `double` measurement in units of 2^-10 (the harness only feeds
      such doubles, bounded so that every sum is exact);
    * an `AttributesHashMap` of sum aggregations is an association list `DMap` (no duplicate keys, see `NoDup`);
      what a reader observes of it is `valAt` (the value of the point for a key, 0 when absent) and `has`
      (whether a point for the key is present). -/
namespace Otel.Temporal

/-- an `AttributesHashMap` whose aggregations are sums -/
abbrev DMap := List (Nat × Int)

/-- value of the point for `a` (0 when there is none).  Summing over all entries keeps the lemmas free of a
    no-duplicates side condition; `valAt_eq_lookup` shows it is the looked-up value on duplicate-free maps. -/
def valAt : DMap → Nat → Int
  | [], _ => 0
  | (k, v) :: t, a => (if k = a then v else 0) + valAt t a

/-- is there a point for `a` -/
def has : DMap → Nat → Bool
  | [], _ => false
  | (k, _) :: t, a => k == a || has t a

/-- `GetOrSetDefault(a)->Aggregate(v)` for a sum aggregation (default value 0); also
    `merged->Set(a, (merged->Get(a) or default)->Merge(agg))` where `agg` holds `v`: `Merge` is `+`. -/
def addTo : DMap → Nat → Int → DMap
  | [], a, v => [(a, v)]
  | (k, x) :: t, a, v => if k = a then (k, x + v) :: t else (k, x) :: addTo t a v

/-- `m->GetAllEnteries([&](attrs, agg){ acc->Set(attrs, (acc->Get(attrs) or default)->Merge(agg)); })` -/
def mergeInto (acc m : DMap) : DMap := m.foldl (fun acc kv => addTo acc kv.1 kv.2) acc

/-- merge of a list of delta maps into an empty map (the loop over `unreported_list`) -/
def mergeAll (l : List DMap) : DMap := l.foldl mergeInto []

inductive Temporality
  | delta
  | cumulative
  deriving DecidableEq, Repr

/-- the `MetricData` handed to the collection callback; time stamps are logical: 0 = SDK start, otherwise the
    stamp passed to the collection that produced the point -/
structure MetricData where
  temporality : Temporality
  startTs : Nat
  endTs : Nat
  points : DMap

/-- `unreported_metrics_` and `last_reported_metrics_`, keyed by collector (reader index).
    `unreported r = none` means `unreported_metrics_.find(r) == end()`. -/
structure TState where
  unreported : Nat → Option (List DMap)
  last : Nat → Option (DMap × Nat)

def TState.init : TState := { unreported := fun _ => none, last := fun _ => none }

def setAt {α : Type} (f : Nat → α) (i : Nat) (x : α) : Nat → α := fun j => if j = i then x else f j

/-- `for (auto &col : collectors) unreported_metrics_[col.get()].push_back(delta_metrics);` -/
def stashAll (n : Nat) (u : Nat → Option (List DMap)) (δ : DMap) : Nat → Option (List DMap) :=
  fun r => if r < n then some ((u r).getD [] ++ [δ]) else u r

/-- the fast path is taken when there is exactly one collector (the number is re-extracted from the source:
    `Gen.temporalFastPathCollectors`) and it asks for delta temporality -/
def fastPath (n : Nat) (temp : Temporality) : Bool := n == Gen.temporalFastPathCollectors && temp == .delta

/-- `TemporalMetricStorage::buildMetrics(collector r, collectors (n of them), sdk_start_ts = 0, collection_ts = now,
    delta_metrics = δ, callback)`; `temp` = `collector->GetAggregationTemporality(...)`.
    Returns the new state and what the callback received (`none`: the callback is not invoked).

    Fast path (with the D08 fix: the previous end stamp is remembered in `last_reported_metrics_`):
      empty δ → nothing; otherwise a delta `MetricData` [previous end or SDK start, now] with the points of δ.
    General path: a non-empty δ is pushed on every collector's stash; no stash entry for `r` → nothing;
      otherwise the stash of `r` is taken (the entry stays, empty), merged, for a cumulative reader merged with its
      last report; the result becomes `last_reported_metrics_[r]` and is reported with start = the previous stamp
      (delta, when there is a previous report) or SDK start. -/
def buildMetrics (n : Nat) (temp : Temporality) (t : TState) (r now : Nat) (δ : DMap) : TState × Option MetricData :=
  if fastPath n temp then
    if δ.isEmpty then (t, none)
    else
      match t.last r with
      | some (m, ts) => ({ t with last := setAt t.last r (some (m, now)) }, some ⟨.delta, ts, now, δ⟩)
      | none => ({ t with last := setAt t.last r (some ([], now)) }, some ⟨.delta, 0, now, δ⟩)
  else
    let u := if δ.isEmpty then t.unreported else stashAll n t.unreported δ
    match u r with
    | none => ({ t with unreported := u }, none)
    | some lst =>
      let merged := mergeAll lst
      let u' := setAt u r (some [])
      match t.last r with
      | some (lastMap, lastTs) =>
        match temp with
        | .cumulative =>
          let m := mergeInto merged lastMap
          ({ unreported := u', last := setAt t.last r (some (m, now)) }, some ⟨.cumulative, 0, now, m⟩)
        | .delta =>
          ({ unreported := u', last := setAt t.last r (some (merged, now)) }, some ⟨.delta, lastTs, now, merged⟩)
      | none =>
        ({ unreported := u', last := setAt t.last r (some (merged, now)) }, some ⟨temp, 0, now, merged⟩)

end Otel.Temporal
