import OtelVerif.Model.Ring
/-! `Model/Ring.lean` with **stale loads** of `head_` / `tail_` in `CircularBuffer::Add`.

In the C++ memory model the loads `uint64_t tail = tail_; uint64_t head = head_;` of `Add` need not return the latest
value: the `head_` CAS is `release` (not `seq_cst`), and a producer that has not synchronised with the consumer may keep
seeing an old `tail_`.  Both counters are written only by read-modify-writes (`compare_exchange`, `+=`) and only grow,
so what a load can return is *some earlier value* of the counter (`Lemmas/RelAcq.lean`, `load_le_latest`).  This model
over-approximates that: `ldTailStale p t` / `ldHeadStale p h` let the load return **any** `t ≤ tail`, `h ≤ head` -
also combinations no C++ execution produces (`h < t`; then `head - tail` wraps around in `uint64_t` and the full test
succeeds: modelled as a failure).  Everything else is a step of the SC model: the slot CAS, the `head_` CAS, the undo
`Swap`, `tail_ += n` and the consumer's exchanges are read-modify-writes and read the latest value in any C++ execution
(`Model/RelAcq.lean`, `rmw`); a compare_exchange that fails on a stale value is the model's spurious failure.

Ghost `c0` (SC model: the number of elements consumed when this `Add` began) becomes `min c0 t` at a stale tail load:
the consumption the producer has *seen*. -/
namespace Otel.RingStale
open Otel.Ring

inductive Act where
  | sc (a : Ring.Act)
  | ldTailStale (p t : Nat)
  | ldHeadStale (p h : Nat)

def step (s : St) : Act → Option St
  | .sc a => Ring.step s a
  | .ldTailStale p t =>
      if (s.prods p).pc = .ldTail ∧ t ≤ s.tail then
        some { s with prods := upd s.prods p { (s.prods p) with pc := .ldHead t, c0 := min (s.prods p).c0 t } }
      else none
  | .ldHeadStale p h =>
      match (s.prods p).pc with
      | .ldHead t =>
        if h ≤ s.head then
          if h < t ∨ h - t ≥ s.cap - 1 then
            some { s with prods := setPc s p .idle, fails := (s.prods p).elem :: s.fails }
          else some { s with prods := setPc s p (.swap t h) }
        else none
      | _ => none

def run (s : St) : List Act → Option St
  | [] => some s
  | a :: as => match step s a with
    | some s' => run s' as
    | none => none

end Otel.RingStale
