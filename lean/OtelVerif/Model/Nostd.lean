import OtelVerif.Model.Basic
/-! # Model of the `nostd` vocabulary types (`WITH_STL=OFF`: the repository's own implementations)

`string_view` operations on byte lists, `span` as a checked slice of a base buffer, `unique_ptr` / `shared_ptr` as
ownership machines over handle slots and instance-counted objects, `variant` as a tagged sum, `function_ref` as
application.  Mirrors `nostd/string_view.h`, `span.h`, `unique_ptr.h`, `shared_ptr.h` (after `fix: D16`),
`variant.h` (vendored absl), `function_ref.h`. -/
namespace Otel.Nostd

/-! ## string_view -/

/-- `Traits::compare(p, q, n)` on two equally long prefixes: the first differing byte decides, bytes compare
    as `unsigned char` -/
def memcmp : Bytes → Bytes → Int
  | a :: as, b :: bs => if a < b then -1 else if b < a then 1 else memcmp as bs
  | _, _ => 0

/-- `string_view::compare(v)`: compare the common prefix, then the lengths (the sign is what is observable) -/
def compare (a b : Bytes) : Int :=
  let len := min a.length b.length
  let r := memcmp (a.take len) (b.take len)
  if r = 0 then (if a.length = b.length then 0 else if a.length < b.length then -1 else 1) else r

/-- `operator==`: same length and `std::equal` -/
def eq (a b : Bytes) : Bool := a.length == b.length && a == b

def lt (a b : Bytes) : Bool := decide (compare a b < 0)
def gt (a b : Bytes) : Bool := decide (compare a b > 0)

/-- `Traits::find(p, n, ch)`: offset of the first occurrence -/
def findFirst (ch : UInt8) : Bytes → Option Nat
  | [] => none
  | c :: t => if c = ch then some 0 else (findFirst ch t).map (· + 1)

/-- `string_view::find(ch, pos)`; `none` = `npos` -/
def find (a : Bytes) (ch : UInt8) (pos : Nat) : Option Nat :=
  if pos < a.length then (findFirst ch (a.drop pos)).map (· + pos) else none

/-- `string_view::substr(pos, n)`; `none` = `std::out_of_range` is thrown (`pos > size()`) -/
def substr (a : Bytes) (pos n : Nat) : Option Bytes :=
  if pos > a.length then none else some ((a.drop pos).take (min n (a.length - pos)))

/-- `compare(pos1, count1, v)` -/
def compare3 (a : Bytes) (pos1 n1 : Nat) (b : Bytes) : Option Int := (substr a pos1 n1).map (compare · b)

/-- `compare(pos1, count1, v, pos2, count2)`; the left `substr` is evaluated first (either failure throws) -/
def compare5 (a : Bytes) (pos1 n1 : Nat) (b : Bytes) (pos2 n2 : Nat) : Option Int :=
  match substr a pos1 n1, substr b pos2 n2 with
  | some x, some y => some (compare x y)
  | _, _ => none

/-- `string_view(const char *)`: up to the first NUL -/
def ofCStr (a : Bytes) : Bytes := a.takeWhile (· ≠ 0)

/-! ## span -/

/-- a span over `base`: `(offset, length)`; only spans inside the buffer can be formed -/
def slice (base : Bytes) (off cnt : Nat) : Option Bytes :=
  if off + cnt ≤ base.length then some ((base.drop off).take cnt) else none

inductive SpanRes where
  | elems (bs : Bytes)
  | terminate            -- static extent ≠ count: `std::terminate()`
  deriving DecidableEq, Repr

/-- `span<T, N>(ptr, count)` -/
def fixedSpan (base : Bytes) (n off cnt : Nat) : Option SpanRes :=
  (slice base off cnt).map fun bs => if cnt = n then .elems bs else .terminate

/-- checked `operator[]` -/
def spanGet (s : Bytes) (i : Nat) : Option UInt8 := s[i]?

/-! ## ownership machines -/

def upd {α : Type} (f : Nat → α) (i : Nat) (v : α) : Nat → α := fun j => if j = i then v else f j

/-- a handle slot: `none` = no handle object lives there, `some none` = an empty handle, `some (some o)` = owns `o` -/
abbrev Slot := Option (Option Nat)

/-- `shared_ptr` machine: `k` slots, `next` objects created so far, `cnt o` = how often `o`'s destructor ran -/
structure Sh where
  k : Nat
  slot : Nat → Slot
  next : Nat
  cnt : Nat → Nat

def Sh.init (k : Nat) : Sh :=
  { k := k
    slot := fun _ => none
    next := 0
    cnt := fun _ => 0 }

/-- some handle still owns `o` (the reference count of `o` is not zero) -/
def Sh.refd (s : Sh) (o : Nat) : Bool := (List.range s.k).any fun h => s.slot h == some (some o)

/-- the wrapper in slot `h` gives up its reference and the slot becomes `v` (`vacant` or an empty handle); the object
    is destroyed when that was the last reference -/
def Sh.clear (s : Sh) (h : Nat) (v : Slot) : Sh :=
  let s' := { s with slot := upd s.slot h v }
  match s.slot h with
  | some (some o) => if s'.refd o then s' else { s' with cnt := upd s'.cnt o (s'.cnt o + 1) }
  | _ => s'

/-- a new object, owned by slot `h` -/
def Sh.alloc (s : Sh) (h : Nat) : Sh :=
  { s with slot := upd s.slot h (some (some s.next)), next := s.next + 1 }

inductive ShOp where
  | ctor (h : Nat)          -- shared_ptr()
  | ctorp (h : Nat)         -- shared_ptr(new P) / from unique_ptr&& / from std::shared_ptr
  | ctorc (h g : Nat)       -- shared_ptr(const shared_ptr &)
  | ctorm (h g : Nat)       -- shared_ptr(shared_ptr &&)
  | dtor (h : Nat)          -- ~shared_ptr()
  | asgc (h g : Nat)        -- operator=(const shared_ptr &), self allowed
  | asgm (h g : Nat)        -- operator=(shared_ptr &&), self allowed
  | asgn (h : Nat)          -- operator=(nullptr)
  | asgp (h : Nat)          -- h = shared_ptr(new P)   (move assignment from a temporary)
  | swap (h g : Nat)        -- swap, self allowed
  | get (h : Nat)           -- get(), operator bool, == nullptr
  | eq (h g : Nat)          -- operator==

inductive PtrObs where
  | none
  | target (t : Option Nat)
  | flag (b : Bool)
  deriving DecidableEq, Repr

def Sh.vacant (s : Sh) (h : Nat) : Bool := h < s.k && s.slot h == none
def Sh.alive (s : Sh) (h : Nat) : Bool := h < s.k && s.slot h != none
def Sh.target (s : Sh) (h : Nat) : Option Nat := (s.slot h).getD none

/-- one operation; `none` = the program is ill-formed (constructing over a live handle, using a vacant slot) -/
def Sh.step (s : Sh) : ShOp → Option (Sh × PtrObs)
  | .ctor h => if s.vacant h then some ({ s with slot := upd s.slot h (some none) }, .none) else none
  | .ctorp h => if s.vacant h then some (s.alloc h, .none) else none
  | .ctorc h g =>
    if s.vacant h ∧ s.alive g then some ({ s with slot := upd s.slot h (s.slot g) }, .none) else none
  | .ctorm h g =>
    if s.vacant h ∧ s.alive g then
      some ({ s with slot := upd (upd s.slot h (s.slot g)) g (some none) }, .none)
    else none
  | .dtor h => if s.alive h then some (s.clear h none, .none) else none
  | .asgc h g =>
    if s.alive h ∧ s.alive g then
      if h = g then some (s, .none)                      -- `if (this != &other)` (fix D16)
      else
        let s1 := s.clear h none                          -- wrapper().~shared_ptr_wrapper()
        some ({ s1 with slot := upd s1.slot h (s1.slot g) }, .none)   -- other.wrapper().CopyTo(buffer_)
    else none
  | .asgm h g =>
    if s.alive h ∧ s.alive g then
      if h = g then some (s, .none)
      else
        let s1 := s.clear h none
        some ({ s1 with slot := upd (upd s1.slot h (s1.slot g)) g (some none) }, .none)   -- MoveTo
    else none
  | .asgn h => if s.alive h then some (s.clear h (some none), .none) else none
  | .asgp h => if s.alive h then some ((s.clear h none).alloc h, .none) else none
  | .swap h g =>
    if s.alive h ∧ s.alive g then
      some ({ s with slot := upd (upd s.slot h (s.slot g)) g (s.slot h) }, .none)
    else none
  | .get h => if s.alive h then some (s, .target (s.target h)) else none
  | .eq h g => if s.alive h ∧ s.alive g then some (s, .flag (s.target h == s.target g)) else none

def Sh.run (s : Sh) : List ShOp → Option Sh
  | [] => some s
  | o :: os => match s.step o with
    | none => none
    | some (s', _) => s'.run os

/-- end of the program: every handle that is still alive is destroyed, slot by slot -/
def Sh.finishFrom (s : Sh) : Nat → Sh
  | 0 => s
  | h + 1 => let s' := Sh.finishFrom s h; if s'.alive h then s'.clear h none else s'

def Sh.finish (s : Sh) : Sh := s.finishFrom s.k

/-- `unique_ptr` machine: handle slots plus the raw pointers a program obtained with `release()` and still holds -/
structure Un where
  k : Nat
  slot : Nat → Slot
  nraw : Nat
  raw : Nat → Option Nat
  next : Nat
  cnt : Nat → Nat

def Un.init (k : Nat) : Un :=
  { k := k
    slot := fun _ => none
    nraw := 0
    raw := fun _ => none
    next := 0
    cnt := fun _ => 0 }

def Un.vacant (s : Un) (h : Nat) : Bool := h < s.k && s.slot h == none
def Un.alive (s : Un) (h : Nat) : Bool := h < s.k && s.slot h != none
def Un.target (s : Un) (h : Nat) : Option Nat := (s.slot h).getD none

/-- `delete p` (nothing for a null pointer) -/
def Un.delete (s : Un) : Option Nat → Un
  | none => s
  | some o => { s with cnt := upd s.cnt o (s.cnt o + 1) }

/-- `reset(p)`: `if (ptr_ != nullptr) delete ptr_; ptr_ = p;` -/
def Un.reset (s : Un) (h : Nat) (p : Option Nat) : Un :=
  let s' := s.delete (s.target h)
  { s' with slot := upd s'.slot h (some p) }

inductive UnOp where
  | ctor (h : Nat)          -- unique_ptr() / unique_ptr(nullptr)
  | ctorp (h : Nat)         -- unique_ptr(new P) / from std::unique_ptr&&
  | ctorm (h g : Nat)       -- unique_ptr(unique_ptr &&)
  | dtor (h : Nat)          -- ~unique_ptr()
  | asgm (h g : Nat)        -- operator=(unique_ptr &&), self allowed
  | asgn (h : Nat)          -- operator=(nullptr)
  | asgp (h : Nat)          -- h = unique_ptr(new P) / = std::unique_ptr(new P)
  | reset (h : Nat)         -- reset()
  | resetp (h : Nat)        -- reset(new P)
  | release (h : Nat)       -- release(); the program keeps the raw pointer
  | adopt (h r : Nat)       -- reset(raw r)
  | del (r : Nat)           -- delete raw r
  | swap (h g : Nat)        -- swap, self allowed
  | tostd (h : Nat)         -- std::unique_ptr<P> u = std::move(h); u dies at once
  | get (h : Nat)
  | eq (h g : Nat)

def Un.step (s : Un) : UnOp → Option (Un × PtrObs)
  | .ctor h => if s.vacant h then some ({ s with slot := upd s.slot h (some none) }, .none) else none
  | .ctorp h =>
    if s.vacant h then some ({ s with slot := upd s.slot h (some (some s.next)), next := s.next + 1 }, .none) else none
  | .ctorm h g =>
    if s.vacant h ∧ s.alive g then
      some ({ s with slot := upd (upd s.slot g (some none)) h (some (s.target g)) }, .none)   -- ptr_{other.release()}
    else none
  | .dtor h => if s.alive h then let s' := s.delete (s.target h); some ({ s' with slot := upd s'.slot h none }, .none) else none
  | .asgm h g =>
    if s.alive h ∧ s.alive g then
      let p := s.target g                                              -- other.release()
      let s1 := { s with slot := upd s.slot g (some none) }
      some (s1.reset h p, .none)                                       -- reset(p)
    else none
  | .asgn h => if s.alive h then some (s.reset h none, .none) else none
  | .asgp h =>
    if s.alive h then some ({ s.reset h (some s.next) with next := s.next + 1 }, .none) else none
  | .reset h => if s.alive h then some (s.reset h none, .none) else none
  | .resetp h =>
    if s.alive h then some ({ s.reset h (some s.next) with next := s.next + 1 }, .none) else none
  | .release h =>
    if s.alive h then
      some ({ s with slot := upd s.slot h (some none), raw := upd s.raw s.nraw (s.target h), nraw := s.nraw + 1 },
            .target (s.target h))
    else none
  | .adopt h r =>
    if s.alive h ∧ r < s.nraw ∧ (s.raw r).isSome then
      some ({ s.reset h (s.raw r) with raw := upd s.raw r none }, .none)
    else none
  | .del r =>
    if r < s.nraw ∧ (s.raw r).isSome then some ({ s.delete (s.raw r) with raw := upd s.raw r none }, .none) else none
  | .swap h g =>
    if s.alive h ∧ s.alive g then
      some ({ s with slot := upd (upd s.slot h (s.slot g)) g (s.slot h) }, .none)
    else none
  | .tostd h =>
    if s.alive h then
      let s' := s.delete (s.target h)
      some ({ s' with slot := upd s'.slot h (some none) }, .none)
    else none
  | .get h => if s.alive h then some (s, .target (s.target h)) else none
  | .eq h g => if s.alive h ∧ s.alive g then some (s, .flag (s.target h == s.target g)) else none

def Un.run (s : Un) : List UnOp → Option Un
  | [] => some s
  | o :: os => match s.step o with
    | none => none
    | some (s', _) => s'.run os

/-- an operation applied at the end of a program (skipped when it does not apply) -/
def Un.stepD (s : Un) (op : UnOp) : Un :=
  match s.step op with
  | some (s', _) => s'
  | none => s

/-- end of the program: the handles that are still alive are destroyed slot by slot … -/
def Un.finishSlots (s : Un) : Nat → Un
  | 0 => s
  | h + 1 => (Un.finishSlots s h).stepD (.dtor h)

/-- … then the raw pointers the program still holds are deleted -/
def Un.finishRaws (s : Un) : Nat → Un
  | 0 => s
  | r + 1 => (Un.finishRaws s r).stepD (.del r)

def Un.finish (s : Un) : Un :=
  let s1 := s.finishSlots s.k
  s1.finishRaws s1.nraw

/-! ## variant and function_ref -/

/-- `variant<monostate, bool, int64_t, std::string>` (the shapes the API uses): a tag and the payload of that tag -/
inductive Var where
  | mono
  | b (v : Bool)
  | i (v : Int)
  | s (v : Bytes)
  deriving DecidableEq, Repr

def Var.index : Var → Nat
  | .mono => 0
  | .b _ => 1
  | .i _ => 2
  | .s _ => 3

/-- `get<I>(v)`: the payload when `v` holds alternative `I`, otherwise `bad_variant_access` (`none`) -/
def Var.get (v : Var) (i : Nat) : Option Var := if v.index = i then some v else none

def Var.holds (v : Var) (i : Nat) : Bool := v.index == i

/-- `visit(f, v)`: `f` applied to the payload of the active alternative -/
def Var.visit {β : Type} (fm : β) (fb : Bool → β) (fi : Int → β) (fs : Bytes → β) : Var → β
  | .mono => fm
  | .b x => fb x
  | .i x => fi x
  | .s x => fs x

/-- `function_ref<R(Args...)>(f)(args)`: application of the referenced callable -/
def callRef {α β : Type} (f : α → β) (x : α) : β := f x

end Otel.Nostd
