import OtelVerif.Model.Basic
import OtelVerif.Gen.SpanAttr
/-! Attribute values as the SDK stores them (shared by the span model C04 and the log-record model C13).

Mirrors `api/include/opentelemetry/common/attribute_value.h` (`common::AttributeValue`, the non-owning variant the caller
passes), `sdk/include/opentelemetry/sdk/common/attribute_utils.h` (`OwnedAttributeValue`, `AttributeConverter`,
`AttributeMap::SetAttribute`).  Numbers carry their mathematical value (the driver only builds in-range ones and rejects
the rest), doubles are their 64-bit patterns, strings are byte lists so NUL and bytes ≥ 0x80 are in the domain. -/
namespace Otel.SAttr

/-- `common::AttributeValue`, alternatives in source order -/
inductive Value where
  | bool (b : Bool)
  | i32 (v : Int)
  | i64 (v : Int)
  | u32 (v : Nat)
  | f64 (bits : Nat)
  /-- `const char *`: the bytes of the caller's buffer in front of the terminating NUL the caller must supply -/
  | cstr (buf : Bytes)
  /-- `nostd::string_view`: pointer + length, any bytes -/
  | str (s : Bytes)
  | bools (l : List Bool)
  | i32s (l : List Int)
  | i64s (l : List Int)
  | u32s (l : List Nat)
  | f64s (l : List Nat)
  | strs (l : List Bytes)
  | u64 (v : Nat)
  | u64s (l : List Nat)
  | bytes (l : Bytes)
  deriving DecidableEq, Repr

/-- `sdk::common::OwnedAttributeValue`, alternatives in source order -/
inductive Owned where
  | bool (b : Bool)
  | i32 (v : Int)
  | u32 (v : Nat)
  | i64 (v : Int)
  | f64 (bits : Nat)
  | str (s : Bytes)
  | bools (l : List Bool)
  | i32s (l : List Int)
  | u32s (l : List Nat)
  | i64s (l : List Int)
  | f64s (l : List Nat)
  | strs (l : List Bytes)
  | u64 (v : Nat)
  | u64s (l : List Nat)
  | bytes (l : Bytes)
  deriving DecidableEq, Repr

/-- C++ spelling of the alternative a value holds (as it appears in the `nostd::variant<…>` list) -/
def Value.alt : Value → String
  | .bool _ => "bool"
  | .i32 _ => "int32_t"
  | .i64 _ => "int64_t"
  | .u32 _ => "uint32_t"
  | .f64 _ => "double"
  | .cstr _ => "const char *"
  | .str _ => "nostd::string_view"
  | .bools _ => "nostd::span<const bool>"
  | .i32s _ => "nostd::span<const int32_t>"
  | .i64s _ => "nostd::span<const int64_t>"
  | .u32s _ => "nostd::span<const uint32_t>"
  | .f64s _ => "nostd::span<const double>"
  | .strs _ => "nostd::span<const nostd::string_view>"
  | .u64 _ => "uint64_t"
  | .u64s _ => "nostd::span<const uint64_t>"
  | .bytes _ => "nostd::span<const uint8_t>"

def Owned.alt : Owned → String
  | .bool _ => "bool"
  | .i32 _ => "int32_t"
  | .u32 _ => "uint32_t"
  | .i64 _ => "int64_t"
  | .f64 _ => "double"
  | .str _ => "std::string"
  | .bools _ => "std::vector<bool>"
  | .i32s _ => "std::vector<int32_t>"
  | .u32s _ => "std::vector<uint32_t>"
  | .i64s _ => "std::vector<int64_t>"
  | .f64s _ => "std::vector<double>"
  | .strs _ => "std::vector<std::string>"
  | .u64 _ => "uint64_t"
  | .u64s _ => "std::vector<uint64_t>"
  | .bytes _ => "std::vector<uint8_t>"

/-- `variant::index()` of a caller-side value, from the alternative list found in the source -/
def Value.index (v : Value) : Nat := Gen.attrValueAlts.idxOf v.alt

/-- `variant::index()` of the stored value, from the alternative list found in the source -/
def Owned.index (o : Owned) : Nat := Gen.ownedValueAlts.idxOf o.alt

/-- `std::string(const char *)`: the bytes in front of the first NUL -/
def cString (buf : Bytes) : Bytes := buf.takeWhile (· ≠ 0)

/-- `nostd::visit(AttributeConverter{}, value)`: the owned deep copy -/
def convert : Value → Owned
  | .bool b => .bool b
  | .i32 v => .i32 v
  | .i64 v => .i64 v
  | .u32 v => .u32 v
  | .f64 b => .f64 b
  | .cstr buf => .str (cString buf)
  | .str s => .str s
  | .bools l => .bools l
  | .i32s l => .i32s l
  | .i64s l => .i64s l
  | .u32s l => .u32s l
  | .f64s l => .f64s l
  | .strs l => .strs l
  | .u64 v => .u64 v
  | .u64s l => .u64s l
  | .bytes l => .bytes l

/-- `AttributeMap` (an `unordered_map<std::string, OwnedAttributeValue>`): association list with pairwise distinct keys -/
abbrev Map := List (Bytes × Owned)

def Map.lookup (k : Bytes) : Map → Option Owned
  | [] => none
  | (k', v) :: t => if k' = k then some v else Map.lookup k t

/-- `(*this)[key] = v`: overwrite the entry of `key` in place, or append a new one -/
def Map.set (k : Bytes) (v : Owned) : Map → Map
  | [] => [(k, v)]
  | (k', v') :: t => if k' = k then (k, v) :: t else (k', v') :: Map.set k v t

/-- `AttributeMap::SetAttribute(key, value)` -/
def Map.setAttribute (m : Map) (k : Bytes) (v : Value) : Map := Map.set k (convert v) m

/-- `AttributeMap(const KeyValueIterable &)`: `SetAttribute` for every pair in iteration order -/
def Map.ofIterable (kvs : List (Bytes × Value)) : Map := kvs.foldl (fun m kv => m.setAttribute kv.1 kv.2) []

def Map.keys (m : Map) : List Bytes := m.map (·.1)

end Otel.SAttr
