import OtelVerif.Model.Basic
/-! `common/kv_properties.h`: `KeyValueStringTokenizer` and the fixed-capacity `KeyValueProperties`. -/
namespace Otel

/-- one step of `KeyValueStringTokenizer::next` on the not-yet-consumed suffix `rest` (`index_ < size`):
    the raw list member up to the next separator and what remains after it. -/
inductive Tok where
  | member (m : Bytes)        -- a non-empty trimmed list member
  | done
  deriving Repr

/-- the trimmed, non-empty list members in order (`ignore_empty_members = true`): what successive
    calls of `next` look at.  `fuel` is the string length (each round consumes at least one byte). -/
def kvMembers (sep : UInt8) : Nat → Bytes → List Bytes
  | 0, _ => []
  | _, [] => []
  | fuel + 1, s =>
    match takeTok sep s with
    | (tok, none) => let m := trim tok; if m.isEmpty then [] else [m]
    | (tok, some rest) =>
      let m := trim tok
      if m.isEmpty then kvMembers sep fuel rest else m :: kvMembers sep fuel rest

def members (sep : UInt8) (s : Bytes) : List Bytes := kvMembers sep s.length s

/-- the trimmed list members including the empty ones (`ignore_empty_members = false`: `next` reports an empty member
    as a valid pair of two empty strings).  A separator that ends the string does not start another member. -/
def kvMembersAll (sep : UInt8) : Nat → Bytes → List Bytes
  | 0, _ => []
  | _, [] => []
  | fuel + 1, s =>
    match takeTok sep s with
    | (tok, none) => [trim tok]
    | (tok, some rest) => trim tok :: kvMembersAll sep fuel rest

def membersAll (sep : UInt8) (s : Bytes) : List Bytes := kvMembersAll sep s.length s

/-- key / value of a list member: split at the first `kvsep`; `none` = "invalid member" (`valid_kv = false`) -/
def splitKv (kvsep : UInt8) (m : Bytes) : Option (Bytes × Bytes) :=
  match takeTok kvsep m with
  | (_, none) => none
  | (k, some v) => some (k, v)

/-- `NumTokens()` -/
def numTokens (sep : UInt8) : Nat → Bytes → Nat
  | 0, _ => 0
  | _, [] => 0
  | fuel + 1, s =>
    match takeTok sep s with
    | (_, none) => 1
    | (_, some rest) => 1 + numTokens sep fuel rest

def numTok (sep : UInt8) (s : Bytes) : Nat := numTokens sep s.length s

/-- `KeyValueProperties`: fixed capacity, `AddEntry` silently drops when full -/
structure KvProps where
  cap : Nat
  entries : List (Bytes × Bytes)
  deriving Repr

def KvProps.empty : KvProps := ⟨0, []⟩
def KvProps.add (p : KvProps) (k v : Bytes) : KvProps :=
  if p.entries.length < p.cap then { p with entries := p.entries ++ [(k, v)] } else p
def KvProps.get (p : KvProps) (k : Bytes) : Option Bytes :=
  (p.entries.find? (·.1 == k)).map (·.2)

end Otel
