import OtelVerif.Model.ReaderAbs
/-! Refinement map from the real periodic reader's trace to the protocol model (see `Model/BatchRefine.lean`). -/
namespace Otel.Reader

inductive Role where | W | C | R | F (i : Nat) | S (i : Nat) deriving Repr, DecidableEq

structure Ev where
  role : Role
  kind : String
  v : Nat := 0
  b : Bool := false
  deriving Repr

def guardEq (c : Bool) (s : Option St) : Option St := if c then s else none

def aWorker (s : St) (e : Ev) : Option St :=
  match s.wpc, e.kind with
  | .start, "pend" => guardEq (e.v == s.pending) (step s (.wStep false))
  | .spawn _, "spawn" => step s (.wStep false)
  | .waitF _, "cancel" => step s (.wStep true)
  | .waitF _, "joinc" => (step s (.wStep false)).bind fun s1 => step s1 (.wStep false)   -- the future was ready, then the join
  | .joinC _, "joinc" => step s (.wStep false)
  | .pubLd _, "not" => guardEq (e.v == s.notified) (step s (.wStep false))
  | .pubCas _ v, "cas" => guardEq (e.b == (s.notified == v)) (step s (.wStep false))
  | .cvwait, "loop" => guardEq (e.b == s.shutdown) ((step s .wWake).bind fun s1 => step s1 (.wStep false))
  | .done, "end" => some s
  | _, _ => none

def aCollect (s : St) (e : Ev) : Option St :=
  match s.cpc, e.kind with
  | .produce, "prod" => guardEq (e.v == s.recorded) (step s .cStep)
  | .cancelChk _, "cancel" => guardEq (e.b == s.cancel) (step s .cStep)
  | .exportB p, "expb" => guardEq (e.v == p) (step s .cStep)
  | .exportE _, "expe" => step s .cStep
  | .fin, "end" => some s
  | _, _ => none

def aFlush (s : St) (f : Nat) (e : Ev) : Option St :=
  match s.fl f, e.kind with
  | .idle, "beg" => guardEq (e.v == s.recorded) (step s (.fStep f 0 false))
  | .ticket _, "fadd" => guardEq (e.v == s.pending) (step s (.fStep f 0 false))
  | .wait _ _ _, "not" => guardEq (e.v == s.notified) (step s (.fStep f 0 false))
  | .wait _ _ _, "xfb" => step s (.fStep f 2 false)
  | .wait _ _ _, "ret" => guardEq (e.b == false) (step s (.fStep f 1 false))
  | .xfE _ _, "xfe" => step s (.fStep f 0 e.b)
  | .after _ _ _ _, "not" => guardEq (e.v == s.notified) (step s (.fStep f 0 false))
  | .after _ _ _ _, "ret" => (step s (.fStep f 1 false)).bind fun s1 =>
      match s1.fl f with
      | .ret _ ok => guardEq (ok == e.b) (some s1)
      | _ => none
  | _, _ => none

def aShut (s : St) (i : Nat) (e : Ev) : Option St :=
  match s.sd i, e.kind with
  | .idle, "beg" => step s (.sStep i)
  | .begin, "set" => step s (.sStep i)
  | .set, "join" => guardEq (!s.joined) (step s (.sStep i))
  | .set, "xsb" => guardEq s.joined ((step s (.sStep i)).bind fun s1 => step s1 (.sStep i))   -- not joinable any more
  | .xsB, "xsb" => step s (.sStep i)
  | .xsE, "xse" => step s (.sStep i)
  | .ret, "ret" => some s
  | _, _ => none

def astep (s : St) (e : Ev) : Option St :=
  match e.role with
  | .W => aWorker s e
  | .C => aCollect s e
  | .R => if e.kind = "rec" then guardEq (e.v == s.recorded + 1) (step s .record) else none
  | .F f => aFlush s f e
  | .S i => aShut s i e

end Otel.Reader
