import OtelVerif.Model.B3
import OtelVerif.Model.Baggage
/-! `context/propagation/composite_propagator.h` over an abstract propagator interface, and the five built-in
    propagators (`HttpTraceContext`, `B3Propagator`, `B3PropagatorMultiHeader`, `JaegerPropagator`,
    `BaggagePropagator` of `baggage/propagation/baggage_propagator.h` + `baggage/baggage_context.h`) as instances. -/
namespace Otel
namespace Propagation

/-- `TextMapPropagator`: `Inject(carrier, context)` mutates the carrier, `Extract(carrier, context)` returns a context -/
structure Propagator (Ctx Car : Type) where
  inject : Car → Ctx → Car
  extract : Car → Ctx → Ctx

/-- `for (auto &p : propagators_) p->Inject(carrier, context);` -/
def compositeInjectLoop {Ctx Car : Type} (ctx : Ctx) : List (Propagator Ctx Car) → Car → Car
  | [], car => car
  | p :: t, car => compositeInjectLoop ctx t (p.inject car ctx)

/-- the loop of `CompositePropagator::Extract` with its `first` flag and `tmp_context` -/
def compositeExtractLoop {Ctx Car : Type} (car : Car) (ctx : Ctx) : List (Propagator Ctx Car) → Bool → Ctx → Ctx
  | [], _, tmp => tmp
  | p :: t, first, tmp =>
    if first then compositeExtractLoop car ctx t false (p.extract car ctx)
    else compositeExtractLoop car ctx t false (p.extract car tmp)

/-- `CompositePropagator`; `empty` is the default-constructed `context::Context tmp_context` -/
def composite {Ctx Car : Type} (empty : Ctx) (ps : List (Propagator Ctx Car)) : Propagator Ctx Car where
  inject := fun car ctx => compositeInjectLoop ctx ps car
  extract := fun car ctx => if ps.length ≠ 0 then compositeExtractLoop car ctx ps true empty else ctx

/-! ### the concrete carrier and context of the built-in propagators -/

/-- a text-map carrier: header name → value; `Set` of a present name replaces its value -/
abbrev Carrier := List (Bytes × Bytes)

/-- `carrier.Get(name)`: the empty string for an absent header -/
def Carrier.get (c : Carrier) (name : Bytes) : Bytes := ((c.find? (·.1 == name)).map (·.2)).getD []

def Carrier.set (c : Carrier) (name v : Bytes) : Carrier :=
  if c.any (·.1 == name) then c.map (fun e => if e.1 == name then (name, v) else e) else c ++ [(name, v)]

/-- the two context slots the built-in propagators use: the span (`kSpanKey`) and the baggage (`kBaggageHeader`) -/
structure PCtx where
  span : Option TraceContext.SpanCtx
  baggage : Option Baggage.Entries
  deriving Repr, DecidableEq

/-- a context, or the fault token an extractor produced on the way (faults are threaded, never defaulted) -/
abbrev RCtx := IxRes PCtx

def traceparentName : Bytes := [116, 114, 97, 99, 101, 112, 97, 114, 101, 110, 116]
def tracestateName : Bytes := [116, 114, 97, 99, 101, 115, 116, 97, 116, 101]

def withSpan (r : RCtx) (f : PCtx → IxRes (Option TraceContext.SpanCtx)) : RCtx :=
  r.bind fun ctx => (f ctx).bind fun o =>
    match o with
    | none => .ok ctx
    | some sc => .ok { ctx with span := some sc }

def injectSpan (r : RCtx) (car : Carrier) (f : TraceContext.SpanCtx → Carrier) : Carrier :=
  match r with
  | .ok ctx => match ctx.span with
    | some sc => f sc
    | none => car
  | .fault _ => car

def w3c : Propagator RCtx Carrier where
  inject := fun car r => injectSpan r car fun sc =>
    match TraceContext.inject sc with
    | none => car
    | some (tp, tso) =>
      let c1 := car.set traceparentName tp
      match tso with
      | none => c1
      | some ts => c1.set tracestateName ts
  extract := fun car r => withSpan r fun _ => .ok (TraceContext.extract (car.get traceparentName) (car.get tracestateName))

def b3Extract (car : Carrier) (r : RCtx) : RCtx :=
  withSpan r fun _ => B3.extract (car.get Gen.b3CombinedHeader) (car.get Gen.b3TraceIdHeader) (car.get Gen.b3SpanIdHeader)
    (car.get Gen.b3SampledHeader)

def b3Single : Propagator RCtx Carrier where
  inject := fun car r => injectSpan r car fun sc =>
    match B3.injectSingle sc with
    | none => car
    | some h => car.set Gen.b3CombinedHeader h
  extract := b3Extract

def b3Multi : Propagator RCtx Carrier where
  inject := fun car r => injectSpan r car fun sc =>
    match B3.injectMulti sc with
    | none => car
    | some (t, s, f) => ((car.set Gen.b3TraceIdHeader t).set Gen.b3SpanIdHeader s).set Gen.b3SampledHeader f
  extract := b3Extract

def jaeger : Propagator RCtx Carrier where
  inject := fun car r => injectSpan r car fun sc =>
    match Jaeger.inject sc with
    | none => car
    | some h => car.set Gen.jaegerHeader h
  extract := fun car r => withSpan r fun _ => Jaeger.extract (car.get Gen.jaegerHeader)

/-- `BaggagePropagator`: `Inject` writes the header when it is non-empty; `Extract` installs the parsed baggage when
    its header form is non-empty, else returns the caller's context -/
def baggage : Propagator RCtx Carrier where
  inject := fun car r =>
    match r with
    | .ok ctx =>
      let h := Baggage.toHeader (ctx.baggage.getD [])
      if h.isEmpty then car else car.set Gen.baggageHeader h
    | .fault _ => car
  extract := fun car r =>
    r.bind fun ctx => (Baggage.fromHeader (car.get Gen.baggageHeader)).bind fun es =>
      if (Baggage.toHeader es).isEmpty then .ok ctx else .ok { ctx with baggage := some es }

def emptyCtx : RCtx := .ok { span := none, baggage := none }

/-- `NoOpPropagator` (`context/propagation/noop_propagator.h`), which is also what the global slot holds before
    `SetGlobalPropagator` is first called -/
def noop {Ctx Car : Type} : Propagator Ctx Car where
  inject := fun car _ => car
  extract := fun _ ctx => ctx

/-! ### `Fields(callback)` -/

/-- the caller's callback as the harness builds it: it records every name it is handed and answers `false` at its
    `stopAt`-th call (`0` = never) -/
structure FieldsCb where
  seen : List Bytes
  calls : Nat
  stopAt : Nat
  deriving Repr, DecidableEq

def FieldsCb.call (cb : FieldsCb) (name : Bytes) : FieldsCb × Bool :=
  ({ cb with seen := cb.seen ++ [name], calls := cb.calls + 1 }, !(cb.calls + 1 == cb.stopAt))

/-- `return callback(n1) && callback(n2) && …;` of a built-in propagator (`[]`: `NoOpPropagator`, `return true`) -/
def fieldsOf : List Bytes → FieldsCb → FieldsCb × Bool
  | [], cb => (cb, true)
  | n :: t, cb =>
    match cb.call n with
    | (cb', true) => fieldsOf t cb'
    | (cb', false) => (cb', false)

/-- `CompositePropagator::Fields`: `for (auto &p : propagators_) status = status && p->Fields(callback);` -/
def compositeFieldsLoop : List (List Bytes) → Bool → FieldsCb → FieldsCb × Bool
  | [], status, cb => (cb, status)
  | p :: t, status, cb =>
    if status then
      match fieldsOf p cb with
      | (cb', st) => compositeFieldsLoop t st cb'
    else compositeFieldsLoop t false cb

def compositeFields (parts : List (List Bytes)) (cb : FieldsCb) : FieldsCb × Bool := compositeFieldsLoop parts true cb

/-- the names each built-in propagator announces, in its order -/
def w3cFields : List Bytes := [traceparentName, tracestateName]
def b3SingleFields : List Bytes := [Gen.b3CombinedHeader]
def b3MultiFields : List Bytes := [Gen.b3TraceIdHeader, Gen.b3SpanIdHeader, Gen.b3SampledHeader]
def jaegerFields : List Bytes := [Gen.jaegerHeader]
def baggageFields : List Bytes := [Gen.baggageHeader]

end Propagation
end Otel
