import OtelVerif.Model.TraceState
/-! Model side of `Gen/TabTraceState.lean`: the `std::regex` validators of `trace_state.h` on one- and two-byte strings. -/
namespace Otel.TabModel
open Otel

def tsKey1 (b : UInt8) : Bool := TraceState.isValidKey [b]
def tsValue1 (b : UInt8) : Bool := TraceState.isValidValue [b]
def tsKey2 (a b : UInt8) : Bool := TraceState.isValidKey [a, b]
def tsValue2 (a b : UInt8) : Bool := TraceState.isValidValue [a, b]

end Otel.TabModel
