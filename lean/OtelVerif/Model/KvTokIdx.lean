import OtelVerif.Model.Idx
import OtelVerif.Model.KvList
/-! Index-explicit model of `common/string_util.h` (`StringUtil::Trim`) and of `KeyValueStringTokenizer::next`
    (`common/kv_properties.h`) with the default options (`ignore_empty_members = true`), as `Baggage::FromHeader` uses them.

    Every `str[left]`, `str[right]`, `substr(pos, n)` is a checked access and every `size_t` subtraction (`right--`,
    `end--`, `str_.size() - 1`, `1 + right - left`) is checked against wrap-around (`IxFault.oob`): a wrapped index is far
    outside any buffer.  `Lemmas/KvTokIdx.lean` proves that no fault is reachable and that the result is the list-level
    `trim` / `members` / `splitKv` of `Model/Basic.lean`, `Model/KvList.lean`. -/
namespace Otel
namespace KvIdx

/-- `size_t` subtraction that must not wrap around -/
def usub (a b : Nat) : IxRes Nat := if b ≤ a then .ok (a - b) else .fault .oob

/-- first position of `ch` in a list -/
def findIn (ch : UInt8) : Bytes → Option Nat
  | [] => none
  | c :: t => if c = ch then some 0 else (findIn ch t).map (· + 1)

/-- `str.find(ch, pos)`: `none` = `npos`.  (`nostd::string_view::find` guards with `pos < length()` and delegates to
    `Traits::find(data() + pos, length() - pos, ch)`.) -/
def find (s : Bytes) (ch : UInt8) (pos : Nat) : Option Nat :=
  if pos < s.length then (findIn ch (s.drop pos)).map (· + pos) else none

/-- `while (left <= right && isspace(str[left])) left++;` -/
def trimL (s : Bytes) : Nat → Nat → Nat → IxRes Nat
  | 0, l, r => if l ≤ r then .fault .fuel else .ok l
  | fuel + 1, l, r =>
    if l ≤ r then (Idx.rd s l).bind fun c => if isSpace c then trimL s fuel (l + 1) r else .ok l
    else .ok l

/-- `while (left <= right && isspace(str[right])) right--;` -/
def trimR (s : Bytes) : Nat → Nat → Nat → IxRes Nat
  | 0, l, r => if l ≤ r then .fault .fuel else .ok r
  | fuel + 1, l, r =>
    if l ≤ r then
      (Idx.rd s r).bind fun c => if isSpace c then (usub r 1).bind fun r' => trimR s fuel l r' else .ok r
    else .ok r

/-- `StringUtil::Trim(str, left, right)`: `return str.substr(left, 1 + right - left);` -/
def trim3 (s : Bytes) (left right : Nat) : IxRes Bytes :=
  (trimL s (s.length + 1) left right).bind fun l =>
  (trimR s (s.length + 1) l right).bind fun r =>
  (usub (1 + r) l).bind fun n => Idx.substr s l n

/-- `StringUtil::Trim(str)` -/
def trim1 (s : Bytes) : IxRes Bytes :=
  if s.isEmpty then .ok s else (usub s.length 1).bind fun r => trim3 s 0 r

/-- the end of the list member that starts at `index` (inclusive) and the `is_empty_pair` flag of `next` -/
def endOf (s : Bytes) (msep : UInt8) (index : Nat) : IxRes (Nat × Bool) :=
  match find s msep index with
  | none => (usub s.length 1).map fun e => (e, false)
  | some e => if e = index then .ok (e, true) else (usub e 1).map fun e' => (e', false)

/-- `key_end_pos = list_member.find(kvsep)`; `key = substr(0, key_end_pos)`, `value = substr(key_end_pos + 1)`;
    `ok none` = `valid_kv = false` -/
def splitMember (m : Bytes) (kvsep : UInt8) : IxRes (Option (Bytes × Bytes)) :=
  match find m kvsep 0 with
  | none => .ok none
  | some p => (Idx.substr m 0 p).bind fun k => (Idx.substrFrom m (p + 1)).bind fun v => .ok (some (k, v))

/-- the results of successive calls of `next` until it returns false, starting at `index_ = index`: one round per list
    member — an empty member is skipped (`continue` inside `next`), any other one is reported (`return true`) and the
    following call resumes at the updated `index_`.  `none` in the list = a member without key/value separator. -/
def tokLoop (s : Bytes) (msep kvsep : UInt8) : Nat → Nat → IxRes (List (Option (Bytes × Bytes)))
  | 0, index => if index < s.length then .fault .fuel else .ok []
  | fuel + 1, index =>
    if index < s.length then
      (endOf s msep index).bind fun ep =>
      (trim3 s index ep.1).bind fun member =>
        if member.length = 0 || ep.2 then tokLoop s msep kvsep fuel (ep.1 + 2 - (if ep.2 then 1 else 0))
        else (splitMember member kvsep).bind fun kv => (tokLoop s msep kvsep fuel (ep.1 + 2)).map fun rest => kv :: rest
    else .ok []

/-- all `(valid_kv, key, value)` results the tokenizer produces for `s` -/
def tokens (s : Bytes) (msep kvsep : UInt8) : IxRes (List (Option (Bytes × Bytes))) := tokLoop s msep kvsep s.length 0

end KvIdx
end Otel
