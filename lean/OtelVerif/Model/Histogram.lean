import OtelVerif.Gen.Histogram
/-! Executable model of `LongHistogramAggregation` / `DoubleHistogramAggregation`
    (sdk/src/metrics/aggregation/histogram_aggregation.cc, …/aggregation/histogram_aggregation.h).

    Values and boundaries are exact rationals: every finite double is a dyadic rational, so `<` on `Rat` is
    exactly `<` on the doubles; `int64_t` values are integers.  Floating-point *summation error* and `int64`
    overflow are not modelled (the correspondence run keeps `sum` in the exact range and says so). -/
namespace Otel.Hist

/-- `std::min(a, b)` is `(b < a) ? b : a` -/
def cmin (a b : Rat) : Rat := if b < a then b else a
/-- `std::max(a, b)` is `(a < b) ? b : a` -/
def cmax (a b : Rat) : Rat := if a < b then b else a

inductive Kind
  | long
  | double
deriving DecidableEq, Repr

/-- `int64_t → double` (IEEE round-to-nearest, ties-to-even): the arithmetic conversion the compiler inserted when
    `std::lower_bound` compared a `double` boundary with an `int64_t` value *before* the repair of
    `BucketBinarySearch(int64_t, …)`; kept for the kernel-checked witness of the old behaviour
    (`Otel.C07.bucket_long_aswas_witness`). -/
def roundToDouble (v : Int) : Int :=
  let a := v.natAbs
  let n := Nat.log2 a + 1
  if n ≤ 53 then v else
    let sh := n - 53
    let q := a >>> sh
    let r := a % 2 ^ sh
    let half := 2 ^ (sh - 1)
    let q' := if half < r ∨ (r = half ∧ q % 2 = 1) then q + 1 else q
    if v < 0 then -((q' * 2 ^ sh : Nat) : Int) else ((q' * 2 ^ sh : Nat) : Int)

/-- the value as `BucketBinarySearch` compares it with a `double` boundary: exactly, for both kinds (the `int64_t`
    overload compares through `BucketBoundaryLessThan`, below; `Otel.C07.bucketLong_eq_bucket`) -/
def Kind.conv : Kind → Rat → Rat
  | .long, v => v
  | .double, v => v

/-- `BucketBoundaryLessThan(double boundary, int64_t value)` line by line: `boundary < value` decided without converting
    `value` to `double` - boundaries at or above 2^63 are below no `int64_t`, boundaries below -2^63 are below every one,
    and for the others `floor(boundary)` fits an `int64_t` and is compared as an integer. -/
def boundaryLess (b : Rat) (i : Int) : Bool :=
  if ¬ (b < Gen.histLongCmpHi) then false
  else if b < Gen.histLongCmpLo then true
  else decide (b.floor < i)

/-- `BucketBinarySearch(int64_t value, boundaries)`: `std::lower_bound` with the comparator above -/
def bucketLong (i : Int) : List Rat → Nat
  | [] => 0
  | b :: bs => if boundaryLess b i then bucketLong i bs + 1 else 0

def Kind.minInit : Kind → Rat
  | .long => Gen.histLongMinInit
  | .double => Gen.histDoubleMinInit

def Kind.maxInit : Kind → Rat
  | .long => Gen.histLongMaxInit
  | .double => Gen.histDoubleMaxInit

def Kind.defaultBoundaries : Kind → List Rat
  | .long => Gen.histLongDefaultBoundaries
  | .double => Gen.histDoubleDefaultBoundaries

def Kind.recordMinMaxDefault : Kind → Bool
  | .long => Gen.histLongRecordMinMaxDefault
  | .double => Gen.histDoubleRecordMinMaxDefault

/-- `BucketBinarySearch`: `std::lower_bound(boundaries.begin(), boundaries.end(), value) - begin`, modelled by the
    specification of `lower_bound` on a partitioned range: the index of the first boundary `b` with `¬ (b < value)`. -/
def bucket (v : Rat) : List Rat → Nat
  | [] => 0
  | b :: bs => if b < v then bucket v bs + 1 else 0

/-- `HistogramAggregationConfig` -/
structure Config where
  boundaries : List Rat
  recordMinMax : Bool
deriving DecidableEq, Repr

/-- `HistogramPointData` -/
structure Point where
  boundaries : List Rat
  counts : List Nat
  count : Nat
  sum : Rat
  min : Rat
  max : Rat
  recordMinMax : Bool
deriving DecidableEq, Repr

/-- the constructors `…HistogramAggregation(const AggregationConfig *)`; `none` = `nullptr` -/
def new (k : Kind) (cfg : Option Config) : Point :=
  let bs := match cfg with
    | some c => c.boundaries
    | none => k.defaultBoundaries
  let mm := match cfg with
    | some c => c.recordMinMax
    | none => k.recordMinMaxDefault
  { boundaries := bs, counts := List.replicate (bs.length + 1) 0, count := 0, sum := 0, min := k.minInit, max := k.maxInit, recordMinMax := mm }

/-- `Aggregate(value)` -/
def aggregate (k : Kind) (p : Point) (v : Rat) : Point :=
  { boundaries := p.boundaries
    counts := p.counts.modify (bucket (k.conv v) p.boundaries) (· + 1)
    count := p.count + 1
    sum := p.sum + v
    min := if p.recordMinMax then cmin p.min v else p.min
    max := if p.recordMinMax then cmax p.max v else p.max
    recordMinMax := p.recordMinMax }

/-- `LongHistogramAggregation::Aggregate(int64_t value)` with the bucket found by the `int64_t` overload of
    `BucketBinarySearch` (code level; `Otel.C07.aggregateLongC_eq` shows it is `aggregate .long` on `int64_t` values) -/
def aggregateLongC (p : Point) (i : Int) : Point :=
  { boundaries := p.boundaries
    counts := p.counts.modify (bucketLong i p.boundaries) (· + 1)
    count := p.count + 1
    sum := p.sum + (i : Rat)
    min := if p.recordMinMax then cmin p.min (i : Rat) else p.min
    max := if p.recordMinMax then cmax p.max (i : Rat) else p.max
    recordMinMax := p.recordMinMax }

/-- the point after recording the `int64_t` values `is` into a fresh `LongHistogramAggregation` (code level) -/
def histLongC (cfg : Option Config) (is : List Int) : Point := is.foldl aggregateLongC (new .long cfg)

/-- `cur.Merge(delta)`: a fresh aggregation over `cur`'s boundaries filled by `HistogramMerge`.
    (The private member `record_min_max_` of the result is not observable through `ToPoint` and is not modelled; the
    SDK never calls `Aggregate` on a merged aggregation.)  `delta` is assumed to have `cur`'s boundaries, as the
    header comment of `Merge` requires (otherwise the C++ loop reads `delta.counts_` out of range). -/
def merge (k : Kind) (cur delta : Point) : Point :=
  let mm := cur.recordMinMax && delta.recordMinMax
  { boundaries := cur.boundaries
    counts := List.zipWith (· + ·) cur.counts delta.counts
    count := cur.count + delta.count
    sum := cur.sum + delta.sum
    min := if mm then cmin cur.min delta.min else k.minInit
    max := if mm then cmax cur.max delta.max else k.maxInit
    recordMinMax := mm }

/-- the point after recording `vs` (in this order) into a fresh aggregation -/
def hist (k : Kind) (cfg : Option Config) (vs : List Rat) : Point := vs.foldl (aggregate k) (new k cfg)

/-- left fold of `Merge` over a non-empty list of points (`((p₁ ⊕ p₂) ⊕ p₃) …`) -/
def mergeL (k : Kind) (p : Point) (ps : List Point) : Point := ps.foldl (merge k) p

/-- right-nested merge `p₁ ⊕ (p₂ ⊕ (p₃ …))` -/
def mergeR (k : Kind) (p : Point) : List Point → Point
  | [] => p
  | q :: qs => merge k p (mergeR k q qs)

/-! ### doubles across the line protocol -/

/-- IEEE-754 binary64 bit pattern → exact rational; `none` for infinities and NaNs -/
def decodeDouble (bits : Nat) : Option Rat :=
  let neg := bits / 2 ^ 63 % 2 = 1
  let e := bits / 2 ^ 52 % 2048
  let f := bits % 2 ^ 52
  if e = 2047 then none else
  let mag : Rat :=
    if e = 0 then ((f : Nat) : Rat) / ((2 ^ 1074 : Nat) : Rat)
    else if 1075 ≤ e then (((2 ^ 52 + f) * 2 ^ (e - 1075) : Nat) : Rat)
    else ((2 ^ 52 + f : Nat) : Rat) / ((2 ^ (1075 - e) : Nat) : Rat)
  some (if neg then -mag else mag)

/-- strip factors of two: `n = m * 2^e`, `m` odd (`n ≠ 0`) -/
def stripTwos : Nat → Nat → Nat → Nat × Nat
  | 0, n, e => (n, e)
  | fuel + 1, n, e => if n ≠ 0 ∧ n % 2 = 0 then stripTwos fuel (n / 2) (e + 1) else (n, e)

/-- canonical text of a dyadic rational: `0`, or `<odd m>p<e>` meaning `m·2^e` (what the harness prints for a double) -/
def showDy (q : Rat) : String :=
  if q.num = 0 then "0" else
  if q.den = 1 then
    let a := q.num.natAbs
    let (m, e) := stripTwos (Nat.log2 a + 1) a 0
    (if q.num < 0 then "-" else "") ++ toString m ++ "p" ++ toString e
  else
    let k := Nat.log2 q.den
    if 2 ^ k = q.den then toString q.num ++ "p-" ++ toString k
    else toString q.num ++ "/" ++ toString q.den

end Otel.Hist
