import OtelVerif.Lemmas.GetScopeLock
import OtelVerif.Gen.GetScopeLock
/-! # C19, concurrency reading of its last clause — first requests for one scope from several threads

"… and requesting the same name/version/schema/attributes returns the same tracer, meter or logger": theorems about
`Model/GetScopeLock.lean`, for EVERY interleaving of the lock / walk / construct / push_back / unlock / return steps of any
number of threads calling `GetTracer` (`GetMeter`, `GetLogger`) on one provider (no bound on the number of threads, requests
or steps): one inductive invariant (`Otel.GetScopeLock.Inv`, `reachable_inv`) and from it

* the critical sections never overlap (`mutual_exclusion`);
* the provider's list never holds two entries with equal scope keys, nor one object twice (`list_keys_nodup`,
  `list_ids_nodup`);
* every completed request returned an entry of the list, created for the requested key (`returned_in_list_with_requested_key`);
* two requests with equal keys got the same object — whichever threads made them, however their steps were interleaved,
  however much later the second one came (`same_key_same_object`, `same_key_same_object_later`); requests with different
  keys got different objects (`different_keys_different_objects`);
* nothing ever leaves the list: a returned object stays in it in every continuation (`list_only_grows`,
  `returned_stays_in_list`); an object is constructed only by a request whose walk missed, and every constructed object is
  appended (`constructed_eq_listed`).

`split_lock_witness`: the same functions with the walk and the `push_back` under separate lock scopes reach a list with two
entries of one key and two requests for one key holding different objects — the theorems are about the lock discipline.
The step structure the model assumes is re-extracted from the three source files on every run (`gen_getscope_lock_facts`);
real executions of the unmodified files under the deterministic scheduler are replayed on the model
(`Model/GetScopeLock.lean` `astep`, `replay_sound`). -/
namespace Otel.C19Race
open Otel Otel.GetScopeLock

/-- does a thread at this program counter hold the provider's `lock_`? -/
def holds : Pc → Bool
  | .gScan _ => true
  | .gCreate _ => true
  | .gPush _ _ => true
  | .gHave _ _ => true
  | _ => false

theorem holds_lock {s : St} (hI : Inv s) (t : Nat) (ht : holds (s.pc t) = true) : s.lock = some t := by
  have h := hI.2 t
  unfold TInv at h
  cases hp : s.pc t <;> rw [hp] at h ht <;> first | exact h | exact h.1 | cases ht

section reachable
variable {as : List Act} {s : St} (h : run init as = some s)
include h

/-- **mutual exclusion** of the walk, the construction and the `push_back` of any two requests -/
theorem mutual_exclusion (t t' : Nat) (ht : holds (s.pc t) = true) (ht' : holds (s.pc t') = true) : t = t' :=
  holder_unique (holds_lock (reachable_inv as s h) t ht) (holds_lock (reachable_inv as s h) t' ht')

/-- **the list never holds two entries with equal scope keys** -/
theorem list_keys_nodup : (s.list.map (·.key)).Nodup := (reachable_inv as s h).1.keys

/-- nor one object twice -/
theorem list_ids_nodup : (s.list.map (·.id)).Nodup := (reachable_inv as s h).1.ids

/-- **every returned object is in the list, and it is the entry of the requested key** -/
theorem returned_in_list_with_requested_key (r : Ret) (hr : r ∈ s.rets) : r.ent ∈ s.list ∧ r.ent.key = r.key :=
  (reachable_inv as s h).1.rets r hr

/-- **two requests with equal keys returned the same object** (any two completed requests of the whole execution, by any
    threads) -/
theorem same_key_same_object (r1 r2 : Ret) (h1 : r1 ∈ s.rets) (h2 : r2 ∈ s.rets) (hk : r1.key = r2.key) : r1.ent = r2.ent := by
  obtain ⟨m1, k1⟩ := returned_in_list_with_requested_key h r1 h1
  obtain ⟨m2, k2⟩ := returned_in_list_with_requested_key h r2 h2
  exact eq_of_nodup_map (·.key) s.list (list_keys_nodup h) _ _ m1 m2 (by show r1.ent.key = r2.ent.key; rw [k1, k2, hk])

/-- **requests with different keys returned different objects** -/
theorem different_keys_different_objects (r1 r2 : Ret) (h1 : r1 ∈ s.rets) (h2 : r2 ∈ s.rets) (hk : r1.key ≠ r2.key) :
    r1.ent.id ≠ r2.ent.id := by
  obtain ⟨m1, k1⟩ := returned_in_list_with_requested_key h r1 h1
  obtain ⟨m2, k2⟩ := returned_in_list_with_requested_key h r2 h2
  intro hid
  have := eq_of_nodup_map (·.id) s.list (list_ids_nodup h) _ _ m1 m2 hid
  exact hk (by rw [← k1, ← k2, this])

/-- when a request is about to return (it holds the lock, or has just released it) its object is in the list under the
    requested key — a thread parked there cannot be overtaken by a second creation -/
theorem about_to_return_is_listed (t k : Nat) (e : Ent) (hp : s.pc t = .gHave k e ∨ s.pc t = .gOut k e) :
    e ∈ s.list ∧ e.key = k := by
  have ht := (reachable_inv as s h).2 t
  unfold TInv at ht
  rcases hp with hp | hp <;> rw [hp] at ht
  · exact ht.2
  · exact ht

/-- a request constructs a new object only while the list holds no entry of its key -/
theorem constructs_only_when_absent (t k : Nat) (hp : s.pc t = .gCreate k) : ∀ e, e ∈ s.list → e.key ≠ k := by
  have ht := (reachable_inv as s h).2 t
  unfold TInv at ht; rw [hp] at ht
  exact ht.2

end reachable

/-- **nothing ever leaves the list** (and the log of returns only grows) -/
theorem list_only_grows {s s' : St} (bs : List Act) (hb : run s bs = some s') :
    (∃ l, s'.list = s.list ++ l) ∧ ∃ l, s'.rets = s.rets ++ l := run_grows bs s s' hb

/-- **a returned object stays in the list**: in every continuation of the execution, at every later moment -/
theorem returned_stays_in_list {as : List Act} {s : St} (h : run init as = some s) (r : Ret) (hr : r ∈ s.rets)
    (bs : List Act) (s' : St) (hb : run s bs = some s') : r.ent ∈ s'.list ∧ r ∈ s'.rets := by
  obtain ⟨⟨l, hl⟩, ⟨l', hl'⟩⟩ := list_only_grows bs hb
  rw [hl, hl']
  exact ⟨List.mem_append_left _ (returned_in_list_with_requested_key h r hr).1, List.mem_append_left _ hr⟩

/-- **the same key gives the same object at any later time**: a request that completes in any continuation of the execution
    returns the object an earlier request for that key returned -/
theorem same_key_same_object_later {as : List Act} {s : St} (h : run init as = some s) (r : Ret) (hr : r ∈ s.rets)
    (bs : List Act) (s' : St) (hb : run s bs = some s') (r' : Ret) (hr' : r' ∈ s'.rets) (hk : r'.key = r.key) : r'.ent = r.ent :=
  same_key_same_object (run_append as bs init s s' h hb) r' r hr' (returned_stays_in_list h r hr bs s' hb).2 hk

/-- the walk over the list finds an entry exactly when the list holds the requested key -/
theorem walk_finds_iff_present (l : List Ent) (k : Nat) : (lookup l k).isSome = true ↔ ∃ e, e ∈ l ∧ e.key = k :=
  lookup_isSome_iff l k

/-- how many objects have been constructed and not yet appended: the threads between their constructor and `push_back` -/
def pending (s : St) (t : Nat) : Nat := match s.pc t with
  | .gPush _ _ => 1
  | _ => 0

/-- **every constructed object is appended**: the objects constructed so far are the listed ones plus the one (if any) whose
    creator stands between the constructor and the `push_back`; once that thread has moved on, `next = list.length` -/
theorem constructed_eq_listed {as : List Act} {s : St} (h : run init as = some s) :
    (∀ t, pending s t = 0) → s.next = s.list.length := by
  -- the counting invariant: next = length + (1 if the lock holder is at gPush)
  suffices hs : ∀ (as : List Act) (s0 s : St), run s0 as = some s → Inv s0 →
      (s0.next = s0.list.length + (match s0.lock with | some t => pending s0 t | none => 0)) →
      (s.next = s.list.length + (match s.lock with | some t => pending s t | none => 0)) by
    intro hz
    have := hs as init s h inv_init (by simp [init])
    rw [this]
    cases hl : s.lock with
    | none => simp
    | some t => simp [hz t]
  intro as
  induction as with
  | nil => intro s0 s hr _ h0; simp only [run] at hr; cases hr; exact h0
  | cons a as ih =>
    intro s0 s hr hI h0
    simp only [run] at hr
    cases ha : act s0 a with
    | none => rw [ha] at hr; cases hr
    | some s1 =>
      rw [ha] at hr
      refine ih s1 s hr (inv_act hI ha) ?_
      cases a with
      | call t k =>
        simp only [act, call] at ha
        cases hp : s0.pc t <;> rw [hp] at ha <;> simp only at ha <;> cases ha
        simp only
        rw [h0]
        cases hl : s0.lock with
        | none => rfl
        | some t' =>
          simp only [pending]
          by_cases ht : t' = t
          · subst ht; rw [Ring.upd_same, hp]
          · rw [Ring.upd_other _ _ _ _ ht]
      | step t =>
        have hth := hI.2 t
        unfold TInv at hth
        simp only [act, step] at ha
        cases hp : s0.pc t <;> rw [hp] at ha hth <;> simp only at ha
        case idle => cases ha
        case gLock k =>
          by_cases hl : s0.lock = none
          · rw [if_pos hl] at ha; cases ha
            simp only [pending, Ring.upd_same]
            rw [h0, hl]
          · rw [if_neg hl] at ha; cases ha
        case gScan k =>
          cases hl : lookup s0.list k <;> rw [hl] at ha <;> simp only at ha <;> cases ha <;>
            simp only [pending, hth, Ring.upd_same] <;> rw [h0, hth] <;> simp only [pending, hp]
        case gCreate k =>
          cases ha
          simp only [pending, hth.1, Ring.upd_same]
          rw [h0, hth.1]; simp only [pending, hp]
        case gPush k e =>
          cases ha
          simp only [pending, hth.1, Ring.upd_same, List.length_append, List.length_singleton]
          rw [h0, hth.1]; simp only [pending, hp]
        case gHave k e =>
          cases ha
          simp only
          rw [h0, hth.1]; simp only [pending, hp]
        case gOut k e =>
          cases ha
          simp only
          rw [h0]
          cases hl : s0.lock with
          | none => rfl
          | some t' =>
            simp only [pending]
            by_cases ht : t' = t
            · subst ht; rw [Ring.upd_same, hp]
            · rw [Ring.upd_other _ _ _ _ ht]

/-- **the refinement check is sound**: a real execution whose events the replay accepts passes only through states of the
    model, so what it returned obeys the property -/
theorem replay_sound (es : List Ev) (s : St) (h : arun init es = some s) :
    (s.list.map (·.key)).Nodup ∧ ∀ r1 r2, r1 ∈ s.rets → r2 ∈ s.rets → r1.key = r2.key → r1.ent = r2.ent := by
  obtain ⟨as, h1⟩ := arun_run es init s h
  exact ⟨list_keys_nodup h1, fun r1 r2 m1 m2 hk => same_key_same_object h1 r1 r2 m1 m2 hk⟩

/-- the facts of the source text the step structure stands on (re-extracted from `tracer_provider.cc`, `meter_provider.cc`,
    `logger_provider.cc`, `meter_context.cc` on every run): each of `GetTracer` / `GetMeter` / `GetLogger` declares ONE lock
    guard on `lock_` at its top level before the first use of the provider's list and nothing releases it before the return;
    under it one loop over the list that returns from inside, then one append; the meter list is `MeterContext::meters_` -/
theorem gen_getscope_lock_facts :
    Gen.getScopeGuardBeforeFirstUse = true ∧ Gen.getScopeOneGuardHeldToReturn = true ∧ Gen.getScopeLookupThenOneAppend = true ∧
    Gen.getScopeMeterListIsContextMeters = true := by decide

/-! ## Non-vacuity -/

/-- two threads make the first request for key 7 at the same time: thread 0 takes the lock, misses and is parked inside the
    constructor; thread 1 cannot get in; it then finds the object thread 0 appended.  A third request asks for key 8. -/
def demo : List Act :=
  [.call 0 7, .call 1 7, .step 0, .step 0, .step 0, .step 0, .step 0, .step 1, .step 1, .step 1, .step 0, .step 1,
   .call 0 8, .step 0, .step 0, .step 0, .step 0, .step 0, .step 0]
example : (run init demo).map (fun s => (s.list, s.rets, s.lock, s.next)) =
    some ([⟨7, 0⟩, ⟨8, 1⟩], [⟨0, 7, ⟨7, 0⟩⟩, ⟨1, 7, ⟨7, 0⟩⟩, ⟨0, 8, ⟨8, 1⟩⟩], none, 2) := by decide
/-- while thread 0 is inside the constructor thread 1 is refused the lock -/
example : run init [.call 0 7, .call 1 7, .step 0, .step 0, .step 0, .step 1] = none := by decide
/-- the hypotheses of `same_key_same_object_later` are reachable: a return for key 7 is logged, and a continuation in which
    another thread asks for key 7 exists -/
example : ∃ as s, run init as = some s ∧ (⟨0, 7, ⟨7, 0⟩⟩ : Ret) ∈ s.rets ∧
    (run s [.call 5 7, .step 5, .step 5, .step 5, .step 5]).map (fun s' => s'.rets) = some [⟨0, 7, ⟨7, 0⟩⟩, ⟨5, 7, ⟨7, 0⟩⟩] :=
  ⟨[.call 0 7, .step 0, .step 0, .step 0, .step 0, .step 0, .step 0], _, rfl, by decide, by decide⟩
/-- the replay accepts the events of such an execution and refuses one in which the implementation creates although the
    model's walk found the key -/
example : (arun init [⟨0, .call 7⟩, ⟨0, .lock⟩, ⟨0, .create 0⟩, ⟨0, .unlock⟩, ⟨0, .ret 0 7⟩, ⟨1, .call 7⟩, ⟨1, .lock⟩, ⟨1, .unlock⟩,
    ⟨1, .ret 0 7⟩]).map (fun s => s.list) = some [⟨7, 0⟩] := by decide
example : (arun init [⟨0, .call 7⟩, ⟨0, .lock⟩, ⟨0, .create 0⟩, ⟨0, .unlock⟩, ⟨0, .ret 0 7⟩, ⟨1, .call 7⟩, ⟨1, .lock⟩,
    ⟨1, .create 1⟩]).isSome = false := by decide
/-- … and one in which the implementation releases the mutex between the walk that missed and the construction -/
example : (arun init [⟨0, .call 7⟩, ⟨0, .lock⟩, ⟨0, .unlock⟩]).isSome = false := by decide

/-- **the lock discipline is what the theorems stand on**: with the walk and the `push_back` under separate lock scopes
    (`stepSplit`: release after a walk that missed, construct unlocked, re-acquire for the `push_back` without walking again)
    two first requests for key 7 leave two entries of key 7 in the list and hold different objects -/
theorem split_lock_witness :
    (runSplit init [.call 0 7, .call 1 7, .step 0, .step 0, .step 1, .step 1, .step 0, .step 1, .step 0, .step 0, .step 0,
      .step 1, .step 1, .step 1]).map (fun s => (s.list, s.rets)) =
    some ([⟨7, 0⟩, ⟨7, 1⟩], [⟨0, 7, ⟨7, 0⟩⟩, ⟨1, 7, ⟨7, 1⟩⟩]) := by decide

end Otel.C19Race
