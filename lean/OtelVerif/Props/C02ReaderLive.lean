import OtelVerif.Lemmas.ReaderLive
/-! # C02 for the periodic reader — "…and always return": progress

`reader_flush_served_within`: a `ForceFlush` ticket is published after at most 23 transitions of the worker and of its
per-cycle collect thread (the rest of a cycle that had begun before the ticket, then one whole cycle), whatever the
recorders, the other callers and `Shutdown` do in between, as long as no further ticket is issued.
`reader_worker_terminates_within`: once `shutdown_` is set the worker leaves its loop after at most 13 such transitions —
no assumption about the other threads — so the `join()` in `Shutdown` returns.  What is assumed is only that these two
threads keep being scheduled and that timed waits expire (`wcount` counts their transitions; an `Export` that never
returns is a collect thread that makes no transition).  Whether a published ticket means "exported" is
`reader_flush_complete_partial` (D17). -/
namespace Otel.C02Reader
open Otel Otel.Reader

theorem reader_flush_served_within (pre post : List Act) (s s' : St) (h0 : run init pre = some s)
    (h1 : run s post = some s') (hp : s'.pending = s.pending) (hfair : 23 ≤ wcount post) :
    s.pending ≤ s'.notified ∨ s'.shutdown = true :=
  served_of_wcount post s s' (reachable_inv pre s h0) (reachable_qc pre s h0) h1 hp (Nat.le_trans (rank_le s) hfair)

theorem reader_worker_terminates_within (pre post : List Act) (s s' : St) (h0 : run init pre = some s)
    (hsd : s.shutdown = true) (h1 : run s post = some s') (hfair : 13 ≤ wcount post) : s'.wpc = .done :=
  done_of_wcount post s s' (reachable_inv pre s h0) (reachable_qc pre s h0) hsd h1 (Nat.le_trans (rank4_le s) hfair)

/-- … and then the `Shutdown` caller waiting for the worker can go on -/
theorem reader_join_enabled_when_done (s : St) (i : Nat) (hj : s.sd i = .set) (hd : s.wpc = .done) :
    (step s (.sStep i)).isSome = true := by
  simp only [step, sStep, hj, hd]
  split <;> simp

/-! ## Non-vacuity: a ticket, then a full cycle of worker and collect thread publishes it -/
def demoPre : List Act := [.record, .fStep 0 0 true, .fStep 0 0 true]        -- one measurement; ForceFlush begins, ticket 1
def demoCycle : List Act :=
  [.wStep false, .wStep false,                  -- start -> spawn -> waitF (collect thread started)
   .cStep, .cStep, .cStep, .cStep,              -- produce, cancelChk, exportB, exportE -> fin
   .wStep false, .wStep false,                  -- waitF -> joinC -> pubLd
   .wStep false, .wStep false, .wStep false,    -- pubLd -> pubCas, CAS succeeds, leaves to cvwait
   .wWake, .wStep false]                        -- cvwait -> loopChk -> start
def demoCycle2 : List Act :=
  [.wStep false, .wStep false, .cStep, .cStep, .cStep, .cStep, .wStep false, .wStep false,
   .wStep false,                                -- pubLd: nothing new to publish -> cvwait
   .wWake, .wStep false]
def demoPost : List Act := demoCycle ++ demoCycle2
example : (run init demoPre).map (fun s => (s.pending, s.notified)) = some (1, 0) := by decide
example : ((run init demoPre).bind (fun s => run s demoPost)).map (fun s => (s.pending, s.notified, s.covered)) = some (1, 1, 1) := by decide
example : 23 ≤ wcount demoPost := by decide

end Otel.C02Reader
