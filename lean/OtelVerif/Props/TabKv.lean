import OtelVerif.Model.TabKv
import OtelVerif.Gen.TabKv
import OtelVerif.Lemmas.Tab
/-! # The model equals the code's graph: `StringUtil::Trim` (`string_util.h`) and `KeyValueStringTokenizer` (`kv_properties.h`)

`Gen/TabKv.lean` is produced on every check run by calling the real functions (`tools/tabulate.py`, `harness/tab/tab_api.cc`). -/
namespace Otel.Tab
open Otel

/-- the white-space predicate `Trim` really uses (C-locale `isspace` on a possibly negative `char`) is the model's `isSpace`, for all 256 bytes -/
theorem tab_trimDrops : ∀ b : UInt8, TabModel.trimDrops b = Gen.Tab.trimDrops b := forall_byte _ (by decide +kernel)
theorem tab_trimShort : ∀ p ∈ Gen.Tab.trimShort, TabModel.trimShort p.1 = p.2 := graph_of_all _ _ (by decide +kernel)
theorem tab_trim3Short : ∀ p ∈ Gen.Tab.trim3Short, TabModel.trim3Short p.1 = p.2 := graph_of_all _ _ (by decide +kernel)
/-- `a<byte>b` for all 256 bytes: exactly `,` separates members, exactly `=` separates key and value -/
theorem tab_kvTokSep : ∀ p ∈ Gen.Tab.kvTokSep, TabModel.kvTok p.1 = p.2 := graph_of_all _ _ (by decide +kernel)
theorem tab_kvTokShort : ∀ p ∈ Gen.Tab.kvTokShort, TabModel.kvTok p.1 = p.2 := graph_of_all _ _ (by decide +kernel)

end Otel.Tab
