import OtelVerif.Model.TabTraceState
import OtelVerif.Gen.TabTraceState
import OtelVerif.Lemmas.Tab
/-! # The model equals the code's graph: `TraceState::IsValidKey` / `IsValidValue` (the `std::regex` variants)

The model's `rxMatch` is defined by well-founded recursion; `Lemmas/Tab.lean` proves it equal to a structurally recursive copy
(`rxMatchF`), on which the kernel evaluates the tables. -/
namespace Otel.Tab
open Otel

def keyF (s : Bytes) : Bool := rxMatchF Gen.regKey s || rxMatchF Gen.regKeyMultitenant s
def valueF (s : Bytes) : Bool := rxMatchF Gen.regValue s
theorem isValidKey_eq (s : Bytes) : TraceState.isValidKey s = keyF s := by simp [TraceState.isValidKey, keyF, rxMatch_eq_F]
theorem isValidValue_eq (s : Bytes) : TraceState.isValidValue s = valueF s := by simp [TraceState.isValidValue, valueF, rxMatch_eq_F]

theorem tab_tsKey1 : ∀ b : UInt8, TabModel.tsKey1 b = Gen.Tab.tsKey1 b := by
  have h : ∀ b : UInt8, keyF [b] = Gen.Tab.tsKey1 b := forall_byte _ (by decide +kernel)
  intro b; rw [TabModel.tsKey1, isValidKey_eq]; exact h b
theorem tab_tsValue1 : ∀ b : UInt8, TabModel.tsValue1 b = Gen.Tab.tsValue1 b := by
  have h : ∀ b : UInt8, valueF [b] = Gen.Tab.tsValue1 b := forall_byte _ (by decide +kernel)
  intro b; rw [TabModel.tsValue1, isValidValue_eq]; exact h b

/-- partners for the two-byte strings: a start character, `@`, space -/
def partners : List UInt8 := [97, 64, 32]

/-- two-byte keys: every byte in either position beside each partner (6 x 256).  (All 65 536 pairs of the table are compared
    with the compiled model on every run by `tools/tabdiff.py`.) -/
theorem tab_tsKey2_cross : ∀ b : UInt8, ∀ r ∈ partners,
    TabModel.tsKey2 r b = Gen.Tab.tsKey2 r b ∧ TabModel.tsKey2 b r = Gen.Tab.tsKey2 b r := by
  have h : ∀ b : UInt8, ∀ r ∈ partners, keyF [r, b] = Gen.Tab.tsKey2 r b ∧ keyF [b, r] = Gen.Tab.tsKey2 b r :=
    forall_byte _ (by decide +kernel)
  intro b r hr; rw [TabModel.tsKey2, TabModel.tsKey2, isValidKey_eq, isValidKey_eq]; exact h b r hr
theorem tab_tsValue2_cross : ∀ b : UInt8, ∀ r ∈ partners,
    TabModel.tsValue2 r b = Gen.Tab.tsValue2 r b ∧ TabModel.tsValue2 b r = Gen.Tab.tsValue2 b r := by
  have h : ∀ b : UInt8, ∀ r ∈ partners, valueF [r, b] = Gen.Tab.tsValue2 r b ∧ valueF [b, r] = Gen.Tab.tsValue2 b r :=
    forall_byte _ (by decide +kernel)
  intro b r hr; rw [TabModel.tsValue2, TabModel.tsValue2, isValidValue_eq, isValidValue_eq]; exact h b r hr

end Otel.Tab
