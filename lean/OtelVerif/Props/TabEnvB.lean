import OtelVerif.Model.TabEnv
import OtelVerif.Gen.TabEnv
import OtelVerif.Lemmas.Tab
/-! # The model equals the code's graph (`Gen/TabEnv.lean`), second part: digit, white-space and sign acceptance per byte -/
namespace Otel.Tab
open Otel

theorem tab_envDurByte : ∀ p ∈ Gen.Tab.envDurByte, TabModel.envDur p.1 = p.2 := graph_of_all _ _ (by decide +kernel)
theorem tab_envUintByte : ∀ p ∈ Gen.Tab.envUintByte, TabModel.envUint p.1 = p.2 := graph_of_all _ _ (by decide +kernel)

end Otel.Tab
