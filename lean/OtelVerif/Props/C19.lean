import OtelVerif.Model.Metrics.View
import OtelVerif.Model.Scope
import OtelVerif.Lemmas.Bytes
/-! # C19 — Instrument names, views and scope rules select exactly what they describe

Property theorems about `Model/Metrics/Naming.lean` (mirrors `instrument_metadata_validator.cc`), `Model/Metrics/View.lean`
(predicates, selectors, `ViewRegistry::FindViews`, `default_aggregation.h`, `Meter::Register…MetricStorage`) and
`Model/Scope.lean` (`ScopeConfigurator`, provider lookups).  The two regexes, the default-aggregation table and the shape
of the matching functions come from `Gen/C19.lean`, re-extracted from the source on every run; the numbers of the
property text (254, 63) are literals here. -/
namespace Otel.C19
open Otel Otel.Naming Otel.View

/-! ## The language of the regex fragment (declarative), and the matcher is exactly it -/

/-- a string is in the language of `items` when it is a concatenation of one block per item, each block made of
    characters of the item's class and of a length within the item's bounds -/
def Lang : List RxItem → Bytes → Prop
  | [], s => s = []
  | it :: rest, s => ∃ rep s', s = rep ++ s' ∧ (∀ c ∈ rep, it.has c = true) ∧ it.lo ≤ rep.length ∧
      it.allows rep.length = true ∧ Lang rest s'

theorem allows_zero (it : RxItem) : it.allows 0 = true := by
  unfold RxItem.allows; cases it.hi <;> simp

theorem allows_mono (it : RxItem) (a b : Nat) (h : it.allows (a + b) = true) : it.allows a = true := by
  unfold RxItem.allows at *
  cases hh : it.hi with
  | none => rfl
  | some x => simp [hh] at h ⊢; omega

/-- what `rxGo` decides when `k` repetitions of the head item are already consumed -/
def LangK : List RxItem → Nat → Bytes → Prop
  | [], _, s => s = []
  | it :: rest, k, s => ∃ rep s', s = rep ++ s' ∧ (∀ c ∈ rep, it.has c = true) ∧ it.lo ≤ k + rep.length ∧
      (rep = [] ∨ it.allows (k + rep.length) = true) ∧ Lang rest s'

theorem langK_zero (items : List RxItem) (s : Bytes) : LangK items 0 s ↔ Lang items s := by
  cases items with
  | nil => rfl
  | cons it rest =>
    simp only [LangK, Lang, Nat.zero_add]
    constructor
    · rintro ⟨rep, s', h1, h2, h3, h4, h5⟩
      refine ⟨rep, s', h1, h2, h3, ?_, h5⟩
      rcases h4 with rfl | h4
      · exact allows_zero it
      · exact h4
    · rintro ⟨rep, s', h1, h2, h3, h4, h5⟩
      exact ⟨rep, s', h1, h2, h3, Or.inr h4, h5⟩

theorem rxGo_iff_langK : ∀ (s : Bytes) (items : List RxItem) (k : Nat), rxGo items k s = true ↔ LangK items k s := by
  intro s
  induction s with
  | nil =>
    intro items
    induction items with
    | nil => intro k; simp [rxGo, LangK]
    | cons it rest ih =>
      intro k
      rw [rxGo]
      simp only [Bool.and_eq_true, decide_eq_true_eq, LangK]
      rw [ih 0, langK_zero]
      constructor
      · rintro ⟨h1, h2⟩
        exact ⟨[], [], rfl, by simp, by simpa using h1, Or.inl rfl, h2⟩
      · rintro ⟨rep, s', h1, _, h3, _, h5⟩
        obtain ⟨hr, hs⟩ := List.append_eq_nil_iff.1 h1.symm
        subst hr hs
        exact ⟨by simpa using h3, h5⟩
  | cons c t iht =>
    intro items
    induction items with
    | nil => intro k; simp [rxGo, LangK]
    | cons it rest ih =>
      intro k
      rw [rxGo]
      simp only [Bool.or_eq_true, Bool.and_eq_true, decide_eq_true_eq, LangK]
      rw [ih 0, langK_zero, iht (it :: rest) (k + 1)]
      simp only [LangK]
      constructor
      · rintro (⟨h1, h2⟩ | ⟨⟨hc, ha⟩, rep, s', h1, h2, h3, h4, h5⟩)
        · exact ⟨[], c :: t, rfl, by simp, by simpa using h1, Or.inl rfl, h2⟩
        · refine ⟨c :: rep, s', by rw [h1]; rfl, ?_, by simp only [List.length_cons]; omega, Or.inr ?_, h5⟩
          · intro x hx
            rcases List.mem_cons.1 hx with rfl | hx
            · exact hc
            · exact h2 x hx
          · rcases h4 with rfl | h4
            · simpa using ha
            · simp only [List.length_cons]
              have : k + (rep.length + 1) = k + 1 + rep.length := by omega
              rw [this]; exact h4
      · rintro ⟨rep, s', h1, h2, h3, h4, h5⟩
        cases rep with
        | nil =>
          simp only [List.nil_append] at h1
          exact Or.inl ⟨by simpa using h3, h1 ▸ h5⟩
        | cons x rep' =>
          simp only [List.cons_append, List.cons.injEq] at h1
          obtain ⟨rfl, rfl⟩ := h1
          have hall : it.allows (k + (rep'.length + 1)) = true := by
            rcases h4 with h4 | h4
            · simp at h4
            · simpa using h4
          refine Or.inr ⟨⟨h2 c (by simp), ?_⟩, rep', s', rfl, fun y hy => h2 y (by simp [hy]), ?_, ?_, h5⟩
          · have : k + (rep'.length + 1) = (k + 1) + rep'.length := by omega
            rw [this] at hall
            exact allows_mono it (k + 1) rep'.length hall
          · simp only [List.length_cons] at h3; omega
          · by_cases hr : rep' = []
            · exact Or.inl hr
            · right
              have : k + (rep'.length + 1) = k + 1 + rep'.length := by omega
              rw [← this]; exact hall

/-- **the backtracking matcher decides exactly the language** -/
theorem rxMatch_iff_lang (items : List RxItem) (s : Bytes) : rxMatch items s = true ↔ Lang items s := by
  unfold rxMatch
  rw [rxGo_iff_langK, langK_zero]

/-! ## Instrument names and units -/

def IsLetter (c : UInt8) : Prop := (65 ≤ c ∧ c ≤ 90) ∨ (97 ≤ c ∧ c ≤ 122)
def IsDigit (c : UInt8) : Prop := 48 ≤ c ∧ c ≤ 57
/-- letters, digits, `_` `.` `-` `/` -/
def IsNameChar (c : UInt8) : Prop := IsLetter c ∨ IsDigit c ∨ c = 95 ∨ c = 46 ∨ c = 45 ∨ c = 47
instance : DecidablePred IsLetter := fun c => by unfold IsLetter; exact inferInstance
instance : DecidablePred IsDigit := fun c => by unfold IsDigit; exact inferInstance
instance : DecidablePred IsNameChar := fun c => by unfold IsNameChar; exact inferInstance

/-- **the name grammar of the property text**: a letter followed by up to 254 letters, digits, `_`, `.`, `-` or `/` -/
def NameSyntax (s : Bytes) : Prop :=
  ∃ c rest, s = c :: rest ∧ IsLetter c ∧ rest.length ≤ 254 ∧ ∀ x ∈ rest, IsNameChar x

/-- **the unit grammar of the property text**: at most 63 ASCII characters (0x01 … 0x7f; NUL is not a character of a unit) -/
def UnitSyntax (u : Bytes) : Prop := u.length ≤ 63 ∧ ∀ c ∈ u, 1 ≤ c ∧ c ≤ 127

-- [a-zA-Z][-_./a-zA-Z0-9]{0,254}
theorem name_regex : Gen.instrumentNameRx =
    [⟨[(65, 90), (97, 122)], 1, some 1⟩, ⟨[(45, 57), (65, 90), (95, 95), (97, 122)], 0, some 254⟩] := rfl
-- [\x01-\x7F]{0,63}
theorem unit_regex : Gen.instrumentUnitRx = [⟨[(1, 127)], 0, some 63⟩] := rfl
/-- D12: both validators hand the regex the whole `string_view`, not the C string at `data()` -/
theorem validators_see_whole_view : Gen.validateNameWholeView = true ∧ Gen.validateUnitWholeView = true := ⟨rfl, rfl⟩

theorem letter_class : ∀ c : UInt8, (⟨[(65, 90), (97, 122)], 1, some 1⟩ : RxItem).has c = true ↔ IsLetter c :=
  forall_byte _ (by decide +kernel)
theorem namechar_class : ∀ c : UInt8,
    (⟨[(45, 57), (65, 90), (95, 95), (97, 122)], 0, some 254⟩ : RxItem).has c = true ↔ IsNameChar c :=
  forall_byte _ (by decide +kernel)
theorem ascii_class : ∀ c : UInt8, (⟨[(1, 127)], 0, some 63⟩ : RxItem).has c = true ↔ (1 ≤ c ∧ c ≤ 127) :=
  forall_byte _ (by decide +kernel)

/-- **an instrument is created for exactly the names of the form letter followed by up to 254 name characters** -/
theorem validName_iff (s : Bytes) : validName s = true ↔ NameSyntax s := by
  unfold validName validNameWith seen
  rw [validators_see_whole_view.1, if_pos rfl, rxMatch_iff_lang, name_regex]
  simp only [Lang, RxItem.allows]
  constructor
  · rintro ⟨rep, s', rfl, h1, h2, h3, rep2, s2, rfl, h4, _, h6, rfl⟩
    have hlen : rep.length = 1 := by
      have : rep.length ≤ 1 := by simpa using h3
      omega
    match rep, hlen with
    | [c], _ =>
      refine ⟨c, rep2, by simp, (letter_class c).1 (h1 c (by simp)), by simpa using h6, ?_⟩
      exact fun x hx => (namechar_class x).1 (h4 x hx)
  · rintro ⟨c, rest, rfl, hc, hlen, hall⟩
    refine ⟨[c], rest, rfl, ?_, by simp, by simp, rest, [], by simp, ?_, by simp, by simpa using hlen, rfl⟩
    · intro x hx
      simp only [List.mem_singleton] at hx
      subst hx
      exact (letter_class x).2 hc
    · exact fun x hx => (namechar_class x).2 (hall x hx)

/-- **…and units of at most 63 ASCII characters** -/
theorem validUnit_iff (u : Bytes) : validUnit u = true ↔ UnitSyntax u := by
  unfold validUnit validUnitWith seen UnitSyntax
  rw [validators_see_whole_view.2, if_pos rfl, rxMatch_iff_lang, unit_regex]
  simp only [Lang, RxItem.allows]
  constructor
  · rintro ⟨rep, s', rfl, h1, _, h3, rfl⟩
    exact ⟨by simpa using h3, fun c hc => (ascii_class c).1 (h1 c (by simpa using hc))⟩
  · rintro ⟨hlen, hall⟩
    exact ⟨u, [], by simp, fun c hc => (ascii_class c).2 (hall c hc), by simp, by simpa using hlen, rfl⟩

example : NameSyntax [114, 101, 113, 46, 99] := ⟨114, [101, 113, 46, 99], rfl, by decide, by decide, by decide⟩   -- "req.c"

/-- before the D12 fix the regex only saw the C string: `abc\0!!!` passed on its prefix `abc` (and was then stored whole) -/
theorem validName_aswas_witness :
    cstr [97, 98, 99, 0, 33, 33, 33] = [97, 98, 99] ∧ NameSyntax [97, 98, 99] ∧ ¬ NameSyntax [97, 98, 99, 0, 33, 33, 33] := by
  refine ⟨by decide, ⟨97, [98, 99], rfl, by decide, by decide, by decide⟩, ?_⟩
  rintro ⟨c, rest, h, _, _, hall⟩
  simp only [List.cons.injEq] at h
  obtain ⟨rfl, rfl⟩ := h
  exact absurd (hall 0 (by simp)) (by decide)

/-! ### the regex and the hand-written validators, compared -/

theorem hand_constants : Gen.handNameMaxSize = 255 ∧ Gen.handUnitMaxSize = 63 ∧ Gen.handNameExtraChars = [45, 95, 46, 47] ∧
    Gen.handNameChecksEmpty = true ∧ Gen.handUnitRejectsNul = true := ⟨rfl, rfl, rfl, rfl, rfl⟩

theorem hand_classes : ∀ c : UInt8, (isAlphaC c = true ↔ IsLetter c) ∧
    ((isAlnumC c || [45, 95, 46, 47].contains c) = true ↔ IsNameChar c) ∧
    ((!((true && c == 0) || decide (c.toNat > 127))) = true ↔ (1 ≤ c ∧ c ≤ 127)) :=
  forall_byte _ (by decide +kernel)

/-- the hand-written `ValidateName` accepts exactly the same grammar and never reads outside the view -/
theorem validNameHand_iff (s : Bytes) : validNameHand s ≠ none ∧ (validNameHand s = some true ↔ NameSyntax s) := by
  unfold validNameHand validNameHandWith NameSyntax
  rw [hand_constants.1, hand_constants.2.2.1, hand_constants.2.2.2.1]
  cases s with
  | nil =>
    simp only [List.isEmpty_nil, Bool.and_self, Bool.true_or, if_true]
    refine ⟨by simp, ?_⟩
    constructor
    · intro h; simp at h
    · rintro ⟨c, rest, h, _⟩; simp at h
  | cons c rest =>
    simp only [List.isEmpty_cons, Bool.and_false, Bool.false_or, List.length_cons, decide_eq_true_eq]
    by_cases hlen : rest.length + 1 > 255
    · simp only [hlen, if_true]
      refine ⟨by simp, ?_⟩
      constructor
      · intro h; simp at h
      · rintro ⟨c', rest', h, _, hl, _⟩
        simp only [List.cons.injEq] at h
        obtain ⟨rfl, rfl⟩ := h
        omega
    · simp only [hlen, if_false]
      refine ⟨by simp, ?_⟩
      simp only [Option.some.injEq, Bool.and_eq_true, List.all_eq_true]
      constructor
      · rintro ⟨h1, h2⟩
        exact ⟨c, rest, rfl, (hand_classes c).1.1 h1, by omega, fun x hx => (hand_classes x).2.1.1 (h2 x hx)⟩
      · rintro ⟨c', rest', h, h1, _, h2⟩
        simp only [List.cons.injEq] at h
        obtain ⟨rfl, rfl⟩ := h
        exact ⟨(hand_classes c).1.2 h1, fun x hx => (hand_classes x).2.1.2 (h2 x hx)⟩

theorem validUnitHand_iff (u : Bytes) : validUnitHand u = true ↔ UnitSyntax u := by
  unfold validUnitHand validUnitHandWith UnitSyntax
  rw [hand_constants.2.1, hand_constants.2.2.2.2]
  by_cases hlen : u.length > 63
  · simp only [hlen, if_true]
    constructor
    · intro h; simp at h
    · rintro ⟨hl, _⟩; omega
  · simp only [hlen, if_false, List.all_eq_true]
    constructor
    · intro h; exact ⟨by omega, fun c hc => (hand_classes c).2.2.1 (h c hc)⟩
    · rintro ⟨_, h⟩; exact fun c hc => (hand_classes c).2.2.2 (h c hc)

/-- **the regex and the hand-written validators agree** on every byte string (after D12 and D62) -/
theorem validators_agree (s : Bytes) : validNameHand s = some (validName s) ∧ validUnitHand s = validUnit s := by
  constructor
  · obtain ⟨hne, hiff⟩ := validNameHand_iff s
    cases hh : validNameHand s with
    | none => exact absurd hh hne
    | some b =>
      cases b with
      | true => rw [(validName_iff s).2 (hiff.1 hh)]
      | false =>
        have : validName s = false := by
          cases hv : validName s with
          | false => rfl
          | true => rw [hiff.2 ((validName_iff s).1 hv)] at hh; simp at hh
        rw [this]
  · cases hv : validUnit s with
    | true => exact (validUnitHand_iff s).2 ((validUnit_iff s).1 hv)
    | false =>
      cases hh : validUnitHand s with
      | false => rfl
      | true => rw [(validUnit_iff s).2 ((validUnitHand_iff s).1 hh)] at hv; simp at hv

/-- before D62: the hand-written `ValidateName` read `name[0]` of an empty name, and the hand-written `ValidateUnit`
    accepted `a\0`, which the regex variant rejects -/
theorem hand_aswas_witness : validNameHandWith false [] = none ∧ validUnitHandWith false [97, 0] = true ∧
    validUnit [97, 0] = false := by
  refine ⟨by decide, by decide, ?_⟩
  cases hv : validUnit [97, 0] with
  | false => rfl
  | true => exact absurd ((validUnit_iff _).1 hv).2 (by intro h; exact absurd (h 0 (by simp)) (by decide))

/-- **for any other name or unit the meter returns an inert instrument…** -/
theorem invalid_gives_inert (name unit : Bytes) (h : ¬ NameSyntax name ∨ ¬ UnitSyntax unit) :
    validInstrument name unit = false := by
  unfold validInstrument
  rcases h with h | h
  · have : validName name = false := by
      cases hv : validName name with
      | false => rfl
      | true => exact absurd ((validName_iff name).1 hv) h
    simp [this]
  · have : validUnit unit = false := by
      cases hv : validUnit unit with
      | false => rfl
      | true => exact absurd ((validUnit_iff unit).1 hv) h
    simp [this]

/-- **…and no metric stream ever appears for it**: whatever views are registered, whatever the meter, whatever is recorded -/
theorem inert_never_streams (i : Instr) (h : validInstrument i.name i.unit = false) (enabled : Bool)
    (reg : List Registered) (sc : View.Scope) (keys : List Bytes) : exported enabled reg sc i keys = [] := by
  unfold exported; simp [h]

/-- a meter whose scope is disabled creates inert instruments only -/
theorem disabled_meter_never_streams (i : Instr) (reg : List Registered) (sc : View.Scope) (keys : List Bytes) :
    exported false reg sc i keys = [] := by
  unfold exported; simp

/-! ## Selectors -/

theorem gen_literals : Gen.patternMatchAll = [42] ∧ Gen.exactMatchAll = [] ∧ Gen.matchMeterSkipsEmpty = false ∧
    Gen.defaultViewName = [] := ⟨rfl, rfl, rfl, rfl⟩

/-- the wildcard `*` selects every name -/
theorem pattern_all : namePredOf [42] = some .all ∧ ∀ s, NamePred.all.matches s = true := by
  refine ⟨?_, fun _ => rfl⟩
  unfold namePredOf; rw [gen_literals.1]; simp

/-- a pattern predicate matches exactly the language of its items -/
theorem pattern_matches_iff_lang (items : List RxItem) (s : Bytes) :
    (NamePred.pattern items).matches s = true ↔ Lang items s := by
  unfold NamePred.matches; exact rxMatch_iff_lang items s

/-- the language of a pattern made of literal characters only is that one string -/
theorem parse_literal : ∀ (lit : Bytes), (∀ c ∈ lit, isLiteralChar c = true) →
    ∃ items, parsePattern lit = some items ∧ ∀ s, Lang items s ↔ s = lit := by
  intro lit
  induction lit with
  | nil => intro _; exact ⟨[], rfl, fun s => Iff.rfl⟩
  | cons c rest ih =>
    intro h
    obtain ⟨items, hp, hl⟩ := ih (fun x hx => h x (by simp [hx]))
    have hc := h c (by simp)
    have hne : c ≠ 46 ∧ c ≠ 42 := by
      have : ∀ c : UInt8, isLiteralChar c = true → c ≠ 46 ∧ c ≠ 42 := forall_byte _ (by decide +kernel)
      exact this c hc
    have hatom : atomOf c = some [(c.toNat, c.toNat)] := by
      unfold atomOf
      have : (c == 46) = false := by simpa using hne.1
      simp [this, hc]
    have hparse : parsePattern (c :: rest) = some (⟨[(c.toNat, c.toNat)], 1, some 1⟩ :: items) := by
      cases rest with
      | nil =>
        have : items = [] := by simpa [parsePattern] using hp.symm
        subst this
        simp [parsePattern, hatom]
      | cons d rest' =>
        have hd : d ≠ 42 := by
          have : ∀ c : UInt8, isLiteralChar c = true → c ≠ 46 ∧ c ≠ 42 := forall_byte _ (by decide +kernel)
          exact (this d (h d (by simp))).2
        rw [parsePattern.eq_3 _ _ (by intro rest'' hh; simp only [List.cons.injEq] at hh; exact hd hh.1)]
        simp [hatom, hp]
    refine ⟨_, hparse, ?_⟩
    intro s
    have hhas : ∀ x : UInt8, (⟨[(c.toNat, c.toNat)], 1, some 1⟩ : RxItem).has x = true ↔ x = c := by
      intro x
      simp only [RxItem.has, List.any_cons, List.any_nil, Bool.or_false, Bool.and_eq_true, decide_eq_true_eq]
      constructor
      · rintro ⟨h1, h2⟩
        exact UInt8.toNat_inj.1 (by omega)
      · rintro rfl; exact ⟨Nat.le_refl _, Nat.le_refl _⟩
    simp only [Lang, RxItem.allows]
    constructor
    · rintro ⟨rep, s', rfl, h1, h2, h3, h4⟩
      have hlen : rep.length = 1 := by
        have : rep.length ≤ 1 := by simpa using h3
        omega
      match rep, hlen with
      | [x], _ =>
        rw [(hhas x).1 (h1 x (by simp)), (hl s').1 h4]; rfl
    · rintro rfl
      exact ⟨[c], rest, rfl, by intro x hx; simp only [List.mem_singleton] at hx; exact (hhas x).2 hx, by simp, by simp, (hl rest).2 rfl⟩

/-- **exact name selectors**: a pattern of literal name characters (other than the lone wildcard) selects exactly that name -/
theorem pattern_literal_iff (lit : Bytes) (h : ∀ c ∈ lit, isLiteralChar c = true) :
    ∃ p, namePredOf lit = some p ∧ ∀ s, p.matches s = true ↔ s = lit := by
  obtain ⟨items, hp, hl⟩ := parse_literal lit h
  have hne : lit ≠ [42] := by
    rintro rfl
    exact absurd (h 42 (by simp)) (by decide)
  refine ⟨.pattern items, ?_, fun s => by rw [pattern_matches_iff_lang, hl]⟩
  unfold namePredOf
  rw [gen_literals.1]
  simp [hne, hp]

/-- unit and meter selectors: the empty selector selects everything, any other selector only the equal string -/
theorem exact_iff (pat s : Bytes) : exactMatches pat s = true ↔ pat = [] ∨ pat = s := by
  unfold exactMatches; rw [gen_literals.2.1]; simp

/-- what it means for a name to be selected -/
def NameSelected : NamePred → Bytes → Prop
  | .all, _ => True
  | .pattern items, s => Lang items s

/-- **a registered view applies to exactly the instruments whose type, name (exact or pattern), unit and meter identity
    match its selectors** -/
theorem view_applies_iff_selectors_match (r : Registered) (sc : View.Scope) (i : Instr) :
    applies r sc i = true ↔
      (r.isel.type = i.type ∧ NameSelected r.isel.name i.name ∧ (r.isel.unit = [] ∨ r.isel.unit = i.unit)) ∧
      ((r.msel.name = [] ∨ r.msel.name = sc.name) ∧ (r.msel.version = [] ∨ r.msel.version = sc.version) ∧
       (r.msel.schema = [] ∨ r.msel.schema = sc.schema)) := by
  unfold applies matchMeter matchMeterWith matchInstrument
  rw [gen_literals.2.2.1]
  simp only [Bool.false_and, Bool.false_or, Bool.and_eq_true, exact_iff, decide_eq_true_eq]
  have hn : r.isel.name.matches i.name = true ↔ NameSelected r.isel.name i.name := by
    cases hp : r.isel.name with
    | all => simp [NamePred.matches, NameSelected]
    | pattern items => exact pattern_matches_iff_lang items i.name
  rw [hn]
  constructor
  · rintro ⟨⟨⟨h1, h2⟩, h3⟩, ⟨h4, h5⟩, h6⟩
    exact ⟨⟨h6, h4, h5⟩, h1, h2, h3⟩
  · rintro ⟨⟨h6, h4, h5⟩, h1, h2, h3⟩
    exact ⟨⟨⟨h1, h2⟩, h3⟩, ⟨h4, h5⟩, h6⟩

/-- before the D13 fix a meter without version / schema URL was matched by a selector that names one:
    selector `(m, 2.0, http://x)` against meter `(m, "", "")` -/
theorem matchMeter_aswas_witness :
    matchMeterWith true ⟨[109], [50, 46, 48], [104, 116, 116, 112, 58, 47, 47, 120]⟩ ⟨[109], [], []⟩ = true ∧
    matchMeterWith false ⟨[109], [50, 46, 48], [104, 116, 116, 112, 58, 47, 47, 120]⟩ ⟨[109], [], []⟩ = false := by
  decide

/-- `FindViews`: the views of the registered entries that apply, in registration order; the default view when none does -/
theorem findViews_spec (reg : List Registered) (sc : View.Scope) (i : Instr) :
    ((∃ r ∈ reg, applies r sc i = true) → findViews reg sc i = (reg.filter (applies · sc i)).map (·.view)) ∧
    ((∀ r ∈ reg, applies r sc i = false) → findViews reg sc i = [defaultView]) := by
  unfold findViews
  constructor
  · rintro ⟨r, hr, ha⟩
    have hmem : r ∈ reg.filter (applies · sc i) := List.mem_filter.2 ⟨hr, ha⟩
    cases hf : reg.filter (applies · sc i) with
    | nil => rw [hf] at hmem; simp at hmem
    | cons x xs => simp
  · intro h
    have : reg.filter (applies · sc i) = [] := List.filter_eq_nil_iff.2 (fun a ha => by simp [h a ha])
    rw [this]; rfl

/-! ## Streams -/

/-- D09: `Meter::storage_registry_` has one entry per stream (instrument name, type, value type, view index) -/
theorem storage_registry_per_stream : Gen.storageRegistryPerStream = true := rfl

theorem exported_eq (reg : List Registered) (sc : View.Scope) (i : Instr) (keys : List Bytes)
    (hv : validInstrument i.name i.unit = true) :
    exported true reg sc i keys = (findViews reg sc i).map (streamOf i · keys) := by
  unfold exported storages; simp [hv]

/-- **every registered view that applies to an instrument yields its own exported stream**, shaped by that view —
    whatever other views are registered before or after it -/
theorem view_stream_exported (reg : List Registered) (r : Registered) (sc : View.Scope) (i : Instr) (keys : List Bytes)
    (hr : r ∈ reg) (hv : validInstrument i.name i.unit = true) (ha : applies r sc i = true) :
    streamOf i r.view keys ∈ exported true reg sc i keys := by
  rw [exported_eq reg sc i keys hv, (findViews_spec reg sc i).1 ⟨r, hr, ha⟩]
  simp only [List.map_map, List.mem_map, List.mem_filter]
  exact ⟨r, ⟨hr, ha⟩, rfl⟩

/-- …and nothing else is exported for the instrument: every exported stream is the stream of a registered view that
    applies, or — when none applies — the default stream -/
theorem exported_iff (reg : List Registered) (sc : View.Scope) (i : Instr) (keys : List Bytes) (s : Stream)
    (hv : validInstrument i.name i.unit = true) :
    s ∈ exported true reg sc i keys ↔
      (∃ r ∈ reg, applies r sc i = true ∧ s = streamOf i r.view keys) ∨
      ((∀ r ∈ reg, applies r sc i = false) ∧ s = streamOf i defaultView keys) := by
  rw [exported_eq reg sc i keys hv]
  by_cases hex : ∃ r ∈ reg, applies r sc i = true
  · rw [(findViews_spec reg sc i).1 hex]
    simp only [List.map_map, List.mem_map, List.mem_filter, Function.comp]
    constructor
    · rintro ⟨r, ⟨hr, ha⟩, rfl⟩
      exact Or.inl ⟨r, hr, ha, rfl⟩
    · rintro (⟨r, hr, ha, rfl⟩ | ⟨hno, _⟩)
      · exact ⟨r, ⟨hr, ha⟩, rfl⟩
      · obtain ⟨r, hr, ha⟩ := hex
        rw [hno r hr] at ha; exact absurd ha (by decide)
  · have hno : ∀ r ∈ reg, applies r sc i = false := by
      intro r hr
      cases ha : applies r sc i with
      | false => rfl
      | true => exact absurd ⟨r, hr, ha⟩ hex
    rw [(findViews_spec reg sc i).2 hno]
    simp only [List.map_cons, List.map_nil, List.mem_singleton]
    constructor
    · intro h; exact Or.inr ⟨hno, h⟩
    · rintro (⟨r, hr, ha, _⟩ | ⟨_, h⟩)
      · rw [hno r hr] at ha; exact absurd ha (by decide)
      · exact h

/-- one stream per applying view, in registration order and with multiplicity: two views that shape identical streams
    (for instance by renaming to the same stream name) still yield two streams -/
theorem exported_count (reg : List Registered) (sc : View.Scope) (i : Instr) (keys : List Bytes)
    (hv : validInstrument i.name i.unit = true) (hex : ∃ r ∈ reg, applies r sc i = true) :
    exported true reg sc i keys = (reg.filter (applies · sc i)).map (fun r => streamOf i r.view keys) := by
  rw [exported_eq reg sc i keys hv, (findViews_spec reg sc i).1 hex]
  simp [List.map_map, Function.comp]

theorem aswas_last_only (pre post : List Registered) (r : Registered) (sc : View.Scope) (i : Instr)
    (keys : List Bytes) (hv : validInstrument i.name i.unit = true) (ha : applies r sc i = true)
    (hlast : ∀ r' ∈ post, applies r' sc i = false) :
    exportedAsWas true (pre ++ r :: post) sc i keys = [streamOf i r.view keys] := by
  have hpost : post.filter (applies · sc i) = [] := List.filter_eq_nil_iff.2 (fun a ha' => by simp [hlast a ha'])
  have hfilter : (pre ++ r :: post).filter (applies · sc i) = pre.filter (applies · sc i) ++ [r] := by
    rw [List.filter_append, List.filter_cons, if_pos ha, hpost]
  have hfind : findViews (pre ++ r :: post) sc i = (pre.filter (applies · sc i)).map (·.view) ++ [r.view] := by
    rw [(findViews_spec _ sc i).1 ⟨r, by simp, ha⟩, hfilter]; simp
  unfold exportedAsWas storages
  rw [hfind]
  simp [hv]

/-- D09, the registry as it was (keyed by the instrument name): two applying views, only the later one's stream was
    exported (views `*`→`first` and `*`→`second` on counter `reqs`); now both are -/
theorem view_shadowed_aswas_witness :
    let v1 : View := ⟨[102, 105, 114, 115, 116], [], [], .sum, none, none⟩
    let v2 : View := ⟨[115, 101, 99, 111, 110, 100], [], [], .sum, none, none⟩
    let sel : InstrSel := ⟨.counter, .all, []⟩
    let i : Instr := ⟨.counter, [114, 101, 113, 115], [], []⟩
    let sc : View.Scope := ⟨[109], [], []⟩
    let reg : List Registered := [⟨sel, ⟨[], [], []⟩, v1⟩, ⟨sel, ⟨[], [], []⟩, v2⟩]
    exportedAsWas true reg sc i [[97], [98]] = [streamOf i v2 [[97], [98]]] ∧
    streamOf i v1 [[97], [98]] ∉ exportedAsWas true reg sc i [[97], [98]] ∧
    exported true reg sc i [[97], [98]] = [streamOf i v1 [[97], [98]], streamOf i v2 [[97], [98]]] := by
  intro v1 v2 sel i sc reg
  have a1 : applies ⟨sel, ⟨[], [], []⟩, v1⟩ sc i = true := by decide
  have a2 : applies ⟨sel, ⟨[], [], []⟩, v2⟩ sc i = true := by decide
  have hv : validInstrument i.name i.unit = true := by
    unfold validInstrument
    rw [(validName_iff _).2 ⟨114, [101, 113, 115], rfl, by decide, by decide, by decide⟩,
      (validUnit_iff _).2 ⟨by decide, by intro c hc; simp [i] at hc⟩]
    rfl
  have he : exportedAsWas true reg sc i [[97], [98]] = [streamOf i v2 [[97], [98]]] :=
    aswas_last_only [⟨sel, ⟨[], [], []⟩, v1⟩] [] ⟨sel, ⟨[], [], []⟩, v2⟩ sc i [[97], [98]] hv a2 (by simp)
  refine ⟨he, ?_, ?_⟩
  · rw [he]; decide
  · rw [exported_count reg sc i _ hv ⟨_, by simp [reg], a1⟩]
    simp [reg, a1, a2]

/-- two views that rename to the same stream name: both streams are exported (same name, their own aggregations) -/
theorem same_stream_name_both_exported :
    let v1 : View := ⟨[115], [], [], .sum, none, none⟩
    let v2 : View := ⟨[115], [], [], .lastValue, none, none⟩
    let sel : InstrSel := ⟨.counter, .all, []⟩
    let i : Instr := ⟨.counter, [114, 101, 113, 115], [], []⟩
    let sc : View.Scope := ⟨[109], [], []⟩
    exported true [⟨sel, ⟨[], [], []⟩, v1⟩, ⟨sel, ⟨[], [], []⟩, v2⟩] sc i [[97]] =
      [⟨[115], [], [], .counter, .sum, [[97]], none⟩, ⟨[115], [], [], .counter, .lastValue, [[97]], none⟩] := by
  intro v1 v2 sel i sc
  have a1 : applies ⟨sel, ⟨[], [], []⟩, v1⟩ sc i = true := by decide
  have a2 : applies ⟨sel, ⟨[], [], []⟩, v2⟩ sc i = true := by decide
  have hv : validInstrument i.name i.unit = true := by
    unfold validInstrument
    rw [(validName_iff _).2 ⟨114, [101, 113, 115], rfl, by decide, by decide, by decide⟩,
      (validUnit_iff _).2 ⟨by decide, by intro c hc; simp [i] at hc⟩]
    rfl
  rw [exported_count _ sc i _ hv ⟨_, by simp, a1⟩]
  simp [a1, a2]
  decide

/-! ### the registry over several handles -/

def entryKey (i : Instr) (isDouble : Bool) (idx : Nat) : Key := ⟨i.name, i.type, isDouble, idx⟩

theorem attachAll_fresh (i : Instr) (dbl : Bool) (v : Nat) : ∀ (l : List Stream) (n : Nat) (st : List Entry),
    (∀ e ∈ st, ∀ idx, n ≤ idx → e.key ≠ entryKey i dbl idx) →
    attachAll st i dbl v (l.zipIdx n) = st ++ (l.zipIdx n).map (fun p => ⟨entryKey i dbl p.2, p.1, [v]⟩) := by
  intro l
  induction l with
  | nil => intro n st _; simp [attachAll]
  | cons s rest ih =>
    intro n st h
    simp only [List.zipIdx_cons, attachAll, List.map_cons]
    have hnone : st.any (fun e => decide (e.key = (⟨i.name, i.type, dbl, n⟩ : Key))) = false := by
      rw [List.any_eq_false]
      intro e he
      have := h e he n (Nat.le_refl _)
      simpa [entryKey] using this
    have hstep : attachOrAdd st ⟨i.name, i.type, dbl, n⟩ s v = st ++ [⟨entryKey i dbl n, s, [v]⟩] := by
      unfold attachOrAdd; rw [hnone]; rfl
    rw [hstep, ih (n + 1)]
    · simp
    · intro e he idx hidx
      rcases List.mem_append.1 he with he | he
      · exact h e he idx (by omega)
      · simp only [List.mem_singleton] at he
        subst he
        simp only [entryKey, ne_eq, Key.mk.injEq, true_and]
        omega

/-- **the first handle of an instrument registers one storage per view found**: for an instrument whose name, type and
    value type are new to the meter, the registry grows by exactly its streams, each holding the recorded value -/
theorem first_handle_registers_streams (reg : List Registered) (sc : View.Scope) (keys : List Bytes) (st : List Entry)
    (i : Instr) (dbl : Bool) (v : Nat) (hv : validInstrument i.name i.unit = true)
    (hnew : ∀ e ∈ st, ∀ idx, e.key ≠ entryKey i dbl idx) :
    createAndRecord true reg sc keys st i dbl v =
      st ++ ((exported true reg sc i keys).zipIdx).map (fun p => ⟨entryKey i dbl p.2, p.1, [v]⟩) := by
  unfold createAndRecord exported
  simp only [hv, Bool.not_true, Bool.or_false, Bool.false_eq_true, if_false]
  exact attachAll_fresh i dbl v _ 0 st (fun e he idx _ => hnew e he idx)

theorem attachOrAdd_present (st : List Entry) (k : Key) (s : Stream) (v : Nat) (h : ∃ e ∈ st, e.key = k) :
    (attachOrAdd st k s v).map (·.key) = st.map (·.key) ∧ (attachOrAdd st k s v).map (·.stream) = st.map (·.stream) := by
  have hany : st.any (fun e => decide (e.key = k)) = true := by
    rw [List.any_eq_true]
    obtain ⟨e, he, hk⟩ := h
    exact ⟨e, he, by simpa using hk⟩
  unfold attachOrAdd
  rw [hany]
  simp only [if_true, List.map_map]
  constructor
  · apply List.map_congr_left
    intro e _
    simp only [Function.comp]
    split <;> rfl
  · apply List.map_congr_left
    intro e _
    simp only [Function.comp]
    split <;> rfl

theorem attachAll_present (i : Instr) (dbl : Bool) (v : Nat) : ∀ (L : List (Stream × Nat)) (st : List Entry),
    (∀ p ∈ L, ∃ e ∈ st, e.key = entryKey i dbl p.2) →
    (attachAll st i dbl v L).map (·.key) = st.map (·.key) ∧ (attachAll st i dbl v L).map (·.stream) = st.map (·.stream) := by
  intro L
  induction L with
  | nil => intro st _; exact ⟨rfl, rfl⟩
  | cons p rest ih =>
    intro st h
    obtain ⟨s, idx⟩ := p
    simp only [attachAll]
    have hp := attachOrAdd_present st ⟨i.name, i.type, dbl, idx⟩ s v (h (s, idx) (by simp))
    have hrest : ∀ q ∈ rest, ∃ e ∈ attachOrAdd st ⟨i.name, i.type, dbl, idx⟩ s v, e.key = entryKey i dbl q.2 := by
      intro q hq
      obtain ⟨e, he, hk⟩ := h q (by simp [hq])
      have : entryKey i dbl q.2 ∈ (attachOrAdd st ⟨i.name, i.type, dbl, idx⟩ s v).map (·.key) := by
        rw [hp.1]; exact List.mem_map.2 ⟨e, he, hk⟩
      obtain ⟨e', he', hk'⟩ := List.mem_map.1 this
      exact ⟨e', he', hk'⟩
    obtain ⟨h1, h2⟩ := ih _ hrest
    exact ⟨h1.trans hp.1, h2.trans hp.2⟩

/-- **a second handle of the same instrument adds no stream**: when the storages of the instrument are registered
    already (one per view found), a further handle attaches to them — the registry keeps its keys and its streams, only
    the recorded values grow -/
theorem second_handle_no_new_stream (reg : List Registered) (sc : View.Scope) (keys : List Bytes) (st : List Entry)
    (i : Instr) (dbl : Bool) (v : Nat)
    (hreg : ∀ idx, idx < (storages reg sc i keys).length → ∃ e ∈ st, e.key = entryKey i dbl idx) (en : Bool) :
    (createAndRecord en reg sc keys st i dbl v).map (·.key) = st.map (·.key) ∧
    (createAndRecord en reg sc keys st i dbl v).map (·.stream) = st.map (·.stream) := by
  unfold createAndRecord
  split
  · exact ⟨rfl, rfl⟩
  · apply attachAll_present
    intro p hp
    have := List.mem_zipIdx hp
    exact hreg p.2 (by omega)

/-- after the first handle the hypothesis of `second_handle_no_new_stream` holds: creating the same instrument twice
    leaves the streams the first creation registered -/
theorem handle_twice (reg : List Registered) (sc : View.Scope) (keys : List Bytes) (st : List Entry)
    (i : Instr) (dbl : Bool) (v1 v2 : Nat) (hv : validInstrument i.name i.unit = true)
    (hnew : ∀ e ∈ st, ∀ idx, e.key ≠ entryKey i dbl idx) :
    (createAndRecord true reg sc keys (createAndRecord true reg sc keys st i dbl v1) i dbl v2).map (·.stream) =
      (createAndRecord true reg sc keys st i dbl v1).map (·.stream) := by
  refine (second_handle_no_new_stream reg sc keys _ i dbl v2 ?_ true).2
  intro idx hidx
  rw [first_handle_registers_streams reg sc keys st i dbl v1 hv hnew]
  have hex : exported true reg sc i keys = storages reg sc i keys := by unfold exported; simp [hv]
  rw [hex]
  obtain ⟨s, hs⟩ : ∃ s, (storages reg sc i keys)[idx]? = some s := ⟨_, List.getElem?_eq_getElem hidx⟩
  refine ⟨⟨entryKey i dbl idx, s, [v1]⟩, ?_, rfl⟩
  apply List.mem_append_right
  exact List.mem_map.2 ⟨(s, idx), List.mem_zipIdx_iff_getElem?.2 (by simpa using hs), rfl⟩

/-- the default explicit bucket boundaries, and D63: the observable path hands the view's aggregation config on -/
theorem histogram_defaults : Gen.defaultHistogramBounds = [0, 5, 10, 25, 50, 75, 100, 250, 500, 750, 1000, 2500, 5000, 7500, 10000] ∧
    Gen.asyncStorageUsesConfig = true := ⟨rfl, rfl⟩

/-- **then its name, description, aggregation and attribute filter shape the exported stream**: the stream's name and
    description are the view's unless empty, the aggregation is the view's (the type default for `kDefault`) and, for a
    histogram, its bucket boundaries are the view's configured ones (the defaults without a configuration) — for
    synchronous and observable instruments alike; unit and type stay the instrument's.  (The attribute keys: next theorem.) -/
theorem view_shapes_stream (i : Instr) (v : View) (keys : List Bytes) :
    (streamOf i v keys).name = (if v.name = [] then i.name else v.name) ∧
    (streamOf i v keys).description = (if v.description = [] then i.description else v.description) ∧
    (streamOf i v keys).agg = (if v.agg = .default then defaultAgg i.type else v.agg) ∧
    (streamOf i v keys).bounds = (if (streamOf i v keys).agg = .histogram
      then some (match v.bounds with
                 | some b => b
                 | none => [0, 5, 10, 25, 50, 75, 100, 250, 500, 750, 1000, 2500, 5000, 7500, 10000])
      else none) ∧
    (streamOf i v keys).unit = i.unit ∧ (streamOf i v keys).type = i.type := by
  unfold streamOf resolveAgg
  rw [histogram_defaults.1]
  refine ⟨?_, ?_, rfl, ?_, rfl, rfl⟩
  · cases h : v.name <;> simp
  · cases h : v.description <;> simp
  · cases hb : v.bounds <;> simp

/-- the attribute filter: exactly the measured keys the view allows — as the code is, only for synchronous instruments
    (or views without a filter): observable instruments ignore it (D22) -/
theorem view_shapes_stream_filter_partial (i : Instr) (v : View) (keys : List Bytes)
    (h : i.type.observable = false ∨ v.filter = none) :
    (v.filter = none → (streamOf i v keys).keys = keys) ∧
    (∀ allowed, v.filter = some allowed → (streamOf i v keys).keys = keys.filter (fun k => allowed.contains k)) := by
  unfold streamOf filterKeys
  constructor
  · intro hn; simp [hn]
  · intro allowed ha
    rcases h with h | h
    · simp [h, ha]
    · rw [ha] at h; simp at h

/-- the witness for D22: observable counter, view with allow-list `{a}`, measurement with keys `a`, `b` -/
theorem view_filter_ignored_witness :
    (streamOf ⟨.obsCounter, [111], [], []⟩ ⟨[], [], [], .default, some [[97]], none⟩ [[97], [98]]).keys = [[97], [98]] ∧
    (streamOf ⟨.counter, [111], [], []⟩ ⟨[], [], [], .default, some [[97]], none⟩ [[97], [98]]).keys = [[97]] := by
  decide

/-- **and nothing else**: the view's own `unit` (stored by `View`, never read) has no influence on the stream -/
theorem view_unit_irrelevant (i : Instr) (v : View) (u : Bytes) (keys : List Bytes) :
    streamOf i { v with unit := u } keys = streamOf i v keys := rfl

/-- the type defaults: sums for (observable) counters and up-down counters, a histogram for histograms, the last value
    for gauges -/
theorem default_aggregation_table :
    defaultAgg .counter = .sum ∧ defaultAgg .obsCounter = .sum ∧ defaultAgg .upDownCounter = .sum ∧
    defaultAgg .obsUpDownCounter = .sum ∧ defaultAgg .histogram = .histogram ∧ defaultAgg .obsGauge = .lastValue ∧
    defaultAgg .gauge = .lastValue := by decide

/-- **instruments matched by no view get the default aggregation for their type**, their own name, description and
    unit, and all measured attributes -/
theorem unmatched_gets_type_default (reg : List Registered) (sc : View.Scope) (i : Instr) (keys : List Bytes)
    (hv : validInstrument i.name i.unit = true) (hno : ∀ r ∈ reg, applies r sc i = false) :
    exported true reg sc i keys = [⟨i.name, i.description, i.unit, i.type, defaultAgg i.type, keys,
      if defaultAgg i.type = .histogram then some Gen.defaultHistogramBounds else none⟩] := by
  unfold exported storages
  rw [(findViews_spec reg sc i).2 hno]
  simp only [hv, Bool.not_true, Bool.or_false, Bool.false_eq_true, if_false, List.map_cons, List.map_nil]
  unfold streamOf defaultView resolveAgg filterKeys
  rw [gen_literals.2.2.2]
  simp

/-! ## Scope configurator and provider lookup -/
section Scopes
open Otel.Scope

/-- **conditions are evaluated in order, the first match wins** -/
theorem configurator_first_match (pre post : List Rule) (r : Rule) (dflt : Bool) (id : Ident)
    (hr : r.matcher.holds id = true) (hpre : ∀ r' ∈ pre, r'.matcher.holds id = false) :
    computeConfig (pre ++ r :: post) dflt id = r.enabled := by
  induction pre with
  | nil => simp [computeConfig, hr]
  | cons x xs ih =>
    simp only [List.cons_append, computeConfig, hpre x (by simp), Bool.false_eq_true, if_false]
    exact ih (fun r' h' => hpre r' (by simp [h']))

/-- **else the default** -/
theorem configurator_default (rules : List Rule) (dflt : Bool) (id : Ident)
    (h : ∀ r ∈ rules, r.matcher.holds id = false) : computeConfig rules dflt id = dflt := by
  induction rules with
  | nil => rfl
  | cons x xs ih =>
    simp only [computeConfig, h x (by simp), Bool.false_eq_true, if_false]
    exact ih (fun r' h' => h r' (by simp [h']))

example : computeConfig [⟨.nameEq [111], false⟩, ⟨.any, true⟩] false ⟨[111], [], [], [], []⟩ = false := by decide

theorem indexOf_some : ∀ (st : Instances) (id : Ident) (i : Nat), indexOf? st id = some i → st[i]? = some id := by
  intro st
  induction st with
  | nil => intro id i h; simp [indexOf?] at h
  | cons x rest ih =>
    intro id i h
    simp only [indexOf?] at h
    by_cases hx : x = id
    · simp only [hx, if_true, Option.some.injEq] at h
      subst h; simp [hx]
    · simp only [hx, if_false, Option.map_eq_some_iff] at h
      obtain ⟨j, hj, rfl⟩ := h
      simpa using ih id j hj

theorem indexOf_none : ∀ (st : Instances) (id : Ident), indexOf? st id = none → ∀ i : Nat, st[i]? ≠ some id := by
  intro st
  induction st with
  | nil => intro id _ i; simp
  | cons x rest ih =>
    intro id h i
    simp only [indexOf?] at h
    by_cases hx : x = id
    · simp [hx] at h
    · simp only [hx, if_false, Option.map_eq_none_iff] at h
      cases i with
      | zero => simpa using hx
      | succ j => simpa using ih id h j

/-- all instances of a provider have different identities -/
def Distinct (st : Instances) : Prop := ∀ (i j : Nat) (a : Ident), st[i]? = some a → st[j]? = some a → i = j

theorem getInstance_spec (st : Instances) (id : Ident) (hd : Distinct st) :
    (∃ ext, (getInstance st id).1 = st ++ ext) ∧ (getInstance st id).1[(getInstance st id).2]? = some id ∧
    Distinct (getInstance st id).1 := by
  unfold getInstance
  cases h : indexOf? st id with
  | some i => exact ⟨⟨[], by simp⟩, indexOf_some st id i h, hd⟩
  | none =>
    refine ⟨⟨[id], rfl⟩, by simp, ?_⟩
    show Distinct (st ++ [id])
    intro i j a hi hj
    have hnone := indexOf_none st id h
    by_cases hil : i < st.length
    · rw [List.getElem?_append_left hil] at hi
      by_cases hjl : j < st.length
      · rw [List.getElem?_append_left hjl] at hj
        exact hd i j a hi hj
      · have : j = st.length := by
          have := (List.getElem?_eq_some_iff.1 hj).1
          simp at this; omega
        subst this
        simp at hj
        subst hj
        exact absurd hi (hnone i)
    · have hi' : i = st.length := by
        have := (List.getElem?_eq_some_iff.1 hi).1
        simp at this; omega
      subst hi'
      simp at hi
      subst hi
      by_cases hjl : j < st.length
      · rw [List.getElem?_append_left hjl] at hj
        exact absurd hj (hnone j)
      · have := (List.getElem?_eq_some_iff.1 hj).1
        simp at this; omega

/-- every request is answered by an instance created for exactly the requested identity; earlier instances stay -/
theorem run_spec (rules : List Rule) (dflt : Bool) : ∀ (reqs : List Ident) (st : Instances), Distinct st →
    ∃ final, (∃ ext, final = st ++ ext) ∧ Distinct final ∧
      ∀ (k : Nat) (id : Ident) (o : Obs), reqs[k]? = some id → (runRequests rules dflt st reqs)[k]? = some o →
        final[o.instance_]? = some id ∧ o.exported = (if computeConfig rules dflt id then 1 else 0) := by
  intro reqs
  induction reqs with
  | nil => intro st hd; exact ⟨st, ⟨[], by simp⟩, hd, by intro k id o h; simp at h⟩
  | cons r rest ih =>
    intro st hd
    obtain ⟨⟨ext1, he1⟩, hget, hd1⟩ := getInstance_spec st r hd
    obtain ⟨final, ⟨ext2, he2⟩, hdf, hall⟩ := ih (getInstance st r).1 hd1
    refine ⟨final, ⟨ext1 ++ ext2, by rw [he2, he1, List.append_assoc]⟩, hdf, ?_⟩
    intro k id o hk ho
    cases k with
    | zero =>
      simp only [List.getElem?_cons_zero, Option.some.injEq] at hk
      subst hk
      simp only [runRequests, request, List.getElem?_cons_zero, Option.some.injEq] at ho
      subst ho
      simp only
      have hlt : (getInstance st r).2 < (getInstance st r).1.length := (List.getElem?_eq_some_iff.1 hget).1
      refine ⟨by rw [he2, List.getElem?_append_left hlt]; exact hget, ?_⟩
      rw [hget]
    | succ k' =>
      simp only [List.getElem?_cons_succ] at hk
      simp only [runRequests, request, List.getElem?_cons_succ] at ho
      exact hall k' id o hk ho

/-- **requesting the same name / version / schema / attributes returns the same tracer, meter or logger** — and a
    different identity a different one — over every history of requests to a provider -/
theorem same_identity_same_instance (rules : List Rule) (dflt : Bool) (reqs : List Ident) (a b : Nat) (ida idb : Ident)
    (oa ob : Obs) (ha : reqs[a]? = some ida) (hb : reqs[b]? = some idb)
    (hoa : (runRequests rules dflt [] reqs)[a]? = some oa) (hob : (runRequests rules dflt [] reqs)[b]? = some ob) :
    oa.instance_ = ob.instance_ ↔ ida = idb := by
  obtain ⟨final, _, hdf, hall⟩ := run_spec rules dflt reqs [] (by intro i j a h; simp at h)
  have h1 := (hall a ida oa ha hoa).1
  have h2 := (hall b idb ob hb hob).1
  constructor
  · intro h; rw [h, h2] at h1; exact (Option.some.inj h1).symm
  · intro h; subst h; exact hdf _ _ _ h1 h2

/-- the enabled flag of an instance is the configurator's verdict on its identity: every request exports its item
    exactly when the scope is enabled (computed once, the same at every later request for that identity) -/
theorem instance_config_fixed (rules : List Rule) (dflt : Bool) (reqs : List Ident) (k : Nat) (id : Ident) (o : Obs)
    (hk : reqs[k]? = some id) (ho : (runRequests rules dflt [] reqs)[k]? = some o) :
    o.exported = (if computeConfig rules dflt id then 1 else 0) := by
  obtain ⟨final, _, _, hall⟩ := run_spec rules dflt reqs [] (by intro i j a h; simp at h)
  exact (hall k id o hk ho).2

/-- **a tracer, meter or logger whose scope the configurator disables produces no telemetry** -/
theorem disabled_scope_silent (rules : List Rule) (dflt : Bool) (reqs : List Ident) (k : Nat) (id : Ident) (o : Obs)
    (hk : reqs[k]? = some id) (ho : (runRequests rules dflt [] reqs)[k]? = some o)
    (hdis : computeConfig rules dflt id = false) : o.exported = 0 := by
  rw [instance_config_fixed rules dflt reqs k id o hk ho, hdis]; rfl

/-- **while differently named scopes are unaffected**: a rule that disables the scope named `n` changes nothing for
    any scope with another name (and so, by `instance_config_fixed`, nothing in what they export) -/
theorem others_unaffected (rules : List Rule) (dflt : Bool) (n : Bytes) (en : Bool) (id : Ident) (h : id.name ≠ n) :
    computeConfig (⟨.nameEq n, en⟩ :: rules) dflt id = computeConfig rules dflt id := by
  simp [computeConfig, Matcher.holds, h]

example : (runRequests [⟨.nameEq [111], false⟩] true [] [⟨[111], [], [], [], []⟩, ⟨[120], [], [], [], []⟩, ⟨[111], [], [], [], []⟩]) =
    [⟨0, 0⟩, ⟨1, 1⟩, ⟨0, 0⟩] := by decide

end Scopes

end Otel.C19
