import OtelVerif.Model.Metrics.View
import OtelVerif.Model.Scope
import OtelVerif.Lemmas.Bytes
/-! # C19 — Instrument names, views and scope rules select exactly what they describe

Property theorems about `Model/Metrics/Naming.lean` (mirrors `instrument_metadata_validator.cc`), `Model/Metrics/View.lean`
(predicates, selectors, `ViewRegistry::FindViews`, `default_aggregation.h`, `Meter::Register…MetricStorage`) and
`Model/Scope.lean` (`ScopeConfigurator`, provider lookups).  The two regexes, the default-aggregation table and the shape
of the matching functions come from `Gen/C19.lean`, re-extracted from the source on every run; the numbers of the
property text (254, 63) are literals here. -/
namespace Otel.C19
open Otel Otel.Naming Otel.View

/-! ## The language of the regex fragment (declarative), and the matcher is exactly it -/

/-- a string is in the language of `items` when it is a concatenation of one block per item, each block made of
    characters of the item's class and of a length within the item's bounds -/
def Lang : List RxItem → Bytes → Prop
  | [], s => s = []
  | it :: rest, s => ∃ rep s', s = rep ++ s' ∧ (∀ c ∈ rep, it.has c = true) ∧ it.lo ≤ rep.length ∧
      it.allows rep.length = true ∧ Lang rest s'

theorem allows_zero (it : RxItem) : it.allows 0 = true := by
  unfold RxItem.allows; cases it.hi <;> simp

theorem allows_mono (it : RxItem) (a b : Nat) (h : it.allows (a + b) = true) : it.allows a = true := by
  unfold RxItem.allows at *
  cases hh : it.hi with
  | none => rfl
  | some x => simp [hh] at h ⊢; omega

/-- what `rxGo` decides when `k` repetitions of the head item are already consumed -/
def LangK : List RxItem → Nat → Bytes → Prop
  | [], _, s => s = []
  | it :: rest, k, s => ∃ rep s', s = rep ++ s' ∧ (∀ c ∈ rep, it.has c = true) ∧ it.lo ≤ k + rep.length ∧
      (rep = [] ∨ it.allows (k + rep.length) = true) ∧ Lang rest s'

theorem langK_zero (items : List RxItem) (s : Bytes) : LangK items 0 s ↔ Lang items s := by
  cases items with
  | nil => rfl
  | cons it rest =>
    simp only [LangK, Lang, Nat.zero_add]
    constructor
    · rintro ⟨rep, s', h1, h2, h3, h4, h5⟩
      refine ⟨rep, s', h1, h2, h3, ?_, h5⟩
      rcases h4 with rfl | h4
      · exact allows_zero it
      · exact h4
    · rintro ⟨rep, s', h1, h2, h3, h4, h5⟩
      exact ⟨rep, s', h1, h2, h3, Or.inr h4, h5⟩

theorem rxGo_iff_langK : ∀ (s : Bytes) (items : List RxItem) (k : Nat), rxGo items k s = true ↔ LangK items k s := by
  intro s
  induction s with
  | nil =>
    intro items
    induction items with
    | nil => intro k; simp [rxGo, LangK]
    | cons it rest ih =>
      intro k
      rw [rxGo]
      simp only [Bool.and_eq_true, decide_eq_true_eq, LangK]
      rw [ih 0, langK_zero]
      constructor
      · rintro ⟨h1, h2⟩
        exact ⟨[], [], rfl, by simp, by simpa using h1, Or.inl rfl, h2⟩
      · rintro ⟨rep, s', h1, _, h3, _, h5⟩
        obtain ⟨hr, hs⟩ := List.append_eq_nil_iff.1 h1.symm
        subst hr hs
        exact ⟨by simpa using h3, h5⟩
  | cons c t iht =>
    intro items
    induction items with
    | nil => intro k; simp [rxGo, LangK]
    | cons it rest ih =>
      intro k
      rw [rxGo]
      simp only [Bool.or_eq_true, Bool.and_eq_true, decide_eq_true_eq, LangK]
      rw [ih 0, langK_zero, iht (it :: rest) (k + 1)]
      simp only [LangK]
      constructor
      · rintro (⟨h1, h2⟩ | ⟨⟨hc, ha⟩, rep, s', h1, h2, h3, h4, h5⟩)
        · exact ⟨[], c :: t, rfl, by simp, by simpa using h1, Or.inl rfl, h2⟩
        · refine ⟨c :: rep, s', by rw [h1]; rfl, ?_, by simp only [List.length_cons]; omega, Or.inr ?_, h5⟩
          · intro x hx
            rcases List.mem_cons.1 hx with rfl | hx
            · exact hc
            · exact h2 x hx
          · rcases h4 with rfl | h4
            · simpa using ha
            · simp only [List.length_cons]
              have : k + (rep.length + 1) = k + 1 + rep.length := by omega
              rw [this]; exact h4
      · rintro ⟨rep, s', h1, h2, h3, h4, h5⟩
        cases rep with
        | nil =>
          simp only [List.nil_append] at h1
          exact Or.inl ⟨by simpa using h3, h1 ▸ h5⟩
        | cons x rep' =>
          simp only [List.cons_append, List.cons.injEq] at h1
          obtain ⟨rfl, rfl⟩ := h1
          have hall : it.allows (k + (rep'.length + 1)) = true := by
            rcases h4 with h4 | h4
            · simp at h4
            · simpa using h4
          refine Or.inr ⟨⟨h2 c (by simp), ?_⟩, rep', s', rfl, fun y hy => h2 y (by simp [hy]), ?_, ?_, h5⟩
          · have : k + (rep'.length + 1) = (k + 1) + rep'.length := by omega
            rw [this] at hall
            exact allows_mono it (k + 1) rep'.length hall
          · simp only [List.length_cons] at h3; omega
          · by_cases hr : rep' = []
            · exact Or.inl hr
            · right
              have : k + (rep'.length + 1) = k + 1 + rep'.length := by omega
              rw [← this]; exact hall

/-- **the backtracking matcher decides exactly the language** -/
theorem rxMatch_iff_lang (items : List RxItem) (s : Bytes) : rxMatch items s = true ↔ Lang items s := by
  unfold rxMatch
  rw [rxGo_iff_langK, langK_zero]

/-! ## Instrument names and units -/

def IsLetter (c : UInt8) : Prop := (65 ≤ c ∧ c ≤ 90) ∨ (97 ≤ c ∧ c ≤ 122)
def IsDigit (c : UInt8) : Prop := 48 ≤ c ∧ c ≤ 57
/-- letters, digits, `_` `.` `-` `/` -/
def IsNameChar (c : UInt8) : Prop := IsLetter c ∨ IsDigit c ∨ c = 95 ∨ c = 46 ∨ c = 45 ∨ c = 47
instance : DecidablePred IsLetter := fun c => by unfold IsLetter; exact inferInstance
instance : DecidablePred IsDigit := fun c => by unfold IsDigit; exact inferInstance
instance : DecidablePred IsNameChar := fun c => by unfold IsNameChar; exact inferInstance

/-- **the name grammar of the property text**: a letter followed by up to 254 letters, digits, `_`, `.`, `-` or `/` -/
def NameSyntax (s : Bytes) : Prop :=
  ∃ c rest, s = c :: rest ∧ IsLetter c ∧ rest.length ≤ 254 ∧ ∀ x ∈ rest, IsNameChar x

/-- **the unit grammar of the property text**: at most 63 ASCII characters (0x01 … 0x7f; NUL is not a character of a unit) -/
def UnitSyntax (u : Bytes) : Prop := u.length ≤ 63 ∧ ∀ c ∈ u, 1 ≤ c ∧ c ≤ 127

-- [a-zA-Z][-_./a-zA-Z0-9]{0,254}
theorem name_regex : Gen.instrumentNameRx =
    [⟨[(65, 90), (97, 122)], 1, some 1⟩, ⟨[(45, 57), (65, 90), (95, 95), (97, 122)], 0, some 254⟩] := rfl
-- [\x01-\x7F]{0,63}
theorem unit_regex : Gen.instrumentUnitRx = [⟨[(1, 127)], 0, some 63⟩] := rfl
/-- D12: both validators hand the regex the whole `string_view`, not the C string at `data()` -/
theorem validators_see_whole_view : Gen.validateNameWholeView = true ∧ Gen.validateUnitWholeView = true := ⟨rfl, rfl⟩

theorem letter_class : ∀ c : UInt8, (⟨[(65, 90), (97, 122)], 1, some 1⟩ : RxItem).has c = true ↔ IsLetter c :=
  forall_byte _ (by decide +kernel)
theorem namechar_class : ∀ c : UInt8,
    (⟨[(45, 57), (65, 90), (95, 95), (97, 122)], 0, some 254⟩ : RxItem).has c = true ↔ IsNameChar c :=
  forall_byte _ (by decide +kernel)
theorem ascii_class : ∀ c : UInt8, (⟨[(1, 127)], 0, some 63⟩ : RxItem).has c = true ↔ (1 ≤ c ∧ c ≤ 127) :=
  forall_byte _ (by decide +kernel)

/-- **an instrument is created for exactly the names of the form letter followed by up to 254 name characters** -/
theorem validName_iff (s : Bytes) : validName s = true ↔ NameSyntax s := by
  unfold validName validNameWith seen
  rw [validators_see_whole_view.1, if_pos rfl, rxMatch_iff_lang, name_regex]
  simp only [Lang, RxItem.allows]
  constructor
  · rintro ⟨rep, s', rfl, h1, h2, h3, rep2, s2, rfl, h4, _, h6, rfl⟩
    have hlen : rep.length = 1 := by
      have : rep.length ≤ 1 := by simpa using h3
      omega
    match rep, hlen with
    | [c], _ =>
      refine ⟨c, rep2, by simp, (letter_class c).1 (h1 c (by simp)), by simpa using h6, ?_⟩
      exact fun x hx => (namechar_class x).1 (h4 x hx)
  · rintro ⟨c, rest, rfl, hc, hlen, hall⟩
    refine ⟨[c], rest, rfl, ?_, by simp, by simp, rest, [], by simp, ?_, by simp, by simpa using hlen, rfl⟩
    · intro x hx
      simp only [List.mem_singleton] at hx
      subst hx
      exact (letter_class x).2 hc
    · exact fun x hx => (namechar_class x).2 (hall x hx)

/-- **…and units of at most 63 ASCII characters** -/
theorem validUnit_iff (u : Bytes) : validUnit u = true ↔ UnitSyntax u := by
  unfold validUnit validUnitWith seen UnitSyntax
  rw [validators_see_whole_view.2, if_pos rfl, rxMatch_iff_lang, unit_regex]
  simp only [Lang, RxItem.allows]
  constructor
  · rintro ⟨rep, s', rfl, h1, _, h3, rfl⟩
    exact ⟨by simpa using h3, fun c hc => (ascii_class c).1 (h1 c (by simpa using hc))⟩
  · rintro ⟨hlen, hall⟩
    exact ⟨u, [], by simp, fun c hc => (ascii_class c).2 (hall c hc), by simp, by simpa using hlen, rfl⟩

example : NameSyntax [114, 101, 113, 46, 99] := ⟨114, [101, 113, 46, 99], rfl, by decide, by decide, by decide⟩   -- "req.c"

/-- before the D12 fix the regex only saw the C string: `abc\0!!!` passed on its prefix `abc` (and was then stored whole) -/
theorem validName_aswas_witness :
    cstr [97, 98, 99, 0, 33, 33, 33] = [97, 98, 99] ∧ NameSyntax [97, 98, 99] ∧ ¬ NameSyntax [97, 98, 99, 0, 33, 33, 33] := by
  refine ⟨by decide, ⟨97, [98, 99], rfl, by decide, by decide, by decide⟩, ?_⟩
  rintro ⟨c, rest, h, _, _, hall⟩
  simp only [List.cons.injEq] at h
  obtain ⟨rfl, rfl⟩ := h
  exact absurd (hall 0 (by simp)) (by decide)

/-- **for any other name or unit the meter returns an inert instrument…** -/
theorem invalid_gives_inert (name unit : Bytes) (h : ¬ NameSyntax name ∨ ¬ UnitSyntax unit) :
    validInstrument name unit = false := by
  unfold validInstrument
  rcases h with h | h
  · have : validName name = false := by
      cases hv : validName name with
      | false => rfl
      | true => exact absurd ((validName_iff name).1 hv) h
    simp [this]
  · have : validUnit unit = false := by
      cases hv : validUnit unit with
      | false => rfl
      | true => exact absurd ((validUnit_iff unit).1 hv) h
    simp [this]

/-- **…and no metric stream ever appears for it**: whatever views are registered, whatever the meter, whatever is recorded -/
theorem inert_never_streams (i : Instr) (h : validInstrument i.name i.unit = false) (enabled : Bool)
    (reg : List Registered) (sc : View.Scope) (keys : List Bytes) : exported enabled reg sc i keys = [] := by
  unfold exported; simp [h]

/-- a meter whose scope is disabled creates inert instruments only -/
theorem disabled_meter_never_streams (i : Instr) (reg : List Registered) (sc : View.Scope) (keys : List Bytes) :
    exported false reg sc i keys = [] := by
  unfold exported; simp

end Otel.C19
