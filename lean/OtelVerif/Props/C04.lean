import OtelVerif.Model.Span
import OtelVerif.Lemmas.Attr
/-! # C04 — an exported span carries exactly what the application recorded before End

Property theorems about `Model/Span.lean` (mirrors `span.cc`, `span_data.h`, `multi_recordable.h`,
`multi_span_processor.h`, `simple_processor.h`, `attribute_utils.h`).  A *program* is a start configuration `Cfg`
(processors of mixed kinds, resource, scope, `StartSpan` arguments) and an arbitrary list of span operations — including
operations after `End`, several `End`s and `ForceFlush`es anywhere; `run` appends the destructor's `End()` and the final
flush.  Everything below is proved for every configuration and every operation list, by induction over the lists.

The specification vocabulary (`live`, `firstEnd`, `nameWrites`, `attrWrites`, `lastWrite`, …) is written from the property
text with library list functions (`takeWhile`, `filterMap`, `getLast?`, `head?`), independently of the model's `step`.

Partial aspects (not carried by a theorem): "owned copies" is a lifetime fact — the theorems give value equality at export
time, ownership is shown by the ASan-clean free-after-call discipline of the harness; "from several threads on one span":
the theorems are over sequential histories — `mu_` makes every mutator and `End` atomic, so every concurrent execution is
one of them. -/
namespace Otel.C04
open Otel Otel.SAttr Otel.Span

/-! ## Specification vocabulary -/

def isEnd : Op → Bool
  | .end_ _ => true
  | _ => false

/-- SPEC: the operations that can take effect — everything before the first `End` of the program -/
def live (ops : List Op) : List Op := ops.takeWhile fun op => !isEnd op

def endOption : Op → Option Int
  | .end_ e => some e
  | _ => none

/-- SPEC: the `end_steady_time` option of the first `End` (0 = not given; also when only the destructor ends the span) -/
def firstEnd (ops : List Op) : Int := ((ops.filterMap endOption).head?).getD 0

def nameWrite : Op → Option Bytes
  | .updateName n => some n
  | _ => none

def attrWrite : Op → Option (Bytes × Value)
  | .setAttribute k v => some (k, v)
  | _ => none

def statusWrite : Op → Option (Nat × Bytes)
  | .setStatus c d => some (c, d)
  | _ => none

/-- SPEC: the event an `AddEvent` call records: its name, its timestamp argument (`none` = the clock), its own attributes -/
def eventOf : Op → Option Event
  | .addEvent n ts kvs => some ⟨n, ts, Map.ofIterable (kvs.getD [])⟩
  | _ => none

/-- SPEC: the link a `StartSpan` link argument records -/
def linkOf (l : Bytes × Bytes × UInt8 × KVs) : Link := ⟨l.1, l.2.1, l.2.2.1, Map.ofIterable l.2.2.2⟩

/-- SPEC: the link an `AddLink` call (ABI v2) records -/
def linkWrite : Op → Option Link
  | .addLink tid sid fl kvs => some ⟨tid, sid, fl, Map.ofIterable kvs⟩
  | _ => none

/-! ## The record every exporter receives (closed form) -/

/-- the `Recordable` call a span operation turns into while the span is recording -/
def toRec : Op → Option RecOp
  | .setAttribute k v => some (.setAttribute k v)
  | .addLink tid sid fl kvs => some (.addLink tid sid fl kvs)
  | .addEvent n ts kvs => some (.addEvent n ts (kvs.getD []))
  | .setStatus c d => some (.setStatus c d)
  | .updateName n => some (.setName n)
  | .end_ _ => none
  | .flush => none

/-- constructor calls, then the live operations, then the duration set by the first `End` — applied to a default `SpanData` -/
def exported (c : Cfg) (ops : List Op) : SpanData :=
  (ctorOps c ++ (live ops).filterMap toRec
    ++ [RecOp.setDuration (durationOf (nowOr (firstEnd ops)) (nowOr c.startSteady))]).foldl SpanData.apply {}

/-- the final state of a processor that was notified once and whose exporter received exactly one batch `[sd]` -/
def doneProc (sd : SpanData) (k : ProcKind) : Proc := { kind := k, onStart := 1, onEnd := 1, queue := [], exports := [[sd]] }

/-! ## Unfolding lemmas for the specification vocabulary -/

theorem live_nil : live [] = [] := rfl
theorem live_cons_end (e : Int) (t : List Op) : live (.end_ e :: t) = [] := by simp [live, isEnd]
theorem live_cons_of_not_end {op : Op} (h : isEnd op = false) (t : List Op) : live (op :: t) = op :: live t := by
  simp [live, h]

theorem firstEnd_nil : firstEnd [] = 0 := rfl
theorem firstEnd_cons_end (e : Int) (t : List Op) : firstEnd (.end_ e :: t) = e := by simp [firstEnd, endOption]
theorem firstEnd_cons_of_not_end {op : Op} (h : isEnd op = false) (t : List Op) : firstEnd (op :: t) = firstEnd t := by
  cases op <;> simp_all [firstEnd, endOption, isEnd, List.findSome?_cons]

theorem live_append_end (pre : List Op) (e : Int) (post : List Op) : live (pre ++ .end_ e :: post) = live pre := by
  induction pre with
  | nil => simp [live_cons_end, live_nil]
  | cons op t ih =>
    cases h : isEnd op with
    | true => cases op <;> simp_all [isEnd, live_cons_end]
    | false => rw [List.cons_append, live_cons_of_not_end h, live_cons_of_not_end h, ih]

theorem firstEnd_append_end (pre : List Op) (e : Int) (post : List Op) :
    firstEnd (pre ++ .end_ e :: post) = firstEnd (pre ++ [.end_ e]) := by
  induction pre with
  | nil => simp [firstEnd_cons_end]
  | cons op t ih =>
    cases h : isEnd op with
    | true => cases op <;> simp_all [isEnd, firstEnd_cons_end]
    | false => rw [List.cons_append, List.cons_append, firstEnd_cons_of_not_end h, firstEnd_cons_of_not_end h, ih]

/-- a program extended by the destructor's `End()` and the final flush: live part, first `End`, and a rest that ends in a flush -/
theorem split_program (ops : List Op) :
    ∃ t, ops ++ [.end_ 0, .flush] = live ops ++ .end_ (firstEnd ops) :: (t ++ [.flush]) := by
  induction ops with
  | nil => exact ⟨[], by simp [live_nil, firstEnd_nil]⟩
  | cons op r ih =>
    cases h : isEnd op with
    | true =>
      cases op <;> simp [isEnd] at h
      rename_i e
      exact ⟨r ++ [.end_ 0], by simp [live_cons_end, firstEnd_cons_end]⟩
    | false =>
      obtain ⟨t, ht⟩ := ih
      exact ⟨t, by rw [List.cons_append, ht, live_cons_of_not_end h, firstEnd_cons_of_not_end h]; rfl⟩

/-! ## The pipeline: fan-out, delivery, flush -/

theorem multi_foldl_replicate (rops : List RecOp) (n : Nat) (sd : SpanData) :
    rops.foldl Multi.apply (List.replicate n sd) = List.replicate n (rops.foldl SpanData.apply sd) := by
  induction rops generalizing sd with
  | nil => rfl
  | cons op t ih => simp only [List.foldl_cons, Multi.apply, List.map_replicate]; exact ih _

theorem deliver_replicate (ks : List ProcKind) (f : ProcKind → Proc) (sd : SpanData) :
    deliver (ks.map f) (List.replicate ks.length sd) = ks.map fun k => (f k).end_ sd := by
  induction ks with
  | nil => rfl
  | cons k t ih => simp [deliver, List.replicate_succ, ih]

theorem flush_flush (p : Proc) : p.flush.flush = p.flush := by
  obtain ⟨kind, a, b, queue, x⟩ := p
  cases kind <;> cases queue <;> simp [Proc.flush]

theorem flush_of_empty_queue {p : Proc} (h : p.queue = []) : p.flush = p := by
  obtain ⟨kind, a, b, queue, x⟩ := p
  cases kind <;> simp_all [Proc.flush]

theorem end_flush (k : ProcKind) (sd : SpanData) :
    (Proc.end_ { kind := k, onStart := 1 } sd).flush = doneProc sd k := by
  cases k <;> simp [Proc.end_, Proc.flush, doneProc]

/-- while the span records, a program without `End` only changes the recordable: every operation's `Recordable` call is
    applied to every child; a `ForceFlush` finds nothing queued -/
theorem exec_live (ops : List Op) : ∀ (s : State) (rs : Multi), s.recordable = some rs → (∀ p ∈ s.procs, p.queue = []) →
    exec s (live ops) = { s with recordable := some (((live ops).filterMap toRec).foldl Multi.apply rs) } := by
  induction ops with
  | nil => intro s rs h _; simp [live_nil, exec, ← h]
  | cons op t ih =>
    intro s rs h hq
    cases hop : isEnd op with
    | true => cases op <;> simp [isEnd] at hop; simp [live_cons_end, exec, ← h]
    | false =>
      rw [live_cons_of_not_end hop]
      have key : ∀ r : RecOp, toRec op = some r → step s op = { s with recordable := some (rs.apply r) } := by
        intro r hr
        cases op <;> simp [toRec] at hr <;> subst hr <;> simp [step, mutate, h]
      cases op with
      | end_ e => simp [isEnd] at hop
      | flush =>
        have hf : step s .flush = s := by
          have hid : ∀ p ∈ s.procs, Proc.flush p = id p := fun p hp => flush_of_empty_queue (hq p hp)
          have : s.procs.map Proc.flush = s.procs := by rw [List.map_congr_left hid, List.map_id]
          simp [step, this]
        simp only [exec, List.foldl_cons, hf, List.filterMap_cons, toRec]
        exact ih s rs h hq
      | setAttribute k v =>
        simp only [exec, List.foldl_cons, key _ rfl, List.filterMap_cons, toRec]
        exact ih _ _ rfl hq
      | addLink tid sid fl kvs =>
        simp only [exec, List.foldl_cons, key _ rfl, List.filterMap_cons, toRec]
        exact ih _ _ rfl hq
      | addEvent n ts kvs =>
        simp only [exec, List.foldl_cons, key _ rfl, List.filterMap_cons, toRec]
        exact ih _ _ rfl hq
      | setStatus c d =>
        simp only [exec, List.foldl_cons, key _ rfl, List.filterMap_cons, toRec]
        exact ih _ _ rfl hq
      | updateName n =>
        simp only [exec, List.foldl_cons, key _ rfl, List.filterMap_cons, toRec]
        exact ih _ _ rfl hq

/-- once the span has ended, every operation except `ForceFlush` is the identity on the whole system state -/
theorem step_ended {s : State} (h1 : s.hasEnded = true) (h2 : s.recordable = none) {op : Op} (hop : op ≠ .flush) :
    step s op = s := by
  cases op <;> simp_all [step, mutate]

/-- after the end, whatever follows and then a flush: the span state is unchanged and every processor is flushed -/
theorem exec_ended_flush (t : List Op) : ∀ (s : State), s.hasEnded = true → s.recordable = none →
    exec s (t ++ [.flush]) = { s with procs := s.procs.map Proc.flush } := by
  induction t with
  | nil => intro s _ _; simp [exec, step]
  | cons op r ih =>
    intro s h1 h2
    by_cases hop : op = .flush
    · subst hop
      have := ih { s with procs := s.procs.map Proc.flush } h1 h2
      simp only [exec, List.cons_append, List.foldl_cons] at this ⊢
      simp only [step] at this ⊢
      rw [this]
      simp [List.map_map, Function.comp_def, flush_flush]
    · have := ih s h1 h2
      simp only [exec, List.cons_append, List.foldl_cons, step_ended h1 h2 hop] at this ⊢
      exact this

/-! ## The master theorem -/

/-- **Closed form of a whole case.**  For every configuration and every operation list, after the program, the release of
    the span and the final flush: the span is ended, and *every* processor — simple or batch — was notified exactly once
    (`OnStart` = `OnEnd` = 1), has nothing queued, and its exporter's log is exactly one `Export` call with exactly one
    span, the record `exported c ops` (the same value for all processors). -/
theorem run_closed_form (c : Cfg) (ops : List Op) :
    run c ops = { recordable := none, hasEnded := true, startSteady := nowOr c.startSteady,
                  procs := c.procs.map (doneProc (exported c ops)) } := by
  obtain ⟨t, ht⟩ := split_program ops
  unfold run
  rw [ht]
  have hinit : (init c).recordable = some (List.replicate c.procs.length ((ctorOps c).foldl SpanData.apply {})) := by
    simp [init, List.map_const', multi_foldl_replicate]
  have hq : ∀ p ∈ (init c).procs, p.queue = [] := by
    intro p hp
    simp only [init, List.mem_map] at hp
    obtain ⟨k, _, rfl⟩ := hp
    rfl
  have h1 := exec_live ops (init c) _ hinit hq
  rw [multi_foldl_replicate] at h1
  have happ : ∀ (s : State) (a b : List Op), exec s (a ++ b) = exec (exec s a) b := by
    intro s a b; simp [exec, List.foldl_append]
  rw [happ, h1]
  show exec (step _ (.end_ (firstEnd ops))) (t ++ [.flush]) = _
  have hstep : step { init c with recordable := some (List.replicate c.procs.length
        (((live ops).filterMap toRec).foldl SpanData.apply ((ctorOps c).foldl SpanData.apply {}))) } (.end_ (firstEnd ops))
      = { recordable := none, hasEnded := true, startSteady := nowOr c.startSteady,
          procs := c.procs.map fun k => Proc.end_ { kind := k, onStart := 1 } (exported c ops) } := by
    simp only [step, init, Multi.apply, List.map_replicate, Bool.false_eq_true, if_false]
    rw [deliver_replicate]
    simp [exported, List.foldl_append]
  rw [hstep, exec_ended_flush t _ rfl rfl]
  simp [List.map_map, Function.comp_def, end_flush]

/-! ## Field-by-field characterisation of the exported record -/

/-- a field that every `Recordable` call either overwrites or leaves alone holds the last written value -/
theorem foldl_last {β : Type} (proj : SpanData → β) (sel : RecOp → Option β)
    (h : ∀ sd op, proj (sd.apply op) = (sel op).getD (proj sd)) :
    ∀ (rops : List RecOp) (sd : SpanData),
      proj (rops.foldl SpanData.apply sd) = ((rops.filterMap sel).getLast?).getD (proj sd) := by
  intro rops
  induction rops with
  | nil => intro sd; rfl
  | cons op t ih =>
    intro sd
    rw [List.foldl_cons, ih, h, List.filterMap_cons]
    cases sel op with
    | none => rfl
    | some b => simp [List.getLast?_cons]

theorem getLastD_append {β : Type} (a b : List β) (d : β) :
    ((a ++ b).getLast?).getD d = (b.getLast?).getD ((a.getLast?).getD d) := by
  rw [List.getLast?_append]
  cases b.getLast? <;> simp

def selName : RecOp → Option Bytes
  | .setName n => some n
  | _ => none
def selKind : RecOp → Option Nat
  | .setKind k => some k
  | _ => none
def selStart : RecOp → Option (Option Int)
  | .setStartTime t => some t
  | _ => none
def selResource : RecOp → Option (Option Bytes)
  | .setResource r => some (some r)
  | _ => none
def selScope : RecOp → Option (Option Scope)
  | .setScope s => some (some s)
  | _ => none
def selDuration : RecOp → Option (Option Int)
  | .setDuration d => some d
  | _ => none
def selStatus : RecOp → Option (Nat × Bytes)
  | .setStatus c d => some (c, d)
  | _ => none
def selAttr : RecOp → Option (Bytes × Value)
  | .setAttribute k v => some (k, v)
  | _ => none
def selEvent : RecOp → Option Event
  | .addEvent n ts kvs => some ⟨n, ts, Map.ofIterable kvs⟩
  | _ => none
def selLink : RecOp → Option Link
  | .addLink tid sid fl kvs => some ⟨tid, sid, fl, Map.ofIterable kvs⟩
  | _ => none

theorem filterMap_const_none {α β : Type} (l : List α) : l.filterMap (fun _ => (none : Option β)) = [] := by
  induction l with
  | nil => rfl
  | cons a t ih => simp [ih]

theorem filterMap_some_fn {α β : Type} (g : α → β) (l : List α) : l.filterMap (fun x => some (g x)) = l.map g := by
  induction l with
  | nil => rfl
  | cons a t ih => simp [ih]

/-- what a selector sees in the three parts of the call sequence behind `exported` -/
theorem sel_exported {β : Type} (sel : RecOp → Option β) (w : Op → Option β) (c : Cfg) (ops : List Op) (d : Option Int)
    (z : List β) (hw : ∀ op, (toRec op).bind sel = w op) (hz : [RecOp.setDuration d].filterMap sel = z) :
    (ctorOps c ++ (live ops).filterMap toRec ++ [RecOp.setDuration d]).filterMap sel
      = (ctorOps c).filterMap sel ++ (live ops).filterMap w ++ z := by
  rw [List.filterMap_append, List.filterMap_append, List.filterMap_filterMap, hz]
  congr 2
  exact congrArg (fun f => List.filterMap f (live ops)) (funext hw)

/-- what a selector sees in the constructor's calls -/
theorem ctor_sel {β : Type} (sel : RecOp → Option β) (c : Cfg) (a z : List β) (g1 : Bytes × Value → Option β)
    (g2 : Bytes × Bytes × UInt8 × KVs → Option β)
    (h0 : [RecOp.setName c.name, RecOp.setScope c.scope].filterMap sel = a)
    (h1 : ∀ kv : Bytes × Value, sel (.setAttribute kv.1 kv.2) = g1 kv)
    (h2 : ∀ l : Bytes × Bytes × UInt8 × KVs, sel (.addLink l.1 l.2.1 l.2.2.1 l.2.2.2) = g2 l)
    (h3 : [RecOp.setKind c.kind, RecOp.setStartTime (nowOr c.startSys), RecOp.setResource c.resource].filterMap sel = z) :
    (ctorOps c).filterMap sel = a ++ c.attrs.filterMap g1 ++ c.links.filterMap g2 ++ z := by
  unfold ctorOps
  rw [List.filterMap_append, List.filterMap_append, List.filterMap_append, h0, h3, List.filterMap_map, List.filterMap_map]
  congr 2
  · congr 1
    exact congrArg (fun f => List.filterMap f c.attrs) (funext h1)
  · exact congrArg (fun f => List.filterMap f c.links) (funext h2)

theorem ctor_selName (c : Cfg) : (ctorOps c).filterMap selName = [c.name] := by
  rw [ctor_sel selName c [c.name] [] (fun _ => none) (fun _ => none) rfl (fun _ => rfl) (fun _ => rfl) rfl]
  simp [filterMap_const_none]
theorem ctor_selKind (c : Cfg) : (ctorOps c).filterMap selKind = [c.kind] := by
  rw [ctor_sel selKind c [] [c.kind] (fun _ => none) (fun _ => none) rfl (fun _ => rfl) (fun _ => rfl) rfl]
  simp [filterMap_const_none]
theorem ctor_selStart (c : Cfg) : (ctorOps c).filterMap selStart = [nowOr c.startSys] := by
  rw [ctor_sel selStart c [] [nowOr c.startSys] (fun _ => none) (fun _ => none) rfl (fun _ => rfl) (fun _ => rfl) rfl]
  simp [filterMap_const_none]
theorem ctor_selResource (c : Cfg) : (ctorOps c).filterMap selResource = [some c.resource] := by
  rw [ctor_sel selResource c [] [some c.resource] (fun _ => none) (fun _ => none) rfl (fun _ => rfl) (fun _ => rfl) rfl]
  simp [filterMap_const_none]
theorem ctor_selScope (c : Cfg) : (ctorOps c).filterMap selScope = [some c.scope] := by
  rw [ctor_sel selScope c [some c.scope] [] (fun _ => none) (fun _ => none) rfl (fun _ => rfl) (fun _ => rfl) rfl]
  simp [filterMap_const_none]
theorem ctor_selDuration (c : Cfg) : (ctorOps c).filterMap selDuration = [] := by
  rw [ctor_sel selDuration c [] [] (fun _ => none) (fun _ => none) rfl (fun _ => rfl) (fun _ => rfl) rfl]
  simp [filterMap_const_none]
theorem ctor_selStatus (c : Cfg) : (ctorOps c).filterMap selStatus = [] := by
  rw [ctor_sel selStatus c [] [] (fun _ => none) (fun _ => none) rfl (fun _ => rfl) (fun _ => rfl) rfl]
  simp [filterMap_const_none]
theorem ctor_selEvent (c : Cfg) : (ctorOps c).filterMap selEvent = [] := by
  rw [ctor_sel selEvent c [] [] (fun _ => none) (fun _ => none) rfl (fun _ => rfl) (fun _ => rfl) rfl]
  simp [filterMap_const_none]
theorem ctor_selAttr (c : Cfg) : (ctorOps c).filterMap selAttr = c.attrs := by
  rw [ctor_sel selAttr c [] [] (fun kv => some (id kv)) (fun _ => none) rfl (fun _ => rfl) (fun _ => rfl) rfl]
  simp [filterMap_const_none]
theorem ctor_selLink (c : Cfg) : (ctorOps c).filterMap selLink = c.links.map linkOf := by
  rw [ctor_sel selLink c [] [] (fun _ => none) (fun l => some (linkOf l)) rfl (fun _ => rfl) (fun _ => rfl) rfl]
  simp [filterMap_const_none, filterMap_some_fn]

/-- **name_is_last_update.**  The exported name is the argument of the last `UpdateName` before the first `End`, and the
    `StartSpan` name when there is none. -/
theorem name_is_last_update (c : Cfg) (ops : List Op) :
    (exported c ops).name = (((live ops).filterMap nameWrite).getLast?).getD c.name := by
  unfold exported
  rw [foldl_last (·.name) selName (by intro sd op; cases op <;> rfl),
    sel_exported selName nameWrite c ops _ [] (by intro op; cases op <;> rfl) rfl, ctor_selName, List.append_nil,
    getLastD_append]
  rfl

/-- **status**: the last `SetStatus` before the first `End` (code and description together), `Unset`/"" when there is none -/
theorem status_is_last_set (c : Cfg) (ops : List Op) :
    ((exported c ops).statusCode, (exported c ops).statusDesc)
      = (((live ops).filterMap statusWrite).getLast?).getD (0, []) := by
  unfold exported
  rw [foldl_last (fun sd => (sd.statusCode, sd.statusDesc)) selStatus (by intro sd op; cases op <;> rfl),
    sel_exported selStatus statusWrite c ops _ [] (by intro op; cases op <;> rfl) rfl, ctor_selStatus, List.append_nil,
    getLastD_append]
  rfl

/-- a field no span operation touches holds what the constructor wrote -/
theorem ctor_field {β : Type} (proj : SpanData → β) (sel : RecOp → Option β) (c : Cfg) (ops : List Op) (v : β)
    (h : ∀ sd op, proj (sd.apply op) = (sel op).getD (proj sd)) (hw : ∀ op, (toRec op).bind sel = none)
    (hc : (ctorOps c).filterMap sel = [v])
    (hz : ∀ d, [RecOp.setDuration d].filterMap sel = []) : proj (exported c ops) = v := by
  unfold exported
  rw [foldl_last proj sel h, sel_exported sel (fun _ => none) c ops _ [] hw (hz _), hc, filterMap_const_none]
  rfl

/-- **kind, start time, resource, instrumentation scope** are the ones given at `StartSpan` / by the provider and tracer;
    nothing a program does changes them.  (`nowOr`: a zero start time means "not given" and is replaced by the clock.) -/
theorem kind_start_resource_scope (c : Cfg) (ops : List Op) :
    (exported c ops).kind = c.kind ∧ (exported c ops).startSys = nowOr c.startSys ∧
    (exported c ops).resource = some c.resource ∧ (exported c ops).scope = some c.scope :=
  ⟨ctor_field (·.kind) selKind c ops _ (by intro sd op; cases op <;> rfl) (by intro op; cases op <;> rfl) (ctor_selKind c) (fun _ => rfl),
   ctor_field (·.startSys) selStart c ops _ (by intro sd op; cases op <;> rfl) (by intro op; cases op <;> rfl) (ctor_selStart c) (fun _ => rfl),
   ctor_field (·.resource) selResource c ops _ (by intro sd op; cases op <;> rfl) (by intro op; cases op <;> rfl) (ctor_selResource c) (fun _ => rfl),
   ctor_field (·.scope) selScope c ops _ (by intro sd op; cases op <;> rfl) (by intro op; cases op <;> rfl) (ctor_selScope c) (fun _ => rfl)⟩

theorem duration_exported (c : Cfg) (ops : List Op) :
    (exported c ops).duration = durationOf (nowOr (firstEnd ops)) (nowOr c.startSteady) := by
  unfold exported
  rw [foldl_last (·.duration) selDuration (by intro sd op; cases op <;> rfl),
    sel_exported selDuration (fun _ => none) c ops _ [_] (by intro op; cases op <;> rfl) rfl, ctor_selDuration,
    filterMap_const_none]
  rfl

/-- **duration_eq_end_minus_start.**  When `StartSpan` was given a steady start time and the first `End` a steady end
    time, the exported duration is their difference — whatever later `End`s say. -/
theorem duration_eq_end_minus_start (c : Cfg) (ops : List Op) (hs : c.startSteady ≠ 0) (he : firstEnd ops ≠ 0) :
    (exported c ops).duration = some (firstEnd ops - c.startSteady) := by
  rw [duration_exported]; simp [nowOr, hs, he, durationOf]

/-- … and it is a clock reading (not determined by the program) as soon as one of the two is not given -/
theorem duration_clock (c : Cfg) (ops : List Op) (h : c.startSteady = 0 ∨ firstEnd ops = 0) :
    (exported c ops).duration = none := by
  rw [duration_exported]
  rcases h with h | h
  · simp only [nowOr, h, if_true, durationOf]; split <;> simp_all
  · simp only [nowOr, h, if_true, durationOf]

theorem attrs_foldl (rops : List RecOp) (sd : SpanData) :
    (rops.foldl SpanData.apply sd).attrs = (rops.filterMap selAttr).foldl (fun m kv => m.setAttribute kv.1 kv.2) sd.attrs := by
  induction rops generalizing sd with
  | nil => rfl
  | cons op t ih => rw [List.foldl_cons, ih]; cases op <;> rfl

/-- the sequence of attribute writes behind the exported record: `StartSpan` attributes, then the live `SetAttribute`s -/
theorem attrs_exported (c : Cfg) (ops : List Op) :
    (exported c ops).attrs = Map.ofIterable (c.attrs ++ (live ops).filterMap attrWrite) := by
  unfold exported
  rw [attrs_foldl, sel_exported selAttr attrWrite c ops _ [] (by intro op; cases op <;> rfl) rfl, ctor_selAttr,
    List.append_nil]
  rfl

/-- **attr_last_write_wins.**  For every key, the exported attribute is the owned copy (`convert`) of the value of the
    last write to that key among the `StartSpan` attributes followed by the `SetAttribute` calls before the first `End` —
    whatever the alternatives of the earlier and the later value are; a key never written is absent; keys are distinct. -/
theorem attr_last_write_wins (c : Cfg) (ops : List Op) (k : Bytes) :
    Map.lookup k (exported c ops).attrs = (lastWrite k (c.attrs ++ (live ops).filterMap attrWrite)).map convert := by
  rw [attrs_exported, Map.lookup_ofIterable]

theorem attr_keys_distinct (c : Cfg) (ops : List Op) : (exported c ops).attrs.keys.Nodup := by
  rw [attrs_exported]; exact Map.nodup_ofIterable _

/-- a list field that every `Recordable` call either appends one element to or leaves alone -/
theorem foldl_appended {β : Type} (proj : SpanData → List β) (sel : RecOp → Option β)
    (h : ∀ sd op, proj (sd.apply op) = proj sd ++ (sel op).toList) :
    ∀ (rops : List RecOp) (sd : SpanData), proj (rops.foldl SpanData.apply sd) = proj sd ++ rops.filterMap sel := by
  intro rops
  induction rops with
  | nil => intro sd; simp
  | cons op t ih =>
    intro sd
    rw [List.foldl_cons, ih, h, List.filterMap_cons]
    cases sel op <;> simp

theorem events_foldl (rops : List RecOp) (sd : SpanData) :
    (rops.foldl SpanData.apply sd).events = sd.events ++ rops.filterMap selEvent :=
  foldl_appended (·.events) selEvent (by intro sd op; cases op <;> simp [SpanData.apply, selEvent]) rops sd

theorem links_foldl (rops : List RecOp) (sd : SpanData) :
    (rops.foldl SpanData.apply sd).links = sd.links ++ rops.filterMap selLink :=
  foldl_appended (·.links) selLink (by intro sd op; cases op <;> simp [SpanData.apply, selLink]) rops sd

/-- **events_links_in_order.**  The exported events are exactly the `AddEvent` calls before the first `End`, in call
    order, each with its name, timestamp argument and own attribute map; the links are exactly the `StartSpan` links in
    argument order followed by the `AddLink` calls (ABI v2) before the first `End` in call order, each with its own
    attribute map. -/
theorem events_links_in_order (c : Cfg) (ops : List Op) :
    (exported c ops).events = (live ops).filterMap eventOf ∧
    (exported c ops).links = c.links.map linkOf ++ (live ops).filterMap linkWrite := by
  constructor
  · unfold exported
    rw [events_foldl, sel_exported selEvent eventOf c ops _ [] (by intro op; cases op <;> rfl) rfl, ctor_selEvent]
    simp
  · unfold exported
    rw [links_foldl, sel_exported selLink linkWrite c ops _ [] (by intro op; cases op <;> rfl) rfl, ctor_selLink]
    simp

/-- the own attributes of an event or link: last write wins per key inside the iterable that was passed -/
theorem own_attrs_last_write_wins (kvs : KVs) (k : Bytes) :
    Map.lookup k (Map.ofIterable kvs) = (lastWrite k kvs).map convert ∧ (Map.ofIterable kvs).keys.Nodup :=
  ⟨Map.lookup_ofIterable k kvs, Map.nodup_ofIterable kvs⟩

/-- **scope attributes** (ABI v2 `GetTracer(name, version, schema_url, attributes)`): when the tracer was requested with the
    attribute iterable `kvs`, the exported span's instrumentation scope carries, per key, the last pair of `kvs` (as an owned
    value), whatever the span program does. -/
theorem scope_attrs_last_write_wins (c : Cfg) (ops : List Op) (kvs : KVs) (k : Bytes)
    (h : c.scope.attrs = some (Map.ofIterable kvs)) :
    ∃ sc, (exported c ops).scope = some sc ∧ ∃ m, sc.attrs = some m ∧
      Map.lookup k m = (lastWrite k kvs).map convert ∧ m.keys.Nodup :=
  ⟨c.scope, (kind_start_resource_scope c ops).2.2.2, Map.ofIterable kvs, h,
    Map.lookup_ofIterable k kvs, Map.nodup_ofIterable kvs⟩

/-- the hypothesis of `scope_attrs_last_write_wins` is satisfiable -/
example : ∃ c : Cfg, c.scope.attrs = some (Map.ofIterable [([107], Value.i32 1), ([107], Value.i32 2)]) :=
  ⟨{ procs := [.simple], resource := [], scope := ⟨[], [], [], some (Map.ofIterable [([107], Value.i32 1), ([107], Value.i32 2)])⟩,
     name := [], kind := 0, startSys := 0, startSteady := 0, attrs := [], links := [] }, rfl⟩

/-! ## Exactly once, identical copies, End takes effect once -/

/-- **fanout_identical.**  Every configured processor's exporter received the same record, as one `Export` call with
    one span (so any two processors' copies are equal). -/
theorem fanout_identical (c : Cfg) (ops : List Op) :
    ∀ p ∈ (run c ops).procs, p.exports = [[exported c ops]] := by
  rw [run_closed_form]
  intro p hp
  simp only [List.mem_map] at hp
  obtain ⟨k, _, rfl⟩ := hp
  rfl

/-- **each_processor_notified_once.**  The processors after the run are the configured ones (same number, same kinds,
    same order), each with exactly one `OnStart`, exactly one `OnEnd`, exactly one `Export` call, and nothing left queued. -/
theorem each_processor_notified_once (c : Cfg) (ops : List Op) :
    (run c ops).procs.map (·.kind) = c.procs ∧
    ∀ p ∈ (run c ops).procs, p.onStart = 1 ∧ p.onEnd = 1 ∧ p.exports.length = 1 ∧ p.queue = [] := by
  rw [run_closed_form]
  constructor
  · simp [List.map_map, Function.comp_def, doneProc]
  · intro p hp
    simp only [List.mem_map] at hp
    obtain ⟨k, _, rfl⟩ := hp
    simp [doneProc]

/-- the two latches agree in every reachable state: `recordable_ == nullptr` exactly when `has_ended_` -/
theorem ended_iff_no_recordable (c : Cfg) (ops : List Op) :
    (exec (init c) ops).recordable = none ↔ (exec (init c) ops).hasEnded = true := by
  have hstep : ∀ (s : State) (op : Op), (s.recordable = none ↔ s.hasEnded = true) →
      ((step s op).recordable = none ↔ (step s op).hasEnded = true) := by
    intro s op h
    cases op <;> simp only [step, mutate]
    case end_ e =>
      by_cases he : s.hasEnded = true
      · simp [he, h]
      · cases hr : s.recordable <;> simp [he]
    case flush => exact h
    all_goals (cases hr : s.recordable <;> simp_all)
  have : ∀ (l : List Op) (s : State), (s.recordable = none ↔ s.hasEnded = true) →
      ((exec s l).recordable = none ↔ (exec s l).hasEnded = true) := by
    intro l
    induction l with
    | nil => intro s h; exact h
    | cons op t ih => intro s h; exact ih _ (hstep s op h)
  exact this ops (init c) (by simp [init])

/-- **end_once (state level).**  After any program that contains an `End`, a further `End` and every mutator
    (`SetAttribute`, `AddEvent`, `SetStatus`, `UpdateName`) leave the *whole* system state unchanged: the span, every
    processor's counters and queue, every exporter's log. -/
theorem end_once_step (c : Cfg) (pre : List Op) (e : Int) (post : List Op) (op : Op) (hop : op ≠ .flush) :
    step (exec (init c) (pre ++ .end_ e :: post)) op = exec (init c) (pre ++ .end_ e :: post) := by
  have hmono : ∀ (l : List Op) (s : State), s.hasEnded = true → (exec s l).hasEnded = true := by
    intro l
    induction l with
    | nil => intro s h; exact h
    | cons o t ih =>
      intro s h
      apply ih
      cases o <;> simp [step, mutate, h]
      all_goals (cases s.recordable <;> simp [h])
  have hended : (exec (init c) (pre ++ .end_ e :: post)).hasEnded = true := by
    have : exec (init c) (pre ++ .end_ e :: post) = exec (step (exec (init c) pre) (.end_ e)) post := by
      simp [exec, List.foldl_append]
    rw [this]
    apply hmono
    simp only [step]
    by_cases h : (exec (init c) pre).hasEnded = true
    · simp [h]
    · cases (exec (init c) pre).recordable <;> simp [h]
  exact step_ended hended ((ended_iff_no_recordable c _).mpr hended) hop

/-- **end_once (program level).**  Whatever follows the first `End` — further `End`s with other options, mutators,
    flushes — the final system state (every exporter's log included) is the one of the program cut after that `End`:
    nothing is changed and nothing more is exported. -/
theorem end_once (c : Cfg) (pre : List Op) (e : Int) (post : List Op) :
    run c (pre ++ .end_ e :: post) = run c (pre ++ [.end_ e]) := by
  rw [run_closed_form, run_closed_form]
  have : exported c (pre ++ .end_ e :: post) = exported c (pre ++ [.end_ e]) := by
    unfold exported
    rw [live_append_end, live_append_end pre e [], firstEnd_append_end]
  rw [this]

/-- the exporter logs only ever grow by the one record: in the final state the total number of exported spans per
    processor is 1, for every program (no duplicate through a second `End`, none lost) -/
theorem exported_span_count (c : Cfg) (ops : List Op) :
    ∀ p ∈ (run c ops).procs, (p.exports.flatten).length = 1 := by
  intro p hp
  rw [fanout_identical c ops p hp]
  rfl

/-! ## The owned copy of every `AttributeValue` alternative -/

/-- the model's `convert` follows the overload table of `AttributeConverter` found in the source: for every alternative
    the source has an overload, and it returns the owned type the model returns -/
theorem convert_matches_source (v : Value) : Gen.attrConverter.lookup v.alt = some (convert v).alt := by
  cases v <;> simp only [Value.alt, convert, Owned.alt] <;> decide

/-- every alternative of `common::AttributeValue` in the source is a constructor of the model -/
theorem every_alternative_modelled : ∀ a ∈ Gen.attrValueAlts, a ∈
    ([.bool false, .i32 0, .i64 0, .u32 0, .f64 0, .cstr [], .str [], .bools [], .i32s [], .i64s [], .u32s [], .f64s [],
      .strs [], .u64 0, .u64s [], .bytes []] : List Value).map Value.alt := by
  decide

/-- every owned alternative the model produces exists in the source's `OwnedAttributeValue` -/
theorem owned_index_valid (v : Value) : (convert v).index < Gen.ownedValueAlts.length := by
  cases v <;> simp only [convert, Owned.index, Owned.alt] <;> decide

/-- strings keep every byte (embedded NULs included, empty strings stay empty strings); arrays keep every element in
    order; only the `const char *` alternative stops at the first NUL (it is a C string) -/
theorem convert_keeps_content :
    (∀ s, convert (.str s) = .str s) ∧ (∀ l, convert (.strs l) = .strs l) ∧ (∀ l, convert (.bytes l) = .bytes l) ∧
    (∀ l, convert (.bools l) = .bools l) ∧ (∀ l, convert (.i32s l) = .i32s l) ∧ (∀ l, convert (.i64s l) = .i64s l) ∧
    (∀ l, convert (.u32s l) = .u32s l) ∧ (∀ l, convert (.u64s l) = .u64s l) ∧ (∀ l, convert (.f64s l) = .f64s l) ∧
    (∀ buf, convert (.cstr buf) = .str (buf.takeWhile (· ≠ 0))) :=
  ⟨fun _ => rfl, fun _ => rfl, fun _ => rfl, fun _ => rfl, fun _ => rfl, fun _ => rfl, fun _ => rfl, fun _ => rfl,
   fun _ => rfl, fun _ => rfl⟩

theorem spanKind_statusCode_counts : Gen.spanKindNames.length = 5 ∧ Gen.statusCodeNames.length = 3 := by decide

/-! ## Non-vacuity: concrete programs satisfying the hypotheses, with the conclusions visible -/

def exCfg : Cfg :=
  { procs := [.simple, .batch, .simple], resource := [1], scope := ⟨[2], [], [], none⟩, name := [110], kind := 2,
    startSys := 1000, startSteady := 5000, attrs := [([97], .i32 5), ([98], .str [0, 1]), ([97], .cstr [65, 0, 66])],
    links := [([1], [2], 1, [([107], .bools [true])])] }

def exOps : List Op :=
  [.setAttribute [97] (.i64 (-7)), .addEvent [101] (some 77) (some [([107], .strs [[], [97]])]), .updateName [111],
   .addLink [3] [4] 0 [([107], .i32 1), ([107], .i32 2)],
   .flush, .end_ 7000, .setAttribute [122] (.bool true), .updateName [112], .end_ 9000]

example : exCfg.startSteady ≠ 0 ∧ firstEnd exOps ≠ 0 := by decide
example : (exported exCfg exOps).duration = some 2000 := by decide
example : (exported exCfg exOps).name = [111] := by decide
example : Map.lookup [97] (exported exCfg exOps).attrs = some (.i64 (-7)) := by decide
example : Map.lookup [122] (exported exCfg exOps).attrs = none := by decide
example : (run exCfg exOps).procs.map (·.exports.length) = [1, 1, 1] := by decide
example : live exOps = exOps.take 5 := by decide
example : (exported exCfg exOps).links.map (·.traceId) = [[1], [3]] := by decide
/-- without the final flush a batch processor has exported nothing yet: the flush in `run` is what the statement needs -/
example : ((exec (init exCfg) exOps).procs.map (·.exports.length)) = [1, 0, 1] := by decide

end Otel.C04
