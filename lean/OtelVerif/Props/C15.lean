import OtelVerif.Model.Propagator
import OtelVerif.Lemmas.Idx
import OtelVerif.Props.C09
/-! # C15 — Baggage round-trips through its header; composite propagators apply every part

Property theorems about `Model/Baggage.lean` (mirrors `baggage/baggage.h` over `common/kv_properties.h`) and
`Model/Propagator.lean` (mirrors `composite_propagator.h`, `baggage_propagator.h`, `baggage_context.h`).  Limits,
separators, the printable range, the characters `UrlEncode` keeps and its digit table come from `Gen/Baggage.lean`,
re-extracted from the source on every run; the numbers of the property text (180, 4096, 8192) and the characters of
the W3C baggage format (`,` `=` `;` `%` `+`) are literals here. -/
namespace Otel.C15
open Otel Otel.Baggage Otel.C09

/-! ## Specification vocabulary (written from the property text / RFC 3986 percent-encoding) -/

/-- printable ASCII: `' '` … `'~'` -/
def Printable (s : Bytes) : Prop := ∀ c ∈ s, 32 ≤ c ∧ c ≤ 126

instance (s : Bytes) : Decidable (Printable s) := by unfold Printable; exact inferInstance

def Alnum (c : UInt8) : Prop := (48 ≤ c ∧ c ≤ 57) ∨ (65 ≤ c ∧ c ≤ 90) ∨ (97 ≤ c ∧ c ≤ 122)

/-- the token characters that are written as they are: ALPHA / DIGIT / `-` `_` `.` `~` -/
def Unreserved (c : UInt8) : Prop := Alnum c ∨ c = 45 ∨ c = 95 ∨ c = 46 ∨ c = 126

instance : DecidablePred Alnum := fun c => by unfold Alnum; exact inferInstance
instance : DecidablePred Unreserved := fun c => by unfold Unreserved; exact inferInstance

/-- upper-case hex digit of a nibble -/
def upperDigit (n : Nat) : UInt8 := if n < 10 then UInt8.ofNat (48 + n) else UInt8.ofNat (55 + n)

/-- a character outside the token set is percent-encoded (`%XX`, upper case); the space is written `+` -/
def pctEncodeByte (c : UInt8) : Bytes :=
  if Unreserved c then [c] else if c = 32 then [43] else [37, upperDigit (c.toNat / 16), upperDigit (c.toNat % 16)]

def pctEncode (s : Bytes) : Bytes := s.flatMap pctEncodeByte

/-- strict decoding: `%` must be followed by two hex digits of either case, `+` is a space, every other character
    must be a token character; `none` = malformed -/
def pctDecode : Bytes → Option Bytes
  | [] => some []
  | c :: t =>
    if c = 37 then
      match t with
      | a :: b :: t' =>
        if IsHexChar a ∧ IsHexChar b then (pctDecode t').map (UInt8.ofNat (digitVal a * 16 + digitVal b) :: ·) else none
      | _ => none
    else if c = 43 then (pctDecode t).map (32 :: ·)
    else if Unreserved c then (pctDecode t).map (c :: ·)
    else none

theorem pctDecode_nil : pctDecode [] = some [] := by rw [pctDecode.eq_def]
theorem pctDecode_esc (a b : UInt8) (t : Bytes) : pctDecode (37 :: a :: b :: t) =
    if IsHexChar a ∧ IsHexChar b then (pctDecode t).map (UInt8.ofNat (digitVal a * 16 + digitVal b) :: ·) else none := by
  rw [pctDecode.eq_def]; simp
theorem pctDecode_esc1 : pctDecode [37] = none := by rw [pctDecode.eq_def]; simp
theorem pctDecode_esc2 (a : UInt8) : pctDecode [37, a] = none := by rw [pctDecode.eq_def]; simp
theorem pctDecode_plus (t : Bytes) : pctDecode (43 :: t) = (pctDecode t).map (32 :: ·) := by
  rw [pctDecode.eq_def]; simp
theorem pctDecode_other (c : UInt8) (t : Bytes) (h37 : c ≠ 37) (h43 : c ≠ 43) :
    pctDecode (c :: t) = if Unreserved c then (pctDecode t).map (c :: ·) else none := by
  rw [pctDecode.eq_def]; simp [h37, h43]

/-! ## Generated constants are the documented ones -/

theorem gen_baggage : Gen.baggageMaxPairs = 180 ∧ Gen.baggageMaxKeyValueSize = 4096 ∧ Gen.baggageMaxSize = 8192 ∧
    Gen.baggageKvSep = 61 ∧ Gen.baggageMemberSep = 44 ∧ Gen.baggageMetaSep = 59 ∧ Gen.baggagePrintLo = 32 ∧
    Gen.baggagePrintHi = 126 ∧ Gen.baggageSpace = 32 ∧ Gen.baggagePlus = 43 ∧ Gen.baggageEscape = 37 ∧
    Gen.baggageKeep = [45, 95, 46, 126] ∧ Gen.baggageKeepDecode = [45, 95, 46, 126] ∧
    Gen.baggageHex = [48, 49, 50, 51, 52, 53, 54, 55, 56, 57, 65, 66, 67, 68, 69, 70] ∧
    Gen.baggageHeader = [98, 97, 103, 103, 97, 103, 101] := by decide

/-! ## Byte-level facts, each over all 256 values -/

/-- `UrlEncode` of one character is RFC 3986 percent-encoding with `+` for the space — **for every byte** -/
theorem urlEncodeByte_spec : ∀ c : UInt8, urlEncodeByte c = pctEncodeByte c := forall_byte _ (by decide +kernel)

theorem isKeptDec_iff : ∀ c : UInt8, isKeptDec c = true ↔ Unreserved c := forall_byte _ (by decide +kernel)
theorem isHexC_iff : ∀ c : UInt8, isHexC c = true ↔ IsHexChar c := forall_byte _ (by decide +kernel)
theorem fromHex_eq : ∀ c : UInt8, IsHexChar c → fromHex c = UInt8.ofNat (digitVal c) ∧ digitVal c < 16 :=
  forall_byte _ (by decide +kernel)

theorem unreserved_facts : ∀ c : UInt8, Unreserved c → c ≠ 37 ∧ c ≠ 43 ∧ c ≠ 44 ∧ c ≠ 61 ∧ c ≠ 59 ∧ c ≠ 0 ∧ isSpace c = false :=
  forall_byte _ (by decide +kernel)

/-- what a percent-escape looks like and decodes to, for every byte -/
theorem escape_facts : ∀ c : UInt8,
    IsHexChar (upperDigit (c.toNat / 16)) ∧ IsHexChar (upperDigit (c.toNat % 16)) ∧
    UInt8.ofNat (digitVal (upperDigit (c.toNat / 16)) * 16 + digitVal (upperDigit (c.toNat % 16))) = c :=
  forall_byte _ (by decide +kernel)

/-- no byte of an encoded string is a separator, NUL or white space -/
theorem pctEncodeByte_clean : ∀ c : UInt8, ∀ x ∈ pctEncodeByte c, x ≠ 44 ∧ x ≠ 61 ∧ x ≠ 59 ∧ x ≠ 0 ∧ isSpace x = false :=
  forall_byte _ (by decide +kernel)

theorem pctEncodeByte_ne_nil : ∀ c : UInt8, pctEncodeByte c ≠ [] := forall_byte _ (by decide +kernel)

theorem shl_or16 (a b : UInt8) (ha : IsHexChar a) (hb : IsHexChar b) :
    (fromHex a <<< 4) ||| fromHex b = UInt8.ofNat (digitVal a * 16 + digitVal b) := by
  rw [(fromHex_eq a ha).1, (fromHex_eq b hb).1]
  exact shl_or _ (fromHex_eq a ha).2 _ (fromHex_eq b hb).2

/-! ## `UrlDecode`: the index-explicit loop never leaves the string and is strict percent-decoding -/

theorem urlDecodeLoop_spec (s : Bytes) : ∀ (n : Nat) (rest pre acc : Bytes) (fuel i : Nat), rest.length = n →
    s = pre ++ rest → i = pre.length → rest.length ≤ fuel →
    urlDecodeLoop s fuel i acc = .ok ((pctDecode rest).map (acc ++ ·)) := by
  obtain ⟨_, _, _, _, _, _, _, _, g9, g10, g11, _⟩ := gen_baggage
  intro n
  induction n using Nat.strongRecOn with
  | _ n ih =>
    intro rest pre acc fuel i hn hs hi hfuel
    cases rest with
    | nil =>
      have hlen : ¬ i < s.length := by rw [hs, hi]; simp
      cases fuel with
      | zero => simp only [urlDecodeLoop]; rw [if_neg hlen, pctDecode_nil]; simp
      | succ f => simp only [urlDecodeLoop]; rw [if_neg hlen, pctDecode_nil]; simp
    | cons c t =>
      have hlen : i < s.length := by rw [hs, hi]; simp
      cases fuel with
      | zero => simp at hfuel
      | succ f =>
        have hrd : Idx.rd s i = .ok c := by rw [hs]; exact Idx.rd_at' pre c t _ hi
        simp only [urlDecodeLoop]
        rw [if_pos hlen, hrd, Res.bind_ok, g9, g10, g11]
        by_cases h37 : c = 37
        · subst h37
          simp only [beq_self_eq_true, if_true]
          match t, hs, hn, hfuel with
          | [], hs, _, _ =>
            have : i + 2 ≥ s.length := by rw [hs, hi]; simp
            rw [if_pos this, pctDecode_esc1]; rfl
          | [a], hs, _, _ =>
            have : i + 2 ≥ s.length := by rw [hs, hi]; simp
            rw [if_pos this, pctDecode_esc2]; rfl
          | a :: b :: t', hs, hn, hfuel =>
            have : ¬ i + 2 ≥ s.length := by rw [hs, hi]; simp
            have hrd1 : Idx.rd s (i + 1) = .ok a := by
              have : s = (pre ++ [37]) ++ a :: b :: t' := by rw [hs]; simp
              rw [this]; exact Idx.rd_at' _ a _ _ (by rw [hi]; simp)
            have hrd2 : Idx.rd s (i + 2) = .ok b := by
              have : s = (pre ++ [37, a]) ++ b :: t' := by rw [hs]; simp
              rw [this]; exact Idx.rd_at' _ b _ _ (by rw [hi]; simp)
            rw [if_neg this, hrd1, Res.bind_ok]
            by_cases ha : IsHexChar a
            · have ha' : isHexC a = true := (isHexC_iff a).2 ha
              simp only [ha', Bool.not_true, Bool.false_eq_true, if_false, hrd2, Res.bind_ok]
              by_cases hb : IsHexChar b
              · have hb' : isHexC b = true := (isHexC_iff b).2 hb
                simp only [hb', Bool.not_true, Bool.false_eq_true, if_false]
                rw [ih t'.length (by simp at hn; omega) t' (pre ++ [37, a, b]) _ f (i + 3) rfl (by rw [hs]; simp)
                  (by rw [hi]; simp) (by simp at hfuel; omega), shl_or16 a b ha hb]
                rw [pctDecode_esc, if_pos ⟨ha, hb⟩]
                cases pctDecode t' <;> simp
              · have hb' : isHexC b = false := by
                  cases hx : isHexC b
                  · rfl
                  · exact absurd ((isHexC_iff b).1 hx) hb
                have hnb : ¬ (IsHexChar a ∧ IsHexChar b) := fun h => hb h.2
                simp only [hb', Bool.not_false, if_true]
                rw [pctDecode_esc, if_neg hnb]; rfl
            · have ha' : isHexC a = false := by
                cases hx : isHexC a
                · rfl
                · exact absurd ((isHexC_iff a).1 hx) ha
              have hna : ¬ (IsHexChar a ∧ IsHexChar b) := fun h => ha h.1
              simp only [ha', Bool.not_false, if_true]
              rw [pctDecode_esc, if_neg hna]; rfl
        · have hne : (c == 37) = false := by simpa using h37
          simp only [hne, Bool.false_eq_true, if_false]
          by_cases h43 : c = 43
          · subst h43
            simp only [beq_self_eq_true, if_true]
            rw [ih t.length (by simp at hn; omega) t (pre ++ [43]) _ f (i + 1) rfl (by rw [hs]; simp)
              (by rw [hi]; simp) (by simp at hfuel; omega)]
            rw [pctDecode_plus]
            cases pctDecode t <;> simp
          · have hne2 : (c == 43) = false := by simpa using h43
            simp only [hne2, Bool.false_eq_true, if_false]
            by_cases hu : Unreserved c
            · have hu' : isKeptDec c = true := (isKeptDec_iff c).2 hu
              simp only [hu', if_true]
              rw [ih t.length (by simp at hn; omega) t (pre ++ [c]) _ f (i + 1) rfl (by rw [hs]; simp)
                (by rw [hi]; simp) (by simp at hfuel; omega)]
              rw [pctDecode_other c t h37 h43, if_pos hu]
              cases pctDecode t <;> simp
            · have hu' : isKeptDec c = false := by
                cases hx : isKeptDec c
                · rfl
                · exact absurd ((isKeptDec_iff c).1 hx) hu
              simp only [hu', Bool.false_eq_true, if_false]
              rw [pctDecode_other c t h37 h43, if_neg hu]
              rfl

/-- **`UrlDecode` never reads out of bounds** — in particular not behind a truncated `%4` or `%` at the end — and is
    strict percent-decoding, for every byte string -/
theorem urlDecode_eq (s : Bytes) : urlDecode s = .ok (pctDecode s) := by
  unfold urlDecode
  rw [urlDecodeLoop_spec s s.length s [] [] s.length 0 rfl rfl rfl (Nat.le_refl _)]
  cases pctDecode s <;> simp

theorem decode_never_oob (s : Bytes) : ∃ r, urlDecode s = .ok r := ⟨_, urlDecode_eq s⟩

theorem urlEncode_spec (s : Bytes) : urlEncode s = pctEncode s := by
  unfold urlEncode pctEncode
  induction s with
  | nil => rfl
  | cons c t ih => simp [List.flatMap_cons, urlEncodeByte_spec c, ih]

theorem pctDecode_encodeByte_append (c : UInt8) (t : Bytes) :
    pctDecode (pctEncodeByte c ++ t) = (pctDecode t).map (c :: ·) := by
  unfold pctEncodeByte
  by_cases hu : Unreserved c
  · obtain ⟨h1, h2, _⟩ := unreserved_facts c hu
    rw [if_pos hu]
    simp only [List.cons_append, List.nil_append]
    rw [pctDecode_other c t h1 h2, if_pos hu]
  · rw [if_neg hu]
    by_cases h32 : c = 32
    · subst h32
      rw [if_pos rfl]
      simp only [List.cons_append, List.nil_append]
      rw [pctDecode_plus]
    · rw [if_neg h32]
      obtain ⟨e1, e2, e3⟩ := escape_facts c
      simp only [List.cons_append, List.nil_append]
      rw [pctDecode_esc, if_pos ⟨e1, e2⟩, e3]

theorem pctDecode_pctEncode (s : Bytes) : pctDecode (pctEncode s) = some s := by
  induction s with
  | nil => rfl
  | cons c t ih =>
    have : pctEncode (c :: t) = pctEncodeByte c ++ pctEncode t := by simp [pctEncode, List.flatMap_cons]
    rw [this, pctDecode_encodeByte_append, ih]; rfl

/-- **decode ∘ encode = id, for every byte string** (every byte value, printable or not) -/
theorem urlDecode_urlEncode (s : Bytes) : urlDecode (urlEncode s) = .ok (some s) := by
  rw [urlDecode_eq, urlEncode_spec, pctDecode_pctEncode]

end Otel.C15
