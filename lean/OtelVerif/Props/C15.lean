import OtelVerif.Model.Propagator
import OtelVerif.Lemmas.Idx
import OtelVerif.Lemmas.KvTokIdx
import OtelVerif.Props.C09
import OtelVerif.Props.C16
/-! # C15 — Baggage round-trips through its header; composite propagators apply every part

Property theorems about `Model/Baggage.lean` (mirrors `baggage/baggage.h` over `common/kv_properties.h`) and
`Model/Propagator.lean` (mirrors `composite_propagator.h`, `baggage_propagator.h`, `baggage_context.h`).  Limits,
separators, the printable range, the characters `UrlEncode` keeps and its digit table come from `Gen/Baggage.lean`,
re-extracted from the source on every run; the numbers of the property text (180, 4096, 8192) and the characters of
the W3C baggage format (`,` `=` `;` `%` `+`) are literals here. -/
namespace Otel.C15
open Otel Otel.Baggage Otel.C09

/-! ## Specification vocabulary (written from the property text / RFC 3986 percent-encoding) -/

/-- printable ASCII: `' '` … `'~'` -/
def Printable (s : Bytes) : Prop := ∀ c ∈ s, 32 ≤ c ∧ c ≤ 126

instance (s : Bytes) : Decidable (Printable s) := by unfold Printable; exact inferInstance

def Alnum (c : UInt8) : Prop := (48 ≤ c ∧ c ≤ 57) ∨ (65 ≤ c ∧ c ≤ 90) ∨ (97 ≤ c ∧ c ≤ 122)

/-- the token characters that are written as they are: ALPHA / DIGIT / `-` `_` `.` `~` -/
def Unreserved (c : UInt8) : Prop := Alnum c ∨ c = 45 ∨ c = 95 ∨ c = 46 ∨ c = 126

instance : DecidablePred Alnum := fun c => by unfold Alnum; exact inferInstance
instance : DecidablePred Unreserved := fun c => by unfold Unreserved; exact inferInstance

/-- upper-case hex digit of a nibble -/
def upperDigit (n : Nat) : UInt8 := if n < 10 then UInt8.ofNat (48 + n) else UInt8.ofNat (55 + n)

/-- a character outside the token set is percent-encoded (`%XX`, upper case); the space is written `+` -/
def pctEncodeByte (c : UInt8) : Bytes :=
  if Unreserved c then [c] else if c = 32 then [43] else [37, upperDigit (c.toNat / 16), upperDigit (c.toNat % 16)]

def pctEncode (s : Bytes) : Bytes := s.flatMap pctEncodeByte

/-- strict decoding: `%` must be followed by two hex digits of either case, `+` is a space, every other character
    must be a token character; `none` = malformed -/
def pctDecode : Bytes → Option Bytes
  | [] => some []
  | c :: t =>
    if c = 37 then
      match t with
      | a :: b :: t' =>
        if IsHexChar a ∧ IsHexChar b then (pctDecode t').map (UInt8.ofNat (digitVal a * 16 + digitVal b) :: ·) else none
      | _ => none
    else if c = 43 then (pctDecode t).map (32 :: ·)
    else if Unreserved c then (pctDecode t).map (c :: ·)
    else none

theorem pctDecode_nil : pctDecode [] = some [] := by rw [pctDecode.eq_def]
theorem pctDecode_esc (a b : UInt8) (t : Bytes) : pctDecode (37 :: a :: b :: t) =
    if IsHexChar a ∧ IsHexChar b then (pctDecode t).map (UInt8.ofNat (digitVal a * 16 + digitVal b) :: ·) else none := by
  rw [pctDecode.eq_def]; simp
theorem pctDecode_esc1 : pctDecode [37] = none := by rw [pctDecode.eq_def]; simp
theorem pctDecode_esc2 (a : UInt8) : pctDecode [37, a] = none := by rw [pctDecode.eq_def]; simp
theorem pctDecode_plus (t : Bytes) : pctDecode (43 :: t) = (pctDecode t).map (32 :: ·) := by
  rw [pctDecode.eq_def]; simp
theorem pctDecode_other (c : UInt8) (t : Bytes) (h37 : c ≠ 37) (h43 : c ≠ 43) :
    pctDecode (c :: t) = if Unreserved c then (pctDecode t).map (c :: ·) else none := by
  rw [pctDecode.eq_def]; simp [h37, h43]

/-! ## Generated constants are the documented ones -/

theorem gen_baggage : Gen.baggageMaxPairs = 180 ∧ Gen.baggageMaxKeyValueSize = 4096 ∧ Gen.baggageMaxSize = 8192 ∧
    Gen.baggageKvSep = 61 ∧ Gen.baggageMemberSep = 44 ∧ Gen.baggageMetaSep = 59 ∧ Gen.baggagePrintLo = 32 ∧
    Gen.baggagePrintHi = 126 ∧ Gen.baggageSpace = 32 ∧ Gen.baggagePlus = 43 ∧ Gen.baggageEscape = 37 ∧
    Gen.baggageKeep = [45, 95, 46, 126] ∧ Gen.baggageKeepDecode = [45, 95, 46, 126] ∧
    Gen.baggageHex = [48, 49, 50, 51, 52, 53, 54, 55, 56, 57, 65, 66, 67, 68, 69, 70] ∧
    Gen.baggageHeader = [98, 97, 103, 103, 97, 103, 101] := by decide

/-! ## Byte-level facts, each over all 256 values -/

/-- `UrlEncode` of one character is RFC 3986 percent-encoding with `+` for the space — **for every byte** -/
theorem urlEncodeByte_spec : ∀ c : UInt8, urlEncodeByte c = pctEncodeByte c := forall_byte _ (by decide +kernel)

theorem isKeptDec_iff : ∀ c : UInt8, isKeptDec c = true ↔ Unreserved c := forall_byte _ (by decide +kernel)
theorem isHexC_iff : ∀ c : UInt8, isHexC c = true ↔ IsHexChar c := forall_byte _ (by decide +kernel)
theorem fromHex_eq : ∀ c : UInt8, IsHexChar c → fromHex c = UInt8.ofNat (digitVal c) ∧ digitVal c < 16 :=
  forall_byte _ (by decide +kernel)

theorem unreserved_facts : ∀ c : UInt8, Unreserved c → c ≠ 37 ∧ c ≠ 43 ∧ c ≠ 44 ∧ c ≠ 61 ∧ c ≠ 59 ∧ c ≠ 0 ∧ isSpace c = false :=
  forall_byte _ (by decide +kernel)

/-- what a percent-escape looks like and decodes to, for every byte -/
theorem escape_facts : ∀ c : UInt8,
    IsHexChar (upperDigit (c.toNat / 16)) ∧ IsHexChar (upperDigit (c.toNat % 16)) ∧
    UInt8.ofNat (digitVal (upperDigit (c.toNat / 16)) * 16 + digitVal (upperDigit (c.toNat % 16))) = c :=
  forall_byte _ (by decide +kernel)

/-- no byte of an encoded string is a separator, NUL or white space -/
theorem pctEncodeByte_clean : ∀ c : UInt8, ∀ x ∈ pctEncodeByte c, x ≠ 44 ∧ x ≠ 61 ∧ x ≠ 59 ∧ x ≠ 0 ∧ isSpace x = false :=
  forall_byte _ (by decide +kernel)

theorem pctEncodeByte_ne_nil : ∀ c : UInt8, pctEncodeByte c ≠ [] := forall_byte _ (by decide +kernel)

theorem shl_or16 (a b : UInt8) (ha : IsHexChar a) (hb : IsHexChar b) :
    (fromHex a <<< 4) ||| fromHex b = UInt8.ofNat (digitVal a * 16 + digitVal b) := by
  rw [(fromHex_eq a ha).1, (fromHex_eq b hb).1]
  exact shl_or _ (fromHex_eq a ha).2 _ (fromHex_eq b hb).2

/-! ## `UrlDecode`: the index-explicit loop never leaves the string and is strict percent-decoding -/

theorem urlDecodeLoop_spec (s : Bytes) : ∀ (n : Nat) (rest pre acc : Bytes) (fuel i : Nat), rest.length = n →
    s = pre ++ rest → i = pre.length → rest.length ≤ fuel →
    urlDecodeLoop s fuel i acc = .ok ((pctDecode rest).map (acc ++ ·)) := by
  obtain ⟨_, _, _, _, _, _, _, _, g9, g10, g11, _⟩ := gen_baggage
  intro n
  induction n using Nat.strongRecOn with
  | _ n ih =>
    intro rest pre acc fuel i hn hs hi hfuel
    cases rest with
    | nil =>
      have hlen : ¬ i < s.length := by rw [hs, hi]; simp
      cases fuel with
      | zero => simp only [urlDecodeLoop]; rw [if_neg hlen, pctDecode_nil]; simp
      | succ f => simp only [urlDecodeLoop]; rw [if_neg hlen, pctDecode_nil]; simp
    | cons c t =>
      have hlen : i < s.length := by rw [hs, hi]; simp
      cases fuel with
      | zero => simp at hfuel
      | succ f =>
        have hrd : Idx.rd s i = .ok c := by rw [hs]; exact Idx.rd_at' pre c t _ hi
        simp only [urlDecodeLoop]
        rw [if_pos hlen, hrd, IxRes.bind_ok, g9, g10, g11]
        by_cases h37 : c = 37
        · subst h37
          simp only [beq_self_eq_true, if_true]
          match t, hs, hn, hfuel with
          | [], hs, _, _ =>
            have : i + 2 ≥ s.length := by rw [hs, hi]; simp
            rw [if_pos this, pctDecode_esc1]; rfl
          | [a], hs, _, _ =>
            have : i + 2 ≥ s.length := by rw [hs, hi]; simp
            rw [if_pos this, pctDecode_esc2]; rfl
          | a :: b :: t', hs, hn, hfuel =>
            have : ¬ i + 2 ≥ s.length := by rw [hs, hi]; simp
            have hrd1 : Idx.rd s (i + 1) = .ok a := by
              have : s = (pre ++ [37]) ++ a :: b :: t' := by rw [hs]; simp
              rw [this]; exact Idx.rd_at' _ a _ _ (by rw [hi]; simp)
            have hrd2 : Idx.rd s (i + 2) = .ok b := by
              have : s = (pre ++ [37, a]) ++ b :: t' := by rw [hs]; simp
              rw [this]; exact Idx.rd_at' _ b _ _ (by rw [hi]; simp)
            rw [if_neg this, hrd1, IxRes.bind_ok]
            by_cases ha : IsHexChar a
            · have ha' : isHexC a = true := (isHexC_iff a).2 ha
              simp only [ha', Bool.not_true, Bool.false_eq_true, if_false, hrd2, IxRes.bind_ok]
              by_cases hb : IsHexChar b
              · have hb' : isHexC b = true := (isHexC_iff b).2 hb
                simp only [hb', Bool.not_true, Bool.false_eq_true, if_false]
                rw [ih t'.length (by simp at hn; omega) t' (pre ++ [37, a, b]) _ f (i + 3) rfl (by rw [hs]; simp)
                  (by rw [hi]; simp) (by simp at hfuel; omega), shl_or16 a b ha hb]
                rw [pctDecode_esc, if_pos ⟨ha, hb⟩]
                cases pctDecode t' <;> simp
              · have hb' : isHexC b = false := by
                  cases hx : isHexC b
                  · rfl
                  · exact absurd ((isHexC_iff b).1 hx) hb
                have hnb : ¬ (IsHexChar a ∧ IsHexChar b) := fun h => hb h.2
                simp only [hb', Bool.not_false, if_true]
                rw [pctDecode_esc, if_neg hnb]; rfl
            · have ha' : isHexC a = false := by
                cases hx : isHexC a
                · rfl
                · exact absurd ((isHexC_iff a).1 hx) ha
              have hna : ¬ (IsHexChar a ∧ IsHexChar b) := fun h => ha h.1
              simp only [ha', Bool.not_false, if_true]
              rw [pctDecode_esc, if_neg hna]; rfl
        · have hne : (c == 37) = false := by simpa using h37
          simp only [hne, Bool.false_eq_true, if_false]
          by_cases h43 : c = 43
          · subst h43
            simp only [beq_self_eq_true, if_true]
            rw [ih t.length (by simp at hn; omega) t (pre ++ [43]) _ f (i + 1) rfl (by rw [hs]; simp)
              (by rw [hi]; simp) (by simp at hfuel; omega)]
            rw [pctDecode_plus]
            cases pctDecode t <;> simp
          · have hne2 : (c == 43) = false := by simpa using h43
            simp only [hne2, Bool.false_eq_true, if_false]
            by_cases hu : Unreserved c
            · have hu' : isKeptDec c = true := (isKeptDec_iff c).2 hu
              simp only [hu', if_true]
              rw [ih t.length (by simp at hn; omega) t (pre ++ [c]) _ f (i + 1) rfl (by rw [hs]; simp)
                (by rw [hi]; simp) (by simp at hfuel; omega)]
              rw [pctDecode_other c t h37 h43, if_pos hu]
              cases pctDecode t <;> simp
            · have hu' : isKeptDec c = false := by
                cases hx : isKeptDec c
                · rfl
                · exact absurd ((isKeptDec_iff c).1 hx) hu
              simp only [hu', Bool.false_eq_true, if_false]
              rw [pctDecode_other c t h37 h43, if_neg hu]
              rfl

/-- **`UrlDecode` never reads out of bounds** — in particular not behind a truncated `%4` or `%` at the end — and is
    strict percent-decoding, for every byte string -/
theorem urlDecode_eq (s : Bytes) : urlDecode s = .ok (pctDecode s) := by
  unfold urlDecode
  rw [urlDecodeLoop_spec s s.length s [] [] s.length 0 rfl rfl rfl (Nat.le_refl _)]
  cases pctDecode s <;> simp

theorem decode_never_oob (s : Bytes) : ∃ r, urlDecode s = .ok r := ⟨_, urlDecode_eq s⟩

theorem urlEncode_spec (s : Bytes) : urlEncode s = pctEncode s := by
  unfold urlEncode pctEncode
  induction s with
  | nil => rfl
  | cons c t ih => simp [List.flatMap_cons, urlEncodeByte_spec c, ih]

theorem pctDecode_encodeByte_append (c : UInt8) (t : Bytes) :
    pctDecode (pctEncodeByte c ++ t) = (pctDecode t).map (c :: ·) := by
  unfold pctEncodeByte
  by_cases hu : Unreserved c
  · obtain ⟨h1, h2, _⟩ := unreserved_facts c hu
    rw [if_pos hu]
    simp only [List.cons_append, List.nil_append]
    rw [pctDecode_other c t h1 h2, if_pos hu]
  · rw [if_neg hu]
    by_cases h32 : c = 32
    · subst h32
      rw [if_pos rfl]
      simp only [List.cons_append, List.nil_append]
      rw [pctDecode_plus]
    · rw [if_neg h32]
      obtain ⟨e1, e2, e3⟩ := escape_facts c
      simp only [List.cons_append, List.nil_append]
      rw [pctDecode_esc, if_pos ⟨e1, e2⟩, e3]

theorem pctDecode_pctEncode (s : Bytes) : pctDecode (pctEncode s) = some s := by
  induction s with
  | nil => rfl
  | cons c t ih =>
    have : pctEncode (c :: t) = pctEncodeByte c ++ pctEncode t := by simp [pctEncode, List.flatMap_cons]
    rw [this, pctDecode_encodeByte_append, ih]; rfl

/-- **decode ∘ encode = id, for every byte string** (every byte value, printable or not) -/
theorem urlDecode_urlEncode (s : Bytes) : urlDecode (urlEncode s) = .ok (some s) := by
  rw [urlDecode_eq, urlEncode_spec, pctDecode_pctEncode]

/-! ## Set / Delete -/

theorem isPrintable_iff (s : Bytes) : isPrintable s = true ↔ Printable s := by
  obtain ⟨_, _, _, _, _, _, g7, g8, _⟩ := gen_baggage
  unfold isPrintable Printable
  rw [g7, g8]
  simp [List.all_eq_true]

/-- a printable string holds no NUL: its stored C-string copy is the string itself -/
theorem cstr_printable (s : Bytes) (h : Printable s) : cstr s = s := by
  unfold cstr
  induction s with
  | nil => rfl
  | cons c t ih =>
    have hc := h c (by simp)
    have hne : (c != 0) = true := by
      have : c ≠ 0 := by intro e; subst e; exact absurd hc.1 (by decide)
      simpa using this
    rw [List.takeWhile_cons, if_pos hne, ih (fun x hx => h x (by simp [hx]))]

/-- conditional `AddEntry` over a list into an array with room for all of it = append the filtered list -/
theorem foldl_add (cond : Bytes × Bytes → Bool) : ∀ (es : Entries) (p : KvProps), p.entries.length + es.length ≤ p.cap →
    es.foldl (fun p e => if cond e then p.add e.1 e.2 else p) p = ⟨p.cap, p.entries ++ es.filter cond⟩
  | [], p, _ => by simp
  | e :: t, p, h => by
    simp only [List.foldl_cons, List.length_cons] at h ⊢
    by_cases hc : cond e = true
    · have hlt : p.entries.length < p.cap := by omega
      have hadd : p.add e.1 e.2 = ⟨p.cap, p.entries ++ [e]⟩ := by
        unfold KvProps.add; rw [if_pos hlt]
      rw [if_pos hc, hadd, foldl_add cond t _ (by simp; omega), List.filter_cons, if_pos hc]
      simp
    · rw [if_neg hc, foldl_add cond t p (by omega), List.filter_cons, if_neg hc]

/-- what `Set` and `Delete` must do, on the abstract ordered list -/
def specSet (es : Entries) (k v : Bytes) : Entries :=
  if k ≠ [] ∧ Printable k ∧ Printable v then (k, v) :: es.filter (fun e => e.1 != k) else es

def specDelete (es : Entries) (k : Bytes) : Entries := es.filter (fun e => e.1 != k)

theorem filter_ne_comm (es : Entries) (k : Bytes) :
    es.filter (fun e => k != e.1) = es.filter (fun e => e.1 != k) := by
  congr 1; funext e; exact bne_comm

/-- **`Set` refines the abstract map update**: a valid pair is put first and replaces an entry of the same key, every
    other entry is kept once, in order; an invalid key or value yields a copy -/
theorem set_eq (es : Entries) (k v : Bytes) : set es k v = specSet es k v := by
  unfold Baggage.set specSet isValidKey isValidValue
  by_cases hv : k ≠ [] ∧ Printable k ∧ Printable v
  · obtain ⟨h1, h2, h3⟩ := hv
    have e1 : k.isEmpty = false := by cases k <;> simp at h1 ⊢
    simp only [e1, (isPrintable_iff k).2 h2, (isPrintable_iff v).2 h3, Bool.not_false, Bool.and_self, if_true,
      Bool.not_true, Bool.false_or, cstr_printable k h2, cstr_printable v h3]
    rw [if_pos ⟨h1, h2, h3⟩]
    have hadd : (⟨es.length + 1, []⟩ : KvProps).add k v = ⟨es.length + 1, [(k, v)]⟩ := by
      unfold KvProps.add; simp
    rw [hadd, foldl_add (fun e => k != e.1) es _ (by simp only [List.length_cons, List.length_nil]; omega), filter_ne_comm]
    rfl
  · rw [if_neg hv]
    have hval : (!k.isEmpty && isPrintable k && isPrintable v) = false := by
      cases hb : (!k.isEmpty && isPrintable k && isPrintable v)
      · rfl
      · exfalso; apply hv
        simp only [Bool.and_eq_true, Bool.not_eq_true', isPrintable_iff] at hb
        refine ⟨?_, hb.1.2, hb.2⟩
        intro e; subst e; simp at hb
    simp only [hval, Bool.false_eq_true, if_false, Bool.not_false, Bool.true_or, if_true]
    have h := foldl_add (fun _ => true) es (⟨es.length + 1, []⟩ : KvProps) (by simp)
    have hf : es.filter (fun _ => true) = es := List.filter_eq_self.2 (fun _ _ => rfl)
    rw [hf] at h
    simpa using congrArg KvProps.entries h

theorem delete_eq (es : Entries) (k : Bytes) : delete es k = specDelete es k := by
  unfold delete specDelete
  rw [foldl_add (fun e => k != e.1) es _ (by simp), filter_ne_comm]
  rfl

/-- **Set replaces an existing key**: afterwards the key maps to the new value, occurs exactly once, and every entry
    of another key is where it was (same order) -/
theorem set_replaces (es : Entries) (k v : Bytes) (hk : k ≠ []) (hpk : Printable k) (hpv : Printable v) :
    get (set es k v) k = some v ∧
    (set es k v).filter (fun e => e.1 == k) = [(k, v)] ∧
    (set es k v).filter (fun e => e.1 != k) = es.filter (fun e => e.1 != k) := by
  rw [set_eq]
  unfold specSet
  rw [if_pos ⟨hk, hpk, hpv⟩]
  refine ⟨by simp [Baggage.get], ?_, ?_⟩
  · rw [List.filter_cons]
    simp only [beq_self_eq_true, if_true, List.filter_filter]
    have : es.filter (fun e => (e.1 == k && e.1 != k)) = [] := by
      rw [List.filter_eq_nil_iff]; intro e _; cases h : e.1 == k <;> simp [bne, h]
    simp [this]
  · rw [List.filter_cons]
    simp [List.filter_filter]

/-- an invalid key or value: the result is a copy of the baggage -/
theorem set_invalid_copy (es : Entries) (k v : Bytes) (h : ¬ (k ≠ [] ∧ Printable k ∧ Printable v)) : set es k v = es := by
  rw [set_eq]; unfold specSet; rw [if_neg h]

/-- **Delete removes the key** (every occurrence) and keeps every other entry where it was -/
theorem delete_removes (es : Entries) (k : Bytes) :
    get (delete es k) k = none ∧ (∀ e ∈ delete es k, e.1 ≠ k) ∧ delete es k = es.filter (fun e => e.1 != k) := by
  rw [delete_eq]
  unfold specDelete
  refine ⟨?_, ?_, rfl⟩
  · simp only [Baggage.get, Option.map_eq_none_iff, List.find?_eq_none, List.mem_filter]
    rintro e ⟨_, hne⟩ heq
    simp [bne, heq] at hne
  · intro e he
    simp only [List.mem_filter, bne_iff_ne, ne_eq] at he
    exact he.2

/-! ### neither changes the baggage it was called on: histories -/

/-- an operation names the (earlier) baggage it is applied to; its result is a **new** baggage appended to the family -/
inductive Op where
  | set (i : Nat) (k v : Bytes)
  | delete (i : Nat) (k : Bytes)
  | fromHeader (h : Bytes)
  deriving Repr

def step (st : List Entries) : Op → List Entries
  | .set i k v => st ++ [set (st.getD i []) k v]
  | .delete i k => st ++ [delete (st.getD i []) k]
  | .fromHeader h => st ++ [match fromHeader h with | .ok e => e | .fault _ => []]

def run (ops : List Op) : List Entries := ops.foldl step [[]]

/-- **Set and Delete are pure**: after any further history every baggage that existed before still has exactly the
    entries it had (in the C++ this is what the harness re-reads after every operation) -/
theorem set_delete_pure (ops more : List Op) (i : Nat) (hi : i < (run ops).length) :
    (run (ops ++ more))[i]? = (run ops)[i]? := by
  unfold run at hi ⊢
  rw [List.foldl_append]
  generalize List.foldl step [[]] ops = st at hi ⊢
  revert hi
  induction more generalizing st with
  | nil => intro _; rfl
  | cons op t ih =>
    intro hi
    simp only [List.foldl_cons]
    have hst : ∃ x, step st op = st ++ [x] := by cases op <;> exact ⟨_, rfl⟩
    obtain ⟨x, hx⟩ := hst
    rw [ih (step st op) (by rw [hx]; simp; omega), hx, List.getElem?_append_left hi]

/-! ## FromHeader: exactly the valid members, within the limits -/

/-- value part and metadata (from the first `;` on, verbatim) -/
def metaSplit (v : Bytes) : Bytes × Bytes :=
  match takeTok 59 v with
  | (a, none) => (a, [])
  | (a, some r) => (a, 59 :: r)

theorem splitMeta_eq (v : Bytes) : splitMeta v = metaSplit v := by
  obtain ⟨_, _, _, _, _, g6, _⟩ := gen_baggage
  unfold splitMeta metaSplit
  rw [g6]
  cases takeTok 59 v with
  | mk a o => cases o <;> rfl

/-- **what one list member contributes**, read off the property text: it must have a `=`; key and value together at
    most 4096 bytes; the value is cut at the first `;` (the rest is metadata, kept verbatim); key and value part are
    trimmed and strictly percent-decoded; the decoded key must be non-empty printable, the decoded value printable.
    (`cstr`: the entry is stored as a C string, so what is seen of it ends at a NUL byte — only metadata can hold one.) -/
def memberEntry (m : Bytes) : Option (Bytes × Bytes) :=
  match splitKv 61 m with
  | none => none
  | some (k, v) =>
    if k.length + v.length > 4096 then none
    else
      match pctDecode (trim k), pctDecode (trim (metaSplit v).1) with
      | some ks, some vs =>
        if ks ≠ [] ∧ Printable ks ∧ Printable vs then some (cstr ks, cstr (vs ++ (metaSplit v).2)) else none
      | _, _ => none

theorem validKV_iff (ks vs : Bytes) : (isValidKey ks && isValidValue vs) = true ↔ (ks ≠ [] ∧ Printable ks ∧ Printable vs) := by
  unfold isValidKey isValidValue
  simp only [Bool.and_eq_true, Bool.not_eq_true', isPrintable_iff]
  constructor
  · rintro ⟨⟨h1, h2⟩, h3⟩
    refine ⟨?_, h2, h3⟩
    intro e; subst e; simp at h1
  · rintro ⟨h1, h2, h3⟩
    refine ⟨⟨?_, h2⟩, h3⟩
    cases ks <;> simp at h1 ⊢

/-- the loop body never faults (both `Trim`s and both `UrlDecode`s stay inside their strings) and computes `memberEntry` -/
theorem parseKv_eq (m : Bytes) : parseKv (splitKv 61 m) = .ok (memberEntry m) := by
  obtain ⟨_, g2, _, _⟩ := gen_baggage
  unfold parseKv memberEntry
  rw [g2]
  cases splitKv 61 m with
  | none => rfl
  | some p =>
    obtain ⟨k, v⟩ := p
    simp only []
    by_cases hl : k.length + v.length > 4096
    · rw [if_pos hl, if_pos hl]
    · rw [if_neg hl, if_neg hl, KvIdx.trim1_spec, IxRes.bind_ok, urlDecode_eq, IxRes.bind_ok, KvIdx.trim1_spec, IxRes.bind_ok,
        urlDecode_eq, IxRes.bind_ok, splitMeta_eq]
      cases pctDecode (trim k) with
      | none => rfl
      | some ks =>
        cases pctDecode (trim (metaSplit v).1) with
        | none => rfl
        | some vs =>
          simp only []
          by_cases hv : ks ≠ [] ∧ Printable ks ∧ Printable vs
          · rw [if_pos ((validKV_iff ks vs).2 hv), if_pos hv]
          · have : ¬ (isValidKey ks && isValidValue vs) = true := fun h => hv ((validKV_iff ks vs).1 h)
            rw [if_neg this, if_neg hv]

theorem fromHeaderLoop_eq (cnt : Nat) : ∀ (ms : List Bytes) (p : KvProps), p.cap = cnt → p.entries.length ≤ cnt →
    fromHeaderLoop cnt (ms.map (splitKv 61)) p = .ok ⟨cnt, (p.entries ++ ms.filterMap memberEntry).take cnt⟩
  | [], p, hc, hl => by
    simp only [List.map_nil, fromHeaderLoop, List.filterMap_nil, List.append_nil]
    rw [List.take_of_length_le hl, ← hc]
  | m :: ms, p, hc, hl => by
    simp only [List.map_cons, fromHeaderLoop]
    by_cases hlt : p.entries.length < cnt
    · rw [if_pos hlt, parseKv_eq, IxRes.bind_ok]
      cases hm : memberEntry m with
      | none =>
        simp only []
        rw [fromHeaderLoop_eq cnt ms p hc hl, List.filterMap_cons, hm]
      | some e =>
        obtain ⟨k, v⟩ := e
        have hadd : p.add k v = ⟨cnt, p.entries ++ [(k, v)]⟩ := by
          unfold KvProps.add; rw [if_pos (by rw [hc]; exact hlt), hc]
        simp only []
        rw [hadd, fromHeaderLoop_eq cnt ms _ rfl (by simp; omega), List.filterMap_cons, hm]
        simp
    · rw [if_neg hlt]
      have heq : p.entries.length = cnt := by omega
      have : (p.entries ++ (m :: ms).filterMap memberEntry).take cnt = p.entries := by
        rw [← heq]; exact List.take_left' rfl
      rw [this, ← hc]

/-- **`FromHeader`, exactly**: never a fault — the tokenizer, both `Trim`s and both `UrlDecode`s never read outside
    their strings and no `size_t` expression wraps; an over-long header gives the empty baggage; otherwise the entries are
    the contributions of the trimmed non-empty `,`-separated members, in order, cut off after
    min(number of `,`-separated tokens, 180) entries -/
theorem fromHeader_eq (h : Bytes) : fromHeader h =
    .ok (if h.length > 8192 then [] else ((members 44 h).filterMap memberEntry).take (min (numTok 44 h) 180)) := by
  obtain ⟨g1, _, g3, _, g5, _⟩ := gen_baggage
  unfold fromHeader
  rw [g1, g3, g5]
  by_cases hl : h.length > 8192
  · rw [if_pos hl, if_pos hl]
  · rw [if_neg hl, if_neg hl]
    have hmin : (if numTok 44 h > 180 then 180 else numTok 44 h) = min (numTok 44 h) 180 := by
      split <;> omega
    obtain ⟨_, _, _, g4, _⟩ := gen_baggage
    simp only []
    rw [hmin, g4, KvIdx.tokens_eq, IxRes.bind_ok,
      fromHeaderLoop_eq (min (numTok 44 h) 180) (members 44 h) ⟨min (numTok 44 h) 180, []⟩ rfl (by simp)]
    simp

theorem fromHeader_never_oob (h : Bytes) : ∃ r, fromHeader h = .ok r := ⟨_, fromHeader_eq h⟩

/-- the entries `FromHeader` yields, as a total function (justified by `fromHeader_eq`) -/
def parsed (h : Bytes) : Entries :=
  if h.length > 8192 then [] else ((members 44 h).filterMap memberEntry).take (min (numTok 44 h) 180)

/-- **the three limits**: a header of more than 8192 bytes yields nothing; never more than 180 entries; a member whose
    key and value together exceed 4096 bytes contributes nothing -/
theorem fromHeader_limits (h : Bytes) :
    (h.length > 8192 → fromHeader h = .ok []) ∧
    (∀ es, fromHeader h = .ok es → es.length ≤ 180) ∧
    (∀ m k v, splitKv 61 m = some (k, v) → k.length + v.length > 4096 → memberEntry m = none) := by
  refine ⟨?_, ?_, ?_⟩
  · intro hl; rw [fromHeader_eq, if_pos hl]
  · intro es he
    rw [fromHeader_eq] at he
    simp only [IxRes.ok.injEq] at he
    rw [← he]
    split
    · simp
    · rw [List.length_take]; omega
  · intro m k v hs hl
    unfold memberEntry
    rw [hs]
    simp only []
    rw [if_pos hl]

/-- **only valid members are kept**: every entry of the result is the contribution of some list member of the header —
    a member with a `=`, within 4096 bytes, whose trimmed key and value part decode strictly to a non-empty printable
    key and a printable value; the entry is that key and that value followed by the member's metadata -/
theorem fromHeader_only_valid (h : Bytes) (es : Entries) (he : fromHeader h = .ok es) :
    ∀ e ∈ es, ∃ m ∈ members 44 h, ∃ k v ks vs, splitKv 61 m = some (k, v) ∧ k.length + v.length ≤ 4096 ∧
      pctDecode (trim k) = some ks ∧ pctDecode (trim (metaSplit v).1) = some vs ∧
      ks ≠ [] ∧ Printable ks ∧ Printable vs ∧ e = (cstr ks, cstr (vs ++ (metaSplit v).2)) := by
  rw [fromHeader_eq] at he
  simp only [IxRes.ok.injEq] at he
  intro e hmem
  rw [← he] at hmem
  split at hmem
  · simp at hmem
  · have hmem' := List.mem_of_mem_take hmem
    rw [List.mem_filterMap] at hmem'
    obtain ⟨m, hm, hme⟩ := hmem'
    refine ⟨m, hm, ?_⟩
    unfold memberEntry at hme
    cases hs : splitKv 61 m with
    | none => rw [hs] at hme; simp at hme
    | some p =>
      obtain ⟨k, v⟩ := p
      rw [hs] at hme
      simp only [] at hme
      by_cases hl : k.length + v.length > 4096
      · rw [if_pos hl] at hme; simp at hme
      · rw [if_neg hl] at hme
        cases hk : pctDecode (trim k) with
        | none => rw [hk] at hme; simp at hme
        | some ks =>
          cases hv : pctDecode (trim (metaSplit v).1) with
          | none => rw [hk, hv] at hme; simp at hme
          | some vs =>
            rw [hk, hv] at hme
            simp only [] at hme
            by_cases hval : ks ≠ [] ∧ Printable ks ∧ Printable vs
            · rw [if_pos hval] at hme
              simp only [Option.some.injEq] at hme
              exact ⟨k, v, ks, vs, rfl, by omega, hk, hv, hval.1, hval.2.1, hval.2.2, hme.symm⟩
            · rw [if_neg hval] at hme; simp at hme

/-! ## Round trip: `FromHeader (ToHeader b) = b` -/

/-- does a metadata part end in white space (which the tokenizer would trim away)? -/
def endsInSpace (m : Bytes) : Bool :=
  match m.getLast? with
  | some c => isSpace c
  | none => false

/-- **An entry that must survive the round trip** (explicit, decidable): non-empty printable key, printable value;
    after the first `;` of the value (the metadata, written verbatim) no `,` — "values without an unescaped separator
    after `;`" — and **no trailing white space** (D18: the tokenizer trims every list member, as the W3C grammar's
    optional white space allows); and the written member is within the 4096-byte member limit. -/
def RoundTrippableEntry (e : Bytes × Bytes) : Prop :=
  e.1 ≠ [] ∧ Printable e.1 ∧ Printable e.2 ∧ 44 ∉ (metaSplit e.2).2 ∧ endsInSpace (metaSplit e.2).2 = false ∧
  (pctEncode e.1).length + (pctEncode (metaSplit e.2).1 ++ (metaSplit e.2).2).length ≤ 4096

/-- … and the whole baggage is within the 180-member and 8192-byte header limits -/
def RoundTrippable (es : Entries) : Prop :=
  (∀ e ∈ es, RoundTrippableEntry e) ∧ es.length ≤ 180 ∧ (toHeader es).length ≤ 8192

instance (e : Bytes × Bytes) : Decidable (RoundTrippableEntry e) := by unfold RoundTrippableEntry; exact inferInstance
instance (es : Entries) : Decidable (RoundTrippable es) := by unfold RoundTrippable; exact inferInstance

def NoSpace (s : Bytes) : Prop := ∀ c ∈ s, isSpace c = false

theorem pctEncode_clean (s : Bytes) : ∀ x ∈ pctEncode s, x ≠ 44 ∧ x ≠ 61 ∧ x ≠ 59 ∧ x ≠ 0 ∧ isSpace x = false := by
  intro x hx
  unfold pctEncode at hx
  rw [List.mem_flatMap] at hx
  obtain ⟨c, _, hc⟩ := hx
  exact pctEncodeByte_clean c x hc

theorem pctEncode_ne_nil (s : Bytes) (h : s ≠ []) : pctEncode s ≠ [] := by
  cases s with
  | nil => exact absurd rfl h
  | cons c t =>
    have hne := pctEncodeByte_ne_nil c
    intro he
    have : pctEncode (c :: t) = pctEncodeByte c ++ pctEncode t := by simp [pctEncode, List.flatMap_cons]
    rw [this] at he
    exact hne (List.append_eq_nil_iff.1 he).1

theorem trimLeft_id (s : Bytes) (h : ∀ c, s.head? = some c → isSpace c = false) : trimLeft s = s := by
  cases s with
  | nil => rfl
  | cons c t => exact trimLeft_of_head (h c rfl)

/-- a string that neither starts nor ends with white space is left alone by `Trim` -/
theorem trim_id (s : Bytes) (h1 : ∀ c, s.head? = some c → isSpace c = false)
    (h2 : ∀ c, s.getLast? = some c → isSpace c = false) : trim s = s := by
  unfold trim trimRight
  rw [trimLeft_id s h1, trimLeft_id s.reverse (by rw [List.head?_reverse]; exact h2), List.reverse_reverse]

theorem trim_nospace (s : Bytes) (h : NoSpace s) : trim s = s :=
  trim_id s (fun c hc => h c (List.mem_of_head? hc)) (fun c hc => h c (List.mem_of_getLast? hc))

theorem metaSplit_join (v : Bytes) : (metaSplit v).1 ++ (metaSplit v).2 = v := by
  unfold metaSplit
  cases h : takeTok 59 v with
  | mk a o =>
    cases o with
    | none => simp [(takeTok_none h).1]
    | some r => simp [(takeTok_some h).1]

theorem metaSplit_shape (v : Bytes) : 59 ∉ (metaSplit v).1 ∧ ((metaSplit v).2 = [] ∨ ∃ r, (metaSplit v).2 = 59 :: r) := by
  unfold metaSplit
  cases h : takeTok 59 v with
  | mk a o =>
    cases o with
    | none => exact ⟨(takeTok_none h).2, Or.inl rfl⟩
    | some r => exact ⟨(takeTok_some h).2, Or.inr ⟨r, rfl⟩⟩

/-- splitting an encoded value part followed by metadata gives them back -/
theorem metaSplit_encoded (a m : Bytes) (hm : m = [] ∨ ∃ r, m = 59 :: r) : metaSplit (pctEncode a ++ m) = (pctEncode a, m) := by
  have h59 : (59 : UInt8) ∉ pctEncode a := fun hx => (pctEncode_clean a 59 hx).2.2.1 rfl
  unfold metaSplit
  rcases hm with hm | ⟨r, hm⟩
  · subst hm; rw [List.append_nil, takeTok_no_sep _ h59]
  · subst hm; rw [takeTok_append_sep _ _ h59]

theorem printable_append {a b : Bytes} (h : Printable (a ++ b)) : Printable a ∧ Printable b :=
  ⟨fun c hc => h c (by simp [hc]), fun c hc => h c (by simp [hc])⟩

/-- what `ToHeader` writes for one entry, in specification terms -/
theorem memberOf_spec (e : Bytes × Bytes) :
    memberOf e = pctEncode e.1 ++ 61 :: (pctEncode (metaSplit e.2).1 ++ (metaSplit e.2).2) := by
  obtain ⟨_, _, _, g4, _⟩ := gen_baggage
  unfold memberOf encodeValue
  simp only [g4, urlEncode_spec, splitMeta_eq]
  simp

/-- **what `ToHeader` writes**: the members `pct(key)=pct(value part)metadata`, joined by `,` — the metadata verbatim -/
theorem toHeader_spec (es : Entries) :
    toHeader es = joinMembers (es.map fun e => pctEncode e.1 ++ 61 :: (pctEncode (metaSplit e.2).1 ++ (metaSplit e.2).2)) := by
  unfold toHeader
  congr 1
  exact List.map_congr_left (fun e _ => memberOf_spec e)

/-- **one member round-trips**: the written member has no `,`, is not empty, is untouched by trimming, and
    contributes exactly the entry it was written from -/
theorem member_roundtrip (e : Bytes × Bytes) (h : RoundTrippableEntry e) :
    44 ∉ memberOf e ∧ memberOf e ≠ [] ∧ trim (memberOf e) = memberOf e ∧ memberEntry (memberOf e) = some e := by
  obtain ⟨k, v⟩ := e
  obtain ⟨hk, hpk, hpv, hcomma, hend, hsize⟩ := h
  simp only [] at hk hpk hpv hcomma hend hsize
  obtain ⟨h59, hshape⟩ := metaSplit_shape v
  have hjoin := metaSplit_join v
  generalize hA : (metaSplit v).1 = a at *
  generalize hM : (metaSplit v).2 = m at *
  have hm : memberOf (k, v) = pctEncode k ++ 61 :: (pctEncode a ++ m) := by rw [memberOf_spec]; simp only [hA, hM]
  have ck := pctEncode_clean k
  have ca := pctEncode_clean a
  have hne : pctEncode k ≠ [] := pctEncode_ne_nil k hk
  have hpa : Printable a ∧ Printable m := printable_append (by rw [hjoin]; exact hpv)
  -- every byte of the encoded part is free of white space
  have hpre : NoSpace (pctEncode k ++ 61 :: pctEncode a) := by
    intro c hc
    simp only [List.mem_append, List.mem_cons] at hc
    rcases hc with hc | hc | hc
    · exact (ck c hc).2.2.2.2
    · subst hc; decide
    · exact (ca c hc).2.2.2.2
  refine ⟨?_, ?_, ?_, ?_⟩
  · rw [hm]
    simp only [List.mem_append, List.mem_cons, not_or]
    exact ⟨fun hx => (ck 44 hx).1 rfl, by decide, fun hx => (ca 44 hx).1 rfl, hcomma⟩
  · rw [hm]; simp
  · rw [hm]
    apply trim_id
    · intro c hc
      obtain ⟨x, t, hxt⟩ := List.exists_cons_of_ne_nil hne
      rw [hxt] at hc
      simp only [List.cons_append, List.head?_cons, Option.some.injEq] at hc
      subst hc
      exact (ck x (by rw [hxt]; simp)).2.2.2.2
    · intro c hc
      by_cases hmn : m = []
      · subst hmn
        rw [List.append_nil] at hc
        exact hpre c (List.mem_of_getLast? hc)
      · have : (pctEncode k ++ 61 :: (pctEncode a ++ m)).getLast? = m.getLast? := by
          have e1 : pctEncode k ++ 61 :: (pctEncode a ++ m) = (pctEncode k ++ 61 :: pctEncode a) ++ m := by simp
          rw [e1, List.getLast?_append]
          obtain ⟨x, t, hxt⟩ := List.exists_cons_of_ne_nil hmn
          cases hl : m.getLast? with
          | none => rw [hxt] at hl; simp at hl
          | some y => simp
        rw [this] at hc
        unfold endsInSpace at hend
        rw [hc] at hend
        exact hend
  · rw [hm]
    unfold memberEntry splitKv
    have h61 : (61 : UInt8) ∉ pctEncode k := fun hx => (ck 61 hx).2.1 rfl
    rw [takeTok_append_sep _ _ h61]
    simp only []
    rw [if_neg (by omega), metaSplit_encoded a m hshape]
    simp only []
    rw [trim_nospace (pctEncode k) (fun c hc => (ck c hc).2.2.2.2), trim_nospace (pctEncode a) (fun c hc => (ca c hc).2.2.2.2),
      pctDecode_pctEncode, pctDecode_pctEncode]
    simp only []
    rw [if_pos ⟨hk, hpk, hpa.1⟩, cstr_printable k hpk, hjoin, cstr_printable v hpv]

/-! ### the tokenizer on a written header -/

theorem joinMembers_cons2 (m m' : Bytes) (t : List Bytes) : joinMembers (m :: m' :: t) = m ++ 44 :: joinMembers (m' :: t) := by
  obtain ⟨_, _, _, _, g5, _⟩ := gen_baggage
  simp [joinMembers, g5]

def GoodMember (m : Bytes) : Prop := 44 ∉ m ∧ m ≠ [] ∧ trim m = m

theorem kvMembers_join : ∀ (ms : List Bytes) (fuel : Nat), (∀ m ∈ ms, GoodMember m) → (joinMembers ms).length ≤ fuel →
    kvMembers 44 fuel (joinMembers ms) = ms
  | [], fuel, _, _ => by cases fuel <;> simp [joinMembers, kvMembers]
  | [m], fuel, hg, hf => by
    obtain ⟨h1, h2, h3⟩ := hg m (by simp)
    obtain ⟨c, t, rfl⟩ := List.exists_cons_of_ne_nil h2
    simp only [joinMembers] at hf ⊢
    cases fuel with
    | zero => simp at hf
    | succ f =>
      simp only [kvMembers, takeTok_no_sep _ h1, h3]
      simp
  | m :: m' :: t, fuel, hg, hf => by
    obtain ⟨h1, h2, h3⟩ := hg m (by simp)
    obtain ⟨c, t', rfl⟩ := List.exists_cons_of_ne_nil h2
    rw [joinMembers_cons2] at hf ⊢
    cases fuel with
    | zero => simp at hf
    | succ f =>
      simp only [List.cons_append, kvMembers]
      rw [← List.cons_append, takeTok_append_sep _ _ h1]
      simp only [h3]
      rw [kvMembers_join (m' :: t) f (fun x hx => hg x (by simp [hx])) (by simp at hf ⊢; omega)]
      simp

theorem numTokens_join : ∀ (ms : List Bytes) (fuel : Nat), (∀ m ∈ ms, GoodMember m) → (joinMembers ms).length ≤ fuel →
    numTokens 44 fuel (joinMembers ms) = ms.length
  | [], fuel, _, _ => by cases fuel <;> simp [joinMembers, numTokens]
  | [m], fuel, hg, hf => by
    obtain ⟨h1, h2, h3⟩ := hg m (by simp)
    obtain ⟨c, t, rfl⟩ := List.exists_cons_of_ne_nil h2
    simp only [joinMembers] at hf ⊢
    cases fuel with
    | zero => simp at hf
    | succ f => simp only [numTokens, takeTok_no_sep _ h1]; simp
  | m :: m' :: t, fuel, hg, hf => by
    obtain ⟨h1, h2, h3⟩ := hg m (by simp)
    obtain ⟨c, t', rfl⟩ := List.exists_cons_of_ne_nil h2
    rw [joinMembers_cons2] at hf ⊢
    cases fuel with
    | zero => simp at hf
    | succ f =>
      simp only [List.cons_append, numTokens]
      rw [← List.cons_append, takeTok_append_sep _ _ h1]
      simp only []
      rw [numTokens_join (m' :: t) f (fun x hx => hg x (by simp [hx])) (by simp at hf ⊢; omega)]
      simp; omega

theorem filterMap_memberOf : ∀ (es : Entries), (∀ e ∈ es, RoundTrippableEntry e) → (es.map memberOf).filterMap memberEntry = es
  | [], _ => rfl
  | e :: t, h => by
    rw [List.map_cons, List.filterMap_cons, (member_roundtrip e (h e (by simp))).2.2.2,
      filterMap_memberOf t (fun x hx => h x (by simp [hx]))]

/-- **Round trip**: every baggage whose entries are `RoundTrippable` is written by `ToHeader` as a header from which
    `FromHeader` rebuilds exactly the same entries in the same order -/
theorem fromHeader_toHeader (es : Entries) (h : RoundTrippable es) : fromHeader (toHeader es) = .ok es := by
  obtain ⟨he, hn, hsz⟩ := h
  have hg : ∀ m ∈ es.map memberOf, GoodMember m := by
    intro m hm
    rw [List.mem_map] at hm
    obtain ⟨e, hem, rfl⟩ := hm
    obtain ⟨a, b, c, _⟩ := member_roundtrip e (he e hem)
    exact ⟨a, b, c⟩
  rw [fromHeader_eq, if_neg (by omega)]
  unfold toHeader members numTok
  rw [kvMembers_join _ _ hg (Nat.le_refl _), numTokens_join _ _ hg (Nat.le_refl _), filterMap_memberOf es he,
    List.length_map, List.take_of_length_le (by omega)]

/-- entries put in by `Set` stay `RoundTrippable` entries: **every baggage built through Set** (and Delete) **from
    `RoundTrippable` entries** consists of such entries … -/
theorem built_entries (ops : List Op) (hops : ∀ op ∈ ops, match op with
      | .set _ k v => RoundTrippableEntry (k, v)
      | .delete _ _ => True
      | .fromHeader _ => False) :
    ∀ st ∈ run ops, ∀ e ∈ st, RoundTrippableEntry e := by
  unfold run
  have key : ∀ (more : List Op) (st0 : List Entries),
      (∀ op ∈ more, match op with | .set _ k v => RoundTrippableEntry (k, v) | .delete _ _ => True | .fromHeader _ => False) →
      (∀ st ∈ st0, ∀ e ∈ st, RoundTrippableEntry e) → ∀ st ∈ more.foldl step st0, ∀ e ∈ st, RoundTrippableEntry e := by
    intro more
    induction more with
    | nil => intro st0 _ h; exact h
    | cons op t ih =>
      intro st0 hop h
      simp only [List.foldl_cons]
      apply ih (step st0 op) (fun o ho => hop o (by simp [ho]))
      have hbase : ∀ e ∈ st0.getD 0 [] , RoundTrippableEntry e := by
        intro e he
        cases hs : st0 with
        | nil => rw [hs] at he; simp at he
        | cons s0 _ => rw [hs] at he; simp at he; exact h s0 (by rw [hs]; simp) e he
      have hget : ∀ i, ∀ e ∈ st0.getD i [], RoundTrippableEntry e := by
        intro i e he
        by_cases hi : i < st0.length
        · rw [List.getD_eq_getElem?_getD, List.getElem?_eq_getElem hi] at he
          exact h _ (List.getElem_mem hi) e he
        · rw [List.getD_eq_getElem?_getD, List.getElem?_eq_none (by omega)] at he
          simp at he
      have hop0 := hop op (by simp)
      intro st hst e he
      cases op with
      | set i k v =>
        simp only [step, List.mem_append, List.mem_singleton] at hst
        rcases hst with hst | hst
        · exact h st hst e he
        · subst hst
          rw [set_eq] at he
          unfold specSet at he
          split at he
          · simp only [List.mem_cons, List.mem_filter] at he
            rcases he with he | he
            · subst he; exact hop0
            · exact hget i e he.1
          · exact hget i e he
      | delete i k =>
        simp only [step, List.mem_append, List.mem_singleton] at hst
        rcases hst with hst | hst
        · exact h st hst e he
        · subst hst
          rw [delete_eq] at he
          unfold specDelete at he
          simp only [List.mem_filter] at he
          exact hget i e he.1
      | fromHeader hh => exact absurd hop0 (by simp)
  exact key ops [[]] hops (by simp)

/-- … and therefore round-trips, as long as it stays within the 180-member / 8192-byte limits -/
theorem fromHeader_toHeader_built (ops : List Op) (hops : ∀ op ∈ ops, match op with
      | .set _ k v => RoundTrippableEntry (k, v)
      | .delete _ _ => True
      | .fromHeader _ => False)
    (st : Entries) (hst : st ∈ run ops) (hn : st.length ≤ 180) (hsz : (toHeader st).length ≤ 8192) :
    fromHeader (toHeader st) = .ok st :=
  fromHeader_toHeader st ⟨built_entries ops hops st hst, hn, hsz⟩

/-! ### D18 — the excluded point, in the model: trailing white space of the metadata does not survive -/

/-- `k=v;m␠` is written as `k=v;m␠` and parsed back as `k=v;m`: the hypothesis "metadata does not end in white space"
    of `fromHeader_toHeader` cannot be dropped (the W3C grammar allows optional white space around list members, so
    the trimming is conformant; it only is not "verbatim") -/
theorem fromHeader_toHeader_trailing_space_witness :
    toHeader [([107], [118, 59, 109, 32])] = [107, 61, 118, 59, 109, 32] ∧
    fromHeader (toHeader [([107], [118, 59, 109, 32])]) = .ok [([107], [118, 59, 109])] ∧
    ¬ RoundTrippableEntry ([107], [118, 59, 109, 32]) := by decide +kernel

/-- likewise an unescaped `,` after `;` splits the member (outside the property's quantifier) -/
theorem fromHeader_toHeader_comma_in_metadata_witness :
    fromHeader (toHeader [([107], [118, 59, 109, 44, 120])]) = .ok [([107], [118, 59, 109])] ∧
    ¬ RoundTrippableEntry ([107], [118, 59, 109, 44, 120]) := by decide +kernel

/-! ## The propagators -/
open Otel.Propagation

theorem toHeader_eq_nil_iff (es : Entries) : toHeader es = [] ↔ es = [] := by
  constructor
  · intro h
    cases es with
    | nil => rfl
    | cons e t =>
      exfalso
      have hm : memberOf e ≠ [] := by unfold memberOf; simp
      unfold toHeader at h
      cases t with
      | nil => simp [joinMembers] at h; exact hm h
      | cons e' t' =>
        simp only [List.map_cons] at h
        rw [joinMembers_cons2] at h
        simp at h
  · intro h; subst h; rfl

/-- `BaggagePropagator::Extract`, exactly: the parsed baggage is installed iff it has at least one entry -/
theorem baggage_extract_eq (car : Carrier) (ctx : PCtx) :
    Propagation.baggage.extract car (.ok ctx) =
      .ok (if parsed (car.get [98, 97, 103, 103, 97, 103, 101]) = [] then ctx
           else { ctx with baggage := some (parsed (car.get [98, 97, 103, 103, 97, 103, 101])) }) := by
  obtain ⟨_, _, _, _, _, _, _, _, _, _, _, _, _, _, g15⟩ := gen_baggage
  unfold Propagation.baggage
  simp only [IxRes.bind_ok, g15]
  rw [fromHeader_eq, IxRes.bind_ok]
  unfold parsed
  generalize (if (car.get [98, 97, 103, 103, 97, 103, 101]).length > 8192 then ([] : Entries) else _) = es
  by_cases he : es = []
  · subst he; simp [toHeader, joinMembers]
  · have : ¬ (toHeader es).isEmpty = true := by
      intro h
      apply he
      apply (toHeader_eq_nil_iff es).1
      simpa using h
    rw [if_neg this, if_neg he]

/-- **Extraction leaves the context untouched when nothing valid remains**: whatever bytes the `baggage` header holds
    (absent, junk, only invalid or oversize members, an over-long header), if no valid member remains the caller's
    context is returned as it is -/
theorem extract_empty_leaves_context (car : Carrier) (ctx : PCtx)
    (h : fromHeader (car.get [98, 97, 103, 103, 97, 103, 101]) = .ok []) :
    Propagation.baggage.extract car (.ok ctx) = .ok ctx := by
  rw [baggage_extract_eq]
  rw [fromHeader_eq] at h
  simp only [IxRes.ok.injEq] at h
  unfold parsed
  rw [h, if_pos rfl]

/-- … and otherwise only the baggage slot changes (the span and every other binding stay) -/
theorem extract_installs_parsed (car : Carrier) (ctx : PCtx) (es : Entries) (hne : es ≠ [])
    (h : fromHeader (car.get [98, 97, 103, 103, 97, 103, 101]) = .ok es) :
    Propagation.baggage.extract car (.ok ctx) = .ok { ctx with baggage := some es } := by
  rw [baggage_extract_eq]
  rw [fromHeader_eq] at h
  simp only [IxRes.ok.injEq] at h
  unfold parsed
  rw [h, if_neg hne]

/-- the propagator writes the header of the context's baggage, and only when there is something to write -/
theorem baggage_inject_eq (car : Carrier) (ctx : PCtx) :
    Propagation.baggage.inject car (.ok ctx) =
      if ctx.baggage.getD [] = [] then car else car.set [98, 97, 103, 103, 97, 103, 101] (toHeader (ctx.baggage.getD [])) := by
  obtain ⟨_, _, _, _, _, _, _, _, _, _, _, _, _, _, g15⟩ := gen_baggage
  unfold Propagation.baggage
  simp only [g15]
  by_cases he : ctx.baggage.getD [] = []
  · rw [he]; simp [toHeader, joinMembers]
  · have : ¬ (toHeader (ctx.baggage.getD [])).isEmpty = true := by
      intro h
      apply he
      apply (toHeader_eq_nil_iff _).1
      simpa using h
    rw [if_neg this, if_neg he]

/-- **propagator round trip**: a context whose baggage is `RoundTrippable` and non-empty is injected as a `baggage`
    header from which extraction into any context installs exactly that baggage -/
theorem baggage_propagator_roundtrip (ctx ctx' : PCtx) (es : Entries) (hb : ctx.baggage = some es) (hne : es ≠ [])
    (hr : RoundTrippable es) :
    Propagation.baggage.extract (Propagation.baggage.inject [] (.ok ctx)) (.ok ctx') = .ok { ctx' with baggage := some es } := by
  rw [baggage_inject_eq]
  have : ctx.baggage.getD [] = es := by rw [hb]; rfl
  rw [this, if_neg hne]
  apply extract_installs_parsed _ _ _ hne
  have : Carrier.get (Carrier.set [] [98, 97, 103, 103, 97, 103, 101] (toHeader es)) [98, 97, 103, 103, 97, 103, 101] = toHeader es := by
    simp [Carrier.get, Carrier.set]
  rw [this]
  exact fromHeader_toHeader es hr

/-! ### Composite propagator -/

/-- **Inject applies every configured propagator, in order, to the same context** -/
theorem composite_inject_eq_foldl {Ctx Car : Type} (empty : Ctx) (ps : List (Propagator Ctx Car)) (car : Car) (ctx : Ctx) :
    (composite empty ps).inject car ctx = ps.foldl (fun c p => p.inject c ctx) car := by
  show compositeInjectLoop ctx ps car = _
  induction ps generalizing car with
  | nil => rfl
  | cons p t ih => simp only [compositeInjectLoop, List.foldl_cons]; exact ih _

theorem compositeExtractLoop_not_first {Ctx Car : Type} (car : Car) (ctx : Ctx) :
    ∀ (ps : List (Propagator Ctx Car)) (tmp : Ctx),
      compositeExtractLoop car ctx ps false tmp = ps.foldl (fun c p => p.extract car c) tmp
  | [], _ => rfl
  | p :: t, tmp => by
    simp only [compositeExtractLoop, List.foldl_cons]
    exact compositeExtractLoop_not_first car ctx t _

/-- **Extract threads the context through all configured propagators in order**: the first one extracts into the
    caller's context, each later one into the result of its predecessor (the `first` flag and the default-constructed
    `tmp_context` of the C++ never show) -/
theorem composite_extract_eq_foldl {Ctx Car : Type} (empty : Ctx) (ps : List (Propagator Ctx Car)) (car : Car) (ctx : Ctx) :
    (composite empty ps).extract car ctx = ps.foldl (fun c p => p.extract car c) ctx := by
  show (if ps.length ≠ 0 then compositeExtractLoop car ctx ps true empty else ctx) = _
  cases ps with
  | nil => rfl
  | cons p t =>
    have hne : (p :: t).length ≠ 0 := by simp
    rw [if_pos hne]
    simp only [compositeExtractLoop, if_true, List.foldl_cons]
    exact compositeExtractLoop_not_first car ctx t _

/-- **the empty composite is the identity**: nothing is written, the caller's context comes back -/
theorem composite_empty_identity {Ctx Car : Type} (empty : Ctx) (car : Car) (ctx : Ctx) :
    (composite empty ([] : List (Propagator Ctx Car))).inject car ctx = car ∧
    (composite empty ([] : List (Propagator Ctx Car))).extract car ctx = ctx := ⟨rfl, rfl⟩

/-- a composite of composites is the composite of the concatenation (both directions are folds) -/
theorem composite_append {Ctx Car : Type} (empty : Ctx) (ps qs : List (Propagator Ctx Car)) (car : Car) (ctx : Ctx) :
    (composite empty (ps ++ qs)).inject car ctx = (composite empty qs).inject ((composite empty ps).inject car ctx) ctx ∧
    (composite empty (ps ++ qs)).extract car ctx = (composite empty qs).extract car ((composite empty ps).extract car ctx) := by
  simp only [composite_inject_eq_foldl, composite_extract_eq_foldl, List.foldl_append, and_self]

/-! ### the composite of built-in propagators never faults -/

/-- the five built-in propagators -/
def Builtin (p : Propagator RCtx Carrier) : Prop :=
  p = w3c ∨ p = b3Single ∨ p = b3Multi ∨ p = jaeger ∨ p = Propagation.baggage

theorem withSpan_ok (ctx : PCtx) (f : PCtx → IxRes (Option TraceContext.SpanCtx)) (o : Option TraceContext.SpanCtx)
    (h : f ctx = .ok o) : ∃ ctx', withSpan (.ok ctx) f = .ok ctx' ∧ ctx'.baggage = ctx.baggage := by
  unfold withSpan
  rw [IxRes.bind_ok, h, IxRes.bind_ok]
  cases o with
  | none => exact ⟨ctx, rfl, rfl⟩
  | some sc => exact ⟨_, rfl, rfl⟩

/-- every built-in extractor, on every carrier and context, returns a context (no fault token) -/
theorem builtin_extract_ok (p : Propagator RCtx Carrier) (hp : Builtin p) (car : Carrier) (ctx : PCtx) :
    ∃ ctx', p.extract car (.ok ctx) = .ok ctx' := by
  rcases hp with h | h | h | h | h <;> subst h
  · obtain ⟨c, hc, _⟩ := withSpan_ok ctx (fun _ => .ok (TraceContext.extract (car.get traceparentName) (car.get tracestateName))) _ rfl
    exact ⟨c, hc⟩
  · obtain ⟨c, hc, _⟩ := withSpan_ok ctx (fun _ => B3.extract (car.get Gen.b3CombinedHeader) (car.get Gen.b3TraceIdHeader)
      (car.get Gen.b3SpanIdHeader) (car.get Gen.b3SampledHeader)) _ (C16.b3_extract_eq _ _ _ _)
    exact ⟨c, hc⟩
  · obtain ⟨c, hc, _⟩ := withSpan_ok ctx (fun _ => B3.extract (car.get Gen.b3CombinedHeader) (car.get Gen.b3TraceIdHeader)
      (car.get Gen.b3SpanIdHeader) (car.get Gen.b3SampledHeader)) _ (C16.b3_extract_eq _ _ _ _)
    exact ⟨c, hc⟩
  · obtain ⟨c, hc, _⟩ := withSpan_ok ctx (fun _ => Jaeger.extract (car.get Gen.jaegerHeader)) _ (C16.jaeger_extract_eq _)
    exact ⟨c, hc⟩
  · exact ⟨_, baggage_extract_eq car ctx⟩

/-- **a composite of any built-in propagators, in any order and multiplicity, never faults on any carrier**: the
    out-of-bounds freedom of the parts carries over to the whole -/
theorem composite_builtin_never_faults (ps : List (Propagator RCtx Carrier)) (hps : ∀ p ∈ ps, Builtin p)
    (car : Carrier) (ctx : PCtx) : ∃ ctx', (composite emptyCtx ps).extract car (.ok ctx) = .ok ctx' := by
  rw [composite_extract_eq_foldl]
  induction ps generalizing ctx with
  | nil => exact ⟨ctx, rfl⟩
  | cons p t ih =>
    obtain ⟨c1, h1⟩ := builtin_extract_ok p (hps p (by simp)) car ctx
    simp only [List.foldl_cons]
    rw [h1]
    exact ih (fun q hq => hps q (by simp [hq])) c1

/-! ## Further ways to obtain and to read a baggage; `Fields`; `NoOpPropagator` -/

/-- **the container constructor keeps the caller's pairs in order** (as NUL-terminated copies: each string up to its
    first NUL byte); nothing is dropped although `AddEntry`-style capacity is fixed at the container's size -/
theorem ofPairs_eq (kvs : List (Bytes × Bytes)) : ofPairs kvs = kvs.map fun e => (cstr e.1, cstr e.2) := by
  unfold ofPairs
  have h := foldl_add (fun _ => true) (kvs.map fun e => (cstr e.1, cstr e.2)) (⟨kvs.length, []⟩ : KvProps) (by simp)
  rw [List.foldl_map] at h
  have hf : ∀ l : Entries, l.filter (fun _ => true) = l := fun l => List.filter_eq_self.2 (fun _ _ => rfl)
  rw [hf] at h
  simpa using congrArg KvProps.entries h

/-- printable pairs are kept verbatim -/
theorem ofPairs_printable (kvs : List (Bytes × Bytes)) (h : ∀ e ∈ kvs, Printable e.1 ∧ Printable e.2) : ofPairs kvs = kvs := by
  rw [ofPairs_eq]
  induction kvs with
  | nil => rfl
  | cons e t ih =>
    have he := h e (by simp)
    rw [List.map_cons, cstr_printable _ he.1, cstr_printable _ he.2, ih (fun x hx => h x (by simp [hx]))]

/-- **the round trip holds as well for a baggage built by the container constructor** from round-trippable entries -/
theorem fromHeader_toHeader_ofPairs (kvs : List (Bytes × Bytes)) (h : RoundTrippable kvs) :
    fromHeader (toHeader (ofPairs kvs)) = .ok kvs := by
  rw [ofPairs_printable kvs (fun e he => ⟨(h.1 e he).2.1, (h.1 e he).2.2.1⟩)]
  exact fromHeader_toHeader kvs h

theorem visitLoop_never : ∀ (es : Entries) (calls : Nat) (seen : Entries), visitLoop 0 es calls seen = (seen ++ es, true)
  | [], _, seen => by simp [visitLoop]
  | e :: t, calls, seen => by
    unfold visitLoop
    rw [if_neg (by omega), visitLoop_never t (calls + 1) (seen ++ [e])]
    simp

theorem visitLoop_spec (stop : Nat) : ∀ (es : Entries) (calls : Nat) (seen : Entries), calls < stop →
    visitLoop stop es calls seen =
      if stop - calls ≤ es.length then (seen ++ es.take (stop - calls), false) else (seen ++ es, true)
  | [], calls, seen, h => by
    have h0 : ¬ (stop - calls ≤ 0) := by omega
    simp [visitLoop, h0]
  | e :: t, calls, seen, h => by
    unfold visitLoop
    by_cases hc : calls + 1 = stop
    · have h1 : stop - calls = 1 := by omega
      rw [if_pos hc, h1]
      simp
    · rw [if_neg hc, visitLoop_spec stop t (calls + 1) (seen ++ [e]) (by omega)]
      obtain ⟨m, hm⟩ : ∃ m, stop - calls = m + 1 := ⟨stop - calls - 1, by omega⟩
      have hm' : stop - (calls + 1) = m := by omega
      rw [hm, hm']
      simp [List.take_succ_cons]

/-- **`GetAllEntries` hands over every entry, in order, and reports `true` when the callback never declines** -/
theorem visit_never (es : Entries) : visit es 0 = (es, true) := by
  unfold visit; rw [visitLoop_never]; simp

/-- … **and stops right after the call the callback declines, reporting `false`** -/
theorem visit_stops (es : Entries) (n : Nat) (h1 : 1 ≤ n) (h2 : n ≤ es.length) : visit es n = (es.take n, false) := by
  unfold visit; rw [visitLoop_spec n es 0 [] (by omega), if_pos (by omega)]; simp

theorem visit_beyond (es : Entries) (n : Nat) (h : es.length < n) : visit es n = (es, true) := by
  unfold visit; rw [visitLoop_spec n es 0 [] (by omega), if_neg (by omega)]; simp

/-- a built-in propagator's `Fields` with a callback that never declines: every name, in order -/
theorem fieldsOf_never : ∀ (names : List Bytes) (cb : FieldsCb), cb.stopAt = 0 →
    fieldsOf names cb = ({ cb with seen := cb.seen ++ names, calls := cb.calls + names.length }, true)
  | [], cb, _ => by simp [fieldsOf]
  | n :: t, cb, h => by
    have hc : cb.call n = ({ cb with seen := cb.seen ++ [n], calls := cb.calls + 1 }, true) := by
      unfold FieldsCb.call; rw [h]; simp
    unfold fieldsOf
    rw [hc]
    simp only []
    rw [fieldsOf_never t { cb with seen := cb.seen ++ [n], calls := cb.calls + 1 } h]
    simp [Nat.add_assoc, Nat.add_comm 1]

theorem compositeFieldsLoop_never : ∀ (parts : List (List Bytes)) (cb : FieldsCb), cb.stopAt = 0 →
    compositeFieldsLoop parts true cb =
      ({ cb with seen := cb.seen ++ parts.flatten, calls := cb.calls + parts.flatten.length }, true)
  | [], cb, _ => by simp [compositeFieldsLoop]
  | p :: t, cb, h => by
    unfold compositeFieldsLoop
    rw [if_pos rfl, fieldsOf_never p cb h]
    simp only []
    rw [compositeFieldsLoop_never t { cb with seen := cb.seen ++ p, calls := cb.calls + p.length } h]
    simp [Nat.add_assoc]

/-- **`CompositePropagator::Fields` announces the names of every configured propagator, in order** -/
theorem compositeFields_never (parts : List (List Bytes)) (cb : FieldsCb) (h : cb.stopAt = 0) :
    compositeFields parts cb = ({ cb with seen := cb.seen ++ parts.flatten, calls := cb.calls + parts.flatten.length }, true) :=
  compositeFieldsLoop_never parts cb h

/-- once a part has reported `false` no later part is asked and the result is `false` -/
theorem compositeFields_false_sticky : ∀ (parts : List (List Bytes)) (cb : FieldsCb),
    compositeFieldsLoop parts false cb = (cb, false)
  | [], _ => rfl
  | _ :: t, cb => by
    unfold compositeFieldsLoop
    rw [if_neg (by simp)]
    exact compositeFields_false_sticky t cb

/-- `NoOpPropagator` (also the never-set global propagator) changes neither carrier nor context; inside a composite it
    can be dropped -/
theorem noop_identity {Ctx Car : Type} (car : Car) (ctx : Ctx) :
    (noop : Propagator Ctx Car).inject car ctx = car ∧ (noop : Propagator Ctx Car).extract car ctx = ctx := ⟨rfl, rfl⟩

theorem composite_noop_cons {Ctx Car : Type} (empty : Ctx) (ps qs : List (Propagator Ctx Car)) (car : Car) (ctx : Ctx) :
    (composite empty (ps ++ noop :: qs)).inject car ctx = (composite empty (ps ++ qs)).inject car ctx ∧
    (composite empty (ps ++ noop :: qs)).extract car ctx = (composite empty (ps ++ qs)).extract car ctx := by
  simp only [composite_inject_eq_foldl, composite_extract_eq_foldl, List.foldl_append, List.foldl_cons]
  exact ⟨rfl, rfl⟩

/-! ## Non-vacuity -/

/-- `userId=alice`, `server node=A=1,b%+;x` (needs `+`, `%3D`, `%2C`, `%25`, `%2B`, `%3B`…), `k=v;prop=1; p2` (metadata) -/
def exampleBaggage : Entries :=
  [([117,115,101,114,73,100], [97,108,105,99,101]),
   ([115,101,114,118,101,114,32,110,111,100,101], [65,61,49,44,98,37,43]),
   ([107], [118,59,112,114,111,112,61,49,59,32,112,50])]

example : RoundTrippable exampleBaggage := by decide +kernel
example : fromHeader (toHeader exampleBaggage) = .ok exampleBaggage := by decide +kernel
example : RoundTrippableEntry ([32, 61, 44, 37, 43, 59], [126, 32, 59]) := by decide +kernel
example : (run [.set 0 [97] [49], .set 1 [98] [50], .set 2 [97] [51], .delete 3 [98]]) =
    [[], [([97], [49])], [([98], [50]), ([97], [49])], [([97], [51]), ([98], [50])], [([97], [51])]] := by decide +kernel
-- truncated and malformed escapes are refused without a fault: "%4", "%", "%zz", "a%4"
example : urlDecode [37, 52] = .ok none ∧ urlDecode [37] = .ok none ∧ urlDecode [37, 122, 122] = .ok none ∧
    urlDecode [97, 37, 52] = .ok none ∧ urlDecode [37, 52, 49] = .ok (some [65]) := by decide +kernel

end Otel.C15
