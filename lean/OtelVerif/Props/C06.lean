import OtelVerif.Model.Metrics.Meter
import OtelVerif.Lemmas.Metrics
/-! # C06 — counter measurements are conserved across readers, temporalities and threads

Theorems about `Model/Metrics/{Temporal,SyncStorage,Meter}.lean`.  Histories are lists of operations; the run
functions take them **most recent operation first** (`srunRev`), `srun` takes them in chronological order.
The specification vocabulary below is written from the property text as plain recursions over the history and
never looks at the model's state. -/
namespace Otel.C06
open Otel.Temporal

/-! ## Specification vocabulary (over a history, most recent operation first) -/

/-- Σ of everything recorded for attribute set `a` -/
def recorded : List SOp → Nat → Int
  | [], _ => 0
  | .add a' v :: o, a => (if a' = a then v else 0) + recorded o a
  | .collect _ _ :: o, a => recorded o a

/-- Σ of what was recorded for `a` after reader `r`'s most recent collection (all of it when there is none):
    the content of `r`'s current collection interval -/
def recSince (r : Nat) : List SOp → Nat → Int
  | [], _ => 0
  | .add a' v :: o, a => (if a' = a then v else 0) + recSince r o a
  | .collect r' _ :: o, a => if r' = r then 0 else recSince r o a

/-- was anything recorded for `a` at all -/
def addedEver : List SOp → Nat → Bool
  | [], _ => false
  | .add a' _ :: o, a => a' == a || addedEver o a
  | .collect _ _ :: o, a => addedEver o a

/-- was anything recorded for `a` in `r`'s current collection interval -/
def addedSince (r : Nat) : List SOp → Nat → Bool
  | [], _ => false
  | .add a' _ :: o, a => a' == a || addedSince r o a
  | .collect r' _ :: o, a => if r' = r then false else addedSince r o a

/-- was anything recorded for `a` before `r`'s most recent collection -/
def addedBefore (r : Nat) : List SOp → Nat → Bool
  | [], _ => false
  | .add _ _ :: o, a => addedBefore r o a
  | .collect r' _ :: o, a => if r' = r then addedEver o a else addedBefore r o a

/-- was anything recorded at all -/
def anyAdd : List SOp → Bool
  | [] => false
  | .add _ _ :: _ => true
  | .collect _ _ :: o => anyAdd o

/-- was anything recorded in `r`'s current collection interval -/
def anyAddSince (r : Nat) : List SOp → Bool
  | [] => false
  | .add _ _ :: _ => true
  | .collect r' _ :: o => if r' = r then false else anyAddSince r o

/-- does a collection by `r` after history `h` hand a `MetricData` to `r`?  On the single-delta-reader fast path:
    when something was recorded in the interval; otherwise: as soon as anything was ever recorded. -/
def reports (c : Cfg) (r : Nat) (h : List SOp) : Bool :=
  if fastPath c.n (c.temp r) then anyAddSince r h else anyAdd h

/-- end stamp of the most recent `MetricData` handed to `r` -/
def lastOut (c : Cfg) (r : Nat) : List SOp → Option Nat
  | [] => none
  | .add _ _ :: o => lastOut c r o
  | .collect r' ts :: o => if r' = r ∧ reports c r o then some ts else lastOut c r o

/-- **What the property says reader `r` must receive** from a collection at stamp `ts` after history `h`
    (`none`: nothing to report yet).  Delta: the interval [end of `r`'s previous `MetricData` or SDK start (0), ts],
    a point for exactly the sets recorded in `r`'s interval, each with the Σ of that interval.
    Cumulative: [SDK start, ts], a point for every set ever recorded, each with the running total. -/
structure Expected where
  temporality : Temporality
  startTs : Nat
  endTs : Nat
  value : Nat → Int
  present : Nat → Bool

def expected (c : Cfg) (r : Nat) (h : List SOp) (ts : Nat) : Option Expected :=
  if reports c r h then
    match c.temp r with
    | .delta => some ⟨.delta, (lastOut c r h).getD 0, ts, recSince r h, addedSince r h⟩
    | .cumulative => some ⟨.cumulative, 0, ts, recorded h, addedEver h⟩
  else none

/-- a `MetricData` is what was expected: same temporality and interval, same set of points, same values -/
def Matches : Option MetricData → Option Expected → Prop
  | none, none => True
  | some md, some e => md.temporality = e.temporality ∧ md.startTs = e.startTs ∧ md.endTs = e.endTs ∧
      (∀ a, valAt md.points a = e.value a) ∧ (∀ a, has md.points a = e.present a) ∧ NoDup md.points
  | _, _ => False

/-! ## The inductive invariant (Appendix D of the design) -/

def stash (t : TState) (r : Nat) : List DMap := (t.unreported r).getD []
def lastMap (t : TState) (r : Nat) : DMap := ((t.last r).map (·.1)).getD []
def lastTs (t : TState) (r : Nat) : Option Nat := (t.last r).map (·.2)

/-- state `s` is consistent with history `h`, for reader `r` -/
structure InvR (c : Cfg) (h : List SOp) (s : Storage) (r : Nat) : Prop where
  /-- what is pending for `r` (its stash plus the current map; on the fast path there is no stash) is exactly
      what was recorded in `r`'s current interval -/
  val : ∀ a, sumAt (stash s.temporal r) a + valAt s.cur a = recSince r h a
  pres : ∀ a, (anyHas (stash s.temporal r) a || has s.cur a) = addedSince r h a
  entry : fastPath c.n (c.temp r) = false → ((s.temporal.unreported r).isSome || !s.cur.isEmpty) = anyAdd h
  noStash : fastPath c.n (c.temp r) = true → s.temporal.unreported r = none
  entryFast : fastPath c.n (c.temp r) = true → (!s.cur.isEmpty) = anyAddSince r h
  /-- a cumulative reader's last report is the total recorded up to its last collection -/
  lastVal : c.temp r = .cumulative → ∀ a, valAt (lastMap s.temporal r) a = recorded h a - recSince r h a
  lastPres : c.temp r = .cumulative → ∀ a, has (lastMap s.temporal r) a = addedBefore r h a
  lastNoDup : NoDup (lastMap s.temporal r)
  curNoDup : NoDup s.cur
  ts : lastTs s.temporal r = lastOut c r h

/-! ### normal forms of `buildMetrics` -/

theorem fastPath_iff (n : Nat) (temp : Temporality) : fastPath n temp = true ↔ n = 1 ∧ temp = .delta := by
  simp [fastPath_def]

/-- the stash after `buildMetrics` has (conditionally) pushed `δ` for every collector -/
def stashed (n : Nat) (u : Nat → Option (List DMap)) (δ : DMap) : Nat → Option (List DMap) :=
  if δ.isEmpty then u else stashAll n u δ

theorem stashed_sum (n : Nat) (u : Nat → Option (List DMap)) (δ : DMap) (r : Nat) (hr : r < n) (a : Nat) :
    sumAt ((stashed n u δ r).getD []) a = sumAt ((u r).getD []) a + valAt δ a := by
  unfold stashed
  by_cases he : δ.isEmpty
  · have : δ = [] := List.isEmpty_iff.mp he
    subst this; simp
  · simp [he, stashAll, hr, sumAt_append, sumAt]

theorem stashed_has (n : Nat) (u : Nat → Option (List DMap)) (δ : DMap) (r : Nat) (hr : r < n) (a : Nat) :
    anyHas ((stashed n u δ r).getD []) a = (anyHas ((u r).getD []) a || has δ a) := by
  unfold stashed
  by_cases he : δ.isEmpty
  · have : δ = [] := List.isEmpty_iff.mp he
    subst this; simp
  · simp [he, stashAll, hr, anyHas_append, anyHas]

theorem stashed_isSome (n : Nat) (u : Nat → Option (List DMap)) (δ : DMap) (r : Nat) (hr : r < n) :
    (stashed n u δ r).isSome = ((u r).isSome || !δ.isEmpty) := by
  unfold stashed
  by_cases he : δ.isEmpty
  · simp [he]
  · simp [he, stashAll, hr]

/-- the map reported on the general path: the merged stash, for a cumulative reader merged with its last report -/
def mergedFor (t : TState) (temp : Temporality) (r : Nat) (lst : List DMap) : DMap :=
  match t.last r, temp with
  | some (lm, _), .cumulative => mergeInto (mergeAll lst) lm
  | _, _ => mergeAll lst

/-- the start stamp reported on the general path -/
def startFor (t : TState) (temp : Temporality) (r : Nat) : Nat :=
  match t.last r, temp with
  | some (_, lts), .delta => lts
  | _, _ => 0

theorem buildMetrics_multi_none (n : Nat) (temp : Temporality) (t : TState) (r now : Nat) (δ : DMap)
    (hf : fastPath n temp = false) (hu : stashed n t.unreported δ r = none) :
    buildMetrics n temp t r now δ = ({ t with unreported := stashed n t.unreported δ }, none) := by
  unfold buildMetrics
  unfold stashed at hu ⊢
  simp only [hf, Bool.false_eq_true, if_false, hu]

theorem buildMetrics_multi_some (n : Nat) (temp : Temporality) (t : TState) (r now : Nat) (δ : DMap) (lst : List DMap)
    (hf : fastPath n temp = false) (hu : stashed n t.unreported δ r = some lst) :
    buildMetrics n temp t r now δ =
      (⟨setAt (stashed n t.unreported δ) r (some []), setAt t.last r (some (mergedFor t temp r lst, now))⟩,
       some ⟨temp, startFor t temp r, now, mergedFor t temp r lst⟩) := by
  unfold buildMetrics mergedFor startFor
  unfold stashed at hu ⊢
  simp only [hf, Bool.false_eq_true, if_false, hu]
  cases hl : t.last r with
  | none => simp
  | some p =>
    obtain ⟨lm, lts⟩ := p
    cases temp <;> simp

theorem buildMetrics_fast (n : Nat) (temp : Temporality) (t : TState) (r now : Nat) (δ : DMap)
    (hf : fastPath n temp = true) :
    buildMetrics n temp t r now δ =
      if δ.isEmpty then (t, none)
      else ({ t with last := setAt t.last r (some (lastMap t r, now)) },
            some ⟨.delta, (lastTs t r).getD 0, now, δ⟩) := by
  unfold buildMetrics
  simp only [hf, if_true]
  by_cases he : δ.isEmpty
  · simp [he]
  · simp only [he, Bool.false_eq_true, if_false]
    cases hl : t.last r with
    | none => simp [lastMap, lastTs, hl]
    | some p => obtain ⟨lm, lts⟩ := p; simp [lastMap, lastTs, hl]

theorem collect_eq (c : Cfg) (s : Storage) (r ts : Nat) (hr : r < c.n) :
    collect c s r ts =
      ({ cur := [], temporal := (buildMetrics c.n (c.temp r) s.temporal r ts s.cur).1 },
       (buildMetrics c.n (c.temp r) s.temporal r ts s.cur).2) := by
  simp [collect, hr, swap, build]

/-- with a fixed reader set, either every reader is on the fast path (one delta reader) or none is -/
theorem fastPath_same (c : Cfg) {r r' : Nat} (hr : r < c.n) (hr' : r' < c.n) :
    fastPath c.n (c.temp r) = fastPath c.n (c.temp r') := by
  by_cases h1 : c.n = 1
  · have : r = r' := by omega
    rw [this]
  · have : (c.n == 1) = false := by simp [h1]
    simp [fastPath_def, this]

/-! ### the invariant holds initially and is preserved by every operation -/

theorem inv_init (c : Cfg) (r : Nat) : InvR c [] Storage.init r := by
  constructor <;> simp [Storage.init, TState.init, stash, lastMap, lastTs, recSince, addedSince, anyAdd,
    anyAddSince, recorded, addedBefore, lastOut, NoDup]

theorem inv_add (c : Cfg) (h : List SOp) (s : Storage) (r : Nat) (a : Nat) (v : Int) (hi : InvR c h s r) :
    InvR c (.add a v :: h) (record s a v) r := by
  constructor
  · intro x; have := hi.val x
    simp only [record, valAt_addTo, recSince]; omega
  · intro x; have := hi.pres x
    simp only [record, has_addTo, addedSince, ← this]
    cases anyHas (stash s.temporal r) x <;> cases has s.cur x <;> cases (a == x) <;> rfl
  · intro hf
    have : (addTo s.cur a v).isEmpty = false := by
      cases hh : addTo s.cur a v with
      | nil => exact absurd hh (addTo_ne_nil _ _ _)
      | cons _ _ => rfl
    simp [record, anyAdd, this]
  · intro hf; simpa [record] using hi.noStash hf
  · intro hf
    have : (addTo s.cur a v).isEmpty = false := by
      cases hh : addTo s.cur a v with
      | nil => exact absurd hh (addTo_ne_nil _ _ _)
      | cons _ _ => rfl
    simp [record, anyAddSince, this]
  · intro hc x; have := hi.lastVal hc x
    simp only [record, recorded, recSince]; omega
  · intro hc x; simpa [record, addedBefore] using hi.lastPres hc x
  · simpa [record] using hi.lastNoDup
  · exact NoDup_addTo _ _ _ hi.curNoDup
  · simpa [record, lastOut] using hi.ts

theorem inv_collect_invalid (c : Cfg) (h : List SOp) (s : Storage) (r' ts : Nat) (hv : ¬ r' < c.n)
    (r : Nat) (hr : r < c.n) (hi : InvR c h s r) : InvR c (.collect r' ts :: h) (collect c s r' ts).1 r := by
  have hne : r' ≠ r := by omega
  have hc : (collect c s r' ts).1 = s := by simp [collect, hv]
  rw [hc]
  constructor
  · intro a; simpa [recSince, hne] using hi.val a
  · intro a; simpa [addedSince, hne] using hi.pres a
  · intro hf; simpa [anyAdd] using hi.entry hf
  · exact hi.noStash
  · intro hf; simpa [anyAddSince, hne] using hi.entryFast hf
  · intro hc a; simpa [recorded, recSince, hne] using hi.lastVal hc a
  · intro hc a; simpa [addedBefore, hne] using hi.lastPres hc a
  · exact hi.lastNoDup
  · exact hi.curNoDup
  · simpa [lastOut, hne] using hi.ts

theorem inv_collect_fast (c : Cfg) (h : List SOp) (s : Storage) (r ts : Nat) (hr : r < c.n)
    (hf : fastPath c.n (c.temp r) = true) (hi : InvR c h s r) :
    InvR c (.collect r ts :: h) (collect c s r ts).1 r := by
  rw [collect_eq c s r ts hr, buildMetrics_fast _ _ _ _ _ _ hf]
  have hns := hi.noStash hf
  have hrep : reports c r h = !s.cur.isEmpty := by simp [reports, hf, hi.entryFast hf]
  have hd : c.temp r = .delta := ((fastPath_iff _ _).mp hf).2
  by_cases he : s.cur.isEmpty
  · simp only [he, if_true]
    constructor
    · intro a; simp [stash, hns, recSince]
    · intro a; simp [stash, hns, addedSince]
    · intro hf'; simp [hf] at hf'
    · intro _; exact hns
    · intro _; simp [anyAddSince]
    · intro hc; simp [hd] at hc
    · intro hc; simp [hd] at hc
    · exact hi.lastNoDup
    · trivial
    · simp [lastOut, hrep, he]; exact hi.ts
  · simp only [he, Bool.false_eq_true, if_false]
    constructor
    · intro a; simp [stash, hns, recSince]
    · intro a; simp [stash, hns, addedSince]
    · intro hf'; simp [hf] at hf'
    · intro _; exact hns
    · intro _; simp [anyAddSince]
    · intro hc; simp [hd] at hc
    · intro hc; simp [hd] at hc
    · simpa [lastMap] using hi.lastNoDup
    · trivial
    · simp [lastOut, hrep, he, lastTs]

theorem inv_collect_multi_other (c : Cfg) (h : List SOp) (s : Storage) (r' ts : Nat) (hv : r' < c.n)
    (hf : fastPath c.n (c.temp r') = false) (r : Nat) (hr : r < c.n) (hne : r' ≠ r) (hi : InvR c h s r) :
    InvR c (.collect r' ts :: h) (collect c s r' ts).1 r := by
  have hfr : fastPath c.n (c.temp r) = false := by rw [fastPath_same c hr hv]; exact hf
  have hne' : r ≠ r' := fun e => hne e.symm
  rw [collect_eq c s r' ts hv]
  have hsum := stashed_sum c.n s.temporal.unreported s.cur r hr
  have hhas := stashed_has c.n s.temporal.unreported s.cur r hr
  have hsome := stashed_isSome c.n s.temporal.unreported s.cur r hr
  cases hu : stashed c.n s.temporal.unreported s.cur r' with
  | none =>
    rw [buildMetrics_multi_none _ _ _ _ _ _ hf hu]
    constructor
    · intro a; have := hi.val a; simp only [stash] at this ⊢; simp [hsum, recSince, hne]; omega
    · intro a; have := hi.pres a; simp only [stash] at this ⊢; simp [hhas, addedSince, hne]; exact this
    · intro _; have := hi.entry hfr; simp [hsome, anyAdd]; simpa using this
    · intro hf'; simp [hfr] at hf'
    · intro hf'; simp [hfr] at hf'
    · intro hc a; simpa [recorded, recSince, hne, lastMap] using hi.lastVal hc a
    · intro hc a; simpa [addedBefore, hne, lastMap] using hi.lastPres hc a
    · exact hi.lastNoDup
    · trivial
    · simpa [lastOut, hne, lastTs] using hi.ts
  | some lst =>
    rw [buildMetrics_multi_some _ _ _ _ _ _ lst hf hu]
    constructor
    · intro a; have := hi.val a; simp only [stash] at this ⊢
      simp [setAt_other _ _ hne', hsum, recSince, hne]; omega
    · intro a; have := hi.pres a; simp only [stash] at this ⊢
      simp [setAt_other _ _ hne', hhas, addedSince, hne]; exact this
    · intro _; have := hi.entry hfr; simp [setAt_other _ _ hne', hsome, anyAdd]; simpa using this
    · intro hf'; simp [hfr] at hf'
    · intro hf'; simp [hfr] at hf'
    · intro hc a; simpa [recorded, recSince, hne, lastMap, setAt_other _ _ hne'] using hi.lastVal hc a
    · intro hc a; simpa [addedBefore, hne, lastMap, setAt_other _ _ hne'] using hi.lastPres hc a
    · simpa [lastMap, setAt_other _ _ hne'] using hi.lastNoDup
    · trivial
    · simpa [lastOut, hne, lastTs, setAt_other _ _ hne'] using hi.ts

/-! ### small facts about the specification vocabulary and about `mergedFor` / `startFor` -/

theorem addedEver_of_anyAdd_false : ∀ (h : List SOp) (a : Nat), anyAdd h = false → addedEver h a = false
  | [], _, _ => rfl
  | .add _ _ :: _, _, hh => by simp [anyAdd] at hh
  | .collect _ _ :: o, a, hh => by simpa [addedEver] using addedEver_of_anyAdd_false o a (by simpa [anyAdd] using hh)

theorem addedEver_split (r : Nat) : ∀ (h : List SOp) (a : Nat), addedEver h a = (addedSince r h a || addedBefore r h a)
  | [], _ => rfl
  | .add a' _ :: o, a => by simp [addedEver, addedSince, addedBefore, addedEver_split r o a, Bool.or_assoc]
  | .collect r' _ :: o, a => by
    by_cases hr : r' = r
    · simp [addedEver, addedSince, addedBefore, hr]
    · simp [addedEver, addedSince, addedBefore, hr, addedEver_split r o a]

theorem valAt_mergedFor_cum (t : TState) (r : Nat) (lst : List DMap) (a : Nat) :
    valAt (mergedFor t .cumulative r lst) a = sumAt lst a + valAt (lastMap t r) a := by
  unfold mergedFor lastMap
  cases hl : t.last r with
  | none => simp [valAt_mergeAll]
  | some p => obtain ⟨lm, lts⟩ := p; simp [valAt_mergeInto, valAt_mergeAll]

theorem has_mergedFor_cum (t : TState) (r : Nat) (lst : List DMap) (a : Nat) :
    has (mergedFor t .cumulative r lst) a = (anyHas lst a || has (lastMap t r) a) := by
  unfold mergedFor lastMap
  cases hl : t.last r with
  | none => simp [has_mergeAll]
  | some p => obtain ⟨lm, lts⟩ := p; simp [has_mergeInto, has_mergeAll]

theorem mergedFor_delta (t : TState) (r : Nat) (lst : List DMap) : mergedFor t .delta r lst = mergeAll lst := by
  unfold mergedFor
  cases hl : t.last r with
  | none => simp
  | some p => obtain ⟨lm, lts⟩ := p; simp

theorem NoDup_mergedFor (t : TState) (temp : Temporality) (r : Nat) (lst : List DMap) : NoDup (mergedFor t temp r lst) := by
  unfold mergedFor
  cases hl : t.last r with
  | none => simp; exact NoDup_mergeAll _
  | some p =>
    obtain ⟨lm, lts⟩ := p
    cases temp
    · simp; exact NoDup_mergeAll _
    · simp; exact NoDup_mergeInto _ _ (NoDup_mergeAll _)

theorem startFor_delta (t : TState) (r : Nat) : startFor t .delta r = (lastTs t r).getD 0 := by
  unfold startFor lastTs
  cases hl : t.last r with
  | none => simp
  | some p => obtain ⟨lm, lts⟩ := p; simp

theorem startFor_cum (t : TState) (r : Nat) : startFor t .cumulative r = 0 := by
  unfold startFor
  cases hl : t.last r with
  | none => simp
  | some p => obtain ⟨lm, lts⟩ := p; simp

theorem inv_collect_multi_self (c : Cfg) (h : List SOp) (s : Storage) (r ts : Nat) (hr : r < c.n)
    (hf : fastPath c.n (c.temp r) = false) (hi : InvR c h s r) :
    InvR c (.collect r ts :: h) (collect c s r ts).1 r := by
  rw [collect_eq c s r ts hr]
  have hsum := stashed_sum c.n s.temporal.unreported s.cur r hr
  have hhas := stashed_has c.n s.temporal.unreported s.cur r hr
  have hsome := stashed_isSome c.n s.temporal.unreported s.cur r hr
  have hrep : reports c r h = anyAdd h := by simp [reports, hf]
  have hent := hi.entry hf
  cases hu : stashed c.n s.temporal.unreported s.cur r with
  | none =>
    rw [buildMetrics_multi_none _ _ _ _ _ _ hf hu]
    have hany : anyAdd h = false := by rw [← hent, ← hsome, hu]; rfl
    have hz : ∀ a, recSince r h a = 0 := by
      intro a; have h1 := hsum a; have h2 := hi.val a
      simp only [stash] at h2; rw [hu] at h1; simp at h1; omega
    constructor
    · intro a; simp [stash, hu, recSince]
    · intro a; simp [stash, hu, addedSince]
    · intro _; simp [hu, anyAdd, hany]
    · intro hf'; simp [hf] at hf'
    · intro hf'; simp [hf] at hf'
    · intro hc a; have := hi.lastVal hc a; simp only [lastMap] at this ⊢; simp [recorded, recSince, hz a] at this ⊢; exact this
    · intro hc a; have := hi.lastPres hc a; simp only [lastMap] at this ⊢
      have h1 := addedEver_of_anyAdd_false h a hany
      have h2 := addedEver_split r h a
      rw [h1] at h2
      have h3 : addedBefore r h a = false := by
        cases hb : addedBefore r h a with
        | false => rfl
        | true => rw [hb] at h2; simp at h2
      simp [addedBefore, h1]; rw [this, h3]
    · exact hi.lastNoDup
    · trivial
    · simp [lastOut, hrep, hany, lastTs]; exact hi.ts
  | some lst =>
    rw [buildMetrics_multi_some _ _ _ _ _ _ lst hf hu]
    have hany : anyAdd h = true := by rw [← hent, ← hsome, hu]; rfl
    have hs : ∀ a, sumAt lst a = recSince r h a := by
      intro a; have h1 := hsum a; have h2 := hi.val a
      simp only [stash] at h2; rw [hu] at h1; simp at h1; omega
    have hp : ∀ a, anyHas lst a = addedSince r h a := by
      intro a; have h1 := hhas a; have h2 := hi.pres a
      simp only [stash] at h2; rw [hu] at h1; simp at h1; rw [h1, h2]
    constructor
    · intro a; simp [stash, recSince]
    · intro a; simp [stash, addedSince]
    · intro _; simp [anyAdd, hany]
    · intro hf'; simp [hf] at hf'
    · intro hf'; simp [hf] at hf'
    · intro hc a
      have := hi.lastVal hc a
      simp only [lastMap, setAt_same, Option.map_some, Option.getD_some, recorded, recSince, if_true]
      rw [hc, valAt_mergedFor_cum, hs a, this]; omega
    · intro hc a
      have := hi.lastPres hc a
      simp only [lastMap, setAt_same, Option.map_some, Option.getD_some, addedBefore, if_true]
      rw [hc, has_mergedFor_cum, hp a, this, addedEver_split r h a]
    · simp only [lastMap, setAt_same, Option.map_some, Option.getD_some]; exact NoDup_mergedFor _ _ _ _
    · trivial
    · simp [lastOut, hrep, hany, lastTs]

/-- the invariant is preserved by every operation -/
theorem inv_step (c : Cfg) (h : List SOp) (s : Storage) (op : SOp) (hall : ∀ r, r < c.n → InvR c h s r) :
    ∀ r, r < c.n → InvR c (op :: h) (sstep c s op).1 r := by
  intro r hr
  cases op with
  | add a v => exact inv_add c h s r a v (hall r hr)
  | collect r' ts =>
    simp only [sstep]
    by_cases hv : r' < c.n
    · by_cases he : r' = r
      · subst he
        cases hf : fastPath c.n (c.temp r') with
        | true => exact inv_collect_fast c h s r' ts hv hf (hall r' hv)
        | false => exact inv_collect_multi_self c h s r' ts hv hf (hall r' hv)
      · cases hf : fastPath c.n (c.temp r') with
        | true =>
          have hn : c.n = 1 := ((fastPath_iff _ _).mp hf).1
          omega
        | false => exact inv_collect_multi_other c h s r' ts hv hf r hr he (hall r hr)
    · exact inv_collect_invalid c h s r' ts hv r hr (hall r hr)

theorem srunRev_cons (c : Cfg) (op : SOp) (h : List SOp) :
    (srunRev c (op :: h)).1 = (sstep c (srunRev c h).1 op).1 := rfl

/-- **the invariant holds after every history** -/
theorem inv_run (c : Cfg) : ∀ (h : List SOp) (r : Nat), r < c.n → InvR c h (srunRev c h).1 r
  | [], r, _ => inv_init c r
  | op :: h, r, hr => by
    rw [srunRev_cons]
    exact inv_step c h _ op (fun r' hr' => inv_run c h r' hr') r hr

/-! ## What a collection hands to its reader -/

/-- in a state consistent with history `h`, a collection by `r` hands out exactly what the property prescribes -/
theorem collect_matches_of_inv (c : Cfg) (h : List SOp) (s : Storage) (r ts : Nat) (hr : r < c.n) (hi : InvR c h s r) :
    Matches (collect c s r ts).2 (expected c r h ts) := by
  rw [collect_eq c s r ts hr]
  cases hf : fastPath c.n (c.temp r) with
  | true =>
    rw [buildMetrics_fast _ _ _ _ _ _ hf]
    have hns := hi.noStash hf
    have hd : c.temp r = .delta := ((fastPath_iff _ _).mp hf).2
    have hrep : reports c r h = !s.cur.isEmpty := by simp [reports, hf, hi.entryFast hf]
    by_cases he : s.cur.isEmpty
    · simp [he, expected, hrep, Matches]
    · simp only [he, Bool.false_eq_true, if_false, expected, hrep, Bool.not_false, if_true, hd, Matches]
      refine ⟨trivial, ?_, trivial, ?_, ?_, hi.curNoDup⟩
      · rw [hi.ts]
      · intro a; have := hi.val a; simpa [stash, hns] using this
      · intro a; have := hi.pres a; simpa [stash, hns] using this
  | false =>
    have hsum := stashed_sum c.n s.temporal.unreported s.cur r hr
    have hhas := stashed_has c.n s.temporal.unreported s.cur r hr
    have hsome := stashed_isSome c.n s.temporal.unreported s.cur r hr
    have hrep : reports c r h = anyAdd h := by simp [reports, hf]
    have hent := hi.entry hf
    cases hu : stashed c.n s.temporal.unreported s.cur r with
    | none =>
      rw [buildMetrics_multi_none _ _ _ _ _ _ hf hu]
      have hany : anyAdd h = false := by rw [← hent, ← hsome, hu]; rfl
      simp [expected, hrep, hany, Matches]
    | some lst =>
      rw [buildMetrics_multi_some _ _ _ _ _ _ lst hf hu]
      have hany : anyAdd h = true := by rw [← hent, ← hsome, hu]; rfl
      have hs : ∀ a, sumAt lst a = recSince r h a := by
        intro a; have h1 := hsum a; have h2 := hi.val a
        simp only [stash] at h2; rw [hu] at h1; simp at h1; omega
      have hp : ∀ a, anyHas lst a = addedSince r h a := by
        intro a; have h1 := hhas a; have h2 := hi.pres a
        simp only [stash] at h2; rw [hu] at h1; simp at h1; rw [h1, h2]
      cases ht : c.temp r with
      | delta =>
        simp only [expected, hrep, hany, if_true, ht, Matches]
        refine ⟨trivial, ?_, trivial, ?_, ?_, NoDup_mergedFor _ _ _ _⟩
        · rw [startFor_delta, hi.ts]
        · intro a; rw [mergedFor_delta, valAt_mergeAll, hs a]
        · intro a; rw [mergedFor_delta, has_mergeAll, hp a]
      | cumulative =>
        simp only [expected, hrep, hany, if_true, ht, Matches]
        refine ⟨trivial, startFor_cum _ _, trivial, ?_, ?_, NoDup_mergedFor _ _ _ _⟩
        · intro a; have := hi.lastVal ht a; rw [valAt_mergedFor_cum, hs a, this]; omega
        · intro a; have := hi.lastPres ht a; rw [has_mergedFor_cum, hp a, this, addedEver_split r h a]

/-- **Refinement to the specification**: after *every* history `h` (any operations, any readers of mixed
    temporality collecting at unrelated times), a collection by reader `r` hands `r` exactly `expected c r h ts`. -/
theorem collect_matches (c : Cfg) (h : List SOp) (r ts : Nat) (hr : r < c.n) :
    Matches (collect c (srunRev c h).1 r ts).2 (expected c r h ts) :=
  collect_matches_of_inv c h _ r ts hr (inv_run c h r hr)

/-! ## The clauses of the property, for one stream (storage) -/

/-- the points of what a collection handed out (no `MetricData` = no points) -/
def pointsOf : Option MetricData → DMap
  | none => []
  | some md => md.points

/-- Σ over the `MetricData` handed to reader `r` of the value of the point for `a` (absent point = 0) -/
def delivered (r : Nat) : List (Nat × MetricData) → Nat → Int
  | [], _ => 0
  | (r', md) :: t, a => (if r' = r then valAt md.points a else 0) + delivered r t a

/-- the `MetricData` handed to reader `r`, most recent first -/
def outsFor (r : Nat) (l : List (Nat × MetricData)) : List MetricData := (l.filter (·.1 == r)).map (·.2)

theorem outs_cons_add (c : Cfg) (a : Nat) (v : Int) (o : List SOp) :
    (srunRev c (.add a v :: o)).2 = (srunRev c o).2 := rfl

theorem outs_cons_collect (c : Cfg) (r ts : Nat) (o : List SOp) :
    (srunRev c (.collect r ts :: o)).2 =
      match (collect c (srunRev c o).1 r ts).2 with
      | some md => (r, md) :: (srunRev c o).2
      | none => (srunRev c o).2 := by
  simp only [srunRev, sstep]
  cases (collect c (srunRev c o).1 r ts).2 <;> rfl

theorem collect_invalid_out (c : Cfg) (s : Storage) (r ts : Nat) (hv : ¬ r < c.n) : (collect c s r ts).2 = none := by
  simp [collect, hv]

theorem recSince_zero_of_anyAddSince : ∀ (h : List SOp) (r a : Nat), anyAddSince r h = false → recSince r h a = 0
  | [], _, _, _ => rfl
  | .add _ _ :: _, _, _, hh => by simp [anyAddSince] at hh
  | .collect r' _ :: o, r, a, hh => by
    by_cases hr : r' = r
    · simp [recSince, hr]
    · simp only [recSince, hr, if_false]; exact recSince_zero_of_anyAddSince o r a (by simpa [anyAddSince, hr] using hh)

theorem anyAddSince_of_anyAdd_false : ∀ (h : List SOp) (r : Nat), anyAdd h = false → anyAddSince r h = false
  | [], _, _ => rfl
  | .add _ _ :: _, _, hh => by simp [anyAdd] at hh
  | .collect r' _ :: o, r, hh => by
    by_cases hr : r' = r
    · simp [anyAddSince, hr]
    · simp only [anyAddSince, hr, if_false]; exact anyAddSince_of_anyAdd_false o r (by simpa [anyAdd] using hh)

theorem recorded_zero_of_anyAdd : ∀ (h : List SOp) (a : Nat), anyAdd h = false → recorded h a = 0
  | [], _, _ => rfl
  | .add _ _ :: _, _, hh => by simp [anyAdd] at hh
  | .collect _ _ :: o, a, hh => by simpa [recorded] using recorded_zero_of_anyAdd o a (by simpa [anyAdd] using hh)

/-- nothing to report means nothing is pending -/
theorem recSince_zero_of_not_reports (c : Cfg) (h : List SOp) (r a : Nat) (hrep : reports c r h = false) :
    recSince r h a = 0 := by
  unfold reports at hrep
  split at hrep
  · exact recSince_zero_of_anyAddSince h r a hrep
  · exact recSince_zero_of_anyAddSince h r a (anyAddSince_of_anyAdd_false h r hrep)

/-- the values of what `r` receives, in all cases (including "nothing handed out") -/
theorem collect_values (c : Cfg) (h : List SOp) (r ts : Nat) (hr : r < c.n) (a : Nat) :
    valAt (pointsOf (collect c (srunRev c h).1 r ts).2) a =
      match c.temp r with
      | .delta => recSince r h a
      | .cumulative => recorded h a := by
  have hm := collect_matches c h r ts hr
  cases hrep : reports c r h with
  | false =>
    have he : expected c r h ts = none := by simp [expected, hrep]
    rw [he] at hm
    cases ho : (collect c (srunRev c h).1 r ts).2 with
    | some md => rw [ho] at hm; simp [Matches] at hm
    | none =>
      simp only [pointsOf, valAt_nil]
      cases ht : c.temp r with
      | delta => simp [recSince_zero_of_not_reports c h r a hrep]
      | cumulative =>
        have hf : fastPath c.n (c.temp r) = false := by simp [fastPath_def, ht]
        have : anyAdd h = false := by simpa [reports, hf] using hrep
        simp [recorded_zero_of_anyAdd h a this]
  | true =>
    cases ho : (collect c (srunRev c h).1 r ts).2 with
    | none =>
      rw [ho] at hm; simp only [expected, hrep, if_true] at hm
      cases ht : c.temp r <;> rw [ht] at hm <;> simp [Matches] at hm
    | some md =>
      rw [ho] at hm
      cases ht : c.temp r with
      | delta => simp only [expected, hrep, if_true, ht, Matches] at hm; simpa [pointsOf] using hm.2.2.2.1 a
      | cumulative => simp only [expected, hrep, if_true, ht, Matches] at hm; simpa [pointsOf] using hm.2.2.2.1 a

/-- **interval_exact** (history most recent first): a delta reader's point for `a` is exactly the Σ of what was
    recorded for `a` since that reader's previous collection — whatever other readers did in between. -/
theorem interval_exact_rev (c : Cfg) (h : List SOp) (r ts : Nat) (hr : r < c.n) (hd : c.temp r = .delta) (a : Nat) :
    valAt (pointsOf (collect c (srunRev c h).1 r ts).2) a = recSince r h a := by
  rw [collect_values c h r ts hr a, hd]

/-- **cumulative_running_total**: a cumulative reader's point for `a` is the Σ of everything recorded for `a`
    before that collection. -/
theorem cumulative_running_total_rev (c : Cfg) (h : List SOp) (r ts : Nat) (hr : r < c.n)
    (hc : c.temp r = .cumulative) (a : Nat) :
    valAt (pointsOf (collect c (srunRev c h).1 r ts).2) a = recorded h a := by
  rw [collect_values c h r ts hr a, hc]

/-- what has been delivered to a delta reader so far is everything recorded before its last collection -/
theorem delivered_eq (c : Cfg) (r : Nat) (hr : r < c.n) (hd : c.temp r = .delta) (a : Nat) :
    ∀ h : List SOp, delivered r (srunRev c h).2 a = recorded h a - recSince r h a
  | [] => by simp [srunRev, delivered, recorded, recSince]
  | .add a' v :: o => by
    rw [outs_cons_add, delivered_eq c r hr hd a o]; simp only [recorded, recSince]; omega
  | .collect r' ts :: o => by
    rw [outs_cons_collect]
    have ih := delivered_eq c r hr hd a o
    by_cases he : r' = r
    · subst he
      have hv := interval_exact_rev c o r' ts hr hd a
      cases ho : (collect c (srunRev c o).1 r' ts).2 with
      | none => rw [ho] at hv; simp only [pointsOf, valAt_nil] at hv; simp only [recorded, recSince, if_true]; omega
      | some md =>
        rw [ho] at hv; simp only [pointsOf] at hv
        simp only [delivered, if_true, recorded, recSince]; omega
    · cases ho : (collect c (srunRev c o).1 r' ts).2 with
      | none => simp only [recorded, recSince, he, if_false]; exact ih
      | some md => simp only [delivered, he, if_false, recorded, recSince]; omega

/-- **delta_conservation**: for every history, the points a delta reader has received for `a` plus what its next
    collection would hand it add up exactly to everything recorded for `a`. -/
theorem delta_conservation_rev (c : Cfg) (h : List SOp) (r ts : Nat) (hr : r < c.n) (hd : c.temp r = .delta) (a : Nat) :
    delivered r (srunRev c h).2 a + valAt (pointsOf (collect c (srunRev c h).1 r ts).2) a = recorded h a := by
  rw [delivered_eq c r hr hd a h, interval_exact_rev c h r ts hr hd a]; omega

/-! ### intervals -/

theorem matches_none (c : Cfg) (r : Nat) (h : List SOp) (ts : Nat) (hm : Matches none (expected c r h ts)) :
    reports c r h = false := by
  cases hrep : reports c r h with
  | false => rfl
  | true => simp only [expected, hrep, if_true] at hm; cases ht : c.temp r <;> rw [ht] at hm <;> simp [Matches] at hm

theorem matches_some (c : Cfg) (r : Nat) (h : List SOp) (ts : Nat) (md : MetricData)
    (hm : Matches (some md) (expected c r h ts)) :
    reports c r h = true ∧ md.endTs = ts ∧ md.temporality = c.temp r ∧
      md.startTs = (match c.temp r with | .delta => (lastOut c r h).getD 0 | .cumulative => 0) := by
  cases hrep : reports c r h with
  | false => simp [expected, hrep, Matches] at hm
  | true =>
    simp only [expected, hrep, if_true] at hm
    cases ht : c.temp r <;> rw [ht] at hm <;> simp only [Matches] at hm <;> simp [hm.1, hm.2.1, hm.2.2.1]

/-- successive `MetricData` (most recent first) cover abutting intervals, the oldest starting at SDK start (0) -/
def Abut : List MetricData → Prop
  | [] => True
  | [md] => md.startTs = 0
  | md :: prev :: rest => md.startTs = prev.endTs ∧ Abut (prev :: rest)

theorem outsFor_cons_self (r : Nat) (md : MetricData) (l : List (Nat × MetricData)) :
    outsFor r ((r, md) :: l) = md :: outsFor r l := by simp [outsFor]

theorem outsFor_cons_other (r r' : Nat) (md : MetricData) (l : List (Nat × MetricData)) (h : r' ≠ r) :
    outsFor r ((r', md) :: l) = outsFor r l := by
  have : (r' == r) = false := by simp [h]
  simp [outsFor, this]

theorem abut_and_last (c : Cfg) (r : Nat) (hr : r < c.n) (hd : c.temp r = .delta) :
    ∀ h : List SOp, Abut (outsFor r (srunRev c h).2) ∧
      ((outsFor r (srunRev c h).2).head?).map (·.endTs) = lastOut c r h
  | [] => by simp [srunRev, outsFor, Abut, lastOut]
  | .add a v :: o => by rw [outs_cons_add]; simpa [lastOut] using abut_and_last c r hr hd o
  | .collect r' ts :: o => by
    rw [outs_cons_collect]
    have ih := abut_and_last c r hr hd o
    by_cases he : r' = r
    · subst he
      have hm := collect_matches c o r' ts hr
      cases ho : (collect c (srunRev c o).1 r' ts).2 with
      | none =>
        rw [ho] at hm
        simp only [lastOut, matches_none c r' o ts hm, Bool.false_eq_true, and_false, if_false]
        exact ih
      | some md =>
        rw [ho] at hm
        obtain ⟨hrep, hend, _, hstart⟩ := matches_some c r' o ts md hm
        rw [hd] at hstart
        simp only [outsFor_cons_self, lastOut, hrep, and_self, if_true, List.head?_cons, Option.map_some, hend]
        refine ⟨?_, trivial⟩
        cases hl : outsFor r' (srunRev c o).2 with
        | nil => rw [hl] at ih; simp at ih; simp [Abut, hstart, ← ih.2]
        | cons prev rest =>
          rw [hl] at ih; simp at ih
          simp only [Abut]; refine ⟨?_, ih.1⟩
          rw [hstart, ← ih.2]; rfl
    · cases ho : (collect c (srunRev c o).1 r' ts).2 with
      | none => simpa [lastOut, he] using ih
      | some md => simp only [outsFor_cons_other r r' md _ he, lastOut, he, false_and, if_false]; exact ih

/-- **delta_intervals_abut**: the `MetricData` a delta reader receives cover abutting intervals: the first starts at
    SDK start, each next one starts where the previous one ended. -/
theorem delta_intervals_abut_rev (c : Cfg) (h : List SOp) (r : Nat) (hr : r < c.n) (hd : c.temp r = .delta) :
    Abut (outsFor r (srunRev c h).2) := (abut_and_last c r hr hd h).1

/-- every `MetricData` in the output log was produced by a collection of a valid reader after some history -/
theorem outs_origin (c : Cfg) : ∀ (h : List SOp) (r : Nat) (md : MetricData), (r, md) ∈ (srunRev c h).2 →
    r < c.n ∧ ∃ o ts, Matches (some md) (expected c r o ts)
  | [], _, _, hmem => by simp [srunRev] at hmem
  | .add _ _ :: o, r, md, hmem => outs_origin c o r md (by rwa [outs_cons_add] at hmem)
  | .collect r' ts :: o, r, md, hmem => by
    rw [outs_cons_collect] at hmem
    cases ho : (collect c (srunRev c o).1 r' ts).2 with
    | none => rw [ho] at hmem; exact outs_origin c o r md hmem
    | some md' =>
      rw [ho] at hmem
      simp only [List.mem_cons, Prod.mk.injEq] at hmem
      rcases hmem with ⟨h1, h2⟩ | hmem
      · subst h1; subst h2
        by_cases hv : r < c.n
        · exact ⟨hv, o, ts, by rw [← ho]; exact collect_matches c o r ts hv⟩
        · rw [collect_invalid_out c _ r ts hv] at ho; cases ho
      · exact outs_origin c o r md hmem

/-- **cumulative_starts_at_sdk_start**: every `MetricData` a cumulative reader receives starts at SDK start. -/
theorem cumulative_starts_at_sdk_start_rev (c : Cfg) (h : List SOp) (r : Nat) (md : MetricData)
    (hc : c.temp r = .cumulative) (hmem : (r, md) ∈ (srunRev c h).2) : md.startTs = 0 ∧ md.temporality = .cumulative := by
  obtain ⟨_, o, ts, hm⟩ := outs_origin c h r md hmem
  obtain ⟨_, _, htemp, hstart⟩ := matches_some c r o ts md hm
  rw [hc] at hstart htemp
  exact ⟨hstart, htemp⟩

/-! ### reader non-interference -/

/-- keep the recordings and reader `r`'s own collections -/
def keepFor (r : Nat) : SOp → Bool
  | .add _ _ => true
  | .collect r' _ => r' == r

/-- the history with every other reader's collections removed -/
def withoutOthers (r : Nat) (h : List SOp) : List SOp := h.filter (keepFor r)

theorem wo_add (r a : Nat) (v : Int) (o : List SOp) : withoutOthers r (.add a v :: o) = .add a v :: withoutOthers r o := by
  simp [withoutOthers, List.filter_cons, keepFor]
theorem wo_self (r ts : Nat) (o : List SOp) : withoutOthers r (.collect r ts :: o) = .collect r ts :: withoutOthers r o := by
  simp [withoutOthers, List.filter_cons, keepFor]
theorem wo_other (r r' ts : Nat) (o : List SOp) (h : r' ≠ r) : withoutOthers r (.collect r' ts :: o) = withoutOthers r o := by
  have : (r' == r) = false := by simp [h]
  simp [withoutOthers, List.filter_cons, keepFor, this]

theorem recorded_wo (r : Nat) : ∀ (h : List SOp) (a : Nat), recorded (withoutOthers r h) a = recorded h a
  | [], _ => rfl
  | .add a' v :: o, a => by rw [wo_add]; simp [recorded, recorded_wo r o a]
  | .collect r' ts :: o, a => by
    by_cases he : r' = r
    · subst he; rw [wo_self]; simp [recorded, recorded_wo r' o a]
    · rw [wo_other r r' ts o he]; simp [recorded, recorded_wo r o a]

theorem recSince_wo (r : Nat) : ∀ (h : List SOp) (a : Nat), recSince r (withoutOthers r h) a = recSince r h a
  | [], _ => rfl
  | .add a' v :: o, a => by rw [wo_add]; simp [recSince, recSince_wo r o a]
  | .collect r' ts :: o, a => by
    by_cases he : r' = r
    · subst he; rw [wo_self]; simp [recSince]
    · rw [wo_other r r' ts o he]; simp [recSince, he, recSince_wo r o a]

theorem addedEver_wo (r : Nat) : ∀ (h : List SOp) (a : Nat), addedEver (withoutOthers r h) a = addedEver h a
  | [], _ => rfl
  | .add a' v :: o, a => by rw [wo_add]; simp [addedEver, addedEver_wo r o a]
  | .collect r' ts :: o, a => by
    by_cases he : r' = r
    · subst he; rw [wo_self]; simp [addedEver, addedEver_wo r' o a]
    · rw [wo_other r r' ts o he]; simp [addedEver, addedEver_wo r o a]

theorem addedSince_wo (r : Nat) : ∀ (h : List SOp) (a : Nat), addedSince r (withoutOthers r h) a = addedSince r h a
  | [], _ => rfl
  | .add a' v :: o, a => by rw [wo_add]; simp [addedSince, addedSince_wo r o a]
  | .collect r' ts :: o, a => by
    by_cases he : r' = r
    · subst he; rw [wo_self]; simp [addedSince]
    · rw [wo_other r r' ts o he]; simp [addedSince, he, addedSince_wo r o a]

theorem anyAdd_wo (r : Nat) : ∀ (h : List SOp), anyAdd (withoutOthers r h) = anyAdd h
  | [] => rfl
  | .add a' v :: o => by rw [wo_add]; simp [anyAdd]
  | .collect r' ts :: o => by
    by_cases he : r' = r
    · subst he; rw [wo_self]; simp [anyAdd, anyAdd_wo r' o]
    · rw [wo_other r r' ts o he]; simp [anyAdd, anyAdd_wo r o]

theorem anyAddSince_wo (r : Nat) : ∀ (h : List SOp), anyAddSince r (withoutOthers r h) = anyAddSince r h
  | [] => rfl
  | .add a' v :: o => by rw [wo_add]; simp [anyAddSince]
  | .collect r' ts :: o => by
    by_cases he : r' = r
    · subst he; rw [wo_self]; simp [anyAddSince]
    · rw [wo_other r r' ts o he]; simp [anyAddSince, he, anyAddSince_wo r o]

theorem reports_wo (c : Cfg) (r : Nat) (h : List SOp) : reports c r (withoutOthers r h) = reports c r h := by
  simp [reports, anyAdd_wo, anyAddSince_wo]

theorem lastOut_wo (c : Cfg) (r : Nat) : ∀ (h : List SOp), lastOut c r (withoutOthers r h) = lastOut c r h
  | [] => rfl
  | .add a' v :: o => by rw [wo_add]; simp [lastOut, lastOut_wo c r o]
  | .collect r' ts :: o => by
    by_cases he : r' = r
    · subst he; rw [wo_self]; simp [lastOut, reports_wo, lastOut_wo c r' o]
    · rw [wo_other r r' ts o he]; simp [lastOut, he, lastOut_wo c r o]

/-- what `r` must receive does not depend on the other readers' collections -/
theorem expected_wo (c : Cfg) (r : Nat) (h : List SOp) (ts : Nat) :
    expected c r (withoutOthers r h) ts = expected c r h ts := by
  have h1 : recSince r (withoutOthers r h) = recSince r h := funext (recSince_wo r h)
  have h2 : addedSince r (withoutOthers r h) = addedSince r h := funext (addedSince_wo r h)
  have h3 : recorded (withoutOthers r h) = recorded h := funext (recorded_wo r h)
  have h4 : addedEver (withoutOthers r h) = addedEver h := funext (addedEver_wo r h)
  simp [expected, reports_wo, lastOut_wo, h1, h2, h3, h4]

/-- two observations are the same: both nothing, or the same temporality and interval and the same set of points
    with the same values (the hash map's iteration order is not an observation) -/
def MDEquiv : Option MetricData → Option MetricData → Prop
  | none, none => True
  | some x, some y => x.temporality = y.temporality ∧ x.startTs = y.startTs ∧ x.endTs = y.endTs ∧
      (∀ a, valAt x.points a = valAt y.points a) ∧ (∀ a, has x.points a = has y.points a)
  | _, _ => False

theorem equiv_of_matches {x y : Option MetricData} {e : Option Expected} (hx : Matches x e) (hy : Matches y e) :
    MDEquiv x y := by
  cases x <;> cases y <;> cases e <;> simp only [Matches, MDEquiv] at * <;> try trivial
  exact ⟨hx.1.trans hy.1.symm, hx.2.1.trans hy.2.1.symm, hx.2.2.1.trans hy.2.2.1.symm,
    fun a => (hx.2.2.2.1 a).trans (hy.2.2.2.1 a).symm, fun a => (hx.2.2.2.2.1 a).trans (hy.2.2.2.2.1 a).symm⟩

/-- **reader_noninterference** (one collection): what `r` receives after history `h` is what it receives after the
    same history with all other readers' collections removed. -/
theorem reader_noninterference_step (c : Cfg) (h : List SOp) (r ts : Nat) (hr : r < c.n) :
    MDEquiv (collect c (srunRev c h).1 r ts).2 (collect c (srunRev c (withoutOthers r h)).1 r ts).2 := by
  have h1 := collect_matches c h r ts hr
  have h2 := collect_matches c (withoutOthers r h) r ts hr
  rw [expected_wo] at h2
  exact equiv_of_matches h1 h2

/-- two sequences of `MetricData` are the same, observation by observation -/
def SameSeq : List MetricData → List MetricData → Prop
  | [], [] => True
  | x :: xs, y :: ys => MDEquiv (some x) (some y) ∧ SameSeq xs ys
  | _, _ => False

/-- **reader_noninterference**: the whole sequence of `MetricData` reader `r` receives over a history equals,
    observation by observation, the sequence it receives when no other reader ever collects. -/
theorem reader_noninterference_rev (c : Cfg) (r : Nat) (hr : r < c.n) : ∀ h : List SOp,
    SameSeq (outsFor r (srunRev c h).2) (outsFor r (srunRev c (withoutOthers r h)).2)
  | [] => by simp [srunRev, outsFor, withoutOthers, SameSeq]
  | .add a v :: o => by rw [wo_add, outs_cons_add, outs_cons_add]; exact reader_noninterference_rev c r hr o
  | .collect r' ts :: o => by
    have ih := reader_noninterference_rev c r hr o
    by_cases he : r' = r
    · subst he
      rw [wo_self, outs_cons_collect, outs_cons_collect]
      have hs := reader_noninterference_step c o r' ts hr
      cases h1 : (collect c (srunRev c o).1 r' ts).2 with
      | none =>
        cases h2 : (collect c (srunRev c (withoutOthers r' o)).1 r' ts).2 with
        | none => exact ih
        | some y => rw [h1, h2] at hs; simp [MDEquiv] at hs
      | some x =>
        cases h2 : (collect c (srunRev c (withoutOthers r' o)).1 r' ts).2 with
        | none => rw [h1, h2] at hs; simp [MDEquiv] at hs
        | some y =>
          rw [h1, h2] at hs
          simp only [outsFor_cons_self]
          exact ⟨hs, ih⟩
    · rw [wo_other r r' ts o he, outs_cons_collect]
      cases h1 : (collect c (srunRev c o).1 r' ts).2 with
      | none => exact ih
      | some x => simp only [outsFor_cons_other r r' x _ he]; exact ih

/-! ## The same clauses for histories in chronological order (`srun`) -/

def isCollectBy (r : Nat) : SOp → Bool
  | .collect r' _ => r' == r
  | .add _ _ => false

/-- reader `r` does not collect in `l` -/
def NoCollectBy (r : Nat) (l : List SOp) : Prop := ∀ op ∈ l, isCollectBy r op = false

theorem recorded_append (l₁ l₂ : List SOp) (a : Nat) : recorded (l₁ ++ l₂) a = recorded l₁ a + recorded l₂ a := by
  induction l₁ with
  | nil => simp [recorded]
  | cons op t ih => cases op <;> simp only [List.cons_append, recorded, ih] <;> omega

theorem recorded_reverse (l : List SOp) (a : Nat) : recorded l.reverse a = recorded l a := by
  induction l with
  | nil => rfl
  | cons op t ih =>
    rw [List.reverse_cons, recorded_append, ih]
    cases op <;> simp [recorded] <;> omega

theorem recSince_prefix (r : Nat) (rest : List SOp) (t : Nat) (a : Nat) :
    ∀ l : List SOp, NoCollectBy r l → recSince r (l ++ .collect r t :: rest) a = recorded l a
  | [], _ => by simp [recSince, recorded]
  | .add a' v :: l, h => by
    simp only [List.cons_append, recSince, recorded]
    rw [recSince_prefix r rest t a l (fun op hm => h op (List.mem_cons_of_mem _ hm))]
  | .collect r' t' :: l, h => by
    have h1 := h (.collect r' t') (List.mem_cons_self ..)
    have hne : r' ≠ r := by simpa [isCollectBy] using h1
    simp only [List.cons_append, recSince, recorded, hne, if_false]
    exact recSince_prefix r rest t a l (fun op hm => h op (List.mem_cons_of_mem _ hm))

theorem recSince_all (r : Nat) (a : Nat) : ∀ l : List SOp, NoCollectBy r l → recSince r l a = recorded l a
  | [], _ => rfl
  | .add a' v :: l, h => by
    simp only [recSince, recorded]
    rw [recSince_all r a l (fun op hm => h op (List.mem_cons_of_mem _ hm))]
  | .collect r' t' :: l, h => by
    have h1 := h (.collect r' t') (List.mem_cons_self ..)
    have hne : r' ≠ r := by simpa [isCollectBy] using h1
    simp only [recSince, recorded, hne, if_false]
    exact recSince_all r a l (fun op hm => h op (List.mem_cons_of_mem _ hm))

theorem noCollectBy_reverse {r : Nat} {l : List SOp} (h : NoCollectBy r l) : NoCollectBy r l.reverse :=
  fun op hm => h op (List.mem_reverse.mp hm)

/-- **interval_exact**: in the chronological history `h₁, collect r, h₂, collect r` where `r` does not collect in
    `h₂`, the point `r` receives for `a` at the end is exactly the Σ of what was recorded for `a` in `h₂` — each
    measurement falls in exactly one collection interval of `r`, whatever the other readers do in `h₂`. -/
theorem interval_exact (c : Cfg) (h₁ h₂ : List SOp) (r t₁ t₂ : Nat) (hr : r < c.n) (hd : c.temp r = .delta)
    (hno : NoCollectBy r h₂) (a : Nat) :
    valAt (pointsOf (collect c (srun c (h₁ ++ .collect r t₁ :: h₂)).1 r t₂).2) a = recorded h₂ a := by
  unfold srun
  rw [List.reverse_append, List.reverse_cons, List.append_assoc, List.singleton_append,
    interval_exact_rev c _ r t₂ hr hd a, recSince_prefix r _ t₁ a _ (noCollectBy_reverse hno), recorded_reverse]

/-- the first interval starts with the history (SDK start) -/
theorem first_interval_exact (c : Cfg) (h : List SOp) (r ts : Nat) (hr : r < c.n) (hd : c.temp r = .delta)
    (hno : NoCollectBy r h) (a : Nat) :
    valAt (pointsOf (collect c (srun c h).1 r ts).2) a = recorded h a := by
  unfold srun
  rw [interval_exact_rev c _ r ts hr hd a, recSince_all r a _ (noCollectBy_reverse hno), recorded_reverse]

/-- **delta_conservation** (chronological) -/
theorem delta_conservation (c : Cfg) (h : List SOp) (r ts : Nat) (hr : r < c.n) (hd : c.temp r = .delta) (a : Nat) :
    delivered r (srun c h).2 a + valAt (pointsOf (collect c (srun c h).1 r ts).2) a = recorded h a := by
  unfold srun; rw [delta_conservation_rev c _ r ts hr hd a, recorded_reverse]

/-- **cumulative_running_total** (chronological) -/
theorem cumulative_running_total (c : Cfg) (h : List SOp) (r ts : Nat) (hr : r < c.n) (hc : c.temp r = .cumulative)
    (a : Nat) : valAt (pointsOf (collect c (srun c h).1 r ts).2) a = recorded h a := by
  unfold srun; rw [cumulative_running_total_rev c _ r ts hr hc a, recorded_reverse]

theorem withoutOthers_reverse (r : Nat) (h : List SOp) : withoutOthers r h.reverse = (withoutOthers r h).reverse := by
  simp [withoutOthers, List.filter_reverse]

/-- **reader_noninterference** (chronological): `outputs h r = outputs (h without other readers' collects) r` -/
theorem reader_noninterference (c : Cfg) (h : List SOp) (r : Nat) (hr : r < c.n) :
    SameSeq (outsFor r (srun c h).2) (outsFor r (srun c (withoutOthers r h)).2) := by
  unfold srun; rw [← withoutOthers_reverse]; exact reader_noninterference_rev c r hr _

/-- **delta_intervals_abut** (chronological; the output log lists the most recent `MetricData` first) -/
theorem delta_intervals_abut (c : Cfg) (h : List SOp) (r : Nat) (hr : r < c.n) (hd : c.temp r = .delta) :
    Abut (outsFor r (srun c h).2) := delta_intervals_abut_rev c _ r hr hd

/-- **cumulative_starts_at_sdk_start** (chronological) -/
theorem cumulative_starts_at_sdk_start (c : Cfg) (h : List SOp) (r : Nat) (md : MetricData)
    (hc : c.temp r = .cumulative) (hmem : (r, md) ∈ (srun c h).2) : md.startTs = 0 ∧ md.temporality = .cumulative :=
  cumulative_starts_at_sdk_start_rev c _ r md hc hmem

/-! ## Measurements recorded concurrently with collections: every interleaving of add / swap / build -/

/-- Σ of everything recorded for `a` in a schedule -/
def recordedS : List Step → Nat → Int
  | [], _ => 0
  | .add a' v :: o, a => (if a' = a then v else 0) + recordedS o a
  | .swap _ _ _ :: o, a => recordedS o a
  | .build _ :: o, a => recordedS o a

/-- Σ of what collector threads hold between their swap and their build -/
def flightSum : List Flight → Nat → Int
  | [], _ => 0
  | f :: t, a => valAt f.δ a + flightSum t a

theorem flightSum_take (tid : Nat) (a : Nat) : ∀ (l : List Flight) (f : Flight) (rest : List Flight),
    takeFlight tid l = some (f, rest) → flightSum l a = valAt f.δ a + flightSum rest a
  | [], _, _, h => by simp [takeFlight] at h
  | g :: t, f, rest, h => by
    unfold takeFlight at h
    by_cases hg : g.tid = tid
    · simp only [hg, if_true, Option.some.injEq, Prod.mk.injEq] at h
      obtain ⟨rfl, rfl⟩ := h; rfl
    · simp only [hg, if_false] at h
      cases ht : takeFlight tid t with
      | none => rw [ht] at h; simp at h
      | some p =>
        rw [ht] at h; simp only [Option.map_some, Option.some.injEq, Prod.mk.injEq] at h
        obtain ⟨rfl, rfl⟩ := h
        have := flightSum_take tid a t p.1 p.2 (by rw [ht])
        simp only [flightSum, this]; omega

theorem takeFlight_valid (c : Cfg) : ∀ (sch : List Step) (tid : Nat) (f : Flight) (rest : List Flight),
    takeFlight tid (crunRev c sch).inflight = some (f, rest) → f.r < c.n := by
  suffices h : ∀ (sch : List Step) (f : Flight), f ∈ (crunRev c sch).inflight → f.r < c.n by
    intro sch tid f rest ht
    apply h sch f
    generalize (crunRev c sch).inflight = l at ht
    induction l generalizing rest with
    | nil => simp [takeFlight] at ht
    | cons g t ih =>
      unfold takeFlight at ht
      by_cases hg : g.tid = tid
      · simp only [hg, if_true, Option.some.injEq, Prod.mk.injEq] at ht; simp [ht.1]
      · simp only [hg, if_false] at ht
        cases htt : takeFlight tid t with
        | none => rw [htt] at ht; simp at ht
        | some p =>
          rw [htt] at ht; simp only [Option.map_some, Option.some.injEq, Prod.mk.injEq] at ht
          exact List.mem_cons_of_mem _ (ih p.2 (by rw [htt, ← ht.1]))
  have hsub : ∀ (tid : Nat) (l : List Flight) (f : Flight) (rest : List Flight),
      takeFlight tid l = some (f, rest) → ∀ g ∈ rest, g ∈ l := by
    intro tid l
    induction l with
    | nil => intro f rest ht; simp [takeFlight] at ht
    | cons g t ih =>
      intro f rest ht x hx
      unfold takeFlight at ht
      by_cases hg : g.tid = tid
      · simp only [hg, if_true, Option.some.injEq, Prod.mk.injEq] at ht; rw [← ht.2] at hx; exact List.mem_cons_of_mem _ hx
      · simp only [hg, if_false] at ht
        cases htt : takeFlight tid t with
        | none => rw [htt] at ht; simp at ht
        | some p =>
          rw [htt] at ht; simp only [Option.map_some, Option.some.injEq, Prod.mk.injEq] at ht
          rw [← ht.2] at hx
          rcases List.mem_cons.mp hx with rfl | hx
          · exact List.mem_cons_self ..
          · exact List.mem_cons_of_mem _ (ih p.1 p.2 (by rw [htt]) x hx)
  intro sch
  induction sch with
  | nil => intro f hf; simp [crunRev, Conc.init] at hf
  | cons st o ih =>
    intro f hf
    cases st with
    | add a v => exact ih f hf
    | swap tid r ts =>
      simp only [crunRev, cstep] at hf
      split at hf
      · rename_i hc
        rcases List.mem_cons.mp hf with rfl | hf
        · exact hc.1
        · exact ih f hf
      · exact ih f hf
    | build tid =>
      simp only [crunRev, cstep] at hf
      cases ht : takeFlight tid (crunRev c o).inflight with
      | none => rw [ht] at hf; exact ih f hf
      | some p => rw [ht] at hf; exact ih f (hsub tid _ p.1 p.2 ht f hf)

/-- state-level facts about one `build` step on the general path, for the collecting reader and for the others -/
theorem build_multi_other (c : Cfg) (s : Storage) (r' ts : Nat) (δ : DMap) (hv : r' < c.n)
    (hf : fastPath c.n (c.temp r') = false) (r : Nat) (hr : r < c.n) (hne : r' ≠ r) (a : Nat) :
    sumAt (stash (build c s r' ts δ).1.temporal r) a = sumAt (stash s.temporal r) a + valAt δ a ∧
    lastMap (build c s r' ts δ).1.temporal r = lastMap s.temporal r ∧
    ((build c s r' ts δ).1.temporal.last r).isSome = (s.temporal.last r).isSome ∧
    (((s.temporal.unreported r).isSome = true → ((build c s r' ts δ).1.temporal.unreported r).isSome = true)) ∧
    (build c s r' ts δ).1.cur = s.cur := by
  have hne' : r ≠ r' := fun e => hne e.symm
  have hsum := stashed_sum c.n s.temporal.unreported δ r hr a
  have hsome := stashed_isSome c.n s.temporal.unreported δ r hr
  unfold build
  cases hu : stashed c.n s.temporal.unreported δ r' with
  | none =>
    rw [buildMetrics_multi_none _ _ _ _ _ _ hf hu]
    simp only [stash, lastMap]
    exact ⟨hsum, trivial, trivial, fun h => by rw [hsome, h]; rfl, trivial⟩
  | some lst =>
    rw [buildMetrics_multi_some _ _ _ _ _ _ lst hf hu]
    simp only [stash, lastMap, setAt_other _ _ hne']
    exact ⟨hsum, trivial, trivial, fun h => by rw [hsome, h]; rfl, trivial⟩

/-- **The schedule invariant**, per reader: everything recorded is either already delivered (delta) / contained in
    the last report (cumulative), or in the reader's stash, or in the current map, or in flight. -/
structure SInv (c : Cfg) (sch : List Step) (s : Conc) (r : Nat) : Prop where
  cons : ∀ a, (match c.temp r with
          | .delta => delivered r s.outs a
          | .cumulative => valAt (lastMap s.st.temporal r) a) +
         (if fastPath c.n (c.temp r) then 0 else sumAt (stash s.st.temporal r) a) +
         valAt s.st.cur a + flightSum s.inflight a = recordedS sch a
  lastStash : (s.st.temporal.last r).isSome = true → (s.st.temporal.unreported r).isSome = true ∨ fastPath c.n (c.temp r) = true

theorem sinv_init (c : Cfg) (r : Nat) : SInv c [] Conc.init r := by
  constructor
  · intro a; cases c.temp r <;> simp [Conc.init, Storage.init, TState.init, delivered, lastMap, stash, flightSum, recordedS]
  · simp [Conc.init, Storage.init, TState.init]

theorem sinv_build (c : Cfg) (sch : List Step) (s : Conc) (tid : Nat) (f : Flight) (rest : List Flight)
    (ht : takeFlight tid s.inflight = some (f, rest)) (hv : f.r < c.n) (r : Nat) (hr : r < c.n)
    (hi : SInv c sch s r) : SInv c (.build tid :: sch) (cstep c s (.build tid)) r := by
  have hfl := fun a => flightSum_take tid a s.inflight f rest ht
  simp only [cstep, ht]
  cases hf : fastPath c.n (c.temp f.r) with
  | true =>
    have hn : c.n = 1 := ((fastPath_iff _ _).mp hf).1
    have hrr : f.r = r := by omega
    have hd : c.temp r = .delta := by rw [← hrr]; exact ((fastPath_iff _ _).mp hf).2
    have hfr : fastPath c.n (c.temp r) = true := by rw [← hrr]; exact hf
    unfold build
    rw [buildMetrics_fast _ _ _ _ _ _ hf]
    by_cases he : f.δ.isEmpty
    · have hnil : f.δ = [] := List.isEmpty_iff.mp he
      simp only [he, if_true]
      constructor
      · intro a; have h1 := hi.cons a; have h2 := hfl a
        rw [hnil] at h2; simp only [valAt_nil] at h2
        simp only [recordedS]; rw [← h1, h2]; simp
      · intro _; exact Or.inr hfr
    · simp only [he, Bool.false_eq_true, if_false]
      constructor
      · intro a; have h1 := hi.cons a; have h2 := hfl a
        have hfd : fastPath c.n Temporality.delta = true := by rw [← hd]; exact hfr
        rw [hd] at h1 ⊢
        simp only [hfd, if_true, recordedS] at h1 ⊢
        simp only [delivered, hrr, if_true]; omega
      · intro _; exact Or.inr hfr
  | false =>
    have hfr : fastPath c.n (c.temp r) = false := by rw [fastPath_same c hr hv]; exact hf
    by_cases hne : f.r = r
    · -- the collecting reader itself
      subst hne
      have hsum := stashed_sum c.n s.st.temporal.unreported f.δ f.r hr
      have hsome := stashed_isSome c.n s.st.temporal.unreported f.δ f.r hr
      unfold build
      cases hu : stashed c.n s.st.temporal.unreported f.δ f.r with
      | none =>
        rw [buildMetrics_multi_none _ _ _ _ _ _ hf hu]
        have hold : (s.st.temporal.unreported f.r).isSome = false := by
          have := hsome; rw [hu] at this
          cases hx : (s.st.temporal.unreported f.r).isSome with
          | false => rfl
          | true => rw [hx] at this; simp at this
        constructor
        · intro a; have h1 := hi.cons a; have h2 := hfl a; have h3 := hsum a
          rw [hu] at h3; simp only [Option.getD_none, sumAt_nil] at h3
          simp only [hfr, Bool.false_eq_true, if_false, recordedS, stash, hu, Option.getD_none, sumAt_nil, lastMap] at h1 ⊢
          omega
        · intro hl
          simp only at hl
          rcases hi.lastStash hl with h | h
          · rw [hold] at h; simp at h
          · rw [hfr] at h; simp at h
      | some lst =>
        rw [buildMetrics_multi_some _ _ _ _ _ _ lst hf hu]
        have hl : ∀ a, sumAt lst a = sumAt (stash s.st.temporal f.r) a + valAt f.δ a := by
          intro a; have := hsum a; rw [hu] at this; simpa [stash] using this
        constructor
        · intro a; have h1 := hi.cons a; have h2 := hfl a; have h3 := hl a
          simp only [hfr, Bool.false_eq_true, if_false, recordedS, stash, setAt_same, Option.getD_some, sumAt_nil,
            lastMap, Option.map_some] at h1 h3 ⊢
          cases htmp : c.temp f.r with
          | delta =>
            rw [htmp] at h1
            simp only [delivered, if_true, mergedFor_delta, valAt_mergeAll] at h1 ⊢
            omega
          | cumulative =>
            rw [htmp] at h1
            simp only [valAt_mergedFor_cum, lastMap] at h1 ⊢
            omega
        · intro _; left; simp
    · -- another reader's collection: the delta goes to this reader's stash
      have hne' : f.r ≠ r := hne
      have hb := fun a => build_multi_other c s.st f.r f.ts f.δ hv hf r hr hne' a
      constructor
      · intro a
        obtain ⟨b1, b2, _, _, b5⟩ := hb a
        have h1 := hi.cons a; have h2 := hfl a
        simp only [hfr, Bool.false_eq_true, if_false, recordedS] at h1 ⊢
        rw [b1, b2, b5]
        cases htmp : c.temp r with
        | delta =>
          rw [htmp] at h1; simp only at h1 ⊢
          cases (build c s.st f.r f.ts f.δ).2 with
          | none => simp only []; omega
          | some md => simp only [delivered, hne', if_false]; omega
        | cumulative => rw [htmp] at h1; simp only at h1 ⊢; omega
      · intro hl
        obtain ⟨_, _, b3, b4, _⟩ := hb 0
        rw [b3] at hl
        rcases hi.lastStash hl with h | h
        · exact Or.inl (b4 h)
        · exact Or.inr h

theorem sinv_step (c : Cfg) (sch : List Step) (st : Step) (r : Nat) (hr : r < c.n)
    (hi : SInv c sch (crunRev c sch) r) : SInv c (st :: sch) (crunRev c (st :: sch)) r := by
  cases st with
  | add a' v =>
    simp only [crunRev, cstep]
    constructor
    · intro a; have h1 := hi.cons a
      simp only [record, valAt_addTo, recordedS]; omega
    · exact hi.lastStash
  | swap tid r' ts =>
    simp only [crunRev, cstep]
    split
    · constructor
      · intro a; have h1 := hi.cons a
        simp only [swap, flightSum, recordedS, valAt_nil]; omega
      · exact hi.lastStash
    · exact ⟨fun a => by simpa [recordedS] using hi.cons a, hi.lastStash⟩
  | build tid =>
    cases ht : takeFlight tid (crunRev c sch).inflight with
    | none =>
      simp only [crunRev, cstep, ht]
      exact ⟨fun a => by simpa [recordedS] using hi.cons a, hi.lastStash⟩
    | some p =>
      exact sinv_build c sch _ tid p.1 p.2 ht (takeFlight_valid c sch tid p.1 p.2 ht) r hr hi

/-- the schedule invariant holds after every schedule -/
theorem sinv_run (c : Cfg) (r : Nat) (hr : r < c.n) : ∀ sch : List Step, SInv c sch (crunRev c sch) r
  | [] => sinv_init c r
  | st :: sch => sinv_step c sch st r hr (sinv_run c r hr sch)

/-- the value a delta reader's next collection would hand it, from the state alone -/
theorem collect_value_delta_state (c : Cfg) (s : Storage) (r ts : Nat) (hr : r < c.n) (hd : c.temp r = .delta) (a : Nat) :
    valAt (pointsOf (collect c s r ts).2) a =
      (if fastPath c.n (c.temp r) then 0 else sumAt (stash s.temporal r) a) + valAt s.cur a := by
  rw [collect_eq c s r ts hr]
  cases hf : fastPath c.n (c.temp r) with
  | true =>
    rw [buildMetrics_fast _ _ _ _ _ _ hf]
    by_cases he : s.cur.isEmpty
    · have : s.cur = [] := List.isEmpty_iff.mp he
      simp [he, pointsOf, this]
    · simp [he, pointsOf]
  | false =>
    have hsum := stashed_sum c.n s.temporal.unreported s.cur r hr a
    cases hu : stashed c.n s.temporal.unreported s.cur r with
    | none =>
      rw [buildMetrics_multi_none _ _ _ _ _ _ hf hu]
      rw [hu] at hsum; simp only [Option.getD_none, sumAt_nil] at hsum
      simp only [pointsOf, valAt_nil, Bool.false_eq_true, if_false, stash]; omega
    | some lst =>
      rw [buildMetrics_multi_some _ _ _ _ _ _ lst hf hu]
      rw [hu] at hsum; simp only [Option.getD_some] at hsum
      simp only [pointsOf, hd, mergedFor_delta, valAt_mergeAll, Bool.false_eq_true, if_false, stash]; omega

/-- **sched_conservation** — measurements recorded concurrently with collections are conserved: after *every*
    interleaving of `Add`s, swaps and builds by any number of collector threads, what a delta reader has received,
    plus what its next collection would hand it, plus what collector threads still hold between swap and build,
    is exactly everything recorded. -/
theorem sched_conservation (c : Cfg) (sch : List Step) (r ts : Nat) (hr : r < c.n) (hd : c.temp r = .delta) (a : Nat) :
    delivered r (crunRev c sch).outs a + valAt (pointsOf (collect c (crunRev c sch).st r ts).2) a
      + flightSum (crunRev c sch).inflight a = recordedS sch a := by
  have h := (sinv_run c r hr sch).cons a
  rw [collect_value_delta_state c _ r ts hr hd a]
  rw [hd] at h ⊢
  simp only at h; omega

/-- at quiescence (every swap has been followed by its build) nothing is in flight: delivered + pending = recorded -/
theorem sched_conservation_quiescent (c : Cfg) (sch : List Step) (r ts : Nat) (hr : r < c.n) (hd : c.temp r = .delta)
    (hq : (crunRev c sch).inflight = []) (a : Nat) :
    delivered r (crunRev c sch).outs a + valAt (pointsOf (collect c (crunRev c sch).st r ts).2) a = recordedS sch a := by
  have := sched_conservation c sch r ts hr hd a
  rw [hq] at this; simpa [flightSum] using this

/-- **sched_no_lost_update** — for a cumulative reader: after every interleaving, the total its next collection
    reports plus what is still in flight is everything recorded (no update is lost or counted twice). -/
theorem sched_no_lost_update (c : Cfg) (sch : List Step) (r ts : Nat) (hr : r < c.n) (hc : c.temp r = .cumulative) (a : Nat) :
    valAt (pointsOf (collect c (crunRev c sch).st r ts).2) a + flightSum (crunRev c sch).inflight a = recordedS sch a := by
  have hi := sinv_run c r hr sch
  have h := hi.cons a
  have hf : fastPath c.n (c.temp r) = false := by simp [fastPath_def, hc]
  rw [hc] at h; simp only [← hc, hf, Bool.false_eq_true, if_false] at h
  rw [collect_eq c _ r ts hr]
  have hsum := stashed_sum c.n (crunRev c sch).st.temporal.unreported (crunRev c sch).st.cur r hr a
  have hsome := stashed_isSome c.n (crunRev c sch).st.temporal.unreported (crunRev c sch).st.cur r hr
  cases hu : stashed c.n (crunRev c sch).st.temporal.unreported (crunRev c sch).st.cur r with
  | none =>
    rw [buildMetrics_multi_none _ _ _ _ _ _ hf hu]
    rw [hu] at hsum hsome; simp only [Option.getD_none, sumAt_nil] at hsum
    have hnl : (crunRev c sch).st.temporal.last r = none := by
      cases hl : (crunRev c sch).st.temporal.last r with
      | none => rfl
      | some p =>
        rcases hi.lastStash (by rw [hl]; rfl) with h' | h'
        · rw [h'] at hsome; simp at hsome
        · rw [hf] at h'; simp at h'
    simp only [lastMap, hnl, Option.map_none, Option.getD_none, valAt_nil, stash] at h
    simp only [pointsOf, valAt_nil]; omega
  | some lst =>
    rw [buildMetrics_multi_some _ _ _ _ _ _ lst hf hu]
    rw [hu] at hsum; simp only [Option.getD_some] at hsum
    simp only [pointsOf, hc, valAt_mergedFor_cum, stash] at h ⊢; omega

/-- a race: thread 7 swaps for reader 0 (taking the 5), an `Add` of 3 arrives, thread 8 swaps and builds for
    reader 1, thread 7 has not built yet: for reader 0 nothing is delivered, 3 are pending in its stash, 5 are in
    flight; after thread 7's build it receives all 8. -/
example : let c : Cfg := ⟨[.delta, .cumulative]⟩
    let s := crunRev c [.build 8, .swap 8 1 2, .add 4 3, .swap 7 0 1, .add 4 5]
    (delivered 0 s.outs 4, valAt (pointsOf (collect c s.st 0 9).2) 4, flightSum s.inflight 4) = (0, 3, 5) := by decide
example : let c : Cfg := ⟨[.delta, .cumulative]⟩
    let s := crunRev c [.build 7, .build 8, .swap 8 1 2, .add 4 3, .swap 7 0 1, .add 4 5]
    (delivered 0 s.outs 4, valAt (pointsOf (collect c s.st 0 9).2) 4, flightSum s.inflight 4) = (8, 0, 0) := by decide

/-- the hypotheses of the reader theorems are satisfiable: configurations with a delta and a cumulative reader -/
example : let c : Cfg := ⟨[.delta, .cumulative]⟩
    (0 < c.n ∧ c.temp 0 = .delta) ∧ (1 < c.n ∧ c.temp 1 = .cumulative) := by decide
example : NoCollectBy 0 [.add 1 2, .collect 1 5] := by
  intro op h; simp at h; rcases h with rfl | rfl <;> rfl

/-! ## What the theorems assume about the source text (re-extracted on every run into `Gen/MetricsTemporal.lean`) -/

/-- the fast path of `buildMetrics` is `collectors.size() == 1 && … == kDelta` -/
theorem gen_fast_path : Gen.temporalFastPathCollectors = 1 ∧ Gen.temporalFastPathIsDelta = true := by decide

/-- `SumAggregation::Merge` adds, `Diff` subtracts `this` from `next` (long and double) -/
theorem gen_sum_signs : Gen.longSumMergeSign = 1 ∧ Gen.longSumDiffSign = -1 ∧
    Gen.doubleSumMergeSign = 1 ∧ Gen.doubleSumDiffSign = -1 := by decide

/-! ## The meter: every handle and every view stream counts -/

/-- the handles created in a history (most recent operation first), in creation order -/
def created : List MOp → List (Nat × Kind)
  | [] => []
  | .create n k :: o => created o ++ [(n, k)]
  | .add _ _ _ :: o => created o
  | .collect _ :: o => created o

/-- number of collections in a history = the logical stamp of the most recent one -/
def collectsIn : List MOp → Nat
  | [] => 0
  | .collect _ :: o => collectsIn o + 1
  | .create _ _ :: o => collectsIn o
  | .add _ _ _ :: o => collectsIn o

/-- **The operations of a meter history that concern stream `key`**: every `Add` made through *any* handle created
    for the instrument `(key.name, key.kind)` (with the value as it reaches the aggregation), and every collection,
    stamped with its index.  This is the specification of the fan-out: it mentions neither the registry nor which
    handle or view came first. -/
def proj (mc : MCfg) (key : StreamKey) : List MOp → List SOp
  | [] => []
  | .create _ _ :: o => proj mc key o
  | .add hd a v :: o =>
    match (created o)[hd]? with
    | none => proj mc key o
    | some (n, k) =>
      if n = key.name ∧ k = key.kind ∧ key.view < nStreams mc n k then
        match effective k v with
        | none => proj mc key o
        | some v' => .add a v' :: proj mc key o
      else proj mc key o
  | .collect r :: o => .collect r (collectsIn o + 1) :: proj mc key o

theorem mem_streamKeys (mc : MCfg) (n : Nat) (k : Kind) (key : StreamKey) :
    key ∈ streamKeys mc n k ↔ n = key.name ∧ k = key.kind ∧ key.view < nStreams mc n k := by
  unfold streamKeys
  simp only [List.mem_map, List.mem_range]
  constructor
  · rintro ⟨j, hj, rfl⟩; exact ⟨rfl, rfl, hj⟩
  · rintro ⟨h1, h2, h3⟩; exact ⟨key.view, h3, by cases key; simp_all⟩

theorem collect_init (c : Cfg) (r ts : Nat) : collect c Storage.init r ts = (Storage.init, none) := by
  unfold collect
  split
  · simp only [swap, build, Storage.init, buildMetrics, TState.init]
    split <;> simp
  · rfl

/-- the meter state is consistent with history `h` -/
structure MInv (mc : MCfg) (h : List MOp) (m : Meter) : Prop where
  handles : m.handles = (created h).map fun nk => (nk.2, streamKeys mc nk.1 nk.2)
  collects : m.collects = collectsIn h
  /-- every stream's storage is in the state its own projected history leads to -/
  state : ∀ key, (m.registry key).getD Storage.init = (srunRev mc.cfg (proj mc key h)).1
  /-- a stream is registered iff some handle was created for its instrument -/
  reg : ∀ key, (m.registry key).isSome = true ↔ ∃ nk ∈ created h, key ∈ streamKeys mc nk.1 nk.2
  keys : ∀ key, key ∈ m.keys ↔ (m.registry key).isSome = true

theorem foldl_register (ks : List StreamKey) : ∀ (m : Meter),
    (∀ key, ((ks.foldl register m).registry key) =
        if key ∈ ks ∧ m.registry key = none then some Storage.init else m.registry key) ∧
    (ks.foldl register m).handles = m.handles ∧ (ks.foldl register m).collects = m.collects ∧
    (∀ key, key ∈ (ks.foldl register m).keys ↔ (key ∈ m.keys ∨ (key ∈ ks ∧ m.registry key = none))) := by
  induction ks with
  | nil => intro m; simp
  | cons k t ih =>
    intro m
    simp only [List.foldl_cons]
    obtain ⟨h1, h2, h3, h4⟩ := ih (register m k)
    cases hk : m.registry k with
    | some s0 =>
      have hreg : register m k = m := by simp [register, hk]
      rw [hreg] at h1 h2 h3 h4 ⊢
      refine ⟨?_, h2, h3, ?_⟩
      · intro key; rw [h1 key]
        by_cases hkk : key = k
        · subst hkk; simp [hk]
        · simp [hkk]
      · intro key; rw [h4 key]
        by_cases hkk : key = k
        · subst hkk; simp [hk]
        · simp [hkk]
    | none =>
      have hreg : (register m k).registry = fun x => if x = k then some Storage.init else m.registry x := by
        simp [register, hk]
      have hkeys : (register m k).keys = m.keys ++ [k] := by simp [register, hk]
      have hh : (register m k).handles = m.handles := by simp [register, hk]
      have hc : (register m k).collects = m.collects := by simp [register, hk]
      refine ⟨?_, h2.trans hh, h3.trans hc, ?_⟩
      · intro key; rw [h1 key, hreg]
        by_cases hkk : key = k
        · subst hkk; simp [hk]
        · simp [hkk]
      · intro key; rw [h4 key, hreg, hkeys]
        by_cases hkk : key = k
        · subst hkk; simp [hk]
        · simp [hkk]

theorem minv_init (mc : MCfg) : MInv mc [] Meter.init := by
  constructor <;> simp [Meter.init, created, collectsIn, proj, srunRev]

theorem minv_step (mc : MCfg) (h : List MOp) (m : Meter) (op : MOp) (hi : MInv mc h m) :
    MInv mc (op :: h) (mstep mc m op) := by
  cases op with
  | create n k =>
    obtain ⟨h1, h2, h3, h4⟩ := foldl_register (streamKeys mc n k) m
    simp only [mstep, mcreate]
    constructor
    · simp [h2, hi.handles, created]
    · simp [h3, hi.collects, collectsIn]
    · intro key
      simp only [h1 key, proj]
      rw [← hi.state key]
      split
      · rename_i hc; simp [hc.2]
      · rfl
    · intro key
      simp only [h1 key, created, List.mem_append, List.mem_singleton]
      constructor
      · intro hs
        by_cases hc : key ∈ streamKeys mc n k ∧ m.registry key = none
        · exact ⟨(n, k), Or.inr rfl, hc.1⟩
        · simp only [hc, if_false] at hs
          obtain ⟨nk, hm, hk⟩ := (hi.reg key).mp hs
          exact ⟨nk, Or.inl hm, hk⟩
      · rintro ⟨nk, hm | hm, hk⟩
        · have := (hi.reg key).mpr ⟨nk, hm, hk⟩
          split
          · rfl
          · exact this
        · subst hm
          cases hr : m.registry key with
          | none => simp [hk]
          | some s0 => simp
    · intro key
      simp only [h4 key, h1 key, hi.keys key]
      cases hr : m.registry key with
      | none => by_cases hk : key ∈ streamKeys mc n k <;> simp [hk]
      | some s0 => simp
  | add hd a v =>
    simp only [mstep, madd]
    have hh : m.handles[hd]? = ((created h)[hd]?).map fun nk => (nk.2, streamKeys mc nk.1 nk.2) := by
      rw [hi.handles]; simp
    cases hc : (created h)[hd]? with
    | none =>
      rw [hh, hc]; simp only [Option.map_none]
      exact ⟨by simpa [created] using hi.handles, by simpa [collectsIn] using hi.collects,
        fun key => by simpa [proj, hc] using hi.state key, fun key => by simpa [created] using hi.reg key, hi.keys⟩
    | some nk =>
      obtain ⟨n, k⟩ := nk
      rw [hh, hc]; simp only [Option.map_some]
      cases he : effective k v with
      | none =>
        simp only
        exact ⟨by simpa [created] using hi.handles, by simpa [collectsIn] using hi.collects,
          fun key => by
            have := hi.state key
            simp only [proj, hc, he]; split <;> exact this,
          fun key => by simpa [created] using hi.reg key, hi.keys⟩
      | some v' =>
        simp only
        have hmemc : (n, k) ∈ created h := List.mem_of_getElem? hc
        refine ⟨by simpa [created] using hi.handles, by simpa [collectsIn] using hi.collects, ?_, ?_, ?_⟩
        · intro key
          simp only [proj, hc, he, List.contains_iff_mem]
          by_cases hk : key ∈ streamKeys mc n k
          · have hcond := (mem_streamKeys mc n k key).mp hk
            have hsome := (hi.reg key).mpr ⟨(n, k), hmemc, hk⟩
            rw [if_pos hk, if_pos hcond]
            simp only [srunRev, sstep]
            rw [← hi.state key]
            cases hr : m.registry key with
            | none => rw [hr] at hsome; simp at hsome
            | some s0 => simp
          · have hcond : ¬ (n = key.name ∧ k = key.kind ∧ key.view < nStreams mc n k) :=
              fun hc' => hk ((mem_streamKeys mc n k key).mpr hc')
            rw [if_neg hk, if_neg hcond]
            exact hi.state key
        · intro key
          simp only [created, List.contains_iff_mem]
          rw [← hi.reg key]
          split <;> simp
        · intro key
          simp only [List.contains_iff_mem]
          rw [hi.keys key]
          split <;> simp
  | collect r =>
    simp only [mstep, mcollect]
    refine ⟨by simpa [created] using hi.handles, by simp [collectsIn, hi.collects], ?_, ?_, ?_⟩
    · intro key
      simp only [proj, srunRev, sstep]
      rw [← hi.state key, hi.collects]
      cases hr : m.registry key with
      | none => simp [collect_init]
      | some s0 => simp
    · intro key; simp only [created]; rw [← hi.reg key]; simp
    · intro key; simp only []; rw [hi.keys key]; simp

/-- the consistency invariant holds after every meter history -/
theorem minv_run (mc : MCfg) : ∀ h : List MOp, MInv mc h (mrunRev mc h)
  | [] => minv_init mc
  | op :: h => minv_step mc h _ op (minv_run mc h)

/-- what reader `r` receives for stream `key` when it collects after meter history `h` -/
def streamOut (mc : MCfg) (h : List MOp) (r : Nat) (key : StreamKey) : Option MetricData :=
  (mcollect mc (mrunRev mc h) r).2 key

/-- a stream of the meter behaves exactly like one storage driven by the stream's projected history -/
theorem streamOut_eq (mc : MCfg) (h : List MOp) (r : Nat) (key : StreamKey) :
    streamOut mc h r key = (collect mc.cfg (srunRev mc.cfg (proj mc key h)).1 r (collectsIn h + 1)).2 := by
  have hi := minv_run mc h
  unfold streamOut mcollect
  simp only []
  rw [← hi.state key, hi.collects]
  cases hr : (mrunRev mc h).registry key with
  | none => simp [collect_init]
  | some s0 => simp

/-- **Refinement at the meter**: for every meter history, every stream and every reader, a collection hands the
    reader exactly what the property prescribes for the stream's history. -/
theorem meter_collect_matches (mc : MCfg) (h : List MOp) (r : Nat) (key : StreamKey) (hr : r < mc.cfg.n) :
    Matches (streamOut mc h r key) (expected mc.cfg r (proj mc key h) (collectsIn h + 1)) := by
  rw [streamOut_eq]; exact collect_matches mc.cfg _ r _ hr

/-- the output log of a stream's projected history is exactly the sequence of what the meter handed out for that
    stream: each `Collect` by `r` contributes `streamOut` (when it is a `MetricData`), nothing else does -/
theorem meter_outs_cons (mc : MCfg) (key : StreamKey) (r : Nat) (o : List MOp) :
    (srunRev mc.cfg (proj mc key (.collect r :: o))).2 =
      match streamOut mc o r key with
      | some md => (r, md) :: (srunRev mc.cfg (proj mc key o)).2
      | none => (srunRev mc.cfg (proj mc key o)).2 := by
  rw [streamOut_eq]
  exact outs_cons_collect mc.cfg r (collectsIn o + 1) (proj mc key o)

theorem meter_outs_other (mc : MCfg) (key : StreamKey) (op : MOp) (o : List MOp) (h : ∀ r, op ≠ .collect r) :
    (srunRev mc.cfg (proj mc key (op :: o))).2 = (srunRev mc.cfg (proj mc key o)).2 := by
  cases op with
  | collect r => exact absurd rfl (h r)
  | create n k => rfl
  | add hd a v =>
    simp only [proj]
    cases (created o)[hd]? with
    | none => rfl
    | some nk =>
      obtain ⟨n, k⟩ := nk
      simp only
      split
      · cases effective k v with
        | none => rfl
        | some v' => exact outs_cons_add mc.cfg a v' _
      · rfl

/-- Σ of everything added for `a` through **any** handle created for instrument `(n, k)` (values as they reach the
    aggregation: a monotonic instrument ignores negative values) -/
def instrTotal (n : Nat) (k : Kind) : List MOp → Nat → Int
  | [], _ => 0
  | .add hd a' v :: o, a =>
    (match (created o)[hd]? with
     | some nk => if nk = (n, k) ∧ a' = a then (effective k v).getD 0 else 0
     | none => 0) + instrTotal n k o a
  | .create _ _ :: o, a => instrTotal n k o a
  | .collect _ :: o, a => instrTotal n k o a

theorem recorded_proj (mc : MCfg) (key : StreamKey) (hv : key.view < nStreams mc key.name key.kind) (a : Nat) :
    ∀ h : List MOp, recorded (proj mc key h) a = instrTotal key.name key.kind h a
  | [] => rfl
  | .create _ _ :: o => by simpa [proj, instrTotal] using recorded_proj mc key hv a o
  | .collect _ :: o => by simpa [proj, instrTotal, recorded] using recorded_proj mc key hv a o
  | .add hd a' v :: o => by
    have ih := recorded_proj mc key hv a o
    simp only [proj, instrTotal]
    cases hc : (created o)[hd]? with
    | none => simpa using ih
    | some nk =>
      obtain ⟨n, k⟩ := nk
      simp only
      by_cases hnk : n = key.name ∧ k = key.kind
      · obtain ⟨rfl, rfl⟩ := hnk
        simp only [true_and, hv, if_true]
        cases he : effective key.kind v with
        | none => simp [ih]
        | some v' => by_cases ha : a' = a <;> simp [recorded, ha, ih]
      · have h1 : ¬ (n = key.name ∧ k = key.kind ∧ key.view < nStreams mc n k) := fun hh => hnk ⟨hh.1, hh.2.1⟩
        have h2 : ¬ ((n = key.name ∧ k = key.kind) ∧ a' = a) := fun hh => hnk hh.1
        simp [h1, h2, ih]

/-- **every_handle_counts** / **every_view_stream_counts** (cumulative reader): for every stream configured for an
    instrument — the default stream or the stream of each matching view — a cumulative reader's point for `a` is the
    Σ of everything added for `a` through *every* handle obtained for that instrument. -/
theorem every_handle_counts_cumulative (mc : MCfg) (h : List MOp) (r : Nat) (key : StreamKey) (hr : r < mc.cfg.n)
    (hc : mc.cfg.temp r = .cumulative) (hv : key.view < nStreams mc key.name key.kind) (a : Nat) :
    valAt (pointsOf (streamOut mc h r key)) a = instrTotal key.name key.kind h a := by
  rw [streamOut_eq, cumulative_running_total_rev mc.cfg _ r _ hr hc a, recorded_proj mc key hv a h]

/-- **every_handle_counts** / **every_view_stream_counts** (delta reader): the point is the Σ of what was added,
    through every handle of the instrument, since this reader's previous collection; over the reader's successive
    collections these add up to `instrTotal` (`delta_conservation_rev` applied to the projected history). -/
theorem every_handle_counts_delta (mc : MCfg) (h : List MOp) (r : Nat) (key : StreamKey) (hr : r < mc.cfg.n)
    (hd : mc.cfg.temp r = .delta) (hv : key.view < nStreams mc key.name key.kind) (a : Nat) :
    valAt (pointsOf (streamOut mc h r key)) a = recSince r (proj mc key h) a ∧
    delivered r (srunRev mc.cfg (proj mc key h)).2 a + valAt (pointsOf (streamOut mc h r key)) a
      = instrTotal key.name key.kind h a := by
  rw [streamOut_eq]
  exact ⟨interval_exact_rev mc.cfg _ r _ hr hd a,
    by rw [delta_conservation_rev mc.cfg _ r _ hr hd a, recorded_proj mc key hv a h]⟩

/-- **every_view_stream_counts** (existence): once a handle has been created for instrument `(n, k)`, each of its
    streams — one per matching view, or the default one — is registered, hence collected by every `Meter::Collect`. -/
theorem every_view_stream_registered (mc : MCfg) (h : List MOp) (n : Nat) (k : Kind) (hc : (n, k) ∈ created h)
    (j : Nat) (hj : j < nStreams mc n k) : (⟨n, k, j⟩ : StreamKey) ∈ (mrunRev mc h).keys := by
  have hi := minv_run mc h
  rw [hi.keys, hi.reg]
  exact ⟨(n, k), hc, (mem_streamKeys mc n k _).mpr ⟨rfl, rfl, hj⟩⟩

/-- the number of streams of an instrument: one per matching view, one (the default view) when none matches -/
theorem nStreams_pos (mc : MCfg) (n : Nat) (k : Kind) : 0 < nStreams mc n k := by
  unfold nStreams; simp only []; split <;> omega

/-! ### examples: the hypotheses are satisfiable, and the two repaired deviations in the model -/

private def kc : Kind := ⟨true, false⟩

/-- D09 witness: two handles for one counter, `Add 10` through the first, `Add 100` through the second: the reader
    receives 110 (the code before the fix reported 100).  History most recent first. -/
example : valAt (pointsOf (streamOut ⟨[.cumulative], []⟩
    [.add 1 7 100, .add 0 7 10, .create 0 kc, .create 0 kc] 0 ⟨0, kc, 0⟩)) 7 = 110 := by decide

/-- two views on one instrument: both streams are collected with everything added -/
example : (valAt (pointsOf (streamOut ⟨[.cumulative], [(0, true), (0, true)]⟩
    [.add 0 7 5, .create 0 kc] 0 ⟨0, kc, 0⟩)) 7, valAt (pointsOf (streamOut ⟨[.cumulative], [(0, true), (0, true)]⟩
    [.add 0 7 5, .create 0 kc] 0 ⟨0, kc, 1⟩)) 7) = (5, 5) := by decide

/-- D08 witness: the second delta point of a single delta reader starts where the first ended (stamp 1), not at
    SDK start (0) -/
example : (streamOut ⟨[.delta], []⟩ [.add 0 7 7, .collect 0, .add 0 7 5, .create 0 kc] 0 ⟨0, kc, 0⟩).map
    (fun md => (md.startTs, md.endTs, valAt md.points 7)) = some (1, 2, 7) := by decide

end Otel.C06
