import OtelVerif.Model.TabNaming
import OtelVerif.Gen.TabNaming
import OtelVerif.Lemmas.Tab
/-! # The model equals the code's graph: `InstrumentMetaDataValidator::ValidateName` / `ValidateUnit` (the `std::regex` variants) -/
namespace Otel.Tab
open Otel

def nameF (s : Bytes) : Bool := rxMatchF Gen.instrumentNameRx (Naming.seen Gen.validateNameWholeView s)
def unitF (s : Bytes) : Bool := rxMatchF Gen.instrumentUnitRx (Naming.seen Gen.validateUnitWholeView s)
theorem validName_eq (s : Bytes) : Naming.validName s = nameF s := by simp [Naming.validName, Naming.validNameWith, nameF, rxMatch_eq_F]
theorem validUnit_eq (s : Bytes) : Naming.validUnit s = unitF s := by simp [Naming.validUnit, Naming.validUnitWith, unitF, rxMatch_eq_F]

theorem tab_nameValid1 : ∀ b : UInt8, TabModel.nameValid1 b = Gen.Tab.nameValid1 b := by
  have h : ∀ b : UInt8, nameF [b] = Gen.Tab.nameValid1 b := forall_byte _ (by decide +kernel)
  intro b; rw [TabModel.nameValid1, validName_eq]; exact h b
theorem tab_nameValidA : ∀ b : UInt8, TabModel.nameValidA b = Gen.Tab.nameValidA b := by
  have h : ∀ b : UInt8, nameF [97, b] = Gen.Tab.nameValidA b := forall_byte _ (by decide +kernel)
  intro b; rw [TabModel.nameValidA, validName_eq]; exact h b
theorem tab_nameValidB : ∀ b : UInt8, TabModel.nameValidB b = Gen.Tab.nameValidB b := by
  have h : ∀ b : UInt8, nameF [b, 97] = Gen.Tab.nameValidB b := forall_byte _ (by decide +kernel)
  intro b; rw [TabModel.nameValidB, validName_eq]; exact h b
theorem tab_unitValid1 : ∀ b : UInt8, TabModel.unitValid1 b = Gen.Tab.unitValid1 b := by
  have h : ∀ b : UInt8, unitF [b] = Gen.Tab.unitValid1 b := forall_byte _ (by decide +kernel)
  intro b; rw [TabModel.unitValid1, validUnit_eq]; exact h b
theorem tab_unitValidA : ∀ b : UInt8, TabModel.unitValidA b = Gen.Tab.unitValidA b := by
  have h : ∀ b : UInt8, unitF [97, b] = Gen.Tab.unitValidA b := forall_byte _ (by decide +kernel)
  intro b; rw [TabModel.unitValidA, validUnit_eq]; exact h b

end Otel.Tab
