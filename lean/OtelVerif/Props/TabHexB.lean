import OtelVerif.Model.TabHex
import OtelVerif.Gen.TabHex
import OtelVerif.Lemmas.Tab
/-! # The model equals the code's graph (`Gen/TabHex.lean`), second part: `HexToBinary` on two characters with one arbitrary
    byte, and the flags field of `traceparent` in both directions.  See `Props/TabHex.lean`. -/
namespace Otel.Tab
open Otel

/-- every byte in either position beside the partners `5` and the non-digit `G` (4 x 256) -/
theorem tab_hexToBinary2_cross : ∀ b : UInt8, ∀ r ∈ [(53 : UInt8), 71],
    TabModel.hexToBinary2 r b = Gen.Tab.hexToBinary2 r b ∧ TabModel.hexToBinary2 b r = Gen.Tab.hexToBinary2 b r :=
  forall_byte _ (by decide +kernel)

/-- extracting `00-…-…-XY`, `XY` the lower-case hex of the byte, installs exactly that flags byte -/
theorem tab_tpFlagsByte : ∀ b : UInt8, TabModel.tpFlagsByte b = Gen.Tab.tpFlagsByte b := forall_byte _ (by decide +kernel)
theorem tab_tpInjectFlags : ∀ b : UInt8, TabModel.tpInjectFlags b = Gen.Tab.tpInjectFlags b := eq_table _ _ _ (by decide +kernel)

end Otel.Tab
