import OtelVerif.Lemmas.Batch.Main
import OtelVerif.Props.C11
/-! # C01 — Batch processors hand every accepted span/log to the exporter exactly once

Two layers.  The queue (`CircularBuffer`) is C11: every element whose `Add` returned true is consumed exactly once, in
commit order and in each producer's own order, an `Add` fails only when the queue is full, and a failed element stays
with the caller (`Otel.C11.consumed_is_log_prefix`, `consumed_at_most_once`, `drained_all`, `per_producer_fifo`,
`add_fails_only_when_full`, `failed_not_in_buffer`).  On top of it the protocol model `Model/BatchAbs.lean` (tied to the
real processors by the refinement check) says what the worker does with what it consumes: it hands exactly the consumed
records to `Export`, everything committed before shutdown is exported, producers never wait. -/
namespace Otel.C01
open Otel Otel.Batch

section batch
variable {maxQ maxB : Nat} (hb : 1 ≤ maxB) {as : List Act} {s : St} (h : run (init maxQ maxB) as = some s)
include hb h

/-- **nothing is duplicated or lost between `Consume` and `Export`**: the number of records handed to the exporter never
    exceeds the number taken from the queue, and equals it whenever the worker is not between `tail_ += n` and the
    return of `Export` (with C11: the batches, concatenated, are exactly the consumed prefix of the commit log — each
    accepted record at most once, in commit order, in each producer's order) -/
theorem exports_are_consumed : s.exported ≤ s.tail ∧ s.tail ≤ s.head ∧
    ((∀ r n T R num, s.wpc ≠ .exportB r n T R num ∧ s.wpc ≠ .exportE r n T R num) → s.exported = s.tail) := by
  have hI := reachable_inv maxQ maxB hb as s h
  refine ⟨hI.expLe, hI.tailLe, ?_⟩
  intro hne
  have hw := hI.w
  unfold WInv at hw
  cases hpc : s.wpc <;> rw [hpc] at hw <;> simp only at hw
  all_goals first
    | exact hw.1
    | exact hw.1.1
    | (exfalso; exact (hne _ _ _ _ _).1 hpc)
    | (exfalso; exact (hne _ _ _ _ _).2 hpc)

/-- the batch in hand while the worker is inside (or about to enter) `Export` is exactly the difference -/
theorem batch_in_hand (r : Ret) (n T R num : Nat) (hw : s.wpc = .exportB r n T R num ∨ s.wpc = .exportE r n T R num) :
    s.exported + num = s.tail := by
  have hI := (reachable_inv maxQ maxB hb as s h).w
  unfold WInv at hI
  rcases hw with hw | hw <;> (rw [hw] at hI; exact hI.1)

/-- **everything accepted before shutdown is delivered**: once the worker has finished (which every returning
    `Shutdown` waits for), every record committed before `is_shutdown` was set has been exported, and nothing consumed is
    left unexported.  (A record whose `OnEnd` races `Shutdown` — it passed the `is_shutdown` test and was committed after
    the worker's last look at the queue — is not covered: it was not "ended before shutdown".) -/
theorem accepted_delivered_at_shutdown (hd : s.wpc = .done) : s.sdHead ≤ s.exported ∧ s.exported = s.tail := by
  have hw := (reachable_inv maxQ maxB hb as s h).w
  unfold WInv at hw; rw [hd] at hw
  exact ⟨hw.2.2.2, hw.1⟩

omit hb h

/-- **dropped only because the queue was at capacity**: the model lets an `Add` fail only under C11's justification —
    the `Add`s begun before it returns (itself excluded) minus what had been exported when it began fill the queue -/
theorem drop_only_when_full (s s' : St) (p e0 : Nat) (hp : s.pr p = .add e0) (hs : step s (.pStep p true) = some s') :
    s.begun - 1 - e0 ≥ s.maxQ := by
  simp only [step, pStep, hp] at hs
  by_cases hg : dropGuard s e0
  · exact hg
  · simp [hg] at hs

/-- … **in particular never when at most `max_queue_size` records are produced between two completed flushes**: if a
    `ForceFlush` that began when `bh` records were committed had returned true before this `Add` began (so
    `bh ≤ exported` then, `flush_complete`), and at most `max_queue_size` `Add`s — this one included — have begun that
    were not already committed when that flush began, the `Add` cannot fail -/
theorem no_drop_between_flushes (s : St) (p e0 bh : Nat) (hp : s.pr p = .add e0) (hflushed : bh ≤ e0)
    (hfew : s.begun - bh ≤ s.maxQ) (hpos : 1 ≤ s.begun) (hq : 1 ≤ s.maxQ) : step s (.pStep p true) = none := by
  simp only [step, pStep, hp]
  have : ¬ dropGuard s e0 := by unfold dropGuard; omega
  simp [this]

/-- **producers never wait**: no producer step is guarded by a lock, by the worker or by the exporter — outside `Add`
    every step is enabled, and inside `Add` a commit is enabled whenever the queue has room (the queue operations
    themselves are lock-free: C11) -/
theorem producer_never_waits (s : St) (p : Nat) :
    (∀ e0, s.pr p ≠ .add e0) → (step s (.pStep p false)).isSome = true := by
  intro hne
  cases hpc : s.pr p with
  | add e0 => exact absurd hpc (hne e0)
  | chk => simp only [step, pStep, hpc]; split <;> simp
  | _ => simp [step, pStep, hpc]

theorem commit_enabled_when_room (s : St) (p e0 : Nat) (hp : s.pr p = .add e0) (hroom : s.head - s.tail < s.maxQ) :
    (step s (.pStep p false)).isSome = true := by
  simp [step, pStep, hp, hroom]

end batch

/-! ## the queue layer, restated from C11 for the record -/

theorem queue_exactly_once {cap : Nat} (hc : 2 ≤ cap) {as : List Ring.Act} {s : Ring.St} (h : Ring.run (Ring.init cap) as = some s) :
    s.out = s.log.take s.clr ∧ s.out.Nodup ∧ (s.clr = s.head → s.out = s.log) ∧
    (∀ p, (s.out.filter (fun e => s.own e == p)).Pairwise (· < ·)) :=
  ⟨C11.consumed_is_log_prefix hc h, C11.consumed_at_most_once hc h, C11.drained_all hc h, C11.per_producer_fifo hc h⟩

end Otel.C01
