import OtelVerif.Model.LogRecord
import OtelVerif.Lemmas.Attr
/-! # C13 — an exported log record carries what was emitted, correlated with the active span

Property theorems about `Model/LogRecord.lean` (mirrors `logger.cc`, `read_write_log_record.{h,cc}`, `logger.h` +
`logger_type_traits.h`, `multi_recordable.cc`, `multi_log_record_processor.cc`, `simple_log_record_processor.cc` and the
hand-over / flush behaviour of the batch processor).  A *program* is an arbitrary list of operations on three kinds of
state: per-thread context stacks (push / pop of contexts carrying a span), log records (create, typed setters, emit
through the enabled or the disabled logger, null and already-emitted records) and the caller's memory (every body /
attribute argument lives in a caller cell that may later be overwritten or freed); `run` appends the final flush.

What is proved for every program / argument list, and what is not:
* the argument pack is a left-to-right fold of typed setters, the later argument wins per field (`emit_fields`,
  `emit_attrs_last_write_wins`, `emit_identity_componentwise`);
* correlation (`correlation_active_span`, `explicit_identity_wins`, `no_active_span_zero_ids`,
  `active_span_is_top_of_own_stack`);
* `null_record_ignored`, `emitted_record_is_gone`, `disabled_logger_emits_nothing`, `disabled_logger_program`;
* `each_processor_once`, `emit_reaches_every_processor_once`, `fanout_identical_children`;
* **values at export = values at emit** is FALSE of the code as it is for deferred export (D14: `ReadWriteLogRecord` keeps
  non-owning `AttributeValue`s): `exported_eq_emitted_witness` / `…_uaf_witness` exhibit it in the model (and the harness
  on the code); what holds is `exported_eq_emitted_partial` (the caller did not touch the record's cells between emit and
  export — `untouched_cells_stay_readable`), which is always the case for the simple processor because it exports inside
  `Emit` (`simple_processor_exports_emitted_values`).
* the `EventId` wrapper keeps its name as a C string: `eventid_name_partial` + `eventid_name_witness`;
  `eventid_without_name` is the behaviour after fix D23. -/
namespace Otel.C13
open Otel Otel.SAttr Otel.LogRecord

/-! ## The argument pack: a left-to-right fold, later argument wins per field -/

theorem foldl_last {β : Type} (proj : Record → β) (sel : Arg → Option β)
    (h : ∀ r a, proj (r.set a) = (sel a).getD (proj r)) :
    ∀ (args : List Arg) (r : Record), proj (r.setAll args) = ((args.filterMap sel).getLast?).getD (proj r) := by
  intro args
  induction args with
  | nil => intro r; rfl
  | cons a t ih =>
    intro r
    show proj ((r.set a).setAll t) = _
    rw [ih, h, List.filterMap_cons]
    cases sel a with
    | none => rfl
    | some b => simp [List.getLast?_cons]

def selSeverity : Arg → Option Nat
  | .severity n => some n
  | _ => none
def selTimestamp : Arg → Option Int
  | .timestamp t => some t
  | _ => none
/-- SPEC: the event id and name an `EventId` argument supplies (the wrapper holds the name as a C string) -/
def selEvent : Arg → Option (Int × Bytes)
  | .eventId id name => some (id, cString (name.getD []))
  | _ => none
def selBody : Arg → Option Stored
  | .body buf v => some ⟨buf, 0, v⟩
  | _ => none
/-- SPEC: the arguments that supply a trace id / span id / trace flags: the component itself or a whole `SpanContext` -/
def selTraceId : Arg → Option Bytes
  | .traceId t => some t
  | .spanContext t _ _ => some t
  | _ => none
def selSpanId : Arg → Option Bytes
  | .spanId s => some s
  | .spanContext _ s _ => some s
  | _ => none
def selFlags : Arg → Option UInt8
  | .traceFlags f => some f
  | .spanContext _ _ f => some f
  | _ => none

/-- **emit_fields.**  For every argument list in every order: severity, timestamp, event id + name and body of the emitted
    record are those of the *last* argument of the matching kind, and the record's previous value when there is none. -/
theorem emit_fields (r : Record) (args : List Arg) :
    (r.setAll args).severity = ((args.filterMap selSeverity).getLast?).getD r.severity ∧
    (r.setAll args).timestamp = ((args.filterMap selTimestamp).getLast?).getD r.timestamp ∧
    ((r.setAll args).eventId, (r.setAll args).eventName) = ((args.filterMap selEvent).getLast?).getD (r.eventId, r.eventName) ∧
    (r.setAll args).body = ((args.filterMap selBody).getLast?).getD r.body :=
  ⟨foldl_last (·.severity) selSeverity (by intro r a; cases a <;> rfl) args r,
   foldl_last (·.timestamp) selTimestamp (by intro r a; cases a <;> rfl) args r,
   foldl_last (fun r => (r.eventId, r.eventName)) selEvent (by intro r a; cases a <;> rfl) args r,
   foldl_last (·.body) selBody (by intro r a; cases a <;> rfl) args r⟩

/-- **emit_identity_componentwise.**  Trace id, span id and trace flags are set independently: each is the one of the last
    argument that supplies that component (the component itself or a `SpanContext`), else what the record had. -/
theorem emit_identity_componentwise (r : Record) (args : List Arg) :
    (r.setAll args).identity.traceId = ((args.filterMap selTraceId).getLast?).getD r.identity.traceId ∧
    (r.setAll args).identity.spanId = ((args.filterMap selSpanId).getLast?).getD r.identity.spanId ∧
    (r.setAll args).identity.flags = ((args.filterMap selFlags).getLast?).getD r.identity.flags :=
  ⟨foldl_last (·.identity.traceId) selTraceId (by intro r a; cases a <;> simp [Record.set, Record.identity, selTraceId]) args r,
   foldl_last (·.identity.spanId) selSpanId (by intro r a; cases a <;> simp [Record.set, Record.identity, selSpanId]) args r,
   foldl_last (·.identity.flags) selFlags (by intro r a; cases a <;> simp [Record.set, Record.identity, selFlags]) args r⟩

/-! ### attributes -/

/-- SPEC: the attribute writes of an argument list in call order; pair `i` of an attribute argument living in caller
    cell `buf` is stored as a view of element `i` of that cell -/
def writesOf : Arg → List (Bytes × Stored)
  | .attributes buf kvs => kvs.zipIdx.map fun p => (p.1.1, ⟨buf, p.2, p.1.2⟩)
  | _ => []

def attrWrites (args : List Arg) : List (Bytes × Stored) := args.flatMap writesOf

theorem lookupAttr_setAttr_self (k : Bytes) (s : Stored) (m : List (Bytes × Stored)) :
    lookupAttr k (setAttr k s m) = some s := by
  induction m with
  | nil => simp [setAttr, lookupAttr]
  | cons e t ih =>
    obtain ⟨k', s'⟩ := e
    by_cases h : k' = k
    · simp [setAttr, lookupAttr, h]
    · simp [setAttr, lookupAttr, h, ih]

theorem lookupAttr_setAttr_ne {k k' : Bytes} (h : k ≠ k') (s : Stored) (m : List (Bytes × Stored)) :
    lookupAttr k' (setAttr k s m) = lookupAttr k' m := by
  induction m with
  | nil => simp [setAttr, lookupAttr, h]
  | cons e t ih =>
    obtain ⟨k2, s2⟩ := e
    by_cases h2 : k2 = k
    · subst h2; simp [setAttr, lookupAttr, h]
    · by_cases h3 : k2 = k'
      · subst h3; simp [setAttr, lookupAttr, h2]
      · simp [setAttr, lookupAttr, h2, h3, ih]

theorem lookupAttr_foldl (k : Bytes) (ws : List (Bytes × Stored)) (m0 : List (Bytes × Stored)) :
    lookupAttr k (ws.foldl (fun m w => setAttr w.1 w.2 m) m0) =
      match lastWrite k ws with
      | some s => some s
      | none => lookupAttr k m0 := by
  induction ws generalizing m0 with
  | nil => simp [lastWrite_nil]
  | cons w t ih =>
    rw [List.foldl_cons, ih, lastWrite_cons]
    cases lastWrite k t with
    | some v => rfl
    | none =>
      by_cases h : w.1 = k
      · subst h; simp [lookupAttr_setAttr_self]
      · simp [h, lookupAttr_setAttr_ne h]

theorem setAttrsFrom_eq (buf : BufId) (kvs : List (Bytes × Value)) : ∀ (i : Nat) (m : List (Bytes × Stored)),
    setAttrsFrom buf i kvs m =
      ((kvs.zipIdx i).map fun p => ((p.1.1, ⟨buf, p.2, p.1.2⟩) : Bytes × Stored)).foldl (fun m w => setAttr w.1 w.2 m) m := by
  induction kvs with
  | nil => intro i m; rfl
  | cons kv t ih =>
    intro i m
    obtain ⟨k, v⟩ := kv
    simp only [setAttrsFrom, List.zipIdx_cons, List.map_cons, List.foldl_cons]
    exact ih (i + 1) _

theorem attrs_setAll (args : List Arg) : ∀ r : Record,
    (r.setAll args).attrs = (attrWrites args).foldl (fun m w => setAttr w.1 w.2 m) r.attrs := by
  induction args with
  | nil => intro r; rfl
  | cons a t ih =>
    intro r
    show ((r.set a).setAll t).attrs = _
    rw [ih]
    simp only [attrWrites, List.flatMap_cons, List.foldl_append]
    congr 1
    cases a <;> simp [Record.set, writesOf, setAttrsFrom_eq]

/-- **emit_attrs_last_write_wins.**  For every key: the attribute of the emitted record is the one written last for that key
    across all attribute arguments in call order (whatever the value alternatives), else what the record had. -/
theorem emit_attrs_last_write_wins (r : Record) (args : List Arg) (k : Bytes) :
    lookupAttr k (r.setAll args).attrs =
      match lastWrite k (attrWrites args) with
      | some s => some s
      | none => lookupAttr k r.attrs := by
  rw [attrs_setAll, lookupAttr_foldl]

/-! ## Correlation with the active span -/

/-- SPEC: what thread `t`'s own push / pop operations do to its stack of active spans -/
def stackEffect (t : ThreadId) : Op → Option (List Identity → List Identity)
  | .push t' sp => if t' = t then some (sp :: ·) else none
  | .pop t' => if t' = t then some List.tail else none
  | _ => none

/-- SPEC: thread `t`'s stack after a program — a function of `t`'s own pushes and pops only -/
def specStack (t : ThreadId) (ops : List Op) : List Identity :=
  (ops.filterMap (stackEffect t)).foldl (fun st f => f st) []

theorem stackOf_filter_ne {t t' : ThreadId} (h : t' ≠ t) (st : List (ThreadId × List Identity)) :
    stackOf (st.filter (·.1 ≠ t')) t = stackOf st t := by
  induction st with
  | nil => rfl
  | cons e rest ih =>
    obtain ⟨t2, s2⟩ := e
    by_cases h2 : t2 = t'
    · subst h2
      simp [List.filter_cons, stackOf, h] at ih ⊢
      exact ih
    · by_cases h3 : t2 = t
      · subst h3; simp [List.filter_cons, stackOf, h2]
      · simp [List.filter_cons, stackOf, h2, h3] at ih ⊢
        exact ih

theorem stackOf_setStack (st : List (ThreadId × List Identity)) (t t' : ThreadId) (x : List Identity) :
    stackOf (setStack st t' x) t = if t' = t then x else stackOf st t := by
  by_cases h : t' = t
  · simp [setStack, stackOf, h]
  · unfold setStack
    simp only [stackOf, h, if_false]
    exact stackOf_filter_ne h st

theorem step_stacks_of_not_stack_op (s : State) (op : Op) (h : ∀ t sp, op ≠ .push t sp) (h' : ∀ t, op ≠ .pop t) :
    (step s op).stacks = s.stacks := by
  cases op with
  | push t sp => exact absurd rfl (h t sp)
  | pop t => exact absurd rfl (h' t)
  | create t e r => rfl
  | set r a => simp only [step]; split <;> rfl
  | emit t e target args =>
    simp only [step]
    split
    · rfl
    · simp only [emitSlot]; split <;> rfl
    · split
      · rfl
      · simp only [emitSlot]; split <;> rfl
  | scribble b => simp only [step]; split <;> rfl
  | free b => rfl
  | flush => rfl

theorem stackOf_step (s : State) (op : Op) (t : ThreadId) :
    stackOf (step s op).stacks t = match stackEffect t op with
      | some f => f (stackOf s.stacks t)
      | none => stackOf s.stacks t := by
  cases op with
  | push t' sp => by_cases h : t' = t <;> simp [step, stackEffect, stackOf_setStack, h]
  | pop t' => by_cases h : t' = t <;> simp [step, stackEffect, stackOf_setStack, h]
  | create t' e r => simp [stackEffect, step_stacks_of_not_stack_op]
  | set r a => simp [stackEffect, step_stacks_of_not_stack_op]
  | emit t' e target args => simp [stackEffect, step_stacks_of_not_stack_op]
  | scribble b => simp [stackEffect, step_stacks_of_not_stack_op]
  | free b => simp [stackEffect, step_stacks_of_not_stack_op]
  | flush => simp [stackEffect, step_stacks_of_not_stack_op]

/-- **active_span_is_top_of_own_stack.**  After any program (any interleaving of the threads' operations, nested pushes,
    record and memory operations in between), the span active on thread `t` is the top of the stack that `t`'s *own*
    pushes and pops build — other threads' contexts never show through, and a pop re-activates the span below. -/
theorem active_span_is_top_of_own_stack (c : Cfg) (ops : List Op) (t : ThreadId) :
    activeSpan (exec (init c) ops) t = (specStack t ops).head? := by
  have key : ∀ (ops : List Op) (s : State), stackOf (exec s ops).stacks t =
      (ops.filterMap (stackEffect t)).foldl (fun st f => f st) (stackOf s.stacks t) := by
    intro ops
    induction ops with
    | nil => intro s; rfl
    | cons op rest ih =>
      intro s
      show stackOf (exec (step s op) rest).stacks t = _
      rw [ih, stackOf_step, List.filterMap_cons]
      cases stackEffect t op <;> rfl
  unfold activeSpan specStack
  rw [key]
  rfl

theorem mem_createLive {s : State} {t : ThreadId} {r : Record} (h : r ∈ createLive s t) :
    r = match activeSpan s t with
      | none => ({} : Record)
      | some sp => (((({} : Record).set (.traceId sp.traceId)).set (.traceFlags sp.flags)).set (.spanId sp.spanId)) := by
  simp only [createLive, List.mem_map] at h
  obtain ⟨_, _, rfl⟩ := h
  rfl

/-- **correlation_active_span.**  A record created while a span is active on the calling thread carries that span's trace
    id, span id and trace flags (every child, i.e. every processor's copy). -/
theorem correlation_active_span (s : State) (t : ThreadId) (sp : Identity) (h : activeSpan s t = some sp) :
    ∀ r ∈ createLive s t, r.identity = sp := by
  intro r hr
  rw [mem_createLive hr, h]
  simp [Record.set, Record.identity]

/-- **no_active_span_zero_ids.**  With no active span the created record's ids are all-zero (16 and 8 zero bytes, flags 0). -/
theorem no_active_span_zero_ids (s : State) (t : ThreadId) (h : activeSpan s t = none) :
    ∀ r ∈ createLive s t, r.identity = zeroIdentity ∧
      zeroIdentity = ⟨[0, 0, 0, 0, 0, 0, 0, 0, 0, 0, 0, 0, 0, 0, 0, 0], [0, 0, 0, 0, 0, 0, 0, 0], 0⟩ := by
  intro r hr
  rw [mem_createLive hr, h]
  exact ⟨rfl, by decide⟩

/-- **explicit_identity_wins (component-wise).**  For `EmitLogRecord(args…)` on thread `t`: each identity component of the
    emitted record is the explicitly supplied one when an argument supplies it (the last such argument), and otherwise
    the active span's component — or zero when no span is active. -/
theorem explicit_identity_wins (s : State) (t : ThreadId) (args : List Arg) (r : Record) (hr : r ∈ createLive s t) :
    (r.setAll args).identity.traceId
        = ((args.filterMap selTraceId).getLast?).getD ((activeSpan s t).getD zeroIdentity).traceId ∧
    (r.setAll args).identity.spanId
        = ((args.filterMap selSpanId).getLast?).getD ((activeSpan s t).getD zeroIdentity).spanId ∧
    (r.setAll args).identity.flags
        = ((args.filterMap selFlags).getLast?).getD ((activeSpan s t).getD zeroIdentity).flags := by
  have hid : r.identity = (activeSpan s t).getD zeroIdentity := by
    cases h : activeSpan s t with
    | none => exact (no_active_span_zero_ids s t h r hr).1
    | some sp => exact correlation_active_span s t sp h r hr
  have := emit_identity_componentwise r args
  rw [hid] at this
  exact this

/-! ## Null records, emitted records, the disabled logger -/

/-- **null_record_ignored.**  `EmitLogRecord(nullptr, args…)` changes nothing at all. -/
theorem null_record_ignored (s : State) (t : ThreadId) (e : Bool) (args : List Arg) :
    step s (.emit t e .null args) = s := rfl

theorem findRec_eraseRec (rs : List (RecId × Slot)) (r : RecId) : findRec (eraseRec rs r) r = none := by
  induction rs with
  | nil => rfl
  | cons e t ih =>
    obtain ⟨r', sl⟩ := e
    by_cases h : r' = r
    · simp [eraseRec, List.filter_cons, h] at ih ⊢; exact ih
    · simp [eraseRec, List.filter_cons, h, findRec] at ih ⊢; exact ih

/-- **emitted_record_is_gone.**  A record can be emitted once: afterwards it is no longer in the program's hands, and
    emitting a record that is not in hand (already emitted, never created) changes nothing at all. -/
theorem emitted_record_is_gone (s : State) (t : ThreadId) (e : Bool) (r : RecId) (args : List Arg) :
    findRec (step s (.emit t e (.existing r) args)).records r = none ∧
    (findRec s.records r = none → step s (.emit t e (.existing r) args) = s) := by
  constructor
  · simp only [step]
    split
    · assumption
    · rename_i slot hs
      simp only [emitSlot]
      split <;> simp [emitLive, findRec_eraseRec]
  · intro h; simp [step, h]

/-- **disabled_logger_emits_nothing** (one call): `EmitLogRecord(args…)` through the disabled logger, and emitting a record
    that the disabled logger created, hand nothing to any processor. -/
theorem disabled_logger_emits_nothing (s : State) (t : ThreadId) (args : List Arg) :
    (step s (.emit t false .fresh args)).procs = s.procs ∧
    ∀ r e, findRec s.records r = some .noop → (step s (.emit t e (.existing r) args)).procs = s.procs := by
  constructor
  · simp [step, emitSlot]
  · intro r e h; simp [step, h, emitSlot]

/-! ## Exactly once, to every processor, identical children -/

theorem deliver_replicate (h : Heap) (ps : List Proc) (r : Record) :
    deliver h ps (List.replicate ps.length r) = ps.map (·.emit h r) := by
  induction ps with
  | nil => rfl
  | cons p t ih => simp [deliver, List.replicate_succ, ih]

/-- every record in hand made by the enabled logger has one child per processor, all equal -/
def Uniform (n : Nat) (s : State) : Prop :=
  s.cfg.procs.length = n ∧ s.procs.length = n ∧
  ∀ e ∈ s.records, ∀ ch, e.2 = Slot.live ch → ∃ r, ch = List.replicate n r

theorem createLive_replicate (s : State) (t : ThreadId) :
    ∃ r, createLive s t = List.replicate s.cfg.procs.length r := by
  simp only [createLive, List.map_const']
  exact ⟨_, rfl⟩

theorem mem_of_findRec {rs : List (RecId × Slot)} {r : RecId} {sl : Slot} (h : findRec rs r = some sl) : (r, sl) ∈ rs := by
  induction rs with
  | nil => simp [findRec] at h
  | cons e t ih =>
    obtain ⟨r', sl'⟩ := e
    by_cases hr : r' = r
    · simp [findRec, hr] at h; subst h; subst hr; simp
    · simp [findRec, hr] at h; exact List.mem_cons_of_mem _ (ih h)

theorem mem_eraseRec {rs : List (RecId × Slot)} {r : RecId} {e : RecId × Slot} (h : e ∈ eraseRec rs r) : e ∈ rs := by
  simp only [eraseRec, List.mem_filter] at h; exact h.1

theorem cfg_step (s : State) (op : Op) : (step s op).cfg = s.cfg := by
  cases op with
  | set r a => simp only [step]; split <;> rfl
  | emit t e target args =>
    simp only [step]
    split
    · rfl
    · simp only [emitSlot]; split <;> rfl
    · split
      · rfl
      · simp only [emitSlot]; split <;> rfl
  | scribble b => simp only [step]; split <;> rfl
  | _ => rfl

/-- what one operation does to the processors: nothing, one hand-over of the *same* record to every processor, or a flush -/
inductive ProcsChange (s s' : State) : Prop where
  | same (h : s'.procs = s.procs)
  | emitted (r : Record) (hp : Heap) (h : s'.procs = s.procs.map (·.emit hp r))
  | flushed (hp : Heap) (h : s'.procs = s.procs.map (Proc.flush hp))

/-- SPEC: an operation emits iff it is an `EmitLogRecord` through the enabled logger with a record: a fresh one, or one in
    hand that the enabled logger created (not null, not already emitted, not a disabled logger's) -/
def effective (s : State) : Op → Bool
  | .emit _ enabled .fresh _ => enabled
  | .emit _ _ (.existing r) _ =>
    match findRec s.records r with
    | some (.live _) => true
    | _ => false
  | _ => false

theorem emitSlot_live (s : State) (args : List Arg) (r : Record) (n : Nat) (hl : s.procs.length = n) :
    (emitSlot s (.live (List.replicate n r)) args).procs
      = s.procs.map (·.emit (args.foldl Arg.alloc s.heap)
          { r.setAll args with resource := some s.cfg.resource, scope := some s.cfg.scope }) := by
  simp only [emitSlot, emitLive, List.map_replicate]
  rw [← hl, deliver_replicate]

theorem records_emit_fresh (s : State) (t : ThreadId) (e : Bool) (args : List Arg) :
    (step s (.emit t e .fresh args)).records = s.records := by
  simp only [step, emitSlot]; split <;> simp [emitLive]

theorem records_emit_existing (s : State) (t : ThreadId) (e : Bool) (r : RecId) (args : List Arg) (sl : Slot)
    (hf : findRec s.records r = some sl) :
    (step s (.emit t e (.existing r) args)).records = eraseRec s.records r := by
  simp only [step, hf, emitSlot]; split <;> simp [emitLive]

/-- one step: keeps `Uniform`, and changes the processors only by a hand-over of one and the same record to every
    processor — exactly when the operation is `effective` — or by a flush -/
theorem step_uniform (n : Nat) (s : State) (op : Op) (hu : Uniform n s) :
    Uniform n (step s op) ∧
    (effective s op = true → ∃ r hp, (step s op).procs = s.procs.map (·.emit hp r)) ∧
    (effective s op = false → op ≠ .flush → (step s op).procs = s.procs) := by
  obtain ⟨hc, hl, hr⟩ := hu
  have hc' : (step s op).cfg.procs.length = n := by rw [cfg_step]; exact hc
  cases op with
  | push t sp => exact ⟨⟨hc', hl, hr⟩, by simp [effective], fun _ _ => rfl⟩
  | pop t => exact ⟨⟨hc', hl, hr⟩, by simp [effective], fun _ _ => rfl⟩
  | scribble b =>
    refine ⟨⟨hc', ?_, ?_⟩, by simp [effective], fun _ _ => ?_⟩
    · simp only [step]; split <;> exact hl
    · simp only [step]; split <;> exact hr
    · simp only [step]; split <;> rfl
  | free b => exact ⟨⟨hc', hl, hr⟩, by simp [effective], fun _ _ => rfl⟩
  | flush =>
    exact ⟨⟨hc', by simpa [step] using hl, hr⟩, by simp [effective], fun _ h => absurd rfl h⟩
  | create t e r =>
    refine ⟨⟨hc', hl, ?_⟩, by simp [effective], fun _ _ => rfl⟩
    intro en hen ch hch
    simp only [step, List.mem_cons] at hen
    rcases hen with rfl | hen
    · by_cases he : e = true
      · simp only [he, if_true] at hch
        obtain ⟨r0, hr0⟩ := createLive_replicate s t
        exact ⟨r0, by rw [← hc, ← hr0]; exact (Slot.live.inj hch).symm⟩
      · simp [he] at hch
    · exact hr en (mem_eraseRec hen) ch hch
  | set r a =>
    refine ⟨⟨hc', ?_, ?_⟩, by simp [effective], fun _ _ => ?_⟩
    · simp only [step]; split <;> exact hl
    · simp only [step]
      split
      · rename_i children hf
        intro en hen ch hch
        simp only [List.mem_cons] at hen
        rcases hen with rfl | hen
        · obtain ⟨r0, hr0⟩ := hr _ (mem_of_findRec hf) children rfl
          refine ⟨r0.set a, ?_⟩
          have := (Slot.live.inj hch).symm
          rw [this, hr0, List.map_replicate]
        · exact hr en (mem_eraseRec hen) ch hch
      · exact hr
    · simp only [step]; split <;> rfl
  | emit t e target args =>
    cases target with
    | null => exact ⟨⟨hc', hl, hr⟩, by simp [effective], fun _ _ => rfl⟩
    | fresh =>
      have hrec : ∀ en ∈ (step s (.emit t e .fresh args)).records, ∀ ch, en.2 = Slot.live ch → ∃ r, ch = List.replicate n r := by
        rw [records_emit_fresh]; exact hr
      by_cases he : e = true
      · subst he
        obtain ⟨r0, hr0⟩ := createLive_replicate s t
        rw [hc] at hr0
        have hp : (step s (.emit t true .fresh args)).procs = s.procs.map (·.emit (args.foldl Arg.alloc s.heap)
            { r0.setAll args with resource := some s.cfg.resource, scope := some s.cfg.scope }) := by
          simp only [step, if_true, hr0]; exact emitSlot_live s args r0 n hl
        exact ⟨⟨hc', by rw [hp, List.length_map]; exact hl, hrec⟩, fun _ => ⟨_, _, hp⟩, by simp [effective]⟩
      · have he' : e = false := by simpa using he
        subst he'
        have hp : (step s (.emit t false .fresh args)).procs = s.procs := by simp [step, emitSlot]
        exact ⟨⟨hc', by rw [hp]; exact hl, hrec⟩, by simp [effective], fun _ _ => hp⟩
    | existing r =>
      cases hf : findRec s.records r with
      | none =>
        have : step s (.emit t e (.existing r) args) = s := by simp [step, hf]
        rw [this]
        exact ⟨⟨hc, hl, hr⟩, by simp [effective, hf], fun _ _ => rfl⟩
      | some slot =>
        have hrec : ∀ en ∈ (step s (.emit t e (.existing r) args)).records, ∀ ch, en.2 = Slot.live ch →
            ∃ r, ch = List.replicate n r := by
          rw [records_emit_existing s t e r args slot hf]
          intro en hen
          exact hr en (mem_eraseRec hen)
        cases slot with
        | noop =>
          have hp : (step s (.emit t e (.existing r) args)).procs = s.procs := by simp [step, hf, emitSlot]
          exact ⟨⟨hc', by rw [hp]; exact hl, hrec⟩, by simp [effective, hf], fun _ _ => hp⟩
        | live children =>
          obtain ⟨r0, hr0⟩ := hr _ (mem_of_findRec hf) children rfl
          subst hr0
          have hp : (step s (.emit t e (.existing r) args)).procs = s.procs.map (·.emit (args.foldl Arg.alloc s.heap)
              { r0.setAll args with resource := some s.cfg.resource, scope := some s.cfg.scope }) := by
            simp only [step, hf]; exact emitSlot_live { s with records := eraseRec s.records r } args r0 n hl
          exact ⟨⟨hc', by rw [hp, List.length_map]; exact hl, hrec⟩, fun _ => ⟨_, _, hp⟩, by simp [effective, hf]⟩

theorem uniform_init (c : Cfg) : Uniform c.procs.length (init c) := ⟨rfl, by simp [init], by simp [init]⟩

/-- **fanout_identical_children.**  In every reachable state, every record in hand has exactly one child per configured
    processor and all children are equal — so at `Emit` every processor is handed the same record. -/
theorem fanout_identical_children (c : Cfg) (ops : List Op) : Uniform c.procs.length (exec (init c) ops) := by
  have : ∀ (ops : List Op) (s : State), Uniform c.procs.length s → Uniform c.procs.length (exec s ops) := by
    intro ops
    induction ops with
    | nil => intro s h; exact h
    | cons op t ih => intro s h; exact ih _ (step_uniform _ s op h).1
  exact this ops (init c) (uniform_init c)

/-- **emit_reaches_every_processor_once** (one call).  In a reachable state, an effective `EmitLogRecord` hands one and the
    same record to every processor exactly once (`OnEmit` count + 1 each); every other operation except `ForceFlush` leaves
    all processors — counters, queues, exporter logs — untouched. -/
theorem emit_reaches_every_processor_once (c : Cfg) (pre : List Op) (op : Op) :
    (effective (exec (init c) pre) op = true →
      ∃ r hp, (step (exec (init c) pre) op).procs = (exec (init c) pre).procs.map (·.emit hp r)) ∧
    (effective (exec (init c) pre) op = false → op ≠ .flush →
      (step (exec (init c) pre) op).procs = (exec (init c) pre).procs) :=
  (step_uniform _ _ op (fanout_identical_children c pre)).2

/-- SPEC: the number of effective emits of a program -/
def emitCount (s : State) : List Op → Nat
  | [] => 0
  | op :: t => (if effective s op then 1 else 0) + emitCount (step s op) t

/-- per-processor accounting: `OnEmit` calls = records exported + records still queued; a simple processor queues nothing -/
def Accounted (n : Nat) (p : Proc) : Prop :=
  p.onEmit = n ∧ p.exports.flatten.length + p.queue.length = n ∧ (p.kind = .simple → p.queue = [])

theorem accounted_emit {n : Nat} {p : Proc} (h : Accounted n p) (hp : Heap) (r : Record) : Accounted (n + 1) (p.emit hp r) := by
  obtain ⟨h1, h2, h3⟩ := h
  cases hk : p.kind with
  | simple =>
    have hq := h3 hk
    simp only [Proc.emit, hk, Accounted]
    refine ⟨by omega, ?_, fun _ => hq⟩
    simp only [List.flatten_append, List.length_append, List.flatten_cons, List.flatten_nil, List.length_cons,
      List.length_nil, List.append_nil]
    omega
  | batch =>
    simp only [Proc.emit, hk, Accounted]
    refine ⟨by omega, ?_, fun h => by cases h⟩
    simp only [List.length_append, List.length_cons, List.length_nil]
    omega

theorem accounted_flush {n : Nat} {p : Proc} (h : Accounted n p) (hp : Heap) :
    Accounted n (p.flush hp) ∧ (p.flush hp).queue = [] := by
  obtain ⟨h1, h2, h3⟩ := h
  cases hk : p.kind with
  | simple =>
    have hq := h3 hk
    have : p.flush hp = p := by simp [Proc.flush, hk]
    rw [this]
    exact ⟨⟨h1, h2, h3⟩, hq⟩
  | batch =>
    cases hq : p.queue with
    | nil =>
      have : p.flush hp = p := by simp [Proc.flush, hk, hq]
      rw [this]
      exact ⟨⟨h1, h2, h3⟩, hq⟩
    | cons a t =>
      simp only [Proc.flush, hk, hq, Accounted]
      refine ⟨⟨h1, ?_, fun h => by cases h⟩, by trivial⟩
      rw [hq] at h2
      simp only [List.flatten_append, List.length_append, List.flatten_cons, List.flatten_nil, List.length_cons,
        List.length_nil, List.append_nil, List.length_map] at h2 ⊢
      omega

theorem accounted_exec (N : Nat) (ops : List Op) : ∀ (s : State) (n : Nat), Uniform N s → (∀ p ∈ s.procs, Accounted n p) →
    ∀ p ∈ (exec s ops).procs, Accounted (n + emitCount s ops) p := by
  induction ops with
  | nil => intro s n _ h; simpa [exec, emitCount] using h
  | cons op t ih =>
    intro s n hu h
    obtain ⟨hu', he, hne⟩ := step_uniform N s op hu
    show ∀ p ∈ (exec (step s op) t).procs, _
    by_cases heff : effective s op = true
    · obtain ⟨r, hp, hprocs⟩ := he heff
      have := ih (step s op) (n + 1) hu' (by
        intro p hp'
        rw [hprocs, List.mem_map] at hp'
        obtain ⟨p0, hp0, rfl⟩ := hp'
        exact accounted_emit (h p0 hp0) hp r)
      simp only [emitCount, heff, if_true]
      rw [show n + (1 + emitCount (step s op) t) = n + 1 + emitCount (step s op) t by omega]
      exact this
    · have heff' : effective s op = false := by simpa using heff
      have hacc : ∀ p ∈ (step s op).procs, Accounted n p := by
        by_cases hf : op = .flush
        · subst hf
          intro p hp'
          simp only [step, List.mem_map] at hp'
          obtain ⟨p0, hp0, rfl⟩ := hp'
          exact (accounted_flush (h p0 hp0) _).1
        · rw [hne heff' hf]; exact h
      have := ih (step s op) n hu' hacc
      simp only [emitCount, heff', Bool.false_eq_true, if_false, Nat.zero_add]
      exact this

/-- **each_processor_once.**  For every configuration (any mix of simple and batch processors) and every program: after
    the final flush every processor has received exactly `emitCount` `OnEmit` calls — one per effective emit, none for
    null / already emitted records or the disabled logger —, its exporter has been given exactly that many records in
    total, and nothing is left queued. -/
theorem each_processor_once (c : Cfg) (ops : List Op) :
    ∀ p ∈ (run c ops).procs,
      p.onEmit = emitCount (init c) ops ∧ p.exports.flatten.length = emitCount (init c) ops ∧ p.queue = [] := by
  intro p hp
  have hinit : ∀ p ∈ (init c).procs, Accounted 0 p := by
    intro p hp
    simp only [init, List.mem_map] at hp
    obtain ⟨k, _, rfl⟩ := hp
    exact ⟨rfl, rfl, fun _ => rfl⟩
  have hacc := accounted_exec _ ops (init c) 0 (uniform_init c) hinit
  have hrun : run c ops = step (exec (init c) ops) .flush := by simp [run, exec, List.foldl_append]
  rw [hrun] at hp
  simp only [step, List.mem_map] at hp
  obtain ⟨p0, hp0, rfl⟩ := hp
  obtain ⟨⟨h1, h2, _⟩, hq⟩ := accounted_flush (hacc p0 hp0) (exec (init c) ops).heap
  rw [hq] at h2
  simp only [Nat.zero_add] at h1 h2
  exact ⟨h1, by simpa using h2, hq⟩

/-- only the disabled logger is used -/
def onlyDisabled : Op → Bool
  | .create _ e _ => !e
  | .emit _ e _ _ => !e
  | _ => true

theorem emitCount_disabled (ops : List Op) : ∀ (s : State), (∀ e ∈ s.records, e.2 = Slot.noop) →
    (∀ op ∈ ops, onlyDisabled op = true) → emitCount s ops = 0 := by
  induction ops with
  | nil => intro s _ _; rfl
  | cons op t ih =>
    intro s hs hops
    have hop := hops op (List.mem_cons_self ..)
    have hrest : ∀ o ∈ t, onlyDisabled o = true := fun o ho => hops o (List.mem_cons_of_mem _ ho)
    have heff : effective s op = false := by
      cases op with
      | emit t' e target args =>
        cases target with
        | fresh => simpa [effective, onlyDisabled] using hop
        | null => rfl
        | existing r =>
          simp only [effective]
          cases hf : findRec s.records r with
          | none => rfl
          | some sl => have := hs _ (mem_of_findRec hf); simp at this; subst this; rfl
      | _ => rfl
    have hs' : ∀ e ∈ (step s op).records, e.2 = Slot.noop := by
      cases op with
      | create t' e r =>
        intro en hen
        simp only [step, List.mem_cons] at hen
        rcases hen with rfl | hen
        · simp [onlyDisabled] at hop; simp [hop]
        · exact hs en (mem_eraseRec hen)
      | set r a =>
        intro en hen
        simp only [step] at hen
        split at hen
        · rename_i children hf
          have := hs _ (mem_of_findRec hf)
          simp at this
        · exact hs en hen
      | emit t' e target args =>
        intro en hen
        cases target with
        | null => exact hs en hen
        | fresh =>
          have : (step s (.emit t' e .fresh args)).records = s.records := by
            simp only [step, emitSlot]; split <;> simp [emitLive]
          rw [this] at hen; exact hs en hen
        | existing r =>
          cases hf : findRec s.records r with
          | none => simp [step, hf] at hen; exact hs en hen
          | some sl =>
            have : (step s (.emit t' e (.existing r) args)).records = eraseRec s.records r := by
              simp only [step, hf, emitSlot]; split <;> simp [emitLive]
            rw [this] at hen; exact hs en (mem_eraseRec hen)
      | push t' sp => exact hs
      | pop t' => exact hs
      | scribble b => simp only [step]; split <;> exact hs
      | free b => exact hs
      | flush => exact hs
    simp only [emitCount, heff, Bool.false_eq_true, if_false, Nat.zero_add]
    exact ih _ hs' hrest

/-- **disabled_logger_program.**  A program that only ever uses the disabled logger (creates and emits through it, sets
    anything on its records, any arguments) exports nothing: no processor is ever notified, every exporter log stays empty. -/
theorem disabled_logger_program (c : Cfg) (ops : List Op) (h : ∀ op ∈ ops, onlyDisabled op = true) :
    ∀ p ∈ (run c ops).procs, p.onEmit = 0 ∧ p.exports.flatten = [] := by
  intro p hp
  obtain ⟨h1, h2, _⟩ := each_processor_once c ops p hp
  rw [emitCount_disabled ops (init c) (by simp [init]) h] at h1 h2
  exact ⟨h1, List.eq_nil_of_length_eq_zero h2⟩

/-! ## Values at export time: what holds, and the witnesses of what does not (D14) -/

/-- SPEC: what was emitted — every stored value is the value that was given when it was set -/
def given (r : Record) : Seen :=
  { severity := r.severity, body := .ok r.body.atSet, attrs := r.attrs.map fun kv => (kv.1, .ok kv.2.atSet),
    timestamp := r.timestamp, eventId := r.eventId, eventName := r.eventName, identity := r.identity,
    resource := r.resource, scope := r.scope }

def storedOf (r : Record) : List Stored := r.body :: r.attrs.map (·.2)

/-- the caller's memory `h` still holds what every view of `r` pointed at when it was set -/
def Readable (h : Heap) (r : Record) : Prop := ∀ st ∈ storedOf r, st.read h = .ok st.atSet

/-- **exported_eq_emitted_partial.**  An exporter that reads a record while the caller's memory still holds what the
    record's views pointed at sees exactly what was emitted (body and every attribute value, all other fields anyway). -/
theorem exported_eq_emitted_partial (h : Heap) (r : Record) (hr : Readable h r) : r.see h = given r := by
  unfold Record.see given
  have hb : r.body.read h = .ok r.body.atSet := hr _ (List.mem_cons_self ..)
  have ha : (r.attrs.map fun kv => (kv.1, kv.2.read h)) = r.attrs.map fun kv => (kv.1, Read.ok kv.2.atSet) := by
    apply List.map_congr_left
    intro kv hkv
    rw [hr kv.2 (List.mem_cons_of_mem _ (List.mem_map_of_mem hkv))]
  rw [hb, ha]

def argBufs : Arg → List BufId
  | .attributes b _ => [b]
  | .body b _ => [b]
  | _ => []

/-- SPEC: the operations by which the caller writes, frees or re-uses cell `b` -/
def touches (b : BufId) : Op → Bool
  | .scribble b' => b' == b
  | .free b' => b' == b
  | .set _ a => (argBufs a).contains b
  | .emit _ _ _ args => (args.flatMap argBufs).contains b
  | _ => false

theorem get_put (h : Heap) (b b' : BufId) (c : Option (List Value)) :
    (h.put b' c).get b = if b' = b then c else h.get b := by
  simp [Heap.put, Heap.get]

theorem alloc_frame (a : Arg) (h : Heap) (b : BufId) (hb : b ∉ argBufs a) : (a.alloc h).get b = h.get b := by
  cases a <;> simp_all [Arg.alloc, argBufs, get_put] <;> intro e <;> exact absurd e.symm hb

theorem foldl_alloc_frame (args : List Arg) : ∀ (h : Heap) (b : BufId), b ∉ args.flatMap argBufs →
    (args.foldl Arg.alloc h).get b = h.get b := by
  induction args with
  | nil => intro h b _; rfl
  | cons a t ih =>
    intro h b hb
    simp only [List.flatMap_cons, List.mem_append, not_or] at hb
    rw [List.foldl_cons, ih _ _ hb.2, alloc_frame a h b hb.1]

theorem heap_step_frame (s : State) (op : Op) (b : BufId) (ht : touches b op = false) :
    (step s op).heap.get b = s.heap.get b := by
  cases op with
  | push t sp => rfl
  | pop t => rfl
  | create t e r => rfl
  | flush => rfl
  | set r a =>
    have hb : b ∉ argBufs a := by simpa [touches] using ht
    simp only [step]
    split <;> simp [alloc_frame a s.heap b hb]
  | emit t e target args =>
    have hb : b ∉ args.flatMap argBufs := by simpa [touches] using ht
    have hf := foldl_alloc_frame args s.heap b hb
    cases target with
    | null => rfl
    | fresh => simp only [step, emitSlot]; split <;> simp [emitLive, hf]
    | existing r =>
      simp only [step]
      split
      · rfl
      · simp only [emitSlot]; split <;> simp [emitLive, hf]
  | scribble b' =>
    have hb : ¬ b' = b := by simpa [touches] using ht
    simp only [step]
    split
    · rfl
    · simp [get_put, hb]
  | free b' =>
    have hb : ¬ b' = b := by simpa [touches] using ht
    simp [step, get_put, hb]

theorem read_congr (st : Stored) (h h' : Heap) (e : h'.get st.buf = h.get st.buf) : st.read h' = st.read h := by
  simp [Stored.read, e]

/-- **untouched_cells_stay_readable.**  If, from the emit on, the caller neither overwrites nor frees nor re-uses any cell
    the record points into, the record stays readable through any further operations (of any thread, any other records,
    any flushes) — so a deferred export then still sees what was emitted (`exported_eq_emitted_partial`). -/
theorem untouched_cells_stay_readable (r : Record) (ops : List Op) : ∀ (s : State), Readable s.heap r →
    (∀ op ∈ ops, ∀ st ∈ storedOf r, touches st.buf op = false) → Readable (exec s ops).heap r := by
  induction ops with
  | nil => intro s h _; exact h
  | cons op t ih =>
    intro s h hops
    apply ih (step s op)
    · intro st hst
      rw [read_congr st s.heap (step s op).heap (heap_step_frame s op st.buf (hops op (List.mem_cons_self ..) st hst))]
      exact h st hst
    · exact fun o ho => hops o (List.mem_cons_of_mem _ ho)

/-! ### the simple processor exports inside `Emit`, while the arguments are alive -/

/-- every view of `r` that points into memory is backed by a cell of `h` that holds the value given -/
def Backed (h : Heap) (r : Record) : Prop :=
  ∀ st ∈ storedOf r, pointsToMemory st.atSet = true →
    ∃ cell, h.get st.buf = some cell ∧ cell[st.idx]? = some st.atSet

theorem readable_of_backed (h : Heap) (r : Record) (hb : Backed h r) : Readable h r := by
  intro st hst
  unfold Stored.read
  by_cases hp : pointsToMemory st.atSet = true
  · obtain ⟨cell, h1, h2⟩ := hb st hst hp
    simp [hp, h1, h2]
  · simp [hp]

theorem mem_setAttr {k : Bytes} {s : Stored} {m : List (Bytes × Stored)} {e : Bytes × Stored}
    (h : e ∈ setAttr k s m) : e = (k, s) ∨ e ∈ m := by
  induction m with
  | nil => simp [setAttr] at h; exact Or.inl h
  | cons x t ih =>
    obtain ⟨k', s'⟩ := x
    by_cases hk : k' = k
    · simp [setAttr, hk] at h
      rcases h with h | h
      · exact Or.inl h
      · exact Or.inr (List.mem_cons_of_mem _ h)
    · simp [setAttr, hk] at h
      rcases h with h | h
      · exact Or.inr (by rw [h]; exact List.mem_cons_self ..)
      · rcases ih h with h | h
        · exact Or.inl h
        · exact Or.inr (List.mem_cons_of_mem _ h)

theorem mem_setAttrsFrom (buf : BufId) : ∀ (kvs : List (Bytes × Value)) (i : Nat) (m : List (Bytes × Stored))
    (e : Bytes × Stored), e ∈ setAttrsFrom buf i kvs m →
      e ∈ m ∨ ∃ j k v, kvs[j]? = some (k, v) ∧ e = (k, ⟨buf, i + j, v⟩) := by
  intro kvs
  induction kvs with
  | nil => intro i m e h; exact Or.inl h
  | cons kv t ih =>
    intro i m e h
    obtain ⟨k, v⟩ := kv
    simp only [setAttrsFrom] at h
    rcases ih (i + 1) _ e h with h1 | ⟨j, k', v', hj, he⟩
    · rcases mem_setAttr h1 with h2 | h2
      · exact Or.inr ⟨0, k, v, by simp, by simpa using h2⟩
      · exact Or.inl h2
    · refine Or.inr ⟨j + 1, k', v', by simpa using hj, ?_⟩
      rw [he, show i + 1 + j = i + (j + 1) by omega]

/-- one typed setter keeps the record backed, provided the argument's cell is not one an older view points into; and every
    view of the new record is an old one or points into the argument's cell -/
theorem backed_set (h : Heap) (r : Record) (a : Arg) (hb : Backed h r)
    (hd : ∀ st ∈ storedOf r, pointsToMemory st.atSet = true → st.buf ∉ argBufs a) :
    Backed (a.alloc h) (r.set a) ∧ ∀ st ∈ storedOf (r.set a), st ∈ storedOf r ∨ st.buf ∈ argBufs a := by
  have old : ∀ st ∈ storedOf r, pointsToMemory st.atSet = true →
      ∃ cell, (a.alloc h).get st.buf = some cell ∧ cell[st.idx]? = some st.atSet := by
    intro st hst hp
    rw [alloc_frame a h st.buf (hd st hst hp)]
    exact hb st hst hp
  cases a with
  | body buf v =>
    constructor
    · intro st hst hp
      simp only [storedOf, Record.set, List.mem_cons] at hst
      rcases hst with rfl | hst
      · exact ⟨[v], by simp [Arg.alloc, get_put], by simp⟩
      · exact old st (List.mem_cons_of_mem _ hst) hp
    · intro st hst
      simp only [storedOf, Record.set, List.mem_cons] at hst
      rcases hst with rfl | hst
      · exact Or.inr (by simp [argBufs])
      · exact Or.inl (List.mem_cons_of_mem _ hst)
  | attributes buf kvs =>
    have split : ∀ st ∈ storedOf (r.set (.attributes buf kvs)), st ∈ storedOf r ∨
        ∃ j k v, kvs[j]? = some (k, v) ∧ st = ⟨buf, j, v⟩ := by
      intro st hst
      simp only [storedOf, Record.set, List.mem_cons, List.mem_map] at hst
      rcases hst with rfl | ⟨e, he, rfl⟩
      · exact Or.inl (List.mem_cons_self ..)
      · rcases mem_setAttrsFrom buf kvs 0 r.attrs e he with h1 | ⟨j, k, v, hj, rfl⟩
        · exact Or.inl (List.mem_cons_of_mem _ (List.mem_map_of_mem h1))
        · exact Or.inr ⟨j, k, v, hj, by simp⟩
    constructor
    · intro st hst hp
      rcases split st hst with h1 | ⟨j, k, v, hj, rfl⟩
      · exact old st h1 hp
      · exact ⟨kvs.map (·.2), by simp [Arg.alloc, get_put], by simp [List.getElem?_map, hj]⟩
    · intro st hst
      rcases split st hst with h1 | ⟨j, k, v, hj, rfl⟩
      · exact Or.inl h1
      · exact Or.inr (by simp [argBufs])
  | severity n => exact ⟨fun st hst hp => old st hst hp, fun st hst => Or.inl hst⟩
  | eventId id name => exact ⟨fun st hst hp => old st hst hp, fun st hst => Or.inl hst⟩
  | spanContext tid sid fl => exact ⟨fun st hst hp => old st hst hp, fun st hst => Or.inl hst⟩
  | spanId sid => exact ⟨fun st hst hp => old st hst hp, fun st hst => Or.inl hst⟩
  | traceId tid => exact ⟨fun st hst hp => old st hst hp, fun st hst => Or.inl hst⟩
  | traceFlags fl => exact ⟨fun st hst hp => old st hst hp, fun st hst => Or.inl hst⟩
  | timestamp t => exact ⟨fun st hst hp => old st hst hp, fun st hst => Or.inl hst⟩

/-- the whole argument pack, with its arguments in pairwise distinct caller cells -/
theorem backed_setAll (args : List Arg) : ∀ (h : Heap) (r : Record), Backed h r → (args.flatMap argBufs).Nodup →
    (∀ st ∈ storedOf r, pointsToMemory st.atSet = true → st.buf ∉ args.flatMap argBufs) →
    Backed (args.foldl Arg.alloc h) (r.setAll args) := by
  induction args with
  | nil => intro h r hb _ _; exact hb
  | cons a rest ih =>
    intro h r hb hn hd
    simp only [List.flatMap_cons] at hn hd
    obtain ⟨_, hn2, hdis⟩ := List.nodup_append.mp hn
    have hd1 : ∀ st ∈ storedOf r, pointsToMemory st.atSet = true → st.buf ∉ argBufs a :=
      fun st hst hp hm => hd st hst hp (List.mem_append_left _ hm)
    obtain ⟨hb', hnew⟩ := backed_set h r a hb hd1
    show Backed (rest.foldl Arg.alloc (a.alloc h)) ((r.set a).setAll rest)
    apply ih _ _ hb' hn2
    intro st hst hp hm
    rcases hnew st hst with h1 | h1
    · exact hd st h1 hp (List.mem_append_right _ hm)
    · exact hdis _ h1 _ hm rfl

/-- the record `CreateLogRecord` makes on thread `t` (one equal child per processor) -/
def freshRecord (s : State) (t : ThreadId) : Record :=
  match activeSpan s t with
  | none => {}
  | some sp => ((({} : Record).set (.traceId sp.traceId)).set (.traceFlags sp.flags)).set (.spanId sp.spanId)

theorem createLive_eq (s : State) (t : ThreadId) :
    createLive s t = List.replicate s.cfg.procs.length (freshRecord s t) := by
  simp only [createLive, List.map_const']
  rfl

theorem backed_fresh (h : Heap) (s : State) (t : ThreadId) : Backed h (freshRecord s t) ∧
    ∀ st ∈ storedOf (freshRecord s t), pointsToMemory st.atSet = false := by
  have : storedOf (freshRecord s t) = [⟨0, 0, .str []⟩] := by
    unfold freshRecord; cases activeSpan s t <;> rfl
  rw [Backed, this]
  constructor
  · intro st hst hp; simp at hst; subst hst; simp [pointsToMemory] at hp
  · intro st hst; simp at hst; subst hst; rfl

/-- **simple_processor_exports_emitted_values.**  For `EmitLogRecord(args…)` in any reachable state, with the arguments in
    pairwise distinct caller cells: every processor is handed the same record `R`, the exporter of every *simple* processor
    is called inside that `Emit` with exactly `[given R]` — body and every attribute value as given, whatever the caller
    does with its buffers after `Emit` returns (later operations cannot change an exporter log entry). -/
theorem simple_processor_exports_emitted_values (c : Cfg) (pre : List Op) (t : ThreadId) (args : List Arg)
    (hn : (args.flatMap argBufs).Nodup) :
    ∃ R : Record, ∃ hp : Heap,
      (step (exec (init c) pre) (.emit t true .fresh args)).procs = (exec (init c) pre).procs.map (·.emit hp R) ∧
      R.see hp = given R ∧
      ∀ p : Proc, p.kind = .simple →
        p.emit hp R = { p with onEmit := p.onEmit + 1, exports := p.exports ++ [[given R]] } := by
  obtain ⟨hc, hl, _⟩ := fanout_identical_children c pre
  obtain ⟨s, hs⟩ : ∃ s, s = exec (init c) pre := ⟨_, rfl⟩
  rw [← hs] at hc hl ⊢
  have hprocs : (step s (.emit t true .fresh args)).procs = s.procs.map (·.emit (args.foldl Arg.alloc s.heap)
      { (freshRecord s t).setAll args with resource := some s.cfg.resource, scope := some s.cfg.scope }) := by
    simp only [step, if_true, createLive_eq, hc]
    exact emitSlot_live s args (freshRecord s t) c.procs.length hl
  have hback : Backed (args.foldl Arg.alloc s.heap) ((freshRecord s t).setAll args) := by
    obtain ⟨hb, hnp⟩ := backed_fresh s.heap s t
    exact backed_setAll args s.heap _ hb hn (fun st hst hpm => by rw [hnp st hst] at hpm; cases hpm)
  have hsee : Record.see (args.foldl Arg.alloc s.heap)
        { (freshRecord s t).setAll args with resource := some s.cfg.resource, scope := some s.cfg.scope }
      = given { (freshRecord s t).setAll args with resource := some s.cfg.resource, scope := some s.cfg.scope } :=
    exported_eq_emitted_partial _ _ (readable_of_backed _ ((freshRecord s t).setAll args) hback)
  refine ⟨_, _, hprocs, hsee, ?_⟩
  intro p hk
  simp only [Proc.emit, hk, hsee]

/-! ### what exactly is handed over, and exporter logs only grow -/

theorem cfg_exec (ops : List Op) : ∀ s : State, (exec s ops).cfg = s.cfg := by
  induction ops with
  | nil => intro s; rfl
  | cons op t ih => intro s; show (exec (step s op) t).cfg = _; rw [ih, cfg_step]

/-- the record `EmitLogRecord(args…)` hands to the processors on thread `t`: the fresh record (correlated with the active
    span), the argument pack applied left to right, then the provider's resource and the logger's scope -/
def emittedRecord (s : State) (t : ThreadId) (args : List Arg) : Record :=
  { (freshRecord s t).setAll args with resource := some s.cfg.resource, scope := some s.cfg.scope }

/-- **emit_hands_over.**  In every reachable state `EmitLogRecord(args…)` through the enabled logger hands exactly
    `emittedRecord` to every processor (one `OnEmit` each), and that record carries the resource and the instrumentation
    scope of the configuration — for any arguments (no hypothesis on the caller's cells). -/
theorem emit_hands_over (c : Cfg) (pre : List Op) (t : ThreadId) (args : List Arg) :
    (step (exec (init c) pre) (.emit t true .fresh args)).procs
      = (exec (init c) pre).procs.map
          (·.emit (args.foldl Arg.alloc (exec (init c) pre).heap) (emittedRecord (exec (init c) pre) t args)) ∧
    (emittedRecord (exec (init c) pre) t args).resource = some c.resource ∧
    (emittedRecord (exec (init c) pre) t args).scope = some c.scope := by
  obtain ⟨hc, hl, _⟩ := fanout_identical_children c pre
  have hcfg : (exec (init c) pre).cfg = c := by rw [cfg_exec]; rfl
  refine ⟨?_, by simp [emittedRecord, hcfg], by simp [emittedRecord, hcfg]⟩
  simp only [step, if_true, createLive_eq, hc]
  exact emitSlot_live _ args _ c.procs.length hl

theorem exports_prefix_emit (p : Proc) (hp : Heap) (r : Record) : p.exports <+: (p.emit hp r).exports := by
  unfold Proc.emit
  cases p.kind
  · exact List.prefix_append _ _
  · exact List.prefix_refl _

theorem exports_prefix_flush (p : Proc) (hp : Heap) : p.exports <+: (p.flush hp).exports := by
  unfold Proc.flush
  split
  · exact List.prefix_append _ _
  · exact List.prefix_refl _

/-- one step never changes or removes an entry of any exporter's log (processor `i` stays processor `i`) -/
theorem exports_prefix_step (n : Nat) (s : State) (op : Op) (hu : Uniform n s) (i : Nat) (p p' : Proc)
    (h : s.procs[i]? = some p) (h' : (step s op).procs[i]? = some p') : p.exports <+: p'.exports := by
  obtain ⟨_, he, hne⟩ := step_uniform n s op hu
  by_cases heff : effective s op = true
  · obtain ⟨r, hp, hprocs⟩ := he heff
    rw [hprocs, List.getElem?_map, h] at h'
    simp only [Option.map_some, Option.some.injEq] at h'
    rw [← h']
    exact exports_prefix_emit p hp r
  · have heff' : effective s op = false := by simpa using heff
    by_cases hf : op = .flush
    · subst hf
      simp only [step, List.getElem?_map, h, Option.map_some, Option.some.injEq] at h'
      rw [← h']
      exact exports_prefix_flush p _
    · rw [hne heff' hf, h] at h'
      rw [Option.some.inj h']
      exact List.prefix_refl _

/-- **exporter_logs_only_grow.**  Through any further operations — of any thread, on any record, any caller-memory
    operation, any flush — what an exporter has already been given stays exactly as it was (a prefix of its later log):
    in particular what a simple processor exported inside `Emit` cannot be affected by what the caller does afterwards. -/
theorem exporter_logs_only_grow (c : Cfg) (pre post : List Op) (i : Nat) (p p' : Proc)
    (h : (exec (init c) pre).procs[i]? = some p) (h' : (exec (init c) (pre ++ post)).procs[i]? = some p') :
    p.exports <+: p'.exports := by
  have key : ∀ (post : List Op) (s : State) (p p' : Proc), Uniform c.procs.length s → s.procs[i]? = some p →
      (exec s post).procs[i]? = some p' → p.exports <+: p'.exports := by
    intro post
    induction post with
    | nil =>
      intro s p p' _ h h'
      have : some p = some p' := by rw [← h, ← h']; rfl
      rw [Option.some.inj this]
      exact List.prefix_refl _
    | cons op t ih =>
      intro s p p' hu h h'
      have hu' := (step_uniform _ s op hu).1
      have hlen : i < (step s op).procs.length := by
        rw [hu'.2.1, ← hu.2.1]
        exact (List.getElem?_eq_some_iff.mp h).1
      obtain ⟨q, hq⟩ : ∃ q, (step s op).procs[i]? = some q := ⟨_, List.getElem?_eq_getElem hlen⟩
      exact List.IsPrefix.trans (exports_prefix_step _ s op hu i p q h hq) (ih (step s op) q p' hu' hq h')
  have hsplit : exec (init c) (pre ++ post) = exec (exec (init c) pre) post := by simp [exec, List.foldl_append]
  rw [hsplit] at h'
  exact key post _ p p' (fanout_identical_children c pre) h h'

/-! ### the witnesses: deferred export reads the caller's later bytes -/

def bodyArgs : Op → List Value
  | .set _ (.body _ v) => [v]
  | .emit _ _ _ args => args.filterMap fun a => match a with
    | .body _ v => some v
    | _ => none
  | _ => []

/-- every body an exporter saw is one the program actually supplied (or the default empty body), and none is a read of
    freed memory -/
def bodyOk (ops : List Op) (seen : Seen) : Bool :=
  match seen.body with
  | .ok v => (Value.str [] :: ops.flatMap bodyArgs).contains v
  | .uaf => false

/-- the body part of the full statement "the exported record holds the values given at emit time, whatever the caller does
    with its buffers afterwards" -/
def BodyAsGiven (c : Cfg) (ops : List Op) : Prop :=
  ∀ p ∈ (run c ops).procs, ∀ b ∈ p.exports, ∀ seen ∈ b, bodyOk ops seen = true

def helloOriginal : Bytes := [104, 101, 108, 108, 111, 45, 111, 114, 105, 103, 105, 110, 97, 108]

def witnessCfg (k : ProcKind) : Cfg := { procs := [k], resource := [], scope := ⟨[108], [], []⟩ }

/-- emit a string body, then the caller overwrites its buffer (before the final flush) -/
def witnessScribble : List Op := [.emit 0 true .fresh [.body 1 (.str helloOriginal)], .scribble 1]
/-- … or frees it -/
def witnessFree : List Op := [.emit 0 true .fresh [.body 1 (.str helloOriginal)], .free 1]

instance (c : Cfg) (ops : List Op) : Decidable (BodyAsGiven c ops) := by unfold BodyAsGiven; infer_instance

/-- **exported_eq_emitted_witness** (D14).  The full statement is false of the code as it is: with a batch processor the
    exporter sees `XXXXXXXXXXXXXX` for the body that was emitted as `hello-original`. -/
theorem exported_eq_emitted_witness :
    ¬ BodyAsGiven (witnessCfg .batch) witnessScribble ∧
    (run (witnessCfg .batch) witnessScribble).procs.map (fun p => p.exports.map (·.map (·.body)))
      = [[[Read.ok (.str (List.replicate 14 0x58))]]] := by
  constructor <;> decide

/-- … and when the caller frees the buffer, the deferred export reads freed memory -/
theorem exported_eq_emitted_uaf_witness :
    ¬ BodyAsGiven (witnessCfg .batch) witnessFree ∧
    (run (witnessCfg .batch) witnessFree).procs.map (fun p => p.exports.map (·.map (·.body))) = [[[Read.uaf]]] := by
  constructor <;> decide

/-- the same two programs are fine with the simple processor, which exports inside `Emit` -/
example : BodyAsGiven (witnessCfg .simple) witnessScribble ∧ BodyAsGiven (witnessCfg .simple) witnessFree := by
  constructor <;> decide

/-! ## The `EventId` argument -/

/-- **eventid_without_name** (the behaviour after fix D23; the unfixed code ran `strlen` on a null pointer): an `EventId`
    constructed without a name sets the id and an empty name. -/
theorem eventid_without_name (r : Record) (id : Int) :
    (r.set (.eventId id none)).eventId = id ∧ (r.set (.eventId id none)).eventName = [] := ⟨rfl, rfl⟩

theorem cString_of_no_nul (name : Bytes) (h : (0 : UInt8) ∉ name) : cString name = name := by
  unfold cString
  induction name with
  | nil => rfl
  | cons c t ih =>
    simp only [List.mem_cons, not_or] at h
    have hc : c ≠ 0 := fun e => h.1 e.symm
    simpa [List.takeWhile_cons, hc] using ih h.2

/-- **eventid_name_partial.**  The event id is the supplied one, and the event name is the supplied one *provided it
    contains no NUL byte*: the `EventId` wrapper stores the name as a C string. -/
theorem eventid_name_partial (r : Record) (id : Int) (name : Bytes) (h : (0 : UInt8) ∉ name) :
    (r.set (.eventId id (some name))).eventId = id ∧ (r.set (.eventId id (some name))).eventName = name :=
  ⟨rfl, by simp [Record.set, cString_of_no_nul name h]⟩

/-- **eventid_name_witness.**  Without that hypothesis the statement is false: `a\0b` arrives as `a`. -/
theorem eventid_name_witness :
    ((({} : Record).set (.eventId 1 (some [97, 0, 98]))).eventName = [97]) ∧
    ¬ (∀ (name : Bytes), (({} : Record).set (.eventId 1 (some name))).eventName = name) := by
  refine ⟨by decide, fun h => ?_⟩
  have := h [97, 0, 98]
  revert this
  decide

/-! ## Non-vacuity: concrete states and programs satisfying the hypotheses -/

def exSpan : Identity := ⟨List.replicate 16 1, List.replicate 8 2, 1⟩
def exCfg : Cfg := { procs := [.simple, .batch], resource := [114], scope := ⟨[108], [], []⟩ }
def exOps : List Op :=
  [.push 0 exSpan, .push 1 ⟨List.replicate 16 7, List.replicate 8 8, 0⟩, .create 0 true 5, .pop 0,
   .set 5 (.attributes 1 [([107], .i32 1), ([107], .str [97])]), .emit 2 true (.existing 5) [.severity 9, .body 2 (.strs [[97], []])],
   .emit 0 true (.existing 5) [.severity 1], .emit 1 false .fresh [.severity 3], .emit 0 true .null [], .scribble 1, .free 2]

example : activeSpan (exec (init exCfg) (exOps.take 2)) 0 = some exSpan := by decide
example : activeSpan (exec (init exCfg) exOps) 0 = none ∧ (activeSpan (exec (init exCfg) exOps) 1).isSome := by decide
example : emitCount (init exCfg) exOps = 1 := by decide
example : (run exCfg exOps).procs.map (·.onEmit) = [1, 1] := by decide
/-- the record was created on thread 0 while `exSpan` was active there: both copies carry its identity although it is
    emitted from thread 2 after the span was released -/
example : (run exCfg exOps).procs.map (fun p => p.exports.flatten.map (·.identity)) = [[exSpan], [exSpan]] := by decide
/-- the simple copy holds the emitted values, the batch copy what the caller's memory held at the flush -/
example : (run exCfg exOps).procs.map (fun p => p.exports.flatten.map (·.body))
    = [[.ok (.strs [[97], []])], [.uaf]] := by decide
example : (([.body 1 (.str [1]), .attributes 2 [([1], .bool true)]] : List Arg).flatMap argBufs).Nodup := by decide
example : (0 : UInt8) ∉ ([97, 98] : Bytes) := by decide
example : onlyDisabled (.emit 0 false .fresh [.severity 1]) = true ∧ onlyDisabled (.create 0 false 1) = true := by decide

end Otel.C13
