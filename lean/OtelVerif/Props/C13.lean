import OtelVerif.Model.LogRecord
import OtelVerif.Lemmas.Attr
namespace Otel.C13
end Otel.C13
