import OtelVerif.Model.TabB3
import OtelVerif.Gen.TabB3
import OtelVerif.Lemmas.Tab
/-! # The model equals the code's graph: the sampling field of `b3_propagator.h` and `jaeger.h` -/
namespace Otel.Tab
open Otel

/-- which one-character values of the B3 sampling field mean "sampled": all 256 -/
theorem tab_b3FlagsFromHex1 : ∀ b : UInt8, TabModel.b3FlagsFromHex1 b = Gen.Tab.b3FlagsFromHex1 b := forall_byte _ (by decide +kernel)
theorem tab_b3FlagsFromHexShort : ∀ p ∈ Gen.Tab.b3FlagsFromHexShort, TabModel.b3FlagsFromHexShort p.1 = p.2 :=
  graph_of_all _ _ (by decide +kernel)
theorem tab_b3InjectSingleChar : ∀ b : UInt8, TabModel.b3InjectSingleChar b = Gen.Tab.b3InjectSingleChar b := forall_byte _ (by decide +kernel)
theorem tab_b3InjectMultiSampled : ∀ b : UInt8, TabModel.b3InjectMultiSampled b = Gen.Tab.b3InjectMultiSampled b :=
  eq_table _ _ _ (by decide +kernel)
theorem tab_jaegerGetTraceFlags : ∀ b : UInt8, TabModel.jaegerGetTraceFlags b = Gen.Tab.jaegerGetTraceFlags b := forall_byte _ (by decide +kernel)
theorem tab_jaegerInjectChar : ∀ b : UInt8, TabModel.jaegerInjectChar b = Gen.Tab.jaegerInjectChar b := forall_byte _ (by decide +kernel)

end Otel.Tab
