import OtelVerif.Model.B3
import OtelVerif.Lemmas.Idx
import OtelVerif.Props.C09
/-! # C16 — B3 and Jaeger propagation: round-trip identity and the sampling decision

Property theorems about `Model/B3.lean` (mirrors `b3_propagator.h`, `jaeger.h`) on top of the index-explicit
`SplitString` / `HexToBinary` of `Model/Idx.lean` (mirrors `detail/string.h`, `detail/hex.h`).  Header names,
separators, lengths, the characters accepted as "sampled" and the expression written into `X-B3-Sampled` come from
`Gen/B3.lean`, re-extracted from the source on every run; the numbers of the B3 / Jaeger formats (32, 16, 51, 54,
`-`, `:`, `1`, `d`) are literals here.  The hex vocabulary (`lowerHex`, `decodeHex`, `IsHexChar`, `NonZero`) is C09's. -/
namespace Otel.C16
open Otel Otel.TraceContext Otel.C09

/-! ## Specification vocabulary (written from the property text) -/

/-- the sampling decision carried by a flags byte: bit 0, whatever the other seven bits are -/
def Sampled (f : UInt8) : Prop := f.toNat % 2 = 1

instance : DecidablePred Sampled := fun f => by unfold Sampled; exact inferInstance

/-- the flags byte a B3 / Jaeger extractor reports: only the sampling decision survives -/
def sampledBit (f : UInt8) : UInt8 := if Sampled f then 1 else 0

/-- the remote span context that extraction of an injected context must produce -/
def remoteOf (sc : SpanCtx) : SpanCtx :=
  { traceId := sc.traceId, spanId := sc.spanId, flags := sampledBit sc.flags, remote := true, traceState := [] }

/-- value of a hex string of either parity (an odd string has an implicit leading `0`) -/
def decodeHexAny (s : Bytes) : Bytes := if s.length % 2 = 1 then decodeHex (48 :: s) else decodeHex s

/-- `width` bytes, the value right-aligned: "left-padded with zeros" -/
def leftPad (width : Nat) (v : Bytes) : Bytes := List.replicate (width - v.length) 0 ++ v

/-- B3 sampling state field → flags: `1` and the debug flag `d` mean sampled; anything else (`0`, absent, junk) not -/
def b3Decision (f : Bytes) : UInt8 := if f = [49] ∨ f = [100] then 1 else 0

/-! ## Generated constants are the documented ones -/

theorem gen_b3 : Gen.b3Sep = 45 ∧ Gen.b3FieldCount = 3 ∧ Gen.b3MinFields = 2 ∧ Gen.b3TraceIdHexLen = 32 ∧
    Gen.b3SpanIdHexLen = 16 ∧ Gen.b3SampledChar = 49 ∧ Gen.b3DebugChar = 100 ∧ Gen.b3InjectSeps = [45, 45] ∧
    Gen.b3InjectSampled = 49 ∧ Gen.b3InjectNotSampled = 48 ∧ Gen.kIsSampled = 1 := by decide

/-- D05 is repaired in the source: `X-B3-Sampled` is written from the sampling decision -/
theorem gen_b3_multi_fixed : Gen.b3MultiSampledFromDecision = true := by decide

theorem gen_jaeger : Gen.jaegerSep = 58 ∧ Gen.jaegerFieldCount = 4 ∧ Gen.jaegerIsSampled = 1 ∧
    Gen.jaegerInjectLits = [58, 58, 48, 58, 48] ∧ Gen.jaegerInjectSampled = 49 ∧ Gen.jaegerInjectNotSampled = 48 ∧
    Gen.jaegerTraceIdLen = 32 ∧ Gen.jaegerSpanIdLen = 16 ∧ Gen.jaegerInjectExtra = 6 := by decide

/-- the header names: `b3`, `X-B3-TraceId`, `X-B3-SpanId`, `X-B3-Sampled`, `uber-trace-id` (ASCII codes) -/
theorem gen_header_names : Gen.b3CombinedHeader = [98, 51] ∧
    Gen.b3TraceIdHeader = [88, 45, 66, 51, 45, 84, 114, 97, 99, 101, 73, 100] ∧
    Gen.b3SpanIdHeader = [88, 45, 66, 51, 45, 83, 112, 97, 110, 73, 100] ∧
    Gen.b3SampledHeader = [88, 45, 66, 51, 45, 83, 97, 109, 112, 108, 101, 100] ∧
    Gen.jaegerHeader = [117, 98, 101, 114, 45, 116, 114, 97, 99, 101, 45, 105, 100] := by decide

/-! ## Byte-level facts over all 256 values -/

theorem isSampled_iff : ∀ f : UInt8, B3.isSampled f = true ↔ Sampled f := forall_byte _ (by decide +kernel)

theorem and_one_eq_sampledBit : ∀ f : UInt8, f &&& 1 = sampledBit f := forall_byte _ (by decide +kernel)

theorem hexChar_not_colon : ∀ c : UInt8, IsHexChar c → c ≠ 58 := forall_byte _ (by decide +kernel)

/-- D05, as a fact about every flags byte: the low hex digit of the flags byte reads back as the right sampling
    decision exactly when the byte is not "sampled with another bit of the low nibble set" — except that the low
    nibble `0xd` is printed as `d`, which the extractor takes for the debug flag, i.e. sampled.  Wrong for the low
    nibbles 3, 5, 7, 9, b, f: 96 of the 256 flag bytes. -/
theorem asis_multi_sampled_right_iff : ∀ f : UInt8,
    b3Decision (B3.multiSampled false f) = sampledBit f ↔ ¬ (f &&& 1 = 1 ∧ f &&& 0xF ≠ 1 ∧ f &&& 0xF ≠ 0xD) :=
  forall_byte _ (by decide +kernel)

/-- the repaired expression is right for every flags byte -/
theorem fixed_multi_sampled_right : ∀ f : UInt8, b3Decision (B3.multiSampled true f) = sampledBit f :=
  forall_byte _ (by decide +kernel)

theorem fixed_multi_sampled_val (f : UInt8) : B3.multiSampled true f = [if Sampled f then 49 else 48] := by
  by_cases h : Sampled f
  · simp [B3.multiSampled, (isSampled_iff f).2 h, h]
  · have : B3.isSampled f = false := by
      cases hs : B3.isSampled f
      · rfl
      · exact absurd ((isSampled_iff f).1 hs) h
    simp [B3.multiSampled, this, h]

/-! ## What the extractors compute, as list functions (no indices) -/

/-- the three fields B3 extraction works on: from the single `b3` header when it is non-empty (at least two
    `-`-separated fields, a fourth and later ones — the parent span id — ignored), else from the three `X-B3-*` headers -/
def b3Fields (b3 tid sid smp : Bytes) : Option (Bytes × Bytes × Bytes) :=
  if b3 = [] then some (tid, sid, smp)
  else
    let fs := splitString 45 3 b3
    if fs.length < 2 then none else some (fs.getD 0 [], fs.getD 1 [], fs.getD 2 [])

def b3Pure (b3 tid sid smp : Bytes) : Option SpanCtx :=
  match b3Fields b3 tid sid smp with
  | none => none
  | some (th, sh, fh) =>
    if isValidHex th && isValidHex sh then
      let t := (hexToBinary th 16).2
      let s := (hexToBinary sh 8).2
      if allZero t || allZero s then none
      else some { traceId := t, spanId := s, flags := b3Decision fh, remote := true, traceState := [] }
    else none

/-- Jaeger: the context denoted by the trace-id, span-id and flags fields (the third field, the parent id, is ignored) -/
def jaegerOf (th sh fh : Bytes) : Option SpanCtx :=
  if isValidHex th && isValidHex sh && isValidHex fh && decide (th.length ≤ 32) && decide (sh.length ≤ 16) &&
     decide (fh.length ≤ 2) then
    let t := (hexToBinary th 16).2
    let s := (hexToBinary sh 8).2
    if allZero t || allZero s then none
    else some { traceId := t, spanId := s, flags := ((hexToBinary fh 1).2.headD 0) &&& 1, remote := true, traceState := [] }
  else none

/-- exactly four `:`-separated fields are required (a fifth and later ones are cut off by `SplitString`) -/
def jaegerPure (h : Bytes) : Option SpanCtx :=
  let fs := splitString 58 4 h
  if fs.length = 4 then jaegerOf (fs.getD 0 []) (fs.getD 1 []) (fs.getD 3 []) else none

/-! ## The index-explicit code never faults and computes these functions -/

theorem traceFlagsFromHex_eq (f : Bytes) : B3.traceFlagsFromHex f = .ok (b3Decision f) := by
  obtain ⟨_, _, _, _, _, g6, g7, _, _, _, g11⟩ := gen_b3
  unfold B3.traceFlagsFromHex b3Decision
  rw [g6, g7, g11]
  match f with
  | [] => simp
  | [c] =>
    have hrd : Idx.rd [c] 0 = .ok c := Idx.rd_at' [] c [] 0 rfl
    simp only [List.length_cons, List.length_nil, ne_eq, not_true, if_false, hrd, IxRes.bind_ok]
    by_cases h1 : c = 49
    · subst h1; simp
    · by_cases h2 : c = 100
      · subst h2; simp
      · simp [h1, h2]
  | _ :: _ :: _ => simp

theorem b3_fields_eq (b3 tid sid smp : Bytes) : B3.fields b3 tid sid smp = .ok (b3Fields b3 tid sid smp) := by
  obtain ⟨g1, g2, g3, _⟩ := gen_b3
  unfold B3.fields b3Fields
  rw [g1, g2, g3, Idx.splitString_eq]
  cases b3 with
  | nil => simp
  | cons c t =>
    simp only [List.isEmpty_cons, Bool.not_false, if_true, IxRes.bind_ok, reduceCtorEq, if_false]
    split <;> rfl

theorem hexPairs_length : ∀ s : Bytes, (hexPairs s).length = s.length / 2
  | [] => rfl
  | [_] => by simp [hexPairs]
  | a :: b :: t => by simp [hexPairs, hexPairs_length t]; omega

/-- `HexToBinary` always leaves exactly the `n` buffer bytes -/
theorem hexToBinary_length (hex : Bytes) (n : Nat) : (hexToBinary hex n).2.length = n := by
  unfold hexToBinary
  by_cases hl : hex.length > 2 * n
  · simp [hl]
  · rw [if_neg hl]
    by_cases ho : hex.length % 2 = 1
    · match hex, hl, ho with
      | c :: t, hl, ho =>
        rw [if_pos ho]
        simp only [List.length_append, List.length_replicate, List.length_cons, hexPairs_length] at hl ho ⊢
        omega
    · rw [if_neg ho]
      simp only [List.length_append, List.length_replicate, hexPairs_length]
      omega

theorem isValid_of_nonzero (t s : Bytes) (fl : UInt8) (h : (allZero t || allZero s) = false) :
    SpanCtx.isValid { traceId := t, spanId := s, flags := fl, remote := true, traceState := [] } = true := by
  simp only [Bool.or_eq_false_iff] at h
  simp [SpanCtx.isValid, h.1, h.2]

/-- **B3 extraction never reads out of bounds** (no `oob`, no `ub`, no exhausted loop bound) for *any* four byte
    strings, and is the list function `b3Pure` -/
theorem b3_extract_eq (b3 tid sid smp : Bytes) : B3.extract b3 tid sid smp = .ok (b3Pure b3 tid sid smp) := by
  obtain ⟨_, _, _, g4, g5, _⟩ := gen_b3
  unfold B3.extract B3.extractImpl b3Pure
  rw [b3_fields_eq, IxRes.bind_ok, g4, g5]
  cases b3Fields b3 tid sid smp with
  | none => rfl
  | some p =>
    obtain ⟨th, sh, fh⟩ := p
    simp only []
    by_cases hv : (isValidHex th && isValidHex sh) = true
    · have hv' := hv
      simp only [Bool.and_eq_true] at hv'
      have e1 : (32 : Nat) / 2 = 16 := rfl
      have e2 : (16 : Nat) / 2 = 8 := rfl
      simp only [hv'.1, hv'.2, Bool.not_true, Bool.or_false, Bool.false_eq_true, if_false, e1, e2,
        Idx.hexToBinary_eq th 16 hv'.1, Idx.hexToBinary_eq sh 8 hv'.2, IxRes.bind_ok, Bool.and_self, if_true, traceFlagsFromHex_eq]
      by_cases hz : (allZero (hexToBinary th 16).2 || allZero (hexToBinary sh 8).2) = true
      · simp [hz]
      · have hz' : (allZero (hexToBinary th 16).2 || allZero (hexToBinary sh 8).2) = false := by simpa using hz
        simp only [hz', Bool.false_eq_true, if_false, IxRes.map_ok, Option.filter, isValid_of_nonzero _ _ _ hz', if_true]
    · have hv' : (isValidHex th && isValidHex sh) = false := by simpa using hv
      have : (!isValidHex th || !isValidHex sh) = true := by
        cases h1 : isValidHex th <;> cases h2 : isValidHex sh <;> simp [h1, h2] at hv' ⊢
      simp [this, hv']

theorem isValid_of_zero (t s : Bytes) (fl : UInt8) (h : (allZero t || allZero s) = true) :
    SpanCtx.isValid { traceId := t, spanId := s, flags := fl, remote := true, traceState := [] } = false := by
  simp only [Bool.or_eq_true] at h
  rcases h with h | h <;> simp [SpanCtx.isValid, h]

theorem hexToBinary_one (fh : Bytes) (hl : fh.length ≤ 2) : ∃ x, (hexToBinary fh 1).2 = [x] := by
  match fh, hl with
  | [], _ => exact ⟨0, by simp [hexToBinary, hexPairs]⟩
  | [a], _ => exact ⟨hexToInt a, by simp [hexToBinary, hexPairs]⟩
  | [a, b], _ => exact ⟨(hexToInt a <<< 4) ||| hexToInt b, by simp [hexToBinary, hexPairs]⟩

theorem hexToBinary_ok_iff (hex : Bytes) (n : Nat) : (hexToBinary hex n).1 = true ↔ hex.length ≤ 2 * n := by
  unfold hexToBinary
  by_cases hl : hex.length > 2 * n
  · simp [hl]
  · simp [hl]; omega

/-- **Jaeger extraction never reads out of bounds** for any byte string, and is the list function `jaegerPure` -/
theorem jaeger_extract_eq (h : Bytes) : Jaeger.extract h = .ok (jaegerPure h) := by
  obtain ⟨g1, g2, g3, _⟩ := gen_jaeger
  unfold Jaeger.extract Jaeger.extractImpl jaegerPure Jaeger.getTraceFlags
  rw [g1, g2, g3, Idx.splitString_eq, IxRes.bind_ok]
  generalize splitString 58 4 h = fs
  by_cases hlen : fs.length = 4
  · have hlen' : ¬ fs.length ≠ 4 := fun hn => hn hlen
    simp only []
    rw [if_neg hlen', if_pos hlen]
    generalize fs.getD 0 [] = th
    generalize fs.getD 1 [] = sh
    generalize fs.getD 3 [] = fh
    unfold jaegerOf
    by_cases hv : (isValidHex th && isValidHex sh && isValidHex fh) = true
    · have hv' := hv
      simp only [Bool.and_eq_true] at hv'
      obtain ⟨⟨v1, v2⟩, v3⟩ := hv'
      simp only [v1, v2, v3, Bool.not_true, Bool.or_false, Bool.false_eq_true, if_false, Bool.and_self, Bool.true_and,
        Idx.hexToBinary_eq th 16 v1, Idx.hexToBinary_eq sh 8 v2, Idx.hexToBinary_eq fh 1 v3, IxRes.bind_ok]
      by_cases l1 : th.length ≤ 32
      · have o1 : (hexToBinary th 16).1 = true := (hexToBinary_ok_iff th 16).2 (by omega)
        by_cases l2 : sh.length ≤ 16
        · have o2 : (hexToBinary sh 8).1 = true := (hexToBinary_ok_iff sh 8).2 (by omega)
          by_cases l3 : fh.length ≤ 2
          · have o3 : (hexToBinary fh 1).1 = true := (hexToBinary_ok_iff fh 1).2 (by omega)
            obtain ⟨x, hx⟩ := hexToBinary_one fh l3
            simp only [o1, o2, o3, l1, l2, l3, decide_true, Bool.not_true, Bool.false_eq_true, if_false, Bool.and_self, if_true, hx,
              List.headD_cons, IxRes.map_ok]
            by_cases hz : (allZero (hexToBinary th 16).2 || allZero (hexToBinary sh 8).2) = true
            · simp [hz, Option.filter, isValid_of_zero _ _ _ hz]
            · have hz' : (allZero (hexToBinary th 16).2 || allZero (hexToBinary sh 8).2) = false := by simpa using hz
              simp only [hz', Bool.false_eq_true, if_false, Option.filter, isValid_of_nonzero _ _ _ hz', if_true]
              rfl
          · have o3 : (hexToBinary fh 1).1 = false := by
              cases hb : (hexToBinary fh 1).1
              · rfl
              · exact absurd ((hexToBinary_ok_iff fh 1).1 hb) (by omega)
            simp [o1, o2, o3, l1, l2, l3, Option.filter]
        · have o2 : (hexToBinary sh 8).1 = false := by
            cases hb : (hexToBinary sh 8).1
            · rfl
            · exact absurd ((hexToBinary_ok_iff sh 8).1 hb) (by omega)
          simp [o1, o2, l1, l2, Option.filter]
      · have o1 : (hexToBinary th 16).1 = false := by
          cases hb : (hexToBinary th 16).1
          · rfl
          · exact absurd ((hexToBinary_ok_iff th 16).1 hb) (by omega)
        simp [o1, l1, Option.filter]
    · have hv' : (isValidHex th && isValidHex sh && isValidHex fh) = false := by simpa using hv
      have : (!isValidHex th || !isValidHex sh || !isValidHex fh) = true := by
        cases h1 : isValidHex th <;> cases h2 : isValidHex sh <;> cases h3 : isValidHex fh <;> simp [h1, h2, h3] at hv' ⊢
      simp [this, hv', Option.filter]
  · have hlen' : fs.length ≠ 4 := hlen
    simp only []
    rw [if_pos hlen', if_neg hlen]
    rfl

/-! ## Hex fields of any length: left padding -/

def AllHex (s : Bytes) : Prop := ∀ c ∈ s, IsHexChar c

theorem hexToInt_ofNat_digitVal (c : UInt8) (h : IsHexChar c) : hexToInt c = UInt8.ofNat (digitVal c) := by
  rw [← hexToInt_eq_digitVal c h]; simp

theorem decodeHexAny_length (s : Bytes) : (decodeHexAny s).length = (s.length + 1) / 2 := by
  unfold decodeHexAny
  split
  · rw [decodeHex_length, List.length_cons]
  · rw [decodeHex_length]; omega

/-- `HexToBinary` on hex digits that fit: the value, right-aligned in the `n`-byte buffer, zeros in front -/
theorem hexToBinary_hex (s : Bytes) (n : Nat) (hl : s.length ≤ 2 * n) (h : AllHex s) :
    hexToBinary s n = (true, leftPad n (decodeHexAny s)) := by
  have hlen := decodeHexAny_length s
  unfold hexToBinary leftPad
  rw [if_neg (by omega), hlen]
  unfold decodeHexAny
  by_cases ho : s.length % 2 = 1
  · rw [if_pos ho, if_pos ho]
    match s, h with
    | c :: t, h =>
      have hc : hexToInt c = UInt8.ofNat (digitVal 48 * 16 + digitVal c) := by
        rw [hexToInt_ofNat_digitVal c (h c (by simp))]
        have : digitVal 48 = 0 := by decide
        rw [this]; simp
      simp only [decodeHex, hexPairs_eq_decode t (fun x hx => h x (by simp [hx])), hc]
  · rw [if_neg ho, if_neg ho, hexPairs_eq_decode s h]

theorem hexToBinary_long (s : Bytes) (n : Nat) (hl : s.length > 2 * n) : hexToBinary s n = (false, List.replicate n 0) := by
  unfold hexToBinary
  rw [if_pos hl]

theorem allZero_replicate (n : Nat) : allZero (List.replicate n 0) = true := by
  simp [allZero]

theorem allZero_leftPad (n : Nat) (v : Bytes) : allZero (leftPad n v) = allZero v := by
  simp [allZero, leftPad]

theorem leftPad_full (n : Nat) (v : Bytes) (h : v.length = n) : leftPad n v = v := by
  simp [leftPad, h]

theorem decodeHexAny_lowerHex (bs : Bytes) : decodeHexAny (lowerHex bs) = bs := by
  unfold decodeHexAny
  rw [if_neg (by rw [lowerHex_length]; omega), decodeHex_lowerHex]

/-! ## How a carrier presents the three B3 fields -/

theorem splitString3_two {sep : UInt8} (a b : Bytes) (ha : sep ∉ a) (hb : sep ∉ b) :
    splitString sep 3 (a ++ sep :: b) = [a, b] := by
  simp [splitString, takeTok_append_sep _ _ ha, takeTok_no_sep _ hb]

theorem splitString3_exact {sep : UInt8} (a b c : Bytes) (ha : sep ∉ a) (hb : sep ∉ b) (hc : sep ∉ c) :
    splitString sep 3 (a ++ sep :: (b ++ sep :: c)) = [a, b, c] := by
  simp [splitString, takeTok_append_sep _ _ ha, takeTok_append_sep _ _ hb, takeTok_no_sep _ hc]

theorem splitString3_more {sep : UInt8} (a b c r : Bytes) (ha : sep ∉ a) (hb : sep ∉ b) (hc : sep ∉ c) :
    splitString sep 3 (a ++ sep :: (b ++ sep :: (c ++ sep :: r))) = [a, b, c] := by
  simp [splitString, takeTok_append_sep _ _ ha, takeTok_append_sep _ _ hb, takeTok_append_sep _ _ hc]

/-- **The documented ways a B3 carrier presents trace id `th`, span id `sh` and sampling state `fh`** (b3-propagation):
    multi-header `X-B3-TraceId` / `X-B3-SpanId` / `X-B3-Sampled` when there is no `b3` header; otherwise the single
    header `{TraceId}-{SpanId}`, `{TraceId}-{SpanId}-{SamplingState}` or
    `{TraceId}-{SpanId}-{SamplingState}-{ParentSpanId…}` — and then the `X-B3-*` headers do not matter. -/
def B3Presents (b3 tid sid smp th sh fh : Bytes) : Prop :=
  (b3 = [] ∧ th = tid ∧ sh = sid ∧ fh = smp) ∨
  (45 ∉ th ∧ 45 ∉ sh ∧ 45 ∉ fh ∧
    ((b3 = th ++ 45 :: sh ∧ fh = []) ∨ b3 = th ++ 45 :: (sh ++ 45 :: fh) ∨ ∃ r, b3 = th ++ 45 :: (sh ++ 45 :: (fh ++ 45 :: r))))

theorem b3Fields_of_presents {b3 tid sid smp th sh fh : Bytes} (h : B3Presents b3 tid sid smp th sh fh) :
    b3Fields b3 tid sid smp = some (th, sh, fh) := by
  unfold b3Fields
  rcases h with ⟨h0, h1, h2, h3⟩ | ⟨d1, d2, d3, h⟩
  · subst h0 h1 h2 h3; simp
  · have hne : b3 ≠ [] := by
      rcases h with ⟨h, _⟩ | h | ⟨r, h⟩ <;> rw [h] <;> simp
    rw [if_neg hne]
    rcases h with ⟨h, hf⟩ | h | ⟨r, h⟩
    · subst hf; rw [h, splitString3_two _ _ d1 d2]; simp
    · rw [h, splitString3_exact _ _ _ d1 d2 d3]; simp
    · rw [h, splitString3_more _ _ _ _ d1 d2 d3]; simp

/-- the context B3 extraction must install for hex fields `th`, `sh` and sampling state `fh` -/
def b3Ctx (th sh fh : Bytes) : SpanCtx :=
  { traceId := leftPad 16 (decodeHexAny th), spanId := leftPad 8 (decodeHexAny sh), flags := b3Decision fh, remote := true, traceState := [] }

/-- **B3 acceptance**: however the carrier presents them, hex fields of at most 32 / 16 digits (either case, any
    length — shorter ids are left-padded with zeros) denoting non-zero ids are accepted and yield exactly that context -/
theorem b3_accepts {b3 tid sid smp th sh fh : Bytes} (hp : B3Presents b3 tid sid smp th sh fh)
    (ht : AllHex th) (hs : AllHex sh) (lt : th.length ≤ 32) (ls : sh.length ≤ 16)
    (nt : NonZero (decodeHexAny th)) (ns : NonZero (decodeHexAny sh)) :
    B3.extract b3 tid sid smp = .ok (some (b3Ctx th sh fh)) := by
  rw [b3_extract_eq]
  unfold b3Pure
  rw [b3Fields_of_presents hp]
  have z1 : allZero (leftPad 16 (decodeHexAny th)) = false := by rw [allZero_leftPad]; exact (allZero_false_iff _).2 nt
  have z2 : allZero (leftPad 8 (decodeHexAny sh)) = false := by rw [allZero_leftPad]; exact (allZero_false_iff _).2 ns
  simp only [isValidHex_of th ht, isValidHex_of sh hs, Bool.and_self, if_true, hexToBinary_hex th 16 (by omega) ht,
    hexToBinary_hex sh 8 (by omega) hs, z1, z2, Bool.or_self, Bool.false_eq_true, if_false]
  rfl

/-! ## The property theorems -/

/-- **B3 single header round trip**, for every valid span context and **every** flags byte: the `b3` header is
    `<32 lower-case hex>-<16 lower-case hex>-<1|0>` (51 bytes) and extraction — whatever the `X-B3-*` headers hold —
    installs the remote context with the same trace id, the same span id and the same sampled decision. -/
theorem b3single_roundtrip (sc : SpanCtx) (hv : sc.isValid = true) (ht : sc.traceId.length = 16) (hs : sc.spanId.length = 8)
    (tid sid smp : Bytes) :
    ∃ h, B3.injectSingle sc = some h ∧
      h = lowerHex sc.traceId ++ [45] ++ lowerHex sc.spanId ++ [45] ++ [if Sampled sc.flags then 49 else 48] ∧
      h.length = 51 ∧
      B3.extract h tid sid smp = .ok (some (remoteOf sc)) := by
  obtain ⟨_, _, _, _, _, _, _, g8, g9, g10, _⟩ := gen_b3
  have hd : (if B3.isSampled sc.flags = true then (49 : UInt8) else 48) = (if Sampled sc.flags then 49 else 48) := by
    by_cases h : Sampled sc.flags
    · simp [(isSampled_iff _).2 h, h]
    · have : ¬ B3.isSampled sc.flags = true := fun hh => h ((isSampled_iff _).1 hh)
      simp [this, h]
  refine ⟨_, ?_, rfl, ?_, ?_⟩
  · simp only [B3.injectSingle, hv, Bool.not_true, Bool.false_eq_true, if_false, g8, g9, g10, traceIdToHex, spanIdToHex,
      hexOfBytes_lower _ traceId_table_lower, hexOfBytes_lower _ spanId_table_lower, List.getD_cons_zero, List.getD_cons_succ, hd]
  · simp [lowerHex_length, ht, hs]
  · simp only [SpanCtx.isValid, Bool.and_eq_true, Bool.not_eq_true'] at hv
    have hp : B3Presents (lowerHex sc.traceId ++ [45] ++ lowerHex sc.spanId ++ [45] ++ [if Sampled sc.flags then 49 else 48])
        tid sid smp (lowerHex sc.traceId) (lowerHex sc.spanId) [if Sampled sc.flags then 49 else 48] := by
      refine Or.inr ⟨not_dash_of_hex _ (lowerHex_hex _), not_dash_of_hex _ (lowerHex_hex _), ?_, Or.inr (Or.inl (by simp))⟩
      split <;> decide
    rw [b3_accepts hp (lowerHex_hex _) (lowerHex_hex _) (by rw [lowerHex_length]; omega) (by rw [lowerHex_length]; omega)
      (by rw [decodeHexAny_lowerHex]; exact (allZero_false_iff _).1 hv.1)
      (by rw [decodeHexAny_lowerHex]; exact (allZero_false_iff _).1 hv.2)]
    unfold b3Ctx remoteOf
    rw [decodeHexAny_lowerHex, decodeHexAny_lowerHex, leftPad_full _ _ ht, leftPad_full _ _ hs]
    have : b3Decision [if Sampled sc.flags then 49 else 48] = sampledBit sc.flags := by
      unfold sampledBit; split <;> decide
    rw [this]

/-- **B3 multi-header round trip**, for every valid span context and **every** flags byte: `X-B3-TraceId` /
    `X-B3-SpanId` are the lower-case hex ids, `X-B3-Sampled` is `1` or `0` — the sampling decision, not a digit of the
    flags byte (D05) — and extraction (no `b3` header present) installs the remote context with the same ids and the
    same sampled decision. -/
theorem b3multi_roundtrip (sc : SpanCtx) (hv : sc.isValid = true) (ht : sc.traceId.length = 16) (hs : sc.spanId.length = 8) :
    ∃ t s f, B3.injectMulti sc = some (t, s, f) ∧
      t = lowerHex sc.traceId ∧ s = lowerHex sc.spanId ∧ f = [if Sampled sc.flags then 49 else 48] ∧
      B3.extract [] t s f = .ok (some (remoteOf sc)) := by
  refine ⟨_, _, _, ?_, rfl, rfl, rfl, ?_⟩
  · simp only [B3.injectMulti, B3.injectMultiWith, gen_b3_multi_fixed, hv, Bool.not_true, Bool.false_eq_true, if_false,
      traceIdToHex, spanIdToHex, hexOfBytes_lower _ traceId_table_lower, hexOfBytes_lower _ spanId_table_lower,
      fixed_multi_sampled_val]
  · simp only [SpanCtx.isValid, Bool.and_eq_true, Bool.not_eq_true'] at hv
    rw [b3_accepts (Or.inl ⟨rfl, rfl, rfl, rfl⟩) (lowerHex_hex _) (lowerHex_hex _) (by rw [lowerHex_length]; omega)
      (by rw [lowerHex_length]; omega)
      (by rw [decodeHexAny_lowerHex]; exact (allZero_false_iff _).1 hv.1)
      (by rw [decodeHexAny_lowerHex]; exact (allZero_false_iff _).1 hv.2)]
    unfold b3Ctx remoteOf
    rw [decodeHexAny_lowerHex, decodeHexAny_lowerHex, leftPad_full _ _ ht, leftPad_full _ _ hs]
    have : b3Decision [if Sampled sc.flags then 49 else 48] = sampledBit sc.flags := by
      unfold sampledBit; split <;> decide
    rw [this]

/-- D05 in the model of the code **before** the fix: for a sampled context whose flags byte has another low-nibble
    bit set (here `0x03`, sampled + random) the multi-header round trip reports "not sampled". -/
theorem b3multi_roundtrip_asis_witness :
    let sc : SpanCtx := { traceId := [0,0,0,0,0,0,0,0,0,0,0,0,0,0,0,1], spanId := [0,0,0,0,0,0,0,1], flags := 3, remote := false, traceState := [] }
    (B3.injectMultiWith false sc).map (fun p => p.2.2) = some [51] ∧
    (B3.injectMultiWith false sc).map (fun p => (b3Pure [] p.1 p.2.1 p.2.2).map (·.flags)) = some (some 0) ∧
    sampledBit sc.flags = 1 := by decide +kernel

/-- … and the as-is code is right exactly on the flag bytes characterised by `asis_multi_sampled_right_iff` -/
theorem b3multi_roundtrip_asis_partial (sc : SpanCtx) (hv : sc.isValid = true) (ht : sc.traceId.length = 16)
    (hs : sc.spanId.length = 8) (hf : ¬ (sc.flags &&& 1 = 1 ∧ sc.flags &&& 0xF ≠ 1 ∧ sc.flags &&& 0xF ≠ 0xD)) :
    ∃ t s f, B3.injectMultiWith false sc = some (t, s, f) ∧ B3.extract [] t s f = .ok (some (remoteOf sc)) := by
  refine ⟨traceIdToHex sc.traceId, spanIdToHex sc.spanId, B3.multiSampled false sc.flags, ?_, ?_⟩
  · simp only [B3.injectMultiWith, hv, Bool.not_true, Bool.false_eq_true, if_false]
  · simp only [SpanCtx.isValid, Bool.and_eq_true, Bool.not_eq_true'] at hv
    simp only [traceIdToHex, spanIdToHex, hexOfBytes_lower _ traceId_table_lower, hexOfBytes_lower _ spanId_table_lower]
    rw [b3_accepts (Or.inl ⟨rfl, rfl, rfl, rfl⟩) (lowerHex_hex _) (lowerHex_hex _) (by rw [lowerHex_length]; omega)
      (by rw [lowerHex_length]; omega)
      (by rw [decodeHexAny_lowerHex]; exact (allZero_false_iff _).1 hv.1)
      (by rw [decodeHexAny_lowerHex]; exact (allZero_false_iff _).1 hv.2)]
    unfold b3Ctx remoteOf
    rw [decodeHexAny_lowerHex, decodeHexAny_lowerHex, leftPad_full _ _ ht, leftPad_full _ _ hs,
      (asis_multi_sampled_right_iff sc.flags).2 hf]

/-! ### Jaeger -/

/-- `{trace-id}:{span-id}:{parent-span-id}:{flags}` — anything after a further `:` is cut off -/
def JaegerPresents (h th sh ph fh : Bytes) : Prop :=
  58 ∉ th ∧ 58 ∉ sh ∧ 58 ∉ ph ∧ 58 ∉ fh ∧
    (h = th ++ 58 :: (sh ++ 58 :: (ph ++ 58 :: fh)) ∨ ∃ r, h = th ++ 58 :: (sh ++ 58 :: (ph ++ 58 :: (fh ++ 58 :: r))))

/-- the context Jaeger extraction must install: ids left-padded, sampled = bit 0 of the flags value -/
def jaegerCtx (th sh fh : Bytes) : SpanCtx :=
  { traceId := leftPad 16 (decodeHexAny th), spanId := leftPad 8 (decodeHexAny sh), flags := sampledBit ((decodeHexAny fh).headD 0), remote := true, traceState := [] }

theorem jaeger_flags (fh : Bytes) (hl : fh.length ≤ 2) :
    (leftPad 1 (decodeHexAny fh)).headD 0 &&& 1 = sampledBit ((decodeHexAny fh).headD 0) := by
  rw [and_one_eq_sampledBit]
  have hlen := decodeHexAny_length fh
  match hd : decodeHexAny fh, hlen with
  | [], _ => rfl
  | [x], _ => rfl
  | _ :: _ :: _, hlen => simp at hlen; omega

/-- **Jaeger acceptance**: four fields, hex ids of at most 32 / 16 digits denoting non-zero ids, hex flags of at most
    two digits (an empty flags field counts as 0) are accepted and yield exactly that context -/
theorem jaeger_accepts {h th sh ph fh : Bytes} (hp : JaegerPresents h th sh ph fh)
    (ht : AllHex th) (hs : AllHex sh) (hf : AllHex fh) (lt : th.length ≤ 32) (ls : sh.length ≤ 16) (lf : fh.length ≤ 2)
    (nt : NonZero (decodeHexAny th)) (ns : NonZero (decodeHexAny sh)) :
    Jaeger.extract h = .ok (some (jaegerCtx th sh fh)) := by
  rw [jaeger_extract_eq]
  obtain ⟨d1, d2, d3, d4, hh⟩ := hp
  have hsplit : splitString 58 4 h = [th, sh, ph, fh] := by
    rcases hh with hh | ⟨r, hh⟩
    · rw [hh]; exact splitString4_exact _ _ _ _ d1 d2 d3 d4
    · rw [hh]; exact splitString4_more _ _ _ _ _ d1 d2 d3 d4
  have z1 : allZero (leftPad 16 (decodeHexAny th)) = false := by rw [allZero_leftPad]; exact (allZero_false_iff _).2 nt
  have z2 : allZero (leftPad 8 (decodeHexAny sh)) = false := by rw [allZero_leftPad]; exact (allZero_false_iff _).2 ns
  unfold jaegerPure jaegerOf
  simp only [hsplit, List.length_cons, List.length_nil, if_true, List.getD_cons_zero, List.getD_cons_succ,
    isValidHex_of th ht, isValidHex_of sh hs, isValidHex_of fh hf, lt, ls, lf, decide_true, Bool.and_self,
    hexToBinary_hex th 16 (by omega) ht, hexToBinary_hex sh 8 (by omega) hs, hexToBinary_hex fh 1 (by omega) hf,
    z1, z2, Bool.or_self, Bool.false_eq_true, if_false, jaeger_flags fh lf]
  rfl

/-- **Jaeger round trip**, for every valid span context and **every** flags byte: `uber-trace-id` is
    `<32 lower-case hex>:<16 lower-case hex>:0:0<1|0>` (54 bytes) and extraction installs the remote context with the
    same trace id, span id and sampled decision. -/
theorem jaeger_roundtrip (sc : SpanCtx) (hv : sc.isValid = true) (ht : sc.traceId.length = 16) (hs : sc.spanId.length = 8) :
    ∃ h, Jaeger.inject sc = some h ∧
      h = lowerHex sc.traceId ++ [58] ++ lowerHex sc.spanId ++ [58, 48, 58, 48] ++ [if Sampled sc.flags then 49 else 48] ∧
      h.length = 54 ∧
      Jaeger.extract h = .ok (some (remoteOf sc)) := by
  obtain ⟨_, _, _, g4, g5, g6, _⟩ := gen_jaeger
  have hd : (if B3.isSampled sc.flags = true then (49 : UInt8) else 48) = (if Sampled sc.flags then 49 else 48) := by
    by_cases h : Sampled sc.flags
    · simp [(isSampled_iff _).2 h, h]
    · have : ¬ B3.isSampled sc.flags = true := fun hh => h ((isSampled_iff _).1 hh)
      simp [this, h]
  refine ⟨_, ?_, rfl, ?_, ?_⟩
  · simp only [Jaeger.inject, hv, Bool.not_true, Bool.false_eq_true, if_false, g4, g5, g6, traceIdToHex, spanIdToHex,
      hexOfBytes_lower _ traceId_table_lower, hexOfBytes_lower _ spanId_table_lower, List.getD_cons_zero, List.drop_succ_cons,
      List.drop_zero, hd]
  · simp [lowerHex_length, ht, hs]
  · simp only [SpanCtx.isValid, Bool.and_eq_true, Bool.not_eq_true'] at hv
    have hp : JaegerPresents (lowerHex sc.traceId ++ [58] ++ lowerHex sc.spanId ++ [58, 48, 58, 48] ++ [if Sampled sc.flags then 49 else 48])
        (lowerHex sc.traceId) (lowerHex sc.spanId) [48] [48, if Sampled sc.flags then 49 else 48] := by
      refine ⟨fun hm => hexChar_not_colon 58 (lowerHex_hex _ 58 hm) rfl, fun hm => hexChar_not_colon 58 (lowerHex_hex _ 58 hm) rfl,
        by decide, ?_, Or.inl (by simp)⟩
      split <;> decide
    have hfh : AllHex [48, if Sampled sc.flags then 49 else 48] := by
      intro c hc
      simp only [List.mem_cons, List.not_mem_nil, or_false] at hc
      rcases hc with hc | hc
      · rw [hc]; decide
      · rw [hc]; split <;> decide
    rw [jaeger_accepts hp (lowerHex_hex _) (lowerHex_hex _) hfh (by rw [lowerHex_length]; omega) (by rw [lowerHex_length]; omega)
      (by simp)
      (by rw [decodeHexAny_lowerHex]; exact (allZero_false_iff _).1 hv.1)
      (by rw [decodeHexAny_lowerHex]; exact (allZero_false_iff _).1 hv.2)]
    unfold jaegerCtx remoteOf
    rw [decodeHexAny_lowerHex, decodeHexAny_lowerHex, leftPad_full _ _ ht, leftPad_full _ _ hs]
    have : sampledBit ((decodeHexAny [48, if Sampled sc.flags then 49 else 48]).headD 0) = sampledBit sc.flags := by
      unfold sampledBit; split <;> decide
    rw [this]

/-! ### The accepted variants -/

/-- **64-bit trace ids are left-padded with zeros**: a 16-digit `TraceId` (however the carrier presents it) yields the
    128-bit id whose upper eight bytes are zero and whose lower eight bytes are the value given. -/
theorem b3_64bit_id_left_padded {b3 tid sid smp th sh fh : Bytes} (hp : B3Presents b3 tid sid smp th sh fh)
    (ht : AllHex th) (hs : AllHex sh) (lt : th.length = 16) (ls : sh.length = 16)
    (nt : NonZero (decodeHex th)) (ns : NonZero (decodeHex sh)) :
    B3.extract b3 tid sid smp = .ok (some { traceId := List.replicate 8 0 ++ decodeHex th, spanId := decodeHex sh, flags := b3Decision fh, remote := true, traceState := [] }) := by
  have e1 : decodeHexAny th = decodeHex th := by unfold decodeHexAny; rw [if_neg (by omega)]
  have e2 : decodeHexAny sh = decodeHex sh := by unfold decodeHexAny; rw [if_neg (by omega)]
  rw [b3_accepts hp ht hs (by omega) (by omega) (by rw [e1]; exact nt) (by rw [e2]; exact ns)]
  unfold b3Ctx leftPad
  rw [e1, e2, decodeHex_length, decodeHex_length, lt, ls]
  rfl

/-- the same for Jaeger (`uber-trace-id` with a 16-digit trace id) -/
theorem jaeger_64bit_id_left_padded {h th sh ph fh : Bytes} (hp : JaegerPresents h th sh ph fh)
    (ht : AllHex th) (hs : AllHex sh) (hf : AllHex fh) (lt : th.length = 16) (ls : sh.length = 16) (lf : fh.length ≤ 2)
    (nt : NonZero (decodeHex th)) (ns : NonZero (decodeHex sh)) :
    Jaeger.extract h = .ok (some { traceId := List.replicate 8 0 ++ decodeHex th, spanId := decodeHex sh, flags := sampledBit ((decodeHexAny fh).headD 0), remote := true, traceState := [] }) := by
  have e1 : decodeHexAny th = decodeHex th := by unfold decodeHexAny; rw [if_neg (by omega)]
  have e2 : decodeHexAny sh = decodeHex sh := by unfold decodeHexAny; rw [if_neg (by omega)]
  rw [jaeger_accepts hp ht hs hf (by omega) (by omega) lf (by rw [e1]; exact nt) (by rw [e2]; exact ns)]
  unfold jaegerCtx leftPad
  rw [e1, e2, decodeHex_length, decodeHex_length, lt, ls]
  rfl

/-- **the sampling decision B3 extraction reports**, for every sampling-state field: sampled iff the field is `1` or
    the debug flag `d`; in particular `0`, an absent field and any other bytes are "not sampled" -/
theorem b3_sampling_decision (fh : Bytes) :
    (b3Decision fh = 1 ↔ (fh = [49] ∨ fh = [100])) ∧ (b3Decision fh = 0 ↔ ¬ (fh = [49] ∨ fh = [100])) := by
  unfold b3Decision
  by_cases h : fh = [49] ∨ fh = [100] <;> simp [h]

/-- **the debug flag `d` counts as sampled** -/
theorem b3_debug_is_sampled {b3 tid sid smp th sh : Bytes} (hp : B3Presents b3 tid sid smp th sh [100])
    (ht : AllHex th) (hs : AllHex sh) (lt : th.length ≤ 32) (ls : sh.length ≤ 16)
    (nt : NonZero (decodeHexAny th)) (ns : NonZero (decodeHexAny sh)) :
    ∃ sc, B3.extract b3 tid sid smp = .ok (some sc) ∧ sc.flags = 1 ∧ Sampled sc.flags :=
  ⟨_, b3_accepts hp ht hs lt ls nt ns, rfl, by show Sampled (1 : UInt8); decide⟩

/-- **a missing sampling field means not sampled** — the two-field single header `{TraceId}-{SpanId}` as well as an
    absent / empty `X-B3-Sampled` -/
theorem b3_missing_sampling_unsampled {b3 tid sid smp th sh : Bytes} (hp : B3Presents b3 tid sid smp th sh [])
    (ht : AllHex th) (hs : AllHex sh) (lt : th.length ≤ 32) (ls : sh.length ≤ 16)
    (nt : NonZero (decodeHexAny th)) (ns : NonZero (decodeHexAny sh)) :
    ∃ sc, B3.extract b3 tid sid smp = .ok (some sc) ∧ sc.flags = 0 ∧ ¬ Sampled sc.flags :=
  ⟨_, b3_accepts hp ht hs lt ls nt ns, rfl, by show ¬ Sampled (0 : UInt8); decide⟩

/-- the two-field single header is such a presentation … -/
theorem b3_two_field_header_presents (th sh tid sid smp : Bytes) (h1 : AllHex th) (h2 : AllHex sh) :
    B3Presents (th ++ 45 :: sh) tid sid smp th sh [] :=
  Or.inr ⟨not_dash_of_hex _ h1, not_dash_of_hex _ h2, by simp, Or.inl ⟨rfl, rfl⟩⟩

/-- … and so are multi headers without `X-B3-Sampled` -/
theorem b3_multi_without_sampled_presents (th sh : Bytes) : B3Presents [] th sh [] th sh [] := Or.inl ⟨rfl, rfl, rfl, rfl⟩

/-- Jaeger: **an empty flags field means not sampled** (`{trace-id}:{span-id}:{parent}:`), and in general the decision
    is bit 0 of the flags value, whatever the other bits (debug, firehose) are -/
theorem jaeger_missing_flags_unsampled {h th sh ph : Bytes} (hp : JaegerPresents h th sh ph [])
    (ht : AllHex th) (hs : AllHex sh) (lt : th.length ≤ 32) (ls : sh.length ≤ 16)
    (nt : NonZero (decodeHexAny th)) (ns : NonZero (decodeHexAny sh)) :
    ∃ sc, Jaeger.extract h = .ok (some sc) ∧ sc.flags = 0 ∧ ¬ Sampled sc.flags :=
  ⟨_, jaeger_accepts hp ht hs (fun _ hc => by simp at hc) lt ls (by simp) nt ns, rfl, by show ¬ Sampled (0 : UInt8); decide⟩

theorem jaeger_sampling_decision (th sh fh : Bytes) :
    ((jaegerCtx th sh fh).flags = 1 ↔ Sampled ((decodeHexAny fh).headD 0)) ∧
    ((jaegerCtx th sh fh).flags = 0 ↔ ¬ Sampled ((decodeHexAny fh).headD 0)) := by
  show (sampledBit _ = 1 ↔ _) ∧ (sampledBit _ = 0 ↔ _)
  unfold sampledBit
  by_cases h : Sampled ((decodeHexAny fh).headD 0) <;> simp [h]

/-- **a non-empty `b3` header takes precedence over the `X-B3-*` headers**: they are not even looked at -/
theorem b3_single_precedes_multi (b3 : Bytes) (hne : b3 ≠ []) (tid sid smp tid' sid' smp' : Bytes) :
    B3.extract b3 tid sid smp = B3.extract b3 tid' sid' smp' := by
  rw [b3_extract_eq, b3_extract_eq]
  unfold b3Pure b3Fields
  rw [if_neg hne, if_neg hne]

/-! ### Arbitrary bytes: a valid context or the caller's context, never a fault -/

/-- **never reads out of bounds** — B3: for every four byte strings the index-explicit model returns a proper result:
    no access outside a buffer, no `substr` beyond the end, no shift of a negative digit value, no loop overrun -/
theorem b3_never_oob (b3 tid sid smp : Bytes) : ∃ r, B3.extract b3 tid sid smp = .ok r := ⟨_, b3_extract_eq _ _ _ _⟩

/-- **never reads out of bounds** — Jaeger -/
theorem jaeger_never_oob (h : Bytes) : ∃ r, Jaeger.extract h = .ok r := ⟨_, jaeger_extract_eq h⟩

/-- what "a context with non-zero ids" means for the installed remote context -/
def Installable (sc : SpanCtx) : Prop :=
  NonZero sc.traceId ∧ NonZero sc.spanId ∧ sc.traceId.length = 16 ∧ sc.spanId.length = 8 ∧ sc.remote = true ∧
  (sc.flags = 0 ∨ sc.flags = 1) ∧ sc.traceState = [] ∧ sc.isValid = true

theorem sampledBit_01 (f : UInt8) : sampledBit f = 0 ∨ sampledBit f = 1 := by
  unfold sampledBit; split <;> simp

/-- **B3, arbitrary bytes**: either the caller's context is returned unchanged (`ok none`) or a context with non-zero
    16-byte / 8-byte ids is installed -/
theorem b3_extract_valid_or_unchanged (b3 tid sid smp : Bytes) :
    B3.extract b3 tid sid smp = .ok none ∨ ∃ sc, B3.extract b3 tid sid smp = .ok (some sc) ∧ Installable sc := by
  rw [b3_extract_eq]
  unfold b3Pure
  cases b3Fields b3 tid sid smp with
  | none => exact Or.inl rfl
  | some p =>
    obtain ⟨th, sh, fh⟩ := p
    simp only []
    by_cases hv : (isValidHex th && isValidHex sh) = true
    · rw [if_pos hv]
      by_cases hz : (allZero (hexToBinary th 16).2 || allZero (hexToBinary sh 8).2) = true
      · rw [if_pos hz]; exact Or.inl rfl
      · rw [if_neg hz]
        have hz' : (allZero (hexToBinary th 16).2 || allZero (hexToBinary sh 8).2) = false := by simpa using hz
        have hz2 := hz'
        simp only [Bool.or_eq_false_iff] at hz2
        refine Or.inr ⟨_, rfl, (allZero_false_iff _).1 hz2.1, (allZero_false_iff _).1 hz2.2, hexToBinary_length _ _,
          hexToBinary_length _ _, rfl, ?_, rfl, isValid_of_nonzero _ _ _ hz'⟩
        unfold b3Decision; split <;> simp
    · rw [if_neg hv]; exact Or.inl rfl

/-- **Jaeger, arbitrary bytes**: the same -/
theorem jaeger_extract_valid_or_unchanged (h : Bytes) :
    Jaeger.extract h = .ok none ∨ ∃ sc, Jaeger.extract h = .ok (some sc) ∧ Installable sc := by
  rw [jaeger_extract_eq]
  unfold jaegerPure
  simp only []
  split
  · unfold jaegerOf
    split
    · by_cases hz : (allZero (hexToBinary ((splitString 58 4 h).getD 0 []) 16).2 || allZero (hexToBinary ((splitString 58 4 h).getD 1 []) 8).2) = true
      · simp only []; rw [if_pos hz]; exact Or.inl rfl
      · simp only []; rw [if_neg hz]
        have hz' : (allZero (hexToBinary ((splitString 58 4 h).getD 0 []) 16).2 || allZero (hexToBinary ((splitString 58 4 h).getD 1 []) 8).2) = false := by simpa using hz
        have hz2 := hz'
        simp only [Bool.or_eq_false_iff] at hz2
        refine Or.inr ⟨_, rfl, (allZero_false_iff _).1 hz2.1, (allZero_false_iff _).1 hz2.2, hexToBinary_length _ _,
          hexToBinary_length _ _, rfl, ?_, rfl, isValid_of_nonzero _ _ _ hz'⟩
        simp only []
        rw [and_one_eq_sampledBit]
        exact sampledBit_01 _
    · exact Or.inl rfl
  · exact Or.inl rfl

/-- **never reads out of bounds** (both extractors; the name used in DESIGN.md) -/
theorem never_oob : (∀ b3 tid sid smp : Bytes, ∃ r, B3.extract b3 tid sid smp = .ok r) ∧ (∀ h : Bytes, ∃ r, Jaeger.extract h = .ok r) :=
  ⟨b3_never_oob, jaeger_never_oob⟩

/-- **for arbitrary bytes: a context with non-zero ids, or the caller's context unchanged** (both extractors) -/
theorem extract_valid_or_unchanged :
    (∀ b3 tid sid smp : Bytes, B3.extract b3 tid sid smp = .ok none ∨ ∃ sc, B3.extract b3 tid sid smp = .ok (some sc) ∧ Installable sc) ∧
    (∀ h : Bytes, Jaeger.extract h = .ok none ∨ ∃ sc, Jaeger.extract h = .ok (some sc) ∧ Installable sc) :=
  ⟨b3_extract_valid_or_unchanged, jaeger_extract_valid_or_unchanged⟩

/-! ### Exact acceptance: extraction installs a context **iff** the carrier presents acceptable fields -/

theorem splitString3_cases (sep : UInt8) (s : Bytes) :
    (∃ a, splitString sep 3 s = [a]) ∨
    (∃ a b, splitString sep 3 s = [a, b] ∧ sep ∉ a ∧ sep ∉ b ∧ s = a ++ sep :: b) ∨
    (∃ a b c, splitString sep 3 s = [a, b, c] ∧ sep ∉ a ∧ sep ∉ b ∧ sep ∉ c ∧
      (s = a ++ sep :: (b ++ sep :: c) ∨ ∃ r, s = a ++ sep :: (b ++ sep :: (c ++ sep :: r)))) := by
  cases h1 : takeTok sep s with
  | mk t1 o1 =>
    cases o1 with
    | none => exact Or.inl ⟨t1, by simp [splitString, h1]⟩
    | some s1 =>
      have e1 := takeTok_some h1
      cases h2 : takeTok sep s1 with
      | mk t2 o2 =>
        cases o2 with
        | none =>
          have e2 := takeTok_none h2
          refine Or.inr (Or.inl ⟨t1, t2, by simp [splitString, h1, h2], e1.2, e2.2, ?_⟩)
          rw [e1.1, e2.1]
        | some s2 =>
          have e2 := takeTok_some h2
          cases h3 : takeTok sep s2 with
          | mk t3 o3 =>
            cases o3 with
            | none =>
              have e3 := takeTok_none h3
              refine Or.inr (Or.inr ⟨t1, t2, t3, by simp [splitString, h1, h2, h3], e1.2, e2.2, e3.2, Or.inl ?_⟩)
              rw [e1.1, e2.1, e3.1]
            | some s3 =>
              have e3 := takeTok_some h3
              refine Or.inr (Or.inr ⟨t1, t2, t3, by simp [splitString, h1, h2, h3], e1.2, e2.2, e3.2, Or.inr ⟨s3, ?_⟩⟩)
              rw [e1.1, e2.1, e3.1]

theorem b3Presents_of_fields {b3 tid sid smp th sh fh : Bytes} (h : b3Fields b3 tid sid smp = some (th, sh, fh)) :
    B3Presents b3 tid sid smp th sh fh := by
  unfold b3Fields at h
  by_cases h0 : b3 = []
  · rw [if_pos h0] at h
    simp only [Option.some.injEq, Prod.mk.injEq] at h
    exact Or.inl ⟨h0, h.1.symm, h.2.1.symm, h.2.2.symm⟩
  · rw [if_neg h0] at h
    rcases splitString3_cases 45 b3 with ⟨a, e⟩ | ⟨a, b, e, d1, d2, hs⟩ | ⟨a, b, c, e, d1, d2, d3, hs⟩
    · rw [e] at h; simp at h
    · rw [e] at h
      simp at h
      obtain ⟨x, y, z⟩ := h
      subst x y z
      exact Or.inr ⟨d1, d2, by simp, Or.inl ⟨hs, rfl⟩⟩
    · rw [e] at h
      simp at h
      obtain ⟨x, y, z⟩ := h
      subst x y z
      exact Or.inr ⟨d1, d2, d3, Or.inr hs⟩

/-- **B3 extraction accepts exactly this**: for *every* four byte strings a context is installed iff the carrier
    presents (in one of the documented ways) a trace id of at most 32 and a span id of at most 16 hex digits of either
    case, both denoting non-zero values — and then it is the remote context with exactly those ids, left-padded, and
    the documented sampling decision.  Everything else (odd separators, non-hex, non-ASCII, NUL, over-long or zero ids,
    a single field) returns the caller's context. -/
theorem b3_extract_iff (b3 tid sid smp : Bytes) (sc : SpanCtx) :
    B3.extract b3 tid sid smp = .ok (some sc) ↔
      ∃ th sh fh, B3Presents b3 tid sid smp th sh fh ∧ AllHex th ∧ AllHex sh ∧ th.length ≤ 32 ∧ sh.length ≤ 16 ∧
        NonZero (decodeHexAny th) ∧ NonZero (decodeHexAny sh) ∧ sc = b3Ctx th sh fh := by
  constructor
  · rw [b3_extract_eq]
    intro h
    simp only [IxRes.ok.injEq] at h
    unfold b3Pure at h
    cases hf : b3Fields b3 tid sid smp with
    | none => rw [hf] at h; simp at h
    | some p =>
      obtain ⟨th, sh, fh⟩ := p
      rw [hf] at h
      simp only [] at h
      by_cases hv : (isValidHex th && isValidHex sh) = true
      · rw [if_pos hv] at h
        simp only [Bool.and_eq_true] at hv
        have ht := of_isValidHex _ hv.1
        have hs := of_isValidHex _ hv.2
        by_cases hz : (allZero (hexToBinary th 16).2 || allZero (hexToBinary sh 8).2) = true
        · rw [if_pos hz] at h; simp at h
        · rw [if_neg hz] at h
          simp only [Bool.or_eq_true, not_or, Bool.not_eq_true] at hz
          have lt : th.length ≤ 32 := by
            apply Decidable.byContradiction; intro hl
            rw [hexToBinary_long th 16 (by omega), allZero_replicate] at hz
            exact absurd hz.1 (by simp)
          have ls : sh.length ≤ 16 := by
            apply Decidable.byContradiction; intro hl
            rw [hexToBinary_long sh 8 (by omega), allZero_replicate] at hz
            exact absurd hz.2 (by simp)
          rw [hexToBinary_hex th 16 (by omega) ht, hexToBinary_hex sh 8 (by omega) hs] at h hz
          simp only [allZero_leftPad] at hz
          refine ⟨th, sh, fh, b3Presents_of_fields hf, ht, hs, lt, ls, (allZero_false_iff _).1 hz.1,
            (allZero_false_iff _).1 hz.2, ?_⟩
          simp only [Option.some.injEq] at h
          rw [← h]; rfl
      · rw [if_neg hv] at h; simp at h
  · rintro ⟨th, sh, fh, hp, ht, hs, lt, ls, nt, ns, rfl⟩
    exact b3_accepts hp ht hs lt ls nt ns

/-- **Jaeger extraction accepts exactly this**: for every byte string a context is installed iff the header has (at
    least) four `:`-separated fields whose first, second and fourth are hex digits of either case, at most 32 / 16 / 2
    long, the ids non-zero; then it is the remote context with those ids, left-padded, sampled = bit 0 of the flags. -/
theorem jaeger_extract_iff (h : Bytes) (sc : SpanCtx) :
    Jaeger.extract h = .ok (some sc) ↔
      ∃ th sh ph fh, JaegerPresents h th sh ph fh ∧ AllHex th ∧ AllHex sh ∧ AllHex fh ∧ th.length ≤ 32 ∧ sh.length ≤ 16 ∧
        fh.length ≤ 2 ∧ NonZero (decodeHexAny th) ∧ NonZero (decodeHexAny sh) ∧ sc = jaegerCtx th sh fh := by
  constructor
  · rw [jaeger_extract_eq]
    intro hx
    simp only [IxRes.ok.injEq] at hx
    unfold jaegerPure at hx
    simp only [] at hx
    by_cases hlen : (splitString 58 4 h).length = 4
    · rw [if_pos hlen] at hx
      match hfs : splitString 58 4 h, hlen with
      | [th, sh, ph, fh], _ =>
        rw [hfs] at hx
        simp only [List.getD_cons_zero, List.getD_cons_succ] at hx
        unfold jaegerOf at hx
        obtain ⟨d1, d2, d3, d4, hshape⟩ := splitString4_spec hfs
        split at hx
        · rename_i hc
          simp only [Bool.and_eq_true, decide_eq_true_eq] at hc
          obtain ⟨⟨⟨⟨⟨v1, v2⟩, v3⟩, lt⟩, ls⟩, lf⟩ := hc
          have ht := of_isValidHex _ v1
          have hs := of_isValidHex _ v2
          have hf := of_isValidHex _ v3
          simp only [] at hx
          rw [hexToBinary_hex th 16 (by omega) ht, hexToBinary_hex sh 8 (by omega) hs, hexToBinary_hex fh 1 (by omega) hf] at hx
          simp only [allZero_leftPad] at hx
          split at hx
          · simp at hx
          · rename_i hz
            simp only [Bool.or_eq_true, not_or, Bool.not_eq_true] at hz
            refine ⟨th, sh, ph, fh, ⟨d1, d2, d3, d4, hshape⟩, ht, hs, hf, lt, ls, lf, (allZero_false_iff _).1 hz.1,
              (allZero_false_iff _).1 hz.2, ?_⟩
            simp only [Option.some.injEq] at hx
            rw [← hx, jaeger_flags fh lf]; rfl
        · simp at hx
    · rw [if_neg hlen] at hx; simp at hx
  · rintro ⟨th, sh, ph, fh, hp, ht, hs, hf, lt, ls, lf, nt, ns, rfl⟩
    exact jaeger_accepts hp ht hs hf lt ls lf nt ns

/-! ## Non-vacuity: the hypotheses are met by concrete contexts / headers -/

def exampleCtx : SpanCtx :=
  { traceId := [0x80,0xf1,0x98,0xee,0x56,0x34,0x3b,0xa8,0x64,0xfe,0x8b,0x2a,0x57,0xd3,0xef,0xf7], spanId := [0xe4,0x57,0xb5,0xa2,0xe4,0xd8,0x6b,0xd1], flags := 0xAB, remote := false, traceState := [] }

example : exampleCtx.isValid = true ∧ exampleCtx.traceId.length = 16 ∧ exampleCtx.spanId.length = 8 ∧ Sampled exampleCtx.flags := by decide
example : (B3.injectSingle exampleCtx).map (·.length) = some 51 := by decide
example : (B3.injectSingle exampleCtx).map (fun h => B3.extract h [] [] []) = some (.ok (some (remoteOf exampleCtx))) := by decide +kernel
example : (B3.injectMultiWith true exampleCtx).map (fun p => B3.extract [] p.1 p.2.1 p.2.2) = some (.ok (some (remoteOf exampleCtx))) := by decide +kernel
example : (Jaeger.inject exampleCtx).map Jaeger.extract = some (.ok (some (remoteOf exampleCtx))) := by decide +kernel
-- a 64-bit trace id, debug flag, parent span id present: `463ac35c9f6413ad-0020000000000001-d-00000000000000aa`
example : B3Presents ([52,54,51,97,99,51,53,99,57,102,54,52,49,51,97,100] ++ 45 :: ([48,48,50,48,48,48,48,48,48,48,48,48,48,48,48,49] ++ 45 :: ([100] ++ 45 :: [48,48,48,48,48,48,48,48,48,48,48,48,48,48,97,97])))
    [] [] [] [52,54,51,97,99,51,53,99,57,102,54,52,49,51,97,100] [48,48,50,48,48,48,48,48,48,48,48,48,48,48,48,49] [100] :=
  Or.inr ⟨by decide, by decide, by decide, Or.inr (Or.inr ⟨_, rfl⟩)⟩
example : AllHex [52,54,51,97,99,51,53,99,57,102,54,52,49,51,97,100] ∧ NonZero (decodeHex [52,54,51,97,99,51,53,99,57,102,54,52,49,51,97,100]) :=
  ⟨by unfold AllHex; decide, ⟨0x46, by decide, by decide⟩⟩
-- junk is left alone without a fault: NUL, non-ASCII, extra separators, over-long hex
example : B3.extract [0, 45, 255, 45, 45] [] [] [] = .ok none := by decide +kernel
example : Jaeger.extract [58, 58, 58, 58, 58] = .ok none := by decide +kernel

/-! ## Contexts without a valid span; the static id helpers on over-long text -/

/-- **an invalid span context is never injected**, by none of the three propagators -/
theorem invalid_never_injected (sc : SpanCtx) (h : sc.isValid = false) :
    B3.injectSingle sc = none ∧ B3.injectMulti sc = none ∧ Jaeger.inject sc = none := by
  simp [B3.injectSingle, B3.injectMulti, B3.injectMultiWith, Jaeger.inject, h]

/-- … in particular the all-zero context `GetSpan` hands out for a context that holds no span (or a value of another
    type under the span key) -/
theorem no_span_never_injected (fl : UInt8) (remote : Bool) :
    let sc : SpanCtx := { traceId := List.replicate 16 0, spanId := List.replicate 8 0, flags := fl, remote := remote, traceState := [] }
    B3.injectSingle sc = none ∧ B3.injectMulti sc = none ∧ Jaeger.inject sc = none := by
  intro sc
  exact invalid_never_injected sc (by simp only [sc, SpanCtx.isValid]; rw [allZero_replicate 16]; rfl)

/-- `TraceIdFromHex` / `SpanIdFromHex` called directly on text longer than the id: the zeroed buffer, i.e. the invalid id -/
theorem idFromHex_overlong_invalid (s : Bytes) (n : Nat) (hl : s.length > 2 * n) :
    Idx.hexToBinary s n = .ok (false, List.replicate n 0) ∧ allZero (List.replicate n 0) = true := by
  refine ⟨?_, allZero_replicate n⟩
  unfold Idx.hexToBinary
  rw [if_pos (by omega)]

end Otel.C16
